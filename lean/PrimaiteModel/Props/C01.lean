/-
C01 — the episode contract of step/reset, for every simulator that returns, every agent policy, every reward
function, every evaluation order without repetitions, and every finite action sequence.
(That the real simulator returns — totality — is carried by the rig, not by these theorems.)
-/
import PrimaiteModel.Model.Episode
import PrimaiteModel.Gen.Episode
import PrimaiteModel.Props.C05
namespace Primaite.Episode

variable {σ Act Req Resp : Type}

def tsOf (ag : Agent Req Resp) : List Nat := ag.hist.map (·.timestep)

/-- sum of the rewards saved in a history (an item without saved reward counts 0) -/
def rsum : List (Item Req Resp) → Int
  | [] => 0
  | it :: rest => it.reward.getD 0 + rsum rest

theorem rsum_append (a b : List (Item Req Resp)) : rsum (a ++ b) = rsum a + rsum b := by
  induction a with
  | nil => simp [rsum]
  | cons x xs ih => simp [rsum, ih]; omega

/-! ### `setLastReward` -/

theorem setLastReward_append (h : List (Item Req Resp)) (it : Item Req Resp) (r : Int) :
    setLastReward (h ++ [it]) r = h ++ [{ it with reward := some r }] := by
  simp [setLastReward]

theorem hist_split (h : List (Item Req Resp)) (it : Item Req Resp) (hl : h.getLast? = some it) :
    ∃ pre, h = pre ++ [it] := List.getLast?_eq_some_iff.mp hl

/-! ### one agent's update -/

theorem updOne_ts (sem : Sem σ Act Req Resp) (step : Nat) (s : σ) (i : Nat) (done) (ag : Agent Req Resp) :
    tsOf (updOne sem step s i done ag) = tsOf ag := by
  unfold updOne tsOf
  by_cases hs : step > 0
  · simp only [hs, if_true]
    cases hl : ag.hist.getLast? with
    | none => simp
    | some it =>
      obtain ⟨pre, hp⟩ := hist_split ag.hist it hl
      simp only [hp, setLastReward_append]
      simp
  · simp [hs]

/-- "the books balance": the running total equals the sum of the rewards saved in the history -/
def Bal (ag : Agent Req Resp) : Prop := ag.total = rsum ag.hist

/-- fresh for this pass: balanced apart from the newest item, which has no reward yet and whose predecessor
carries the current reward value only as history (nothing pending) -/
def Fresh (step : Nat) (ag : Agent Req Resp) : Prop :=
  Bal ag ∧ (step > 0 → ∃ pre it, ag.hist = pre ++ [it] ∧ it.reward = none) ∧ (step = 0 → ag.current = 0)

theorem updOne_bal (sem : Sem σ Act Req Resp) (step : Nat) (s : σ) (i : Nat) (done) (ag : Agent Req Resp)
    (h : Fresh step ag) : Bal (updOne sem step s i done ag) := by
  obtain ⟨hb, hpos, hzero⟩ := h
  unfold Bal at *
  unfold updOne
  by_cases hs : step > 0
  · obtain ⟨pre, it, hh, hr⟩ := hpos hs
    rw [hh] at hb
    simp only [hs, if_true, hh, List.getLast?_concat, setLastReward_append]
    simp only [rsum_append, rsum, hr, Option.getD_none, Option.getD_some] at hb ⊢
    omega
  · have h0 : step = 0 := by omega
    simp only [hs, if_false]
    rw [hzero h0]; simp; exact hb

/-! ### the whole `update_agents` pass -/

theorem updateAgents_length (sem : Sem σ Act Req Resp) (step : Nat) (s : σ) (order : List Nat) (done)
    (ags : List (Agent Req Resp)) : (updateAgents sem step s order done ags).length = ags.length := by
  induction order generalizing done ags with
  | nil => simp [updateAgents]
  | cons i order ih =>
    simp only [updateAgents]
    cases h : ags[i]? with
    | none => simpa using ih done ags
    | some ag => simp only; rw [ih]; simp

theorem updateAgents_ts (sem : Sem σ Act Req Resp) (step : Nat) (s : σ) (order : List Nat) (done)
    (ags : List (Agent Req Resp)) :
    (updateAgents sem step s order done ags).map tsOf = ags.map tsOf := by
  induction order generalizing done ags with
  | nil => simp [updateAgents]
  | cons i order ih =>
    simp only [updateAgents]
    cases h : ags[i]? with
    | none => simpa using ih done ags
    | some ag =>
      simp only
      rw [ih, List.map_set, updOne_ts]
      apply List.ext_getElem?
      intro j
      have hlt : i < ags.length := (List.getElem?_eq_some_iff.mp h).1
      by_cases hj : i = j
      · subst hj
        rw [List.getElem?_set_self (by simpa using hlt)]
        simp [h]
      · rw [List.getElem?_set_ne hj]

/-- Pointwise facts preserved by one agent's update survive the whole pass, in any order. -/
theorem updateAgents_forall (sem : Sem σ Act Req Resp) (step : Nat) (s : σ) (P : Agent Req Resp → Prop)
    (hP : ∀ i done ag, P ag → P (updOne sem step s i done ag)) (order : List Nat) (done)
    (ags : List (Agent Req Resp)) (h : ∀ ag ∈ ags, P ag) :
    ∀ ag ∈ updateAgents sem step s order done ags, P ag := by
  induction order generalizing done ags with
  | nil => simpa [updateAgents] using h
  | cons i order ih =>
    simp only [updateAgents]
    cases hi : ags[i]? with
    | none => simpa using ih done ags h
    | some ag =>
      simp only
      apply ih
      intro a ha
      rcases List.mem_or_eq_of_mem_set ha with h1 | h1
      · exact h a h1
      · rw [h1]; exact hP _ _ _ (h ag (List.mem_of_getElem? hi))

/-- With an evaluation order that lists no agent twice, every agent's books balance after the pass. -/
theorem updateAgents_bal (sem : Sem σ Act Req Resp) (step : Nat) (s : σ) (order : List Nat) (hnd : order.Nodup)
    (done) (ags : List (Agent Req Resp))
    (hfresh : ∀ j ∈ order, ∀ ag : Agent Req Resp, ags[j]? = some ag → Fresh step ag)
    (hbal : ∀ (j : Nat) (ag : Agent Req Resp), ags[j]? = some ag → Bal ag) :
    ∀ (j : Nat) (ag : Agent Req Resp), (updateAgents sem step s order done ags)[j]? = some ag → Bal ag := by
  induction order generalizing done ags with
  | nil => simpa [updateAgents] using hbal
  | cons i order ih =>
    simp only [updateAgents]
    have hnd' : order.Nodup := (List.nodup_cons.mp hnd).2
    have hni : i ∉ order := (List.nodup_cons.mp hnd).1
    cases hi : ags[i]? with
    | none =>
      exact ih hnd' done ags (fun j hj => hfresh j (List.mem_cons_of_mem _ hj)) hbal
    | some ag =>
      simp only
      apply ih hnd'
      · intro j hj a ha
        have hji : i ≠ j := fun e => hni (e ▸ hj)
        rw [List.getElem?_set_ne hji] at ha
        exact hfresh j (List.mem_cons_of_mem _ hj) a ha
      · intro j a ha
        by_cases hji : i = j
        · subst hji
          have hlt : i < ags.length := by
            have := List.getElem?_eq_some_iff.mp hi; exact this.1
          rw [List.getElem?_set_self hlt] at ha
          have := Option.some.inj ha
          rw [← this]
          exact updOne_bal sem step s i done ag (hfresh i (List.mem_cons_self) ag hi)
        · rw [List.getElem?_set_ne hji] at ha
          exact hbal j a ha

/-! ### `apply_agent_actions` -/

theorem applyActions_spec (sem : Sem σ Act Req Resp) (t : Nat) (a : Act) (i : Nat)
    (ags : List (Agent Req Resp)) (s : σ) :
    let r := applyActions sem t a i ags s
    r.1.length = ags.length ∧
    ∀ (j : Nat) (ag : Agent Req Resp), ags[j]? = some ag →
      ∃ it : Item Req Resp, r.1[j]? = some { ag with hist := ag.hist ++ [it] } ∧ it.timestep = t ∧ it.reward = none := by
  induction ags generalizing i s with
  | nil => simp [applyActions]
  | cons ag rest ih =>
    simp only [applyActions]
    obtain ⟨hl, hspec⟩ := ih (i + 1) (sem.apply (sem.choose i t a s) s).1
    refine ⟨by simp [hl], ?_⟩
    intro j ag' hj
    cases j with
    | zero =>
      simp at hj; subst hj
      exact ⟨{ timestep := t, request := sem.choose i t a s, response := (sem.apply (sem.choose i t a s) s).2 },
        by simp, rfl, rfl⟩
    | succ j =>
      simp at hj
      obtain ⟨it, h1, h2, h3⟩ := hspec j ag' hj
      exact ⟨it, by simpa using h1, h2, h3⟩

/-! ### the invariant of a running episode -/

/-- every agent has exactly one history item per tick taken, stamped 0,1,…,step-1, and balanced books -/
structure Inv (g : Game σ Req Resp) : Prop where
  ts : ∀ ag ∈ g.agents, tsOf ag = List.range g.step
  bal : ∀ ag ∈ g.agents, Bal ag

theorem envStep_inv (sem : Sem σ Act Req Resp) (order : List Nat) (hnd : order.Nodup)
    (g : Game σ Req Resp) (a : Act) (h : Inv g) : Inv (envStep sem order g a).1 := by
  have hA := applyActions_spec sem g.step a 0 g.agents (sem.pre g.step g.sim)
  simp only at hA
  obtain ⟨hlen, hspec⟩ := hA
  -- facts about the list after apply_agent_actions
  have hts1 : ∀ ag ∈ (applyActions sem g.step a 0 g.agents (sem.pre g.step g.sim)).1,
      tsOf ag = List.range (g.step + 1) := by
    intro ag hag
    obtain ⟨j, hj⟩ := List.getElem?_of_mem hag
    have hjl : j < g.agents.length := by
      have := (List.getElem?_eq_some_iff.mp hj).1; omega
    obtain ⟨it, h1, h2, _⟩ := hspec j g.agents[j] (List.getElem?_eq_getElem hjl)
    rw [hj] at h1
    have := Option.some.inj h1
    rw [this]
    simp only [tsOf, List.map_append, List.map_cons, List.map_nil, h2]
    have := h.ts g.agents[j] (List.getElem_mem hjl)
    simp only [tsOf] at this
    rw [this, List.range_succ]
  have hfresh1 : ∀ (j : Nat) (ag : Agent Req Resp), (applyActions sem g.step a 0 g.agents (sem.pre g.step g.sim)).1[j]? = some ag →
      Fresh (g.step + 1) ag := by
    intro j ag hj
    have hjl : j < g.agents.length := by
      have := (List.getElem?_eq_some_iff.mp hj).1; omega
    obtain ⟨it, h1, _, h3⟩ := hspec j g.agents[j] (List.getElem?_eq_getElem hjl)
    rw [hj] at h1
    have e := Option.some.inj h1
    have hb := h.bal g.agents[j] (List.getElem_mem hjl)
    refine ⟨?_, fun _ => ⟨g.agents[j].hist, it, by rw [e], h3⟩, fun h0 => by omega⟩
    rw [e]
    simp only [Bal, rsum_append, rsum, h3, Option.getD_none] at hb ⊢
    omega
  constructor
  · intro ag hag
    simp only [envStep] at hag ⊢
    have hm := updateAgents_ts sem (g.step + 1) (sem.tick (g.step + 1)
      (applyActions sem g.step a 0 g.agents (sem.pre g.step g.sim)).2) order []
      (applyActions sem g.step a 0 g.agents (sem.pre g.step g.sim)).1
    obtain ⟨j, hj⟩ := List.getElem?_of_mem hag
    have := congrArg (fun l => l[j]?) hm
    simp only [List.getElem?_map, hj, Option.map_some] at this
    cases hq : (applyActions sem g.step a 0 g.agents (sem.pre g.step g.sim)).1[j]? with
    | none => rw [hq] at this; simp at this
    | some ag0 =>
      rw [hq] at this
      simp only [Option.map_some, Option.some.injEq] at this
      rw [this]
      exact hts1 ag0 (List.mem_of_getElem? hq)
  · intro ag hag
    simp only [envStep] at hag
    obtain ⟨j, hj⟩ := List.getElem?_of_mem hag
    exact updateAgents_bal sem (g.step + 1) _ order hnd [] _
      (fun j _ ag hj => hfresh1 j ag hj) (fun j ag hj => (hfresh1 j ag hj).1) j ag hj

theorem envStep_step (sem : Sem σ Act Req Resp) (order : List Nat) (g : Game σ Req Resp) (a : Act) :
    (envStep sem order g a).1.step = g.step + 1 ∧ (envStep sem order g a).1.maxLen = g.maxLen ∧
    (envStep sem order g a).1.agents.length = g.agents.length := by
  refine ⟨rfl, rfl, ?_⟩
  simp only [envStep]
  rw [updateAgents_length]
  exact (applyActions_spec sem g.step a 0 g.agents (sem.pre g.step g.sim)).1

/-! ## the property theorems -/

/-- Each step advances simulated time by exactly one tick: after any action sequence the tick counter is the
number of actions taken. -/
theorem C01_step_counter (sem : Sem σ Act Req Resp) (order : List Nat) (g : Game σ Req Resp) (as : List Act) :
    (run sem order g as).step = g.step + as.length ∧ (run sem order g as).maxLen = g.maxLen ∧
    (run sem order g as).agents.length = g.agents.length := by
  induction as generalizing g with
  | nil => simp [run]
  | cons a as ih =>
    simp only [run, List.length_cons]
    obtain ⟨h1, h2, h3⟩ := ih (envStep sem order g a).1
    obtain ⟨e1, e2, e3⟩ := envStep_step sem order g a
    exact ⟨by omega, by rw [h2, e2], by rw [h3, e3]⟩

/-- Exactly one action and one response are recorded for every agent at every step (time stamps 0,1,…,n-1, so no
step is skipped or doubled), and every agent's episode total is the sum of its step rewards — for every action
sequence, from any state satisfying the invariant (in particular a freshly reset game). -/
theorem C01_history_and_totals (sem : Sem σ Act Req Resp) (order : List Nat) (hnd : order.Nodup)
    (g : Game σ Req Resp) (h : Inv g) (as : List Act) : Inv (run sem order g as) := by
  induction as generalizing g with
  | nil => simpa [run]
  | cons a as ih => exact ih _ (envStep_inv sem order hnd g a h)

/-- `truncated` is reported exactly when the number of steps taken (this one included) has reached the configured
maximum; `terminated` is always false. -/
theorem C01_truncated_iff (sem : Sem σ Act Req Resp) (order : List Nat) (g : Game σ Req Resp) (a : Act) :
    (envStep sem order g a).2.truncated = decide (g.maxLen ≤ g.step + 1) ∧
    (envStep sem order g a).2.terminated = false := by
  simp [envStep, truncated]

/-- A reset yields an episode at tick 0 with no history and no accumulated reward, whatever happened before: the new
game is a function of the episode's configuration only (`envReset` does not even take the old game). -/
theorem C01_reset_fresh (sem : Sem σ Act Req Resp) (order : List Nat) (build : Nat → σ) (n maxLen ep : Nat) :
    let g := envReset sem order build n maxLen ep
    g.step = 0 ∧ g.agents.length = n ∧ (∀ ag ∈ g.agents, ag.hist = [] ∧ ag.total = 0 ∧ ag.current = 0) ∧ Inv g := by
  have hz : ∀ ag ∈ (envReset sem order build n maxLen ep).agents, ag.hist = [] ∧ ag.total = 0 ∧ ag.current = 0 := by
    simp only [envReset]
    apply updateAgents_forall sem 0 (build ep) (fun ag => ag.hist = [] ∧ ag.total = 0 ∧ ag.current = 0)
    · intro i done ag ⟨h1, h2, h3⟩
      simp [updOne, h1, h2, h3]
    · intro ag hag
      have := List.eq_of_mem_replicate hag
      subst this
      exact ⟨rfl, rfl, rfl⟩
  refine ⟨rfl, by simp [envReset, updateAgents_length], hz, ?_⟩
  constructor
  · intro ag hag
    have := (hz ag hag).1
    simp [tsOf, this, envReset]
  · intro ag hag
    obtain ⟨h1, h2, _⟩ := hz ag hag
    simp [Bal, h1, h2, rsum]

/-- Putting it together for whole runs: reset, then any number of steps. -/
theorem C01_episode_contract (sem : Sem σ Act Req Resp) (order : List Nat) (hnd : order.Nodup)
    (build : Nat → σ) (n maxLen ep : Nat) (as : List Act) :
    let g := run sem order (envReset sem order build n maxLen ep) as
    g.step = as.length ∧ g.agents.length = n ∧
    (∀ ag ∈ g.agents, tsOf ag = List.range as.length ∧ ag.hist.length = as.length ∧ ag.total = rsum ag.hist) := by
  obtain ⟨h0, hn, _, hinv⟩ := C01_reset_fresh sem order build n maxLen ep
  obtain ⟨h1, _, h3⟩ := C01_step_counter sem order (envReset sem order build n maxLen ep) as
  have hI := C01_history_and_totals sem order hnd _ hinv as
  refine ⟨by omega, by omega, ?_⟩
  intro ag hag
  have hts := hI.ts ag hag
  rw [h1, h0, Nat.zero_add] at hts
  refine ⟨hts, ?_, hI.bal ag hag⟩
  have := congrArg List.length hts
  simpa [tsOf] using this

/-- `info["agent_actions"][name] = agent.history[-1]` is well defined after every step and names the item of THIS
step: from a state satisfying the invariant, after `envStep` every agent's history is non-empty and its last item is
stamped with the tick the step started at. -/
theorem C01_info_last_item (sem : Sem σ Act Req Resp) (order : List Nat) (hnd : order.Nodup)
    (g : Game σ Req Resp) (h : Inv g) (a : Act) :
    ∀ ag ∈ (envStep sem order g a).1.agents, ∃ it, ag.hist.getLast? = some it ∧ it.timestep = g.step := by
  intro ag hag
  have hI := envStep_inv sem order hnd g a h
  have hts := hI.ts ag hag
  have hstep : (envStep sem order g a).1.step = g.step + 1 := (envStep_step sem order g a).1
  rw [hstep, List.range_succ] at hts
  unfold tsOf at hts
  cases hl : ag.hist.getLast? with
  | none =>
    have : ag.hist = [] := List.getLast?_eq_none_iff.mp hl
    rw [this] at hts; simp at hts
  | some it =>
    refine ⟨it, rfl, ?_⟩
    obtain ⟨pre, hp⟩ := hist_split ag.hist it hl
    rw [hp, List.map_append] at hts
    have := congrArg List.getLast? hts
    simpa using this

/-- Whole-run form of the truncation clause, including steps taken AFTER truncation: from a reset, the k-th step of the
episode (k = number of steps taken, this one included) reports `truncated` iff k ≥ max — so once the maximum has been
reached every further step of the same episode reports it again. -/
theorem C01_truncated_whole_run (sem : Sem σ Act Req Resp) (order : List Nat) (build : Nat → σ) (n maxLen ep : Nat)
    (as : List Act) (a : Act) :
    (envStep sem order (run sem order (envReset sem order build n maxLen ep) as) a).2.truncated
      = decide (maxLen ≤ as.length + 1) ∧
    (envStep sem order (run sem order (envReset sem order build n maxLen ep) as) a).2.terminated = false := by
  obtain ⟨h1, h2, _⟩ := C01_step_counter sem order (envReset sem order build n maxLen ep) as
  obtain ⟨t1, t2⟩ := C01_truncated_iff sem order (run sem order (envReset sem order build n maxLen ep) as) a
  refine ⟨?_, t2⟩
  rw [t1, h1, h2]
  simp [envReset]

/-! ### responses: every history item carries a documented status (on top of C05's dispatch) -/

/-- the responses recorded in an agent's history, oldest first -/
def respOf (ag : Agent Req Resp) : List Resp := ag.hist.map (·.response)

theorem updOne_resp (sem : Sem σ Act Req Resp) (step : Nat) (s : σ) (i : Nat) (done) (ag : Agent Req Resp) :
    respOf (updOne sem step s i done ag) = respOf ag := by
  unfold updOne respOf
  by_cases hs : step > 0
  · simp only [hs, if_true]
    cases hl : ag.hist.getLast? with
    | none => simp
    | some it =>
      obtain ⟨pre, hp⟩ := hist_split ag.hist it hl
      simp only [hp, setLastReward_append]
      simp
  · simp [hs]

/-- `apply_agent_actions` appends to every agent exactly one item, whose response is what `apply_request` answered to
some request in some simulation state. -/
theorem applyActions_resp (sem : Sem σ Act Req Resp) (t : Nat) (a : Act) (i : Nat) (ags : List (Agent Req Resp)) (s : σ) :
    ∀ ag' ∈ (applyActions sem t a i ags s).1, ∃ ag ∈ ags, ∃ (req : Req) (s' : σ),
      respOf ag' = respOf ag ++ [(sem.apply req s').2] := by
  induction ags generalizing i s with
  | nil => simp [applyActions]
  | cons ag rest ih =>
    intro ag' hag'
    simp only [applyActions, List.mem_cons] at hag'
    rcases hag' with h | h
    · exact ⟨ag, List.mem_cons_self, sem.choose i t a s, s, by rw [h]; simp [respOf]⟩
    · obtain ⟨ag0, hmem, req, s', he⟩ := ih (i + 1) (sem.apply (sem.choose i t a s) s).1 ag' h
      exact ⟨ag0, List.mem_cons_of_mem _ hmem, req, s', he⟩

/-- A property of single responses that `apply_request` always guarantees is a property of every recorded response,
after any action sequence, for every agent. -/
theorem responses_invariant (sem : Sem σ Act Req Resp) (order : List Nat) (P : Resp → Prop)
    (hP : ∀ req s, P (sem.apply req s).2) (g : Game σ Req Resp)
    (hg : ∀ ag ∈ g.agents, ∀ r ∈ respOf ag, P r) (as : List Act) :
    ∀ ag ∈ (run sem order g as).agents, ∀ r ∈ respOf ag, P r := by
  induction as generalizing g with
  | nil => simpa [run] using hg
  | cons a as ih =>
    simp only [run]
    apply ih
    simp only [envStep]
    apply updateAgents_forall sem (g.step + 1) _ (fun ag => ∀ r ∈ respOf ag, P r)
    · intro i done ag h
      rw [updOne_resp]; exact h
    · intro ag' hag' r hr
      obtain ⟨ag, hmem, req, s', he⟩ := applyActions_resp sem g.step a 0 g.agents (sem.pre g.step g.sim) ag' hag'
      rw [he] at hr
      rcases List.mem_append.mp hr with h | h
      · exact hg ag hmem r h
      · simp only [List.mem_singleton] at h
        rw [h]; exact hP req s'

/-- `ReqSim.apply` is C05's execution: with handlers that answer a status, it is `execK` (so everything C05 proves about
refused and reached requests applies to the responses recorded here). -/
theorem ReqSim_apply_eq_execK (R : ReqSim σ) (run' : Request.HId → List Request.Key → σ → σ × Request.Status)
    (hh : ∀ h a s, R.handler h a s = ((run' h a s).1, some (run' h a s).2)) (req : List Request.Key) (s : σ) :
    R.apply req s = ((Request.execK (R.env s) run' (R.kids s) req s).1,
                     some (Request.execK (R.env s) run' (R.kids s) req s).2) := by
  unfold ReqSim.apply
  rw [Request.C05_exec_follows_dispatch (R.env s) run' (R.kids s) req s 0]
  cases Request.dispatchK (R.env s) (R.kids s) req 0 with
  | unreachable d => rfl
  | failure d v => rfl
  | reached h args => simp [hh]

/-- One request: a refusal leaves the simulation untouched and is answered `unreachable` or `failure` by the manager
itself; otherwise the answer is the handler's. -/
theorem ReqSim_apply_cases (R : ReqSim σ) (req : List Request.Key) (s : σ) :
    (R.apply req s = (s, some .unreachable)) ∨ (R.apply req s = (s, some .failure)) ∨
    (∃ h args, Request.dispatchK (R.env s) (R.kids s) req 0 = .reached h args ∧ R.apply req s = R.handler h args s) := by
  unfold ReqSim.apply
  cases hd : Request.dispatchK (R.env s) (R.kids s) req 0 with
  | unreachable d => exact Or.inl rfl
  | failure d v => exact Or.inr (Or.inl rfl)
  | reached h args => exact Or.inr (Or.inr ⟨h, args, rfl, rfl⟩)

/-- Every agent history item carries a response with one of the four documented statuses — for every request tree,
every valuation of the validators, every agent policy and every action sequence — PROVIDED every handler answers with a
`RequestResponse` (refusals are built by the request manager and always do).  Starts from any game whose recorded
responses are documented, in particular a freshly reset one. -/
theorem C01_responses_documented (sem : Sem σ Act (List Request.Key) RawResp) (R : ReqSim σ)
    (happly : sem.apply = R.apply) (hhandlers : ∀ h args s, (R.handler h args s).2.isSome = true)
    (order : List Nat) (g : Game σ (List Request.Key) RawResp)
    (hg : ∀ ag ∈ g.agents, ∀ r ∈ respOf ag, r.isSome = true) (as : List Act) :
    ∀ ag ∈ (run sem order g as).agents, ∀ r ∈ respOf ag, ∃ st ∈ allStatuses, r = some st := by
  have key := responses_invariant sem order (fun r => r.isSome = true)
    (by
      intro req s
      rw [happly]
      rcases ReqSim_apply_cases R req s with h | h | ⟨hd, args, _, h⟩
      · rw [h]; rfl
      · rw [h]; rfl
      · rw [h]; exact hhandlers hd args s) g hg as
  intro ag hag r hr
  have := key ag hag r hr
  cases r with
  | none => simp at this
  | some st => exact ⟨st, by cases st <;> simp [allStatuses], rfl⟩

/-- … in particular from a reset (empty histories). -/
theorem C01_responses_documented_from_reset (sem : Sem σ Act (List Request.Key) RawResp) (R : ReqSim σ)
    (happly : sem.apply = R.apply) (hhandlers : ∀ h args s, (R.handler h args s).2.isSome = true)
    (order : List Nat) (build : Nat → σ) (n maxLen ep : Nat) (as : List Act) :
    ∀ ag ∈ (run sem order (envReset sem order build n maxLen ep) as).agents,
      (∀ r ∈ respOf ag, ∃ st ∈ allStatuses, r = some st) ∧ (respOf ag).length = as.length := by
  obtain ⟨_, _, hz, _⟩ := C01_reset_fresh sem order build n maxLen ep
  intro ag hag
  refine ⟨C01_responses_documented sem R happly hhandlers order _ ?_ as ag hag, ?_⟩
  · intro ag0 h0 r hr
    have := (hz ag0 h0).1
    simp [respOf, this] at hr
  · -- one response per step: the history has exactly `as.length` items (needs no hypothesis on the order here)
    have hlen : ∀ (g : Game σ (List Request.Key) RawResp) (as : List Act) (k : Nat),
        (∀ ag ∈ g.agents, (respOf ag).length = k) →
        ∀ ag ∈ (run sem order g as).agents, (respOf ag).length = k + as.length := by
      intro g as
      induction as generalizing g with
      | nil => intro k h; simpa [run] using h
      | cons a as ih =>
        intro k h ag hag
        simp only [run] at hag
        have := ih (envStep sem order g a).1 (k + 1) (by
          intro ag' hag'
          simp only [envStep] at hag'
          have hP := updateAgents_forall sem (g.step + 1)
            (sem.tick (g.step + 1) (applyActions sem g.step a 0 g.agents (sem.pre g.step g.sim)).2)
            (fun ag => (respOf ag).length = k + 1)
            (by intro i done ag h; rw [updOne_resp]; exact h) order []
            (applyActions sem g.step a 0 g.agents (sem.pre g.step g.sim)).1
            (by
              intro ag1 h1
              obtain ⟨ag0, hmem, req, s', he⟩ := applyActions_resp sem g.step a 0 g.agents (sem.pre g.step g.sim) ag1 h1
              rw [he]; simp [h ag0 hmem])
          exact hP ag' hag') ag hag
        simp only [List.length_cons]; omega
    have := hlen (envReset sem order build n maxLen ep) as 0 (by
      intro ag0 h0
      have := (hz ag0 h0).1
      simp [respOf, this]) ag hag
    omega

/-- The hypothesis on the handlers is needed: with ONE handler that hands back something that is not a
`RequestResponse` (finding class F-2: handlers returning `None`), the very first step records an item without a
documented status. -/
def badSim : ReqSim Nat where
  kids := fun _ => [("do", 0, .leaf 7)]
  env := fun _ _ _ => true
  handler := fun _ _ s => (s + 1, none)

def badSem : Sem Nat Nat (List Request.Key) RawResp where
  pre := fun _ s => s
  choose := fun _ _ _ _ => ["do"]
  apply := badSim.apply
  tick := fun _ s => s
  reward := fun _ _ _ _ => 0

theorem C01_handler_contract_needed :
    ¬ (∀ (sem : Sem Nat Nat (List Request.Key) RawResp) (R : ReqSim Nat), sem.apply = R.apply →
        ∀ (as : List Nat), ∀ ag ∈ (run sem [0] (envReset sem [0] (fun _ => 0) 1 5 0) as).agents,
          ∀ r ∈ respOf ag, ∃ st ∈ allStatuses, r = some st) := by
  intro h
  have := h badSem badSim rfl [0]
  simp [run, envStep, envReset, updateAgents, updOne, applyActions, badSem, badSim, ReqSim.apply, Request.dispatchK,
    Request.lookup, respOf, setLastReward] at this

/-- non-vacuity of `C01_responses_documented`: a tree with a validator that refuses, a missing target and a handler -/
def okSim : ReqSim Nat where
  kids := fun _ => [("node", 0, .node [("pc", 1, .node [("shutdown", 0, .leaf 3)])])]
  env := fun s v _ => v != 1 || s % 2 == 0
  handler := fun _ _ s => (s + 1, some .success)

def okSem : Sem Nat Nat (List Request.Key) RawResp where
  pre := fun _ s => s
  choose := fun i _ a _ => if a = 0 then ["node", "pc", "shutdown"] else if i = 0 then ["node", "nowhere"] else ["node", "pc", "shutdown"]
  apply := okSim.apply
  tick := fun _ s => s
  reward := fun _ _ _ _ => 0

example : ∀ h args s, (okSim.handler h args s).2.isSome = true := by intro _ _ _; rfl
example : ((run okSem [0, 1] (envReset okSem [0, 1] (fun _ => 0) 2 9 0) [0, 0, 1]).agents.map respOf) =
    [[some .success, some .failure, some .unreachable], [some .failure, some .failure, some .failure]] := by decide

/-! ### tie to the regenerated pipeline (Gen/Episode.lean, rewritten from the source on every run) -/

open Primaite.Gen.Episode in
/-- The order of calls in `PrimaiteGymEnv.step`, `advance_timestep`, `apply_agent_actions`, `update_agents` and
`reset`, the comparator of `calculate_truncated`, the literal `terminated = False` and the single history append are
the ones `envStep` / `envReset` model; `PrimaiteRayMARLEnv.step/reset` call the same game methods in the same order
(that is what the rig's driver for scenarios with several RL agents mirrors); `PrimaiteGame.step` (scripted agents
only) is the same sequence without the stored action, plus an observation update at tick 0 that the bookkeeping does
not see. -/
theorem C01_gen_pipeline :
    stepPipeline = ["store_action", "pre_timestep", "apply_agent_actions", "advance_timestep", "get_sim_state",
                    "update_agents", "_get_obs", "calculate_truncated"] ∧
    advanceTimestep = ["step_counter += 1", "update_agent_loggers", "apply_timestep(step_counter)"] ∧
    applyAgentActions = ["get_action(timestep=step_counter)", "format_request", "apply_request",
                         "process_action_response(timestep=step_counter)"] ∧
    updateAgentsBody = ["if step_counter > 0", "update_reward", "save_reward_to_history", "update_observation",
                        "total_reward += current_reward"] ∧
    resetPipeline = ["episode_counter += 1", "from_config(episode_scheduler(episode_counter))", "setup_for_episode",
                     "get_sim_state", "update_agents", "_get_obs"] ∧
    terminatedLiteral = false ∧ historyAppendsPerResponse = 1 ∧
    (∀ s m : Nat, calculateTruncated s m = decide (s ≥ m)) ∧
    marlStepPipeline = stepPipeline ∧ marlResetPipeline = resetPipeline ∧ marlTerminatedLiteral = false ∧
    gameStepPipeline = ["pre_timestep", "if step_counter == 0", "get_sim_state", "update_observation",
                        "apply_agent_actions", "advance_timestep", "get_sim_state", "update_agents"] := by
  refine ⟨by decide, by decide, by decide, by decide, by decide, by decide, by decide, ?_, by decide, by decide, by decide,
    by decide⟩
  intro s m
  unfold calculateTruncated
  by_cases h : s ≥ m <;> simp [h]

open Primaite.Gen.Episode in
/-- Shape of one history record: `process_action_response` is the single statement
`self.history.append(AgentHistoryItem(timestep=…, action=…, parameters=…, request=…, response=…, observation=…))` with
every required field passed through unchanged, nobody overrides it (or `save_reward_to_history`, which writes only the
reward of the last item), the `response` field is a `RequestResponse`, and the `Literal` of `RequestResponse.status`
is exactly the four statuses of the model (`Item`, `setLastReward`, `allStatuses`). -/
theorem C01_gen_history_item :
    historyItemConstruction = [("timestep", "timestep"), ("action", "action"), ("parameters", "parameters"),
                               ("request", "request"), ("response", "response"), ("observation", "observation")] ∧
    historyItemRequired = ["timestep", "action", "parameters", "request", "response"] ∧
    (∀ f ∈ historyItemRequired, (f, f) ∈ historyItemConstruction) ∧
    historyItemFields.lookup "response" = some "RequestResponse" ∧
    historyItemFields.lookup "reward" = some "Optional[float]" ∧
    saveRewardBody = ["self.history[-1].reward = self.reward_function.current_reward"] ∧
    historyWriterOverrides = [] ∧
    responseStatusLiteral = allStatuses.map statusName ∧ responseModelForbidsExtra = true := by
  decide

/-! non-vacuity: a concrete two-agent game, run for three steps -/
def exSem : Sem Nat Nat Nat Nat where
  pre := fun _ s => s
  choose := fun i t a _ => i + t + a
  apply := fun r s => (s + r, r % 2)
  tick := fun t s => s + t
  reward := fun i s _ done => (s : Int) - i + done.length

example : (run exSem [1, 0] (envReset exSem [1, 0] (fun _ => 5) 2 3 0) [7, 8, 9]).step = 3 := by decide
example : (envStep exSem [1, 0] (run exSem [1, 0] (envReset exSem [1, 0] (fun _ => 5) 2 3 0) [7, 8]) 9).2.truncated = true := by
  decide
example : ((run exSem [1, 0] (envReset exSem [1, 0] (fun _ => 5) 2 3 0) [7, 8, 9]).agents.map (fun ag => ag.hist.length)) = [3, 3] := by
  decide

end Primaite.Episode
