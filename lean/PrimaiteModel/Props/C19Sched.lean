/-
C19, part 2 (deepening round) — run-level schedule of the threat-actor agents, `actions_concluded` as an invariant,
and the TAP003 ports of the ends-per-settings / progress-only-after-success theorems.

* `SchedSys` is the scheduling skeleton both TAPs share (threshold guard `timestep < next_execution_timestep or
  actions_concluded`, reschedule to `t + frequency + randint(-variance, variance)` in every slot).  The gap theorem is
  proved once for it and instantiated twice.
* Everything here is about the models of `Model/AgentsTap.lean`; nothing in the models changed.
-/
import PrimaiteModel.Props.C19
import PrimaiteModel.Model.AgentsParams
namespace Primaite.Agents

/-! ## 8. Execution slots of a threshold-scheduled agent (generic) -/

/-- The scheduling view of an agent: a step function on some state, the three fields the guard of `get_action` reads,
the configured frequency / variance, and the range condition on the draws of one input. -/
structure SchedSys (σ ι : Type) where
  step : σ → Int → ι → σ
  dead : σ → Bool
  concluded : σ → Bool
  nextExec : σ → Int
  f : Int
  v : Int
  ok : ι → Prop

namespace SchedSys
variable {σ ι : Type} (S : SchedSys σ ι)

/-- An *execution slot*: the agent is alive and `get_action(t)` gets past its schedule guard. -/
def slot (s : σ) (t : Int) : Bool := !S.dead s && !(decide (t < S.nextExec s) || S.concluded s)

/-- The timesteps of the execution slots of a run that feeds `t, t+1, …`. -/
def slots (S : SchedSys σ ι) : σ → Int → List ι → List Int
  | _, _, [] => []
  | s, t, i :: is => if S.slot s t then t :: slots S (S.step s t i) (t + 1) is else slots S (S.step s t i) (t + 1) is

/-- What the gap theorem needs from the step function. -/
structure Law : Prop where
  dead_stays : ∀ s t i, S.dead s = true → S.dead (S.step s t i) = true
  idle : ∀ s t i, S.dead s = false → S.slot s t = false →
    S.nextExec (S.step s t i) = S.nextExec s ∧ S.concluded (S.step s t i) = S.concluded s
  fire : ∀ s t i, S.slot s t = true → S.ok i →
    S.dead (S.step s t i) = true ∨ ∃ d, -S.v ≤ d ∧ d ≤ S.v ∧ S.nextExec (S.step s t i) = t + S.f + d

theorem slots_nil (hL : S.Law) : ∀ (ins : List ι) (s : σ) (t : Int),
    (S.dead s = true ∨ S.concluded s = true) → S.slots s t ins = [] := by
  intro ins
  induction ins with
  | nil => intro s t _; rfl
  | cons i is ih =>
    intro s t h
    have hs : S.slot s t = false := by
      rcases h with h | h <;> simp [slot, h]
    simp only [slots, hs, Bool.false_eq_true, if_false]
    cases hd : S.dead s with
    | true => exact ih _ _ (Or.inl (hL.dead_stays s t i hd))
    | false =>
      rcases h with h | h
      · rw [hd] at h; cases h
      · exact ih _ _ (Or.inr (by rw [(hL.idle s t i hd hs).2]; exact h))

/-- **Slots of a run.** The first slot is the first timestep `≥ next_execution_timestep`; between consecutive slots lie
`max 1 (frequency + d)` timesteps for a draw `d ∈ [-variance, variance]`, hence a gap in
`[max 1 (f − v), max 1 (f + v)]`. -/
theorem slots_spec (hL : S.Law) : ∀ (ins : List ι) (s : σ) (t : Int), (∀ i ∈ ins, S.ok i) →
    (∀ x, (S.slots s t ins).head? = some x → x = max t (S.nextExec s)) ∧
    GapsIn (max 1 (S.f - S.v)) (max 1 (S.f + S.v)) (S.slots s t ins) := by
  intro ins
  induction ins with
  | nil => intro s t _; simp [slots, GapsIn]
  | cons i is ih =>
    intro s t hok
    have hok' : ∀ j ∈ is, S.ok j := fun j hj => hok j (List.mem_cons_of_mem i hj)
    obtain ⟨ih1, ih2⟩ := ih (S.step s t i) (t + 1) hok'
    cases hs : S.slot s t with
    | false =>
      simp only [slots, hs, Bool.false_eq_true, if_false]
      cases hd : S.dead s with
      | true =>
        rw [S.slots_nil hL is _ _ (Or.inl (hL.dead_stays s t i hd))]
        simp [GapsIn]
      | false =>
        obtain ⟨hn, hc⟩ := hL.idle s t i hd hs
        cases hcon : S.concluded s with
        | true =>
          rw [S.slots_nil hL is _ _ (Or.inr (by rw [hc]; exact hcon))]
          simp [GapsIn]
        | false =>
          have hlt : t < S.nextExec s := by
            simp [slot, hd, hcon] at hs; exact hs
          refine ⟨?_, ih2⟩
          intro x hx
          have := ih1 x hx
          rw [hn] at this
          omega
    | true =>
      simp only [slots, hs, if_true]
      have hge : S.nextExec s ≤ t := by
        simp [slot] at hs; omega
      refine ⟨by intro x hx; simp at hx; omega, ?_⟩
      cases hrest : S.slots (S.step s t i) (t + 1) is with
      | nil => simp [GapsIn]
      | cons x rest =>
        rw [hrest] at ih1 ih2
        refine ⟨?_, ih2⟩
        have hx := ih1 x rfl
        rcases hL.fire s t i hs (hok i List.mem_cons_self) with hdead | ⟨d, hd1, hd2, hnext⟩
        · rw [S.slots_nil hL is _ _ (Or.inl hdead)] at hrest; cases hrest
        · rw [hnext] at hx
          constructor <;> omega

/-- Every slot of a run is at or after the run's first timestep and at or after `next_execution_timestep`. -/
theorem slots_ge (hL : S.Law) : ∀ (ins : List ι) (s : σ) (t : Int),
    ∀ x ∈ S.slots s t ins, t ≤ x ∧ (S.dead s = false → S.concluded s = false → S.nextExec s ≤ x) := by
  intro ins
  induction ins with
  | nil => intro s t x hx; simp [slots] at hx
  | cons i is ih =>
    intro s t x hx
    cases hs : S.slot s t with
    | false =>
      simp only [slots, hs, Bool.false_eq_true, if_false] at hx
      have h := ih _ _ x hx
      refine ⟨by omega, ?_⟩
      intro hd hcon
      obtain ⟨hn, hc⟩ := hL.idle s t i hd hs
      cases hd' : S.dead (S.step s t i) with
      | true => rw [S.slots_nil hL is _ _ (Or.inl hd')] at hx; cases hx
      | false =>
        have := h.2 hd' (by rw [hc]; exact hcon)
        rw [hn] at this
        exact this
    | true =>
      simp only [slots, hs, if_true, List.mem_cons] at hx
      have hge : S.nextExec s ≤ t := by
        simp [slot] at hs; omega
      rcases hx with rfl | hx
      · exact ⟨Int.le_refl _, fun _ _ => hge⟩
      · have h := ih _ _ x hx
        exact ⟨by omega, fun _ _ => by omega⟩

end SchedSys

/-! ## 9. TAP001: run-level schedule, `actions_concluded` invariant -/
namespace Tap1

/-- TAP001 seen as a `SchedSys`. -/
def sched (c : Cfg) : SchedSys St In where
  step := fun s t i => (step c s t i).1
  dead := (·.dead)
  concluded := (·.concluded)
  nextExec := (·.nextExec)
  f := c.frequency
  v := c.variance
  ok := fun i => (-c.variance ≤ i.d1 ∧ i.d1 ≤ c.variance) ∧ (-c.variance ≤ i.d2 ∧ i.d2 ≤ c.variance)

theorem slot_iff (c : Cfg) (s : St) (t : Int) : (sched c).slot s t = (!s.dead && executes s t) := rfl

theorem step_idle_fields (c : Cfg) (s : St) (t : Int) (i : In) (h : executes s t = false) :
    (step c s t i).1.nextExec = s.nextExec ∧ (step c s t i).1.concluded = s.concluded := by
  unfold step
  split
  · exact ⟨rfl, rfl⟩
  · rw [C19_tap1_idle_tick c s t i h]
    split <;> exact ⟨rfl, rfl⟩

/-- An execution slot either raises (the agent is dead afterwards) or reschedules to `t + frequency + d`, `d` one of
the step's two schedule draws. -/
theorem step_fire (c : Cfg) (s : St) (t : Int) (i : In) (hd : s.dead = false) (hex : executes s t = true)
    (hv : 0 ≤ c.variance) :
    (step c s t i).1.dead = true ∨ (step c s t i).1.nextExec = t + c.frequency + i.d1 ∨
      (step c s t i).1.nextExec = t + c.frequency + i.d2 := by
  unfold step
  rw [if_neg (by simp [hd])]
  split
  · exact Or.inl rfl
  · rename_i herr
    right
    cases hh : lookBack s with
    | none =>
      exfalso; apply herr
      simp [getAction, hex, hh, St.raise]
    | some h => exact C19_tap1_reschedules c s t i h hex hh hv

theorem sched_law (c : Cfg) (hv : 0 ≤ c.variance) : (sched c).Law where
  dead_stays := by
    intro s t i hd
    show (step c s t i).1.dead = true
    have hd' : s.dead = true := hd
    unfold step; rw [if_pos hd']; exact hd'
  idle := by
    intro s t i hd hs
    have hex : executes s t = false := by
      have := slot_iff c s t
      rw [hs] at this
      have hd' : s.dead = false := hd
      simpa [hd'] using this.symm
    exact step_idle_fields c s t i hex
  fire := by
    intro s t i hs hok
    have h := slot_iff c s t
    rw [hs] at h
    have hd : s.dead = false := by
      cases hdd : s.dead <;> simp [hdd] at h ⊢
    have hex : executes s t = true := by simpa [hd] using h.symm
    rcases step_fire c s t i hd hex hv with h1 | h1 | h1
    · exact Or.inl h1
    · exact Or.inr ⟨i.d1, hok.1.1, hok.1.2, h1⟩
    · exact Or.inr ⟨i.d2, hok.2.1, hok.2.2, h1⟩

/-- Draws of a run lie in the range the code passes to `randint`. -/
def DrawsIn (c : Cfg) (ins : List In) : Prop := ∀ i ∈ ins, (sched c).ok i

/-- The execution slots of a TAP001 run (timesteps at which the live agent passes its schedule guard). -/
def slotTimes (c : Cfg) (s : St) (t : Int) (ins : List In) : List Int := (sched c).slots s t ins

/-- Every action other than do-nothing is returned in an execution slot. -/
theorem acts_in_slots (c : Cfg) : ∀ (ins : List In) (s : St) (t : Int) (t' : Int) (a : Act),
    (t', Out.act a) ∈ runOut c s t ins → a ≠ Act.nothing → t' ∈ slotTimes c s t ins := by
  intro ins
  induction ins with
  | nil => intro s t t' a h; simp [runOut] at h
  | cons i is ih =>
    intro s t t' a hmem hne
    simp only [runOut, List.mem_cons] at hmem
    unfold slotTimes
    simp only [SchedSys.slots]
    rcases hmem with heq | hmem
    · have ht : t' = t := (Prod.mk.inj heq).1
      have h2 : (step c s t i).2 = Out.act a := (Prod.mk.inj heq).2.symm
      have hs : (sched c).slot s t = true := by
        rw [slot_iff]
        cases hd : s.dead with
        | true => simp [step, hd] at h2
        | false =>
          cases hex : executes s t with
          | true => rfl
          | false =>
            rcases (step_idle c s t i hex).1 with ho | ho
            · rw [ho] at h2; cases h2; exact absurd rfl hne
            · rw [ho] at h2; cases h2
      rw [if_pos hs, ht]
      exact List.mem_cons_self
    · have := ih _ (t + 1) t' a hmem hne
      unfold slotTimes at this
      split
      · exact List.mem_cons_of_mem _ this
      · exact this

/-- **Run-level schedule of TAP001.** For every configuration, every start draw and every sequence of schedule draws
inside `[-variance, variance]`, every trial / scan draw and every response sequence, in a run from the constructor:
the first execution slot is the first timestep `≥ start_step + d0` (so exactly `start_step + d0 ∈ start_step ±
variance` when that is not negative); consecutive execution slots are `max 1 (frequency + d)` apart, i.e. the gaps lie
in `[max 1 (f − v), max 1 (f + v)]`; and every action other than do-nothing is returned in one of these slots.
(A slot may itself return do-nothing — start tick, failed trial — so gaps between *visible* actions are sums of
consecutive slot gaps.) -/
theorem C19_tap1_slot_gaps (c : Cfg) (d0 : Int) (k1 k2 : Nat) (s0 : St) (ins : List In) (h0 : init c d0 k1 k2 = some s0)
    (hins : DrawsIn c ins) :
    (∀ x, (slotTimes c s0 0 ins).head? = some x → x = max 0 (c.startStep + d0)) ∧
    GapsIn (max 1 (c.frequency - c.variance)) (max 1 (c.frequency + c.variance)) (slotTimes c s0 0 ins) ∧
    (∀ x ∈ slotTimes c s0 0 ins, c.startStep + d0 ≤ x) ∧
    (∀ t a, (t, Out.act a) ∈ runOut c s0 0 ins → a ≠ Act.nothing → t ∈ slotTimes c s0 0 ins) := by
  have hs : s0.nextExec = c.startStep + d0 ∧ 0 ≤ c.variance ∧ s0.dead = false ∧ s0.concluded = false := by
    unfold init at h0
    split at h0
    · rename_i hv; cases h0; exact ⟨rfl, by simpa [randintOk] using hv.1, rfl, rfl⟩
    · cases h0
  have hL := sched_law c hs.2.1
  obtain ⟨h1, h2⟩ := (sched c).slots_spec hL ins s0 0 hins
  refine ⟨?_, h2, ?_, fun t a => acts_in_slots c ins s0 0 t a⟩
  · intro x hx; have := h1 x hx; rw [← hs.1]; exact this
  · intro x hx
    have := ((sched c).slots_ge hL ins s0 0 x hx).2 hs.2.2.1 hs.2.2.2
    rw [← hs.1]; exact this

/-- Non-vacuity: start 2, frequency 3, variance 1; draws +1, −1, 0, … give slots 2, 6, 8, 11, 14. -/
example :
    let c : Cfg := { exCfg with startStep := 2, frequency := 3, variance := 1 }
    ∃ s0, init c 0 0 0 = some s0 ∧
      slotTimes c s0 0 ((List.range 16).map fun j =>
        { exIn with d1 := if j = 2 then 1 else if j = 6 then -1 else 0 }) = [2, 6, 8, 11, 14] := by
  refine ⟨_, rfl, ?_⟩
  decide

/-! ### `actions_concluded` is written by `_tap_outcome_handler` only, and only at the end of the chain -/

@[simp] theorem con_failStage (c : Cfg) (s : St) : (failStage c s).concluded = s.concluded := by
  unfold failStage; split <;> rfl
@[simp] theorem con_progress (s : St) : (progress s).concluded = s.concluded := by
  unfold progress; repeat' split
  all_goals simp [St.raise]
@[simp] theorem con_progressIfFinished (s : St) : (progressIfFinished s).concluded = s.concluded := by
  unfold progressIfFinished; split <;> simp
@[simp] theorem con_payloadHandler (s : St) : (payloadHandler s).1.concluded = s.concluded := by
  unfold payloadHandler; repeat' split
  all_goals simp
@[simp] theorem con_payloadContinue (s : St) : (payloadContinue s).concluded = s.concluded := by
  unfold payloadContinue; split <;> simp
@[simp] theorem con_payloadEnter (c : Cfg) (i : In) (s : St) : (payloadEnter c i s).concluded = s.concluded := by
  unfold payloadEnter; repeat' split
  all_goals simp
@[simp] theorem con_payload (c : Cfg) (i : In) (s : St) : (payload c i s).concluded = s.concluded := by
  unfold payload; split <;> simp
@[simp] theorem con_c2c (c : Cfg) (i : In) (s : St) : (c2c c i s).concluded = s.concluded := by
  unfold c2c; repeat' split
  all_goals simp
@[simp] theorem con_updateNextScanTarget (c : Cfg) (i : In) (e : Bool) (s : St) :
    (updateNextScanTarget c i e s).concluded = s.concluded := by
  unfold updateNextScanTarget; repeat' split
  all_goals simp
@[simp] theorem con_scanResponseHandler (c : Cfg) (i : In) (r : Resp) (s : St) :
    (scanResponseHandler c i r s).concluded = s.concluded := by
  unfold scanResponseHandler; repeat' split
  all_goals simp
@[simp] theorem con_scanMark (p : Hist) (s : St) : (scanMark p s).concluded = s.concluded := by
  unfold scanMark; split <;> simp
@[simp] theorem con_scanAbsorb (c : Cfg) (i : In) (p : Hist) (s : St) : (scanAbsorb c i p s).concluded = s.concluded := by
  unfold scanAbsorb; split <;> simp
@[simp] theorem con_scanLogic (s : St) : (scanLogic s).1.concluded = s.concluded := by
  unfold scanLogic; repeat' split
  all_goals simp
@[simp] theorem con_scanAction (ty : ScanType) (s : St) : (scanAction ty s).concluded = s.concluded := by
  unfold scanAction; split <;> simp
@[simp] theorem con_scanProgress (s : St) : (scanProgress s).1.concluded = s.concluded := by
  unfold scanProgress; repeat' split
  all_goals simp
@[simp] theorem con_scanDecide (c : Cfg) (s : St) : (scanDecide c s).1.concluded = s.concluded := by
  unfold scanDecide; split <;> simp
@[simp] theorem con_scanHandler (c : Cfg) (i : In) (s : St) : (scanHandler c i s).1.concluded = s.concluded := by
  unfold scanHandler; repeat' split
  all_goals simp [St.raise]
@[simp] theorem con_propagatePrep (c : Cfg) (s : St) : (propagatePrep c s).concluded = s.concluded := by
  unfold propagatePrep propagateReset; repeat' split
  all_goals simp [St.raise]
@[simp] theorem con_propagateFirstScan (s : St) : (propagateFirstScan s).concluded = s.concluded := by
  simp [propagateFirstScan]
@[simp] theorem con_propagate (c : Cfg) (i : In) (s : St) : (propagate c i s).concluded = s.concluded := by
  unfold propagate; repeat' split
  all_goals simp
@[simp] theorem con_activate (s : St) : (activate s).concluded = s.concluded := by
  unfold activate; split <;> simp
@[simp] theorem con_install (s : St) : (install s).concluded = s.concluded := by
  unfold install; split <;> simp
@[simp] theorem con_downloadAct (s : St) : (downloadAct s).concluded = s.concluded := by
  unfold downloadAct; repeat' split
  all_goals simp
@[simp] theorem con_download (s : St) : (download s).concluded = s.concluded := by
  unfold download; split <;> simp
@[simp] theorem con_tapStart (s : St) : (tapStart s).concluded = s.concluded := by
  unfold tapStart; repeat' split
  all_goals simp [St.raise]
@[simp] theorem con_bodies (c : Cfg) (i : In) (s : St) : (bodies c i s).concluded = s.concluded := by
  simp [bodies]

theorem con_setNext (c : Cfg) (s : St) (b d : Int) : (setNext c s b d).concluded = s.concluded :=
  (setNext_fields c s b d).2.2

theorem con_returnHandler (c : Cfg) (h : Hist) (s : St) : (returnHandler c h s).concluded = s.concluded := by
  unfold returnHandler; split <;> rfl

/-- `_tap_outcome_handler` is the only writer: it sets the flag only without `repeat_kill_chain`, only when the stage is
SUCCEEDED or FAILED, keeps the stage and chooses do-nothing. -/
theorem outcome_concluded (c : Cfg) (s : St) (h : (outcomeHandler c s).concluded = true) :
    s.concluded = true ∨ (c.repeatKillChain = false ∧ (s.cur = .succeeded ∨ s.cur = .failed) ∧
      (outcomeHandler c s).cur = s.cur ∧ (outcomeHandler c s).chosen = Act.nothing) := by
  by_cases ht : s.cur = .succeeded ∨ s.cur = .failed
  · cases hc : s.concluded with
    | true => exact Or.inl rfl
    | false =>
      cases hr : c.repeatKillChain with
      | true => simp [outcomeHandler, ht, hc, hr] at h
      | false => right; simp [outcomeHandler, ht, hc, hr]
  · have : outcomeHandler c s = s := by simp [outcomeHandler, ht]
    rw [this] at h; exact Or.inl h

/-- **`actions_concluded` is set nowhere else** (one call). If a call of `get_action` turns the flag on, then the call
was an execution slot, `repeat_kill_chain` is off, the stage after the call is SUCCEEDED or FAILED, and the call
returned do-nothing. -/
theorem C19_tap1_concluded_only_at_end (c : Cfg) (s : St) (t : Int) (i : In) (h0 : s.concluded = false)
    (h1 : (getAction c s t i).1.concluded = true) :
    executes s t = true ∧ c.repeatKillChain = false ∧
    ((getAction c s t i).1.cur = .succeeded ∨ (getAction c s t i).1.cur = .failed) ∧
    (getAction c s t i).2 = Act.nothing := by
  unfold getAction at h1 ⊢
  split at h1
  · rw [h0] at h1; cases h1
  · rename_i hex
    rw [if_neg hex]
    refine ⟨by simpa using hex, ?_⟩
    split at h1
    · simp [St.raise, h0] at h1
    · rename_i h hh
      have hr0 : (returnHandler c h s).concluded = false := by rw [con_returnHandler]; exact h0
      generalize returnHandler c h s = s1 at h1 hr0 ⊢
      split at h1
      · rename_i hp
        rw [if_pos hp]
        unfold mainPath at h1 ⊢
        rw [con_bodies] at h1
        generalize hs2 : setNext c { s1 with curT := t } (t + c.frequency) i.d1 = s2 at h1 ⊢
        have h2 : s2.concluded = false ∧ s2.cur = s1.cur := by
          subst hs2; exact ⟨by rw [con_setNext]; exact hr0, (setNext_fields c _ _ _).1⟩
        rcases outcome_concluded c s2 h1 with hc | ⟨hrep, hterm, hcur, hch⟩
        · rw [h2.1] at hc; cases hc
        · have hterm' : (outcomeHandler c s2).cur = .succeeded ∨ (outcomeHandler c s2).cur = .failed := by
            rw [hcur]; exact hterm
          rw [bodies_terminal c i _ hterm']
          exact ⟨hrep, hterm', hch⟩
      · rename_i hp
        rw [if_neg hp]
        unfold failPath at h1 ⊢
        rw [con_setNext] at h1
        simp only [] at h1
        generalize hs2 : setNext c s1 (t + c.frequency) i.d1 = s2 at h1 ⊢
        have h2 : s2.concluded = false := by subst hs2; rw [con_setNext]; exact hr0
        rcases outcome_concluded c s2 h1 with hc | ⟨hrep, hterm, hcur, hch⟩
        · rw [h2] at hc; cases hc
        · have hf := setNext_fields c { outcomeHandler c s2 with curT := t } (t + c.frequency) i.d2
          refine ⟨hrep, ?_, ?_⟩
          · rw [hf.1]; simp only []; rw [hcur]; exact hterm
          · rw [setNext_chosen]; exact hch

/-- The flag implies: `repeat_kill_chain` is off and the chain has ended. -/
def ConcInv (c : Cfg) (s : St) : Prop :=
  s.concluded = true → c.repeatKillChain = false ∧ (s.cur = .succeeded ∨ s.cur = .failed)

theorem step_concInv (c : Cfg) (s : St) (t : Int) (i : In) (h : ConcInv c s) : ConcInv c (step c s t i).1 := by
  unfold step
  split
  · exact h
  · split
    · exact h
    · intro hc
      simp only [] at hc ⊢
      cases h0 : s.concluded with
      | true =>
        rw [C19_tap1_concluded_absorbing c s t i h0]
        exact h h0
      | false =>
        have := C19_tap1_concluded_only_at_end c s t i h0 hc
        exact ⟨this.2.1, this.2.2.1⟩

theorem run_inv (c : Cfg) (P : St → Prop) (hstep : ∀ s t i, P s → P (step c s t i).1) :
    ∀ (ins : List In) (s : St) (t : Int), P s → ∀ s' ∈ run c s t ins, P s' := by
  intro ins
  induction ins with
  | nil => intro s t _ s' h; simp [run] at h
  | cons i is ih =>
    intro s t hp s' hs'
    simp only [run, List.mem_cons] at hs'
    rcases hs' with rfl | hs'
    · exact hstep s t i hp
    · exact ih _ (t + 1) (hstep s t i hp) s' hs'

/-- **`actions_concluded` as a run invariant** (TAP001): in every run from the constructor, whenever the flag is set,
`repeat_kill_chain` is off and the sampled stage is SUCCEEDED or FAILED.  In particular an agent with
`repeat_kill_chain` never concludes, and no agent concludes in the middle of its chain. -/
theorem C19_tap1_concluded_invariant (c : Cfg) (d0 : Int) (k1 k2 : Nat) (s0 : St) (ins : List In) (h0 : init c d0 k1 k2 = some s0) :
    ∀ s ∈ run c s0 0 ins, s.concluded = true → c.repeatKillChain = false ∧ (s.cur = .succeeded ∨ s.cur = .failed) := by
  have hinit : ConcInv c s0 := by
    unfold init at h0
    split at h0
    · cases h0; intro h; cases h
    · cases h0
  exact run_inv c (ConcInv c) (fun s t i => step_concInv c s t i) ins s0 0 hinit

end Tap1
/-! ## 10. TAP003: run-level schedule, `actions_concluded` invariant, stops / restarts / progress-only-after-success -/
namespace Tap3

/-- The two response handlers that run before the guard touch neither the history nor the remembered timestep. -/
theorem preGuard_hist (c : Cfg) (s : St) :
    (preGuardHandlers c s).hist = s.hist ∧ (preGuardHandlers c s).curT = s.curT := by
  have hl : ∀ s : St, (handleLogin s).hist = s.hist ∧ (handleLogin s).curT = s.curT := by
    intro s; unfold handleLogin; repeat' split
    all_goals simp [St.raise]
  have hp : ∀ s : St, (handleChangePw c s).hist = s.hist ∧ (handleChangePw c s).curT = s.curT := by
    intro s; unfold handleChangePw; repeat' split
    all_goals simp
  unfold preGuardHandlers
  have a := hl s
  have b := hp (handleLogin s)
  exact ⟨by rw [b.1, a.1], by rw [b.2, a.2]⟩

theorem lookBack_preGuard (c : Cfg) (s : St) : lookBack (preGuardHandlers c s) = lookBack s := by
  have hq := preGuard_hist c s
  unfold lookBack
  rw [hq.1, hq.2]

theorem executes_preGuard (c : Cfg) (s : St) (t : Int) : executes (preGuardHandlers c s) t = executes s t := by
  have hp := preGuard_fields c s
  simp only [executes, hp.2.2.1, hp.2.2.2]

theorem getAction_idle (c : Cfg) (s : St) (t : Int) (i : In) (h : executes s t = false) :
    getAction c s t i = (preGuardHandlers c s, Act.nothing) := by
  unfold getAction getActionCore
  rw [if_pos (by rw [executes_preGuard]; simp [h])]

/-- TAP003 seen as a `SchedSys`. -/
def sched (c : Cfg) : SchedSys St In where
  step := fun s t i => (step c s t i).1
  dead := (·.dead)
  concluded := (·.concluded)
  nextExec := (·.nextExec)
  f := c.frequency
  v := c.variance
  ok := fun i => -c.variance ≤ i.d1 ∧ i.d1 ≤ c.variance

theorem slot_iff (c : Cfg) (s : St) (t : Int) : (sched c).slot s t = (!s.dead && executes s t) := rfl

theorem step_idle_fields (c : Cfg) (s : St) (t : Int) (i : In) (h : executes s t = false) :
    (step c s t i).1.nextExec = s.nextExec ∧ (step c s t i).1.concluded = s.concluded := by
  have hp := preGuard_fields c s
  unfold step
  split
  · exact ⟨rfl, rfl⟩
  · rw [getAction_idle c s t i h]
    split
    · exact ⟨rfl, rfl⟩
    · exact ⟨hp.2.2.2, hp.2.2.1⟩

theorem step_fire (c : Cfg) (s : St) (t : Int) (i : In) (hd : s.dead = false) (hex : executes s t = true)
    (hv : 0 ≤ c.variance) :
    (step c s t i).1.dead = true ∨ (step c s t i).1.nextExec = t + c.frequency + i.d1 := by
  unfold step
  rw [if_neg (by simp [hd])]
  split
  · exact Or.inl rfl
  · rename_i herr
    right
    cases hh : lookBack (preGuardHandlers c s) with
    | none =>
      exfalso; apply herr
      have hex' : executes (preGuardHandlers c s) t = true := by rw [executes_preGuard]; exact hex
      simp [getAction, getActionCore, hex', hh, St.raise]
    | some h => exact C19_tap3_reschedules c s t i h hex hh hv

theorem sched_law (c : Cfg) (hv : 0 ≤ c.variance) : (sched c).Law where
  dead_stays := by
    intro s t i hd
    show (step c s t i).1.dead = true
    have hd' : s.dead = true := hd
    unfold step; rw [if_pos hd']; exact hd'
  idle := by
    intro s t i hd hs
    have hex : executes s t = false := by
      have := slot_iff c s t
      rw [hs] at this
      have hd' : s.dead = false := hd
      simpa [hd'] using this.symm
    exact step_idle_fields c s t i hex
  fire := by
    intro s t i hs hok
    have h := slot_iff c s t
    rw [hs] at h
    have hd : s.dead = false := by
      cases hdd : s.dead <;> simp [hdd] at h ⊢
    have hex : executes s t = true := by simpa [hd] using h.symm
    rcases step_fire c s t i hd hex hv with h1 | h1
    · exact Or.inl h1
    · exact Or.inr ⟨i.d1, hok.1, hok.2, h1⟩

def DrawsIn (c : Cfg) (ins : List In) : Prop := ∀ i ∈ ins, (sched c).ok i

/-- The execution slots of a TAP003 run. -/
def slotTimes (c : Cfg) (s : St) (t : Int) (ins : List In) : List Int := (sched c).slots s t ins

theorem acts_in_slots (c : Cfg) : ∀ (ins : List In) (s : St) (t : Int) (t' : Int) (a : Act),
    (t', Out.act a) ∈ runOut c s t ins → a ≠ Act.nothing → t' ∈ slotTimes c s t ins := by
  intro ins
  induction ins with
  | nil => intro s t t' a h; simp [runOut] at h
  | cons i is ih =>
    intro s t t' a hmem hne
    simp only [runOut, List.mem_cons] at hmem
    unfold slotTimes
    simp only [SchedSys.slots]
    rcases hmem with heq | hmem
    · have ht : t' = t := (Prod.mk.inj heq).1
      have h2 : (step c s t i).2 = Out.act a := (Prod.mk.inj heq).2.symm
      have hs : (sched c).slot s t = true := by
        rw [slot_iff]
        cases hd : s.dead with
        | true => simp [step, hd] at h2
        | false =>
          cases hex : executes s t with
          | true => rfl
          | false =>
            rcases (step_idle c s t i hex).1 with ho | ho
            · rw [ho] at h2; cases h2; exact absurd rfl hne
            · rw [ho] at h2; cases h2
      rw [if_pos hs, ht]
      exact List.mem_cons_self
    · have := ih _ (t + 1) t' a hmem hne
      unfold slotTimes at this
      split
      · exact List.mem_cons_of_mem _ this
      · exact this

/-- **Run-level schedule of TAP003** (same statement as `C19_tap1_slot_gaps`): first slot = first timestep
`≥ start_step + d0`; consecutive slots `max 1 (frequency + d1)` apart, gaps in `[max 1 (f − v), max 1 (f + v)]`; every
action other than do-nothing is returned in a slot. -/
theorem C19_tap3_slot_gaps (c : Cfg) (d0 : Int) (k : Nat) (s0 : St) (ins : List In) (h0 : init c d0 k = some s0)
    (hins : DrawsIn c ins) :
    (∀ x, (slotTimes c s0 0 ins).head? = some x → x = max 0 (c.startStep + d0)) ∧
    GapsIn (max 1 (c.frequency - c.variance)) (max 1 (c.frequency + c.variance)) (slotTimes c s0 0 ins) ∧
    (∀ x ∈ slotTimes c s0 0 ins, c.startStep + d0 ≤ x) ∧
    (∀ t a, (t, Out.act a) ∈ runOut c s0 0 ins → a ≠ Act.nothing → t ∈ slotTimes c s0 0 ins) := by
  have hs : s0.nextExec = c.startStep + d0 ∧ 0 ≤ c.variance ∧ s0.dead = false ∧ s0.concluded = false := by
    unfold init at h0
    split at h0
    · rename_i hv; cases h0; exact ⟨rfl, by simpa [randintOk] using hv.1, rfl, rfl⟩
    · cases h0
  have hL := sched_law c hs.2.1
  obtain ⟨h1, h2⟩ := (sched c).slots_spec hL ins s0 0 hins
  refine ⟨?_, h2, ?_, fun t a => acts_in_slots c ins s0 0 t a⟩
  · intro x hx; have := h1 x hx; rw [← hs.1]; exact this
  · intro x hx
    have := ((sched c).slots_ge hL ins s0 0 x hx).2 hs.2.2.1 hs.2.2.2
    rw [← hs.1]; exact this

/-- Non-vacuity: start 2, frequency 3, variance 1; draws +1 at step 2 and −1 at step 6 give slots 2, 6, 8, 11, 14. -/
example :
    let c : Cfg := { exCfg with startStep := 2, frequency := 3, variance := 1 }
    ∃ s0, init c 0 0 = some s0 ∧
      slotTimes c s0 0 ((List.range 16).map fun j =>
        { exIn with d1 := if j = 2 then 1 else if j = 6 then -1 else 0 }) = [2, 6, 8, 11, 14] := by
  refine ⟨_, rfl, ?_⟩
  decide

/-! ### `actions_concluded` is written by `_tap_outcome_handler` only -/

@[simp] theorem con_failStage (c : Cfg) (s : St) : (failStage c s).concluded = s.concluded := by
  unfold failStage; split <;> rfl
@[simp] theorem con_progress (s : St) : (progress s).concluded = s.concluded := by
  unfold progress; repeat' split
  all_goals simp [St.raise]
@[simp] theorem con_manipBegin (s : St) : (manipBegin s).concluded = s.concluded := by
  unfold manipBegin; split <;> simp
@[simp] theorem con_manipAct (c : Cfg) (s : St) : (manipAct c s).concluded = s.concluded := by
  unfold manipAct; repeat' split
  all_goals simp [St.raise]
@[simp] theorem con_manipFinish (s : St) : (manipFinish s).concluded = s.concluded := by
  unfold manipFinish; split <;> simp
@[simp] theorem con_manipulation (c : Cfg) (i : In) (s : St) : (manipulation c i s).concluded = s.concluded := by
  unfold manipulation; repeat' split
  all_goals simp
@[simp] theorem con_exploitAct (a : Acl) (cr : Cred) (ip : Val) (s : St) : (exploitAct a cr ip s).concluded = s.concluded := by
  unfold exploitAct; split <;> simp
@[simp] theorem con_exploitFinish (s : St) : (exploitFinish s).concluded = s.concluded := by
  unfold exploitFinish; split <;> simp
@[simp] theorem con_exploitBody (c : Cfg) (s : St) : (exploitBody c s).concluded = s.concluded := by
  unfold exploitBody; repeat' split
  all_goals simp [St.raise]
@[simp] theorem con_exploitEnter (s : St) : (exploitEnter s).concluded = s.concluded := (exploitEnter_fields s).2.2.2
@[simp] theorem con_exploit (c : Cfg) (i : In) (s : St) : (exploit c i s).concluded = s.concluded := by
  unfold exploit; repeat' split
  all_goals simp
@[simp] theorem con_access (c : Cfg) (i : In) (s : St) : (access c i s).concluded = s.concluded := by
  unfold access; repeat' split
  all_goals simp
@[simp] theorem con_planning (c : Cfg) (i : In) (s : St) : (planning c i s).concluded = s.concluded := by
  unfold planning; repeat' split
  all_goals simp
@[simp] theorem con_reconnaissance (s : St) : (reconnaissance s).concluded = s.concluded := by
  unfold reconnaissance; split <;> simp
@[simp] theorem con_tapStart (s : St) : (tapStart s).concluded = s.concluded := by
  unfold tapStart; repeat' split
  all_goals simp [St.raise]
@[simp] theorem con_bodies (c : Cfg) (i : In) (s : St) : (bodies c i s).concluded = s.concluded := by
  simp [bodies]

theorem con_setNext (c : Cfg) (s : St) (b d : Int) : (setNext c s b d).concluded = s.concluded :=
  (setNext_fields c s b d).2.2

theorem con_returnHandler (c : Cfg) (h : Hist) (s : St) : (returnHandler c h s).concluded = s.concluded := by
  unfold returnHandler; split <;> rfl

theorem outcome_concluded (c : Cfg) (s : St) (h : (outcomeHandler c s).concluded = true) :
    s.concluded = true ∨ (c.repeatKillChain = false ∧ (s.cur = .succeeded ∨ s.cur = .failed) ∧
      (outcomeHandler c s).cur = s.cur ∧ (outcomeHandler c s).chosen = Act.nothing) := by
  by_cases ht : s.cur = .succeeded ∨ s.cur = .failed
  · cases hc : s.concluded with
    | true => exact Or.inl rfl
    | false =>
      cases hr : c.repeatKillChain with
      | true => simp [outcomeHandler, ht, hc, hr] at h
      | false => right; simp [outcomeHandler, ht, hc, hr]
  · have : outcomeHandler c s = s := by simp [outcomeHandler, ht]
    rw [this] at h; exact Or.inl h

theorem core_concluded_only_at_end (c : Cfg) (s : St) (t : Int) (i : In) (h0 : s.concluded = false)
    (h1 : (getActionCore c s t i).1.concluded = true) :
    executes s t = true ∧ c.repeatKillChain = false ∧
    ((getActionCore c s t i).1.cur = .succeeded ∨ (getActionCore c s t i).1.cur = .failed) ∧
    (getActionCore c s t i).2 = Act.nothing := by
  unfold getActionCore at h1 ⊢
  split at h1
  · rw [h0] at h1; cases h1
  · rename_i hex
    rw [if_neg hex]
    refine ⟨by simpa using hex, ?_⟩
    split at h1
    · simp [St.raise, h0] at h1
    · rename_i h hh
      have hr0 : (returnHandler c h s).concluded = false := by rw [con_returnHandler]; exact h0
      generalize returnHandler c h s = s1 at h1 hr0 ⊢
      split at h1
      · rename_i hp
        rw [if_pos hp]
        unfold mainPath at h1 ⊢
        rw [con_bodies] at h1
        generalize hs2 : setNext c { reasonCheck h s1 with curT := t } (t + c.frequency) i.d1 = s2 at h1 ⊢
        have h2 : s2.concluded = false := by
          subst hs2; rw [con_setNext]; simp only []; rw [(reasonCheck_fields h s1).2.2]; exact hr0
        rcases outcome_concluded c s2 h1 with hc | ⟨hrep, hterm, hcur, hch⟩
        · rw [h2] at hc; cases hc
        · have hterm' : (outcomeHandler c s2).cur = .succeeded ∨ (outcomeHandler c s2).cur = .failed := by
            rw [hcur]; exact hterm
          rw [bodies_terminal c i _ hterm']
          exact ⟨hrep, hterm', hch⟩
      · rename_i hp
        rw [if_neg hp]
        unfold failPath at h1 ⊢
        generalize hs2 : setNext c { s1 with curT := t } (t + c.frequency) i.d1 = s2 at h1 ⊢
        have h2 : s2.concluded = false := by subst hs2; rw [con_setNext]; exact hr0
        rcases outcome_concluded c s2 h1 with hc | ⟨hrep, hterm, hcur, hch⟩
        · rw [h2] at hc; cases hc
        · exact ⟨hrep, by simp only []; rw [hcur]; exact hterm, hch⟩

/-- **`actions_concluded` is set nowhere else** (one call of `TAP003.get_action`). -/
theorem C19_tap3_concluded_only_at_end (c : Cfg) (s : St) (t : Int) (i : In) (h0 : s.concluded = false)
    (h1 : (getAction c s t i).1.concluded = true) :
    executes s t = true ∧ c.repeatKillChain = false ∧
    ((getAction c s t i).1.cur = .succeeded ∨ (getAction c s t i).1.cur = .failed) ∧
    (getAction c s t i).2 = Act.nothing := by
  have hp := preGuard_fields c s
  unfold getAction at h1 ⊢
  have := core_concluded_only_at_end c (preGuardHandlers c s) t i (by rw [hp.2.2.1]; exact h0) h1
  rw [executes_preGuard] at this
  exact this

def ConcInv (c : Cfg) (s : St) : Prop :=
  s.concluded = true → c.repeatKillChain = false ∧ (s.cur = .succeeded ∨ s.cur = .failed)

theorem step_concInv (c : Cfg) (s : St) (t : Int) (i : In) (h : ConcInv c s) : ConcInv c (step c s t i).1 := by
  unfold step
  split
  · exact h
  · split
    · exact h
    · intro hc
      simp only [] at hc ⊢
      cases h0 : s.concluded with
      | true =>
        have := C19_tap3_concluded_absorbing c s t i h0
        rw [this.2.1]
        exact h h0
      | false =>
        have := C19_tap3_concluded_only_at_end c s t i h0 hc
        exact ⟨this.2.1, this.2.2.1⟩

theorem run_inv (c : Cfg) (P : St → Prop) (hstep : ∀ s t i, P s → P (step c s t i).1) :
    ∀ (ins : List In) (s : St) (t : Int), P s → ∀ s' ∈ run c s t ins, P s' := by
  intro ins
  induction ins with
  | nil => intro s t _ s' h; simp [run] at h
  | cons i is ih =>
    intro s t hp s' hs'
    simp only [run, List.mem_cons] at hs'
    rcases hs' with rfl | hs'
    · exact hstep s t i hp
    · exact ih _ (t + 1) (hstep s t i hp) s' hs'

/-- **`actions_concluded` as a run invariant** (TAP003). -/
theorem C19_tap3_concluded_invariant (c : Cfg) (d0 : Int) (k : Nat) (s0 : St) (ins : List In) (h0 : init c d0 k = some s0) :
    ∀ s ∈ run c s0 0 ins, s.concluded = true → c.repeatKillChain = false ∧ (s.cur = .succeeded ∨ s.cur = .failed) := by
  have hinit : ConcInv c s0 := by
    unfold init at h0
    split at h0
    · cases h0; intro h; cases h
    · cases h0
  exact run_inv c (ConcInv c) (fun s t i => step_concInv c s t i) ins s0 0 hinit

/-! ### ends per settings: stop / restart (ports of the TAP001 theorems) -/

theorem bodies_of_notStarted (c : Cfg) (i : In) (s : St) (h : s.cur = .notStarted) : bodies c i s = tapStart s := by
  rw [bodies_eq, applyDown_reach c i s 5 (by rw [h]; simp [rank]), h]
  rfl

theorem tapStart_concluded (s : St) : (tapStart s).concluded = s.concluded := con_tapStart s

theorem core_terminal_prefix (c : Cfg) (s : St) (h : Hist) (hterm : s.cur = .succeeded ∨ s.cur = .failed)
    (hcon : s.concluded = false) :
    ((returnHandler c h s).cur = .succeeded ∨ (returnHandler c h s).cur = .failed) ∧
      (returnHandler c h s).concluded = false := by
  unfold returnHandler; split
  · exact ⟨Or.inr rfl, hcon⟩
  · exact ⟨hterm, hcon⟩

theorem core_stops (c : Cfg) (s : St) (t : Int) (i : In) (h : Hist)
    (hrep : c.repeatKillChain = false) (hterm : s.cur = .succeeded ∨ s.cur = .failed)
    (hex : executes s t = true) (hh : lookBack s = some h) :
    (getActionCore c s t i).1.concluded = true ∧
    ((getActionCore c s t i).1.cur = .succeeded ∨ (getActionCore c s t i).1.cur = .failed) ∧
    (getActionCore c s t i).2 = Act.nothing := by
  have hcon : s.concluded = false := by simp [executes] at hex; exact hex.2
  have h1 := core_terminal_prefix c s h hterm hcon
  unfold getActionCore
  rw [if_neg (by simp [hex])]
  simp only [hh]
  generalize returnHandler c h s = s1 at h1 ⊢
  have key : ∀ (b d : Int) (s' : St), (s'.cur = .succeeded ∨ s'.cur = .failed) → s'.concluded = false →
      (outcomeHandler c (setNext c s' b d)).concluded = true ∧
      ((outcomeHandler c (setNext c s' b d)).cur = .succeeded ∨ (outcomeHandler c (setNext c s' b d)).cur = .failed) ∧
      (outcomeHandler c (setNext c s' b d)).chosen = Act.nothing := by
    intro b d s' ht hc
    have hf := setNext_fields c s' b d
    have ht' : (setNext c s' b d).cur = .succeeded ∨ (setNext c s' b d).cur = .failed := by rw [hf.1]; exact ht
    have := (outcome_terminal c _ ht' (by rw [hf.2.2]; exact hc)).2 hrep
    refine ⟨this.2.2, by rw [this.1]; exact ht', ?_⟩
    unfold outcomeHandler
    rw [if_pos ht']
    simp [hf.2.2, hc, hrep]
  split
  · unfold mainPath
    have hr := reasonCheck_fields h s1
    have hk := key (t + c.frequency) i.d1 { reasonCheck h s1 with curT := t } (by simp only []; rw [hr.1]; exact h1.1)
      (by simp only []; rw [hr.2.2]; exact h1.2)
    rw [bodies_terminal c i _ hk.2.1]
    exact hk
  · unfold failPath
    exact key (t + c.frequency) i.d1 { s1 with curT := t } h1.1 h1.2

/-- **ends_per_settings (stop)** for TAP003. Without `repeat_kill_chain`, the first execution slot that finds the chain
SUCCEEDED or FAILED sets `actions_concluded`, keeps the stage, and returns do-nothing. -/
theorem C19_tap3_stops (c : Cfg) (s : St) (t : Int) (i : In) (h : Hist)
    (hrep : c.repeatKillChain = false) (hterm : s.cur = .succeeded ∨ s.cur = .failed)
    (hex : executes s t = true) (hh : lookBack s = some h) :
    (getAction c s t i).1.concluded = true ∧
    ((getAction c s t i).1.cur = .succeeded ∨ (getAction c s t i).1.cur = .failed) ∧
    (getAction c s t i).2 = Act.nothing := by
  have hp := preGuard_fields c s
  have hq := preGuard_hist c s
  unfold getAction
  exact core_stops c (preGuardHandlers c s) t i h hrep (by rw [hp.1]; exact hterm)
    (by rw [executes_preGuard]; exact hex) (by rw [lookBack_preGuard]; exact hh)

theorem core_restarts (c : Cfg) (s : St) (t : Int) (i : In) (h : Hist)
    (hrep : c.repeatKillChain = true) (hterm : s.cur = .succeeded ∨ s.cur = .failed)
    (hex : executes s t = true) (hh : lookBack s = some h) :
    (getActionCore c s t i).1.concluded = false ∧
    ((getActionCore c s t i).1.cur = .notStarted ∨ (getActionCore c s t i).1.cur = .reconnaissance) := by
  have hcon : s.concluded = false := by simp [executes] at hex; exact hex.2
  have h1 := core_terminal_prefix c s h hterm hcon
  unfold getActionCore
  rw [if_neg (by simp [hex])]
  simp only [hh]
  generalize returnHandler c h s = s1 at h1 ⊢
  have key : ∀ (b d : Int) (s' : St), (s'.cur = .succeeded ∨ s'.cur = .failed) → s'.concluded = false →
      (outcomeHandler c (setNext c s' b d)).concluded = false ∧
      (outcomeHandler c (setNext c s' b d)).cur = .notStarted := by
    intro b d s' ht hc
    have hf := setNext_fields c s' b d
    have ht' : (setNext c s' b d).cur = .succeeded ∨ (setNext c s' b d).cur = .failed := by rw [hf.1]; exact ht
    have := (outcome_terminal c _ ht' (by rw [hf.2.2]; exact hc)).1 hrep
    exact ⟨this.2.2, this.1⟩
  split
  · unfold mainPath
    have hr := reasonCheck_fields h s1
    have hk := key (t + c.frequency) i.d1 { reasonCheck h s1 with curT := t } (by simp only []; rw [hr.1]; exact h1.1)
      (by simp only []; rw [hr.2.2]; exact h1.2)
    rw [bodies_of_notStarted c i _ hk.2]
    exact ⟨by rw [tapStart_concluded]; exact hk.1, Or.inr (tapStart_fire _ hk.2).1⟩
  · unfold failPath
    have hk := key (t + c.frequency) i.d1 { s1 with curT := t } h1.1 h1.2
    exact ⟨hk.1, Or.inl hk.2⟩

/-- **ends_per_settings (restart)** for TAP003. With `repeat_kill_chain`, the first execution slot that finds the chain
SUCCEEDED or FAILED puts the agent back to NOT_STARTED (on the main path straight into RECONNAISSANCE) and never sets
`actions_concluded`. -/
theorem C19_tap3_restarts (c : Cfg) (s : St) (t : Int) (i : In) (h : Hist)
    (hrep : c.repeatKillChain = true) (hterm : s.cur = .succeeded ∨ s.cur = .failed)
    (hex : executes s t = true) (hh : lookBack s = some h) :
    (getAction c s t i).1.concluded = false ∧
    ((getAction c s t i).1.cur = .notStarted ∨ (getAction c s t i).1.cur = .reconnaissance) := by
  have hp := preGuard_fields c s
  have hq := preGuard_hist c s
  unfold getAction
  exact core_restarts c (preGuardHandlers c s) t i h hrep (by rw [hp.1]; exact hterm)
    (by rw [executes_preGuard]; exact hex) (by rw [lookBack_preGuard]; exact hh)

/-! ### progress only after success -/

theorem succ_ne_failed (x : Stage) (h : x.chain = true) : x.succ ≠ .failed := by
  cases x <;> simp [Stage.succ, Stage.chain] at h ⊢
theorem succ_ne_notStarted (x : Stage) (h : x.chain = true) : x.succ ≠ .notStarted := by
  cases x <;> simp [Stage.succ, Stage.chain] at h ⊢

theorem core_progress_only_after_success (c : Cfg) (s : St) (t : Int) (i : In)
    (hch : s.cur.chain = true) (hadv : (getActionCore c s t i).1.cur = s.cur.succ) :
    executes s t = true ∧ ∃ h, lookBack s = some h ∧ (h.resp.ok = true ∨ s.cur = .planning) := by
  have hne : s.cur.succ ≠ s.cur := by cases hc : s.cur <;> simp_all [Stage.succ, Stage.chain]
  unfold getActionCore at hadv
  split at hadv
  · exact absurd hadv.symm hne
  · rename_i hex
    refine ⟨by simpa using hex, ?_⟩
    split at hadv
    · exact absurd hadv.symm hne
    · rename_i h hh
      refine ⟨h, hh, ?_⟩
      split at hadv
      · rename_i hp
        have hf : s.cur ≠ .failed := by intro hf; rw [hf] at hch; simp [Stage.chain] at hch
        rw [passes_returnHandler c h s hp hf] at hp
        simp only [passes, Bool.or_eq_true, beq_iff_eq] at hp
        exact hp
      · exfalso
        have hsoft := returnHandler_soft c h s
        generalize returnHandler c h s = s1 at hsoft hadv
        unfold failPath at hadv
        have hf1 := setNext_fields c { s1 with curT := t } (t + c.frequency) i.d1
        have ho : (outcomeHandler c (setNext c { s1 with curT := t } (t + c.frequency) i.d1)).cur = s1.cur ∨
            (outcomeHandler c (setNext c { s1 with curT := t } (t + c.frequency) i.d1)).cur = .notStarted := by
          unfold outcomeHandler
          split
          · split
            · exact Or.inl hf1.1
            · split
              · exact Or.inr rfl
              · exact Or.inl hf1.1
          · exact Or.inl hf1.1
        simp only at hadv
        rcases ho with ho | ho
        · rw [ho] at hadv
          rcases hsoft.1 with h1 | h1
          · rw [h1] at hadv; exact hne hadv.symm
          · rw [h1] at hadv; exact succ_ne_failed s.cur hch hadv.symm
        · rw [ho] at hadv; exact succ_ne_notStarted s.cur hch hadv.symm

/-- **progress_only_after_success** (TAP003). The stage advances to its successor only in an execution slot whose
look-back response (`history[current_timestep]`) was a success — except in PLANNING, which `get_action` lets through
after a failed response (the "already installed" exception, as coded: it applies to *any* failure in PLANNING). -/
theorem C19_tap3_progress_only_after_success (c : Cfg) (s : St) (t : Int) (i : In)
    (hch : s.cur.chain = true) (hadv : (getAction c s t i).1.cur = s.cur.succ) :
    executes s t = true ∧ ∃ h, lookBack s = some h ∧ (h.resp.ok = true ∨ s.cur = .planning) := by
  have hp := preGuard_fields c s
  have hq := preGuard_hist c s
  unfold getAction at hadv
  have := core_progress_only_after_success c (preGuardHandlers c s) t i (by rw [hp.1]; exact hch)
    (by rw [hp.1]; exact hadv)
  rw [executes_preGuard, lookBack_preGuard, hp.1] at this
  exact this

end Tap3
/-! ## 11. RandomAgent -/

/-- **RandomAgent acts only with actions of its configured action map**: whatever integer the space's sampler
returns, the agent either raises (empty map / index outside the map) or returns the entry `k < len(action_map)` of the
map it was configured with. -/
theorem C19_random_agent_in_map (n k i : Nat) (h : randomAgentChoice n k = .chose i) : i = k ∧ i < n := by
  unfold randomAgentChoice at h
  split at h
  · cases h
  · split at h
    · cases h; exact ⟨rfl, by assumption⟩
    · cases h

/-- …and it does act (no exception) whenever the sampler stays inside `Discrete(len(action_map))`. -/
theorem C19_random_agent_total (n k : Nat) (h : k < n) : randomAgentChoice n k = .chose k := by
  unfold randomAgentChoice
  rw [if_neg (by omega), if_pos h]

/-! ## 12. Translator tie for the deepening round -/

/-- Every `get_action` under game/agent accepts exactly the arguments `PrimaiteGame.apply_agent_actions` passes
(`agent.get_action(obs, timestep=self.step_counter)`).  Before the repair of F-C19-1 `RandomAgent.get_action(self)`
did not, and a scenario with a `random-agent` raised `TypeError` in its first step. -/
theorem C19_gen_get_action_signatures :
    (Gen.Agents.getActionParams.all fun e => e.2 == getActionSignature) = true ∧
    Gen.Agents.gameGetActionCall = gameCall ∧
    (Gen.Agents.getActionParams.map (·.1)).contains "RandomAgent" = true := by decide

/-- `_tap_return_handler` answers "success" without reading the history exactly when `timestep >= len(self.history)`
(`lookBack`), otherwise it reads `history[timestep].response.status` (F-C19-2). -/
theorem C19_gen_tap_return_handler :
    Gen.Agents.tapReturnEmptyGuard = "timestep >= len(self.history)" ∧
    Gen.Agents.tapReturnLookup = "self.history[timestep].response.status != 'success'" := by decide

/-- `TAP003._exploit` tries `EXPLOIT.probability` while the *stage progress* is PENDING and sets the stage progress to
IN_PROGRESS afterwards (`Tap3.exploit`, F-C19-3). -/
theorem C19_gen_tap3_exploit_trial :
    Gen.Agents.tap3ExploitTrialGuard = "self.current_stage_progress == KillChainStageProgress.PENDING" ∧
    Gen.Agents.tap3ExploitTrialProb = "self.config.agent_settings.kill_chain.EXPLOIT.probability" ∧
    Gen.Agents.tap3ExploitTrialSet = "self.current_stage_progress = KillChainStageProgress.IN_PROGRESS" := by decide

/-- The source expression of every parameter of every action the TAPs can return is the one pinned in
`Model/AgentsParams.lean` (and implemented by the rig's parameter oracle). -/
theorem C19_gen_action_params :
    Gen.Agents.tap1ActionParams = Tap1.actionParams ∧ Gen.Agents.tap3ActionParams = Tap3.actionParams := ⟨rfl, rfl⟩

end Primaite.Agents
