/-
C06, round 4: what a router / firewall can put on a wire (`rtrStd`), and the reachability-style theorem.

Part 1 is Props/C06Rtr.lean (generic closure lemmas for `rtrStd`).

Part 2 (`ClB`): the class "source is not a protected address, ARP payload well-formed, and — inside the protected zone — not
addressed to a protected host"; a protected host ignores every such frame (`C06_host_deaf`); `C06_certifiedB_unchanged`.
-/
import PrimaiteModel.Model.FilterFwd
import PrimaiteModel.Props.C06Rtr
import PrimaiteModel.Props.C06Net
import PrimaiteModel.Props.C06Deny
namespace Primaite.Filter
open Primaite Primaite.Acl Primaite.Cut

variable {W : Type}

/-! ## 2. the destination scan, and a protected host is deaf to frames that are not addressed to it -/

/-- packets addressed to one of the protected addresses -/
def ForB (ba : List Ip) (pkt : Packet) : Prop := ba.contains pkt.dstIp = true

theorem dstCovers_sound (r : Rule) (a : Ip) (p : Packet) (h : dstCovers r a p.proto = true) (hp : p.dstIp = a) :
    r.hits? p = true := by
  simp only [dstCovers, Bool.and_eq_true, Option.isNone_iff_eq_none, Bool.or_eq_true, beq_iff_eq] at h
  obtain ⟨⟨⟨⟨h1, h2⟩, h3⟩, h4⟩, h5⟩ := h
  have hpr : protoMatches r.proto p.proto = true := by
    rcases h1 with h1 | h1 <;> simp [protoMatches, h1]
  simp [Rule.hits?, hpr, portMatches, h3, h4, hp, h5]
  simp [addrMatches, h2]

theorem denyDstScan_sound (a : Ip) (p : Packet) (hp : p.dstIp = a) (imp : Action) :
    ∀ (rules : List (Option Rule)) (off : Nat), denyDstScan a p.proto rules imp = true →
      match firstMatch p rules off with
      | some (_, r) => r.action = .deny
      | none => imp = .deny := by
  intro rules
  induction rules with
  | nil => intro off h; simpa [denyDstScan, firstMatch] using h
  | cons x rest ih =>
    intro off h
    cases x with
    | none => simpa [firstMatch] using ih (off + 1) (by simpa [denyDstScan] using h)
    | some r =>
      simp only [denyDstScan, Bool.and_eq_true, Bool.or_eq_true, beq_iff_eq] at h
      simp only [firstMatch]
      by_cases hm : r.hits? p = true
      · simp only [hm, if_true]; exact h.1
      · simp only [hm, Bool.false_eq_true, if_false]
        rcases h.2 with hcov | hrest
        · exact absurd (dstCovers_sound r a p hcov hp) hm
        · exact ih (off + 1) hrest

theorem proto_mem_all (pr : Proto) : pr ∈ allProtos := by cases pr <;> simp [allProtos]

/-- **Soundness of the destination scan**: a list that passes `denyDstCheck ba` denies every packet addressed to an address
of `ba`, whatever its source, PROTOCOL and ports, and whatever else the list holds behind the covering DENY rules.  The scan asks
for a covering DENY rule per protocol value (an any-protocol rule covers all four). -/
theorem C06_denyDstCheck_sound (ba : List Ip) (a : Acl) (h : denyDstCheck ba a = true) : DeniesClass (ForB ba) a := by
  intro p hp
  have hmem : p.dstIp ∈ ba := by simpa [ForB] using hp
  have hs := List.all_eq_true.mp (List.all_eq_true.mp h _ hmem) p.proto (proto_mem_all p.proto)
  have := denyDstScan_sound p.dstIp p rfl a.implicit a.rules 0 hs
  unfold isPermitted
  cases hf : firstMatch p a.rules 0 with
  | none => simp only [hf] at this; simp [this]
  | some ir => obtain ⟨i, r⟩ := ir; simp only [hf] at this; simp [this]

/-- **DENY tcp, DENY udp, DENY icmp is not a block**: a protocol-`none` frame (an nmap scan with `target_protocol="none"` builds
one) addressed to B is permitted by such a list — reproduced on the running code by R-net's control scenario; four rules
(`none` included) pass the scan. -/
theorem C06_three_protocols_not_a_block :
    let three : Acl := { rules := [some { anyPattern with proto := some .tcp }, some { anyPattern with proto := some .udp },
                                   some { anyPattern with proto := some .icmp }] ++ List.replicate 7 none ++
                                  [some { anyPattern with action := .permit }] ++ List.replicate 13 none, implicit := .deny }
    let four : Acl := { three with rules := three.rules.set 3 (some { anyPattern with proto := some .none }) }
    (isPermitted three { proto := .none, srcIp := 0x0A00010A#32, dstIp := 0x0A000214#32, ports := none }).1 = true ∧
    denyDstCheck [0x0A000214#32] three = false ∧ denyDstCheck [0x0A000214#32] four = true := by decide

/-- **A host ignores every frame that is not addressed to it at layer 3**: when the destination address is none of the
host's interface addresses and not the arrival subnet's broadcast address, the NIC drops the frame before the node sees
it — the host's state is untouched and nothing is emitted, whatever its software and power state. -/
theorem C06_host_deaf (soft : Soft W) (s : Node W) (p : Nat) (f : Frame) (hk : s.kind = .host)
    (hno : ∀ i ∈ s.ifaces, f.pkt.dstIp ≠ i.ip ∧ f.pkt.dstIp ≠ i.bcastAddr) : nodeRx soft s p f = .done s := by
  unfold nodeRx
  cases hi : s.ifaces[p]? with
  | none => rfl
  | some i =>
    have hmem := List.mem_of_getElem? hi
    obtain ⟨h1, h2⟩ := hno i hmem
    have hany : s.ifaces.any (fun j => j.ip == f.pkt.dstIp) = false := by
      rw [List.any_eq_false]
      intro j hj
      have := (hno j hj).1
      simp only [beq_iff_eq]
      exact fun h => this h.symm
    simp only [ifaceRx, hk]
    cases i.enabled
    · rfl
    · by_cases ht : f.ttl - 1 < 1
      · simp [ht]
      · simp [ht, h1, h2, hany]

/-! ## 3. the reachability-style theorem: frames addressed to a protected host never reach it -/

section reach
variable (t : TopoB)

/-- the ARP payload of a genuine ARP packet is well-formed: a request is a broadcast, its sender is bound to the source MAC as
far as router interfaces go and is not a protected address; a reply is addressed to a consistent (MAC, address) pair -/
def ArpOKB (f : Frame) : Prop :=
  subjectToAcl f = some false →
    (f.arpReq = true → f.dstMac = bcastMac ∧ bindOK t.rtrIfs f.srcMac f.arpSnd = true ∧ t.ba.contains f.arpSnd = false) ∧
    (f.arpReq = false → bindOK t.rtrIfs f.dstMac f.pkt.dstIp = true)

/-- the frames that may arrive at node `n`: nobody uses a protected address as source; ARP payloads are well-formed; and
INSIDE the protected zone, and on a port that only zone nodes can send to, no frame is addressed to a protected host.  Nothing else is asked: any protocol, any destination
outside `ba`, any amount of traffic between attacker-side nodes and through the guards. -/
def ClB (n : Nat) (p : Nat) (f : Frame) : Prop :=
  t.ba.contains f.pkt.srcIp = false ∧ ArpOKB t f ∧ (t.zone n p = true → t.ba.contains f.pkt.dstIp = false)

def needGuard (n : Nat) : Bool := !(t.inB n || t.outside n)

/-- a firewall's lists guard the zone (the Prop behind `fwGuards`); `d e` says for each first entry point whether it is its own
list that denies the protected addresses (fixed once, from the certified state) or the list of the second entry point -/
def FwGuardP (need d : FwEntry → Bool) (ifs : List Iface) (acls : AclId → Acl) : Prop :=
  ∀ e, (e = FwEntry.extIn ∨ e = FwEntry.intOut ∨ e = FwEntry.dmzOut) → need e = true →
    if d e then DeniesClass (ForB t.ba) (acls (entryAcl e))
    else (match e with
       | .dmzOut => DeniesClass (ForB t.ba) (acls .extOut) ∧ DeniesClass (ForB t.ba) (acls .intIn)
       | _ => ∀ a, t.ba.contains a = true → DeniesClass (ForB [a]) (acls (entryAcl (selE ifs e a))))

/-- the decision function of a certified firewall state -/
def fwD (s : Node W) (e : FwEntry) : Bool := denyDstCheck t.ba (s.acls (entryAcl e))

variable (apps : Nat → HostApp W) (tbls : Nat → SwitchTbl W) (rtrs : Nat → RtrOpaque W) (bases : Nat → Soft W)
  (hFree : Nat → Node W → Nat → Frame → Script W)

def softB (n : Nat) : Soft W :=
  match t.role n with
  | .host => hostStd (apps n)
  | .switch => switchStd (tbls n)
  | .rtr => rtrStd t.hops (rtrs n)
  | .fw => rtrStd t.hops (rtrs n)
  | _ => bases n

/-- the system a B-topology denotes: attacker-side `free` nodes run arbitrary handlers, every other node is a PrimAITE
element — hosts behind their session manager, switches, routers / firewalls with `rtrStd`, protected hosts with ANY software -/
def sysB : Sys Nat Nat Frame (Node W) :=
  { handler := fun n => match t.role n with
      | .free => hFree n
      | _ => nodeRx (softB t apps tbls rtrs bases n),
    wire := t.wire }

def invB (σ : St Nat (Node W)) (n : Nat) (s : Node W) : Prop :=
  match t.role n with
  | .free => True
  | .host => s.kind = .host ∧ s.ifaces = (σ n).ifaces
  | .switch => s.kind = .switch
  | .rtr => s.kind = .router ∧ s.ifaces = (σ n).ifaces ∧ (needGuard t n = true → DeniesClass (ForB t.ba) (s.acls .router))
  | .fw => s.kind = .firewall ∧ s.ifaces = (σ n).ifaces ∧ (needGuard t n = true → FwGuardP t (fun e => !t.fromB n (portOf e)) (fwD t (σ n)) (σ n).ifaces s.acls)
  | .deaf => s = σ n

theorem wire_memB (n q m r : Nat) (h : t.wire n q = some (m, r)) : ((n, q), (m, r)) ∈ t.wires := by
  unfold TopoB.wire at h
  cases hf : t.wires.find? (fun w => w.1.1 == n && w.1.2 == q) with
  | none => simp [hf] at h
  | some w =>
    simp only [hf, Option.map_some, Option.some.injEq] at h
    have hp := List.find?_some hf
    have hmem := List.mem_of_find?_eq_some hf
    simp only [Bool.and_eq_true, beq_iff_eq] at hp
    obtain ⟨⟨a, b⟩, c⟩ := w
    simp only at hp h
    obtain ⟨rfl, rfl⟩ := hp
    subst h
    exact hmem

theorem outside_wire (n q m r : Nat) (ho : t.outside n = true) (hw : t.wire n q = some (m, r)) : t.inB m = false := by
  have := List.all_eq_true.mp ho _ (wire_memB t n q m r hw)
  simpa using this

/-- a node that is neither inside the zone nor a guard has no wire into the zone; a guard's frames into the zone are what the
closure lemmas are about -/
theorem intoB_cases (n q m r : Nat) (hw : t.wire n q = some (m, r)) (hm : t.inB m = true) :
    t.inB n = true ∨ needGuard t n = true := by
  cases hb : t.inB n
  · right
    cases ho : t.outside n
    · simp [needGuard, hb, ho]
    · have := outside_wire t n q m r ho hw; rw [hm] at this; cases this
  · exact Or.inl rfl

/-- a port that a node outside the zone can send to is not a zone-only port -/
theorem not_fromB_of_sender (n q m r : Nat) (hw : t.wire n q = some (m, r)) (hn : t.inB n = false) : t.fromB m r = false := by
  cases h : t.fromB m r
  · rfl
  · have := List.all_eq_true.mp h _ (wire_memB t n q m r hw)
    simp [hn] at this

/-- where a frame sent by a node OUTSIDE the zone lands in the zone's scope, the target is inside the zone and the sender a guard -/
theorem zone_of_outsider (n q m r : Nat) (hw : t.wire n q = some (m, r)) (hn : t.inB n = false) (hz : t.zone m r = true) :
    t.inB m = true ∧ needGuard t n = true := by
  have hf := not_fromB_of_sender t n q m r hw hn
  have hm : t.inB m = true := by simpa [TopoB.zone, hf] using hz
  rcases intoB_cases t n q m r hw hm with h | h
  · rw [hn] at h; cases h
  · exact ⟨hm, h⟩

theorem certifyB_parts (σ : St Nat (Node W)) (hc : certifyB t σ = true) :
    (∀ h, t.hops.contains h = true → t.ba.contains h = false) ∧
    (∀ n q m r, t.wire n q = some (m, r) → m < t.roles.length) ∧
    ∀ n, n < t.roles.length → certifyNodeB t n (σ n) = true := by
  simp only [certifyB, Bool.and_eq_true] at hc
  refine ⟨?_, ?_, fun n hn => List.all_eq_true.mp hc.2 n (List.mem_range.mpr hn)⟩
  · intro h hh
    have hmem : h ∈ t.hops := by simpa using hh
    have := List.all_eq_true.mp hc.1.1 h hmem
    simpa using this
  · intro n q m r hw
    have := List.all_eq_true.mp hc.1.2 _ (wire_memB t n q m r hw)
    simpa using this

theorem role_lt (n : Nat) (h : t.role n ≠ .free) : n < t.roles.length := by
  unfold TopoB.role at h
  by_cases hn : n < t.roles.length
  · exact hn
  · have : t.roles[n]? = none := List.getElem?_eq_none (by omega)
    simp [List.getD, this] at h

theorem deniesClass_mono {C D : Packet → Prop} (a : Acl) (h : DeniesClass D a) (hcd : ∀ p, C p → D p) : DeniesClass C a :=
  fun p hp => h p (hcd p hp)

theorem fwGuards_sound (need : FwEntry → Bool) (s : Node W) (h : fwGuards need t.ba s = true) :
    FwGuardP t need (fwD t s) s.ifaces s.acls := by
  intro e he hneed
  simp only [fwGuards, List.all_cons, List.all_nil, Bool.and_true, Bool.and_eq_true] at h
  cases hd : fwD t s e
  · simp only [Bool.false_eq_true, if_false]
    unfold fwD at hd
    rcases he with rfl | rfl | rfl
    · have h1 := h.1
      simp only [hd, hneed, Bool.not_true, Bool.false_or] at h1
      intro a ha
      have hmem : a ∈ t.ba := by simpa using ha
      exact C06_denyDstCheck_sound _ _ (List.all_eq_true.mp h1 a hmem)
    · have h1 := h.2.1
      simp only [hd, hneed, Bool.not_true, Bool.false_or] at h1
      intro a ha
      have hmem : a ∈ t.ba := by simpa using ha
      exact C06_denyDstCheck_sound _ _ (List.all_eq_true.mp h1 a hmem)
    · have h1 := h.2.2
      simp only [hd, hneed, Bool.not_true, Bool.false_or, Bool.and_eq_true] at h1
      exact ⟨C06_denyDstCheck_sound _ _ h1.1, C06_denyDstCheck_sound _ _ h1.2⟩
  · simp only [if_true]
    exact C06_denyDstCheck_sound _ _ hd

theorem fwGuardP_bump (need d : FwEntry → Bool) (ifs : List Iface) (acls : AclId → Acl) (a : AclId) (q : Packet)
    (h : FwGuardP t need d ifs acls) : FwGuardP t need d ifs (fun b => if b = a then (isPermitted (acls a) q).2.2 else acls b) := by
  have key : ∀ (C : Packet → Prop) (b : AclId), DeniesClass C (acls b) →
      DeniesClass C ((fun b => if b = a then (isPermitted (acls a) q).2.2 else acls b) b) := by
    intro C b hb
    by_cases hba : b = a
    · subst hba; simp only [if_true]; exact deniesClass_stable _ _ _ hb
    · simp only [hba, if_false]; exact hb
  intro e he hneed
  have h1 := h e he hneed
  cases hd : d e
  · simp only [hd, Bool.false_eq_true, if_false] at h1 ⊢
    rcases he with rfl | rfl | rfl
    · exact fun a' ha' => key _ _ (h1 a' ha')
    · exact fun a' ha' => key _ _ (h1 a' ha')
    · exact ⟨key _ _ h1.1, key _ _ h1.2⟩
  · simp only [hd, if_true] at h1 ⊢
    exact key _ _ h1

end reach

/-! ### per-role closure from the certificate -/

section reach2
variable (t : TopoB) (apps : Nat → HostApp W) (tbls : Nat → SwitchTbl W) (rtrs : Nat → RtrOpaque W) (bases : Nat → Soft W)
  (hFree : Nat → Node W → Nat → Frame → Script W)

theorem arpOKB_ttl (f : Frame) (x : Nat) (h : ArpOKB t f) : ArpOKB t { f with ttl := x } := by
  intro hs
  rw [subjectToAcl_ttl] at hs
  exact h hs

theorem arpOKB_nonexempt (f : Frame) (h : subjectToAcl f ≠ some false) : ArpOKB t f := fun hs => absurd hs h

theorem arpRequest_exempt (o : Iface) (a : Ip) : subjectToAcl (arpRequestFrame o a) = some false := by
  simp [subjectToAcl, arpRequestFrame]

/-- an ARP request built on a clean, bound interface for a target outside `ba` is in the class everywhere -/
theorem clB_arpRequest (o : Iface) (a : Ip) (m r : Nat) (hclean : t.ba.contains o.ip = false)
    (hbind : bindOK t.rtrIfs o.mac o.ip = true) (ha : t.zone m r = true → t.ba.contains a = false) :
    ClB t m r (arpRequestFrame o a) :=
  ⟨hclean, fun _ => ⟨fun _ => ⟨rfl, hbind, hclean⟩, fun h => by simp [arpRequestFrame] at h⟩, ha⟩

theorem hostClosedB (σ : St Nat (Node W)) (n : Nat) (hr : t.role n = .host) (hcn : certifyNodeB t n (σ n) = true) :
    (σ n).kind = .host ∧ HostClosed (sysB t apps tbls rtrs bases hFree) (fun _ => true) (ClB t) n (σ n).ifaces := by
  simp only [certifyNodeB, hr, Bool.and_eq_true, beq_iff_eq, Bool.not_eq_true'] at hcn
  obtain ⟨⟨⟨hk, hnB'⟩, hout⟩, hall⟩ := hcn
  have hfacts : ∀ (q : Nat) (i : Iface), (σ n).ifaces[q]? = some i → t.ba.contains i.ip = false ∧ bindOK t.rtrIfs i.mac i.ip = true := by
    intro q i hi
    have := List.all_eq_true.mp hall i (List.mem_of_getElem? hi)
    simpa [ifaceClean] using this
  have hnB : t.inB n = false := hnB'
  have hnoB : ∀ q m r, t.wire n q = some (m, r) → t.zone m r = true → False := by
    intro q m r hw hz
    have hm := (zone_of_outsider t n q m r hw hnB hz).1
    have := outside_wire t n q m r hout hw
    rw [hm] at this; cases this
  refine ⟨hk, ⟨fun _ _ _ _ => rfl, ?_, ?_⟩⟩
  · intro q i g m r hi hw
    obtain ⟨hclean, hbind⟩ := hfacts q i hi
    refine ⟨by rw [stampOn_srcIp]; exact hclean, ?_, fun hm => (hnoB q m r hw hm).elim⟩
    intro hsub
    have harp := exempt_arp _ hsub
    by_cases hg : g.arp = true
    · have he : stampOn i g = arpRequestFrame i g.arpTgt := by simp [stampOn, hg]
      rw [he]
      exact ⟨fun _ => ⟨rfl, hbind, hclean⟩, fun h => by simp [arpRequestFrame] at h⟩
    · have he : (stampOn i g).arp = g.arp := by simp [stampOn, hg]
      rw [he] at harp; exact absurd harp hg
  · intro p f x q o i m r _ hcl hsub hreq ho hw
    obtain ⟨hclean, _⟩ := hfacts q o ho
    refine ⟨hclean, ?_, fun hm => (hnoB q m r hw hm).elim⟩
    intro _
    exact ⟨fun h => by simp [arpReplyFrame] at h, fun _ => ((hcl.2.1 hsub).1 hreq).2.1⟩

theorem switchClosedB (σ : St Nat (Node W)) (n : Nat) (hr : t.role n = .switch) (hcn : certifyNodeB t n (σ n) = true) :
    (σ n).kind = .switch ∧ SwitchClosed (sysB t apps tbls rtrs bases hFree) (fun _ => true) (ClB t) n := by
  simp only [certifyNodeB, hr, Bool.and_eq_true, beq_iff_eq, Bool.or_eq_true] at hcn
  obtain ⟨hk, hz⟩ := hcn
  refine ⟨hk, ⟨fun _ _ _ _ => rfl, ?_⟩⟩
  intro p f x q m r _ hcl hw
  refine ⟨hcl.1, arpOKB_ttl t f x hcl.2.1, ?_⟩
  intro hzm
  rcases hz with hz | hz
  · exact hcl.2.2 (by simp [TopoB.zone, hz])
  · cases hb : t.inB n
    · have hm := (zone_of_outsider t n q m r hw hb hzm).1
      have := outside_wire t n q m r hz hw; rw [hm] at this; cases this
    · exact hcl.2.2 (by simp [TopoB.zone, hb])

/-- closure of `ClB` under what a router / firewall with clean, registered interfaces emits of its own accord -/
theorem rtrClosedB (ifs : List Iface) (n : Nat)
    (hhops : ∀ h, t.hops.contains h = true → t.ba.contains h = false)
    (hall : ifs.all (fun i => ifaceClean t i && t.rtrIfs.contains (i.mac, i.ip) && bindOK t.rtrIfs i.mac i.ip) = true) :
    RtrClosed (sysB t apps tbls rtrs bases hFree) (fun _ => true) (ClB t) n ifs t.hops := by
  have hfacts : ∀ (q : Nat) (i : Iface), ifs[q]? = some i → t.ba.contains i.ip = false ∧ bindOK t.rtrIfs i.mac i.ip = true := by
    intro q i hi
    have := List.all_eq_true.mp hall i (List.mem_of_getElem? hi)
    simp only [ifaceClean, Bool.and_eq_true, Bool.not_eq_true'] at this
    exact ⟨this.1.1, this.2⟩
  refine ⟨fun _ _ _ _ => rfl, ?_, ?_, ?_⟩
  · intro p f q o a m r _ hcl ho _ ha
    obtain ⟨hclean, hbind⟩ := hfacts q o ho
    refine clB_arpRequest t o a m r hclean hbind (fun _ => ?_)
    rcases ha with rfl | ha
    · exact hcl.1
    · exact hhops a ha
  · intro p f g q o m r _ hcl ho _ hg
    obtain ⟨hclean, _⟩ := hfacts q o ho
    refine ⟨hclean, arpOKB_nonexempt t _ ?_, fun _ => hcl.1⟩
    intro hs
    have := exempt_arp _ hs
    simp [hg] at this
  · intro p f x q o i m r _ hcl hsub hreq ho _
    obtain ⟨hclean, _⟩ := hfacts q o ho
    refine ⟨hclean, ?_, fun _ => ((hcl.2.1 hsub).1 hreq).2.2⟩
    intro _
    exact ⟨fun h => by simp [arpReplyFrame] at h, fun _ => ((hcl.2.1 hsub).1 hreq).2.1⟩

/-- a frame addressed to the arrival interface's MAC, not a broadcast, not for the device: it is not a genuine ARP packet -/
theorem not_exempt_of_unicast (ifs : List Iface) (p : Nat) (i : Iface) (f : Frame) (hi : ifs[p]? = some i)
    (hall : ifs.all (fun i => ifaceClean t i && t.rtrIfs.contains (i.mac, i.ip) && bindOK t.rtrIfs i.mac i.ip) = true)
    (hok : ArpOKB t f) (hm : f.dstMac = i.mac) (hb : f.dstMac ≠ bcastMac) (hown : ownIpL ifs f.pkt.dstIp = false) :
    subjectToAcl f ≠ some false := by
  intro hs
  obtain ⟨h1, h2⟩ := hok hs
  cases hq : f.arpReq
  · have hbnd := h2 hq
    rw [hm] at hbnd
    have hmem := List.all_eq_true.mp hall i (List.mem_of_getElem? hi)
    simp only [Bool.and_eq_true] at hmem
    have := bindOK_mem _ _ _ _ hbnd hmem.1.2
    have hany : ownIpL ifs f.pkt.dstIp = true := by
      simp only [ownIpL, List.any_eq_true]
      exact ⟨i, List.mem_of_getElem? hi, by simp [this]⟩
    rw [hown] at hany; cases hany
  · exact hb (h1 hq).1

/-- forwarding closure: a forwarded frame and the ARP request for its destination are in the class provided the frame is not
addressed to a protected host whenever it is sent into the zone -/
theorem fwdOKB (ifs : List Iface) (n : Nat) (f : Frame)
    (hall : ifs.all (fun i => ifaceClean t i && t.rtrIfs.contains (i.mac, i.ip) && bindOK t.rtrIfs i.mac i.ip) = true)
    (hsrc : t.ba.contains f.pkt.srcIp = false) (hne : subjectToAcl f ≠ some false)
    (hdst : ∀ q m r, t.wire n q = some (m, r) → t.zone m r = true → t.ba.contains f.pkt.dstIp = false) :
    FwdOK (sysB t apps tbls rtrs bases hFree) (ClB t) n ifs f := by
  intro q o m r ho hw
  have := List.all_eq_true.mp hall o (List.mem_of_getElem? ho)
  simp only [ifaceClean, Bool.and_eq_true, Bool.not_eq_true'] at this
  refine ⟨fun x dm => ⟨hsrc, arpOKB_nonexempt t _ hne, hdst q m r hw⟩, ?_⟩
  exact clB_arpRequest t o _ m r this.1.1 this.2 (hdst q m r hw)

end reach2

/-! ### the theorem -/

section reach3
variable (t : TopoB) (apps : Nat → HostApp W) (tbls : Nat → SwitchTbl W) (rtrs : Nat → RtrOpaque W) (bases : Nat → Soft W)
  (hFree : Nat → Node W → Nat → Frame → Script W)

/-- **C06, reachability form: a frame addressed to a protected host never reaches it, whatever else circulates.**
If `certifyB` accepts the network in state `σ` — every router / firewall with a wire into the protected zone denies every
packet addressed to a protected address (router: its list; firewall: the first list of the arrival port, or the list of the
second entry point the code selects for that address) — then for ALL software of the attacker-side hosts, ALL handlers of
`free` attacker-side nodes that do not forge a protected source address or an ARP payload, ALL opaque parts of every router
and firewall (ARP caches, route tables, WHERE they forward and answer), ALL switch tables and ALL software of the protected
hosts, any sequence of operations on the attacker side leaves the state of every protected host exactly as it was.
Frames to other destinations do cross the guards, the guards' own ARP requests and replies do enter the zone
(F-C06-dmz-lookup is inside the model), and the other devices of the zone do change: no hypothesis forbids it. -/
theorem C06_certifiedB_unchanged (σ : St Nat (Node W)) (hc : certifyB t σ = true)
    (hfree : ∀ n, n < t.roles.length → t.role n = .free → ∀ s p f, ClB t n p f →
      EmitsCl (sysB t apps tbls rtrs bases hFree) (ClB t) n (hFree n s p f))
    (ops : List (Nat × Op Nat Nat Frame (Node W)))
    (hops : ∀ o ∈ ops,
      (t.role o.2.node = .host ∧ ∃ a : Node W → SwScript W, o.2.script = fun s => hostOp s (a s)) ∨
      (t.role o.2.node = .free ∧ ∀ s, EmitsCl (sysB t apps tbls rtrs bases hFree) (ClB t) o.2.node (o.2.script s))) :
    ∀ b, t.role b = .deaf → runOps (sysB t apps tbls rtrs bases hFree) σ ops b = σ b := by
  obtain ⟨hhops, hrange, hnode⟩ := certifyB_parts t σ hc
  have hcn : ∀ n, t.role n ≠ .free → certifyNodeB t n (σ n) = true := fun n h => hnode n (role_lt t n h)
  have hhost : ∀ n, t.role n = .host → ∀ s, invB t σ n s ↔ (s.kind = .host ∧ s.ifaces = (σ n).ifaces) := by
    intro n hr s; simp [invB, hr]
  have hswitch : ∀ n, t.role n = .switch → ∀ s, invB t σ n s ↔ s.kind = .switch := by
    intro n hr s; simp [invB, hr]
  have hallR : ∀ n, (t.role n = .rtr ∨ t.role n = .fw) →
      (σ n).ifaces.all (fun i => ifaceClean t i && t.rtrIfs.contains (i.mac, i.ip) && bindOK t.rtrIfs i.mac i.ip) = true := by
    intro n hr
    rcases hr with hr | hr
    · have := hcn n (by rw [hr]; simp)
      simp only [certifyNodeB, hr, Bool.and_eq_true] at this
      exact this.1.2
    · have := hcn n (by rw [hr]; simp)
      simp only [certifyNodeB, hr, Bool.and_eq_true] at this
      exact this.1.2
  -- a frame forwarded into the zone's scope by node `n` is not addressed to a protected host
  have hdstOf : ∀ n p f, ClB t n p f → (t.zone n p = false → needGuard t n = true → t.ba.contains f.pkt.dstIp = false) →
      ∀ q m r, t.wire n q = some (m, r) → t.zone m r = true → t.ba.contains f.pkt.dstIp = false := by
    intro n p f hcl hg q m r hw hz
    cases hzn : t.zone n p
    · have hnB : t.inB n = false := by
        cases h : t.inB n
        · rfl
        · simp [TopoB.zone, h] at hzn
      exact hg hzn (zone_of_outsider t n q m r hw hnB hz).2
    · exact hcl.2.2 hzn
  have cut : IsCut (sysB t apps tbls rtrs bases hFree) (fun _ => true) (FromSideC (sysB t apps tbls rtrs bases hFree) (fun _ => true) (ClB t))
      (invB t σ) := by
    constructor
    intro n s p f _ hI hK
    cases hr : t.role n with
    | free =>
      have hh : (sysB t apps tbls rtrs bases hFree).handler n = hFree n := by simp [sysB, hr]
      rw [hh]
      have hlt : n < t.roles.length := by
        obtain ⟨n', q, _, hw⟩ := hK.1
        exact hrange n' q n p hw
      exact safe_of_interior_emits _ _ (ClB t) _ n rfl (fun s => by simp [invB, hr]) (fun _ _ _ _ => rfl) _
        (hfree n hlt hr s p f hK.2)
    | host =>
      have hh : (sysB t apps tbls rtrs bases hFree).handler n = nodeRx (hostStd (apps n)) := by simp [sysB, softB, hr]
      rw [hh]
      exact C06_host_safe _ _ (ClB t) _ n (σ n).ifaces rfl (hhost n hr)
        (hostClosedB t apps tbls rtrs bases hFree σ n hr (hcn n (by rw [hr]; simp))).2 (apps n) s p f hI hK.1 hK.2
    | switch =>
      have hh : (sysB t apps tbls rtrs bases hFree).handler n = nodeRx (switchStd (tbls n)) := by simp [sysB, softB, hr]
      rw [hh]
      exact C06_switch_safe _ _ (ClB t) _ n rfl (hswitch n hr)
        (switchClosedB t apps tbls rtrs bases hFree σ n hr (hcn n (by rw [hr]; simp))).2 (tbls n) s p f hI hK.1 hK.2
    | rtr =>
      have hh : (sysB t apps tbls rtrs bases hFree).handler n = nodeRx (rtrStd t.hops (rtrs n)) := by simp [sysB, softB, hr]
      rw [hh]
      have hall := hallR n (Or.inl hr)
      refine C06_rtr_safe _ _ (ClB t) _ n (σ n).ifaces t.hops
        (fun a => needGuard t n = true → DeniesClass (ForB t.ba) a)
        (fun a q h hg => deniesClass_stable _ _ _ (h hg))
        (fun s => by simp [invB, hr]) rfl (rtrClosedB t apps tbls rtrs bases hFree _ n hhops hall) ?_ (rtrs n) s p f hI hK.1 hK.2
      intro p' i f' _ hcl hi hm hb hown hv
      have hne := not_exempt_of_unicast t _ p' i f' hi hall hcl.2.1 hm hb hown
      refine fwdOKB t apps tbls rtrs bases hFree _ n f' hall hcl.1 hne (hdstOf n p' f' hcl ?_)
      intro _ hg
      rcases hv with hv | ⟨a, ha, hp⟩
      · exact absurd hv hne
      · cases hd : t.ba.contains f'.pkt.dstIp
        · rfl
        · have := ha hg f'.pkt hd
          rw [hp] at this; cases this
    | fw =>
      have hh : (sysB t apps tbls rtrs bases hFree).handler n = nodeRx (rtrStd t.hops (rtrs n)) := by simp [sysB, softB, hr]
      rw [hh]
      have hall := hallR n (Or.inr hr)
      refine C06_fw_safe _ _ (ClB t) _ n (σ n).ifaces t.hops
        (fun acls => needGuard t n = true → FwGuardP t (fun e => !t.fromB n (portOf e)) (fwD t (σ n)) (σ n).ifaces acls)
        (fun acls a q h hg => fwGuardP_bump t _ _ _ acls a q (h hg))
        (fun s => by simp [invB, hr]) rfl (rtrClosedB t apps tbls rtrs bases hFree _ n hhops hall) ?_ (rtrs n) s p f hI hK.1 hK.2
      intro p' i f' e _ hcl hi hpe hm hb hown hv
      have hne := not_exempt_of_unicast t _ p' i f' hi hall hcl.2.1 hm hb hown
      refine fwdOKB t apps tbls rtrs bases hFree _ n f' hall hcl.1 hne (hdstOf n p' f' hcl ?_)
      intro hzn hg
      obtain ⟨a1, a2, e2, g1, p1, g2, p2, hsel⟩ := hv
      cases hd : t.ba.contains f'.pkt.dstIp
      · rfl
      · exfalso
        have he := portEntry_first p' e hpe
        have hport : portOf e = p' := by
          unfold portEntry at hpe
          split at hpe
          · rename_i h; injection hpe with hpe; subst hpe; exact h.symm
          · split at hpe
            · rename_i h; injection hpe with hpe; subst hpe; exact h.symm
            · split at hpe
              · rename_i h; injection hpe with hpe; subst hpe; exact h.symm
              · cases hpe
        have hneed : (!t.fromB n (portOf e)) = true := by
          rw [hport]
          cases hfb : t.fromB n p'
          · rfl
          · simp [TopoB.zone, hfb] at hzn
        have h1 := g1 hg e he hneed
        have h2 := g2 hg e he hneed
        cases hde : fwD t (σ n) e
        · simp only [hde, Bool.false_eq_true, if_false] at h2
          have hself : ForB [f'.pkt.dstIp] f'.pkt := by simp [ForB]
          rcases he with rfl | rfl | rfl
          · simp only [SelOK] at hsel
            have := h2 _ hd f'.pkt hself
            rw [← hsel, p2] at this; cases this
          · simp only [SelOK] at hsel
            have := h2 _ hd f'.pkt hself
            rw [← hsel, p2] at this; cases this
          · simp only [SelOK] at hsel
            rcases hsel with rfl | rfl
            · have := h2.1 f'.pkt hd
              have e1 : entryAcl .extOut = AclId.extOut := rfl
              rw [e1, this] at p2; cases p2
            · have := h2.2 f'.pkt hd
              have e1 : entryAcl .intIn = AclId.intIn := rfl
              rw [e1, this] at p2; cases p2
        · simp only [hde, if_true] at h1
          have := h1 f'.pkt hd
          rw [p1] at this; cases this
    | deaf =>
      have hh : (sysB t apps tbls rtrs bases hFree).handler n = nodeRx (bases n) := by simp [sysB, softB, hr]
      rw [hh]
      have hs0 : s = σ n := by simpa [invB, hr] using hI
      have hcd := hcn n (by rw [hr]; simp)
      simp only [certifyNodeB, hr, Bool.and_eq_true, beq_iff_eq] at hcd
      obtain ⟨⟨hk, hin⟩, hall⟩ := hcd
      have hdst := hK.2.2.2 (by simp [TopoB.zone, hin])
      rw [hs0, C06_host_deaf (bases n) (σ n) p f hk ?_]
      · exact SafeAct.done (by simp [invB, hr])
      · intro i hi
        have := List.all_eq_true.mp hall i hi
        simp only [Bool.and_eq_true] at this
        constructor
        · intro h; rw [h, this.1] at hdst; cases hdst
        · intro h; rw [h, this.2] at hdst; cases hdst
  have hσ : ∀ n, (fun _ : Nat => true) n = true → invB t σ n (σ n) := by
    intro n _
    cases hr : t.role n with
    | free => simp [invB, hr]
    | host => exact (hhost n hr _).mpr ⟨(hostClosedB t apps tbls rtrs bases hFree σ n hr (hcn n (by rw [hr]; simp))).1, rfl⟩
    | switch => exact (hswitch n hr _).mpr (switchClosedB t apps tbls rtrs bases hFree σ n hr (hcn n (by rw [hr]; simp))).1
    | rtr =>
      have hcd := hcn n (by rw [hr]; simp)
      simp only [certifyNodeB, hr, Bool.and_eq_true, beq_iff_eq, Bool.or_eq_true] at hcd
      simp only [invB, hr]
      refine ⟨hcd.1.1, trivial, fun hg => ?_⟩
      simp only [needGuard, Bool.not_eq_true', Bool.or_eq_false_iff] at hg
      rcases hcd.2 with (h | h) | h
      · rw [hg.1] at h; cases h
      · rw [hg.2] at h; cases h
      · exact C06_denyDstCheck_sound _ _ h
    | fw =>
      have hcd := hcn n (by rw [hr]; simp)
      simp only [certifyNodeB, hr, Bool.and_eq_true, beq_iff_eq, Bool.or_eq_true] at hcd
      simp only [invB, hr]
      refine ⟨hcd.1.1, trivial, fun hg => ?_⟩
      simp only [needGuard, Bool.not_eq_true', Bool.or_eq_false_iff] at hg
      rcases hcd.2 with (h | h) | h
      · rw [hg.1] at h; cases h
      · rw [hg.2] at h; cases h
      · exact fwGuards_sound t _ (σ n) h
    | deaf => simp [invB, hr]
  have hops' : ∀ o ∈ ops, SafeOp (sysB t apps tbls rtrs bases hFree) (fun _ => true)
      (FromSideC (sysB t apps tbls rtrs bases hFree) (fun _ => true) (ClB t)) (invB t σ) o.2 := by
    intro o ho
    refine ⟨rfl, ?_⟩
    intro s hs
    rcases hops o ho with ⟨hr, a, ha⟩ | ⟨hr, he⟩
    · rw [ha]
      exact C06_hostOp_safe _ _ (ClB t) _ o.2.node (σ o.2.node).ifaces rfl (hhost _ hr)
        (hostClosedB t apps tbls rtrs bases hFree σ _ hr (hcn _ (by rw [hr]; simp))).2 a s hs
    · exact safe_of_interior_emits _ _ (ClB t) _ o.2.node rfl (fun s => by simp [invB, hr]) (fun _ _ _ _ => rfl) _ (he s)
  intro b hb
  have := (runOps_good _ _ _ _ cut ops σ hops' hσ).1 b rfl
  simpa [invB, hb] using this

end reach3

/-! ## 4. non-vacuity -/

section examplesB

def exDstB : Rule := { anyPattern with dstIp := some 0x0A000214#32 }
def exDstNet : Rule := { anyPattern with dstIp := some 0x0A000200#32, dstWc := some 0x000000FF#32 }

/-- DENY dst = B, DENY dst = 10.0.2.0/24 (covers the subnet broadcast address), PERMIT any-any behind them -/
def exDstAcl : Acl :=
  { rules := [some exDstB, some exDstNet] ++ List.replicate 8 none ++ [some exPermitAny] ++ List.replicate 13 none, implicit := .deny }

def exRouterD : Node Unit := { exRouterC with acls := fun _ => exDstAcl }

/-- A (0) — SW (1) — R (2) — B (3), R denies only what is addressed to B -/
def exTopoB : TopoB :=
  { roles := [.host, .switch, .rtr, .deaf], zoneB := [false, false, false, true],
    wires := [((0, 0), (1, 0)), ((1, 0), (0, 0)), ((1, 1), (2, 0)), ((2, 0), (1, 1)), ((2, 1), (3, 0)), ((3, 0), (2, 1))],
    ba := [0x0A000214#32, 0x0A0002FF#32], rtrIfs := [(11, 0x0A000101#32), (12, 0x0A000201#32)], hops := [] }

def exStatesB : Nat → Node Unit := fun n =>
  if n = 1 then exSwitch else if n = 2 then exRouterD else exHost (if n = 0 then 0x0A00010A#32 else 0x0A000214#32)

/-- the list is NOT a deny-everything list and NOT a source-class list (both earlier certificates' scans reject it), the
destination scan accepts it; `certifyB` accepts the network; it rejects it without the rule for the subnet broadcast address,
with a PERMIT rule ahead, when B's broadcast address is missing from `ba`, and when a next hop is a protected address -/
example : denyAllCheck exDstAcl = false ∧ denyClassCheck [exSrcRange] exDstAcl = false ∧
    denyDstCheck exTopoB.ba exDstAcl = true ∧ certifyB exTopoB exStatesB = true ∧
    certifyB exTopoB (fun n => if n = 2 then { exRouterD with acls := fun _ =>
      { exDstAcl with rules := [some exDstB] ++ List.replicate 9 none ++ [some exPermitAny] ++ List.replicate 13 none } } else exStatesB n) = false ∧
    certifyB exTopoB (fun n => if n = 2 then { exRouterD with acls := fun _ =>
      { exDstAcl with rules := [some exPermitAny] ++ exDstAcl.rules } } else exStatesB n) = false ∧
    certifyB { exTopoB with ba := [0x0A000214#32] } exStatesB = false ∧
    certifyB { exTopoB with hops := [0x0A000214#32] } exStatesB = false := by decide

/-- the theorem applies: whatever A's software sends — to C, to the router, to the other side — B's state never changes -/
example (apps : Nat → HostApp Unit) (tbls : Nat → SwitchTbl Unit) (rtrs : Nat → RtrOpaque Unit) (bases : Nat → Soft Unit)
    (hFree : Nat → Node Unit → Nat → Frame → Script Unit) (ops : List (Nat × Op Nat Nat Frame (Node Unit)))
    (hops : ∀ o ∈ ops, o.2.node = 0 ∧ ∃ a : Node Unit → SwScript Unit, o.2.script = fun s => hostOp s (a s)) :
    runOps (sysB exTopoB apps tbls rtrs bases hFree) exStatesB ops 3 = exStatesB 3 := by
  apply C06_certifiedB_unchanged exTopoB apps tbls rtrs bases hFree exStatesB (by decide)
  · intro n hlt hr; exfalso; revert hr
    have : n < 4 := hlt
    match n with
    | 0 | 1 | 2 | 3 => decide
  · intro o ho
    obtain ⟨h0, a, ha⟩ := hops o ho
    exact Or.inl ⟨by rw [h0]; decide, a, ha⟩
  · decide

/-- a frame to another destination DOES cross the router: the permitted branch is reached, the forwarding software is asked -/
example : (isPermitted exDstAcl { proto := .icmp, srcIp := 0x0A00010A#32, dstIp := 0x0A000315#32, ports := none }).1 = true ∧
    (isPermitted exDstAcl { proto := .icmp, srcIp := 0x0A00010A#32, dstIp := 0x0A000214#32, ports := none }).1 = false := by decide

end examplesB

end Primaite.Filter
