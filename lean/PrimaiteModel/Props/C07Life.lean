/-
C07, lifecycle: the list that is enforced is the CONFIGURED list.

* `C07_installAll_slot`, `C07_configured_list`: a device's list built from a scenario file holds, at every position, the LAST
  rule the file (after the device's own defaults) wrote there, with a zero counter — a file rule at 22 / 23 REPLACES the default
  ARP / ICMP permit, everything else stays as built.
* The model has no lifecycle operation: episode resets, time steps, power cycles and `setup_for_episode` are not in its
  operation alphabet (`AclObj.Op`), so by `C07_run_state` & co. they cannot change a list.  That the CODE agrees is a tie, not a
  theorem: `C07_gen_acl_writers` (every writer of an ACL in the package is one of the modelled ones, `_set_default_acl` is
  called from `Router.__init__` only) and `C07_gen_hooks_leave_acl_alone` (no lifecycle hook mentions an ACL), regenerated on
  every run, plus the rig family `episode` through the real environment.
-/
import PrimaiteModel.Model.AclObj
import PrimaiteModel.Gen.AclWriters
namespace Primaite.Acl

/-- the last rule a sequence of writes leaves at position `p` -/
def lastWrite (p : Nat) : List (Nat × Rule) → Option Rule
  | [] => none
  | (q, r) :: rest =>
    match lastWrite p rest with
    | some r' => some r'
    | none => if q = p then some r else none

theorem lastWrite_append (p : Nat) (a b : List (Nat × Rule)) :
    lastWrite p (a ++ b) = match lastWrite p b with
      | some r => some r
      | none => lastWrite p a := by
  induction a with
  | nil => simp only [List.nil_append, lastWrite]; cases lastWrite p b <;> rfl
  | cons x xs ih =>
    obtain ⟨q, r⟩ := x
    simp only [List.cons_append, lastWrite, ih]
    cases lastWrite p b <;> rfl

theorem installAll_append (o : AclObj) (a b : List (Nat × Rule)) : installAll o (a ++ b) = installAll (installAll o a) b := by
  induction a generalizing o with
  | nil => rfl
  | cons x xs ih => obtain ⟨q, r⟩ := x; simp only [List.cons_append, installAll, ih]

/-- an in-range write: what `add_rule` does to the object -/
theorem addRule_inrange (o : AclObj) (r : Rule) (q : Nat) (h1 : q < o.core.rules.length) (h2 : (q : Int) < o.maxRules - 1) :
    (o.addRule r q).1 = { o with core := { o.core with rules := o.core.rules.set q (some { r with hits := 0 }) } } := by
  have hb : o.inBound (q : Int) = true := by simp [AclObj.inBound, h2]
  simp [AclObj.addRule, hb, Acl.addRule, h1]

/-- **Last write wins.**  After installing a sequence of in-range rules, position `p` holds the last rule written there
(zero counter), else what it held before; nothing else about the object changes. -/
theorem C07_installAll_slot (l : List (Nat × Rule)) (o : AclObj)
    (hb : ∀ qr ∈ l, qr.1 < o.core.rules.length ∧ (qr.1 : Int) < o.maxRules - 1) (p : Nat) :
    (installAll o l).core.rules[p]? = (match lastWrite p l with
      | some r => some (some { r with hits := 0 })
      | none => o.core.rules[p]?) ∧
    (installAll o l).core.rules.length = o.core.rules.length ∧ (installAll o l).maxRules = o.maxRules ∧
    (installAll o l).core.implicit = o.core.implicit ∧ (installAll o l).core.implicitHits = o.core.implicitHits ∧
    (installAll o l).ruleAction = o.ruleAction := by
  induction l generalizing o with
  | nil => simp [installAll, lastWrite]
  | cons x xs ih =>
    obtain ⟨q, r⟩ := x
    have hq := hb (q, r) (by simp)
    have ho := addRule_inrange o r q hq.1 hq.2
    simp only [installAll, ho]
    have hb' : ∀ qr ∈ xs, qr.1 < ({ o with core := { o.core with rules := o.core.rules.set q (some { r with hits := 0 }) } } : AclObj).core.rules.length ∧
        (qr.1 : Int) < ({ o with core := { o.core with rules := o.core.rules.set q (some { r with hits := 0 }) } } : AclObj).maxRules - 1 := by
      intro qr hm
      have := hb qr (by simp [hm])
      simpa using this
    obtain ⟨h1, h2, h3, h4, h5, h6⟩ := ih _ hb'
    refine ⟨?_, by simpa using h2, by simpa using h3, by simpa using h4, by simpa using h5, by simpa using h6⟩
    rw [h1]
    simp only [lastWrite]
    cases lastWrite p xs with
    | some r' => rfl
    | none =>
      by_cases hqp : q = p
      · subst hqp; simp [hq.1]
      · simp [hqp, List.getElem?_set_ne hqp]

/-- file rules of a router: positions inside the 24 slots -/
def fileOk (cfg : List (Nat × Rule)) : Prop := ∀ qr ∈ cfg, qr.1 < 24

/-- **The configured list.**  A router (any device's router list) built with the default bound and then loaded with the file's
rules holds at every position the last of: the default rule of that position (22: ARP, 23: ICMP), the file's rules for it. -/
theorem C07_configured_list (cfg : List (Nat × Rule)) (h : fileOk cfg) (p : Nat) (hp : p < 24) :
    (installAll (routerList 25) cfg).core.rules[p]? =
      some ((lastWrite p (defaultRouterRules ++ cfg)).map (fun r => { r with hits := 0 })) ∧
    (installAll (routerList 25) cfg).core.implicit = .deny := by
  have hlen : (AclObj.construct (some .deny) 25).core.rules.length = 24 := by decide
  have hmax : (AclObj.construct (some .deny) 25).maxRules = 25 := rfl
  have hb : ∀ qr ∈ defaultRouterRules ++ cfg, qr.1 < (AclObj.construct (some .deny) 25).core.rules.length ∧
      (qr.1 : Int) < (AclObj.construct (some .deny) 25).maxRules - 1 := by
    intro qr hm
    rw [hlen, hmax]
    rcases List.mem_append.1 hm with hd | hc
    · simp only [defaultRouterRules, List.mem_cons, List.mem_nil_iff, or_false] at hd
      rcases hd with rfl | rfl <;> exact ⟨by decide, by decide⟩
    · have := h qr hc; exact ⟨this, by omega⟩
  have hall : installAll (routerList 25) cfg = installAll (AclObj.construct (some .deny) 25) (defaultRouterRules ++ cfg) := by
    rw [installAll_append]; rfl
  obtain ⟨h1, _, _, h4, _, _⟩ := C07_installAll_slot (defaultRouterRules ++ cfg) _ hb p
  rw [hall, h1, h4]
  refine ⟨?_, rfl⟩
  cases lastWrite p (defaultRouterRules ++ cfg) with
  | some r => rfl
  | none =>
    have : ∀ p, p < 24 → (AclObj.construct (some .deny) 25).core.rules[p]? = some none := by decide
    simp [this p hp]

/-- a file rule at 22 / 23 replaces the default permit of that position (and the other default stays) -/
theorem C07_file_rule_replaces_default (r : Rule) :
    (installAll (routerList 25) [(22, r)]).core.rules[22]? = some (some { r with hits := 0 }) ∧
    (installAll (routerList 25) [(23, r)]).core.rules[23]? = some (some { r with hits := 0 }) ∧
    (installAll (routerList 25) [(22, r)]).core.rules[23]? = (routerList 25).core.rules[23]? := by
  have a := (C07_configured_list [(22, r)] (by intro qr h; simp at h; subst h; simp) 22 (by decide)).1
  have b := (C07_configured_list [(23, r)] (by intro qr h; simp at h; subst h; simp) 23 (by decide)).1
  have c := (C07_configured_list [(22, r)] (by intro qr h; simp at h; subst h; simp) 23 (by decide)).1
  refine ⟨by rw [a]; simp [defaultRouterRules, lastWrite], by rw [b]; simp [defaultRouterRules, lastWrite], ?_⟩
  rw [c]; simp [defaultRouterRules, lastWrite]; decide

-- non-vacuity: the scenario of the seeded change C07-g (DENY icmp from one host at 22, PERMIT icmp from its /24 at 23):
-- the host's ping is denied by position 22; with the defaults re-applied on top it would be permitted by 23
def exFile : List (Nat × Rule) :=
  [(22, { action := .deny, proto := some .icmp, srcIp := some 0xC0A80A16#32, srcWc := none, dstIp := none, dstWc := none, srcPort := none, dstPort := none }),
   (23, { action := .permit, proto := some .icmp, srcIp := some 0xC0A80A00#32, srcWc := some 0x000000FF#32, dstIp := none, dstWc := none,
          srcPort := none, dstPort := none })]
example : fileOk exFile := by intro qr h; simp [exFile] at h; rcases h with rfl | rfl <;> decide
example : let p : Packet := { proto := .icmp, srcIp := 0xC0A80A16#32, dstIp := 0xC0A8010C#32, ports := none }
    ((installAll (routerList 25) exFile).isPermitted p).1 = false ∧ ((installAll (routerList 25) exFile).isPermitted p).2.1 = .rule 22 ∧
    ((installAll (installAll (routerList 25) exFile) defaultRouterRules).isPermitted p).1 = true := by decide

/-! ### the tie: who writes an ACL, and what the lifecycle hooks mention (regenerated on every run) -/

open Primaite.Gen.AclWriters in
/-- WHEN a writer runs, by the function it sits in.  `none` = a writer the model does not know. -/
def writerPhase (file fn : String) : Option String :=
  if file = "simulator/network/hardware/nodes/network/router.py" then
    if fn = "AccessControlList.__init__" ∨ fn = "AccessControlList.add_rule" ∨ fn = "AccessControlList.remove_rule"
        ∨ fn = "AccessControlList.is_permitted" then some "primitive (an operation of the model)"
    else if fn = "AccessControlList._init_request_manager._add_rule_action"
        ∨ fn = "AccessControlList._init_request_manager._remove_rule_action" then some "request handler (calls the primitive)"
    else if fn = "Router.__init__" ∨ fn = "Router._set_default_acl" then some "construction of a new device"
    else if fn = "Router.from_config" then some "loader (new device from a scenario file)"
    else none
  else if file = "simulator/network/hardware/nodes/network/firewall.py" then
    if fn = "Firewall.from_config" then some "loader (new device from a scenario file)" else none
  else if file = "simulator/network/hardware/nodes/network/wireless_router.py" then
    if fn = "WirelessRouter.from_config" then some "loader (new device from a scenario file)" else none
  else if file = "simulator/network/networks.py" ∨ file = "simulator/network/creation.py" then some "builder of a NEW network"
  else if file = "game/agent/observations/firewall_observation.py" ∨ file = "game/agent/observations/router_observation.py" then
    if fn = "FirewallObservation.__init__" ∨ fn = "RouterObservation.__init__" ∨ fn = "RouterObservation.from_config"
    then some "an observation's own field of the same name (not a list of the simulation)" else none
  else none

/-- TIE: every place of the package that writes an access-control list is one the model knows, and runs when a NEW device /
network is built or as one of the model's operations; the default-rule helper is called from `Router.__init__` only. -/
theorem C07_gen_acl_writers :
    (Primaite.Gen.AclWriters.writers.all fun w => (writerPhase w.1 w.2.1).isSome) = true ∧
    Primaite.Gen.AclWriters.writers.filter (fun w => w.2.2 == "call:_set_default_acl") =
      [("simulator/network/hardware/nodes/network/router.py", "Router.__init__", "call:_set_default_acl")] ∧
    (Primaite.Gen.AclWriters.writers.filter (fun w => w.2.2 == "setitem:_acl" || w.2.2 == "assign:_acl")).map (·.2.1) =
      ["AccessControlList.__init__", "AccessControlList.add_rule", "AccessControlList.remove_rule"] := by decide

/-- TIE: no lifecycle hook of a device, a node, the network, the simulation, the game or an environment mentions an ACL
(the inventory is not empty: it contains the hooks the seeded change C07-g went through). -/
theorem C07_gen_hooks_leave_acl_alone :
    (Primaite.Gen.AclWriters.hooks.all fun h => h.2.2.isEmpty) = true ∧
    (Primaite.Gen.AclWriters.hooks.any fun h => h.2.1 == "Router.setup_for_episode") = true ∧
    (Primaite.Gen.AclWriters.hooks.any fun h => h.2.1 == "Node.power_on") = true ∧
    (Primaite.Gen.AclWriters.hooks.any fun h => h.2.1 == "PrimaiteGymEnv.reset") = true := by decide

end Primaite.Acl
