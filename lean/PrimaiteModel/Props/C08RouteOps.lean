/-
C08, part 7 — route look-ups are a FUNCTION of the table as it is now: the history of earlier look-ups, of the order in which
routes and default routes arrived, does not matter; a new default route, a replaced default route and a new route take effect
at the very next look-up.  (The class of defect "a memo of look-ups that goes stale".)  The model side is true by
construction — `findBestRoute` is a pure function and the driver's `rt-find` leaves the table alone —; the tie to the code is
the Gen obligation `findBestRouteIsFunctionOfTable` (the method reads only `self.routes` / `self.default_route`, writes
nothing, the class has no other field or writer) and R-route's interleaved histories.
-/
import PrimaiteModel.Props.C08
import PrimaiteModel.Gen.Forward
namespace Primaite.Route

/-- what the API of `RouteTable` offers, as the driver executes it. -/
inductive TblOp
  | add (r : Route)
  | default (nh : Ip)
  | find (dst : Ip)
deriving DecidableEq, Repr

/-- a history: the final table and the answers of its look-ups, in order. -/
def runTbl : Table → List TblOp → Table × List Result
  | t, [] => (t, [])
  | t, .add r :: ops => runTbl (addRoute t r) ops
  | t, .default nh :: ops => runTbl (setDefault t nh) ops
  | t, .find dst :: ops => let x := runTbl t ops; (x.1, findBestRoute t dst :: x.2)

def TblOp.isFind : TblOp → Bool
  | .find _ => true
  | _ => false

/-- look-ups leave no trace: deleting any look-ups from a history changes neither the final table … -/
theorem C08_lookups_leave_no_trace (t : Table) (ops : List TblOp) :
    (runTbl t ops).1 = (runTbl t (ops.filter (fun o => !o.isFind))).1 := by
  induction ops generalizing t with
  | nil => rfl
  | cons o os ih =>
    cases o with
    | add r => simp only [List.filter_cons, TblOp.isFind, Bool.not_false, if_true, runTbl]; exact ih _
    | default nh => simp only [List.filter_cons, TblOp.isFind, Bool.not_false, if_true, runTbl]; exact ih _
    | find dst => simp only [List.filter_cons, TblOp.isFind, Bool.not_true, Bool.false_eq_true, if_false, runTbl]; exact ih _

/-- … nor, therefore, the answer of any later look-up: two histories with the same writes (in the same order) and ANY look-ups
in between give the same answer for every destination afterwards. -/
theorem C08_lookup_history_free (t : Table) (ops ops' : List TblOp)
    (h : ops.filter (fun o => !o.isFind) = ops'.filter (fun o => !o.isFind)) (dst : Ip) :
    findBestRoute (runTbl t ops).1 dst = findBestRoute (runTbl t ops').1 dst := by
  rw [C08_lookups_leave_no_trace t ops, C08_lookups_leave_no_trace t ops', h]

/-- a default route — the first one or a replacement — is the answer of the very next look-up of every destination no entry
covers, whatever was looked up (and answered "no route" or by the old default) before. -/
theorem C08_default_takes_effect (t : Table) (nh dst : Ip) (hv : ValidMasks t.routes)
    (hno : ∀ r ∈ t.routes, ∀ p, ¬ Covers dst r p) : findBestRoute (setDefault t nh) dst = .default nh :=
  (C08_default_iff (setDefault t nh) dst nh).2 ⟨hv, hno, rfl⟩

/-- a new route takes effect at the very next look-up: a destination it covers is answered by an entry at least as specific
(never again by the default route or "no route"). -/
theorem C08_new_route_takes_effect (t : Table) (r : Route) (dst : Ip) (p : Nat) (hv : ValidMasks (t.routes ++ [r]))
    (hc : Covers dst r p) :
    ∃ i r' p', findBestRoute (addRoute t r) dst = .route i r' ∧ Covers dst r' p' ∧ p ≤ p' := by
  have hmem : r ∈ (addRoute t r).routes := by simp [addRoute]
  obtain ⟨i, r', h⟩ := C08_route_when_covered (addRoute t r) dst hv ⟨r, hmem, p, hc⟩
  obtain ⟨_, p', hp'⟩ := C08_best_matches (addRoute t r) dst i r' h
  exact ⟨i, r', p', h, hp', C08_best_longest (addRoute t r) dst i r' p' h hp' r hmem p hc⟩

/-- Gen obligation: in the source, `find_best_route` reads only `self.routes` / `self.default_route`, writes nothing, calls no
method of the table and is not decorated; `RouteTable` has no other field and no other writer than `add_route` (append) and
`set_default_route_next_hop_ip_address` (assign). -/
theorem C08_gen_route_function : Gen.Forward.findBestRouteIsFunctionOfTable = true := by decide

/-! non-vacuity -/
example : (runTbl {} [.find 0x0A010909#32, .default 0x09090909#32, .find 0x0A010909#32, .default 0x09090908#32,
    .find 0x0A010909#32, .add exR0, .find 0x0A010909#32]).2 =
    [.noRoute, .default 0x09090909#32, .default 0x09090908#32, .route 0 exR0] := by decide

end Primaite.Route
