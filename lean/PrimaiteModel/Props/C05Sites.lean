/-
C05 (dynamic sites) — the route of a component is registered / un-registered UNCONDITIONALLY with respect to power and
operating state, under exactly the guards of the statement that makes the component exist; hence, for EVERY construction
order (owner ON or OFF when a NIC / software / folder / file / node is added or removed, any interleaving with power events),
a component exists iff its route exists.  Seeded C05-e's class (a component that exists but whose route was registered
conditionally) breaks the table theorem and is the counterexample of the general one.
-/
import PrimaiteModel.Model.Schema
import PrimaiteModel.Gen.RequestSites
namespace Primaite.Schema
open Primaite.Request (Key)
open Primaite.Gen.RequestSites (sites Site)

/-- (table, regenerated) at EVERY dynamic `add_request` / `remove_request` site of the source: no guard reads a power /
operating / enabled state; the guards the site has in addition to the statement that (un)registers the component in the
object graph are only "already there" / "of the other software kind" tests (never `state`, never unclassified); and every
dynamic level has an add site. -/
theorem C05_gen_sites_unconditional :
    (∀ s ∈ sites, s.readsState = false) ∧
    (∀ s ∈ sites, ∀ k ∈ s.extraKinds, k = "presence" ∨ k = "type") ∧
    (∀ s ∈ sites, s.registry ≠ "") ∧
    (∀ lv ∈ [Level.node, .service, .application, .nic, .folder, .file], ∃ s ∈ sites, s.isAdd = true ∧ s.level = lv) := by
  decide +kernel

/-- does the site of level `lv` run when the owner's power state is `on`?  Read from the regenerated table: a site whose guards
read state is taken to run only while ON (the worst case, C05-e); any other site always runs. -/
def genRegisters (lv : Level) (on : Bool) : Bool :=
  on || !(sites.any (fun s => s.level == lv && s.readsState))

theorem genRegisters_always : ∀ lv on, genRegisters lv on = true := by
  intro lv on
  have h := C05_gen_sites_unconditional.1
  simp only [genRegisters, Bool.or_eq_true, Bool.not_eq_true', List.any_eq_false, Bool.and_eq_true, beq_iff_eq, not_and,
    Bool.not_eq_true]
  exact Or.inr (fun s hs _ => h s hs)

/-- (general) when every site always runs, routes and registry evolve in lock-step: for EVERY operation sequence from a
consistent state the keys of the dynamic managers are exactly the components that exist. -/
theorem C05_exists_iff_route (registers : Level → Bool → Bool) (hall : ∀ lv on, registers lv on = true) :
    ∀ (ops : List COp) (s : CState), s.routes = s.comps → (crun registers s ops).routes = (crun registers s ops).comps := by
  intro ops
  induction ops with
  | nil => intro s h; exact h
  | cons op rest ih =>
    intro s h
    simp only [crun, List.foldl_cons]
    apply ih
    cases op with
    | power b => exact h
    | add lv k => simp [cstep, hall, h]
    | remove lv k => simp [cstep, hall, h]

/-- the regenerated sites: for every construction order, exists ⇔ route exists -/
theorem C05_regenerated_exists_iff_route (ops : List COp) (on : Bool) :
    (crun genRegisters ⟨on, [], []⟩ ops).routes = (crun genRegisters ⟨on, [], []⟩ ops).comps :=
  C05_exists_iff_route genRegisters genRegisters_always ops _ rfl

/-- in particular: whatever the order, a component that exists has a route and a route names a component that exists -/
theorem C05_exists_implies_route (ops : List COp) (on : Bool) (lv : Level) (k : Key) :
    (lv, k) ∈ (crun genRegisters ⟨on, [], []⟩ ops).comps ↔ (lv, k) ∈ (crun genRegisters ⟨on, [], []⟩ ops).routes := by
  rw [C05_regenerated_exists_iff_route]

/-- COUNTEREXAMPLE for a power-guarded site (seeded C05-e): the NIC of a node that is OFF when the interface is connected
exists — and still has no route after the node is powered on. -/
theorem C05_guarded_site_counterexample :
    let guarded : Level → Bool → Bool := fun lv on => if lv = .nic then on else true
    let s := crun guarded ⟨false, [], []⟩ [.add .nic "i:1", .power true]
    (Level.nic, "i:1") ∈ s.comps ∧ (Level.nic, "i:1") ∉ s.routes ∧ s.on = true := by
  decide

/-! non-vacuity: a node built OFF, NIC + service + folder added while OFF, powered on, a service removed while ON -/
example : (crun genRegisters ⟨false, [], []⟩
    [.add .nic "i:1", .add .service "dns-client", .add .folder "root", .power true, .add .file "a.txt",
     .remove .service "dns-client", .power false, .add .application "nmap"]).routes =
    [(.application, "nmap"), (.file, "a.txt"), (.folder, "root"), (.nic, "i:1")] := by decide +kernel

end Primaite.Schema
