/-
C17, round 3 — the dispatcher `DatabaseService.receive` and `IOSoftware.terminate_connection`, TRANSLATED statement by
statement from the source on every run (Gen/DatabaseTr.lean, harness/extract/database_tr.py), are proved equal to the model's
`Server.receive`; "the service runs queries only on connections it issued and has not closed" is then a theorem about the
translated dispatcher.  A changed branch condition, key, gate, order or answer in the source changes the generated
definition and these proofs stop checking.
-/
import PrimaiteModel.Props.C17
import PrimaiteModel.Gen.DatabaseTr
namespace Primaite.Database
open Primaite.Gen

/-! ## 9. The translated source equals the model (`Gen/DatabaseTr.lean`, harness/extract/database_tr.py)

`_process_sql`, `_process_connect` and `IOSoftware.add_connection` are translated statement by statement from the source on
every run; the theorems below prove the translated functions equal to the hand-written model for every server state and
every argument.  A changed guard, operator, status code, branch order or written value in the source changes the generated
definition and these proofs stop checking. -/

set_option linter.unusedSimpArgs false in
/-- `_process_sql` as translated = the model's `processSql`, and an answer carries the query's uuid (which is what the
client counts as success) exactly when its status is 200. -/
theorem C17_tr_process_sql (s : Server) (q : Sql) :
    ((DatabaseTr.processSql s q).1, (DatabaseTr.processSql s q).2.1) = processSql s q ∧
    (DatabaseTr.processSql s q).2.2 = ((DatabaseTr.processSql s q).2.1 == 200) := by
  unfold DatabaseTr.processSql processSql
  cases hf : s.file with
  | none => simp
  | some fh =>
    by_cases hh : s.health = .good
    · cases q <;> cases fh <;> simp [hh]
    · simp [hh]

set_option linter.unusedSimpArgs false in
/-- `_process_connect` (with `add_connection` inlined) as translated = the model's `processConnect`, for every server
state in which the id about to be issued is not in the table (uuid4 freshness; `C17_tr_fresh_of_wf`); the id is visible
to the client only when `response` is true, and `response` is `status_code == 200`. -/
theorem C17_tr_process_connect (s : Server) (owner : Nat) (pw : Option Nat) (hfresh : s.hasConn s.nextId = false) :
    ((DatabaseTr.processConnect s owner pw).1, (DatabaseTr.processConnect s owner pw).2.1,
      if (DatabaseTr.processConnect s owner pw).2.2.1 then (DatabaseTr.processConnect s owner pw).2.2.2 else none)
      = processConnect s owner pw ∧
    (DatabaseTr.processConnect s owner pw).2.2.1 = ((DatabaseTr.processConnect s owner pw).2.1 == 200) := by
  unfold DatabaseTr.processConnect DatabaseTr.addConnection processConnect healthAcceptsConnect
  have hfresh' : Server.hasConn { s with nextId := s.nextId + 1 } s.nextId = false := hfresh
  by_cases h1 : s.op = .running
  · by_cases h3 : s.password = pw
    · by_cases h4 : s.maxSessions ≤ s.conns.length
      · cases hh : s.health <;> simp [h1, h3, h4, hh]
      · cases hh : s.health <;> simp [h1, h3, h4, hh, hfresh', Server.hasConn] <;> simp_all [Server.hasConn]
    · cases hh : s.health <;> simp [h1, h3, hh]
  · simp [h1]


/-- `terminate_connection(id, send_disconnect=False)` as translated: the entries with that id are removed, nothing else. -/
theorem C17_tr_terminate (s : Server) (cid : Option Nat) :
    (DatabaseTr.terminateConnection s cid).1 =
      match cid with
      | some id => { s with conns := s.conns.filter (fun c => !(c.id == id)) }
      | none => s := by
  unfold DatabaseTr.terminateConnection
  cases cid with
  | none => simp
  | some id =>
    by_cases h : s.hasConn id = true
    · simp [h]
    · have hf : s.conns.filter (fun c => !(c.id == id)) = s.conns := by
        apply List.filter_eq_self.mpr
        intro c hc
        have : ¬ c.id = id := by
          intro hcid; apply h
          simp only [Server.hasConn, List.any_eq_true, beq_iff_eq]; exact ⟨c, hc, hcid⟩
        simp [this]
      simp [h, hf]

/-- with distinct ids, "the address recorded for the id is `src`" = "some entry has that id and that address" -/
theorem find_owner_eq_any (l : List Conn) (hnd : (l.map (·.id)).Nodup) (id src : Nat) :
    ((l.find? (fun c => c.id == id)).map (·.owner) == some src) = l.any (fun c => c.id == id && c.owner == src) := by
  induction l with
  | nil => rfl
  | cons a t ih =>
    simp only [List.map_cons, List.nodup_cons] at hnd
    by_cases ha : a.id = id
    · have hnone : t.any (fun c => c.id == id && c.owner == src) = false := by
        apply Bool.eq_false_iff.mpr
        intro hany
        obtain ⟨c, hc, hcc⟩ := List.any_eq_true.mp hany
        simp only [Bool.and_eq_true, beq_iff_eq] at hcc
        apply hnd.1
        rw [ha, ← hcc.1]
        exact List.mem_map.mpr ⟨c, hc, rfl⟩
      simp [ha, hnone]
    · simp [ha, ih hnd.2]

set_option linter.unusedSimpArgs false in
/-- **The translated dispatcher = the model.**  For every server state whose table is well-formed (distinct ids below the
counter: an invariant of every run, `C17_table_wellformed_run`), every sender and every payload of the model - connect,
query, disconnect, and the three kinds of payload the dispatcher does not recognise - `receive` as translated from the
source returns the model's server, sends exactly the model's answer, and returns True iff it sent one. -/
theorem C17_tr_receive (s : Server) (hwf : s.WF) (src : Nat) (p : Payload) :
    DatabaseTr.receive s src p.raw = ((s.receive src p).1, RecvOut.ret (s.receive src p).2 (s.receive src p).2.isSome) := by
  unfold DatabaseTr.receive
  by_cases hc : s.canAct = true
  · cases p with
    | connect pw =>
      have ht := C17_tr_process_connect s src pw (C17_tr_fresh_of_wf s hwf)
      have h1 : (DatabaseTr.processConnect s src pw).1 = (processConnect s src pw).1 := by
        have := congrArg Prod.fst ht.1; simpa using this
      have h2 : (DatabaseTr.processConnect s src pw).2.1 = (processConnect s src pw).2.1 := by
        have := congrArg (fun x => x.2.1) ht.1; simpa using this
      have h3 : (if (DatabaseTr.processConnect s src pw).2.2.1 then (DatabaseTr.processConnect s src pw).2.2.2 else none)
          = (processConnect s src pw).2.2 := by
        have := congrArg (fun x => x.2.2) ht.1; simpa using this
      simp [Payload.raw, Server.receive, hc, h1, h2]
      exact h3
    | sql cid q =>
      have ht := (C17_tr_process_sql s q).1
      have h1 : (DatabaseTr.processSql s q).1 = (processSql s q).1 := by
        have := congrArg Prod.fst ht; simpa using this
      have h2 : (DatabaseTr.processSql s q).2.1 = (processSql s q).2 := by
        have := congrArg Prod.snd ht; simpa using this
      cases cid with
      | none => simp [Payload.raw, Server.receive, hc]
      | some id =>
        by_cases hh : s.hasConn id = true
        · simp [Payload.raw, Server.receive, hc, hh, h1, h2]
        · simp [Payload.raw, Server.receive, hc, hh]
    | disconnect cid =>
      cases cid with
      | none => simp [Payload.raw, Server.receive, hc]
      | some id =>
        have hown := find_owner_eq_any s.conns hwf.2 id src
        by_cases hh : s.hasConn id = true
        · by_cases ho : s.conns.any (fun c => c.id == id && c.owner == src) = true
          · rw [ho] at hown
            have hown' : (Option.map (fun c => c.owner) (List.find? (fun c => c.id == id) s.conns) == some src) = true := hown
            simp [Payload.raw, Server.receive, hc, hh, ho, Server.ownerOf, hown', C17_tr_terminate]
          · have ho' : s.conns.any (fun c => c.id == id && c.owner == src) = false := by simpa using ho
            rw [ho'] at hown
            have hown' : (Option.map (fun c => c.owner) (List.find? (fun c => c.id == id) s.conns) == some src) = false := hown
            simp [Payload.raw, Server.receive, hc, hh, ho', Server.ownerOf, hown']
        · have ho' : s.conns.any (fun c => c.id == id && c.owner == src) = false := by
            apply Bool.eq_false_iff.mpr
            intro hany
            apply hh
            obtain ⟨c, hcm, hcc⟩ := List.any_eq_true.mp hany
            simp only [Bool.and_eq_true, beq_iff_eq] at hcc
            simp only [Server.hasConn, List.any_eq_true, beq_iff_eq]
            exact ⟨c, hcm, hcc.1⟩
          simp [Payload.raw, Server.receive, hc, hh, ho']
    | junk k => cases k <;> simp [Payload.raw, Server.receive, hc]
  · have hc' : s.canAct = false := by simpa using hc
    cases p <;> simp [Server.receive, hc']

/-- **Queries run only on live connections - the translated dispatcher.**  For EVERY payload whose type is `sql`, whatever
its other keys: unless its `connection_id` is an id that is in the connection table right now, the translated `receive`
does not reach `_process_sql`: it answers 401 (or nothing, when the service cannot act) and leaves the server exactly as
it was.  (Which ids are in the table: only ids issued by a correctly authenticated connect and not closed since,
`C17_table_grows_only_by_authorised_connect`, `C17_closed_stays_closed_run`.) -/
theorem C17_tr_sql_only_on_live (s : Server) (src : Nat) (raw : Raw) (hd : raw.isDict = true) (ht : raw.type = some .sql)
    (hno : ¬ ∃ id, raw.connId = some (some id) ∧ s.hasConn id = true) :
    DatabaseTr.receive s src raw = (s, if s.canAct then RecvOut.ret (some (401, none)) true else RecvOut.ret none false) := by
  unfold DatabaseTr.receive
  by_cases hc : s.canAct = true
  · cases hci : raw.connId with
    | none => simp [hc, ht, hd, hci]
    | some x =>
      cases x with
      | none => simp [hc, ht, hd, hci]
      | some id =>
        have : s.hasConn id = false := by
          cases hh : s.hasConn id with
          | false => rfl
          | true => exact absurd ⟨id, hci, hh⟩ hno
        simp [hc, ht, hd, hci, this]
  · have hc' : s.canAct = false := by simpa using hc
    simp [hc']

/-- **When the translated dispatcher raises** (a `KeyError` on a missing key): exactly for a `disconnect` without
`connection_id`, and for an `sql` payload on a LIVE connection without `sql` or `uuid` - and then nothing has changed. -/
theorem C17_tr_receive_raises (s : Server) (src : Nat) (raw : Raw) :
    ((DatabaseTr.receive s src raw).2 = RecvOut.raised ↔
      s.canAct = true ∧ raw.isDict = true ∧
        ((raw.type = some .disconnect ∧ raw.connId = none) ∨
         (raw.type = some .sql ∧ (∃ id, raw.connId = some (some id) ∧ s.hasConn id = true) ∧ (raw.sql = none ∨ raw.uuid = false)))) ∧
    ((DatabaseTr.receive s src raw).2 = RecvOut.raised → (DatabaseTr.receive s src raw).1 = s) := by
  unfold DatabaseTr.receive
  cases hc : s.canAct <;> cases hd : raw.isDict <;> cases ht : raw.type <;> simp
  rename_i t
  cases t <;> simp
  · -- disconnect
    cases hci : raw.connId with
    | none => simp
    | some x =>
      cases x with
      | none => simp
      | some id =>
        cases hh : s.hasConn id <;> simp [hh]
        split <;> simp [hci]
  · -- sql
    cases hci : raw.connId with
    | none => simp
    | some x =>
      cases x with
      | none => simp
      | some id =>
        cases hh : s.hasConn id <;> cases hq : raw.sql <;> cases hu : raw.uuid <;> simp [hh]

example : (DatabaseTr.receive ({ conns := [⟨0, 0⟩], nextId := 1 } : Server) 0 { type := some .sql, connId := some (some 0) }).2 = RecvOut.raised := by
  decide
example : (DatabaseTr.receive ({ conns := [⟨0, 0⟩], nextId := 1 } : Server) 1 (Payload.sql (some 0) .delete).raw).1.file = some FHealth.compromised := by
  decide
example : (DatabaseTr.receive ({ conns := [⟨0, 0⟩], nextId := 1 } : Server) 1 (Payload.sql (some 1) .delete).raw)
    = (({ conns := [⟨0, 0⟩], nextId := 1 } : Server), RecvOut.ret (some (401, none)) true) := by decide

end Primaite.Database

namespace Primaite.Database
open Primaite.Gen

/-! ## The database service's logic around the two FTP transfers, translated

`backup_database` and `restore_backup` are translated statement by statement as well (the transfers themselves are the
model's `ftpSendFile` / `ftpRequestFile`).  In particular the ORDER of `restore_backup` is a proof obligation now: the
leftover under downloads/ is removed BEFORE the backup is requested, the request is unconditional, the arrival of the copy
is checked BEFORE the live file is deleted (F-33), and the live file is replaced by what is under downloads/ then. -/

theorem C17_tr_backup (s : Server) (b : Backup) (pq big : Bool) :
    DatabaseTr.backupDatabase s b pq big = backupDatabase s b pq big := by
  unfold DatabaseTr.backupDatabase backupDatabase
  dsimp only
  generalize ftpSendFile s b pq big = r
  obtain ⟨s', b', resp⟩ := r
  cases hc : s.canAct <;> cases hbc : s.backupConfigured <;> cases hft : s.ftpc <;> cases hf : s.file <;>
    simp only [Bool.not_true, Bool.not_false, Bool.false_eq_true, if_true, if_false, Option.isSome_some, Option.isNone_some,
      Option.isSome_none, Option.isNone_none, Server.ftpcAct] <;> try rfl
  cases resp <;> rfl

/-- removing the leftover if there is one = having no leftover (the deleted copies record what was removed) -/
theorem leftover_removed (s : Server) :
    (if s.downloads.isSome then { s with downloads := none, dlDeleted := s.dlDeleted ++ s.downloads.toList } else s)
      = { s with downloads := none, dlDeleted := s.dlDeleted ++ s.downloads.toList } := by
  cases hd : s.downloads with
  | some d => simp
  | none => simp only [Option.isSome_none, Bool.false_eq_true, if_false]; cases s; simp_all

/-- the replacement step as translated (arrival check, delete the live file unless it is deleted already, copy the download
in, check, set GOOD) = the model's -/
theorem restore_tail (s' : Server) :
    (if s'.downloads.isNone = true then (s', false)
     else
       (let s := if s'.file.isNone = true then s' else { s' with file := none, fileDeleted := s'.fileDeleted ++ s'.file.toList }
        let s := match s.downloads with | some d => { s with file := some d, folder := true } | none => s
        if s.file.isNone = true then (s, false) else (let s := { s with health := Health.good }; (s, true))))
    = (match s'.downloads with
       | none => (s', false)
       | some d => ({ s' with file := some d, folder := true, health := .good,
                              fileDeleted := s'.fileDeleted ++ s'.file.toList }, true)) := by
  cases hd : s'.downloads with
  | none => simp only [Option.isNone_none, if_true]
  | some d =>
    simp only [Option.isNone_some, Bool.false_eq_true, if_false]
    cases hf : s'.file with
    | none =>
      simp only [Option.isNone_none, if_true, hd, Option.isNone_some, Bool.false_eq_true, if_false, Option.toList_none, List.append_nil]
    | some h =>
      simp only [Option.isNone_some, Bool.false_eq_true, if_false, hd, Option.toList_some]

theorem C17_tr_restore (s : Server) (b : Backup) (pq pr k : Bool) :
    DatabaseTr.restoreBackup s b pq pr k = restoreBackup s b pq pr k := by
  unfold DatabaseTr.restoreBackup restoreBackup
  rw [leftover_removed]
  dsimp only
  -- the transfer is opaque from here on; then the guards (in whatever order the source asks them) are decided by cases
  generalize ftpRequestFile { s with downloads := none, dlDeleted := s.dlDeleted ++ s.downloads.toList } b pq pr k = r
  obtain ⟨s', resp⟩ := r
  cases hc : s.canAct <;> cases hbc : s.backupConfigured <;> cases hft : s.ftpc <;>
    simp only [Bool.not_true, Bool.not_false, Bool.false_eq_true, if_true, if_false, Option.isSome_some, Option.isNone_some,
      Option.isSome_none, Option.isNone_none, Server.ftpcAct] <;> try rfl
  cases resp
  · rfl
  · exact restore_tail s'

end Primaite.Database
