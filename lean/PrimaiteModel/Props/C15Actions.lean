/-
Property C15, fifth part: "an agent action that creates a file or folder which already exists is refused or is a no-op
rather than an error or a duplicate" — for files AND folders, for live AND deleted namesakes, stated on the request the
ACTION forms (`form_request` of `node-file-create` / `node-folder-create`, regenerated into Gen/FileSystem.lean) as it
arrives at a node.
-/
import PrimaiteModel.Props.C15Verbs
namespace Primaite.FileSystem

/-! ### creating over a deleted namesake makes exactly one new live item and leaves the deleted one where it is -/

theorem dictSet_append {α} (key : α → Nat) {l : List α} {x : α} (h : ∀ y ∈ l, key y ≠ key x) : dictSet key l x = l ++ [x] := by
  unfold dictSet
  have : l.any (fun y => key y == key x) = false := by
    simp only [List.any_eq_false, beq_iff_eq]; exact h
  simp [this]

/-- `create/folder F` when no live folder is named `F` (deleted folders of that name may exist): answered `success`; ONE
new live folder of that name with a fresh uuid is appended; every folder that existed — live or deleted, the deleted
namesakes included — is exactly where and what it was. No duplicate, nothing resurrected. -/
theorem C15_create_folder_over_deleted_namesake {s : State} (h : Inv s) (F : Name) (hno : ∀ g ∈ s.folders, g.name ≠ F) :
    (step s (.createFolder F)).2 = .success ∧ (step s (.createFolder F)).1.deletedFolders = s.deletedFolders ∧
    ∃ g', (step s (.createFolder F)).1.folders = s.folders ++ [g'] ∧ g'.name = F ∧ g'.id = s.next ∧ g'.deleted = false ∧
      g'.files = [] ∧ g'.deletedFiles = [] ∧ ∀ a, a ∈ s.folders ∨ a ∈ s.deletedFolders → a.id ≠ g'.id := by
  simp only [step]
  rw [createFolder_eq, getFolder_none_of hno]
  obtain ⟨f1, f2, f3, f4, f5, _, _⟩ := setDur_fields s { id := s.next, name := F }
  refine ⟨trivial, rfl, setDur s { id := s.next, name := F }, ?_, f2, f1, f3, f4, f5, ?_⟩
  · apply dictSet_append
    intro y hy
    rw [f1]
    exact Nat.ne_of_lt (h.folder y (Or.inl hy)).2.2
  · intro a ha
    rw [f1]
    exact Nat.ne_of_lt (h.folder a ha).2.2

/-- `create/file F x` (forced or not) when the live folder has no live file named `x` (deleted files of that name may
exist): answered `success`; ONE new live file of that name with a fresh uuid is appended to the folder's `files`; its
`deleted_files` — the deleted namesakes included — and every other folder are untouched. -/
theorem C15_create_file_over_deleted_namesake {s : State} (h : Inv s) {g : Folder} (hg : g ∈ s.folders) (F x : Name)
    (hF : g.name = if F = "" then "root" else F) (hno : ∀ f ∈ g.files, f.name ≠ x) (force : Bool) :
    (step s (.createFile F x force)).2 = .success ∧
    (step s (.createFile F x force)).1.deletedFolders = s.deletedFolders ∧
    (∀ a ∈ s.folders, a.id ≠ g.id → a ∈ (step s (.createFile F x force)).1.folders) ∧
    ∃ g' ∈ (step s (.createFile F x force)).1.folders, g'.id = g.id ∧ g'.name = g.name ∧
      g'.files = g.files ++ [{ id := s.next, name := x }] ∧ g'.deletedFiles = g.deletedFiles := by
  have gi := h.folder g (Or.inl hg)
  have hgf : getFolder s (if F = "" then "root" else F) = some g := by rw [← hF]; exact getFolder_of_live h hg
  have hff : g.getFile x = none := getFile_none_of hno
  have hlook : getFile s (if F = "" then "root" else F) x = none := by unfold getFile; rw [hgf]; exact hff
  have htarget : createFileTarget s F = (s, some g) := by
    unfold createFileTarget
    by_cases hFe : F = ""
    · simp only [hFe, ne_eq, not_true_eq_false, if_false]
      rw [hFe] at hgf; simp only [if_true] at hgf; rw [hgf]
    · simp only [ne_eq, hFe, not_false_eq_true, if_true]
      simp only [hFe, if_false] at hgf; rw [hgf]
  have happ : dictSet File.id g.files { id := s.next, name := x } = g.files ++ [{ id := s.next, name := x }] := by
    apply dictSet_append
    intro y hy
    exact Nat.ne_of_lt (gi.2.1 y (Or.inl hy))
  simp only [step, createFile, hlook, Option.isSome_none, Bool.and_false, Bool.false_eq_true, if_false, htarget, createFileIn, hff]
  refine ⟨trivial, ?_, ?_, g.addFile { id := s.next, name := x }, ?_, rfl, rfl, ?_, rfl⟩
  · simp only [updFolder]
    rw [List.map_congr_left (g := id)]
    · simp
    · intro a ha
      have hk : a.id ≠ g.id := fun e => h.disjoint g hg a ha e.symm
      simp [hk]
  · intro a ha hne
    simp only [updFolder]
    exact List.mem_map.mpr ⟨a, ha, by simp [hne]⟩
  · simp only [updFolder]
    exact List.mem_map.mpr ⟨g, hg, by simp⟩
  · simp only [Folder.addFile, happ]

/-! ### the agent actions -/

/-- The request an action forms, as it arrives below the node's `file_system` route. -/
def belowFileSystem (req : List String) : List String := req.drop 4

/-- A well-formed request at a node that is ON is the file-system operation it denotes. -/
theorem nstep_req_of_ofRequest (n : NState) (hon : n.on = true) (req : List String) (op : Op) (h : ofRequest req = some op) :
    (nstep n (.req req)).1.x.s = (step n.x.s op).1 ∧ (nstep n (.req req)).2 = (step n.x.s op).2 :=
  (C15_node_request_is_fs_request n req hon).1 op (C15_resolve_extends n.x.s req op h)

theorem below_of_node (r : List String) (op : Op) (hr : ofNodeRequest r = some op) : ofRequest (belowFileSystem r) = some op := by
  unfold ofNodeRequest at hr
  split at hr
  · simpa [belowFileSystem] using hr
  · simp at hr

theorem action_file_create_op (node F x : String) (force : Bool) :
    ofRequest (belowFileSystem (Gen.FileSystem.nodeFileCreate node F x (if force then "1" else "0"))) = some (.createFile F x force) := by
  cases force <;> simp [belowFileSystem, Gen.FileSystem.nodeFileCreate, ofRequest]

theorem action_folder_create_op (node F : String) :
    ofRequest (belowFileSystem (Gen.FileSystem.nodeFolderCreate node F)) = some (.createFolder F) := by
  simp [belowFileSystem, Gen.FileSystem.nodeFolderCreate, ofRequest]

/-- **`node-file-create` on a file that exists (live)**: unforced, the action is refused (`failure`) and the file system is
exactly as it was; forced, it answers `success` and nothing structural changes — same files, same uuids, no second file
of that name. -/
theorem C15_action_create_live_file (n : NState) (h : Inv n.x.s) (hon : n.on = true) (node F : String) {g : Folder} {f : File}
    (hg : g ∈ n.x.s.folders) (hF : g.name = if F = "" then "root" else F) (hf : f ∈ g.files) :
    let unforced := nstep n (.req (belowFileSystem (Gen.FileSystem.nodeFileCreate node F f.name "0")))
    let forced := nstep n (.req (belowFileSystem (Gen.FileSystem.nodeFileCreate node F f.name "1")))
    unforced.2 = .failure ∧ unforced.1.x.s = n.x.s ∧ forced.2 = .success ∧ forced.1.x.s.core = n.x.s.core := by
  have e0 := nstep_req_of_ofRequest n hon _ _ (action_file_create_op node F f.name false)
  have e1 := nstep_req_of_ofRequest n hon _ _ (action_file_create_op node F f.name true)
  have hth := C15_create_existing_file_refused_or_noop h F hg hF hf
  simp only [Bool.false_eq_true, if_false, if_true] at e0 e1
  refine ⟨?_, ?_, ?_, ?_⟩
  · rw [e0.2, hth.1]
  · rw [e0.1, hth.1]
  · rw [e1.2]; exact hth.2.1
  · rw [e1.1]; exact hth.2.2

/-- **`node-file-create` on a name that only deleted files carry** (or nobody): `success`; exactly one new live file;
the deleted namesakes stay deleted — the action neither resurrects nor duplicates. -/
theorem C15_action_create_file_over_deleted (n : NState) (h : Inv n.x.s) (hon : n.on = true) (node F x : String) (force : Bool)
    {g : Folder} (hg : g ∈ n.x.s.folders) (hF : g.name = if F = "" then "root" else F) (hno : ∀ f ∈ g.files, f.name ≠ x) :
    let r := nstep n (.req (belowFileSystem (Gen.FileSystem.nodeFileCreate node F x (if force then "1" else "0"))))
    r.2 = .success ∧ r.1.x.s.deletedFolders = n.x.s.deletedFolders ∧
    ∃ g' ∈ r.1.x.s.folders, g'.id = g.id ∧ g'.files = g.files ++ [{ id := n.x.s.next, name := x }] ∧
      g'.deletedFiles = g.deletedFiles := by
  have e := nstep_req_of_ofRequest n hon _ _ (action_file_create_op node F x force)
  obtain ⟨h1, h2, _, g', hg', hid, _, hfiles, hdel⟩ := C15_create_file_over_deleted_namesake h hg F x hF hno force
  refine ⟨by rw [e.2]; exact h1, by rw [e.1]; exact h2, g', by rw [e.1]; exact hg', hid, hfiles, hdel⟩

/-- **`node-folder-create` on a folder that exists (live)**: `success`, and nothing structural changes (no second folder
of that name; with no configured restore duration the state is literally unchanged). -/
theorem C15_action_create_live_folder (n : NState) (h : Inv n.x.s) (hon : n.on = true) (node : String) {g : Folder}
    (hg : g ∈ n.x.s.folders) :
    let r := nstep n (.req (belowFileSystem (Gen.FileSystem.nodeFolderCreate node g.name)))
    r.2 = .success ∧ r.1.x.s.core = n.x.s.core ∧ (n.x.s.defaultRestore = none → r.1.x.s = n.x.s) := by
  have e := nstep_req_of_ofRequest n hon _ _ (action_folder_create_op node g.name)
  obtain ⟨h1, h2, h3⟩ := C15_create_existing_folder_noop h hg
  exact ⟨by rw [e.2]; exact h1, by rw [e.1]; exact h2, fun hd => by rw [e.1]; exact h3 hd⟩

/-- **`node-folder-create` on a name that only deleted folders carry** (or nobody): `success`; exactly one new live folder
(fresh uuid, empty); every deleted namesake stays in `deleted_folders` untouched. -/
theorem C15_action_create_folder_over_deleted (n : NState) (h : Inv n.x.s) (hon : n.on = true) (node F : String)
    (hno : ∀ g ∈ n.x.s.folders, g.name ≠ F) :
    let r := nstep n (.req (belowFileSystem (Gen.FileSystem.nodeFolderCreate node F)))
    r.2 = .success ∧ r.1.x.s.deletedFolders = n.x.s.deletedFolders ∧
    ∃ g', r.1.x.s.folders = n.x.s.folders ++ [g'] ∧ g'.name = F ∧ g'.id = n.x.s.next ∧ g'.files = [] ∧ g'.deletedFiles = [] := by
  have e := nstep_req_of_ofRequest n hon _ _ (action_folder_create_op node F)
  obtain ⟨h1, h2, g', hf, hn, hi, _, hfl, hdl, _⟩ := C15_create_folder_over_deleted_namesake h F hno
  exact ⟨by rw [e.2]; exact h1, by rw [e.1]; exact h2, g', by rw [e.1]; exact hf, hn, hi, hfl, hdl⟩

/-- While the node is not ON either action is refused and changes nothing. -/
theorem C15_action_create_refused_while_off (n : NState) (hoff : n.on = false) (node F x force : String) :
    nstep n (.req (belowFileSystem (Gen.FileSystem.nodeFileCreate node F x force))) = (n, .failure) ∧
    nstep n (.req (belowFileSystem (Gen.FileSystem.nodeFolderCreate node F))) = (n, .failure) :=
  ⟨(C15_node_request_refused_while_off n hoff _).1, (C15_node_request_refused_while_off n hoff _).1⟩

/-- **No file/folder action is ever answered with an exception**: each of the thirteen actions' requests, on any names, in
any reachable state, in any power state. -/
theorem C15_action_never_raises (n : NState) (h : Inv n.x.s) (node F x : String) (force : Bool) :
    ∀ req ∈ [Gen.FileSystem.nodeFileCreate node F x (if force then "1" else "0"), Gen.FileSystem.nodeFileDelete node F x,
        Gen.FileSystem.nodeFileAccess node F x, Gen.FileSystem.nodeFileScan node F x, Gen.FileSystem.nodeFileCheckhash node F x,
        Gen.FileSystem.nodeFileRepair node F x, Gen.FileSystem.nodeFileRestore node F x, Gen.FileSystem.nodeFileCorrupt node F x,
        Gen.FileSystem.nodeFolderCreate node F, Gen.FileSystem.nodeFolderScan node F, Gen.FileSystem.nodeFolderCheckhash node F,
        Gen.FileSystem.nodeFolderRepair node F, Gen.FileSystem.nodeFolderRestore node F],
      (nstep n (.req (belowFileSystem req))).2 ≠ .raised := by
  intro req hreq
  cases hon : n.on with
  | false => rw [(C15_node_request_refused_while_off n hon _).1]; simp
  | true =>
    have key : ∀ op, ofRequest (belowFileSystem req) = some op → (nstep n (.req (belowFileSystem req))).2 ≠ .raised := by
      intro op hop
      rw [(nstep_req_of_ofRequest n hon _ op hop).2]
      exact C15_never_raises h op
    have hact := C15_gen_actions node F x force
    have conv : ∀ (r : List String) (op : Op), ofNodeRequest r = some op → r.length ≥ 4 → ofRequest (belowFileSystem r) = some op :=
      fun r op hr _ => below_of_node r op hr
    simp only [List.mem_cons, List.not_mem_nil, or_false] at hreq
    rcases hreq with rfl | rfl | rfl | rfl | rfl | rfl | rfl | rfl | rfl | rfl | rfl | rfl | rfl
    · exact key _ (conv _ _ hact.1 (by simp [Gen.FileSystem.nodeFileCreate]))
    · exact key _ (conv _ _ hact.2.1 (by simp [Gen.FileSystem.nodeFileDelete]))
    · exact key _ (conv _ _ hact.2.2.1 (by simp [Gen.FileSystem.nodeFileAccess]))
    · exact key _ (conv _ _ hact.2.2.2.1 (by simp [Gen.FileSystem.nodeFileScan]))
    · exact key _ (conv _ _ hact.2.2.2.2.1 (by simp [Gen.FileSystem.nodeFileCheckhash]))
    · exact key _ (conv _ _ hact.2.2.2.2.2.1 (by simp [Gen.FileSystem.nodeFileRepair]))
    · exact key _ (conv _ _ hact.2.2.2.2.2.2.1 (by simp [Gen.FileSystem.nodeFileRestore]))
    · exact key _ (conv _ _ hact.2.2.2.2.2.2.2.1 (by simp [Gen.FileSystem.nodeFileCorrupt]))
    · exact key _ (conv _ _ hact.2.2.2.2.2.2.2.2.1 (by simp [Gen.FileSystem.nodeFolderCreate]))
    · exact key _ (conv _ _ hact.2.2.2.2.2.2.2.2.2.1 (by simp [Gen.FileSystem.nodeFolderScan]))
    · exact key _ (conv _ _ hact.2.2.2.2.2.2.2.2.2.2.1 (by simp [Gen.FileSystem.nodeFolderCheckhash]))
    · exact key _ (conv _ _ hact.2.2.2.2.2.2.2.2.2.2.2.1 (by simp [Gen.FileSystem.nodeFolderRepair]))
    · exact key _ (conv _ _ hact.2.2.2.2.2.2.2.2.2.2.2.2.1 (by simp [Gen.FileSystem.nodeFolderRestore]))

/-- Non-vacuity: a reachable node state with a live file, a deleted file of another name, a deleted folder and a live one
(the hypotheses of the four theorems above are all met by `fa`/`a`, `fa`/`b`, `fb`, `fa`). -/
example :
    let n := (nrun (ninit none none) [.req ["create", "file", "fa", "a", "0"], .req ["create", "file", "fa", "b", "0"],
      .req ["delete", "file", "fa", "b"], .req ["create", "folder", "fb"], .req ["delete", "folder", "fb"]]).1
    n.on = true ∧ (∃ g ∈ n.x.s.folders, g.name = "fa" ∧ (∃ f ∈ g.files, f.name = "a") ∧ (∀ f ∈ g.files, f.name ≠ "b") ∧
      ∃ f ∈ g.deletedFiles, f.name = "b") ∧ (∀ g ∈ n.x.s.folders, g.name ≠ "fb") ∧ ∃ g ∈ n.x.s.deletedFolders, g.name = "fb" := by
  decide

end Primaite.FileSystem
