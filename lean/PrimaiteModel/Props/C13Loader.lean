/-
C13, the glue between configuration and the lifecycle FSM (round 7).

`Gen.SoftwareLoader.serviceDefaults` is translated on every run from the statements of `PrimaiteGame.from_config` that apply
the scenario's `defaults:` section to a freshly installed service.  Proved here, for ALL mappings, options and attribute values:
the translation equals the specification `C13Loader.specService`; under the specification a configured restart duration is the
effective one for EVERY integer (0 and negative values included, quoted integers converted), an absent key leaves the class
default, the block raises exactly when a present value is not convertible; and — composed with the lifecycle theorems — a
service restarted after the loader configured duration `v` is RESTARTING through `max v 0` ticks and RUNNING at the next.
-/
import PrimaiteModel.Model.C13Loader
import PrimaiteModel.Gen.SoftwareLoader
import PrimaiteModel.Gen.Software
import PrimaiteModel.Props.C13
namespace Primaite.C13LoaderProps
set_option linter.unusedSimpArgs false
open Primaite Primaite.Lifecycle Primaite.C13Loader Primaite.Registries

/-! ### Gen: the translated loader block IS the specification -/

/-- **the tie.**  For every `defaults:` mapping, every options mapping and every attribute state, the code's statements compute
exactly what the specification says — in particular they do not treat any VALUE (0, "", False) as "not configured". -/
theorem C13_gen_loader_service (d opts : Dict) (a : SvcAttrs) :
    Gen.SoftwareLoader.serviceDefaults d opts a = specService d opts a := by
  rcases a with ⟨ar, ai, af⟩
  rcases h0 : List.lookup "fixing_duration" opts with _ | w0 <;>
  rcases h1 : List.lookup "service_fix_duration" d with _ | w1 <;>
  rcases h2 : List.lookup "service_restart_duration" d with _ | w2 <;>
  rcases h3 : List.lookup "service_install_duration" d with _ | w3 <;>
  (try (rcases hp1 : w1.pyInt with _ | p1)) <;>
  (try (rcases hp2 : w2.pyInt with _ | p2)) <;>
  (try (rcases hp3 : w3.pyInt with _ | p3)) <;>
  simp [Gen.SoftwareLoader.serviceDefaults, specService, cfgInt, Dict.has, Dict.index, Dict.getD, PyVal.truthy, PyVal.isNone, *]

/-- where the loader reads the section, and what else it does to the new software: the install branch writes only the
fixing duration (C14's) and calls `start()`; the applications loop writes no attribute and calls `run()`; nothing else in
`from_config` mentions the two lifecycle durations -/
theorem C13_gen_loader_sites :
    Gen.SoftwareLoader.defaultsSource = "cfg.get('defaults', {})" ∧
    Gen.SoftwareLoader.headWrites = ["config.fixing_duration"] ∧ Gen.SoftwareLoader.headCalls = ["start"] ∧
    Gen.SoftwareLoader.appWrites = [] ∧ Gen.SoftwareLoader.appCalls = ["run"] ∧
    Gen.SoftwareLoader.durationMentionsOutside = 0 := by decide

/-- every writer of the two lifecycle durations in the whole package, outside the translated block: the two class-level field
defaults and nothing else — no subclass override, no other configuration path (a new one breaks this obligation and has to be
brought into the model) -/
theorem C13_gen_duration_writers :
    Gen.SoftwareLoader.durationWriters =
      ["simulator/system/applications/application.py:Application:install_duration",
       "simulator/system/services/service.py:Service:restart_duration"] := by decide

/-! ### the specification: configured = effective -/

/-- when the block does not raise, each attribute is what `cfgInt` says for its own key -/
theorem spec_some (d opts : Dict) (a a' : SvcAttrs) (h : specService d opts a = some a') :
    cfgInt d "service_restart_duration" a.restart = some a'.restart ∧
    cfgInt d "service_install_duration" a.install = some a'.install ∧
    (if opts.has "fixing_duration" then some a.fixing else cfgInt d "service_fix_duration" a.fixing) = some a'.fixing := by
  simp only [specService] at h
  generalize (if opts.has "fixing_duration" then some a.fixing else cfgInt d "service_fix_duration" a.fixing) = x at h ⊢
  generalize cfgInt d "service_restart_duration" a.restart = y at h ⊢
  generalize cfgInt d "service_install_duration" a.install = z at h ⊢
  cases x <;> cases y <;> cases z <;> simp at h ⊢
  rw [← h]; exact ⟨rfl, rfl, rfl⟩

/-- a present key whose value is an integer `v` — ANY integer, 0 included — makes the restart duration `v` -/
theorem C13_loader_restart_configured (d opts : Dict) (a a' : SvcAttrs) (v : Int)
    (hk : d.lookup "service_restart_duration" = some (.int v)) (h : specService d opts a = some a') :
    a'.restart = .int v := by
  have := (spec_some d opts a a' h).1
  simp only [cfgInt, hk, PyVal.pyInt, Option.some.injEq] at this
  exact this.symm

/-- a quoted integer is converted -/
theorem C13_loader_restart_quoted (d opts : Dict) (a a' : SvcAttrs) (s : String) (v : Int) (hs : s.toInt? = some v)
    (hk : d.lookup "service_restart_duration" = some (.str s)) (h : specService d opts a = some a') :
    a'.restart = .int v := by
  have := (spec_some d opts a a' h).1
  simp only [cfgInt, hk, PyVal.pyInt, hs, Option.map_some, Option.some.injEq] at this
  exact this.symm

/-- an absent key leaves the attribute alone (the class default) -/
theorem C13_loader_restart_absent (d opts : Dict) (a a' : SvcAttrs)
    (hk : d.lookup "service_restart_duration" = none) (h : specService d opts a = some a') :
    a'.restart = a.restart := by
  have := (spec_some d opts a a' h).1
  simp only [cfgInt, hk, Option.some.injEq] at this
  exact this.symm

/-- the restart duration depends on nothing but its own key: not on the options, not on the other keys' values -/
theorem C13_loader_restart_frame (d d' opts opts' : Dict) (a a1 a2 : SvcAttrs)
    (hk : d.lookup "service_restart_duration" = d'.lookup "service_restart_duration")
    (h1 : specService d opts a = some a1) (h2 : specService d' opts' a = some a2) : a1.restart = a2.restart := by
  have e1 := (spec_some d opts a a1 h1).1
  have e2 := (spec_some d' opts' a a2 h2).1
  simp only [cfgInt, ← hk] at e1 e2
  rw [e1] at e2
  exact Option.some.inj e2

/-- the block raises exactly when a value it has to convert is not convertible -/
theorem C13_loader_raises_iff (d opts : Dict) (a : SvcAttrs) :
    specService d opts a = none ↔
      ((opts.has "fixing_duration" = false ∧ ∃ v, d.lookup "service_fix_duration" = some v ∧ v.pyInt = none) ∨
       (∃ v, d.lookup "service_restart_duration" = some v ∧ v.pyInt = none) ∨
       (∃ v, d.lookup "service_install_duration" = some v ∧ v.pyInt = none)) := by
  rcases h0 : List.lookup "fixing_duration" opts with _ | w0 <;>
  rcases h1 : List.lookup "service_fix_duration" d with _ | w1 <;>
  rcases h2 : List.lookup "service_restart_duration" d with _ | w2 <;>
  rcases h3 : List.lookup "service_install_duration" d with _ | w3 <;>
  (try (rcases hp1 : w1.pyInt with _ | p1)) <;>
  (try (rcases hp2 : w2.pyInt with _ | p2)) <;>
  (try (rcases hp3 : w3.pyInt with _ | p3)) <;>
  simp [specService, cfgInt, Dict.has, *]

/-! ### through the translation: what the CODE does -/

/-- **configured = effective, on the translated code**: whenever the loader's block does not raise, a restart duration
configured as the integer `v` — every `v : Int`, 0 included — is the service's restart duration afterwards -/
theorem C13_gen_loader_restart_effective (d opts : Dict) (a a' : SvcAttrs) (v : Int)
    (hk : d.lookup "service_restart_duration" = some (.int v))
    (h : Gen.SoftwareLoader.serviceDefaults d opts a = some a') : a'.restart = .int v :=
  C13_loader_restart_configured d opts a a' v hk (C13_gen_loader_service d opts a ▸ h)

/-- the boundary case the truthiness test of seeded change C13-f lost: `service_restart_duration: 0` -/
example : (Gen.SoftwareLoader.serviceDefaults [("service_restart_duration", .int 0)] [] { restart := .int 5, fixing := .int 2 }) =
    some { restart := .int 0, fixing := .int 2 } := by decide

/-- non-vacuity: every source at once (YAML `true` = 1, own fixing duration, install duration on a service; quoted integers go
through `String.toInt?`, which `decide` cannot evaluate — the rig evaluates them through the driver) -/
example : (Gen.SoftwareLoader.serviceDefaults
      [("service_fix_duration", .int 7), ("service_restart_duration", .bool true), ("service_install_duration", .int 0)]
      [("fixing_duration", .int 1)] { restart := .int 5, fixing := .int 1 }) =
    some { restart := .int 1, install := .int 0, fixing := .int 1 } := by decide

/-! ### composed with the lifecycle FSM: the timed transition completes after the CONFIGURED number of ticks -/

/-- **`configured_restart_timing`.**  A RUNNING or PAUSED service that the loader configured (translated code, any `defaults:`
section that sets `service_restart_duration: v`, any options), then restarted: under every sequence of method calls without
`disable` it is RESTARTING while at most `max v 0` ticks reached it, and RUNNING at tick `max v 0 + 1` — for `v = 0` at the
very first tick, i.e. at the end of the step in which the restart was requested. -/
theorem C13_configured_restart_timing (d opts : Dict) (a a' : SvcAttrs) (v : Int)
    (hk : d.lookup "service_restart_duration" = some (.int v))
    (h : Gen.SoftwareLoader.serviceDefaults d opts a = some a')
    (s s' : Svc) (hs' : applyToSvc s a' = some s') (hst : s.st = .running ∨ s.st = .paused)
    (pre : List SvcEv) (hd : SvcEv.disable ∉ pre) :
    ((pre.count .tick : Int) ≤ max v 0 → ((s'.apply .restart).1.applyAll pre).st = .restarting) ∧
    ((pre.count .tick : Int) = max v 0 → ((s'.apply .restart).1.applyAll (pre ++ [.tick])).st = .running) := by
  have hr := C13_gen_loader_restart_effective d opts a a' v hk h
  have hdur : s'.dur = v ∧ s'.st = s.st := by
    simp only [applyToSvc, hr] at hs'
    split at hs'
    · rename_i r f h1 h2
      cases h1
      simp only [Option.some.injEq] at hs'
      rw [← hs']; simp [Svc.apply]
    · rename_i hne
      cases hf : a'.fixing <;> simp_all
  have hrs : (s'.apply .restart).1.st = .restarting ∧ (s'.apply .restart).1.cd = some v := by
    rcases s' with ⟨st, cd, dur, sw⟩
    simp only at hdur
    rcases hst with h | h <;> (rw [h] at hdur; rcases hdur with ⟨h1, h2⟩; subst h1; subst h2; simp [Svc.apply, Svc.restart])
  refine ⟨fun hle => (Primaite.C13.C13_restart_timing_before pre _ v hrs.1 hrs.2 hd hle).1, fun heq => ?_⟩
  exact Primaite.C13.C13_restart_timing_completes pre _ v hrs.1 hrs.2 hd heq

/-- non-vacuity with the boundary value: defaults `service_restart_duration: 0`, a RUNNING service: restart, one tick → RUNNING;
and with 2: RESTARTING after two ticks, RUNNING after the third -/
example :
    let a0 := (Gen.SoftwareLoader.serviceDefaults [("service_restart_duration", .int 0)] [] { restart := .int 5, fixing := .int 2 })
    let s : Svc := { st := .running, sw := { actual := .good } }
    (a0.bind (applyToSvc s)).map (fun s' => ((s'.apply .restart).1.applyAll [.tick]).st) = some .running := by decide
example :
    let a0 := (Gen.SoftwareLoader.serviceDefaults [("service_restart_duration", .int 2)] [] { restart := .int 5, fixing := .int 2 })
    let s : Svc := { st := .running, sw := { actual := .good } }
    (a0.bind (applyToSvc s)).map (fun s' => (((s'.apply .restart).1.applyAll [.tick, .tick]).st,
      ((s'.apply .restart).1.applyAll [.tick, .tick, .tick]).st)) = some (.restarting, .running) := by decide

/-- node level, by evaluation: a node whose dns-server was configured with restart duration 0 / 1 (install, `setDur` with the
configured value, restart request): RUNNING again after ONE / TWO whole-node ticks -/
example :
    let c : Cls := { cid := "DNSServer", name := "dns-server", port := 53, proto := 1 }
    let n0 := ({} : Node).run [.installSvc c true [] .good 2, .svcApi 0 (.setDur 0 2), .svcReq "dns-server" .restart]
    let n1 := ({} : Node).run [.installSvc c true [] .good 2, .svcApi 0 (.setDur 1 2), .svcReq "dns-server" .restart]
    (n0.findSvc 0).map (·.s.st) = some .restarting ∧ ((n0.run [.tick]).findSvc 0).map (·.s.st) = some .running ∧
    ((n1.run [.tick]).findSvc 0).map (·.s.st) = some .restarting ∧ ((n1.run [.tick, .tick]).findSvc 0).map (·.s.st) = some .running := by
  decide

/-- the class defaults the attributes start from are the regenerated ones -/
theorem C13_gen_loader_class_defaults : Gen.Software.restartDuration = 5 ∧ Gen.Software.installDuration = 2 ∧
    Gen.Software.fixingDuration = 2 ∧ ({ sw := { actual := .good } } : Svc).dur = Gen.Software.restartDuration := by decide

end Primaite.C13LoaderProps
