/-
C12 — power states gate everything a node does, with the configured timing.
Property theorems only; the model is `Model/Power.lean`, the regenerated tables are `Gen/Power.lean`.
-/
import PrimaiteModel.Model.Power
import PrimaiteModel.Gen.Power
namespace Primaite.Power

/-! ### the legal power moves -/

/-- ON→SHUTTING_DOWN→OFF→BOOTING→ON, with ON→OFF / OFF→ON only when the respective duration is 0 (`<= 0` in the code). -/
def edge (up down : Int) : PState → PState → Bool
  | .on, .shuttingDown => decide (0 < down)
  | .shuttingDown, .off => true
  | .off, .booting => decide (0 < up)
  | .booting, .on => true
  | .on, .off => decide (down ≤ 0)
  | .off, .on => decide (up ≤ 0)
  | _, _ => false

/-- every assignment recorded in the ghost history (newest first) follows an edge from the value before it;
`s0` is the state before the first recorded assignment. -/
def legalHist (up down : Int) (s0 : PState) : List PState → Bool
  | [] => true
  | s :: older => edge up down (older.headD s0) s && legalHist up down s0 older

/-- the current state is the last assigned one, and all assignments were legal moves -/
def HistOk (s0 : PState) (n : Node) : Prop :=
  n.st = n.hist.headD s0 ∧ legalHist n.upDur n.downDur s0 n.hist = true

theorem setSt_histOk {s0 : PState} {n : Node} (s : PState) (h : HistOk s0 n)
    (he : edge n.upDur n.downDur n.st s = true) : HistOk s0 (setSt n s) := by
  obtain ⟨h1, h2⟩ := h
  refine ⟨rfl, ?_⟩
  simp only [setSt, legalHist, Bool.and_eq_true]
  exact ⟨by rw [← h1]; exact he, h2⟩

/-- two nodes that agree on the power-relevant fields -/
def SamePower (n n' : Node) : Prop :=
  n'.st = n.st ∧ n'.hist = n.hist ∧ n'.upDur = n.upDur ∧ n'.downDur = n.downDur

theorem histOk_of_same {s0 : PState} {n n' : Node} (hs : SamePower n n') (h : HistOk s0 n) : HistOk s0 n' := by
  obtain ⟨a, b, c, d⟩ := hs
  unfold HistOk at *
  rw [a, b, c, d]; exact h

/-- the configured durations never change -/
def SameDur (n n' : Node) : Prop := n'.upDur = n.upDur ∧ n'.downDur = n.downDur

/-! #### each API function keeps the history legal -/

theorem powerOn_histOk {s0 : PState} (n : Node) (h : HistOk s0 n) (hst : n.st = .off) :
    HistOk s0 (powerOn n).1 := by
  unfold powerOn
  by_cases hu : n.upDur ≤ 0
  · simp only [hu, if_true]
    have : HistOk s0 (setSt n .on) := setSt_histOk _ h (by simp [hst, edge, hu])
    exact histOk_of_same ⟨rfl, rfl, rfl, rfl⟩ this
  · simp only [hu, if_false, hst, if_true]
    have : HistOk s0 (setSt n .booting) := setSt_histOk _ h (by simp [hst, edge]; omega)
    exact histOk_of_same ⟨rfl, rfl, rfl, rfl⟩ this

theorem powerOn_dur (n : Node) : SameDur n (powerOn n).1 := by
  unfold powerOn; split
  · exact ⟨rfl, rfl⟩
  · split <;> exact ⟨rfl, rfl⟩

theorem powerOff_histOk {s0 : PState} (n : Node) (h : HistOk s0 n) (hst : n.st = .on) :
    HistOk s0 (powerOff n).1 := by
  unfold powerOff
  by_cases hd : n.downDur ≤ 0
  · simp only [hd, if_true]
    have h1 : HistOk s0 (setSt (shutDownActions (disableNics n)) .off) :=
      setSt_histOk _ (histOk_of_same ⟨rfl, rfl, rfl, rfl⟩ h) (by
        show edge n.upDur n.downDur n.st .off = true
        simp [hst, edge, hd])
    split
    · exact powerOn_histOk _ (histOk_of_same ⟨rfl, rfl, rfl, rfl⟩ h1) rfl
    · exact h1
  · simp only [hd, if_false, hst, if_true]
    have : HistOk s0 (setSt (disableNics n) .shuttingDown) :=
      setSt_histOk _ (histOk_of_same ⟨rfl, rfl, rfl, rfl⟩ h) (by
        show edge n.upDur n.downDur n.st .shuttingDown = true
        simp [hst, edge]; omega)
    exact histOk_of_same ⟨rfl, rfl, rfl, rfl⟩ this

theorem powerOff_dur (n : Node) : SameDur n (powerOff n).1 := by
  unfold powerOff
  split
  · dsimp only
    split
    · exact powerOn_dur _
    · exact ⟨rfl, rfl⟩
  · split <;> exact ⟨rfl, rfl⟩

theorem reset_histOk {s0 : PState} (n : Node) (h : HistOk s0 n) (hst : n.st = .on) :
    HistOk s0 (reset n).1 :=
  powerOff_histOk { n with resetting := true } (histOk_of_same ⟨rfl, rfl, rfl, rfl⟩ h) hst

theorem tickUp_histOk {s0 : PState} (n : Node) (h : HistOk s0 n) : HistOk s0 (tickUp n) := by
  unfold tickUp
  split
  · exact histOk_of_same ⟨rfl, rfl, rfl, rfl⟩ h
  · split
    · rename_i hb
      have : HistOk s0 (setSt n .on) := setSt_histOk .on h (by rw [hb]; rfl)
      exact histOk_of_same ⟨rfl, rfl, rfl, rfl⟩ this
    · exact h

theorem tickDown_histOk {s0 : PState} (n : Node) (h : HistOk s0 n) : HistOk s0 (tickDown n) := by
  unfold tickDown
  split
  · exact histOk_of_same ⟨rfl, rfl, rfl, rfl⟩ h
  · split
    · rename_i hb
      have h1 : HistOk s0 (shutDownActions (setSt n .off)) :=
        histOk_of_same ⟨rfl, rfl, rfl, rfl⟩ (setSt_histOk .off h (by rw [hb]; rfl))
      dsimp only
      split
      · exact powerOn_histOk _ (histOk_of_same ⟨rfl, rfl, rfl, rfl⟩ h1) rfl
      · exact h1
    · exact h

theorem tickSoftware_same (n : Node) : SamePower n (tickSoftware n) := by
  unfold tickSoftware; split <;> exact ⟨rfl, rfl, rfl, rfl⟩

theorem tick_histOk {s0 : PState} (n : Node) (h : HistOk s0 n) : HistOk s0 (tick n) :=
  histOk_of_same (tickSoftware_same _) (tickDown_histOk _ (tickUp_histOk _ h))

/-! #### requests -/

/-- every node-level route carries the node-is-on validator, except `startup`, which carries node-is-off -/
def allGuarded (tbl : List Route) : Bool :=
  tbl.all (fun r => if r.key == "startup" then r.guard == .nodeOff else r.guard == .nodeOn)

theorem find_guard {tbl : List Route} (hg : allGuarded tbl = true) {key : String} {r : Route}
    (hf : tbl.find? (fun r => r.key == key) = some r) :
    r.guard = if key = "startup" then .nodeOff else .nodeOn := by
  have hm := List.mem_of_find?_eq_some hf
  have hk : r.key = key := by simpa using List.find?_some hf
  have := List.all_eq_true.mp hg r hm
  subst hk
  by_cases hs : r.key = "startup" <;> simp_all

/-- What a node-level request can do under a guarded table: answer `unreachable`/`failure` and change nothing, or
run the handler — `startup` only from OFF, everything else only from ON. -/
theorem request_cases {tbl : List Route} (hg : allGuarded tbl = true) (n : Node) (key : String) (sub : Sub) :
    (request tbl n key sub = (n, .unreachable) ∧ tbl.find? (fun r => r.key == key) = none) ∨
    (request tbl n key sub = (n, .failure) ∧ (tbl.find? (fun r => r.key == key)).isSome ∧
        ((key = "startup" ∧ n.st ≠ .off) ∨ (key ≠ "startup" ∧ n.st ≠ .on))) ∨
    (request tbl n key sub = handle n key sub ∧
        ((key = "startup" ∧ n.st = .off) ∨ (key ≠ "startup" ∧ n.st = .on))) := by
  unfold request
  cases hf : tbl.find? (fun r => r.key == key) with
  | none => exact Or.inl ⟨rfl, rfl⟩
  | some r =>
    have hgr := find_guard hg hf
    by_cases hs : key = "startup"
    · simp only [hs, if_true] at hgr
      by_cases ho : n.st = .off
      · exact Or.inr (Or.inr ⟨by simp [hgr, guardOk, ho], Or.inl ⟨hs, ho⟩⟩)
      · exact Or.inr (Or.inl ⟨by simp [hgr, guardOk, ho], rfl, Or.inl ⟨hs, ho⟩⟩)
    · simp only [hs, if_false] at hgr
      by_cases ho : n.st = .on
      · exact Or.inr (Or.inr ⟨by simp [hgr, guardOk, ho], Or.inr ⟨hs, ho⟩⟩)
      · exact Or.inr (Or.inl ⟨by simp [hgr, guardOk, ho], rfl, Or.inr ⟨hs, ho⟩⟩)

theorem svcRequest_same (n : Node) (i : Nat) (v : SvcVerb) : SamePower n (svcRequest n i v).1 := by
  unfold svcRequest; split
  · exact ⟨rfl, rfl, rfl, rfl⟩
  · split <;> exact ⟨rfl, rfl, rfl, rfl⟩

theorem appRequest_same (n : Node) (i : Nat) : SamePower n (appRequest n i).1 := by
  unfold appRequest; split
  · exact ⟨rfl, rfl, rfl, rfl⟩
  · split <;> exact ⟨rfl, rfl, rfl, rfl⟩

theorem nicRequest_same (n : Node) (i : Nat) (v : NicVerb) : SamePower n (nicRequest n i v).1 := by
  unfold nicRequest; split
  · exact ⟨rfl, rfl, rfl, rfl⟩
  · cases v <;> simp only <;> split <;> exact ⟨rfl, rfl, rfl, rfl⟩

/-- a handler other than the three power requests leaves the power fields alone -/
theorem handle_other_same (n : Node) (key : String) (sub : Sub)
    (h1 : key ≠ "shutdown") (h2 : key ≠ "startup") (h3 : key ≠ "reset") :
    SamePower n (handle n key sub).1 := by
  unfold handle
  simp only [h1, h2, h3, if_false]
  split
  · exact ⟨rfl, rfl, rfl, rfl⟩
  · split
    · split
      · exact svcRequest_same _ _ _
      · exact ⟨rfl, rfl, rfl, rfl⟩
    · split
      · exact appRequest_same _ _
      · exact ⟨rfl, rfl, rfl, rfl⟩
    · split
      · exact nicRequest_same _ _ _
      · exact ⟨rfl, rfl, rfl, rfl⟩
    · exact ⟨rfl, rfl, rfl, rfl⟩

theorem handle_startup (n : Node) (sub : Sub) :
    handle n "startup" sub = ((powerOn n).1, Resp.fromBool (powerOn n).2) := by
  unfold handle; rw [if_neg (by decide), if_pos rfl]

theorem handle_shutdown (n : Node) (sub : Sub) :
    handle n "shutdown" sub = ((powerOff n).1, Resp.fromBool (powerOff n).2) := by
  unfold handle; rw [if_pos rfl]

theorem handle_reset (n : Node) (sub : Sub) :
    handle n "reset" sub = ((reset n).1, Resp.fromBool (reset n).2) := by
  unfold handle; rw [if_neg (by decide), if_neg (by decide), if_pos rfl]

theorem request_histOk {tbl : List Route} (hg : allGuarded tbl = true) {s0 : PState} (n : Node) (key : String)
    (sub : Sub) (h : HistOk s0 n) : HistOk s0 (request tbl n key sub).1 := by
  rcases request_cases hg n key sub with ⟨e, _⟩ | ⟨e, _⟩ | ⟨e, hc⟩
  · rw [e]; exact h
  · rw [e]; exact h
  · rw [e]
    rcases hc with ⟨hk, hst⟩ | ⟨hk, hst⟩
    · subst hk
      rw [handle_startup]; exact powerOn_histOk n h hst
    · by_cases h1 : key = "shutdown"
      · subst h1
        rw [handle_shutdown]; exact powerOff_histOk n h hst
      · by_cases h3 : key = "reset"
        · subst h3
          rw [handle_reset]; exact reset_histOk n h hst
        · exact histOk_of_same (handle_other_same n key sub h1 hk h3) h

theorem step_histOk {tbl : List Route} (hg : allGuarded tbl = true) {s0 : PState} (n : Node) (op : Op)
    (h : HistOk s0 n) : HistOk s0 (step tbl n op).1 := by
  cases op with
  | request key sub => exact request_histOk hg n key sub h
  | tick => exact tick_histOk n h
  | frameIn i => exact h
  | frameOut i => exact h

/-- **legal_moves.** Under a guarded route table, whatever sequence of node-level requests, ticks and frames a node
sees, every single assignment to its `operating_state` (not just the state seen between operations) follows an edge
of ON→SHUTTING_DOWN→OFF→BOOTING→ON, the shortcuts ON→OFF / OFF→ON being taken only when the respective duration is
`<= 0`. -/
theorem C12_legal_moves {tbl : List Route} (hg : allGuarded tbl = true) (n : Node) (ops : List Op)
    (h0 : n.hist = []) :
    (run tbl n ops).st = (run tbl n ops).hist.headD n.st ∧
      legalHist (run tbl n ops).upDur (run tbl n ops).downDur n.st (run tbl n ops).hist = true := by
  have gen : ∀ (ops : List Op) (m : Node), HistOk n.st m → HistOk n.st (run tbl m ops) := by
    intro ops
    induction ops with
    | nil => intro m hm; exact hm
    | cons op ops ih => intro m hm; exact ih _ (step_histOk hg m op hm)
  exact gen ops n ⟨by simp [h0], by simp [h0, legalHist]⟩

end Primaite.Power
