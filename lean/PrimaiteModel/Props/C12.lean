/-
C12 — power states gate everything a node does, with the configured timing.
Property theorems only; the model is `Model/Power.lean`, the regenerated tables are `Gen/Power.lean`.
-/
import PrimaiteModel.Model.Power
import PrimaiteModel.Gen.Power
namespace Primaite.Power

/-! ### the legal power moves -/

/-- ON→SHUTTING_DOWN→OFF→BOOTING→ON, with ON→OFF / OFF→ON only when the respective duration is 0 (`<= 0` in the code). -/
def edge (up down : Int) : PState → PState → Bool
  | .on, .shuttingDown => decide (0 < down)
  | .shuttingDown, .off => true
  | .off, .booting => decide (0 < up)
  | .booting, .on => true
  | .on, .off => decide (down ≤ 0)
  | .off, .on => decide (up ≤ 0)
  | _, _ => false

/-- every assignment recorded in the ghost history (newest first) follows an edge from the value before it;
`s0` is the state before the first recorded assignment. -/
def legalHist (up down : Int) (s0 : PState) : List PState → Bool
  | [] => true
  | s :: older => edge up down (older.headD s0) s && legalHist up down s0 older

/-- the current state is the last assigned one, and all assignments were legal moves -/
def HistOk (s0 : PState) (n : Node) : Prop :=
  n.st = n.hist.headD s0 ∧ legalHist n.upDur n.downDur s0 n.hist = true

theorem setSt_histOk {s0 : PState} {n : Node} (s : PState) (h : HistOk s0 n)
    (he : edge n.upDur n.downDur n.st s = true) : HistOk s0 (setSt n s) := by
  obtain ⟨h1, h2⟩ := h
  refine ⟨rfl, ?_⟩
  simp only [setSt, legalHist, Bool.and_eq_true]
  exact ⟨by rw [← h1]; exact he, h2⟩

/-- two nodes that agree on the power-relevant fields -/
def SamePower (n n' : Node) : Prop :=
  n'.st = n.st ∧ n'.hist = n.hist ∧ n'.upDur = n.upDur ∧ n'.downDur = n.downDur

theorem histOk_of_same {s0 : PState} {n n' : Node} (hs : SamePower n n') (h : HistOk s0 n) : HistOk s0 n' := by
  obtain ⟨a, b, c, d⟩ := hs
  unfold HistOk at *
  rw [a, b, c, d]; exact h

/-- the configured durations never change -/
def SameDur (n n' : Node) : Prop := n'.upDur = n.upDur ∧ n'.downDur = n.downDur

/-! #### each API function keeps the history legal -/

theorem powerOn_histOk {s0 : PState} (n : Node) (h : HistOk s0 n) (hst : n.st = .off) :
    HistOk s0 (powerOn n).1 := by
  unfold powerOn
  by_cases hu : n.upDur ≤ 0
  · simp only [hu, if_true]
    have : HistOk s0 (setSt n .on) := setSt_histOk _ h (by simp [hst, edge, hu])
    exact histOk_of_same ⟨rfl, rfl, rfl, rfl⟩ this
  · simp only [hu, if_false, hst, if_true]
    have : HistOk s0 (setSt n .booting) := setSt_histOk _ h (by simp [hst, edge]; omega)
    exact histOk_of_same ⟨rfl, rfl, rfl, rfl⟩ this

theorem powerOn_dur (n : Node) : SameDur n (powerOn n).1 := by
  unfold powerOn; split
  · exact ⟨rfl, rfl⟩
  · split <;> exact ⟨rfl, rfl⟩

theorem powerOff_histOk {s0 : PState} (n : Node) (h : HistOk s0 n) (hst : n.st = .on) :
    HistOk s0 (powerOff n).1 := by
  unfold powerOff
  by_cases hd : n.downDur ≤ 0
  · simp only [hd, if_true]
    have h1 : HistOk s0 (setSt (shutDownActions (disableNics n)) .off) :=
      setSt_histOk _ (histOk_of_same ⟨rfl, rfl, rfl, rfl⟩ h) (by
        show edge n.upDur n.downDur n.st .off = true
        simp [hst, edge, hd])
    split
    · exact powerOn_histOk _ (histOk_of_same ⟨rfl, rfl, rfl, rfl⟩ h1) rfl
    · exact h1
  · simp only [hd, if_false, hst, if_true]
    have : HistOk s0 (setSt (disableNics n) .shuttingDown) :=
      setSt_histOk _ (histOk_of_same ⟨rfl, rfl, rfl, rfl⟩ h) (by
        show edge n.upDur n.downDur n.st .shuttingDown = true
        simp [hst, edge]; omega)
    exact histOk_of_same ⟨rfl, rfl, rfl, rfl⟩ this

theorem powerOff_dur (n : Node) : SameDur n (powerOff n).1 := by
  unfold powerOff
  split
  · dsimp only
    split
    · exact powerOn_dur _
    · exact ⟨rfl, rfl⟩
  · split <;> exact ⟨rfl, rfl⟩

theorem reset_histOk {s0 : PState} (n : Node) (h : HistOk s0 n) (hst : n.st = .on) :
    HistOk s0 (reset n).1 :=
  powerOff_histOk { n with resetting := true } (histOk_of_same ⟨rfl, rfl, rfl, rfl⟩ h) hst

theorem tickUp_histOk {s0 : PState} (n : Node) (h : HistOk s0 n) : HistOk s0 (tickUp n) := by
  unfold tickUp
  split
  · exact histOk_of_same ⟨rfl, rfl, rfl, rfl⟩ h
  · split
    · rename_i hb
      have : HistOk s0 (setSt n .on) := setSt_histOk .on h (by rw [hb]; rfl)
      exact histOk_of_same ⟨rfl, rfl, rfl, rfl⟩ this
    · exact h

theorem tickDown_histOk {s0 : PState} (n : Node) (h : HistOk s0 n) : HistOk s0 (tickDown n) := by
  unfold tickDown
  split
  · exact histOk_of_same ⟨rfl, rfl, rfl, rfl⟩ h
  · split
    · rename_i hb
      have h1 : HistOk s0 (shutDownActions (setSt n .off)) :=
        histOk_of_same ⟨rfl, rfl, rfl, rfl⟩ (setSt_histOk .off h (by rw [hb]; rfl))
      dsimp only
      split
      · exact powerOn_histOk _ (histOk_of_same ⟨rfl, rfl, rfl, rfl⟩ h1) rfl
      · exact h1
    · exact h

theorem tickSoftware_same (n : Node) : SamePower n (tickSoftware n) := by
  unfold tickSoftware; split <;> exact ⟨rfl, rfl, rfl, rfl⟩

theorem tick_histOk {s0 : PState} (n : Node) (h : HistOk s0 n) : HistOk s0 (tick n) :=
  histOk_of_same (tickSoftware_same _) (tickDown_histOk _ (tickUp_histOk _ h))

/-! #### requests -/

/-- every node-level route carries the node-is-on validator, except `startup`, which carries node-is-off -/
def allGuarded (tbl : List Route) : Bool :=
  tbl.all (fun r => if r.key == "startup" then r.guard == .nodeOff else r.guard == .nodeOn)

theorem find_guard {tbl : List Route} (hg : allGuarded tbl = true) {key : String} {r : Route}
    (hf : tbl.find? (fun r => r.key == key) = some r) :
    r.guard = if key = "startup" then .nodeOff else .nodeOn := by
  have hm := List.mem_of_find?_eq_some hf
  have hk : r.key = key := by simpa using List.find?_some hf
  have := List.all_eq_true.mp hg r hm
  subst hk
  by_cases hs : r.key = "startup" <;> simp_all

/-- What a node-level request can do under a guarded table: answer `unreachable`/`failure` and change nothing, or
run the handler — `startup` only from OFF, everything else only from ON. -/
theorem request_cases {tbl : List Route} (hg : allGuarded tbl = true) (n : Node) (key : String) (sub : Sub) :
    (request tbl n key sub = (n, .unreachable) ∧ tbl.find? (fun r => r.key == key) = none) ∨
    (request tbl n key sub = (n, .failure) ∧ (tbl.find? (fun r => r.key == key)).isSome ∧
        ((key = "startup" ∧ n.st ≠ .off) ∨ (key ≠ "startup" ∧ n.st ≠ .on))) ∨
    (request tbl n key sub = handle n key sub ∧
        ((key = "startup" ∧ n.st = .off) ∨ (key ≠ "startup" ∧ n.st = .on))) := by
  unfold request
  cases hf : tbl.find? (fun r => r.key == key) with
  | none => exact Or.inl ⟨rfl, rfl⟩
  | some r =>
    have hgr := find_guard hg hf
    by_cases hs : key = "startup"
    · simp only [hs, if_true] at hgr
      by_cases ho : n.st = .off
      · exact Or.inr (Or.inr ⟨by simp [hgr, guardOk, ho], Or.inl ⟨hs, ho⟩⟩)
      · exact Or.inr (Or.inl ⟨by simp [hgr, guardOk, ho], rfl, Or.inl ⟨hs, ho⟩⟩)
    · simp only [hs, if_false] at hgr
      by_cases ho : n.st = .on
      · exact Or.inr (Or.inr ⟨by simp [hgr, guardOk, ho], Or.inr ⟨hs, ho⟩⟩)
      · exact Or.inr (Or.inl ⟨by simp [hgr, guardOk, ho], rfl, Or.inr ⟨hs, ho⟩⟩)

theorem svcRequest_same (n : Node) (i : Nat) (v : SvcVerb) : SamePower n (svcRequest n i v).1 := by
  unfold svcRequest; split
  · exact ⟨rfl, rfl, rfl, rfl⟩
  · split <;> exact ⟨rfl, rfl, rfl, rfl⟩

theorem appRequest_same (n : Node) (i : Nat) : SamePower n (appRequest n i).1 := by
  unfold appRequest; split
  · exact ⟨rfl, rfl, rfl, rfl⟩
  · split <;> exact ⟨rfl, rfl, rfl, rfl⟩

theorem nicRequest_same (n : Node) (i : Nat) (v : NicVerb) : SamePower n (nicRequest n i v).1 := by
  unfold nicRequest; split
  · exact ⟨rfl, rfl, rfl, rfl⟩
  · cases v <;> simp only <;> split <;> exact ⟨rfl, rfl, rfl, rfl⟩

/-- a handler other than the three power requests leaves the power fields alone -/
theorem handle_other_same (n : Node) (key : String) (sub : Sub)
    (h1 : key ≠ "shutdown") (h2 : key ≠ "startup") (h3 : key ≠ "reset") :
    SamePower n (handle n key sub).1 := by
  unfold handle
  simp only [h1, h2, h3, if_false]
  split
  · exact ⟨rfl, rfl, rfl, rfl⟩
  · split
    · exact ⟨rfl, rfl, rfl, rfl⟩
    · split
      · split
        · exact svcRequest_same _ _ _
        · exact ⟨rfl, rfl, rfl, rfl⟩
      · split
        · exact appRequest_same _ _
        · exact ⟨rfl, rfl, rfl, rfl⟩
      · split
        · exact nicRequest_same _ _ _
        · exact ⟨rfl, rfl, rfl, rfl⟩
      · split <;> exact ⟨rfl, rfl, rfl, rfl⟩
      · exact ⟨rfl, rfl, rfl, rfl⟩

theorem handle_startup (n : Node) (sub : Sub) :
    handle n "startup" sub = ((powerOn n).1, Resp.fromBool (powerOn n).2) := by
  unfold handle; rw [if_neg (by decide), if_pos rfl]

theorem handle_shutdown (n : Node) (sub : Sub) :
    handle n "shutdown" sub = ((powerOff n).1, Resp.fromBool (powerOff n).2) := by
  unfold handle; rw [if_pos rfl]

theorem handle_reset (n : Node) (sub : Sub) :
    handle n "reset" sub = ((reset n).1, Resp.fromBool (reset n).2) := by
  unfold handle; rw [if_neg (by decide), if_neg (by decide), if_pos rfl]

theorem request_histOk {tbl : List Route} (hg : allGuarded tbl = true) {s0 : PState} (n : Node) (key : String)
    (sub : Sub) (h : HistOk s0 n) : HistOk s0 (request tbl n key sub).1 := by
  rcases request_cases hg n key sub with ⟨e, _⟩ | ⟨e, _⟩ | ⟨e, hc⟩
  · rw [e]; exact h
  · rw [e]; exact h
  · rw [e]
    rcases hc with ⟨hk, hst⟩ | ⟨hk, hst⟩
    · subst hk
      rw [handle_startup]; exact powerOn_histOk n h hst
    · by_cases h1 : key = "shutdown"
      · subst h1
        rw [handle_shutdown]; exact powerOff_histOk n h hst
      · by_cases h3 : key = "reset"
        · subst h3
          rw [handle_reset]; exact reset_histOk n h hst
        · exact histOk_of_same (handle_other_same n key sub h1 hk h3) h

theorem step_histOk {tbl : List Route} (hg : allGuarded tbl = true) {s0 : PState} (n : Node) (op : Op)
    (h : HistOk s0 n) : HistOk s0 (step tbl n op).1 := by
  cases op with
  | request key sub => exact request_histOk hg n key sub h
  | tick => exact tick_histOk n h
  | frameIn i => exact h
  | frameOut i => exact h

/-- **legal_moves.** Under a guarded route table, whatever sequence of node-level requests, ticks and frames a node
sees, every single assignment to its `operating_state` (not just the state seen between operations) follows an edge
of ON→SHUTTING_DOWN→OFF→BOOTING→ON, the shortcuts ON→OFF / OFF→ON being taken only when the respective duration is
`<= 0`. -/
theorem C12_legal_moves {tbl : List Route} (hg : allGuarded tbl = true) (n : Node) (ops : List Op)
    (h0 : n.hist = []) :
    (run tbl n ops).st = (run tbl n ops).hist.headD n.st ∧
      legalHist (run tbl n ops).upDur (run tbl n ops).downDur n.st (run tbl n ops).hist = true := by
  have gen : ∀ (ops : List Op) (m : Node), HistOk n.st m → HistOk n.st (run tbl m ops) := by
    intro ops
    induction ops with
    | nil => intro m hm; exact hm
    | cons op ops ih => intro m hm; exact ih _ (step_histOk hg m op hm)
  exact gen ops n ⟨by simp [h0], by simp [h0, legalHist]⟩

/-! ### while a node is not ON its interfaces are disabled -/

def NicsOff (n : Node) : Prop := ∀ c ∈ n.nics, c.enabled = false

/-- the invariant of the property statement -/
def NicInv (n : Node) : Prop := n.st ≠ .on → NicsOff n

theorem disableNics_off (n : Node) : NicsOff (disableNics n) := by
  intro c hc
  simp only [disableNics, List.mem_map] at hc
  obtain ⟨c0, _, rfl⟩ := hc
  rfl

theorem nicEnable_false (c : Nic) : Nic.enable false c = c := by
  unfold Nic.enable; split <;> simp

theorem powerOn_nicInv (n : Node) (h : NicInv n) : NicInv (powerOn n).1 := by
  unfold powerOn
  split
  · intro hne; exact absurd rfl hne
  · split
    · rename_i hoff
      intro _
      exact h (by rw [hoff]; decide)
    · exact h

theorem powerOff_nicInv (n : Node) (h : NicInv n) : NicInv (powerOff n).1 := by
  unfold powerOff
  split
  · dsimp only
    have hoff : NicsOff (setSt (shutDownActions (disableNics n)) .off) := disableNics_off n
    split
    · exact powerOn_nicInv _ (fun _ => hoff)
    · exact fun _ => hoff
  · split
    · exact fun _ => disableNics_off n
    · exact h

theorem reset_nicInv (n : Node) (h : NicInv n) : NicInv (reset n).1 :=
  powerOff_nicInv { n with resetting := true } h

theorem tickUp_nicInv (n : Node) (h : NicInv n) : NicInv (tickUp n) := by
  unfold tickUp
  split
  · exact h
  · split
    · intro hne; exact absurd rfl hne
    · exact h

theorem tickDown_nicInv (n : Node) (h : NicInv n) : NicInv (tickDown n) := by
  unfold tickDown
  split
  · exact h
  · split
    · rename_i hsd
      have hoff : NicsOff (shutDownActions (setSt n .off)) := h (by rw [hsd]; decide)
      dsimp only
      split
      · exact powerOn_nicInv _ (fun _ => hoff)
      · exact fun _ => hoff
    · exact h

theorem tick_nicInv (n : Node) (h : NicInv n) : NicInv (tick n) := by
  have h2 := tickDown_nicInv _ (tickUp_nicInv n h)
  unfold tick tickSoftware
  split
  · intro hne; exact absurd (by assumption) hne
  · exact h2

theorem nicRequest_nicInv (n : Node) (i : Nat) (v : NicVerb) (h : NicInv n) : NicInv (nicRequest n i v).1 := by
  unfold nicRequest
  split
  · exact h
  · rename_i c hc
    cases v with
    | enable =>
      dsimp only
      split
      · intro hne c' hc'
        have hne' : n.st ≠ .on := hne
        have hison : n.isOn = false := by simp [Node.isOn, hne']
        rcases List.mem_or_eq_of_mem_set hc' with hm | rfl
        · exact h hne' c' hm
        · rw [hison, nicEnable_false]
          exact h hne' c (List.mem_of_getElem? hc)
      · exact h
    | disable =>
      dsimp only
      split
      · intro hne c' hc'
        rcases List.mem_or_eq_of_mem_set hc' with hm | rfl
        · exact h hne c' hm
        · rfl
      · exact h

/-- same state and same interfaces -/
theorem nicInv_of_same {n n' : Node} (h1 : n'.st = n.st) (h2 : n'.nics = n.nics) (h : NicInv n) : NicInv n' := by
  unfold NicInv NicsOff at *; rw [h1, h2]; exact h

theorem svcRequest_nics (n : Node) (i : Nat) (v : SvcVerb) :
    (svcRequest n i v).1.st = n.st ∧ (svcRequest n i v).1.nics = n.nics := by
  unfold svcRequest; split
  · exact ⟨rfl, rfl⟩
  · split <;> exact ⟨rfl, rfl⟩

theorem appRequest_nics (n : Node) (i : Nat) :
    (appRequest n i).1.st = n.st ∧ (appRequest n i).1.nics = n.nics := by
  unfold appRequest; split
  · exact ⟨rfl, rfl⟩
  · split <;> exact ⟨rfl, rfl⟩

theorem handle_nicInv (n : Node) (key : String) (sub : Sub) (h : NicInv n) : NicInv (handle n key sub).1 := by
  unfold handle
  split
  · exact powerOff_nicInv n h
  · split
    · exact powerOn_nicInv n h
    · split
      · exact reset_nicInv n h
      · split
        · exact h
        · split
          · exact h
          · split
            · split
              · exact nicInv_of_same (svcRequest_nics _ _ _).1 (svcRequest_nics _ _ _).2 h
              · exact h
            · split
              · exact nicInv_of_same (appRequest_nics _ _).1 (appRequest_nics _ _).2 h
              · exact h
            · split
              · exact nicRequest_nicInv _ _ _ h
              · exact h
            · split <;> exact h
            · exact h

theorem request_nicInv (tbl : List Route) (n : Node) (key : String) (sub : Sub) (h : NicInv n) :
    NicInv (request tbl n key sub).1 := by
  unfold request
  split
  · exact h
  · split
    · exact handle_nicInv n key sub h
    · exact h

theorem step_nicInv (tbl : List Route) (n : Node) (op : Op) (h : NicInv n) : NicInv (step tbl n op).1 := by
  cases op with
  | request key sub => exact request_nicInv tbl n key sub h
  | tick => exact tick_nicInv n h
  | frameIn i => exact h
  | frameOut i => exact h

/-- **not_on_nics_disabled.** For *every* route table (this needs no validator at all: `enable()` itself tests the
node) and every sequence of requests, ticks and frames: a node that is not ON has no enabled interface. -/
theorem C12_not_on_nics_disabled (tbl : List Route) (n : Node) (ops : List Op) (h : NicInv n) :
    NicInv (run tbl n ops) := by
  induction ops generalizing n with
  | nil => exact h
  | cons op ops ih => exact ih _ (step_nicInv tbl n op h)

/-- corollary: a node that is not ON neither accepts nor emits a frame, whatever happened before -/
theorem C12_not_on_no_traffic (tbl : List Route) (n : Node) (ops : List Op) (h : NicInv n) (i : Nat)
    (hne : (run tbl n ops).st ≠ .on) :
    (step tbl (run tbl n ops) (.frameIn i)).2 = .frame false ∧
    (step tbl (run tbl n ops) (.frameOut i)).2 = .frame false := by
  have hoff := C12_not_on_nics_disabled tbl n ops h hne
  have : nicPasses (run tbl n ops) i = false := by
    unfold nicPasses
    cases hc : (run tbl n ops).nics[i]? with
    | none => rfl
    | some c => exact hoff c (List.mem_of_getElem? hc)
  simp [step, this]

/-- a ping between two directly linked nodes succeeds only if both ends are ON -/
theorem C12_ping_needs_both_on (a b : Node) (hb : NicInv b) (h : pingOk a b = true) :
    a.st = .on ∧ b.st = .on := by
  simp only [pingOk, Bool.and_eq_true, Node.isOn, beq_iff_eq] at h
  obtain ⟨⟨ha, _⟩, hpb⟩ := h
  refine ⟨ha, ?_⟩
  by_cases hbon : b.st = .on
  · exact hbon
  · exfalso
    have hoff := hb hbon
    unfold nicPasses at hpb
    cases hc : b.nics[0]? with
    | none => simp [hc] at hpb
    | some c =>
      simp only [hc] at hpb
      have := hoff c (List.mem_of_getElem? hc)
      simp [this] at hpb

/-! ### every request other than start-up is refused while the node is not ON -/

/-- **refused_unless_startup.** Under a guarded table a node that is not ON answers `failure` to every node-level
request whose key exists and is not `startup`, and nothing changes (keys that do not exist are `unreachable`). -/
theorem C12_refused_unless_startup {tbl : List Route} (hg : allGuarded tbl = true) (n : Node) (hne : n.st ≠ .on)
    (key : String) (sub : Sub) (hk : key ≠ "startup") :
    request tbl n key sub = (n, if (tbl.find? (fun r => r.key == key)).isSome then .failure else .unreachable) := by
  rcases request_cases hg n key sub with ⟨e, hf⟩ | ⟨e, hf, _⟩ | ⟨_, hc⟩
  · rw [e, hf]; rfl
  · rw [e]; simp [hf]
  · rcases hc with ⟨hk', _⟩ | ⟨_, hon⟩
    · exact absurd hk' hk
    · exact absurd hon hne

/-- `startup` itself is refused unless the node is OFF (so it cannot cut a shutdown or a boot short) -/
theorem C12_startup_only_from_off {tbl : List Route} (hg : allGuarded tbl = true) (n : Node) (hne : n.st ≠ .off)
    (sub : Sub) :
    request tbl n "startup" sub =
      (n, if (tbl.find? (fun r => r.key == "startup")).isSome then .failure else .unreachable) := by
  rcases request_cases hg n "startup" sub with ⟨e, hf⟩ | ⟨e, hf, _⟩ | ⟨_, hc⟩
  · rw [e, hf]; rfl
  · rw [e]; simp [hf]
  · rcases hc with ⟨_, hoff⟩ | ⟨hk', _⟩
    · exact absurd hoff hne
    · exact absurd rfl hk'

/-- a refused or unreachable request changes nothing: in a transitional state no request has any effect -/
theorem C12_transitional_requests_inert {tbl : List Route} (hg : allGuarded tbl = true) (n : Node)
    (h : n.st = .booting ∨ n.st = .shuttingDown) (key : String) (sub : Sub) :
    (request tbl n key sub).1 = n := by
  rcases request_cases hg n key sub with ⟨e, _⟩ | ⟨e, _⟩ | ⟨_, hc⟩
  · rw [e]
  · rw [e]
  · rcases hc with ⟨_, hst⟩ | ⟨_, hst⟩ <;> rcases h with h | h <;> rw [h] at hst <;> cases hst

/-! ### timing -/

/-- nothing but the countdowns differs -/
def Frozen (n n' : Node) : Prop :=
  n'.st = n.st ∧ n'.hist = n.hist ∧ n'.nics = n.nics ∧ n'.svcs = n.svcs ∧ n'.apps = n.apps ∧
  n'.resetting = n.resetting ∧ n'.upDur = n.upDur ∧ n'.downDur = n.downDur

theorem Frozen.refl (n : Node) : Frozen n n := ⟨rfl, rfl, rfl, rfl, rfl, rfl, rfl, rfl⟩

theorem Frozen.trans {a b c : Node} (h1 : Frozen a b) (h2 : Frozen b c) : Frozen a c := by
  obtain ⟨a1, a2, a3, a4, a5, a6, a7, a8⟩ := h1
  obtain ⟨b1, b2, b3, b4, b5, b6, b7, b8⟩ := h2
  exact ⟨b1.trans a1, b2.trans a2, b3.trans a3, b4.trans a4, b5.trans a5, b6.trans a6, b7.trans a7, b8.trans a8⟩

theorem tickSoftware_notOn (n : Node) (h : n.st ≠ .on) : tickSoftware n = n := by
  unfold tickSoftware; rw [if_neg h]

/-- a tick of a BOOTING node whose countdown has not run out only decrements the countdowns -/
theorem tick_booting_pos (n : Node) (hst : n.st = .booting) (hc : 0 < n.upCd) :
    Frozen n (tick n) ∧ (tick n).upCd = n.upCd - 1 := by
  have h1 : tickUp n = { n with upCd := n.upCd - 1 } := by
    unfold tickUp; rw [if_pos hc]
  have h2 : Frozen n (tickDown (tickUp n)) ∧ (tickDown (tickUp n)).upCd = n.upCd - 1 := by
    rw [h1]; unfold tickDown
    split
    · exact ⟨⟨rfl, rfl, rfl, rfl, rfl, rfl, rfl, rfl⟩, rfl⟩
    · rw [if_neg (by show n.st ≠ .shuttingDown; rw [hst]; decide)]
      exact ⟨⟨rfl, rfl, rfl, rfl, rfl, rfl, rfl, rfl⟩, rfl⟩
  unfold tick
  rw [tickSoftware_notOn _ (by rw [h2.1.1, hst]; decide)]
  exact h2

/-- the tick that finds a BOOTING node with countdown `<= 0` turns it ON -/
theorem tick_booting_zero (n : Node) (hst : n.st = .booting) (hc : n.upCd ≤ 0) :
    (tick n).st = .on ∧ (tick n).hist = .on :: n.hist := by
  have hc' : ¬ n.upCd > 0 := by omega
  have h1 : tickUp n = startUpActions (enableNics (setSt n .on)) := by
    unfold tickUp; rw [if_neg hc', if_pos hst]
  unfold tick
  rw [h1]
  have h2 : (startUpActions (enableNics (setSt n .on))).st = .on := rfl
  have h3 : (tickDown (startUpActions (enableNics (setSt n .on)))).st = .on ∧
      (tickDown (startUpActions (enableNics (setSt n .on)))).hist = .on :: n.hist := by
    unfold tickDown
    split
    · exact ⟨rfl, rfl⟩
    · rw [if_neg (by rw [h2]; decide)]; exact ⟨rfl, rfl⟩
  unfold tickSoftware
  split
  · exact h3
  · exact h3

/-- a tick of a SHUTTING_DOWN node whose countdown has not run out only decrements the countdowns -/
theorem tick_shutting_pos (n : Node) (hst : n.st = .shuttingDown) (hc : 0 < n.downCd) :
    Frozen n (tick n) ∧ (tick n).downCd = n.downCd - 1 := by
  have h1 : Frozen n (tickUp n) ∧ (tickUp n).downCd = n.downCd := by
    unfold tickUp
    split
    · exact ⟨⟨rfl, rfl, rfl, rfl, rfl, rfl, rfl, rfl⟩, rfl⟩
    · rw [if_neg (by rw [hst]; decide)]; exact ⟨Frozen.refl n, rfl⟩
  have h2 : tickDown (tickUp n) = { tickUp n with downCd := (tickUp n).downCd - 1 } := by
    unfold tickDown; rw [if_pos (by rw [h1.2]; exact hc)]
  obtain ⟨⟨a1, a2, a3, a4, a5, a6, a7, a8⟩, a9⟩ := h1
  unfold tick
  rw [h2, tickSoftware_notOn _ (by show (tickUp n).st ≠ .on; rw [a1, hst]; decide)]
  exact ⟨⟨a1, a2, a3, a4, a5, a6, a7, a8⟩, by show (tickUp n).downCd - 1 = _; rw [a9]⟩

/-- where a start leads: BOOTING when the start-up takes time, ON at once otherwise -/
def startTarget (n : Node) : PState := if n.upDur ≤ 0 then .on else .booting

theorem powerOn_from_off (n : Node) (hst : n.st = .off) :
    (powerOn n).1.st = startTarget n ∧ (powerOn n).1.hist = startTarget n :: n.hist ∧
    (powerOn n).2 = true ∧ (0 < n.upDur → (powerOn n).1.upCd = n.upDur) ∧
    (powerOn n).1.upDur = n.upDur ∧ (powerOn n).1.downDur = n.downDur ∧ (powerOn n).1.resetting = n.resetting := by
  by_cases hu : n.upDur ≤ 0
  · have ht : startTarget n = .on := by unfold startTarget; rw [if_pos hu]
    rw [ht]; unfold powerOn; rw [if_pos hu]
    exact ⟨rfl, rfl, rfl, fun h => absurd hu (by omega), rfl, rfl, rfl⟩
  · have ht : startTarget n = .booting := by unfold startTarget; rw [if_neg hu]
    rw [ht]; unfold powerOn; rw [if_neg hu, if_pos hst]
    exact ⟨rfl, rfl, rfl, fun _ => rfl, rfl, rfl, rfl⟩

/-- the tick that finds a SHUTTING_DOWN node with countdown `<= 0` turns it OFF; if a reset is pending it is
started again in the same tick and the flag is cleared -/
theorem tick_shutting_zero (n : Node) (hst : n.st = .shuttingDown) (hc : n.downCd ≤ 0) :
    (n.resetting = false → (tick n).st = .off ∧ (tick n).hist = .off :: n.hist) ∧
    (n.resetting = true → (tick n).st = startTarget n ∧ (tick n).hist = startTarget n :: .off :: n.hist ∧
        (tick n).resetting = false ∧ (0 < n.upDur → (tick n).upCd = n.upDur)) := by
  have hc' : ¬ n.downCd > 0 := by omega
  have h1 : Frozen n (tickUp n) ∧ (tickUp n).downCd = n.downCd := by
    unfold tickUp
    split
    · exact ⟨⟨rfl, rfl, rfl, rfl, rfl, rfl, rfl, rfl⟩, rfl⟩
    · rw [if_neg (by rw [hst]; decide)]; exact ⟨Frozen.refl n, rfl⟩
  obtain ⟨⟨a1, a2, a3, a4, a5, a6, a7, a8⟩, a9⟩ := h1
  have hst' : (tickUp n).st = .shuttingDown := by rw [a1, hst]
  have hc'' : ¬ (tickUp n).downCd > 0 := by rw [a9]; exact hc'
  constructor
  · intro hr
    have hr' : (shutDownActions (setSt (tickUp n) .off)).resetting = false := by
      show (tickUp n).resetting = false
      rw [a6, hr]
    have h2 : tickDown (tickUp n) = shutDownActions (setSt (tickUp n) .off) := by
      unfold tickDown
      rw [if_neg hc'', if_pos hst']
      simp only [hr']
      rfl
    unfold tick
    rw [h2]
    unfold tickSoftware
    have : (shutDownActions (setSt (tickUp n) .off)).st = .off := rfl
    rw [if_neg (by rw [this]; decide)]
    exact ⟨rfl, by show PState.off :: (tickUp n).hist = _; rw [a2]⟩
  · intro hr
    have hr' : (shutDownActions (setSt (tickUp n) .off)).resetting = true := by
      show (tickUp n).resetting = true
      rw [a6, hr]
    have h2 : tickDown (tickUp n) =
        (powerOn { shutDownActions (setSt (tickUp n) .off) with resetting := false }).1 := by
      unfold tickDown
      rw [if_neg hc'', if_pos hst']
      simp only [hr', if_true]
    have hp := powerOn_from_off { shutDownActions (setSt (tickUp n) .off) with resetting := false } rfl
    have hT : startTarget { shutDownActions (setSt (tickUp n) .off) with resetting := false } = startTarget n := by
      unfold startTarget
      show (if (tickUp n).upDur ≤ 0 then PState.on else PState.booting) = _
      rw [a7]
    rw [hT] at hp
    obtain ⟨p1, p2, _, p4, _, _, p7⟩ := hp
    unfold tick
    rw [h2]
    unfold tickSoftware
    split
    · refine ⟨p1, ?_, p7, ?_⟩
      · show _ = _
        rw [p2]; show startTarget n :: PState.off :: (tickUp n).hist = _; rw [a2]
      · intro hu; exact (p4 (by show 0 < (tickUp n).upDur; rw [a7]; exact hu)).trans a7
    · refine ⟨p1, ?_, p7, ?_⟩
      · rw [p2]; show startTarget n :: PState.off :: (tickUp n).hist = _; rw [a2]
      · intro hu; exact (p4 (by show 0 < (tickUp n).upDur; rw [a7]; exact hu)).trans a7

/-- while BOOTING or SHUTTING_DOWN, requests and frames change nothing at all -/
theorem step_transitional_inert {tbl : List Route} (hg : allGuarded tbl = true) (n : Node)
    (h : n.st = .booting ∨ n.st = .shuttingDown) (op : Op) (hop : op ≠ .tick) : (step tbl n op).1 = n := by
  cases op with
  | request key sub => exact C12_transitional_requests_inert hg n h key sub
  | tick => exact absurd rfl hop
  | frameIn i => rfl
  | frameOut i => rfl

/-- **boot_timing (held).** A BOOTING node with countdown `c` is still BOOTING after any sequence of operations that
contains at most `c` ticks — whatever requests and frames are interleaved — and nothing but the countdowns changed. -/
theorem C12_boot_held {tbl : List Route} (hg : allGuarded tbl = true) (n : Node) (hst : n.st = .booting)
    (ops : List Op) (hle : (ticksIn ops : Int) ≤ n.upCd) :
    Frozen n (run tbl n ops) ∧ (run tbl n ops).upCd = n.upCd - ticksIn ops := by
  induction ops generalizing n with
  | nil => exact ⟨Frozen.refl n, by simp [run, ticksIn]⟩
  | cons op ops ih =>
    by_cases hop : op = .tick
    · subst hop
      have hle' : (ticksIn ops : Int) + 1 ≤ n.upCd := by simpa [ticksIn] using hle
      obtain ⟨hf, hcd⟩ := tick_booting_pos n hst (by omega)
      have := ih (tick n) (by rw [hf.1, hst]) (by rw [hcd]; omega)
      refine ⟨Frozen.trans hf this.1, ?_⟩
      show (run tbl (tick n) ops).upCd = _
      rw [this.2, hcd]; simp [ticksIn]; omega
    · have hin := step_transitional_inert hg n (Or.inl hst) op hop
      have ht : ticksIn (op :: ops) = ticksIn ops := by
        cases op with
        | tick => exact absurd rfl hop
        | request _ _ => rfl
        | frameIn _ => rfl
        | frameOut _ => rfl
      show Frozen n (run tbl (step tbl n op).1 ops) ∧ (run tbl (step tbl n op).1 ops).upCd = _
      rw [hin, ht]
      exact ih n hst (by rw [ht] at hle; exact hle)

/-- **shutdown_timing (held).** Same for SHUTTING_DOWN. -/
theorem C12_shutdown_held {tbl : List Route} (hg : allGuarded tbl = true) (n : Node) (hst : n.st = .shuttingDown)
    (ops : List Op) (hle : (ticksIn ops : Int) ≤ n.downCd) :
    Frozen n (run tbl n ops) ∧ (run tbl n ops).downCd = n.downCd - ticksIn ops := by
  induction ops generalizing n with
  | nil => exact ⟨Frozen.refl n, by simp [run, ticksIn]⟩
  | cons op ops ih =>
    by_cases hop : op = .tick
    · subst hop
      have hle' : (ticksIn ops : Int) + 1 ≤ n.downCd := by simpa [ticksIn] using hle
      obtain ⟨hf, hcd⟩ := tick_shutting_pos n hst (by omega)
      have := ih (tick n) (by rw [hf.1, hst]) (by rw [hcd]; omega)
      refine ⟨Frozen.trans hf this.1, ?_⟩
      show (run tbl (tick n) ops).downCd = _
      rw [this.2, hcd]; simp [ticksIn]; omega
    · have hin := step_transitional_inert hg n (Or.inr hst) op hop
      have ht : ticksIn (op :: ops) = ticksIn ops := by
        cases op with
        | tick => exact absurd rfl hop
        | request _ _ => rfl
        | frameIn _ => rfl
        | frameOut _ => rfl
      show Frozen n (run tbl (step tbl n op).1 ops) ∧ (run tbl (step tbl n op).1 ops).downCd = _
      rw [hin, ht]
      exact ih n hst (by rw [ht] at hle; exact hle)

/-- a request whose key exists and whose validator holds runs its handler -/
theorem request_accepted {tbl : List Route} (hg : allGuarded tbl = true) (n : Node) (key : String) (sub : Sub)
    (hin : (tbl.find? (fun r => r.key == key)).isSome = true)
    (hok : (key = "startup" ∧ n.st = .off) ∨ (key ≠ "startup" ∧ n.st = .on)) :
    request tbl n key sub = handle n key sub := by
  rcases request_cases hg n key sub with ⟨_, hf⟩ | ⟨_, _, hc⟩ | ⟨e, _⟩
  · rw [hf] at hin; cases hin
  · rcases hc with ⟨hk, hne⟩ | ⟨hk, hne⟩ <;> rcases hok with ⟨hk', hst⟩ | ⟨hk', hst⟩
    · exact absurd hst hne
    · exact absurd hk hk'
    · exact absurd hk' hk
    · exact absurd hst hne
  · exact e

theorem powerOff_timed (n : Node) (hst : n.st = .on) (hd : 0 < n.downDur) :
    (powerOff n).1.st = .shuttingDown ∧ (powerOff n).1.downCd = n.downDur ∧ (powerOff n).1.hist = .shuttingDown :: n.hist ∧
    (powerOff n).1.resetting = n.resetting ∧ (powerOff n).1.upDur = n.upDur ∧ (powerOff n).1.downDur = n.downDur ∧
    (powerOff n).2 = true := by
  unfold powerOff
  rw [if_neg (by omega), if_pos hst]
  exact ⟨rfl, rfl, rfl, rfl, rfl, rfl, rfl⟩

theorem powerOff_instant (n : Node) (hd : n.downDur ≤ 0) :
    (powerOff n).2 = true ∧
    (n.resetting = false → (powerOff n).1.st = .off ∧ (powerOff n).1.hist = .off :: n.hist) ∧
    (n.resetting = true → (powerOff n).1.st = startTarget n ∧ (powerOff n).1.hist = startTarget n :: .off :: n.hist ∧
        (powerOff n).1.resetting = false ∧ (0 < n.upDur → (powerOff n).1.upCd = n.upDur) ∧
        (powerOff n).1.upDur = n.upDur ∧ (powerOff n).1.downDur = n.downDur) := by
  unfold powerOff
  rw [if_pos hd]
  dsimp only
  refine ⟨?_, ?_, ?_⟩
  · split <;> rfl
  · intro hr
    have : (setSt (shutDownActions (disableNics n)) .off).resetting = false := hr
    simp only [this]
    exact ⟨rfl, rfl⟩
  · intro hr
    have : (setSt (shutDownActions (disableNics n)) .off).resetting = true := hr
    simp only [this, if_true]
    have hp := powerOn_from_off { setSt (shutDownActions (disableNics n)) .off with resetting := false } rfl
    have hT : startTarget { setSt (shutDownActions (disableNics n)) .off with resetting := false } = startTarget n := rfl
    rw [hT] at hp
    obtain ⟨p1, p2, _, p4, p5, p6, p7⟩ := hp
    exact ⟨p1, p2, p7, p4, p5, p6⟩

/-- **boot_timing / instant.** `startup` on an OFF node answers success. With `start_up_duration = d > 0` the node is
BOOTING for every continuation containing at most `d` ticks (requests and frames in between change nothing), and the
`(d+1)`-th tick — the documented `range(d + 1)` — turns it ON. With `d <= 0` it is ON at once. -/
theorem C12_boot_timing {tbl : List Route} (hg : allGuarded tbl = true) (n : Node) (hst : n.st = .off) (sub : Sub)
    (hin : (tbl.find? (fun r => r.key == "startup")).isSome = true) :
    (request tbl n "startup" sub).2 = .success ∧
    (n.upDur ≤ 0 → (request tbl n "startup" sub).1.st = .on) ∧
    (0 < n.upDur →
      (request tbl n "startup" sub).1.st = .booting ∧
      (∀ ops, (ticksIn ops : Int) ≤ n.upDur → (run tbl (request tbl n "startup" sub).1 ops).st = .booting) ∧
      (∀ ops, (ticksIn ops : Int) = n.upDur →
        (step tbl (run tbl (request tbl n "startup" sub).1 ops) .tick).1.st = .on)) := by
  rw [request_accepted hg n "startup" sub hin (Or.inl ⟨rfl, hst⟩), handle_startup]
  obtain ⟨p1, _, p3, p4, _, _, _⟩ := powerOn_from_off n hst
  refine ⟨by rw [p3]; rfl, ?_, ?_⟩
  · intro hu; show (powerOn n).1.st = .on; rw [p1]; unfold startTarget; rw [if_pos hu]
  · intro hu
    have hb : (powerOn n).1.st = .booting := by rw [p1]; unfold startTarget; rw [if_neg (by omega)]
    have hcd := p4 hu
    refine ⟨hb, ?_, ?_⟩
    · intro ops hle
      have := (C12_boot_held hg (powerOn n).1 hb ops (by rw [hcd]; exact hle)).1.1
      rw [this, hb]
    · intro ops heq
      obtain ⟨hf, hc⟩ := C12_boot_held hg (powerOn n).1 hb ops (by rw [hcd]; omega)
      exact (tick_booting_zero _ (by rw [hf.1, hb]) (by rw [hc, hcd]; omega)).1

/-- **shutdown_timing / instant.** `shutdown` on an ON node answers success. With `shut_down_duration = d > 0` the node
is SHUTTING_DOWN for every continuation containing at most `d` ticks and the `(d+1)`-th tick turns it OFF
(no reset pending). With `d <= 0` it is OFF at once. -/
theorem C12_shutdown_timing {tbl : List Route} (hg : allGuarded tbl = true) (n : Node) (hst : n.st = .on) (sub : Sub)
    (hr : n.resetting = false) (hin : (tbl.find? (fun r => r.key == "shutdown")).isSome = true) :
    (request tbl n "shutdown" sub).2 = .success ∧
    (n.downDur ≤ 0 → (request tbl n "shutdown" sub).1.st = .off) ∧
    (0 < n.downDur →
      (request tbl n "shutdown" sub).1.st = .shuttingDown ∧
      (∀ ops, (ticksIn ops : Int) ≤ n.downDur → (run tbl (request tbl n "shutdown" sub).1 ops).st = .shuttingDown) ∧
      (∀ ops, (ticksIn ops : Int) = n.downDur →
        (step tbl (run tbl (request tbl n "shutdown" sub).1 ops) .tick).1.st = .off)) := by
  rw [request_accepted hg n "shutdown" sub hin (Or.inr ⟨by decide, hst⟩), handle_shutdown]
  refine ⟨?_, ?_, ?_⟩
  · by_cases hd : n.downDur ≤ 0
    · rw [(powerOff_instant n hd).1]; rfl
    · rw [(powerOff_timed n hst (by omega)).2.2.2.2.2.2]; rfl
  · intro hd; exact ((powerOff_instant n hd).2.1 hr).1
  · intro hd
    obtain ⟨q1, q2, _, q4, _, _, _⟩ := powerOff_timed n hst hd
    refine ⟨q1, ?_, ?_⟩
    · intro ops hle
      have := (C12_shutdown_held hg (powerOff n).1 q1 ops (by rw [q2]; exact hle)).1.1
      rw [this, q1]
    · intro ops heq
      obtain ⟨hf, hc⟩ := C12_shutdown_held hg (powerOff n).1 q1 ops (by rw [q2]; omega)
      exact ((tick_shutting_zero _ (by rw [hf.1, q1]) (by rw [hc, q2]; omega)).1 (by rw [hf.2.2.2.2.2.1, q4, hr])).1

/-- **reset_is_off_then_on.** `reset` on an ON node answers success and is a shutdown followed by an automatic start:
* `shut_down_duration <= 0`: within the request the node is assigned OFF and then its start target (BOOTING, or ON when
  `start_up_duration <= 0`), the pending-reset flag is cleared and the boot countdown is armed;
* `shut_down_duration = d > 0`: the node is SHUTTING_DOWN with the flag set for every continuation containing at most `d`
  ticks; the `(d+1)`-th tick assigns OFF and then the start target, clears the flag and arms the boot countdown.
In both cases `C12_boot_held` / `tick_booting_zero` then give the boot timing. -/
theorem C12_reset_is_off_then_on {tbl : List Route} (hg : allGuarded tbl = true) (n : Node) (hst : n.st = .on) (sub : Sub)
    (hin : (tbl.find? (fun r => r.key == "reset")).isSome = true) :
    (request tbl n "reset" sub).2 = .success ∧
    (n.downDur ≤ 0 →
      (request tbl n "reset" sub).1.st = startTarget n ∧
      (request tbl n "reset" sub).1.hist = startTarget n :: .off :: n.hist ∧
      (request tbl n "reset" sub).1.resetting = false ∧
      (0 < n.upDur → (request tbl n "reset" sub).1.upCd = n.upDur)) ∧
    (0 < n.downDur →
      (request tbl n "reset" sub).1.st = .shuttingDown ∧ (request tbl n "reset" sub).1.resetting = true ∧
      (∀ ops, (ticksIn ops : Int) ≤ n.downDur →
        (run tbl (request tbl n "reset" sub).1 ops).st = .shuttingDown ∧
        (run tbl (request tbl n "reset" sub).1 ops).resetting = true) ∧
      (∀ ops, (ticksIn ops : Int) = n.downDur →
        let m := (step tbl (run tbl (request tbl n "reset" sub).1 ops) .tick).1
        m.st = startTarget n ∧ m.hist = startTarget n :: .off :: .shuttingDown :: n.hist ∧ m.resetting = false ∧
        (0 < n.upDur → m.upCd = n.upDur))) := by
  rw [request_accepted hg n "reset" sub hin (Or.inr ⟨by decide, hst⟩), handle_reset]
  refine ⟨rfl, ?_, ?_⟩
  · intro hd
    obtain ⟨r1, r2, r3, r4, _, _⟩ := (powerOff_instant { n with resetting := true } hd).2.2 rfl
    exact ⟨r1, r2, r3, r4⟩
  · intro hd
    obtain ⟨q1, q2, q3, q4, q5, _, _⟩ := powerOff_timed { n with resetting := true } hst hd
    have hq1 : (reset n).1.st = .shuttingDown := q1
    have hq2 : (reset n).1.downCd = n.downDur := q2
    have hq3 : (reset n).1.hist = .shuttingDown :: n.hist := q3
    have hq4 : (reset n).1.resetting = true := q4
    have hq5 : (reset n).1.upDur = n.upDur := q5
    refine ⟨hq1, hq4, ?_, ?_⟩
    · intro ops hle
      obtain ⟨hf, _⟩ := C12_shutdown_held hg (reset n).1 hq1 ops (by rw [hq2]; exact hle)
      exact ⟨by rw [hf.1]; exact hq1, by rw [hf.2.2.2.2.2.1]; exact hq4⟩
    · intro ops heq
      obtain ⟨hf, hc⟩ := C12_shutdown_held hg (reset n).1 hq1 ops (by rw [hq2]; omega)
      have hz := (tick_shutting_zero (run tbl (reset n).1 ops) (by rw [hf.1]; exact hq1)
        (by rw [hc, hq2]; omega)).2 (by rw [hf.2.2.2.2.2.1]; exact hq4)
      have hT : startTarget (run tbl (reset n).1 ops) = startTarget n := by
        unfold startTarget; rw [hf.2.2.2.2.2.2.1, hq5]
      rw [hT] at hz
      obtain ⟨z1, z2, z3, z4⟩ := hz
      refine ⟨z1, ?_, z3, ?_⟩
      · show (tick (run tbl (reset n).1 ops)).hist = _
        rw [z2, hf.2.1, hq3]
      · intro hu
        have := z4 (by rw [hf.2.2.2.2.2.2.1, hq5]; exact hu)
        show (tick (run tbl (reset n).1 ops)).upCd = _
        rw [this, hf.2.2.2.2.2.2.1, hq5]

/-! ### once OFF, nothing is running -/

def NoRunning (n : Node) : Prop := (∀ s ∈ n.svcs, s.st ≠ .running) ∧ (∀ a ∈ n.apps, a.st ≠ .running)

/-- the invariant of the property statement -/
def OffInv (n : Node) : Prop := n.st = .off → NoRunning n

theorem stop_not_running (s : Service) : s.stop.1.st ≠ .running := by
  unfold Service.stop
  split
  · simp
  · rename_i h; intro hr; exact h (Or.inl hr)

theorem close_not_running (a : App) : a.close.1.st ≠ .running := by
  unfold App.close
  split
  · simp
  · assumption

theorem shutDownActions_noRunning (n : Node) : NoRunning (shutDownActions n) := by
  constructor
  · intro s hs
    simp only [shutDownActions, List.mem_map] at hs
    obtain ⟨s0, _, rfl⟩ := hs
    exact stop_not_running s0
  · intro a ha
    simp only [shutDownActions, List.mem_map] at ha
    obtain ⟨a0, _, rfl⟩ := ha
    exact close_not_running a0

/-- `power_on` never leaves a node OFF -/
theorem powerOn_not_off (n : Node) : (powerOn n).1.st ≠ .off := by
  intro hoff
  unfold powerOn at hoff
  split at hoff
  · cases hoff
  · split at hoff
    · cases hoff
    · rename_i hne; exact absurd hoff hne

theorem powerOn_offInv (n : Node) : OffInv (powerOn n).1 := fun hoff => absurd hoff (powerOn_not_off n)

theorem powerOff_offInv (n : Node) (h : OffInv n) : OffInv (powerOff n).1 := by
  unfold powerOff
  split
  · dsimp only
    split
    · exact powerOn_offInv _
    · exact fun _ => shutDownActions_noRunning (disableNics n)
  · split
    · intro hoff; cases hoff
    · exact h

theorem tick_offInv (n : Node) (h : OffInv n) : OffInv (tick n) := by
  have h1 : OffInv (tickUp n) := by
    unfold tickUp
    split
    · exact h
    · split
      · intro hoff; cases hoff
      · exact h
  have h2 : OffInv (tickDown (tickUp n)) := by
    unfold tickDown
    split
    · exact h1
    · split
      · dsimp only
        split
        · exact powerOn_offInv _
        · exact fun _ => shutDownActions_noRunning (setSt (tickUp n) .off)
      · exact h1
  unfold tick tickSoftware
  split
  · rename_i hon; intro hoff; rw [hon] at hoff; cases hoff
  · exact h2

theorem request_offInv {tbl : List Route} (hg : allGuarded tbl = true) (n : Node) (key : String) (sub : Sub)
    (h : OffInv n) : OffInv (request tbl n key sub).1 := by
  rcases request_cases hg n key sub with ⟨e, _⟩ | ⟨e, _⟩ | ⟨e, hc⟩
  · rw [e]; exact h
  · rw [e]; exact h
  · rw [e]
    rcases hc with ⟨hk, _⟩ | ⟨hk, hst⟩
    · subst hk; rw [handle_startup]; exact powerOn_offInv n
    · by_cases h1 : key = "shutdown"
      · subst h1; rw [handle_shutdown]; exact powerOff_offInv n h
      · by_cases h3 : key = "reset"
        · subst h3; rw [handle_reset]
          exact powerOff_offInv { n with resetting := true } h
        · have := (handle_other_same n key sub h1 hk h3).1
          intro hoff; rw [this, hst] at hoff; cases hoff

/-- **off_nothing_running.** Under a guarded table, along every sequence of requests, ticks and frames: whenever the
node is OFF, no service is RUNNING and no application is RUNNING. (The guard matters: `Service.resume` does not test the
node; it is the node-is-on validator of the `service` route that keeps a paused service from being resumed on an OFF node.) -/
theorem C12_off_nothing_running {tbl : List Route} (hg : allGuarded tbl = true) (n : Node) (ops : List Op)
    (h : OffInv n) : OffInv (run tbl n ops) := by
  induction ops generalizing n with
  | nil => exact h
  | cons op ops ih =>
    apply ih
    cases op with
    | request key sub => exact request_offInv hg n key sub h
    | tick => exact tick_offInv n h
    | frameIn i => exact h
    | frameOut i => exact h

/-- **software_idle_when_not_on.** On a node that is not ON: `start()` and `run()` do nothing, and
`_can_perform_action` (the first test of `send`/`receive`, see `C12_gen_software_guards`) is false for every service
and application, whatever their own state. -/
theorem C12_software_idle_when_not_on (n : Node) (hne : n.st ≠ .on) (s : Service) (a : App) :
    s.start n.isOn = (s, false) ∧ a.run n.isOn = a ∧ s.canPerform n.isOn = false ∧ a.canPerform n.isOn = false := by
  have : n.isOn = false := by simp [Node.isOn, hne]
  rw [this]
  exact ⟨rfl, rfl, rfl, rfl⟩

/-- software time stands still while the node is not ON (restart / install countdowns are suspended) -/
theorem C12_software_suspended_when_not_on (n : Node) (hne : (tickDown (tickUp n)).st ≠ .on) :
    (tick n).svcs = (tickDown (tickUp n)).svcs ∧ (tick n).apps = (tickDown (tickUp n)).apps := by
  unfold tick; rw [tickSoftware_notOn _ hne]; exact ⟨rfl, rfl⟩

/-! ### coming back ON -/

/-- every linked interface enabled, no service STOPPED, no application CLOSED -/
def AllUp (n : Node) : Prop :=
  (∀ c ∈ n.nics, c.linked = true → c.enabled = true) ∧ (∀ s ∈ n.svcs, s.st ≠ .stopped) ∧ (∀ a ∈ n.apps, a.st ≠ .closed)

theorem nicEnable_true (c : Nic) : c.linked = true → (Nic.enable true c).enabled = true := by
  intro hl
  unfold Nic.enable
  by_cases he : c.enabled = true
  · simp [he]
  · simp [he, hl]

theorem start_not_stopped (s : Service) : (s.start true).1.st ≠ .stopped := by
  unfold Service.start nodeAllows
  by_cases h : s.st = .stopped <;> simp [h]

theorem run_not_closed (a : App) : (a.run true).st ≠ .closed := by
  unfold App.run nodeAllows
  by_cases h : a.st = .closed <;> simp [h]

/-- the three statements executed wherever the code assigns ON (in either order) bring everything up -/
theorem allUp_on (n : Node) :
    AllUp (enableNics (startUpActions (setSt n .on))) ∧ AllUp (startUpActions (enableNics (setSt n .on))) := by
  have hn : ∀ c ∈ n.nics.map (Nic.enable true), c.linked = true → c.enabled = true := by
    intro c hc hl
    simp only [List.mem_map] at hc
    obtain ⟨c0, _, rfl⟩ := hc
    have hl0 : c0.linked = true := by
      unfold Nic.enable at hl
      split at hl
      · exact hl
      · split at hl
        · exact hl
        · split at hl <;> exact hl
    exact nicEnable_true c0 hl0
  have hs : ∀ s ∈ n.svcs.map (fun s => (s.start true).1), s.st ≠ .stopped := by
    intro s hs
    simp only [List.mem_map] at hs
    obtain ⟨s0, _, rfl⟩ := hs
    exact start_not_stopped s0
  have ha : ∀ a ∈ n.apps.map (App.run true), a.st ≠ .closed := by
    intro a ha
    simp only [List.mem_map] at ha
    obtain ⟨a0, _, rfl⟩ := ha
    exact run_not_closed a0
  exact ⟨⟨hn, hs, ha⟩, ⟨hn, hs, ha⟩⟩

theorem svcTick_not_stopped (s : Service) (h : s.st ≠ .stopped) : s.tick.st ≠ .stopped := by
  unfold Service.tick
  split
  · dsimp only; split <;> simp
  · exact h

theorem appTick_not_closed (a : App) (h : a.st ≠ .closed) : a.tick.st ≠ .closed := by
  unfold App.tick
  split
  · split
    · simp
    · exact h
  · exact h

theorem tickSoftware_allUp (n : Node) (h : AllUp n) : AllUp (tickSoftware n) := by
  unfold tickSoftware
  split
  · refine ⟨h.1, ?_, ?_⟩
    · intro s hs
      simp only [List.mem_map] at hs
      obtain ⟨s0, hs0, rfl⟩ := hs
      exact svcTick_not_stopped s0 (h.2.1 s0 hs0)
    · intro a ha
      simp only [List.mem_map] at ha
      obtain ⟨a0, ha0, rfl⟩ := ha
      exact appTick_not_closed a0 (h.2.2 a0 ha0)
  · exact h

/-- `power_on`: if it assigned anything and the node is ON afterwards, everything is up -/
theorem powerOn_allUp (n : Node) (hon : (powerOn n).1.st = .on) (hh : (powerOn n).1.hist ≠ n.hist) :
    AllUp (powerOn n).1 := by
  unfold powerOn at hon hh ⊢
  split
  · exact (allUp_on n).1
  · rename_i hu
    rw [if_neg hu] at hon hh
    split
    · rename_i hoff; rw [if_pos hoff] at hon; cases hon
    · rename_i hoff; rw [if_neg hoff] at hh; exact absurd rfl hh

theorem powerOff_allUp (n : Node) (hon : (powerOff n).1.st = .on) (hh : (powerOff n).1.hist ≠ n.hist) :
    AllUp (powerOff n).1 := by
  unfold powerOff at hon hh ⊢
  split
  · rename_i hd
    rw [if_pos hd] at hon hh
    dsimp only at hon hh ⊢
    split
    · rename_i hr
      rw [if_pos hr] at hon hh
      apply powerOn_allUp _ hon
      intro heq
      have hb := powerOn_from_off { setSt (shutDownActions (disableNics n)) .off with resetting := false } rfl
      rw [hb.2.1] at heq
      exact absurd (congrArg List.length heq) (by simp [setSt])
    · rename_i hr; rw [if_neg hr] at hon; cases hon
  · rename_i hd
    rw [if_neg hd] at hon hh
    split
    · rename_i hst; rw [if_pos hst] at hon; cases hon
    · rename_i hst; rw [if_neg hst] at hh; exact absurd rfl hh

theorem tick_allUp (n : Node) (hon : (tick n).st = .on) (hh : (tick n).hist ≠ n.hist) : AllUp (tick n) := by
  unfold tick at hon hh ⊢
  have hs := tickSoftware_same (tickDown (tickUp n))
  rw [hs.1] at hon
  rw [hs.2.1] at hh
  apply tickSoftware_allUp
  -- which block assigned?
  unfold tickUp at hon hh ⊢
  split
  · -- countdown still running in the first block: the second block must have assigned
    rename_i hc
    rw [if_pos hc] at hon hh
    unfold tickDown at hon hh ⊢
    split
    · rename_i hd; rw [if_pos hd] at hh; exact absurd rfl hh
    · rename_i hd
      rw [if_neg hd] at hon hh
      split
      · rename_i hsd
        rw [if_pos hsd] at hon hh
        dsimp only at hon hh ⊢
        split
        · rename_i hr
          rw [if_pos hr] at hon hh
          exact powerOn_allUp _ hon (by
            intro heq
            have hb := powerOn_from_off { shutDownActions (setSt { n with upCd := n.upCd - 1 } .off) with resetting := false } rfl
            rw [hb.2.1] at heq
            exact absurd (congrArg List.length heq) (by simp [setSt, shutDownActions]))
        · rename_i hr; rw [if_neg hr] at hon; cases hon
      · rename_i hsd; rw [if_neg hsd] at hh; exact absurd rfl hh
  · rename_i hc
    rw [if_neg hc] at hon hh
    split
    · -- BOOTING -> ON in the first block; the second block finds an ON node and assigns nothing
      have hall := (allUp_on n).2
      unfold tickDown
      split
      · exact hall
      · rw [if_neg (by show PState.on ≠ .shuttingDown; decide)]
        exact hall
    · rename_i hb
      rw [if_neg hb] at hon hh
      unfold tickDown at hon hh ⊢
      split
      · rename_i hd; rw [if_pos hd] at hh; exact absurd rfl hh
      · rename_i hd
        rw [if_neg hd] at hon hh
        split
        · rename_i hsd
          rw [if_pos hsd] at hon hh
          dsimp only at hon hh ⊢
          split
          · rename_i hr
            rw [if_pos hr] at hon hh
            exact powerOn_allUp _ hon (by
              intro heq
              have hb := powerOn_from_off { shutDownActions (setSt n .off) with resetting := false } rfl
              rw [hb.2.1] at heq
              exact absurd (congrArg List.length heq) (by simp [setSt, shutDownActions]))
          · rename_i hr; rw [if_neg hr] at hon; cases hon
        · rename_i hsd; rw [if_neg hsd] at hh; exact absurd rfl hh

/-- **back_on.** Whenever an operation assigns `operating_state` and leaves the node ON — a start-up request with
duration 0, the tick that ends BOOTING, the tick or request that completes a reset with `start_up_duration = 0` —
every linked interface is enabled, no service is left STOPPED and no application is left CLOSED. -/
theorem C12_back_on {tbl : List Route} (hg : allGuarded tbl = true) (n : Node) (op : Op)
    (hon : (step tbl n op).1.st = .on) (hh : (step tbl n op).1.hist ≠ n.hist) : AllUp (step tbl n op).1 := by
  cases op with
  | tick => exact tick_allUp n hon hh
  | frameIn i => exact absurd rfl hh
  | frameOut i => exact absurd rfl hh
  | request key sub =>
    show AllUp (request tbl n key sub).1
    have hon' : (request tbl n key sub).1.st = .on := hon
    have hh' : (request tbl n key sub).1.hist ≠ n.hist := hh
    rcases request_cases hg n key sub with ⟨e, _⟩ | ⟨e, _⟩ | ⟨e, hc⟩
    · rw [e] at hh'; exact absurd rfl hh'
    · rw [e] at hh'; exact absurd rfl hh'
    · rw [e] at hon' hh' ⊢
      by_cases h2 : key = "startup"
      · subst h2; rw [handle_startup] at hon' hh' ⊢; exact powerOn_allUp n hon' hh'
      · by_cases h1 : key = "shutdown"
        · subst h1; rw [handle_shutdown] at hon' hh' ⊢; exact powerOff_allUp n hon' hh'
        · by_cases h3 : key = "reset"
          · subst h3; rw [handle_reset] at hon' hh' ⊢
            exact powerOff_allUp { n with resetting := true } hon' hh'
          · exact absurd (handle_other_same n key sub h1 h2 h3).2.1 hh'

/-- power events never touch a DISABLED service: it stays DISABLED through shutdown and start-up -/
theorem C12_disabled_stays_disabled (s : Service) (h : s.st = .disabled) (nodeOn : Bool) :
    s.stop.1.st = .disabled ∧ (s.start nodeOn).1.st = .disabled ∧ s.tick.st = .disabled := by
  refine ⟨?_, ?_, ?_⟩
  · unfold Service.stop; simp [h]
  · unfold Service.start; cases nodeOn <;> simp [h, nodeAllows]
  · unfold Service.tick; simp [h]

/-! ### non-vacuity: concrete nodes meeting the hypotheses, and the documented timing on them -/

def exOn : Node :=
  { st := .on, upDur := 2, downDur := 3, nics := [⟨true, true, .ipWired⟩, ⟨false, false, .wired⟩],
    svcs := [⟨.running, 0, 5⟩, ⟨.paused, 0, 5⟩, ⟨.disabled, 0, 5⟩, ⟨.restarting, 1, 5⟩], apps := [⟨.running, 0, 2⟩, ⟨.installing, 1, 2⟩] }
def exOff : Node :=
  { st := .off, upDur := 2, downDur := 3, nics := [⟨false, true, .ipWired⟩, ⟨false, false, .wired⟩],
    svcs := [⟨.stopped, 0, 5⟩, ⟨.disabled, 0, 5⟩], apps := [⟨.closed, 0, 2⟩] }
def shutdownOp : Op := .request "shutdown" (.opaque .success)
def startupOp : Op := .request "startup" (.opaque .success)
def resetOp : Op := .request "reset" (.opaque .success)

example : allGuarded baseRoutes = true := by decide
example : NicInv exOn ∧ NicInv exOff := by unfold NicInv NicsOff; decide
example : OffInv exOn ∧ OffInv exOff := by unfold OffInv NoRunning; decide
example : exOn.hist = [] ∧ exOff.st = .off ∧ 0 < exOff.upDur ∧ exOn.st = .on ∧ 0 < exOn.downDur ∧ exOn.resetting = false := by decide
example : (baseRoutes.find? (fun r => r.key == "startup")).isSome = true := by decide
/-- `range(d + 1)`: start-up duration 2 → BOOTING after the request and after ticks 1 and 2, ON after tick 3 -/
example : ((run baseRoutes exOff [startupOp]).st, (run baseRoutes exOff [startupOp, .tick, .tick]).st,
    (run baseRoutes exOff [startupOp, .tick, .tick, .tick]).st) = (.booting, .booting, .on) := by decide
/-- shut-down duration 3 → SHUTTING_DOWN through tick 3, OFF after tick 4; interfaces disabled from the request on;
services keep their state until OFF is reached -/
example : ((run baseRoutes exOn [shutdownOp, .tick, .tick, .tick]).st, (run baseRoutes exOn [shutdownOp, .tick, .tick, .tick, .tick]).st,
    (run baseRoutes exOn [shutdownOp]).nics.map (·.enabled),
    (run baseRoutes exOn [shutdownOp, .tick]).svcs.map (·.st),
    (run baseRoutes exOn [shutdownOp, .tick, .tick, .tick, .tick]).svcs.map (·.st)) =
    (.shuttingDown, .off, [false, false], [.running, .paused, .disabled, .restarting],
     [.stopped, .stopped, .disabled, .restarting]) := by decide
/-- reset = 4 ticks down, then (same tick) OFF→BOOTING, 3 more ticks up; the whole micro-trace -/
example : (run baseRoutes exOn [resetOp, .tick, .tick, .tick, .tick, .tick, .tick, .tick]).hist =
    [.on, .booting, .off, .shuttingDown] := by decide
/-- back ON: linked interface up, RUNNING/PAUSED→STOPPED→RUNNING, DISABLED stays, the unlinked interface stays down;
the software clock resumes in the tick that reaches ON (the pending install completes) -/
example : let n := run baseRoutes exOn [resetOp, .tick, .tick, .tick, .tick, .tick, .tick, .tick]
    (n.nics.map (·.enabled), n.svcs.map (·.st), n.apps.map (·.st)) =
    ([true, false], [.running, .running, .disabled, .restarting], [.running, .running]) := by decide
/-- requests in a transitional state are refused; a misspelt key is unreachable -/
example : ((step baseRoutes (run baseRoutes exOff [startupOp]) startupOp).2,
    (step baseRoutes (run baseRoutes exOff [startupOp]) (.request "service" (.svc 0 .start))).2,
    (step baseRoutes (run baseRoutes exOff [startupOp]) (.request "power_on" (.opaque .success))).2) =
    (.resp .failure, .resp .failure, .resp .unreachable) := by decide

/-! ### the unrepaired code: F-14, F-20, F-21 as counterexamples (kept so that the defects stay documented) -/

/-- `Node.power_off` as it was before the two `fix:` commits: the instant branch neither disabled the interfaces nor
looked at `is_resetting` -/
def powerOffOld (n : Node) : Node × Bool :=
  if n.downDur ≤ 0 then (setSt (shutDownActions n) .off, true)
  else if n.st = .on then ({ setSt (disableNics n) .shuttingDown with downCd := n.downDur }, true)
  else (n, false)

def exInstant : Node := { exOn with upDur := 0, downDur := 0 }

/-- F-14: with `shut_down_duration = 0` the old `power_off` produced an OFF node with an enabled interface -/
theorem C12_F14_counterexample : NicInv exInstant ∧ ¬ NicInv (powerOffOld exInstant).1 := by
  unfold NicInv NicsOff; decide

/-- the repaired function does not -/
example : NicInv (powerOff exInstant).1 := powerOff_nicInv _ (by unfold NicInv NicsOff; decide)

theorem tick_off (n : Node) (h : n.st = .off) : (tick n).st = .off ∧ (tick n).resetting = n.resetting := by
  have h1 : (tickUp n).st = .off ∧ (tickUp n).resetting = n.resetting := by
    unfold tickUp
    split
    · exact ⟨h, rfl⟩
    · rw [if_neg (by rw [h]; decide)]; exact ⟨h, rfl⟩
  have h2 : (tickDown (tickUp n)).st = .off ∧ (tickDown (tickUp n)).resetting = n.resetting := by
    unfold tickDown
    split
    · exact h1
    · rw [if_neg (by rw [h1.1]; decide)]; exact h1
  unfold tick
  rw [tickSoftware_notOn _ (by rw [h2.1]; decide)]
  exact h2

/-- `k` ticks in a row -/
def ticks : Nat → Node → Node
  | 0, n => n
  | k + 1, n => ticks k (tick n)

theorem ticks_off (k : Nat) (n : Node) (h : n.st = .off) :
    (ticks k n).st = .off ∧ (ticks k n).resetting = n.resetting := by
  induction k generalizing n with
  | zero => exact ⟨h, rfl⟩
  | succ k ih =>
    have := ih (tick n) (tick_off n h).1
    exact ⟨this.1, this.2.trans (tick_off n h).2⟩

/-- F-20: with `shut_down_duration = 0` the old `reset` left the node OFF with `is_resetting` set, and no number of
ticks ever started it again -/
theorem C12_F20_counterexample :
    let n := (powerOffOld { exInstant with resetting := true }).1
    n.st = .off ∧ n.resetting = true ∧ ∀ k, (ticks k n).st = .off ∧ (ticks k n).resetting = true := by
  refine ⟨by decide, by decide, fun k => ?_⟩
  exact ticks_off k _ (by decide)

/-- the repaired one passes OFF and is ON again within the request -/
example : (reset exInstant).1.st = .on ∧ (reset exInstant).1.hist = [.on, .off] ∧ (reset exInstant).1.resetting = false := by
  decide

/-- F-21: the route tables of routers and firewalls as they were (no validator on the ACL routes) -/
def oldRouterRoutes : List Route := baseRoutes ++ [⟨"acl", .none⟩]
def oldFirewallRoutes : List Route := oldRouterRoutes ++ [⟨"internal", .none⟩, ⟨"dmz", .none⟩, ⟨"external", .none⟩]

theorem C12_F21_counterexample :
    allGuarded oldRouterRoutes = false ∧ allGuarded oldFirewallRoutes = false ∧
    request oldRouterRoutes exOff "acl" (.opaque .success) = (exOff, .success) ∧
    request oldFirewallRoutes exOff "dmz" (.opaque .success) = (exOff, .success) := by decide

/-! ### outside requests: the Python API -/

/-- `power_on()` / `power_off()` called directly (not through a request) are *not* guarded by the state when the
duration is 0: from SHUTTING_DOWN, `power_on()` jumps to ON. The property quantifies over requests, whose validators
exclude this; the fact is recorded because `Network.setup_for_episode` and `Firewall.__init__` call `power_on()` directly. -/
theorem C12_api_power_on_unguarded :
    (powerOn { exInstant with st := .shuttingDown }).1.st = .on ∧ edge 0 0 .shuttingDown .on = false := by decide

end Primaite.Power

/-! ### tie to the regenerated tables (Gen/Power.lean is rewritten from the source on every run) -/
namespace Primaite.Power
open Primaite.Gen.Power

/-- the node classes the property names (plus `host-node` and `printer`): every instantiable class below `Node` that
declares a discriminator (see `C12_gen_class_inventory`), each with its regenerated node-level route table -/
theorem C12_gen_classes :
    classTables.map (·.1) =
      ["host-node", "computer", "printer", "server", "router", "switch", "firewall", "wireless-router"] := by
  decide

/-- **the regenerated table obligation**: in every node class every node-level route carries the node-is-on
validator, except `startup`, which carries node-is-off. (F-21: on the unrepaired tree the `acl` route of routers and the
`internal`/`dmz`/`external` routes of firewalls carry none, and this does not check.) -/
theorem C12_gen_routes_guarded : classTables.all (fun c => allGuarded c.2) = true := by decide

/-- every class has the three power routes and the keys of a table are distinct (so `find?` = dict lookup) -/
theorem C12_gen_routes_wellformed :
    classTables.all (fun c =>
      ["shutdown", "startup", "reset", "service", "application", "network_interface"].all (fun k => (c.2.map (·.key)).contains k)
      && decide ((c.2.map (·.key)).Nodup)) = true := by decide

/-- **the two node validators, by meaning.** The extractor translates `_NodeIsOnValidator.__call__` and
`_NodeIsOffValidator.__call__` (comparisons with enum members, `in`, `not`, `and`/`or`, `super().__call__`) into predicates
over the power state; they are exactly the model's `guardOk`: node-is-on holds in ON only, node-is-off in OFF only — in
particular NOT in BOOTING or SHUTTING_DOWN (seeded C05-d turns node-is-off into `not node-is-on`; any respelling with the
same meaning passes). -/
theorem C12_gen_validators (s : PState) :
    nodeIsOnPred s = guardOk .nodeOn { st := s } ∧ nodeIsOffPred s = guardOk .nodeOff { st := s } := by
  cases s <;> decide

/-- enum values and schema defaults the docs quote -/
theorem C12_gen_constants :
    stateValues = [("ON", 1), ("OFF", 2), ("BOOTING", 3), ("SHUTTING_DOWN", 4)] ∧
    defaultUpDur = 3 ∧ defaultDownDur = 3 ∧ defaultUpCd = 0 ∧ defaultDownCd = 0 ∧ defaultResetting = false := by decide

/- `C12_gen_shapes` (a string pin of the statement shape of the four power methods, rounds 1–6) is replaced by a tie BY
MEANING: the bodies are translated statement by statement (`Gen/PowerProg.lean`) and proved equal to `powerOn` / `powerOff` /
`reset` / `tickDown ∘ tickUp` / the actions for every node — `Props/C12Prog.lean`, `C12_gen_power_on_sem` etc. -/

/-- interfaces: every receive/send entry point starts with the `enabled` test (that `enable()` refuses when the node is not
ON is no longer a pinned guard list: the bodies are translated, `C12_gen_interface_enable_sem` in Props/C12Prog.lean) -/
theorem C12_gen_interfaces :
    nicEntryGuarded.all (·.2) = true ∧ nicEntryGuarded.length = 8 := by decide

/-- software: `_can_perform_action` tests the node, and `start`/`run`/`send`/`receive` begin with it -/
theorem C12_gen_software_guards :
    canPerformActionTestsNodeOn = true ∧ serviceStartGuarded = true ∧ applicationRunGuarded = true ∧
    softwareSendGuarded = true ∧ softwareReceiveGuarded = true := by decide

/-- so every theorem above that assumes `allGuarded tbl` applies to the regenerated table of every node class -/
theorem C12_all_classes_guarded (cls : String) (tbl : List Route) (hc : (cls, tbl) ∈ classTables) :
    allGuarded tbl = true :=
  List.all_eq_true.mp C12_gen_routes_guarded (cls, tbl) hc

/-- hence, for every node class of the code: refused unless start-up -/
theorem C12_refused_unless_startup_all_classes (cls : String) (tbl : List Route) (hc : (cls, tbl) ∈ classTables)
    (n : Node) (hne : n.st ≠ .on) (key : String) (sub : Sub) (hk : key ≠ "startup") :
    request tbl n key sub = (n, if (tbl.find? (fun r => r.key == key)).isSome then .failure else .unreachable) := by
  have := List.all_eq_true.mp C12_gen_routes_guarded (cls, tbl) hc
  exact C12_refused_unless_startup this n hne key sub hk


/-! ### routes registered at RUN TIME (an application installed during the episode, a service installed by the software
manager, an interface connected later) hang under a node-level edge that carries the node-is-on validator -/

/-- the regenerated list of every `add_request` that runs after construction: each goes into a manager that
`Node._init_request_manager` wires under the node's own manager by an edge with the node-is-on validator, never into the node's
own manager (the extractor refuses that), and that edge is no `startup` -/
theorem C12_gen_runtime_routes_guarded :
    runtimeRouteSites.all (fun s => s.2.2.2 == .nodeOn && s.2.2.1 != "startup") = true ∧
    runtimeRouteSites.any (fun s => s.1 == "Node._init_request_manager._install_application") = true ∧
    runtimeRouteSites.any (fun s => s.1 == "SoftwareManager.install" && s.2.2.1 == "application") = true ∧
    -- the edge named is the edge of the class tables, in every node class
    runtimeRouteSites.all (fun s => classTables.all (fun c => c.2.contains ⟨s.2.2.1, .nodeOn⟩)) = true := by decide

/-- **hence whatever was registered at run time, and whatever is sent below it (`sub` is arbitrary: any application name, any
verb, any arguments), a node that is not ON refuses it and nothing changes** — for every node class of the code -/
theorem C12_runtime_routes_refused (cls : String) (tbl : List Route) (hc : (cls, tbl) ∈ classTables)
    (s : String × String × String × Guard) (hs : s ∈ runtimeRouteSites) (n : Node) (hne : n.st ≠ .on) (sub : Sub) :
    request tbl n s.2.2.1 sub = (n, .failure) := by
  have hall := List.all_eq_true.mp C12_gen_runtime_routes_guarded.1 s hs
  have hk : s.2.2.1 ≠ "startup" := by
    intro h; simp [h] at hall
  have hin : tbl.contains ⟨s.2.2.1, .nodeOn⟩ = true :=
    List.all_eq_true.mp (List.all_eq_true.mp C12_gen_runtime_routes_guarded.2.2.2 s hs) (cls, tbl) hc
  have hmem : (⟨s.2.2.1, .nodeOn⟩ : Route) ∈ tbl := by simpa using hin
  have hsome : (tbl.find? (fun r => r.key == s.2.2.1)).isSome = true := by
    rw [List.find?_isSome]; exact ⟨_, hmem, by simp⟩
  rw [C12_refused_unless_startup_all_classes cls tbl hc n hne s.2.2.1 sub hk, hsome]; rfl

end Primaite.Power
