/-
C07, readers of a rule: `ACLRule.describe_state()` and the row cells of `AccessControlList.show()`, translated from the current
source (Gen/AclDescribe.lean, regenerated on every run).

* `C07_gen_describe_rule`: `describe_state()` of a rule reports EXACTLY the rule — every field, the counter, port 0 as port 0
  (so `describe_state()["acl"]`, which observations and this check read, is a faithful picture of the slots);
* `C07_gen_show_cells`: a row of `show()` reports the rule except that a port 0 is displayed as ANY (a display quirk, the model's
  `showPortCell`), and nothing else is lost.
-/
import PrimaiteModel.Model.AclObj
import PrimaiteModel.Gen.AclDescribe
namespace Primaite.Acl
open Primaite.Gen.AclDescribe

theorem opt_keep {α} (o : Option α) : (if o.isSome then o else none) = o := by cases o <;> rfl

/-- TIE: `ACLRule.describe_state()` is the identity on the rule's fields (nothing dropped, nothing crossed). -/
theorem C07_gen_describe_rule (r : Rule) : describeRule r = r := by
  cases r; simp [describeRule, opt_keep]

/-- hence two rules with the same `describe_state()` are the same rule (the observable determines the slot) -/
theorem C07_describe_rule_faithful (r s : Rule) (h : describeRule r = describeRule s) : r = s := by
  rwa [C07_gen_describe_rule, C07_gen_describe_rule] at h

theorem port_cell (o : Option Nat) :
    (if (match o with | some n => decide (n ≠ 0) | none => false) then o else none) = showPortCell o := by
  cases o with
  | none => rfl
  | some n => cases n <;> simp [showPortCell]

/-- TIE: the cells of a `show()` row = the rule with its two port cells through `showPortCell` (port 0 shown as ANY). -/
theorem C07_gen_show_cells (r : Rule) :
    showCells r = { r with srcPort := showPortCell r.srcPort, dstPort := showPortCell r.dstPort } := by
  obtain ⟨a, p, si, sw, di, dw, sp, dp, h⟩ := r
  rcases sp with _ | _ | n <;> rcases dp with _ | _ | m <;> simp [showCells, opt_keep, showPortCell]

/-- the display quirk, concretely: a rule for port 0 is shown like a rule for any port, although it matches port 0 only -/
theorem C07_show_port_zero_example :
    let r : Rule := { action := .deny, proto := none, srcIp := none, srcWc := none, dstIp := none, dstWc := none, srcPort := some 0, dstPort := none }
    (showCells r).srcPort = none ∧ (describeRule r).srcPort = some 0 := by decide

end Primaite.Acl
