/-
C05 (dynamic part) — the tree edits performed as components come and go (`add_request` / `remove_request` at the dynamic
managers: install / uninstall of software, connect / disconnect of NICs, create / restore of folders and files, add / remove
of nodes) KEEP the instance relation `Inst` between the live tree and the schema for the edited inventory, add / remove
exactly the sub-tree of the component, and leave no dangling route.

General theorems (every schema, inventory, live tree): `Inst_frame`, `Inst_dynamic_add`, `Inst_dynamic_remove`,
`Inst_static_edit`, `C05_add_component_keeps_inst`, `C05_remove_component_keeps_inst`, `C05_edit_is_local`,
`C05_removed_route_unreachable`.  Table theorems over the regenerated schema: `C05_gen_dynamic_levels_framed` (the side
condition of the two composite theorems holds at every dynamic site), `C05_gen_every_add_has_remove_or_guard`.
-/
import PrimaiteModel.Props.C05Schema
namespace Primaite.Schema
open Primaite.Request
open Primaite.Gen.RequestSchema (schema)

/-! ### dictionary lemmas -/

theorem lookup_addKey_same (k : Key) (v : VId) (t : Tree) (kids : Kids) : lookup k (addKey k v t kids) = some (v, t) := by
  induction kids with
  | nil => simp [addKey, lookup]
  | cons e rest ih =>
    obtain ⟨k', v', t'⟩ := e
    by_cases h : k = k'
    · simp [addKey, lookup, h]
    · simp [addKey, lookup, h, ih]

theorem lookup_addKey_other {k k2 : Key} (h : k2 ≠ k) (v : VId) (t : Tree) (kids : Kids) :
    lookup k2 (addKey k v t kids) = lookup k2 kids := by
  induction kids with
  | nil => simp [addKey, lookup, h]
  | cons e rest ih =>
    obtain ⟨k', v', t'⟩ := e
    by_cases hk : k = k'
    · subst hk; simp [addKey, lookup, h]
    · by_cases h2 : k2 = k' <;> simp [addKey, lookup, hk, h2, ih]

theorem lookup_removeKey_same (k : Key) (kids : Kids) : lookup k (removeKey k kids) = none := by
  induction kids with
  | nil => simp [removeKey, lookup]
  | cons e rest ih =>
    obtain ⟨k', v', t'⟩ := e
    by_cases h : k = k'
    · simp [removeKey, h]; rw [← h]; exact ih
    · simp [removeKey, lookup, h, ih]

theorem lookup_removeKey_other {k k2 : Key} (h : k2 ≠ k) (kids : Kids) :
    lookup k2 (removeKey k kids) = lookup k2 kids := by
  induction kids with
  | nil => simp [removeKey]
  | cons e rest ih =>
    obtain ⟨k', v', t'⟩ := e
    by_cases hk : k = k'
    · subst hk; simp [removeKey, lookup, h, ih]
    · by_cases h2 : k2 = k' <;> simp [removeKey, lookup, hk, h2, ih]

theorem lookup_atKey_same {ks : Key} {kids : Kids} {v : VId} {sub : Kids} (f : Kids → Kids)
    (h : lookup ks kids = some (v, .node sub)) : lookup ks (atKey ks f kids) = some (v, .node (f sub)) := by
  induction kids with
  | nil => simp [lookup] at h
  | cons e rest ih =>
    obtain ⟨k', v', t'⟩ := e
    by_cases hk : ks = k'
    · subst hk
      simp only [lookup, if_true, Option.some.injEq, Prod.mk.injEq] at h
      obtain ⟨rfl, rfl⟩ := h
      simp [atKey, lookup]
    · simp only [lookup, hk, if_false] at h
      simp [atKey, lookup, hk, ih h]

theorem lookup_atKey_other {ks k2 : Key} (h : k2 ≠ ks) (f : Kids → Kids) (kids : Kids) :
    lookup k2 (atKey ks f kids) = lookup k2 kids := by
  induction kids with
  | nil => simp [atKey]
  | cons e rest ih =>
    obtain ⟨k', v', t'⟩ := e
    by_cases hk : ks = k'
    · subst hk
      cases t' <;> simp [atKey, lookup, h]
    · by_cases h2 : k2 = k' <;> simp [atKey, lookup, hk, h2, ih]

theorem findChild_addChildL_same (lv : Level) (k : Key) (c : String) (i : Inv) (cs : List (Level × Key × String × Inv)) :
    findChild lv k (addChildL lv k c i cs) = some (c, i) := by
  induction cs with
  | nil => simp [addChildL, findChild]
  | cons e rest ih =>
    obtain ⟨lv', k', c', i'⟩ := e
    by_cases h : lv = lv' ∧ k = k'
    · simp [addChildL, findChild, h]
    · simp [addChildL, findChild, h, ih]

theorem findChild_addChildL_other {lv lv2 : Level} {k k2 : Key} (h : ¬ (lv2 = lv ∧ k2 = k)) (c : String) (i : Inv)
    (cs : List (Level × Key × String × Inv)) : findChild lv2 k2 (addChildL lv k c i cs) = findChild lv2 k2 cs := by
  induction cs with
  | nil => simp [addChildL, findChild, h]
  | cons e rest ih =>
    obtain ⟨lv', k', c', i'⟩ := e
    by_cases hk : lv = lv' ∧ k = k'
    · obtain ⟨rfl, rfl⟩ := hk
      simp [addChildL, findChild, h]
    · by_cases h2 : lv2 = lv' ∧ k2 = k' <;> simp [addChildL, findChild, hk, h2, ih]

theorem findChild_removeChildL_same (lv : Level) (k : Key) (cs : List (Level × Key × String × Inv)) :
    findChild lv k (removeChildL lv k cs) = none := by
  induction cs with
  | nil => simp [removeChildL, findChild]
  | cons e rest ih =>
    obtain ⟨lv', k', c', i'⟩ := e
    by_cases h : lv = lv' ∧ k = k'
    · simp [removeChildL, h]; obtain ⟨rfl, rfl⟩ := h; exact ih
    · simp [removeChildL, findChild, h, ih]

theorem findChild_removeChildL_other {lv lv2 : Level} {k k2 : Key} (h : ¬ (lv2 = lv ∧ k2 = k))
    (cs : List (Level × Key × String × Inv)) : findChild lv2 k2 (removeChildL lv k cs) = findChild lv2 k2 cs := by
  induction cs with
  | nil => simp [removeChildL]
  | cons e rest ih =>
    obtain ⟨lv', k', c', i'⟩ := e
    by_cases hk : lv = lv' ∧ k = k'
    · obtain ⟨rfl, rfl⟩ := hk
      simp [removeChildL, findChild, h, ih]
    · by_cases h2 : lv2 = lv' ∧ k2 = k' <;> simp [removeChildL, findChild, hk, h2, ih]

/-! ### which inventory entries an instance depends on -/

/-- `seesB … = false` is a proof that the manager cannot reach a dynamic manager of that level through static edges -/
theorem not_sees_of_seesB_false (S : Schema) : ∀ (fuel : Nat) (m : String) (lv : Level),
    seesB S fuel m lv = false → ¬ Sees S m lv := by
  intro fuel
  induction fuel with
  | zero => intro m lv h; simp [seesB] at h
  | succ n ih =>
    intro m lv h hs
    cases hs with
    | @here _ _ ty vs hm => simp [seesB, hm] at h
    | @step _ m' _ edges k vs hm hk hs' =>
      simp only [seesB, hm, List.any_eq_false] at h
      have := h _ (lookupE_mem hk)
      simp only at this
      exact ih m' lv (by simpa using this) hs'

/-- FRAME: an instance depends only on the inventory entries of the levels its manager can see. -/
theorem Inst_frame (S : Schema) (vn : VId → Validator) {m : String} {inv : Inv} {kids : Kids}
    (h : Inst S vn m inv kids) : ∀ inv₂ : Inv,
    (∀ lv', Sees S m lv' → ∀ k', findChild lv' k' inv₂.children = findChild lv' k' inv.children) →
    Inst S vn m inv₂ kids := by
  induction h with
  | @static m inv kids edges hm hleaf hsub hrec ih =>
    intro inv₂ hsame
    refine Inst.static hm hleaf hsub ?_
    intro k vs m' v kids' hk hl
    exact ih k vs m' v kids' hk hl inv₂ (fun lv' hs k' => hsame lv' (Sees.step hm hk hs) k')
  | @dynamic m inv kids lv ty vs hm hkey hrec ih =>
    intro inv₂ hsame
    have hfc : ∀ k', findChild lv k' inv₂.children = findChild lv k' inv.children := hsame lv (Sees.here hm)
    refine Inst.dynamic hm ?_ ?_
    · intro k c inv' hf; rw [hfc] at hf; exact hkey k c inv' hf
    · intro k c inv' v kids' hf hl; rw [hfc] at hf; exact hrec k c inv' v kids' hf hl

/-! ### edits at a dynamic manager -/

/-- `add_request(k, RequestType(func=component._request_manager))` at a dynamic manager, the component (an instance of its
class's root manager) entering the inventory: still an instance. Overwriting a namesake is covered (F-22 / F-38 shape). -/
theorem Inst_dynamic_add (S : Schema) (vn : VId → Validator) {m : String} {inv : Inv} {kids : Kids}
    {lv : Level} {ty : KeyTy} {vs : Validator} (hm : S.mgr m = some (.dynamic lv ty vs)) (h : Inst S vn m inv kids)
    (k : Key) (c : String) (inv' : Inv) (v : VId) (kids' : Kids) (hv : vn v = vs) (hc : Inst S vn c inv' kids') :
    Inst S vn m (inv.addChild lv k c inv') (addKey k v (.node kids') kids) := by
  cases h with
  | @static _ _ _ edges hm' _ _ _ => rw [hm] at hm'; cases hm'
  | @dynamic _ _ _ lv' ty' vs' hm' hkey hrec =>
    rw [hm] at hm'
    cases hm'
    refine Inst.dynamic hm ?_ ?_
    · intro k2 c2 inv2 hf
      by_cases hk : k2 = k
      · subst hk
        exact ⟨v, kids', lookup_addKey_same _ _ _ _, hv⟩
      · have hne : ¬ (lv = lv ∧ k2 = k) := fun h => hk h.2
        simp only [Inv.addChild, Inv.children] at hf
        rw [findChild_addChildL_other hne] at hf
        rw [lookup_addKey_other hk]
        exact hkey k2 c2 inv2 hf
    · intro k2 c2 inv2 v2 kids2 hf hl
      by_cases hk : k2 = k
      · subst hk
        simp only [Inv.addChild, Inv.children, findChild_addChildL_same, Option.some.injEq, Prod.mk.injEq] at hf
        rw [lookup_addKey_same] at hl
        simp only [Option.some.injEq, Prod.mk.injEq, Tree.node.injEq] at hl
        obtain ⟨rfl, rfl⟩ := hf
        obtain ⟨_, rfl⟩ := hl
        exact hc
      · have hne : ¬ (lv = lv ∧ k2 = k) := fun h => hk h.2
        simp only [Inv.addChild, Inv.children] at hf
        rw [findChild_addChildL_other hne] at hf
        rw [lookup_addKey_other hk] at hl
        exact hrec k2 c2 inv2 v2 kids2 hf hl

/-- `remove_request(k)` at a dynamic manager, the component leaving the inventory: still an instance, and the key is gone. -/
theorem Inst_dynamic_remove (S : Schema) (vn : VId → Validator) {m : String} {inv : Inv} {kids : Kids}
    {lv : Level} {ty : KeyTy} {vs : Validator} (hm : S.mgr m = some (.dynamic lv ty vs)) (h : Inst S vn m inv kids)
    (k : Key) :
    Inst S vn m (inv.removeChild lv k) (removeKey k kids) ∧ lookup k (removeKey k kids) = none := by
  refine ⟨?_, lookup_removeKey_same k kids⟩
  cases h with
  | @static _ _ _ edges hm' _ _ _ => rw [hm] at hm'; cases hm'
  | @dynamic _ _ _ lv' ty' vs' hm' hkey hrec =>
    rw [hm] at hm'
    cases hm'
    refine Inst.dynamic hm ?_ ?_
    · intro k2 c2 inv2 hf
      by_cases hk : k2 = k
      · subst hk
        simp [Inv.removeChild, Inv.children, findChild_removeChildL_same] at hf
      · have hne : ¬ (lv = lv ∧ k2 = k) := fun h => hk h.2
        simp only [Inv.removeChild, Inv.children] at hf
        rw [findChild_removeChildL_other hne] at hf
        rw [lookup_removeKey_other hk]
        exact hkey k2 c2 inv2 hf
    · intro k2 c2 inv2 v2 kids2 hf hl
      by_cases hk : k2 = k
      · subst hk
        simp [Inv.removeChild, Inv.children, findChild_removeChildL_same] at hf
      · have hne : ¬ (lv = lv ∧ k2 = k) := fun h => hk h.2
        simp only [Inv.removeChild, Inv.children] at hf
        rw [findChild_removeChildL_other hne] at hf
        rw [lookup_removeKey_other hk] at hl
        exact hrec k2 c2 inv2 v2 kids2 hf hl

/-! ### lifting an edit through a static manager -/

/-- Editing the dictionary under the static key `ks` of a static manager: still an instance for the new inventory, provided
the edited sub-tree is one, and the managers under the OTHER static keys do not depend on what changed in the inventory. -/
theorem Inst_static_edit (S : Schema) (vn : VId → Validator) {m : String} {inv : Inv} {kids : Kids} {edges : List Edge}
    (hm : S.mgr m = some (.static edges)) (h : Inst S vn m inv kids)
    (ks : Key) (vs0 : Validator) (m0 : String) (hk : lookupE ks edges = some (vs0, .sub m0)) (inv₂ : Inv) (f : Kids → Kids)
    (hf : ∀ v sub, lookup ks kids = some (v, .node sub) → Inst S vn m0 inv sub → Inst S vn m0 inv₂ (f sub))
    (hframe : ∀ k' vs' m', k' ≠ ks → lookupE k' edges = some (vs', .sub m') → ∀ lv', Sees S m' lv' →
        ∀ k2, findChild lv' k2 inv₂.children = findChild lv' k2 inv.children) :
    Inst S vn m inv₂ (atKey ks f kids) := by
  cases h with
  | @dynamic _ _ _ lv ty vs hm' _ _ => rw [hm] at hm'; cases hm'
  | @static _ _ _ edges' hm' hleaf hsub hrec =>
    rw [hm] at hm'
    cases hm'
    refine Inst.static hm ?_ ?_ ?_
    · intro k vs hl
      have hne : k ≠ ks := by
        intro he; subst he; rw [hk] at hl; cases hl
      rw [lookup_atKey_other hne]
      exact hleaf k vs hl
    · intro k vs m' hl
      by_cases he : k = ks
      · subst he
        obtain ⟨v, sub, hlk, hvn⟩ := hsub k vs m' hl
        exact ⟨v, f sub, lookup_atKey_same f hlk, hvn⟩
      · rw [lookup_atKey_other he]
        exact hsub k vs m' hl
    · intro k vs m' v kids' hl hlk
      by_cases he : k = ks
      · subst he
        rw [hk] at hl
        simp only [Option.some.injEq, Prod.mk.injEq, Target.sub.injEq] at hl
        obtain ⟨rfl, rfl⟩ := hl
        obtain ⟨v0, sub, hlk0, _⟩ := hsub k vs0 m0 hk
        rw [lookup_atKey_same f hlk0] at hlk
        simp only [Option.some.injEq, Prod.mk.injEq, Tree.node.injEq] at hlk
        obtain ⟨_, rfl⟩ := hlk
        exact hf v0 sub hlk0 (hrec k vs0 m0 v0 sub hk hlk0)
      · rw [lookup_atKey_other he] at hlk
        exact Inst_frame S vn (hrec k vs m' v kids' hl hlk) inv₂ (hframe k vs m' he hl)

/-! ### the code sites: a component's root manager (static) holds one dynamic manager per level under a literal key -/

/-- INSTALL / CONNECT / CREATE / RESTORE: the component of class `c` whose root manager keeps the dynamic manager `md` of
level `lv` under the literal key `ks` (`Node` → "service" / "application" / "network_interface", `FileSystem` → "folder",
`Folder` → "file", `Network` → "node") registers a new sub-component: the live tree — edited ONLY by
`md.add_request(k, RequestType(func=new._request_manager))` — is an instance for the inventory with the sub-component added. -/
theorem C05_add_component_keeps_inst (S : Schema) (vn : VId → Validator) {c : String} {inv : Inv} {kids : Kids}
    {edges : List Edge} (hm : S.mgr c = some (.static edges)) (h : Inst S vn c inv kids)
    (ks : Key) (vs0 : Validator) (md : String) (hk : lookupE ks edges = some (vs0, .sub md))
    {lv : Level} {ty : KeyTy} {vs : Validator} (hmd : S.mgr md = some (.dynamic lv ty vs))
    (fuel : Nat) (hframe : ∀ k' vs' m', k' ≠ ks → lookupE k' edges = some (vs', .sub m') → seesB S fuel m' lv = false)
    (k : Key) (cNew : String) (invNew : Inv) (v : VId) (kidsNew : Kids) (hv : vn v = vs)
    (hnew : Inst S vn cNew invNew kidsNew) :
    Inst S vn c (inv.addChild lv k cNew invNew) (atKey ks (addKey k v (.node kidsNew)) kids) := by
  refine Inst_static_edit S vn hm h ks vs0 md hk _ _ ?_ ?_
  · intro v0 sub _ hsub
    exact Inst_dynamic_add S vn hmd hsub k cNew invNew v kidsNew hv hnew
  · intro k' vs' m' hne hl lv' hs k2
    have hns := not_sees_of_seesB_false S fuel m' lv (hframe k' vs' m' hne hl)
    have hlv : lv' ≠ lv := fun he => hns (he ▸ hs)
    simp only [Inv.addChild, Inv.children]
    exact findChild_addChildL_other (fun hh => hlv hh.1) _ _ _

/-- UNINSTALL / DISCONNECT / REMOVE: the same site with `md.remove_request(k)`: an instance for the inventory without the
sub-component. -/
theorem C05_remove_component_keeps_inst (S : Schema) (vn : VId → Validator) {c : String} {inv : Inv} {kids : Kids}
    {edges : List Edge} (hm : S.mgr c = some (.static edges)) (h : Inst S vn c inv kids)
    (ks : Key) (vs0 : Validator) (md : String) (hk : lookupE ks edges = some (vs0, .sub md))
    {lv : Level} {ty : KeyTy} {vs : Validator} (hmd : S.mgr md = some (.dynamic lv ty vs))
    (fuel : Nat) (hframe : ∀ k' vs' m', k' ≠ ks → lookupE k' edges = some (vs', .sub m') → seesB S fuel m' lv = false)
    (k : Key) :
    Inst S vn c (inv.removeChild lv k) (atKey ks (removeKey k) kids) := by
  refine Inst_static_edit S vn hm h ks vs0 md hk _ _ ?_ ?_
  · intro v0 sub _ hsub
    exact (Inst_dynamic_remove S vn hmd hsub k).1
  · intro k' vs' m' hne hl lv' hs k2
    have hns := not_sees_of_seesB_false S fuel m' lv (hframe k' vs' m' hne hl)
    have hlv : lv' ≠ lv := fun he => hns (he ▸ hs)
    simp only [Inv.removeChild, Inv.children]
    exact findChild_removeChildL_other (fun hh => hlv hh.1) _

/-- ... and the removed component's routes do not dangle: every request through the removed key no longer names an existing
target (it is `unreachable`, or refused earlier by the rule on `ks`), whatever follows the key and whatever the rules say. -/
theorem C05_removed_route_unreachable (kids : Kids) (ks k : Key) (v : VId) (sub : Kids)
    (hks : lookup ks kids = some (v, .node sub)) (rest : List Key) (env : Env) (d : Nat) :
    pathExistsK (atKey ks (removeKey k) kids) (ks :: k :: rest) = false ∧
    (dispatchK env (atKey ks (removeKey k) kids) (ks :: k :: rest) d).isReached = false := by
  have hp : pathExistsK (atKey ks (removeKey k) kids) (ks :: k :: rest) = false := by
    simp [pathExistsK, lookup_atKey_same _ hks, lookup_removeKey_same]
  exact ⟨hp, C05_missing_target_not_reached env _ _ d hp⟩

/-- ... while the added component's routes exist at once: a request through the new key whose remainder is a route of the
new component's own tree names an existing target. -/
theorem C05_added_route_exists (kids : Kids) (ks k : Key) (v0 : VId) (sub : Kids)
    (hks : lookup ks kids = some (v0, .node sub)) (v : VId) (kidsNew : Kids) (rest : List Key)
    (hrest : pathExistsK kidsNew rest = true) :
    pathExistsK (atKey ks (addKey k v (.node kidsNew)) kids) (ks :: k :: rest) = true := by
  simp [pathExistsK, lookup_atKey_same _ hks, lookup_addKey_same, hrest]

/-- LOCALITY: the edit touches exactly one key of one dictionary — every other key of the owner's manager, and every other
key of the dynamic manager, leads to what it led to before ("adds / removes exactly the sub-tree of the component"). -/
theorem C05_edit_is_local (kids sub : Kids) (ks k : Key) (v0 : VId) (hks : lookup ks kids = some (v0, .node sub))
    (v : VId) (t : Tree) :
    (∀ k', k' ≠ ks → lookup k' (atKey ks (addKey k v t) kids) = lookup k' kids ∧
                      lookup k' (atKey ks (removeKey k) kids) = lookup k' kids) ∧
    (∀ k2, k2 ≠ k → lookup k2 (addKey k v t sub) = lookup k2 sub ∧ lookup k2 (removeKey k sub) = lookup k2 sub) ∧
    lookup ks (atKey ks (addKey k v t) kids) = some (v0, .node (addKey k v t sub)) ∧
    lookup ks (atKey ks (removeKey k) kids) = some (v0, .node (removeKey k sub)) :=
  ⟨fun k' h => ⟨lookup_atKey_other h _ _, lookup_atKey_other h _ _⟩,
   fun k2 h => ⟨lookup_addKey_other h _ _ _, lookup_removeKey_other h _⟩,
   lookup_atKey_same _ hks, lookup_atKey_same _ hks⟩

/-! ### a deep edit seen from the SIMULATION root: lifting along a path of static keys and component keys -/

/-- one step down the live tree: a literal key of a static manager, or the key of a component at a dynamic level -/
inductive Step
  | lit (ks : Key)
  | dyn (lv : Level) (k : Key)
deriving DecidableEq, Repr

/-- apply `f` to the dictionary of the manager the path leads to -/
def editTree : List Step → (Kids → Kids) → Kids → Kids
  | [], f, kids => f kids
  | .lit ks :: rest, f, kids => atKey ks (editTree rest f) kids
  | .dyn _ k :: rest, f, kids => atKey k (editTree rest f) kids

/-- apply `g` to the inventory of the component the path leads to (literal keys stay inside the same component) -/
def editInv : List Step → (Inv → Inv) → Inv → Inv
  | [], g, inv => g inv
  | .lit _ :: rest, g, inv => editInv rest g inv
  | .dyn lv k :: rest, g, inv =>
    match findChild lv k inv.children with
    | some (c, inv') => inv.addChild lv k c (editInv rest g inv')
    | none => inv

/-- the level at which the CURRENT component's inventory changes: the first component step, else the edited level -/
def touched : List Step → Level → Level
  | [], lvEdit => lvEdit
  | .lit _ :: rest, lvEdit => touched rest lvEdit
  | .dyn lv _ :: _, _ => lv

def siblingsBlindB (S : Schema) (fuel : Nat) (edges : List Edge) (ks : Key) (lv : Level) : Bool :=
  edges.all (fun e => e.1 == ks || (match e.2.2 with
    | .sub m'' => !seesB S fuel m'' lv
    | .leaf => true))

/-- the path exists in the schema and the inventory, ends at manager `mEnd`, and at every literal step the sibling
sub-managers cannot see the level that changes (executable) -/
def pathOKB (S : Schema) (fuel : Nat) (lvEdit : Level) : String → Inv → List Step → String → Bool
  | m, _, [], mEnd => m == mEnd
  | m, inv, .lit ks :: rest, mEnd =>
    match S.mgr m with
    | some (.static edges) =>
      match lookupE ks edges with
      | some (_, .sub m') => siblingsBlindB S fuel edges ks (touched rest lvEdit) && pathOKB S fuel lvEdit m' inv rest mEnd
      | _ => false
    | _ => false
  | m, inv, .dyn lv k :: rest, mEnd =>
    match S.mgr m with
    | some (.dynamic lv' _ _) =>
      lv' == lv && (match findChild lv k inv.children with
        | some (c, inv') => pathOKB S fuel lvEdit c inv' rest mEnd
        | none => false)
    | _ => false

theorem siblings_blind (S : Schema) (fuel : Nat) (edges : List Edge) (ks : Key) (lv : Level)
    (h : siblingsBlindB S fuel edges ks lv = true) :
    ∀ k' vs' m'', k' ≠ ks → lookupE k' edges = some (vs', .sub m'') → seesB S fuel m'' lv = false := by
  intro k' vs' m'' hne hl
  simp only [siblingsBlindB, List.all_eq_true] at h
  have h3 := h _ (lookupE_mem hl)
  simp only [Bool.or_eq_true, beq_iff_eq, Bool.not_eq_true'] at h3
  rcases h3 with h3 | h3
  · exact absurd h3 hne
  · exact h3

theorem atKey_eq_addKey {k : Key} {kids : Kids} {v : VId} {sub : Kids} (f : Kids → Kids)
    (h : lookup k kids = some (v, .node sub)) : atKey k f kids = addKey k v (.node (f sub)) kids := by
  induction kids with
  | nil => simp [lookup] at h
  | cons e rest ih =>
    obtain ⟨k', v', t'⟩ := e
    by_cases hk : k = k'
    · subst hk
      simp only [lookup, if_true, Option.some.injEq, Prod.mk.injEq] at h
      obtain ⟨rfl, rfl⟩ := h
      simp [atKey, addKey]
    · simp only [lookup, hk, if_false] at h
      simp [atKey, addKey, hk, ih h]

/-- the inventory edit along a path changes, in the inventory it starts from, only entries of the `touched` level -/
theorem editInv_other (g : Inv → Inv) (lvEdit : Level)
    (hg : ∀ inv lv' k', lv' ≠ lvEdit → findChild lv' k' (g inv).children = findChild lv' k' inv.children) :
    ∀ (path : List Step) (inv : Inv) (lv' : Level) (k' : Key), lv' ≠ touched path lvEdit →
      findChild lv' k' (editInv path g inv).children = findChild lv' k' inv.children := by
  intro path
  induction path with
  | nil => intro inv lv' k' h; exact hg inv lv' k' h
  | cons st rest ih =>
    intro inv lv' k' h
    cases st with
    | lit ks => exact ih inv lv' k' h
    | dyn lv k =>
      simp only [touched] at h
      simp only [editInv]
      cases hf : findChild lv k inv.children with
      | none => rfl
      | some ci =>
        obtain ⟨c, inv'⟩ := ci
        simp only [Inv.addChild, Inv.children]
        exact findChild_addChildL_other (fun hh => h hh.1) _ _ _

/-- DEEP EDIT: if the path from manager `m` (e.g. the simulation's root manager) down to the root manager `mEnd` of the
component being edited is sound (`pathOKB`), the local edit keeps `mEnd`'s instances (`hend`, e.g. from
`C05_add_component_keeps_inst`) and changes that component's inventory only at level `lvEdit`, then the WHOLE tree is an
instance for the whole inventory after the edit. -/
theorem C05_deep_edit_keeps_inst (S : Schema) (vn : VId → Validator) (fuel : Nat) (lvEdit : Level) (mEnd : String)
    (f : Kids → Kids) (g : Inv → Inv)
    (hend : ∀ inv kids, Inst S vn mEnd inv kids → Inst S vn mEnd (g inv) (f kids))
    (hg : ∀ inv lv' k', lv' ≠ lvEdit → findChild lv' k' (g inv).children = findChild lv' k' inv.children) :
    ∀ (path : List Step) (m : String) (inv : Inv) (kids : Kids), Inst S vn m inv kids →
      pathOKB S fuel lvEdit m inv path mEnd = true →
      Inst S vn m (editInv path g inv) (editTree path f kids) := by
  intro path
  induction path with
  | nil =>
    intro m inv kids h hp
    simp only [pathOKB, beq_iff_eq] at hp
    subst hp
    exact hend inv kids h
  | cons st rest ih =>
    intro m inv kids h hp
    cases st with
    | lit ks =>
      simp only [pathOKB] at hp
      cases hm : S.mgr m with
      | none => simp [hm] at hp
      | some M =>
        cases M with
        | dynamic lv ty vs => simp [hm] at hp
        | static edges =>
          simp only [hm] at hp
          cases hk : lookupE ks edges with
          | none => simp [hk] at hp
          | some vt =>
            obtain ⟨vs0, tgt⟩ := vt
            cases tgt with
            | leaf => simp [hk] at hp
            | sub m' =>
              simp only [hk, Bool.and_eq_true] at hp
              obtain ⟨hblind, hrest⟩ := hp
              simp only [editInv, editTree]
              refine Inst_static_edit S vn hm h ks vs0 m' hk _ _ ?_ ?_
              · intro v sub _ hsub
                exact ih m' inv sub hsub hrest
              · intro k' vs' m'' hne hl lv' hs k2
                have hns := not_sees_of_seesB_false S fuel m'' _ (siblings_blind S fuel edges ks _ hblind k' vs' m'' hne hl)
                have hlv : lv' ≠ touched rest lvEdit := fun he => hns (he ▸ hs)
                exact editInv_other g lvEdit hg rest inv lv' k2 hlv
    | dyn lv k =>
      simp only [pathOKB] at hp
      cases hm : S.mgr m with
      | none => simp [hm] at hp
      | some M =>
        cases M with
        | static edges => simp [hm] at hp
        | dynamic lv' ty vs =>
          simp only [hm, Bool.and_eq_true, beq_iff_eq] at hp
          obtain ⟨hlv, hrest⟩ := hp
          subst hlv
          cases hf : findChild lv' k inv.children with
          | none => simp [hf] at hrest
          | some ci =>
            obtain ⟨c, inv'⟩ := ci
            simp only [hf] at hrest
            simp only [editInv, editTree, hf]
            have h' := h
            cases h with
            | @static _ _ _ edges hm' _ _ _ => rw [hm] at hm'; cases hm'
            | @dynamic _ _ _ lv2 ty2 vs2 hm' hkey hrec =>
              rw [hm] at hm'
              cases hm'
              obtain ⟨v, kids', hlk, hvn⟩ := hkey k c inv' hf
              have hchild := hrec k c inv' v kids' hf hlk
              have hnew := ih c inv' kids' hchild hrest
              rw [atKey_eq_addKey _ hlk]
              exact Inst_dynamic_add S vn hm h' k c _ v _ hvn hnew

/-! ### the regenerated schema meets the side conditions at every dynamic site -/

/-- for every static manager and every edge of it that leads to a dynamic manager of level `lv`: no OTHER sub-manager edge of
the same manager can see level `lv` -/
def framedB (S : Schema) (fuel : Nat) : Bool :=
  S.mgrs.all (fun nm => match nm.2 with
    | .dynamic _ _ _ => true
    | .static edges => edges.all (fun e => match e.2.2 with
        | .leaf => true
        | .sub md => match S.mgr md with
          | some (.dynamic lv _ _) => edges.all (fun e' => e'.1 == e.1 || (match e'.2.2 with
              | .sub m' => !seesB S fuel m' lv
              | .leaf => true))
          | _ => true))

/-- the static manager of class `c` has the edge `key ↦ (vs, sub target)` -/
def hasEdgeB (S : Schema) (c : String) (key : Key) (vs : Validator) (target : String) : Bool :=
  match S.mgr c with
  | some (.static es) => decide (lookupE key es = some (vs, .sub target))
  | _ => false

def isDynamicOfB (S : Schema) (m : String) (lv : Level) : Bool :=
  match S.mgr m with
  | some (.dynamic lv' _ _) => lv' == lv
  | _ => false

open Primaite.Gen.RequestSchema (dynAdds dynRemoves) in
/-- (table) in the regenerated schema (i) the frame condition of `C05_add_component_keeps_inst` /
`C05_remove_component_keeps_inst` holds at EVERY edge that leads to a dynamic manager, in every class; (ii) every dynamic
manager that gains keys at run time also loses them at run time (`remove_request` site) — EXCEPT the folder and file levels,
whose keys stay after a delete (no `remove_request` in the file system) and are instead guarded on the edge that leads to
them by the exists / not-deleted rules; (iii) every manager with a dynamic `add_request` site is a dynamic manager of the
schema of the level the site adds. -/
theorem C05_gen_dynamic_sites :
    framedB schema 8 = true ∧
    (∀ a ∈ dynAdds, a.1 ∈ dynRemoves ∨
      (a = ("FileSystem._folder_request_manager", Level.folder) ∧
        hasEdgeB schema "FileSystem" "folder" [.folderExists, .folderNotDeleted] a.1 = true) ∨
      (a = ("Folder._file_request_manager", Level.file) ∧
        hasEdgeB schema "Folder" "file" [.folderFileExists, .fileNotDeleted] a.1 = true)) ∧
    (∀ a ∈ dynAdds, isDynamicOfB schema a.1 a.2 = true) := by
  decide +kernel

/-- the Bool check gives the hypothesis the composite theorems need -/
theorem frame_of_framedB (S : Schema) (fuel : Nat) (hB : framedB S fuel = true) {c : String} {edges : List Edge}
    (hm : S.mgr c = some (.static edges)) (hc : (c, Mgr.static edges) ∈ S.mgrs) (ks : Key) (vs0 : Validator) (md : String)
    (hk : lookupE ks edges = some (vs0, .sub md)) {lv : Level} {ty : KeyTy} {vs : Validator}
    (hmd : S.mgr md = some (.dynamic lv ty vs)) :
    ∀ k' vs' m', k' ≠ ks → lookupE k' edges = some (vs', .sub m') → seesB S fuel m' lv = false := by
  intro k' vs' m' hne hl
  simp only [framedB, List.all_eq_true] at hB
  have h1 := hB _ hc
  simp only [List.all_eq_true] at h1
  have h2 := h1 _ (lookupE_mem hk)
  simp only [hmd, List.all_eq_true] at h2
  have h3 := h2 _ (lookupE_mem hl)
  simp only [Bool.or_eq_true, beq_iff_eq, Bool.not_eq_true'] at h3
  rcases h3 with h3 | h3
  · exact absurd h3 hne
  · exact h3

/-! ### ALL paths at once: a schema-level frame property replaces the per-path condition -/

def allLevels : List Level := [.node, .service, .application, .nic, .folder, .file]

theorem mem_allLevels (lv : Level) : lv ∈ allLevels := by cases lv <;> simp [allLevels]

/-- GLOBAL FRAME PROPERTY of a schema: no two sub-managers under different literal keys of the same static manager can see the
same level (executable; conservative: `seesB` over-approximates) -/
def globalFrameB (S : Schema) (fuel : Nat) : Bool :=
  S.mgrs.all (fun nm => match nm.2 with
    | .dynamic _ _ _ => true
    | .static edges => edges.all (fun e => match e.2.2 with
        | .leaf => true
        | .sub m1 => edges.all (fun e' => e'.1 == e.1 || (match e'.2.2 with
            | .leaf => true
            | .sub m2 => allLevels.all (fun lv => !(seesB S fuel m1 lv && seesB S fuel m2 lv))))))

/-- the path exists in the schema and the inventory and ends at `mEnd` (`pathOKB` without the frame condition) -/
def pathExistsB (S : Schema) : String → Inv → List Step → String → Bool
  | m, _, [], mEnd => m == mEnd
  | m, inv, .lit ks :: rest, mEnd =>
    match S.mgr m with
    | some (.static edges) =>
      match lookupE ks edges with
      | some (_, .sub m') => pathExistsB S m' inv rest mEnd
      | _ => false
    | _ => false
  | m, inv, .dyn lv k :: rest, mEnd =>
    match S.mgr m with
    | some (.dynamic lv' _ _) =>
      lv' == lv && (match findChild lv k inv.children with
        | some (c, inv') => pathExistsB S c inv' rest mEnd
        | none => false)
    | _ => false

theorem assoc_mem {α} {k : String} {l : List (String × α)} {a : α} (h : assoc k l = some a) : (k, a) ∈ l := by
  induction l with
  | nil => simp [assoc] at h
  | cons e rest ih =>
    obtain ⟨k', a'⟩ := e
    simp only [assoc] at h
    by_cases hk : k = k'
    · simp only [hk, if_true, Option.some.injEq] at h
      subst h; simp [hk]
    · simp only [hk, if_false] at h
      exact List.mem_cons_of_mem _ (ih h)

/-- `Sees` implies the executable over-approximation, for every fuel -/
theorem seesB_of_sees (S : Schema) {m : String} {lv : Level} (h : Sees S m lv) : ∀ fuel, seesB S fuel m lv = true := by
  induction h with
  | @here m lv ty vs hm =>
    intro fuel
    cases fuel with
    | zero => rfl
    | succ n => simp [seesB, hm]
  | @step m m' lv edges k vs hm hk _ ih =>
    intro fuel
    cases fuel with
    | zero => rfl
    | succ n =>
      simp only [seesB, hm, List.any_eq_true]
      exact ⟨_, lookupE_mem hk, by simpa using ih n⟩

/-- along an existing path, the manager it starts from sees the level the path touches -/
theorem sees_touched (S : Schema) (lvEdit : Level) (mEnd : String) (hend : Sees S mEnd lvEdit) :
    ∀ (path : List Step) (m : String) (inv : Inv), pathExistsB S m inv path mEnd = true →
      Sees S m (touched path lvEdit) := by
  intro path
  induction path with
  | nil =>
    intro m inv hp
    simp only [pathExistsB, beq_iff_eq] at hp
    subst hp
    exact hend
  | cons st rest ih =>
    intro m inv hp
    cases st with
    | lit ks =>
      simp only [pathExistsB] at hp
      cases hm : S.mgr m with
      | none => simp [hm] at hp
      | some M =>
        cases M with
        | dynamic lv ty vs => simp [hm] at hp
        | static edges =>
          simp only [hm] at hp
          cases hk : lookupE ks edges with
          | none => simp [hk] at hp
          | some vt =>
            obtain ⟨vs0, tgt⟩ := vt
            cases tgt with
            | leaf => simp [hk] at hp
            | sub m' =>
              simp only [hk] at hp
              exact Sees.step hm hk (ih m' inv hp)
    | dyn lv k =>
      simp only [pathExistsB] at hp
      cases hm : S.mgr m with
      | none => simp [hm] at hp
      | some M =>
        cases M with
        | static edges => simp [hm] at hp
        | dynamic lv' ty vs =>
          simp only [hm, Bool.and_eq_true, beq_iff_eq] at hp
          obtain ⟨hlv, _⟩ := hp
          subst hlv
          exact Sees.here hm

/-- under the global frame property EVERY existing path satisfies the per-path condition -/
theorem pathOKB_of_globalFrame (S : Schema) (fuel : Nat) (hG : globalFrameB S fuel = true) (lvEdit : Level) (mEnd : String)
    (hend : Sees S mEnd lvEdit) :
    ∀ (path : List Step) (m : String) (inv : Inv), pathExistsB S m inv path mEnd = true →
      pathOKB S fuel lvEdit m inv path mEnd = true := by
  intro path
  induction path with
  | nil => intro m inv hp; simpa [pathOKB, pathExistsB] using hp
  | cons st rest ih =>
    intro m inv hp
    cases st with
    | lit ks =>
      simp only [pathExistsB] at hp
      simp only [pathOKB]
      cases hm : S.mgr m with
      | none => simp [hm] at hp
      | some M =>
        cases M with
        | dynamic lv ty vs => simp [hm] at hp
        | static edges =>
          simp only [hm] at hp ⊢
          cases hk : lookupE ks edges with
          | none => simp [hk] at hp
          | some vt =>
            obtain ⟨vs0, tgt⟩ := vt
            cases tgt with
            | leaf => simp [hk] at hp
            | sub m' =>
              simp only [hk] at hp ⊢
              simp only [Bool.and_eq_true]
              refine ⟨?_, ih m' inv hp⟩
              -- the sub-manager under `ks` sees the touched level, so (global frame) no sibling does
              have hsee := seesB_of_sees S (sees_touched S lvEdit mEnd hend rest m' inv hp) fuel
              simp only [globalFrameB, List.all_eq_true] at hG
              have h1 := hG _ (assoc_mem hm)
              simp only [List.all_eq_true] at h1
              have h2 := h1 _ (lookupE_mem hk)
              simp only [List.all_eq_true] at h2
              simp only [siblingsBlindB, List.all_eq_true]
              intro e' he'
              have h3 := h2 e' he'
              simp only [Bool.or_eq_true, beq_iff_eq] at h3 ⊢
              rcases h3 with h3 | h3
              · exact Or.inl h3
              · refine Or.inr ?_
                cases ht : e'.2.2 with
                | leaf => rfl
                | sub m2 =>
                  simp only [ht, List.all_eq_true] at h3
                  have := h3 _ (mem_allLevels (touched rest lvEdit))
                  simpa [hsee] using this
    | dyn lv k =>
      simp only [pathExistsB] at hp
      simp only [pathOKB]
      cases hm : S.mgr m with
      | none => simp [hm] at hp
      | some M =>
        cases M with
        | static edges => simp [hm] at hp
        | dynamic lv' ty vs =>
          simp only [hm, Bool.and_eq_true, beq_iff_eq] at hp ⊢
          obtain ⟨hlv, hrest⟩ := hp
          refine ⟨hlv, ?_⟩
          cases hf : findChild lv k inv.children with
          | none => simp [hf] at hrest
          | some ci =>
            obtain ⟨c, inv'⟩ := ci
            simp only [hf] at hrest ⊢
            exact ih c inv' hrest

/-- ALL PATHS, ALL INVENTORIES, ONE STATEMENT.  In a schema with the global frame property: whatever the inventory, the live
tree (an instance), and the path from ANY manager `m` (e.g. the simulation root) down to the root manager of a component of
class `c` that keeps the dynamic manager `md` of level `lv` under its literal key `ks` — registering a new sub-component there
(`add_request`) keeps the whole tree an instance of the whole inventory with that sub-component added; un-registering one
(`remove_request`) keeps it an instance of the inventory without it. -/
theorem C05_any_path_edit_keeps_inst (S : Schema) (vn : VId → Validator) (fuel : Nat) (hG : globalFrameB S fuel = true)
    (c : String) (edges : List Edge) (hm : S.mgr c = some (.static edges))
    (ks : Key) (vs0 : Validator) (md : String) (hk : lookupE ks edges = some (vs0, .sub md))
    (lv : Level) (ty : KeyTy) (vs : Validator) (hmd : S.mgr md = some (.dynamic lv ty vs))
    (path : List Step) (m : String) (inv : Inv) (kids : Kids) (hinst : Inst S vn m inv kids)
    (hpath : pathExistsB S m inv path c = true) :
    (∀ (k : Key) (cNew : String) (invNew : Inv) (v : VId) (kidsNew : Kids), vn v = vs → Inst S vn cNew invNew kidsNew →
      Inst S vn m (editInv path (fun i => i.addChild lv k cNew invNew) inv)
        (editTree path (atKey ks (addKey k v (.node kidsNew))) kids)) ∧
    (∀ (k : Key), Inst S vn m (editInv path (fun i => i.removeChild lv k) inv) (editTree path (atKey ks (removeKey k)) kids)) := by
  have hsees : Sees S c lv := Sees.step hm hk (Sees.here hmd)
  -- the frame condition at the site itself, from the global property
  have hframe : ∀ k' vs' m', k' ≠ ks → lookupE k' edges = some (vs', .sub m') → seesB S fuel m' lv = false := by
    intro k' vs' m' hne hl
    have hsee := seesB_of_sees S (Sees.here hmd : Sees S md lv) fuel
    simp only [globalFrameB, List.all_eq_true] at hG
    have h1 := hG _ (assoc_mem hm)
    simp only [List.all_eq_true] at h1
    have h2 := h1 _ (lookupE_mem hk)
    simp only [List.all_eq_true] at h2
    have h3 := h2 _ (lookupE_mem hl)
    simp only [Bool.or_eq_true, beq_iff_eq] at h3
    rcases h3 with h3 | h3
    · exact absurd h3 hne
    · simp only [List.all_eq_true] at h3
      have := h3 _ (mem_allLevels lv)
      simpa [hsee] using this
  have hok := pathOKB_of_globalFrame S fuel hG lv c hsees path m inv hpath
  constructor
  · intro k cNew invNew v kidsNew hv hnew
    refine C05_deep_edit_keeps_inst S vn fuel lv c _ _ ?_ ?_ path m inv kids hinst hok
    · intro inv0 kids0 h0
      exact C05_add_component_keeps_inst S vn hm h0 ks vs0 md hk hmd fuel hframe k cNew invNew v kidsNew hv hnew
    · intro inv0 lv' k' hne
      simp only [Inv.addChild, Inv.children]
      exact findChild_addChildL_other (fun hh => hne hh.1) _ _ _
  · intro k
    refine C05_deep_edit_keeps_inst S vn fuel lv c _ _ ?_ ?_ path m inv kids hinst hok
    · intro inv0 kids0 h0
      exact C05_remove_component_keeps_inst S vn hm h0 ks vs0 md hk hmd fuel hframe k
    · intro inv0 lv' k' hne
      simp only [Inv.removeChild, Inv.children]
      exact findChild_removeChildL_other (fun hh => hne hh.1) _

/-- (table) the regenerated schema has the global frame property — so `C05_any_path_edit_keeps_inst` applies to every
inventory, live tree and path of the shipped code, at every dynamic site -/
theorem C05_gen_global_frame : globalFrameB schema 8 = true := by decide +kernel

/-! ### non-vacuity on the REGENERATED schema: a Computer installs the FTP server, then uninstalls it -/

def exPcInv : Inv := .mk [(.service, "dns-client", "DNSClient", .mk []), (.nic, "i:1", "NIC", .mk []),
                          (.folder, "root", "Folder", .mk [])]
def exPcKids : Kids := buildK schema exVid 10 "Computer" exPcInv
def exPcEdges : List Edge := match schema.mgr "Computer" with | some (.static es) => es | _ => []
def exSvcKids : Kids := buildK schema exVid 6 "FTPServer" (.mk [])

theorem exPcKids_inst : Inst schema exVn "Computer" exPcInv exPcKids :=
  instB_sound schema exVn 10 "Computer" exPcInv exPcKids (by decide +kernel)
theorem exSvcKids_inst : Inst schema exVn "FTPServer" (.mk []) exSvcKids :=
  instB_sound schema exVn 6 "FTPServer" (.mk []) exSvcKids (by decide +kernel)

def exPcKidsInstalled : Kids := atKey "service" (addKey "ftp-server" (exVid []) (.node exSvcKids)) exPcKids

/-- the hypotheses of `C05_add_component_keeps_inst` are met by the regenerated schema at `Node`'s "service" site -/
theorem exInstall_inst : Inst schema exVn "Computer" (exPcInv.addChild .service "ftp-server" "FTPServer" (.mk []))
    exPcKidsInstalled :=
  C05_add_component_keeps_inst schema exVn (c := "Computer") (edges := exPcEdges) (by decide +kernel) exPcKids_inst
    "service" [.nodeIsOn] "Node._service_request_manager" (by decide +kernel) (lv := .service) (ty := .str) (vs := [])
    (by decide +kernel) 8
    (frame_of_framedB schema 8 C05_gen_dynamic_sites.1 (c := "Computer") (edges := exPcEdges) (by decide +kernel)
      (by decide +kernel) "service" [.nodeIsOn] "Node._service_request_manager" (by decide +kernel)
      (lv := .service) (ty := .str) (vs := []) (by decide +kernel))
    "ftp-server" "FTPServer" (.mk []) (exVid []) exSvcKids (by decide +kernel) exSvcKids_inst

/-- before the install the route is unreachable, after it the request reaches the new service's handler, after the
uninstall it is unreachable again -/
example : dispatchK envAll exPcKids ["service", "ftp-server", "stop"] 3 = .unreachable 4 := by decide +kernel
example : (dispatchK envAll exPcKidsInstalled ["service", "ftp-server", "stop"] 3).isReached = true := by decide +kernel
example : dispatchK envAll (atKey "service" (removeKey "ftp-server") exPcKidsInstalled) ["service", "ftp-server", "stop"] 3
    = .unreachable 4 := by decide +kernel
/-- the other routes of the node are untouched by the install -/
example : dispatchK envAll exPcKidsInstalled ["service", "dns-client", "stop"] 3 =
    dispatchK envAll exPcKids ["service", "dns-client", "stop"] 3 := by decide +kernel

/-! non-vacuity of `C05_deep_edit_keeps_inst` on the REGENERATED schema: the same install seen from the SIMULATION root
(`network` / `node` / "pc" of `exInv`, the inventory with a computer, a firewall and a router) -/
def exPath : List Step := [.lit "network", .lit "node", .dyn .node "pc"]

theorem exDeepInstall_inst : Inst schema exVn rootMgr
    (editInv exPath (fun inv => inv.addChild .service "ftp-server" "FTPServer" (.mk [])) exInv)
    (editTree exPath (atKey "service" (addKey "ftp-server" (exVid []) (.node exSvcKids))) exKids) :=
  C05_deep_edit_keeps_inst schema exVn 8 .service "Computer" _ _
    (fun inv kids h =>
      C05_add_component_keeps_inst schema exVn (c := "Computer") (edges := exPcEdges) (by decide +kernel) h
        "service" [.nodeIsOn] "Node._service_request_manager" (by decide +kernel) (lv := .service) (ty := .str) (vs := [])
        (by decide +kernel) 8
        (frame_of_framedB schema 8 C05_gen_dynamic_sites.1 (c := "Computer") (edges := exPcEdges) (by decide +kernel)
          (by decide +kernel) "service" [.nodeIsOn] "Node._service_request_manager" (by decide +kernel)
          (lv := .service) (ty := .str) (vs := []) (by decide +kernel))
        "ftp-server" "FTPServer" (.mk []) (exVid []) exSvcKids (by decide +kernel) exSvcKids_inst)
    (fun inv lv' k' h => by
      simp only [Inv.addChild, Inv.children]
      exact findChild_addChildL_other (fun hh => h hh.1) _ _ _)
    exPath rootMgr exInv exKids exKids_inst (by decide +kernel)

example : dispatchK envAll exKids ["network", "node", "pc", "service", "ftp-server", "stop"] 0 = .unreachable 4 := by
  decide +kernel
example : (dispatchK envAll (editTree exPath (atKey "service" (addKey "ftp-server" (exVid []) (.node exSvcKids))) exKids)
    ["network", "node", "pc", "service", "ftp-server", "stop"] 0).isReached = true := by decide +kernel

/-- non-vacuity of `C05_any_path_edit_keeps_inst`: the same deep install, now WITHOUT a per-path condition — only "the path
exists" (decided for this inventory) and the schema-level `C05_gen_global_frame` -/
theorem exAnyPathInstall_inst : Inst schema exVn rootMgr
    (editInv exPath (fun i => i.addChild .service "ftp-server" "FTPServer" (.mk [])) exInv)
    (editTree exPath (atKey "service" (addKey "ftp-server" (exVid []) (.node exSvcKids))) exKids) :=
  (C05_any_path_edit_keeps_inst schema exVn 8 C05_gen_global_frame "Computer" exPcEdges (by decide +kernel)
    "service" [.nodeIsOn] "Node._service_request_manager" (by decide +kernel) .service .str [] (by decide +kernel)
    exPath rootMgr exInv exKids exKids_inst (by decide +kernel)).1
    "ftp-server" "FTPServer" (.mk []) (exVid []) exSvcKids (by decide +kernel) exSvcKids_inst

end Primaite.Schema

