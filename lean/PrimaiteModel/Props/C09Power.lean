/-
C09 — "all components of a node that is not on read as the zero/default encoding": one theorem family for EVERY node kind (host,
router, firewall) and EVERY power state other than ON (OFF, BOOTING, SHUTTING_DOWN — the regenerated `NodeOperatingState`), on the
code side (`observe`), through `describe_state()` of any ground truth (whatever ACL rules, port states, sessions, software the
objects hold), and for whole `NodesObservation`s; tied to the source by the shape of each `observe`'s power gate.
-/
import PrimaiteModel.Props.C09
import PrimaiteModel.Gen.ObsCfgTables
namespace Primaite.Obs
open Primaite.Gen
open Primaite.Gen.ObsEnums

/-- **the power gate of every node observation compares with ON** (`is_on = state["operating_state"] == 1`, branch `if not is_on:` →
a copy of the default; every component's `observe` is called only in the ON branch; the host alone then overwrites
`operating_status`) — not with OFF: a test `== OFF` would let BOOTING and SHUTTING_DOWN through (seeded C09-e) -/
theorem C09_gen_on_gate :
    ObsCfgTables.HostObservation_onGate =
      ("S['operating_state'] == 1", "not is_on", "copy-default", true, ["obs['operating_status'] = node_state['operating_state']", "return obs"]) ∧
    ObsCfgTables.RouterObservation_onGate = ("S['operating_state'] == 1", "not is_on", "copy-default", true, ["return obs"]) ∧
    ObsCfgTables.FirewallObservation_onGate = ("S['operating_state'] == 1", "not is_on", "copy-default", true, ["return obs"]) ∧
    NodeOperatingState.T.ON.value = nodeOn := by
  decide

/-- the states a node can be in besides ON: OFF, BOOTING, SHUTTING_DOWN (and nothing else) -/
theorem C09_not_on_states :
    NodeOperatingState.values.filter (fun v => decide (v ≠ nodeOn)) =
      [NodeOperatingState.T.OFF.value, NodeOperatingState.T.BOOTING.value, NodeOperatingState.T.SHUTTING_DOWN.value] := by
  decide

/-- a host's not-ON value IS its default observation except for the one leaf `operating_status`, which reports the power code -/
theorem C09_host_off_is_default_but_power (o : HostObs) (op : Nat) :
    ∃ rest, o.default = .dict ((.s "operating_status", .int 0) :: rest) ∧ o.offVal op = .dict ((.s "operating_status", .int op) :: rest) :=
  ⟨_, rfl, rfl⟩

/-- **code side, every node kind, every state other than ON**: the observation is the default encoding — for routers and firewalls
entirely (ACL slots, ports, sessions), for hosts every component leaf, with `operating_status` = the power code -/
theorem C09_not_on_family (st : SimState) (op : Nat) (hne : op ≠ nodeOn) :
    (∀ (o : HostObs) (n : NodeState), o.find st = some n → n.op = op → o.val st = o.offVal op) ∧
    (∀ (o : RouterObs) (h : String) (n : NodeState), o.wh = some h → st.node h = some n → n.op = op → o.val st = o.default) ∧
    (∀ (o : FirewallObs) (n : NodeState), st.node o.wh = some n → n.op = op → o.val st = o.default) := by
  refine ⟨?_, ?_, ?_⟩
  · intro o n hf hop
    have := (C09_not_on_default o st n hf (by rw [hop]; exact hne)).1
    rwa [hop] at this
  · intro o h n hw hn hop
    exact C09_not_on_default_router o st h n hw hn (by rw [hop]; exact hne)
  · intro o n hn hop
    exact C09_not_on_default_firewall o st n hn (by rw [hop]; exact hne)

/-- … in particular for each of the three transitional / off states of the regenerated enumeration -/
theorem C09_not_on_each_state (st : SimState) :
    ∀ op ∈ [NodeOperatingState.T.OFF.value, NodeOperatingState.T.BOOTING.value, NodeOperatingState.T.SHUTTING_DOWN.value],
      (∀ (o : RouterObs) (h : String) (n : NodeState), o.wh = some h → st.node h = some n → n.op = op → o.val st = o.default) ∧
      (∀ (o : FirewallObs) (n : NodeState), st.node o.wh = some n → n.op = op → o.val st = o.default) ∧
      (∀ (o : HostObs) (n : NodeState), o.find st = some n → n.op = op → o.val st = o.offVal op) := by
  intro op hop
  have hne : op ≠ nodeOn := by
    simp only [List.mem_cons, List.mem_nil_iff, or_false] at hop
    rcases hop with h | h | h <;> rw [h] <;> decide
  exact ⟨(C09_not_on_family st op hne).2.1, (C09_not_on_family st op hne).2.2, (C09_not_on_family st op hne).1⟩

/-! ### through `describe_state()` of ANY ground truth: whatever the objects hold -/

/-- **ground truth, router**: a router object that is not ON reads as the default encoding whatever rules its ACL holds, whatever
state its interfaces are in, whoever is logged in -/
theorem C09_not_on_truth_router (o : RouterObs) (t : Truth) (h : String) (n : NodeT) (hw : o.wh = some h) (hn : t.node h = some n)
    (hop : n.op ≠ 1) : o.val (describe t) = o.default ∧ o.spec t = o.default := by
  refine ⟨?_, by simp [RouterObs.spec, hw, hn, hop]⟩
  have hd : (describe t).node h = some (describeNode n).2 := by rw [describe_node, hn]; rfl
  exact C09_not_on_default_router o (describe t) h _ hw hd (by simpa [describeNode, nodeOn] using hop)

/-- **ground truth, firewall** (its six ACLs, three ports, sessions) -/
theorem C09_not_on_truth_firewall (o : FirewallObs) (t : Truth) (n : NodeT) (hn : t.node o.wh = some n) (hop : n.op ≠ 1) :
    o.val (describe t) = o.default ∧ o.spec t = o.default := by
  refine ⟨?_, by simp [FirewallObs.spec, hn, hop]⟩
  have hd : (describe t).node o.wh = some (describeNode n).2 := by rw [describe_node, hn]; rfl
  exact C09_not_on_default_firewall o (describe t) _ hd (by simpa [describeNode, nodeOn] using hop)

/-- **ground truth, host** (services, applications, folders, files, interfaces, counters, sessions) -/
theorem C09_not_on_truth_host (o : HostObs) (t : Truth) (h : String) (n : NodeT) (hw : o.wh = some h) (hn : t.node h = some n)
    (hop : n.op ≠ 1) : o.val (describe t) = o.offVal n.op ∧ o.spec t = o.offVal n.op := by
  refine ⟨?_, by simp [HostObs.spec, hw, hn, hop]⟩
  have hd : o.find (describe t) = some (describeNode n).2 := by
    unfold HostObs.find; rw [hw]; simp only []; rw [describe_node, hn]; rfl
  have := (C09_not_on_default o (describe t) _ hd (by simpa [describeNode, nodeOn] using hop)).1
  simpa [describeNode] using this

/-! ### a whole `NodesObservation` -/

/-- every router and firewall part of a nodes observation whose node is present and not ON is its default; every such host part is its
default with the power code — so when NO observed node is ON the whole observation is the default encoding up to the hosts' power codes -/
theorem C09_nodes_not_on (o : NodesObs) (st : SimState)
    (hr : ∀ r ∈ o.routers, ∃ h n, r.wh = some h ∧ st.node h = some n ∧ n.op ≠ nodeOn)
    (hf : ∀ f ∈ o.firewalls, ∃ n, st.node f.wh = some n ∧ n.op ≠ nodeOn) :
    o.routers.map (fun r => r.val st) = o.routers.map RouterObs.default ∧
    o.firewalls.map (fun f => f.val st) = o.firewalls.map FirewallObs.default := by
  refine ⟨List.map_congr_left (fun r hmem => ?_), List.map_congr_left (fun f hmem => ?_)⟩
  · obtain ⟨h, n, hw, hn, hop⟩ := hr r hmem
    exact C09_not_on_default_router r st h n hw hn hop
  · obtain ⟨n, hn, hop⟩ := hf f hmem
    exact C09_not_on_default_firewall f st n hn hop

/-! #### non-vacuity: a SHUTTING_DOWN router that holds a rule, an enabled port and a session reads as default; the same router ON does not -/

def exRouter : RouterObs :=
  { wh := some "r", ports := [{ wh := some ("r", 1) }], acl := AclObs.fromConfig (some ("r", "acl")) 2 ["10.0.0.1"] [] [80] ["tcp"], users := true }

def exRouterTruth (op : Nat) : Truth :=
  { nodes := [{ hostname := "r", op := op, services := [], apps := [], folders := [], deletedFolders := [],
                nics := [{ num := 1, enabled := true, speed := 100, icmp := none, ports := [], capturing := false, nmneIn := 0, nmneOut := 0 }],
                numCreations := 0, numDeletions := 0, hasUsm := true, localUser := some "admin", remoteSessions := 2,
                acls := [("acl", [some { action := 2, proto := some "tcp", srcIp := some "10.0.0.1", srcWc := none, srcPort := some 80,
                                         dstIp := none, dstWc := none, dstPort := none }, none])] }],
    links := [] }

def probeLocalLogin : Val → Option Nat
  | .dict kvs =>
    match lookupK (.s "users") kvs with
    | some (.dict us) => (match lookupK (.s "local_login") us with | some (.int i) => some i | _ => none)
    | _ => none
  | _ => none

example : exRouter.val (describe (exRouterTruth 4)) = exRouter.default ∧ exRouter.val (describe (exRouterTruth 3)) = exRouter.default ∧
    exRouter.val (describe (exRouterTruth 2)) = exRouter.default ∧ exRouter.val (describe (exRouterTruth 1)) ≠ exRouter.default := by
  refine ⟨(C09_not_on_truth_router exRouter _ "r" _ rfl rfl (by decide)).1, (C09_not_on_truth_router exRouter _ "r" _ rfl rfl (by decide)).1,
          (C09_not_on_truth_router exRouter _ "r" _ rfl rfl (by decide)).1, ?_⟩
  intro h
  have := congrArg probeLocalLogin h
  revert this
  decide

end Primaite.Obs
