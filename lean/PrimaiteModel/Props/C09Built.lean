import PrimaiteModel.Props.C09Cfg

/-! # C09 for what a scenario BUILDS: the construction invariants of `Obs.Faithful` discharged

`C09_observe_eq_spec` carries `Obs.Faithful`: folder memories coherent with the simulator (state-dependent, `Obs.Coh`), ACL id tables
without repeated entry (`Obs.CfgOk`, proved of every built object by `C02_raw_build_cfgOk`) and strictly ascending threshold triples
(now proved of every built object by `C09_built_thr_valid`, through the translated `_validate_thresholds`).  Here the three are put
together: for the object `ObservationManager` builds from ANY accepted `observation_space` section and thresholds, the only
hypothesis left on the object is the coherence of its folder memories. -/

namespace Primaite.Obs

mutual
/-- the state-dependent part of `Obs.Faithful`: every folder memory agrees with the simulator's visible health -/
def Obs.Coh (t : Truth) : Obs → Prop
  | .folder o => o.Coherent t
  | .host o => o.Coherent t
  | .nodes o => ∀ h ∈ o.hosts, h.Coherent t
  | .nested cs => Obs.CohL t cs
  | _ => True
def Obs.CohL (t : Truth) : List (String × Obs) → Prop
  | [] => True
  | c :: cs => c.2.Coh t ∧ Obs.CohL t cs
end

theorem HostObs.thrOk_of_valid (o : HostObs) (h : o.thrValid = true) : o.ThrOk := by
  simp only [HostObs.thrValid, Bool.and_eq_true, List.all_eq_true] at h
  exact ⟨fun a ha => (Thr.valid_iff _).mp (h.1.1 a ha), fun f hf x hx => (Thr.valid_iff _).mp (h.1.2 f hf x hx),
         fun n hn => (Thr.valid_iff _).mp (h.2 n hn)⟩

mutual
theorem faithful_of_parts (t : Truth) : ∀ o : Obs, o.Coh t → o.CfgOk → o.thrValid = true → o.Faithful t
  | .null, _, _, _ => trivial
  | .service _, _, _, _ => trivial
  | .app o, _, _, hv => (Thr.valid_iff _).mp hv
  | .file o, _, _, hv => (Thr.valid_iff _).mp hv
  | .folder o, hc, _, hv => ⟨hc, fun x hx => (Thr.valid_iff _).mp (by simp only [Obs.thrValid, List.all_eq_true] at hv; exact hv x hx)⟩
  | .nic o, _, _, hv => (Thr.valid_iff _).mp hv
  | .port _, _, _, _ => trivial
  | .link _, _, _, _ => trivial
  | .links _, _, _, _ => trivial
  | .acl o, _, hk, _ => hk
  | .host o, hc, _, hv => ⟨hc, o.thrOk_of_valid hv⟩
  | .router o, _, hk, _ => hk
  | .firewall _, _, _, _ => trivial
  | .nodes o, hc, hk, hv => by
    simp only [Obs.thrValid, List.all_eq_true] at hv
    exact ⟨fun h hh => ⟨hc h hh, h.thrOk_of_valid (hv h hh)⟩, hk⟩
  | .nested cs, hc, hk, hv => faithfulL_of_parts t cs hc hk hv
theorem faithfulL_of_parts (t : Truth) : ∀ cs : List (String × Obs), Obs.CohL t cs → Obs.CfgOkL cs → Obs.thrValidL cs = true → Obs.FaithfulL t cs
  | [], _, _, _ => trivial
  | c :: cs, hc, hk, hv => by
    simp only [Obs.thrValidL, Bool.and_eq_true] at hv
    exact ⟨faithful_of_parts t c.2 hc.1 hk.1 hv.1, faithfulL_of_parts t cs hc.2 hk.2 hv.2⟩
end

/-- **C09 from the scenario's words**: for the object built (constructors' validation included) from ANY `observation_space` section
and thresholds, and every ground truth with which its folder memories are coherent, `observe(describe_state())` is the documented
encoding of the objects — no hypothesis about thresholds or id tables is left -/
theorem C09_built_observe_eq_spec (thr : ThrCfg) (r : RawObs) (o : Obs) (hb : r.buildV thr = some o) (t : Truth) (wt : WfTruth t)
    (hc : o.Coh t) : o.val (describe t) = o.spec t := by
  obtain ⟨hbuild, hvalid⟩ := buildV_some thr r o hb
  exact C09_observe_eq_spec t wt o
    (faithful_of_parts t o hc (C02_raw_build_cfgOk thr r o hbuild) (C09_built_thr_valid thr r o hbuild hvalid))

/-! ### F-C09-4 / F-C09-5 (repaired by 59ceb16): the folder cache belongs to ONE folder object

The cache is tied to the uuid of the folder it was read from; nothing is reset while the name is absent. -/

/-- a cache read from folder object `u` is never used for another object under the same name: its own visible health is read -/
theorem C09_folder_cache_forgotten (o : FolderObs) (f : FolderState) (u : Nat) (hscan : o.scan = true)
    (hu : o.cachedFor = some u) (hne : f.uid ≠ some u) : o.health f = f.visible :=
  FolderObs.health_eq_visible o f hscan (fun _ hsame => by
    rcases hsame with h | h
    · rw [hu] at h; cases h
    · rw [hu] at h; exact absurd h.symm hne)

/-- observing a state in which the folder is not there changes nothing in the memory -/
theorem C09_absent_keeps_memory (o : FolderObs) (st : SimState) (h : o.find st = none) : o.next st = o := by
  simp [FolderObs.next, h]

/-- hence a folder created LATER under the name of a deleted one and not yet scanned (visible NONE = 0) reads as never scanned,
whatever the deleted folder's last-scanned health was — whether the name was seen absent in between (F-C09-4: `st`) or not (F-C09-5) -/
theorem C09_recreated_folder_reads_unscanned (o : FolderObs) (f : FolderState) (u : Nat) (hscan : o.scan = true)
    (hu : o.cachedFor = some u) (hne : f.uid ≠ some u) (hv : f.visible = 0) :
    o.health f = 0 ∧ ∀ st, o.find st = none → (o.next st).health f = 0 := by
  have h0 := C09_folder_cache_forgotten o f u hscan hu hne
  exact ⟨by rw [h0, hv], fun st h => by rw [C09_absent_keeps_memory o st h, h0, hv]⟩

/-- and the SAME folder, deleted (observed as absent) and restored, still reads its last-scanned health until its next scan -/
theorem C09_same_folder_restored_keeps_last_scanned (o : FolderObs) (st : SimState) (f : FolderState) (h : o.find st = none)
    (hscan : o.scan = true) (hu : o.cachedFor = f.uid) (hs : f.scanned = false) : (o.next st).health f = o.cached := by
  rw [C09_absent_keeps_memory o st h]
  have : o.sameFolder f = true := (o.sameFolder_iff f).mpr (Or.inr hu)
  simp [FolderObs.health, hscan, hs, this]

/-- non-vacuity: cache 1 (GOOD) read from object 7; a new object 8 with visible 0 reads 0, object 7 restored reads 1 -/
example : (({ wh := some ("h", "d"), scan := true, files := [], cached := 1, cachedFor := some 7 } : FolderObs).health
             { health := 1, visible := 0, scanned := false, files := [], uid := some 8 } = 0) ∧
          (({ wh := some ("h", "d"), scan := true, files := [], cached := 1, cachedFor := some 7 } : FolderObs).health
             { health := 1, visible := 1, scanned := false, files := [], uid := some 7 } = 1) := by decide

end Primaite.Obs
