/-
C14 — the INVENTORY of writers, tied to the source (round 3).

`Gen/Health.lean` (extractor harness/extract/health.py, pure `ast`, whole tree under src/primaite) lists
* `inventory`  every way a health / visibility / countdown field is written: attribute assignments and augmented assignments to
               `health_state_actual`, `health_state_visible`, `health_status`, `visible_health_status`, `revealed_to_red`,
               `_scanned_this_step` and every `*_countdown`; class-level defaults; calls of `set_health_state`; constructor
               keywords named like a field; constructors fed with `**x.model_dump(…)`; any `setattr` / `__dict__[…] =` —
               each with file, function, value and the guard (enclosing tests, negated early exits) under which it runs;
* `triggers`   every call site of a method that contains such a write (`scan`, `fix`, `corrupt`, `repair`, `restore`, …);
* `tickBodies` the statements of every `apply_timestep` between the simulation and a health item.

This file holds the hand-written counterpart: each row paired with the EVENT of the model that stands for it (`Ev`), or with
`outOfScope` for the three fields that are not C14 observables (red-agent reveal, the observation refresh flag). The
obligations `C14_gen_inventory`, `C14_gen_triggers`, `C14_gen_tick_bodies` say "the source's inventory = this table": a new
writer, a new caller of a writer, a changed guard or value, or an edited timestep body anywhere in the tree breaks one of them.
The theorems `C14_inv_*` then state the property against the table: a health value changes in a step only if the step
contains one of the events that the table lists for that field.
-/
import PrimaiteModel.Props.C14Dyn
import PrimaiteModel.Props.C14Life
import PrimaiteModel.Gen.Health
namespace Primaite.Health
open Primaite.Gen.Health (W T)

/-- the events of the model that write a health / countdown field -/
inductive Ev
  /-- initial values of a fresh item (class defaults, `Software.__init__`): `SwSpec.construct`, `freshFile`, `freshFolder`, the rig's start state -/
  | construct
  /-- the body of `set_health_state` = `Sw.setHealth` (every `call` row goes through it) -/
  | swSetter
  | swScan | swFixStart | swFixTick | swCompromise
  /-- first start / run: UNUSED → GOOD (`Sw.wake`) -/
  | swWake
  /-- external writers of software health = `Op.swSet` (connection capacity, web-server dependency, database restore) -/
  | swExternal
  | appInstallStart | appInstallTick | svcRestartStart | svcRestartTick
  | fileScan | fileCorrupt | fileRepair | fileRestore
  /-- `copy_file`: the copy carries every field of its source = `DOp.fsCopyFile` -/
  | fileCopy
  /-- external writers of file health = `Op.fileSet` (database queries, FTP transfer) -/
  | fileExternal
  /-- `restore_backup` carries the replaced file's visible status over = `DOp.dbReplace` -/
  | dbReplace
  | folderScanStart | folderScanTick | folderInstantScan | folderCorrupt | folderRepair | folderRestoreStart | folderRestoreTick
  /-- the database folder marked CORRUPT by an ENCRYPT query = `DOp.folderSet` -/
  | folderExternal
  | nodeScanStart | nodeScanTick | nodePowerOn | nodePowerOff | nodePowerTick
  /-- the node's reveal-to-red countdown (`Op.redScan`, `Node.redPhase`): modelled because it ticks in the block of the whole-node
  scan; what it reveals is not health -/
  | nodeRedScan
  /-- `Folder.pre_timestep` clears the observation refresh flag = `Folder.pre` / `Node.pre` (Model/HealthObs.lean) -/
  | folderPre
  /-- not a C14 observable: `revealed_to_red`, `red_scan_countdown` (red agent's view), the folders' own `red_scan_countdown` -/
  | outOfScope
deriving DecidableEq, Repr

/-- every writer of the source, with the model event that stands for it -/
def modelWriters : List (W × Ev) := [
  (⟨"simulator/file_system/file.py", "File.corrupt", "health_status", "assign", "self.health_status", "FileSystemItemHealthStatus.CORRUPT", "not (self.deleted) && self.health_status == FileSystemItemHealthStatus.GOOD"⟩, .fileCorrupt),
  (⟨"simulator/file_system/file.py", "File.repair", "health_status", "assign", "self.health_status", "FileSystemItemHealthStatus.GOOD", "not (self.deleted) && self.health_status == FileSystemItemHealthStatus.CORRUPT"⟩, .fileRepair),
  (⟨"simulator/file_system/file.py", "File.restore", "health_status", "assign", "self.health_status", "FileSystemItemHealthStatus.GOOD", "not (self.deleted) && self.health_status == FileSystemItemHealthStatus.CORRUPT"⟩, .fileRestore),
  (⟨"simulator/file_system/file.py", "File.reveal_to_red", "revealed_to_red", "assign", "self.revealed_to_red", "True", "not (self.deleted)"⟩, .outOfScope),
  (⟨"simulator/file_system/file.py", "File.scan", "visible_health_status", "assign", "self.visible_health_status", "self.health_status", "<translated: C14GenScan>"⟩, .fileScan),
  (⟨"simulator/file_system/file_system.py", "FileSystem.copy_file", "*", "copy", "File", "file.model_dump(exclude={'uuid', 'folder_id', 'folder_name', 'sim_path'})", "file"⟩, .fileCopy),
  (⟨"simulator/file_system/file_system_item_abc.py", "FileSystemItemABC", "health_status", "default", "health_status", "FileSystemItemHealthStatus.GOOD", ""⟩, .construct),
  (⟨"simulator/file_system/file_system_item_abc.py", "FileSystemItemABC", "revealed_to_red", "default", "revealed_to_red", "False", ""⟩, .construct),
  (⟨"simulator/file_system/file_system_item_abc.py", "FileSystemItemABC", "visible_health_status", "default", "visible_health_status", "FileSystemItemHealthStatus.NONE", ""⟩, .construct),
  (⟨"simulator/file_system/folder.py", "Folder", "red_scan_countdown", "default", "red_scan_countdown", "0", ""⟩, .construct),
  (⟨"simulator/file_system/folder.py", "Folder", "restore_countdown", "default", "restore_countdown", "0", ""⟩, .construct),
  (⟨"simulator/file_system/folder.py", "Folder", "scan_countdown", "default", "scan_countdown", "0", ""⟩, .construct),
  (⟨"simulator/file_system/folder.py", "Folder.__init__", "_scanned_this_step", "assign", "self._scanned_this_step", "False", ""⟩, .construct),
  (⟨"simulator/file_system/folder.py", "Folder._restoring_timestep", "health_status", "assign", "self.health_status", "FileSystemItemHealthStatus.GOOD", "self.restore_countdown >= 0 && self.restore_countdown == 0 && not (self.deleted) && self.health_status in [FileSystemItemHealthStatus.CORRUPT, FileSystemItemHealthStatus.RESTORING]"⟩, .folderRestoreTick),
  (⟨"simulator/file_system/folder.py", "Folder._restoring_timestep", "restore_countdown", "augSub", "self.restore_countdown", "1", "self.restore_countdown >= 0"⟩, .folderRestoreTick),
  (⟨"simulator/file_system/folder.py", "Folder._reveal_to_red_timestep", "red_scan_countdown", "augSub", "self.red_scan_countdown", "1", "self.red_scan_countdown >= 0"⟩, .outOfScope),
  (⟨"simulator/file_system/folder.py", "Folder._reveal_to_red_timestep", "revealed_to_red", "assign", "self.revealed_to_red", "True", "self.red_scan_countdown >= 0 && self.red_scan_countdown == 0"⟩, .outOfScope),
  (⟨"simulator/file_system/folder.py", "Folder._scan_timestep", "_scanned_this_step", "assign", "self._scanned_this_step", "True", "<translated: C14GenScan>"⟩, .folderScanTick),
  (⟨"simulator/file_system/folder.py", "Folder._scan_timestep", "health_status", "assign", "self.health_status", "FileSystemItemHealthStatus(max([f.health_status.value for f in self.files.values()] or [0]))", "<translated: C14GenScan>"⟩, .folderScanTick),
  (⟨"simulator/file_system/folder.py", "Folder._scan_timestep", "scan_countdown", "augSub", "self.scan_countdown", "1", "<translated: C14GenScan>"⟩, .folderScanTick),
  (⟨"simulator/file_system/folder.py", "Folder._scan_timestep", "visible_health_status", "assign", "self.visible_health_status", "self.health_status", "<translated: C14GenScan>"⟩, .folderScanTick),
  (⟨"simulator/file_system/folder.py", "Folder.corrupt", "health_status", "assign", "self.health_status", "FileSystemItemHealthStatus.CORRUPT", "not (self.deleted)"⟩, .folderCorrupt),
  (⟨"simulator/file_system/folder.py", "Folder.pre_timestep", "_scanned_this_step", "assign", "self._scanned_this_step", "False", ""⟩, .folderPre),
  (⟨"simulator/file_system/folder.py", "Folder.repair", "health_status", "assign", "self.health_status", "FileSystemItemHealthStatus.GOOD", "not (self.deleted)"⟩, .folderRepair),
  (⟨"simulator/file_system/folder.py", "Folder.repair", "health_status", "assign", "self.health_status", "FileSystemItemHealthStatus.GOOD", "not (self.deleted) && self.health_status == FileSystemItemHealthStatus.CORRUPT"⟩, .folderRepair),
  (⟨"simulator/file_system/folder.py", "Folder.restore", "health_status", "assign", "self.health_status", "FileSystemItemHealthStatus.RESTORING", "self.restore_countdown <= 0"⟩, .folderRestoreStart),
  (⟨"simulator/file_system/folder.py", "Folder.restore", "restore_countdown", "assign", "self.restore_countdown", "max(self.restore_duration, 1)", "self.restore_countdown <= 0"⟩, .folderRestoreStart),
  (⟨"simulator/file_system/folder.py", "Folder.reveal_to_red", "red_scan_countdown", "assign", "self.red_scan_countdown", "self.red_scan_duration", "not (self.deleted) && not (instant_scan) && self.red_scan_countdown <= 0"⟩, .outOfScope),
  (⟨"simulator/file_system/folder.py", "Folder.reveal_to_red", "revealed_to_red", "assign", "self.revealed_to_red", "True", "not (self.deleted) && instant_scan"⟩, .outOfScope),
  (⟨"simulator/file_system/folder.py", "Folder.scan", "_scanned_this_step", "assign", "self._scanned_this_step", "True", "<translated: C14GenScan>"⟩, .folderInstantScan),
  (⟨"simulator/file_system/folder.py", "Folder.scan", "scan_countdown", "assign", "self.scan_countdown", "max(self.scan_duration, 1)", "<translated: C14GenScan>"⟩, .folderScanStart),
  (⟨"simulator/file_system/folder.py", "Folder.scan", "visible_health_status", "assign", "self.visible_health_status", "FileSystemItemHealthStatus.CORRUPT", "<translated: C14GenScan>"⟩, .folderInstantScan),
  (⟨"simulator/network/hardware/base.py", "Node", "node_scan_countdown", "default", "node_scan_countdown", "0", ""⟩, .construct),
  (⟨"simulator/network/hardware/base.py", "Node", "red_scan_countdown", "default", "red_scan_countdown", "0", ""⟩, .construct),
  (⟨"simulator/network/hardware/base.py", "Node.ConfigSchema", "revealed_to_red", "default", "revealed_to_red", "False", ""⟩, .construct),
  (⟨"simulator/network/hardware/base.py", "Node.ConfigSchema", "shut_down_countdown", "default", "shut_down_countdown", "0", ""⟩, .construct),
  (⟨"simulator/network/hardware/base.py", "Node.ConfigSchema", "start_up_countdown", "default", "start_up_countdown", "0", ""⟩, .construct),
  (⟨"simulator/network/hardware/base.py", "Node.apply_timestep", "node_scan_countdown", "augSub", "self.node_scan_countdown", "1", "self.operating_state == NodeOperatingState.ON && self.node_scan_countdown > 0"⟩, .nodeScanTick),
  (⟨"simulator/network/hardware/base.py", "Node.apply_timestep", "red_scan_countdown", "augSub", "self.red_scan_countdown", "1", "self.operating_state == NodeOperatingState.ON && self.red_scan_countdown > 0"⟩, .nodeRedScan),
  (⟨"simulator/network/hardware/base.py", "Node.apply_timestep", "shut_down_countdown", "augSub", "self.config.shut_down_countdown", "1", "self.config.shut_down_countdown > 0"⟩, .nodePowerTick),
  (⟨"simulator/network/hardware/base.py", "Node.apply_timestep", "start_up_countdown", "augSub", "self.config.start_up_countdown", "1", "self.config.start_up_countdown > 0"⟩, .nodePowerTick),
  (⟨"simulator/network/hardware/base.py", "Node.power_off", "shut_down_countdown", "assign", "self.config.shut_down_countdown", "self.config.shut_down_duration", "not (self.config.shut_down_duration <= 0) && self.operating_state == NodeOperatingState.ON"⟩, .nodePowerOff),
  (⟨"simulator/network/hardware/base.py", "Node.power_on", "start_up_countdown", "assign", "self.config.start_up_countdown", "self.config.start_up_duration", "not (self.config.start_up_duration <= 0) && self.operating_state == NodeOperatingState.OFF"⟩, .nodePowerOn),
  (⟨"simulator/network/hardware/base.py", "Node.reveal_to_red", "red_scan_countdown", "assign", "self.red_scan_countdown", "self.config.node_scan_duration", ""⟩, .nodeRedScan),
  (⟨"simulator/network/hardware/base.py", "Node.scan", "node_scan_countdown", "assign", "self.node_scan_countdown", "max(self.config.node_scan_duration, 1)", "<translated: C14GenScan>"⟩, .nodeScanStart),
  (⟨"simulator/system/applications/application.py", "Application", "install_countdown", "default", "install_countdown", "None", ""⟩, .construct),
  (⟨"simulator/system/applications/application.py", "Application.apply_timestep", "health_state_actual", "assign", "self.health_state_actual", "SoftwareHealthState.GOOD", "self.operating_state is ApplicationOperatingState.INSTALLING && self.install_countdown <= 0"⟩, .appInstallTick),
  (⟨"simulator/system/applications/application.py", "Application.apply_timestep", "install_countdown", "assign", "self.install_countdown", "None", "self.operating_state is ApplicationOperatingState.INSTALLING && self.install_countdown <= 0"⟩, .appInstallTick),
  (⟨"simulator/system/applications/application.py", "Application.apply_timestep", "install_countdown", "augSub", "self.install_countdown", "1", "self.operating_state is ApplicationOperatingState.INSTALLING"⟩, .appInstallTick),
  (⟨"simulator/system/applications/application.py", "Application.install", "install_countdown", "assign", "self.install_countdown", "self.install_duration", "self.operating_state == ApplicationOperatingState.CLOSED"⟩, .appInstallStart),
  (⟨"simulator/system/applications/application.py", "Application.run", "health_state_actual", "call", "self.set_health_state", "SoftwareHealthState.GOOD", "not (not super()._can_perform_action()) && self.operating_state == ApplicationOperatingState.CLOSED && self.health_state_actual == SoftwareHealthState.UNUSED"⟩, .swWake),
  (⟨"simulator/system/services/database/database_service.py", "DatabaseService._process_sql", "health_status", "assign", "database_folder.health_status", "FileSystemItemHealthStatus.CORRUPT", "not (not self.db_file) && not (self.health_state_actual is not SoftwareHealthState.GOOD) && not (query == 'SELECT') && not (query == 'DELETE') && query == 'ENCRYPT'"⟩, .folderExternal),
  (⟨"simulator/system/services/database/database_service.py", "DatabaseService._process_sql", "health_status", "assign", "self.db_file.health_status", "FileSystemItemHealthStatus.COMPROMISED", "not (not self.db_file) && not (self.health_state_actual is not SoftwareHealthState.GOOD) && not (query == 'SELECT') && query == 'DELETE'"⟩, .fileExternal),
  (⟨"simulator/system/services/database/database_service.py", "DatabaseService._process_sql", "health_status", "assign", "self.db_file.health_status", "FileSystemItemHealthStatus.CORRUPT", "not (not self.db_file) && not (self.health_state_actual is not SoftwareHealthState.GOOD) && not (query == 'SELECT') && not (query == 'DELETE') && query == 'ENCRYPT'"⟩, .fileExternal),
  (⟨"simulator/system/services/database/database_service.py", "DatabaseService.restore_backup", "health_state_actual", "call", "self.set_health_state", "SoftwareHealthState.GOOD", "not (not self._can_perform_action()) && not (self.backup_server_ip is None) && not (not ftp_client_service) && not (not response) && not (self.file_system.get_file(folder_name='downloads', file_name='database.db') is None) && not (db_file is None) && not (self.db_file is None)"⟩, .swExternal),
  (⟨"simulator/system/services/database/database_service.py", "DatabaseService.restore_backup", "visible_health_status", "assign", "self.db_file.visible_health_status", "old_visible_state", "not (not self._can_perform_action()) && not (self.backup_server_ip is None) && not (not ftp_client_service) && not (not response) && not (self.file_system.get_file(folder_name='downloads', file_name='database.db') is None) && not (db_file is None) && not (self.db_file is None)"⟩, .dbReplace),
  (⟨"simulator/system/services/ftp/ftp_service.py", "FTPServiceABC._store_data", "health_status", "assign", "file.health_status", "health_status", "try"⟩, .fileExternal),
  (⟨"simulator/system/services/service.py", "Service", "restart_countdown", "default", "restart_countdown", "None", ""⟩, .construct),
  (⟨"simulator/system/services/service.py", "Service.apply_timestep", "restart_countdown", "augSub", "self.restart_countdown", "1", "self.operating_state == ServiceOperatingState.RESTARTING"⟩, .svcRestartTick),
  (⟨"simulator/system/services/service.py", "Service.restart", "restart_countdown", "assign", "self.restart_countdown", "self.restart_duration", "self.operating_state in [ServiceOperatingState.RUNNING, ServiceOperatingState.PAUSED]"⟩, .svcRestartStart),
  (⟨"simulator/system/services/service.py", "Service.start", "health_state_actual", "call", "self.set_health_state", "SoftwareHealthState.GOOD", "not (not super()._can_perform_action()) && self.operating_state == ServiceOperatingState.STOPPED && self.health_state_actual == SoftwareHealthState.UNUSED"⟩, .swWake),
  (⟨"simulator/system/services/web_server/web_server.py", "WebServer._handle_get_request", "health_state_actual", "call", "self.set_health_state", "SoftwareHealthState.COMPROMISED", "path.startswith('users') && not (not self._establish_db_connection()) && not (self.db_connection.query('SELECT'))"⟩, .swExternal),
  (⟨"simulator/system/services/web_server/web_server.py", "WebServer._handle_get_request", "health_state_actual", "call", "self.set_health_state", "SoftwareHealthState.GOOD", "path.startswith('users') && not (not self._establish_db_connection()) && self.db_connection.query('SELECT')"⟩, .swExternal),
  (⟨"simulator/system/software.py", "IOSoftware.add_connection", "health_state_actual", "call", "self.set_health_state", "SoftwareHealthState.GOOD", "not (len(self._connections) >= self.max_sessions) && self.health_state_actual == SoftwareHealthState.OVERWHELMED"⟩, .swExternal),
  (⟨"simulator/system/software.py", "IOSoftware.add_connection", "health_state_actual", "call", "self.set_health_state", "SoftwareHealthState.OVERWHELMED", "len(self._connections) >= self.max_sessions"⟩, .swExternal),
  (⟨"simulator/system/software.py", "Software", "_fixing_countdown", "default", "_fixing_countdown", "None", ""⟩, .construct),
  (⟨"simulator/system/software.py", "Software", "health_state_actual", "default", "health_state_actual", "SoftwareHealthState.UNUSED", ""⟩, .construct),
  (⟨"simulator/system/software.py", "Software", "health_state_visible", "default", "health_state_visible", "SoftwareHealthState.UNUSED", ""⟩, .construct),
  (⟨"simulator/system/software.py", "Software", "revealed_to_red", "default", "revealed_to_red", "False", ""⟩, .construct),
  (⟨"simulator/system/software.py", "Software.__init__", "_fixing_countdown", "assign", "self._fixing_countdown", "self.config.fixing_duration", "self.health_state_actual == SoftwareHealthState.FIXING and self._fixing_countdown is None"⟩, .construct),
  (⟨"simulator/system/software.py", "Software.__init__", "health_state_actual", "assign", "self.health_state_actual", "self.config.starting_health_state", ""⟩, .construct),
  (⟨"simulator/system/software.py", "Software._init_request_manager", "health_state_actual", "call", "self.set_health_state", "SoftwareHealthState.COMPROMISED", ""⟩, .swCompromise),
  (⟨"simulator/system/software.py", "Software._update_fix_status", "_fixing_countdown", "assign", "self._fixing_countdown", "None", "self._fixing_countdown <= 0"⟩, .swFixTick),
  (⟨"simulator/system/software.py", "Software._update_fix_status", "_fixing_countdown", "augSub", "self._fixing_countdown", "1", ""⟩, .swFixTick),
  (⟨"simulator/system/software.py", "Software._update_fix_status", "health_state_actual", "call", "self.set_health_state", "SoftwareHealthState.GOOD", "self._fixing_countdown <= 0"⟩, .swFixTick),
  (⟨"simulator/system/software.py", "Software.fix", "_fixing_countdown", "assign", "self._fixing_countdown", "self.config.fixing_duration", "self.health_state_actual in (SoftwareHealthState.COMPROMISED, SoftwareHealthState.GOOD)"⟩, .swFixStart),
  (⟨"simulator/system/software.py", "Software.fix", "health_state_actual", "call", "self.set_health_state", "SoftwareHealthState.FIXING", "self.health_state_actual in (SoftwareHealthState.COMPROMISED, SoftwareHealthState.GOOD)"⟩, .swFixStart),
  (⟨"simulator/system/software.py", "Software.reveal_to_red", "revealed_to_red", "assign", "self.revealed_to_red", "True", ""⟩, .outOfScope),
  (⟨"simulator/system/software.py", "Software.scan", "health_state_visible", "assign", "self.health_state_visible", "self.health_state_actual", "<translated: C14GenScan>"⟩, .swScan),
  (⟨"simulator/system/software.py", "Software.set_health_state", "health_state_actual", "assign", "self.health_state_actual", "health_state", ""⟩, .swSetter)
]

/-- where a writer method is called from -/
inductive Site
  /-- `FileSystemItemABC` request handlers (files and folders): `File.handle` / `Folder.handle` -/
  | reqItem
  /-- file-system level restore requests: `Op.fsRestoreFile` / `Op.fsRestoreFolder` -/
  | reqFs
  /-- `scan` / `fix` requests of software, service, application: `Sw.handle` -/
  | reqSw
  /-- `["os","scan"]` (and the red-agent `["scan"]`) -/
  | reqNode
  /-- the fan-out of the whole-node scan inside `Node.apply_timestep`: `Node.scanPhase` -/
  | tickNodeScan
  /-- `Folder.apply_timestep` and the two timed helpers: `Folder.tick` -/
  | tickFolder
  /-- `Software.apply_timestep` → `_update_fix_status`: `Sw.fixTick` -/
  | tickSw
  /-- a writer that applies the same operation to its children / delegates downwards (folder → files, file system → folder) -/
  | cascade
  /-- `DatabaseService._update_fix_status` → `restore_backup`: `DOp.tickDb` -/
  | dbFixDone
  /-- behind an unconditional `return False` (`check_hash` is "not implemented") -/
  | dead
  /-- red-agent reveal: not a C14 observable -/
  | red
deriving DecidableEq, Repr

def modelTriggers : List (T × Site) := [
  (⟨"simulator/file_system/file.py", "File.check_hash", "self.corrupt()"⟩, .dead),
  (⟨"simulator/file_system/file_system.py", "FileSystem._init_request_manager", "self.restore_file(folder_name=request[0], file_name=request[1])"⟩, .reqFs),
  (⟨"simulator/file_system/file_system.py", "FileSystem._init_request_manager", "self.restore_folder(folder_name=request[0])"⟩, .reqFs),
  (⟨"simulator/file_system/file_system.py", "FileSystem.restore_file", "folder.restore_file(file_name=file_name)"⟩, .cascade),
  (⟨"simulator/file_system/file_system.py", "FileSystem.restore_folder", "folder.restore()"⟩, .cascade),
  (⟨"simulator/file_system/file_system.py", "FileSystem.reveal_to_red", "self.folders[folder_id].reveal_to_red(instant_scan=instant_scan)"⟩, .red),
  (⟨"simulator/file_system/file_system.py", "FileSystem.scan", "self.folders[folder_id].scan(instant_scan=instant_scan)"⟩, .cascade),
  (⟨"simulator/file_system/file_system_item_abc.py", "FileSystemItemABC._init_request_manager", "self.check_hash()"⟩, .reqItem),
  (⟨"simulator/file_system/file_system_item_abc.py", "FileSystemItemABC._init_request_manager", "self.corrupt()"⟩, .reqItem),
  (⟨"simulator/file_system/file_system_item_abc.py", "FileSystemItemABC._init_request_manager", "self.repair()"⟩, .reqItem),
  (⟨"simulator/file_system/file_system_item_abc.py", "FileSystemItemABC._init_request_manager", "self.restore()"⟩, .reqItem),
  (⟨"simulator/file_system/file_system_item_abc.py", "FileSystemItemABC._init_request_manager", "self.scan()"⟩, .reqItem),
  (⟨"simulator/file_system/folder.py", "Folder._restoring_timestep", "self.restore_file(file_name=file.name)"⟩, .tickFolder),
  (⟨"simulator/file_system/folder.py", "Folder._restoring_timestep", "self.restore_file(file_name=file.name)"⟩, .tickFolder),
  (⟨"simulator/file_system/folder.py", "Folder._reveal_to_red_timestep", "file.reveal_to_red()"⟩, .red),
  (⟨"simulator/file_system/folder.py", "Folder._scan_timestep", "file.scan()"⟩, .tickFolder),
  (⟨"simulator/file_system/folder.py", "Folder.apply_timestep", "self._restoring_timestep()"⟩, .tickFolder),
  (⟨"simulator/file_system/folder.py", "Folder.apply_timestep", "self._reveal_to_red_timestep()"⟩, .red),
  (⟨"simulator/file_system/folder.py", "Folder.apply_timestep", "self._scan_timestep()"⟩, .tickFolder),
  (⟨"simulator/file_system/folder.py", "Folder.check_hash", "file.check_hash()"⟩, .dead),
  (⟨"simulator/file_system/folder.py", "Folder.check_hash", "self.corrupt()"⟩, .dead),
  (⟨"simulator/file_system/folder.py", "Folder.corrupt", "file.corrupt()"⟩, .cascade),
  (⟨"simulator/file_system/folder.py", "Folder.repair", "file.repair()"⟩, .cascade),
  (⟨"simulator/file_system/folder.py", "Folder.restore_file", "file.restore()"⟩, .cascade),
  (⟨"simulator/file_system/folder.py", "Folder.reveal_to_red", "file.reveal_to_red()"⟩, .red),
  (⟨"simulator/file_system/folder.py", "Folder.scan", "file.scan()"⟩, .cascade),
  (⟨"simulator/network/hardware/base.py", "Node._init_request_manager", "self.reveal_to_red()"⟩, .red),
  (⟨"simulator/network/hardware/base.py", "Node._init_request_manager", "self.scan()"⟩, .reqNode),
  (⟨"simulator/network/hardware/base.py", "Node.apply_timestep", "self.applications[application_id].reveal_to_red()"⟩, .red),
  (⟨"simulator/network/hardware/base.py", "Node.apply_timestep", "self.applications[application_id].scan()"⟩, .tickNodeScan),
  (⟨"simulator/network/hardware/base.py", "Node.apply_timestep", "self.file_system.reveal_to_red(instant_scan=True)"⟩, .red),
  (⟨"simulator/network/hardware/base.py", "Node.apply_timestep", "self.file_system.scan(instant_scan=True)"⟩, .tickNodeScan),
  (⟨"simulator/network/hardware/base.py", "Node.apply_timestep", "self.processes[process_id].reveal_to_red()"⟩, .red),
  (⟨"simulator/network/hardware/base.py", "Node.apply_timestep", "self.processes[process_id].scan()"⟩, .tickNodeScan),
  (⟨"simulator/network/hardware/base.py", "Node.apply_timestep", "self.services[service_id].reveal_to_red()"⟩, .red),
  (⟨"simulator/network/hardware/base.py", "Node.apply_timestep", "self.services[service_id].scan()"⟩, .tickNodeScan),
  (⟨"simulator/system/applications/application.py", "Application._init_request_manager", "self.fix()"⟩, .reqSw),
  (⟨"simulator/system/applications/application.py", "Application._init_request_manager", "self.scan()"⟩, .reqSw),
  (⟨"simulator/system/services/database/database_service.py", "DatabaseService._update_fix_status", "self.restore_backup()"⟩, .dbFixDone),
  (⟨"simulator/system/services/database/database_service.py", "DatabaseService._update_fix_status", "super()._update_fix_status()"⟩, .tickSw),
  (⟨"simulator/system/services/service.py", "Service._init_request_manager", "self.fix()"⟩, .reqSw),
  (⟨"simulator/system/services/service.py", "Service._init_request_manager", "self.scan()"⟩, .reqSw),
  (⟨"simulator/system/software.py", "Software._init_request_manager", "self.fix()"⟩, .reqSw),
  (⟨"simulator/system/software.py", "Software._init_request_manager", "self.scan()"⟩, .reqSw),
  (⟨"simulator/system/software.py", "Software.apply_timestep", "self._update_fix_status()"⟩, .tickSw)
]

def modelTickBodies : List (String × List String) := [
  ("Simulation.apply_timestep", ["super().apply_timestep(timestep)", "self.network.apply_timestep(timestep)"]),
  ("Network.apply_timestep", ["super().apply_timestep(timestep=timestep)", "for node_id in self.nodes: self.nodes[node_id].apply_timestep(timestep=timestep)", "for link_id in self.links: self.links[link_id].apply_timestep(timestep=timestep)"]),
  ("Software.apply_timestep", ["super().apply_timestep(timestep)", "if self.health_state_actual == SoftwareHealthState.FIXING: self._update_fix_status()"]),
  ("Software._update_fix_status", ["self._fixing_countdown -= 1", "if self._fixing_countdown <= 0: self.set_health_state(SoftwareHealthState.GOOD) self._fixing_countdown = None self.fixing_count += 1"]),
  ("Service.apply_timestep", ["super().apply_timestep(timestep)", "if self.operating_state == ServiceOperatingState.RESTARTING: if self.restart_countdown <= 0: self.sys_log.debug(f'Restarting finished for service {self.name}') self.operating_state = ServiceOperatingState.RUNNING self.restart_countdown -= 1"]),
  ("Application.apply_timestep", ["super().apply_timestep(timestep=timestep)", "if self.operating_state is ApplicationOperatingState.INSTALLING: self.install_countdown -= 1 if self.install_countdown <= 0: self.operating_state = ApplicationOperatingState.RUNNING self.health_state_actual = SoftwareHealthState.GOOD self.install_countdown = None"]),
  ("FileSystem.apply_timestep", ["super().apply_timestep(timestep=timestep)", "for folder_id in self.folders: self.folders[folder_id].apply_timestep(timestep=timestep)"]),
  ("Folder.apply_timestep", ["super().apply_timestep(timestep=timestep)", "self._scan_timestep()", "self._reveal_to_red_timestep()", "self._restoring_timestep()", "for file_id in self.files: self.files[file_id].apply_timestep(timestep=timestep)"]),
  ("File.apply_timestep", ["super().apply_timestep(timestep=timestep)"])
]

/-! ## Gen obligations -/

/-- **Gen obligation.** The source's inventory of writers (every field, every form of write, with guards) is exactly the table
above. -/
theorem C14_gen_inventory : Gen.Health.inventory = modelWriters.map (·.1) := rfl

/-- **Gen obligation.** Every call site of a writer method in the source is in the table above (and nothing else is). -/
theorem C14_gen_triggers : Gen.Health.triggers = modelTriggers.map (·.1) := rfl

/-- **Gen obligation.** The timestep bodies on the path simulation → network → node → software / file system → folder → file are
the ones the model follows, statement for statement; and every `apply_timestep` override of the simulator reaches
`super().apply_timestep` on every path (no early exit in front of it). -/
theorem C14_gen_tick_bodies :
    Gen.Health.tickBodies = modelTickBodies ∧ Gen.Health.tickOverridesConditional = [] := ⟨rfl, rfl⟩

/-! ## the property against the table -/

/-- whose field an event writes -/
inductive Item | sw | file | folder | node | other
deriving DecidableEq, Repr

def Ev.item : Ev → Item
  | .swSetter | .swScan | .swFixStart | .swFixTick | .swCompromise | .swWake | .swExternal | .appInstallStart | .appInstallTick
  | .svcRestartStart | .svcRestartTick => .sw
  | .fileScan | .fileCorrupt | .fileRepair | .fileRestore | .fileCopy | .fileExternal | .dbReplace => .file
  | .folderScanStart | .folderScanTick | .folderInstantScan | .folderCorrupt | .folderRepair | .folderRestoreStart
  | .folderRestoreTick | .folderExternal | .folderPre => .folder
  | .nodeScanStart | .nodeScanTick | .nodePowerOn | .nodePowerOff | .nodePowerTick | .nodeRedScan => .node
  | .construct | .outOfScope => .other

/-- the events the TABLE lists for code field `fld` of an item of kind `it` (class-level defaults and constructors aside) -/
def evsFor (fld : String) (it : Item) : List Ev :=
  ((modelWriters.filter (fun p => p.1.field = fld && p.2.item = it)).map (·.2)).eraseDups

set_option maxRecDepth 8000 in
/-- what the table lists, field by field (computed from `modelWriters`, so tied to the source by `C14_gen_inventory`) -/
theorem C14_inv_events :
    evsFor "health_state_actual" .sw = [.appInstallTick, .swWake, .swExternal, .swCompromise, .swFixTick, .swFixStart, .swSetter] ∧
    evsFor "health_state_visible" .sw = [.swScan] ∧
    evsFor "health_status" .file = [.fileCorrupt, .fileRepair, .fileRestore, .fileExternal] ∧
    evsFor "visible_health_status" .file = [.fileScan, .dbReplace] ∧
    evsFor "*" .file = [.fileCopy] ∧
    evsFor "health_status" .folder =
      [.folderRestoreTick, .folderScanTick, .folderCorrupt, .folderRepair, .folderRestoreStart, .folderExternal] ∧
    evsFor "visible_health_status" .folder = [.folderScanTick, .folderInstantScan] ∧
    -- the observation refresh flag is written by the two completing scans and by `pre_timestep`, nowhere else in the tree
    evsFor "_scanned_this_step" .folder = [.folderScanTick, .folderPre, .folderInstantScan] := by decide

/-- step `op` from node state `n` contains event `e` writing `new` into the actual health of software item `x` -/
def swStepHas (n : Node) (op : Op) (x : Sw) (new : SwH) : Ev → Prop
  | .swExternal => ∃ nm h, op = .swSet nm h ∧ nm = x.name ∧ new = h.toSwH
  | .swCompromise => ∃ k nm, op = .sw k nm .compromise ∧ n.power = .on ∧ nm = x.name ∧ new = .compromised
  | .swFixStart => ∃ k nm, op = .sw k nm .fix ∧ n.power = .on ∧ nm = x.name ∧ x.op = .running ∧ x.canFix = true ∧ new = .fixing
  | .swWake => x.actual = .unused ∧ new = .good ∧
      (op = .tick ∨ op = .startup ∨ op = .shutdown ∨ op = .reset ∨ (∃ nm, op = .appRun nm ∧ nm = x.name) ∨
       ∃ k nm, (op = .sw k nm .start ∨ op = .sw k nm .execute) ∧ nm = x.name)
  | .swFixTick => op = .tick ∧ x.actual = .fixing ∧ new = .good ∧ ∃ c, x.fixCd = some c ∧ c ≤ 1
  | .appInstallTick => op = .tick ∧ x.isApp = true ∧ x.op = .installing ∧ new = .good ∧ ∃ c, x.auxCd = some c ∧ c ≤ 1
  | _ => False

/-- **C14 against the inventory (software, actual health).** If the actual health of a software item differs after a step, the
step contains one of the events that the source's inventory lists for `health_state_actual` — an external `set_health_state`,
the compromise request, an accepted fix, the completion of a fix, a first start, the completion of an installation — writing
exactly that value. (Each of them goes through the one assignment in `set_health_state`, `swSetter`, or is
`Application.apply_timestep`'s direct write.) -/
theorem C14_inv_sw_actual (n : Node) (op : Op) (i : Nat) (x x' : Sw)
    (hx : n.sws[i]? = some x) (hx' : (n.apply op).sws[i]? = some x') (hne : x'.actual ≠ x.actual) :
    ∃ e ∈ evsFor "health_state_actual" .sw, swStepHas n op x x'.actual e := by
  have hc := C14_sw_actual_only_by_event n op i x x' hx hx' hne
  rw [C14_inv_events.1]
  cases op <;> simp only [swActualCause] at hc
  case tick =>
    obtain ⟨hg, h | ⟨hf, c, hc1, hc2⟩ | ⟨ha, ho, c, hc1, hc2⟩⟩ := hc
    · exact ⟨.swWake, by simp, h, hg, Or.inl rfl⟩
    · exact ⟨.swFixTick, by simp, rfl, hf, hg, c, hc1, hc2⟩
    · exact ⟨.appInstallTick, by simp, rfl, ha, ho, hg, c, hc1, hc2⟩
  case startup => exact ⟨.swWake, by simp, hc.1, hc.2, Or.inr (Or.inl rfl)⟩
  case shutdown => exact ⟨.swWake, by simp, hc.2.2.1, hc.2.2.2, Or.inr (Or.inr (Or.inl rfl))⟩
  case reset => exact ⟨.swWake, by simp, hc.2.2.1, hc.2.2.2, Or.inr (Or.inr (Or.inr (Or.inl rfl)))⟩
  case swSet nm h => exact ⟨.swExternal, by simp, nm, h, rfl, hc.1, hc.2⟩
  case appRun nm => exact ⟨.swWake, by simp, hc.2.2.1, hc.2.2.2, Or.inr (Or.inr (Or.inr (Or.inr (Or.inl ⟨nm, rfl, hc.2.1⟩))))⟩
  case sw k nm r =>
    cases r <;> simp only [] at hc
    case compromise => exact ⟨.swCompromise, by simp, k, nm, rfl, hc.1, hc.2.1, hc.2.2⟩
    case fix => exact ⟨.swFixStart, by simp, k, nm, rfl, hc.1, hc.2.1, hc.2.2.1, hc.2.2.2.1, hc.2.2.2.2⟩
    case start =>
      exact ⟨.swWake, by simp, hc.2.2.1, hc.2.2.2, Or.inr (Or.inr (Or.inr (Or.inr (Or.inr ⟨k, nm, Or.inl rfl, hc.2.1⟩))))⟩
    case execute =>
      exact ⟨.swWake, by simp, hc.2.2.1, hc.2.2.2, Or.inr (Or.inr (Or.inr (Or.inr (Or.inr ⟨k, nm, Or.inr rfl, hc.2.1⟩))))⟩

/-- **C14 against the inventory (software, visible health).** The inventory lists ONE writer of `health_state_visible` —
`Software.scan` — and a visible value differs after a step only if the step contains that event for the item (`swScanCompletes`:
its own accepted scan request, or the fan-out of the whole-node scan), the value being the item's actual health at that moment. -/
theorem C14_inv_sw_visible (n : Node) (op : Op) (i : Nat) (x x' : Sw)
    (hx : n.sws[i]? = some x) (hx' : (n.apply op).sws[i]? = some x') (hne : x'.visible ≠ x.visible) :
    evsFor "health_state_visible" .sw = [.swScan] ∧ swScanCompletes n op (swMoment n op x) = true ∧
      x'.visible = (swMoment n op x).actual :=
  ⟨C14_inv_events.2.1, (C14_sw_visible_only_by_scan n op i x x' hx hx' hne).1,
    (C14_sw_visible_only_by_scan n op i x x' hx hx' hne).2.1⟩

/-- step `op` contains event `e` writing `new` into the actual health of file `f` of folder `G` -/
def fileStepHas (n : Node) (op : Op) (G : Folder) (f : File) (new : FsH) : Ev → Prop
  | .fileExternal => ∃ F nm, op = .fileSet F nm new ∧ G.name = F ∧ f.name = nm
  | .fileCorrupt => f.actual = .good ∧ new = .corrupt ∧ f.deleted = false ∧ G.deleted = false ∧ n.power = .on ∧
      ((∃ F nm, op = .file F nm .corrupt ∧ G.name = F ∧ f.name = nm) ∨ ∃ F, op = .folder F .corrupt ∧ G.name = F)
  | .fileRepair => f.actual = .corrupt ∧ new = .good ∧ f.deleted = false ∧ G.deleted = false ∧ n.power = .on ∧
      ((∃ F nm, op = .file F nm .repair ∧ G.name = F ∧ f.name = nm) ∨ ∃ F, op = .folder F .repair ∧ G.name = F)
  | .fileRestore => f.actual = .corrupt ∧ new = .good ∧ G.deleted = false ∧
      ((∃ F nm, (op = .file F nm .restore ∨ op = .fsRestoreFile F nm) ∧ n.power = .on ∧ G.name = F ∧ f.name = nm ∧
          f.deleted = false) ∨
       (op = .tick ∧ n.powerPhase.power = .on ∧ G.restoreCd = 1 ∧
          (f.deleted = false ∨ File.twiceRestored G.files f = true)))
  | _ => False

/-- **C14 against the inventory (files, actual health).** A file's actual health differs after a step only if the step contains
one of the events the inventory lists for a file's `health_status`: `File.corrupt` / `File.repair` / `File.restore` (reached by
the file's own request, the folder's request, the file-system restore request, or the completing folder restore) or an external
write (database query, FTP transfer). -/
theorem C14_inv_file_actual (n : Node) (op : Op) (j k : Nat) (G G' : Folder) (f f' : File)
    (hG : n.folders[j]? = some G) (hG' : (n.apply op).folders[j]? = some G')
    (hf : G.files[k]? = some f) (hf' : G'.files[k]? = some f') (hne : f'.actual ≠ f.actual) :
    ∃ e ∈ evsFor "health_status" .file, fileStepHas n op G f f'.actual e := by
  have hc := C14_file_actual_only_by_event n op j k G G' f f' hG hG' hf hf' hne
  rw [C14_inv_events.2.2.1]
  cases op <;> simp only [fileActualCause] at hc
  case tick => exact ⟨.fileRestore, by simp, hc.2.2.2.2.1, hc.2.2.2.2.2, hc.2.1, Or.inr ⟨rfl, hc.1, hc.2.2.1, hc.2.2.2.1⟩⟩
  case fileSet F nm h => exact ⟨.fileExternal, by simp, F, nm, by rw [hc.2.2], hc.1, hc.2.1⟩
  case fsRestoreFile F nm =>
    exact ⟨.fileRestore, by simp, hc.2.2.2.2.2.1, hc.2.2.2.2.2.2, hc.2.2.1,
      Or.inl ⟨F, nm, Or.inr rfl, hc.1, hc.2.1, hc.2.2.2.1, hc.2.2.2.2.1⟩⟩
  case folder F r =>
    cases r <;> simp only [] at hc
    case repair => exact ⟨.fileRepair, by simp, hc.2.2.2.2.1, hc.2.2.2.2.2, hc.2.2.2.1, hc.2.2.1, hc.1, Or.inr ⟨F, rfl, hc.2.1⟩⟩
    case corrupt => exact ⟨.fileCorrupt, by simp, hc.2.2.2.2.1, hc.2.2.2.2.2, hc.2.2.2.1, hc.2.2.1, hc.1, Or.inr ⟨F, rfl, hc.2.1⟩⟩
  case file F nm r =>
    cases r <;> simp only [] at hc
    case repair =>
      exact ⟨.fileRepair, by simp, hc.2.2.2.2.2.1, hc.2.2.2.2.2.2, hc.2.2.2.2.1, hc.2.2.1, hc.1, Or.inl ⟨F, nm, rfl, hc.2.1, hc.2.2.2.1⟩⟩
    case corrupt =>
      exact ⟨.fileCorrupt, by simp, hc.2.2.2.2.2.1, hc.2.2.2.2.2.2, hc.2.2.2.2.1, hc.2.2.1, hc.1, Or.inl ⟨F, nm, rfl, hc.2.1, hc.2.2.2.1⟩⟩
    case restore =>
      exact ⟨.fileRestore, by simp, hc.2.2.2.2.2.1, hc.2.2.2.2.2.2, hc.2.2.1,
        Or.inl ⟨F, nm, Or.inl rfl, hc.1, hc.2.1, hc.2.2.2.1, hc.2.2.2.2.1⟩⟩

/-- **C14 against the inventory (files, visible health).** The inventory lists two writers of a file's `visible_health_status`:
`File.scan`, and the carry-over in `restore_backup`. For a file that exists before and after a base step only the first applies
(`fileScanCompletes`, value = actual health); the second concerns the NEW file of a database restore, which shows what the replaced
file showed (`C14_dyn_struct_fs`, `C14_view_db_restore`); `copy_file` copies every field of its source (`fileCopy`). -/
theorem C14_inv_file_visible (n : Node) (op : Op) (j k : Nat) (G G' : Folder) (f f' : File)
    (hG : n.folders[j]? = some G) (hG' : (n.apply op).folders[j]? = some G')
    (hf : G.files[k]? = some f) (hf' : G'.files[k]? = some f') (hne : f'.visible ≠ f.visible) :
    evsFor "visible_health_status" .file = [.fileScan, .dbReplace] ∧ evsFor "*" .file = [.fileCopy] ∧
      fileScanCompletes n op G f = true ∧ f'.visible = f.actual :=
  ⟨C14_inv_events.2.2.2.1, C14_inv_events.2.2.2.2.1,
    (C14_file_visible_only_by_scan n op j k G G' f f' hG hG' hf hf' hne).1,
    (C14_file_visible_only_by_scan n op j k G G' f f' hG hG' hf hf' hne).2.1⟩

/-- **C14 against the inventory (folders).** The inventory lists two writers of a folder's `visible_health_status` — the completing
timed scan and the instant scan of the whole-node scan — and six of its `health_status`; a folder's visible (resp. actual) health
differs after a base step only if the step contains one of them (`folderScanCompletes`, resp. `folderActualCause`; the sixth, the
external write, is `DOp.folderSet`). -/
theorem C14_inv_folder (n : Node) (op : Op) (j : Nat) (G G' : Folder)
    (hG : n.folders[j]? = some G) (hG' : (n.apply op).folders[j]? = some G') :
    evsFor "visible_health_status" .folder = [.folderScanTick, .folderInstantScan] ∧
    (G'.visible ≠ G.visible → folderScanCompletes n op G = true) ∧
    evsFor "health_status" .folder =
      [.folderRestoreTick, .folderScanTick, .folderCorrupt, .folderRepair, .folderRestoreStart, .folderExternal] ∧
    (G'.actual ≠ G.actual → folderActualCause n op G G'.actual) :=
  ⟨C14_inv_events.2.2.2.2.2.2.1, fun h => (C14_folder_visible_only_by_scan n op j G G' hG hG' h).1,
    C14_inv_events.2.2.2.2.2.1, fun h => C14_folder_actual_only_by_event n op j G G' hG hG' h⟩

/-! ### non-vacuity: the hypotheses of the `C14_inv_*` theorems are met by concrete steps (kernel-evaluated) -/

/-- a fix request changes the actual health of `dns` (hypotheses of `C14_inv_sw_actual`), and the event it contains is `swFixStart` -/
example :
    exNode.sws[0]? = some exDns ∧ ((exNode.apply (.sw false "dns" .fix)).sws[0]?.map (·.actual)) = some .fixing ∧
    exDns.actual ≠ .fixing ∧ Ev.swFixStart ∈ evsFor "health_state_actual" .sw := by decide

/-- a scan request changes the visible health of `dns` (hypotheses of `C14_inv_sw_visible`) -/
example :
    ((exNode.apply (.sw false "dns" .scan)).sws[0]?.map (·.visible)) = some .compromised ∧ exDns.visible ≠ .compromised := by
  decide

/-- a repair request changes the actual health of file `d/a`; a folder corrupt request changes the folder's (hypotheses of
`C14_inv_file_actual`, `C14_inv_folder`); an osscan + tick changes the file's and the folder's visible health -/
example :
    ((exNode.apply (.file "d" "a" .repair)).folders.map (fun G => G.files.map (·.actual))) = [[.good, .good]] ∧
    ((exNode.apply (.folder "d" .corrupt)).folders.map (·.actual)) = [.corrupt] ∧
    ((exNode.run [.osScan, .tick]).folders.map (fun G => (G.visible, G.files.map (·.visible)))) = [(.corrupt, [.corrupt, .none])] := by
  decide

end Primaite.Health
