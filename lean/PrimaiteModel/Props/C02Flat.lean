import PrimaiteModel.Props.C02Cfg
import PrimaiteModel.Model.ObsFlat

/-! # C02 — flattened observations in gymnasium's ORDER

Membership, flattenability and the flattened length do not depend on the order in which a `Dict` lists its children, so everything
proved about the space as PrimAITE builds it holds for the space as gymnasium stores it; and the flattened vector in gymnasium's own
order is a 0/1 vector of the declared length. -/

namespace Primaite.Obs
open Primaite.Gen

/-- only `NICObservation.space` builds its `Dict` incrementally (the one place where `Space.gym` keeps the order of construction) -/
theorem C02_gen_space_incremental : ObsTables.spaceBuiltIncrementally = ["NICObservation"] := by decide

theorem insertBy_perm {α} (lt : Key → Key → Bool) (p : Key × α) : ∀ l : List (Key × α), (insertBy lt p l).Perm (p :: l)
  | [] => List.Perm.refl _
  | q :: rest => by
    unfold insertBy
    split
    · exact List.Perm.refl _
    · exact ((insertBy_perm lt p rest).cons q).trans (List.Perm.swap p q rest)

theorem sortBy_perm {α} (lt : Key → Key → Bool) : ∀ l : List (Key × α), (sortBy lt l).Perm l
  | [] => List.Perm.refl _
  | p :: rest => by
    unfold sortBy
    exact (insertBy_perm lt p _).trans ((sortBy_perm lt rest).cons p)

/-- gymnasium's re-ordering loses and invents nothing -/
theorem gymOrder_perm {α} (l : List (Key × α)) : (gymOrder l).Perm l := by
  unfold gymOrder
  split
  · exact sortBy_perm _ l
  · split
    · exact sortBy_perm _ l
    · exact List.Perm.refl _

theorem gymL_eq_map (kvs : List (Key × Space)) : Space.gymL kvs = kvs.map (fun p => (p.1, p.2.gym)) := by
  induction kvs with
  | nil => rfl
  | cons p rest ih => simp [Space.gymL, ih]

theorem keysOf_gymL (kvs : List (Key × Space)) : keysOf (Space.gymL kvs) = keysOf kvs := by
  rw [gymL_eq_map]; simp [keysOf]

def slotOk (vs : List (Key × Val)) (p : Key × Space) : Bool :=
  match lookupK p.1 vs with
  | some v => contains p.2 v
  | none => false

theorem containsAll_eq_all (vs : List (Key × Val)) : ∀ ss : List (Key × Space), containsAll ss vs = ss.all (slotOk vs)
  | [] => by simp [containsAll]
  | p :: rest => by
    rw [containsAll, containsAll_eq_all vs rest]
    simp only [List.all_cons]
    rfl

theorem all_perm {α} (f : α → Bool) {l₁ l₂ : List α} (h : l₁.Perm l₂) : l₁.all f = l₂.all f := by
  rw [Bool.eq_iff_iff]
  simp only [List.all_eq_true]
  exact ⟨fun a x hx => a x (h.mem_iff.mpr hx), fun a x hx => a x (h.mem_iff.mp hx)⟩

theorem containsAll_perm {ss ss' : List (Key × Space)} (h : ss.Perm ss') (vs : List (Key × Val)) :
    containsAll ss vs = containsAll ss' vs := by
  rw [containsAll_eq_all, containsAll_eq_all]
  exact all_perm _ h

theorem keysCovered_perm {ss ss' : List (Key × Space)} (h : ss.Perm ss') (vs : List (Key × Val)) :
    (keysOf vs).all (fun k => (keysOf ss).contains k) = (keysOf vs).all (fun k => (keysOf ss').contains k) := by
  have hk : ∀ k, (keysOf ss).contains k = (keysOf ss').contains k := by
    intro k
    rw [Bool.eq_iff_iff]
    simp only [List.contains_iff_mem]
    exact (h.map Prod.fst).mem_iff
  have hf : (fun k => (keysOf ss).contains k) = (fun k => (keysOf ss').contains k) := funext hk
  rw [hf]

mutual
/-- membership does not depend on the order in which the `Dict`s list their children -/
theorem C02_contains_gym : ∀ (s : Space) (v : Val), contains s.gym v = contains s v
  | .discrete n, v => by simp [Space.gym]
  | .dict kvs, .int _ => by simp only [Space.gym]; split <;> simp [contains]
  | .dict kvs, .raised => by simp only [Space.gym]; split <;> simp [contains]
  | .dict kvs, .dict vs => by
    simp only [Space.gym]
    split
    · rfl
    simp only [contains]
    rw [containsAll_perm (gymOrder_perm (Space.gymL kvs)) vs, keysCovered_perm (gymOrder_perm (Space.gymL kvs)) vs,
        keysOf_gymL, C02_containsAll_gymL kvs vs]
theorem C02_containsAll_gymL : ∀ (kvs : List (Key × Space)) (vs : List (Key × Val)), containsAll (Space.gymL kvs) vs = containsAll kvs vs
  | [], _ => by simp [Space.gymL, containsAll]
  | p :: rest, vs => by
    simp only [Space.gymL, containsAll]
    rw [C02_containsAll_gymL rest vs]
    cases lookupK p.1 vs with
    | none => rfl
    | some v => simp only [C02_contains_gym p.2 v]
end

theorem sum_perm {l₁ l₂ : List Nat} (h : l₁.Perm l₂) : l₁.sum = l₂.sum := by
  induction h with
  | nil => rfl
  | cons x _ ih => simp [ih]
  | swap x y l => simp; omega
  | trans _ _ ih1 ih2 => exact ih1.trans ih2

theorem flatDimL_eq_sum (l : List (Key × Space)) : flatDimL l = (l.map (fun p => flatDim p.2)).sum := by
  induction l with
  | nil => simp [flatDimL]
  | cons p rest ih => simp [flatDimL, ih]

theorem flattenableL_eq_all (l : List (Key × Space)) : flattenableL l = l.all (fun p => p.2.flattenable) := by
  induction l with
  | nil => simp [flattenableL]
  | cons p rest ih => simp [flattenableL, ih]

mutual
/-- the flattened length is the same in gymnasium's order -/
theorem C02_flatDim_gym : ∀ s : Space, flatDim s.gym = flatDim s
  | .discrete n => by simp [Space.gym]
  | .dict kvs => by
    simp only [Space.gym]
    split
    · rfl
    simp only [flatDim]
    rw [flatDimL_eq_sum, sum_perm ((gymOrder_perm (Space.gymL kvs)).map _), ← flatDimL_eq_sum, C02_flatDimL_gymL kvs]
theorem C02_flatDimL_gymL : ∀ kvs : List (Key × Space), flatDimL (Space.gymL kvs) = flatDimL kvs
  | [] => by simp [Space.gymL]
  | p :: rest => by simp only [Space.gymL, flatDimL]; rw [C02_flatDim_gym p.2, C02_flatDimL_gymL rest]
end

mutual
/-- gymnasium can flatten the stored space exactly when the space as built has no empty `Dict` -/
theorem C02_flattenable_gym : ∀ s : Space, s.gym.flattenable = s.flattenable
  | .discrete n => by simp [Space.gym]
  | .dict kvs => by
    simp only [Space.gym]
    split
    · rfl
    simp only [Space.flattenable]
    rw [flattenableL_eq_all, all_perm _ (gymOrder_perm (Space.gymL kvs)), ← flattenableL_eq_all, C02_flattenableL_gymL kvs]
    congr 1
    have := (gymOrder_perm (Space.gymL kvs)).length_eq
    rw [gymL_eq_map, List.length_map] at this
    cases h : gymOrder (Space.gymL kvs) <;> cases kvs <;> simp_all [gymL_eq_map]
theorem C02_flattenableL_gymL : ∀ kvs : List (Key × Space), flattenableL (Space.gymL kvs) = flattenableL kvs
  | [] => by simp [Space.gymL]
  | p :: rest => by simp only [Space.gymL, flattenableL]; rw [C02_flattenable_gym p.2, C02_flattenableL_gymL rest]
end

/-- **the vector an RL agent receives** (gymnasium's own order): for a member of a space gymnasium can flatten, `flatten` does not
raise and gives a 0/1 vector whose length is `flatDim` of the space as PrimAITE declares it -/
theorem C02_gym_flatten_length (s : Space) (v : Val) (hf : s.flattenable = true) (hc : contains s v = true) :
    ∃ x, gymFlatten s v = some x ∧ x.length = flatDim s ∧ ∀ b ∈ x, b ≤ 1 := by
  obtain ⟨x, hx, hl, hb⟩ := C02_flatten_length_partial s.gym v (by rw [C02_flattenable_gym]; exact hf) (by rw [C02_contains_gym]; exact hc)
  exact ⟨x, hx, by rw [hl, C02_flatDim_gym], hb⟩

/-- the order is NOT the order of construction: ten and more hosts are sorted as strings, and the classes' `SERVICES` / `APPLICATIONS`
are sorted too; int keys stay numeric; mixed keys keep their insertion order -/
example : keysOf (gymOrder [(Key.si "HOST" 2, 0), (Key.si "HOST" 10, 1), (Key.si "HOST" 1, 2)]) = [.si "HOST" 1, .si "HOST" 10, .si "HOST" 2] ∧
    keysOf (gymOrder [(Key.s "SERVICES", 0), (Key.s "APPLICATIONS", 1)]) = [.s "APPLICATIONS", .s "SERVICES"] ∧
    keysOf (gymOrder [(Key.n 10, 0), (Key.n 2, 1)]) = [.n 2, .n 10] ∧
    keysOf (gymOrder [(Key.s "b", 0), (Key.n 1, 1), (Key.s "a", 2)]) = [.s "b", .n 1, .s "a"] := by decide

/-- an interface's `Dict` keeps the order in which `NICObservation.space` adds its keys (`nic_status`, `NMNE`, `TRAFFIC`), although
`NMNE < TRAFFIC < nic_status` as strings; the host around it is sorted -/
example : (Space.dict [(.s "operating_status", .discrete 5), (.s "NICS", .dict [(.n 1, .dict [(.s "nic_status", .discrete 3), (.s "NMNE", .discrete 4)])])]).gym =
    .dict [(.s "NICS", .dict [(.n 1, .dict [(.s "nic_status", .discrete 3), (.s "NMNE", .discrete 4)])]), (.s "operating_status", .discrete 5)] := by
  rfl

end Primaite.Obs
