/-
C14 over CHANGING item sets (Model/HealthDyn.lean): software is installed and uninstalled, folders and files are created,
copied, and replaced (database restore) — between and among the base operations of Model/Health.lean.

What is proved here, for every state and every operation / operation sequence of `DOp`:
* structural operations leave every surviving item exactly as it was, and a new item starts with the initial visible
  value (software UNUSED, folder / created file NONE) or — a copy / the database replacement — with the visible value of a
  file of the same name that existed before the step (`C14_dyn_struct_*`);
* so visible health still changes only by a completing scan, across changing item sets (`C14_dyn_*_visible_only_by_scan`),
  and along every trace visible = the shadow record, where installing appends a fresh record and uninstalling drops the
  item's record (`C14_dyn_sw_visible_eq_shadow`);
* actual health of surviving software changes only through the enumerated events (`C14_dyn_sw_actual_only_by_event`);
* what every request answers (`C14_resp_*`).
-/
import PrimaiteModel.Model.HealthDyn
import PrimaiteModel.Props.C14
namespace Primaite.Health
set_option linter.unusedSimpArgs false

/-! ## 1. structural operations: software -/

/-- structural (non-`base`) operations -/
def DOp.isBase : DOp → Bool
  | .base _ => true
  | _ => false

/-- the base operation an operation amounts to AS FAR AS THE SOFTWARE LIST IS CONCERNED: a timestep with the database restore
in it (`tickDb`) ticks the software exactly like `tick` (the restore touches the file system only) -/
def DOp.swBase : DOp → Option Op
  | .base b => some b
  | .tickDb _ _ => some .tick
  | _ => none

/-- the software item a structural operation may add -/
def DNode.freshSw (d : DNode) : DOp → Option Sw
  | .appInstallReq s _ => some ({ s with isApp := true }.freshReq)
  | .swInstallApi s => some (s.freshApi (d.n.power = .on))
  | _ => none

theorem Sw.startUp_visible (x : Sw) : x.startUp.visible = x.visible := x.startUp_same.visible

theorem SwSpec.construct_visible (s : SwSpec) : s.construct.visible = .unused := rfl

theorem SwSpec.freshApi_visible (s : SwSpec) (on : Bool) : (s.freshApi on).visible = .unused := by
  unfold SwSpec.freshApi
  split
  · rfl
  · split
    · rw [Sw.startUp_visible]; rfl
    · rfl

theorem SwSpec.freshReq_visible (s : SwSpec) : s.freshReq.visible = .unused := by
  unfold SwSpec.freshReq
  rw [(Sw.install_same _).visible]; exact s.freshApi_visible true

/-- a freshly installed item has never been scanned: its visible health is UNUSED -/
theorem DNode.freshSw_visible (d : DNode) (op : DOp) (x : Sw) (h : d.freshSw op = some x) : x.visible = .unused := by
  cases op <;> simp only [DNode.freshSw, Option.some.injEq, reduceCtorEq] at h
  case appInstallReq s known => rw [← h]; exact SwSpec.freshReq_visible _
  case swInstallApi s => rw [← h]; exact SwSpec.freshApi_visible _ _

/-- a freshly constructed item that is FIXING has its countdown (after the `fix:` for `starting_health_state: FIXING`) -/
theorem SwSpec.construct_fixOk (s : SwSpec) : s.construct.FixOk := by
  intro h
  have : s.h0 = .fixing := h
  simp [SwSpec.construct, this]

/-- file-system operations do not touch the software list -/
def DOp.isFs : DOp → Bool
  | .fsCreateFolder _ | .fsCreateFile _ _ _ | .fsCopyFile _ _ _ | .dbReplace _ _ _ | .folderSet _ _ | .dbRestore _ _ => true
  | _ => false

theorem createFolder_sws (e : DNode) (G : String) : (e.createFolder G).n.sws = e.n.sws := by
  unfold DNode.createFolder; split <;> rfl

theorem addNewFile_sws (e : DNode) (F f : String) : (e.addNewFile F f).n.sws = e.n.sws := by
  unfold DNode.addNewFile; split
  · split <;> rfl
  · rfl

theorem createFile_sws (e : DNode) (F f : String) : (e.createFile F f).n.sws = e.n.sws := by
  unfold DNode.createFile
  rw [addNewFile_sws]
  split
  · rfl
  · exact createFolder_sws _ _

theorem dbReplace_sws (d : DNode) (F f sF : String) : (d.dbReplace F f sF).n.sws = d.n.sws := by
  unfold DNode.dbReplace
  split
  · rfl
  · split
    · split <;> rfl
    · split
      · rfl
      · split
        · rfl
        · exact createFolder_sws _ _

theorem dlClear_sws (d : DNode) (pre : Bool) : (d.dlClear pre).n.sws = d.n.sws := by
  unfold DNode.dlClear; split <;> rfl

theorem dlArrive_sws (d : DNode) (h : FsH) : (d.dlArrive h).n.sws = d.n.sws := by
  unfold DNode.dlArrive
  split
  · rfl
  · simp only []
    split
    · rfl
    · exact createFolder_sws _ _

theorem dbRestore_sws (d : DNode) (pre : Bool) (dl : Option FsH) : (d.dbRestore pre dl).n.sws = d.n.sws := by
  unfold DNode.dbRestore
  cases dl with
  | none => exact dlClear_sws d pre
  | some h => simp only []; rw [dbReplace_sws, dlArrive_sws, dlClear_sws]

theorem dapply_fs_sws (d : DNode) (op : DOp) (h : op.isFs = true) : (d.apply op).n.sws = d.n.sws := by
  cases op <;> simp only [DOp.isFs, reduceCtorEq] at h <;> simp only [DNode.apply]
  case fsCreateFolder F =>
    split
    · exact createFolder_sws d F
    · rfl
  case fsCreateFile F f force =>
    split
    · split
      · rfl
      · have hnf : ∀ e : DNode, (e.addNewFile F f).n.sws = e.n.sws := by
          intro e; unfold DNode.addNewFile; split
          · split <;> rfl
          · rfl
        unfold DNode.createFile
        rw [hnf]
        split
        · rfl
        · exact createFolder_sws _ _
    · rfl
  case fsCopyFile sF f dF =>
    unfold DNode.copyFile
    split
    · rfl
    · simp only []
      split
      · rfl
      · exact createFolder_sws _ _
  case dbReplace F f sF => exact dbReplace_sws d F f sF
  case folderSet F h => rfl
  case dbRestore pre dl => exact dbRestore_sws d pre dl

/-- **C14 dyn (software, structural step).** A structural operation leaves the software list alone, appends one fresh
(never scanned) item, or removes one item; every other item is the identical record. -/
theorem C14_dyn_struct_sw (d : DNode) (op : DOp) (hs : op.swBase = none) :
    (d.apply op).n.sws = d.n.sws ∨
    (∃ x, d.freshSw op = some x ∧ (d.apply op).n.sws = d.n.sws ++ [x]) ∨
    (∃ name, (d.apply op).n.sws = d.n.sws.eraseP (fun x => x.name = name)) := by
  cases op <;> simp only [DOp.swBase, reduceCtorEq] at hs <;> simp only [DNode.apply, DNode.freshSw]
  case appInstallReq s known =>
    split
    · exact Or.inr (Or.inl ⟨_, rfl, rfl⟩)
    · exact Or.inl rfl
  case appUninstallReq name =>
    split
    · exact Or.inr (Or.inr ⟨name, rfl⟩)
    · exact Or.inl rfl
  case swInstallApi s => exact Or.inr (Or.inl ⟨_, rfl, rfl⟩)
  case swUninstallApi name => exact Or.inr (Or.inr ⟨name, rfl⟩)
  case fsCreateFolder F => exact Or.inl (dapply_fs_sws d (.fsCreateFolder F) rfl)
  case fsCreateFile F f force => exact Or.inl (dapply_fs_sws d (.fsCreateFile F f force) rfl)
  case fsCopyFile sF f dF => exact Or.inl (dapply_fs_sws d (.fsCopyFile sF f dF) rfl)
  case dbReplace F f sF => exact Or.inl (dapply_fs_sws d (.dbReplace F f sF) rfl)
  case folderSet F h => exact Or.inl rfl
  case dbRestore pre dl => exact Or.inl (dbRestore_sws d pre dl)

/-- the software list after a timestep with the database restore in it is the software list after a plain timestep -/
theorem tickDb_sws (d : DNode) (pre : Bool) (dl : Option FsH) : (d.tickDb pre dl).n.sws = d.n.tick.sws := by
  unfold DNode.tickDb Node.tick
  simp only []
  split
  · simp only [mapFolders_sws, Node.itemPhase]
    split
    · rw [dbRestore_sws]
    · rfl
  · rfl

theorem dapply_swBase_sws (d : DNode) (op : DOp) (b : Op) (h : op.swBase = some b) :
    (d.apply op).n.sws = (d.n.apply b).sws := by
  cases op <;> simp only [DOp.swBase, reduceCtorEq, Option.some.injEq] at h
  case base b' => subst h; rfl
  case tickDb pre dl => subst h; exact tickDb_sws d pre dl

/-- **C14 dyn (software, one step, any state, any operation incl. install / uninstall).** Every software item present
after the step is either an item that was present before — and then its visible health differs only if the step is a base
operation in which a scan covering it completes, the new value being its actual health at that moment — or the item
installed in this very step, whose visible health is UNUSED. -/
theorem C14_dyn_sw_visible_only_by_scan (d : DNode) (op : DOp) (x' : Sw) (hx' : x' ∈ (d.apply op).n.sws) :
    (∃ x ∈ d.n.sws, x'.name = x.name ∧
      (x'.visible ≠ x.visible → ∃ b, op.swBase = some b ∧ swScanCompletes d.n b (swMoment d.n b x) = true ∧
        x'.visible = (swMoment d.n b x).actual)) ∨
    (d.freshSw op = some x' ∧ x'.visible = .unused) := by
  cases hb : op.swBase with
  | some b =>
    left
    rw [dapply_swBase_sws d op b hb, apply_sws, List.mem_map] at hx'
    obtain ⟨x, hx, rfl⟩ := hx'
    refine ⟨x, hx, (swEff_name d.n b x).1, fun hne => ⟨b, rfl, ?_⟩⟩
    have h := swEff_visible d.n b x
    by_cases hc : swScanCompletes d.n b (swMoment d.n b x) = true
    · simp only [hc, if_true] at h; exact ⟨hc, h⟩
    · simp only [hc, if_false] at h; exact absurd h hne
  | none =>
    rcases C14_dyn_struct_sw d op hb with h | ⟨x, hx, h⟩ | ⟨name, h⟩
    · rw [h] at hx'; exact Or.inl ⟨x', hx', rfl, fun hne => absurd rfl hne⟩
    · rw [h, List.mem_append, List.mem_singleton] at hx'
      rcases hx' with hm | rfl
      · exact Or.inl ⟨x', hm, rfl, fun hne => absurd rfl hne⟩
      · exact Or.inr ⟨hx, d.freshSw_visible op _ hx⟩
    · rw [h] at hx'
      exact Or.inl ⟨x', List.mem_of_mem_eraseP hx', rfl, fun hne => absurd rfl hne⟩

/-- **C14 dyn (software actual health).** Every item present after the step that was present before has the actual
health it had, unless the step is a base operation that is one of the enumerated writers for it. -/
theorem C14_dyn_sw_actual_only_by_event (d : DNode) (op : DOp) (x' : Sw) (hx' : x' ∈ (d.apply op).n.sws) :
    (∃ x ∈ d.n.sws, x'.name = x.name ∧
      (x'.actual ≠ x.actual → ∃ b, op.swBase = some b ∧ swActualCause d.n b x x'.actual)) ∨
    d.freshSw op = some x' := by
  cases hb : op.swBase with
  | some b =>
    left
    rw [dapply_swBase_sws d op b hb] at hx'
    obtain ⟨i, hi⟩ := List.getElem?_of_mem hx'
    have hi' := hi
    rw [apply_sws, List.getElem?_map] at hi
    cases hxi : d.n.sws[i]? with
    | none => rw [hxi] at hi; cases hi
    | some x =>
      rw [hxi] at hi
      simp only [Option.map_some, Option.some.injEq] at hi
      refine ⟨x, List.mem_of_getElem? hxi, by rw [← hi]; exact (swEff_name d.n b x).1, fun hne => ⟨b, rfl, ?_⟩⟩
      exact C14_sw_actual_only_by_event d.n b i x x' hxi hi' hne
  | none =>
    rcases C14_dyn_struct_sw d op hb with h | ⟨x, hx, h⟩ | ⟨name, h⟩
    · rw [h] at hx'; exact Or.inl ⟨x', hx', rfl, fun hne => absurd rfl hne⟩
    · rw [h, List.mem_append, List.mem_singleton] at hx'
      rcases hx' with hm | rfl
      · exact Or.inl ⟨x', hm, rfl, fun hne => absurd rfl hne⟩
      · exact Or.inr hx
    · rw [h] at hx'
      exact Or.inl ⟨x', List.mem_of_mem_eraseP hx', rfl, fun hne => absurd rfl hne⟩

/-! ## 2. the shadow record along traces with installs and uninstalls -/

/-- one step of the instrumented run: every item is paired with its ghost record "actual health at the last completed
covering scan"; installing appends `(fresh, UNUSED)`, uninstalling drops the pair of the uninstalled item. -/
def dShadowBase (d : DNode) (b : Op) (ps : List (Sw × SwH)) : List (Sw × SwH) :=
  ps.map (fun p => (swEff d.n b p.1, if swScanCompletes d.n b (swMoment d.n b p.1) then (swMoment d.n b p.1).actual else p.2))

def dShadowStep (d : DNode) (op : DOp) (ps : List (Sw × SwH)) : List (Sw × SwH) :=
  match op with
  | .base b => dShadowBase d b ps
  | .tickDb _ _ => dShadowBase d .tick ps
  | .appInstallReq s known =>
    if d.n.power = .on ∧ d.n.hasSw s.name = false ∧ known = true then ps ++ [({ s with isApp := true }.freshReq, .unused)] else ps
  | .appUninstallReq name => if d.n.power = .on then ps.eraseP (fun p => p.1.name = name) else ps
  | .swInstallApi s => ps ++ [(s.freshApi (d.n.power = .on), .unused)]
  | .swUninstallApi name => ps.eraseP (fun p => p.1.name = name)
  | _ => ps

def dShadow (d : DNode) : List DOp → List (Sw × SwH) → List (Sw × SwH)
  | [], ps => ps
  | op :: ops, ps => dShadow (d.apply op) ops (dShadowStep d op ps)

theorem dShadowStep_fst (d : DNode) (op : DOp) (ps : List (Sw × SwH)) (h : ps.map (·.1) = d.n.sws) :
    (dShadowStep d op ps).map (·.1) = (d.apply op).n.sws := by
  have hbase : ∀ b : Op, (dShadowBase d b ps).map (·.1) = (d.n.apply b).sws := by
    intro b; unfold dShadowBase; rw [apply_sws, ← h, List.map_map, List.map_map]; rfl
  cases op <;> simp only [dShadowStep]
  case base b => exact hbase b
  case tickDb pre dl => rw [hbase]; exact (tickDb_sws d pre dl).symm
  case folderSet F hh => rw [h]; rfl
  case dbRestore pre dl => rw [h]; exact (dbRestore_sws d pre dl).symm
  case appInstallReq s known => simp only [DNode.apply]; split <;> simp [h]
  case appUninstallReq name =>
    simp only [DNode.apply]
    split
    · simp only [Node.uninstall]; rw [← h, List.eraseP_map]; rfl
    · exact h
  case swInstallApi s => simp only [DNode.apply]; simp [h]
  case swUninstallApi name => simp only [DNode.apply, Node.uninstall]; rw [← h, List.eraseP_map]; rfl
  case fsCreateFolder F => rw [h]; exact (dapply_fs_sws d (.fsCreateFolder F) rfl).symm
  case fsCreateFile F f force => rw [h]; exact (dapply_fs_sws d (.fsCreateFile F f force) rfl).symm
  case fsCopyFile sF f dF => rw [h]; exact (dapply_fs_sws d (.fsCopyFile sF f dF) rfl).symm
  case dbReplace F f sF => rw [h]; exact (dapply_fs_sws d (.dbReplace F f sF) rfl).symm

theorem dShadowStep_inv (d : DNode) (op : DOp) (ps : List (Sw × SwH)) (hv : ∀ p ∈ ps, p.1.visible = p.2) :
    ∀ p ∈ dShadowStep d op ps, p.1.visible = p.2 := by
  intro p hp
  have hbase : ∀ b : Op, p ∈ dShadowBase d b ps → p.1.visible = p.2 := by
    intro b hp
    unfold dShadowBase at hp
    rw [List.mem_map] at hp
    obtain ⟨q, hq, rfl⟩ := hp
    simp only []
    rw [swEff_visible]
    split
    · rfl
    · exact hv q hq
  cases op <;> simp only [dShadowStep] at hp
  case base b => exact hbase b hp
  case tickDb pre dl => exact hbase .tick hp
  case appInstallReq s known =>
    split at hp
    · rw [List.mem_append, List.mem_singleton] at hp
      rcases hp with hp | rfl
      · exact hv p hp
      · exact SwSpec.freshReq_visible _
    · exact hv p hp
  case appUninstallReq name =>
    split at hp
    · exact hv p (List.mem_of_mem_eraseP hp)
    · exact hv p hp
  case swInstallApi s =>
    rw [List.mem_append, List.mem_singleton] at hp
    rcases hp with hp | rfl
    · exact hv p hp
    · exact SwSpec.freshApi_visible _ _
  case swUninstallApi name => exact hv p (List.mem_of_mem_eraseP hp)
  all_goals exact hv p hp

/-- **C14 dyn (software, all traces with installs / uninstalls).** Start from any node, pair every software item with
its current visible health, and run ANY sequence of base and structural operations while maintaining the ghost record
(`dShadowStep`: overwritten exactly when a covering scan completes, `UNUSED` for a freshly installed item, dropped with an
uninstalled item). Then at the end the ghost records line up with the node's software list, and every item's visible
health equals its ghost record. -/
theorem C14_dyn_sw_visible_eq_shadow (ops : List DOp) : ∀ (d : DNode) (ps : List (Sw × SwH)),
    ps.map (·.1) = d.n.sws → (∀ p ∈ ps, p.1.visible = p.2) →
    (dShadow d ops ps).map (·.1) = (d.run ops).n.sws ∧ ∀ p ∈ dShadow d ops ps, p.1.visible = p.2 := by
  induction ops with
  | nil => intro d ps h1 h2; exact ⟨h1, h2⟩
  | cons op ops ih =>
    intro d ps h1 h2
    simp only [dShadow, DNode.run]
    exact ih (d.apply op) (dShadowStep d op ps) (dShadowStep_fst d op ps h1) (dShadowStep_inv d op ps h2)

/-- the invariant "FIXING ⇒ countdown present" also survives installs (with the `fix:` for a FIXING start state) -/
theorem C14_dyn_fixing_has_countdown (ops : List DOp) : ∀ d : DNode,
    (∀ x ∈ d.n.sws, x.FixOk) → ∀ x ∈ (d.run ops).n.sws, x.FixOk := by
  induction ops with
  | nil => intro d h; exact h
  | cons op ops ih =>
    intro d h
    apply ih (d.apply op)
    intro y hy
    cases hb : op.swBase with
    | some b =>
      rw [dapply_swBase_sws d op b hb, apply_sws, List.mem_map] at hy
      obtain ⟨x, hx, rfl⟩ := hy
      exact swEff_fixOk d.n b x (h x hx)
    | none =>
      rcases C14_dyn_struct_sw d op hb with e | ⟨x, hx, e⟩ | ⟨name, e⟩
      · rw [e] at hy; exact h y hy
      · rw [e, List.mem_append, List.mem_singleton] at hy
        rcases hy with hy | rfl
        · exact h y hy
        · have hfa : ∀ (s : SwSpec) (on : Bool), (s.freshApi on).FixOk := by
            intro s on
            unfold SwSpec.freshApi
            split
            · intro hh; exact s.construct_fixOk hh
            · split
              · exact Sw.FixOk.of_rel (Sw.startUp_rel _) s.construct_fixOk
              · exact s.construct_fixOk
          cases op <;> simp only [DNode.freshSw, Option.some.injEq, reduceCtorEq] at hx
          case appInstallReq s known =>
            rw [← hx]
            unfold SwSpec.freshReq Sw.install
            split
            · intro hh; exact hfa _ true hh
            · exact hfa _ true
          case swInstallApi s => rw [← hx]; exact hfa s _
      · rw [e] at hy; exact h y (List.mem_of_mem_eraseP hy)

/-! ## 3. structural operations: folders and files -/

/-- the health value that comes from OUTSIDE the node in this operation, if any: the copy a database restore downloads from the
backup server carries whatever health the backup has -/
def DOp.ext : DOp → Option FsH
  | .dbRestore _ dl => dl
  | .folderSet _ h => some h
  | _ => none

/-- where the health values of a file present after a structural step come from: a file of the same name that existed
before the step (itself, unchanged; the source of a copy; the file a database restore replaces), or the initial values of a
created file (visible NONE, actual GOOD) — or, for the ACTUAL health only, the value `ext` that arrived over the network -/
def FileOrigin (ext : Option FsH) (n : Node) (f' : File) : Prop :=
  ((∃ G ∈ n.folders, ∃ f ∈ G.files, f.name = f'.name ∧ f'.visible = f.visible) ∨ f'.visible = .none) ∧
  ((∃ G ∈ n.folders, ∃ f ∈ G.files, f.name = f'.name ∧ f'.actual = f.actual) ∨ f'.actual = .good ∨ ext = some f'.actual)

theorem FileOrigin.self {ext : Option FsH} {n : Node} {G : Folder} {f : File} (hG : G ∈ n.folders) (hf : f ∈ G.files) :
    FileOrigin ext n f :=
  ⟨Or.inl ⟨G, hG, f, hf, rfl, rfl⟩, Or.inl ⟨G, hG, f, hf, rfl, rfl⟩⟩

theorem FileOrigin.congr {ext : Option FsH} {n : Node} {f g : File} (h : FileOrigin ext n f) (h1 : g.name = f.name)
    (h2 : g.visible = f.visible) (h3 : g.actual = f.actual) : FileOrigin ext n g := by
  unfold FileOrigin at h ⊢
  rw [h1, h2, h3]; exact h

/-- a file that shows what `a` showed and has the health `b` had (all three of one name) -/
theorem FileOrigin.mix {ext : Option FsH} {n : Node} {a b x : File} (ha : FileOrigin ext n a) (hb : FileOrigin ext n b)
    (hn1 : x.name = a.name) (hn2 : x.name = b.name) (hv : x.visible = a.visible) (hact : x.actual = b.actual) :
    FileOrigin ext n x := by
  unfold FileOrigin at ha hb ⊢
  rw [hv, hact]
  refine ⟨?_, ?_⟩
  · rw [hn1]; exact ha.1
  · rw [hn2]; exact hb.2

/-- every folder of `n'` shows the visible health of a same-named folder of `n` or is new (NONE); every file of `n'` has an
origin in `n` -/
def StructOk (ext : Option FsH) (n n' : Node) : Prop :=
  ∀ G' ∈ n'.folders,
    ((∃ G ∈ n.folders, G.name = G'.name ∧ G'.visible = G.visible) ∨ G'.visible = .none) ∧ ∀ f' ∈ G'.files, FileOrigin ext n f'

theorem StructOk.refl (ext : Option FsH) (n : Node) : StructOk ext n n :=
  fun G hG => ⟨Or.inl ⟨G, hG, rfl, rfl⟩, fun _ hf => FileOrigin.self hG hf⟩

/-- a per-folder update that keeps name and visible health and only yields files with an origin -/
theorem StructOk.mapFolders {ext : Option FsH} {n n' : Node} (h : StructOk ext n n') (g : Folder → Folder)
    (hg : ∀ G, (g G).name = G.name ∧ (g G).visible = G.visible ∧
      ((∀ f' ∈ G.files, FileOrigin ext n f') → ∀ f' ∈ (g G).files, FileOrigin ext n f')) :
    StructOk ext n (n'.mapFolders g) := by
  intro G' hG'
  simp only [mapFolders_folders, List.mem_map] at hG'
  obtain ⟨G, hG, rfl⟩ := hG'
  obtain ⟨h1, h2, h3⟩ := hg G
  refine ⟨?_, h3 (h G hG).2⟩
  rcases (h G hG).1 with ⟨G0, a, b, c⟩ | hv
  · exact Or.inl ⟨G0, a, by rw [h1]; exact b, by rw [h2]; exact c⟩
  · exact Or.inr (by rw [h2]; exact hv)

theorem StructOk.addFile {ext : Option FsH} {n n' : Node} (h : StructOk ext n n') (F : String) (x : File)
    (hx : FileOrigin ext n x) : StructOk ext n (n'.addFile F x) := by
  apply h.mapFolders
  intro G
  split
  · refine ⟨rfl, rfl, fun hall f' hf' => ?_⟩
    simp only [List.mem_append, List.mem_singleton] at hf'
    rcases hf' with hf' | rfl
    · exact hall f' hf'
    · exact hx
  · exact ⟨rfl, rfl, fun hall => hall⟩

theorem StructOk.deleteFile {ext : Option FsH} {n n' : Node} (h : StructOk ext n n') (F f : String) :
    StructOk ext n (n'.mapLiveFolder F (fun G => G.delLive f)) := by
  apply h.mapFolders
  intro G
  split
  · refine ⟨rfl, rfl, fun hall f' hf' => ?_⟩
    simp only [Folder.delLive, Folder.mapLiveFile, List.mem_map] at hf'
    obtain ⟨f0, hf0, rfl⟩ := hf'
    split
    · exact (hall f0 hf0).congr (by simp) (by simp) (by simp)
    · exact hall f0 hf0
  · exact ⟨rfl, rfl, fun hall => hall⟩

theorem StructOk.createFolder {ext : Option FsH} {n : Node} {d : DNode} (h : StructOk ext n d.n) (F : String) :
    StructOk ext n (d.createFolder F).n := by
  unfold DNode.createFolder
  split
  · apply h.mapFolders
    intro G
    split
    · exact ⟨rfl, rfl, fun hall => hall⟩
    · exact ⟨rfl, rfl, fun hall => hall⟩
  · intro G' hG'
    simp only [List.mem_append, List.mem_singleton] at hG'
    rcases hG' with hG' | rfl
    · exact h G' hG'
    · exact ⟨Or.inr rfl, fun f' hf' => by simp [DNode.freshFolder] at hf'⟩

theorem freshFile_origin (ext : Option FsH) (n : Node) (f : String) : FileOrigin ext n (freshFile f) :=
  ⟨Or.inr rfl, Or.inr (Or.inl rfl)⟩

theorem StructOk.createFile {ext : Option FsH} {n : Node} {d : DNode} (h : StructOk ext n d.n) (F f : String) :
    StructOk ext n (d.createFile F f).n := by
  have key : ∀ e : DNode, StructOk ext n e.n → StructOk ext n (e.addNewFile F f).n := by
    intro e he
    unfold DNode.addNewFile
    split
    · split
      · exact he
      · exact he.addFile F _ (freshFile_origin _ _ f)
    · exact he
  unfold DNode.createFile
  apply key
  split
  · exact h
  · exact h.createFolder F

/-- the external write of a FILE's health (`Op.fileSet`, here: the downloaded copy gets the backup's health) keeps what every
file shows; the written value is `ext` -/
theorem StructOk.fileSet {n n' : Node} {hh : FsH} (h : StructOk (some hh) n n') (F f : String) :
    StructOk (some hh) n (n'.apply (.fileSet F f hh)) := by
  have : n'.apply (.fileSet F f hh) = n'.mapFolder F (fun G => G.mapFile f (fun x => { x with actual := hh })) := rfl
  rw [this]
  unfold Node.mapFolder
  apply h.mapFolders
  intro G
  split
  · refine ⟨rfl, rfl, fun hall f' hf' => ?_⟩
    simp only [Folder.mapFile, mapNamed, List.mem_map] at hf'
    obtain ⟨f0, hf0, rfl⟩ := hf'
    split
    · exact ⟨(hall f0 hf0).1, Or.inr (Or.inr rfl)⟩
    · exact hall f0 hf0
  · exact ⟨rfl, rfl, fun hall => hall⟩

theorem liveFile?_mem {n : Node} {F f : String} {x : File} (h : n.liveFile? F f = some x) :
    ∃ G ∈ n.folders, x ∈ G.files ∧ x.name = f := by
  unfold Node.liveFile? Node.liveFolder? Node.findLiveFolder at h
  split at h
  · rename_i G hG
    refine ⟨G, List.mem_of_find?_eq_some hG, List.mem_of_find?_eq_some h, ?_⟩
    have := List.find?_some h
    simp only [Bool.and_eq_true, decide_eq_true_eq] at this
    exact this.1
  · cases h

theorem firstAny_mem {f : String} {fs : List File} {x : File} (h : firstAny f fs = some x) : x ∈ fs ∧ x.name = f := by
  unfold firstAny at h
  split at h
  · rename_i y hy
    cases h
    have := List.find?_some hy
    simp only [findLive, Bool.and_eq_true, decide_eq_true_eq] at this
    exact ⟨List.mem_of_find?_eq_some hy, this.1⟩
  · have := List.find?_some h
    simp only [decide_eq_true_eq] at this
    exact ⟨List.mem_of_find?_eq_some h, this⟩

/-- `copy_file` from any intermediate state -/
theorem StructOk.copyFile {ext : Option FsH} {n : Node} {d : DNode} (h : StructOk ext n d.n) (sF f dF : String) :
    StructOk ext n (d.copyFile sF f dF).n := by
  unfold DNode.copyFile
  split
  · exact h
  · rename_i src hsrc
    obtain ⟨G, hG, hmem, hname⟩ := liveFile?_mem hsrc
    have hs := (h G hG).2 src hmem
    have ho : FileOrigin ext n { name := f, actual := src.actual, visible := src.visible, deleted := false } :=
      hs.congr hname.symm rfl rfl
    simp only []
    split
    · exact (h.deleteFile dF f).addFile dF _ ho
    · exact ((h.createFolder dF).deleteFile dF f).addFile dF _ ho

/-- the replacement step of the database restore from any intermediate state: the file it adds shows what the replaced file
showed and has the health of the downloaded copy -/
theorem StructOk.dbReplace {ext : Option FsH} {n : Node} {d : DNode} (h : StructOk ext n d.n) (F f sF : String) :
    StructOk ext n (d.dbReplace F f sF).n := by
  unfold DNode.dbReplace
  split
  · exact h
  · rename_i src hsrc
    obtain ⟨Gs, hGs, hmem, hname⟩ := liveFile?_mem hsrc
    have hs := (h Gs hGs).2 src hmem
    split
    · rename_i G hG
      have hGm : G ∈ d.n.folders := List.mem_of_find?_eq_some hG
      split
      · exact h
      · rename_i old hold
        obtain ⟨holdm, holdn⟩ := firstAny_mem hold
        have ho := (h G hGm).2 old holdm
        exact (h.deleteFile F f).addFile F _ (FileOrigin.mix ho hs holdn.symm hname.symm rfl rfl)
    · split
      · exact h
      · rename_i G hG
        have hGm : G ∈ d.n.folders := List.mem_of_find?_eq_some hG
        split
        · exact h
        · rename_i old hold
          obtain ⟨holdm, holdn⟩ := firstAny_mem hold
          have ho := (h G hGm).2 old holdm
          exact (h.createFolder F).addFile F _ (FileOrigin.mix ho hs holdn.symm hname.symm rfl rfl)

/-- the whole of `restore_backup()` from any intermediate state -/
theorem StructOk.dbRestore {n : Node} {d : DNode} (pre : Bool) (dl : Option FsH) (h : StructOk dl n d.n) :
    StructOk dl n (d.dbRestore pre dl).n := by
  have h1 : StructOk dl n (d.dlClear pre).n := by
    unfold DNode.dlClear
    split
    · exact h.deleteFile dlFolder dbFile
    · exact h
  unfold DNode.dbRestore
  cases dl with
  | none => exact h1
  | some hh =>
    simp only []
    apply StructOk.dbReplace
    unfold DNode.dlArrive
    have ho : FileOrigin (some hh) n (arrivedFile hh) := ⟨Or.inr rfl, Or.inr (Or.inr rfl)⟩
    split
    · exact h1
    · simp only []
      split
      · exact h1.addFile dlFolder _ ho
      · exact (h1.createFolder dlFolder).addFile dlFolder _ ho

/-- **C14 dyn (files and folders, structural step).** After an install / uninstall / create / copy / database restore
every folder shows the visible health of a folder of the same name that existed before, or is new and shows NONE; and
every file has the visible health of a file of the same name that existed before the step — itself unchanged, the
source of the copy, or the file the database restore replaced — or is a created file showing NONE; likewise its actual
health (same-named file before the step, GOOD for a created file, or — database restore only — the health of the copy that
arrived from the backup server). No structural operation invents a VISIBLE health value. -/
theorem C14_dyn_struct_fs (d : DNode) (op : DOp) (hs : op.swBase = none) : StructOk op.ext d.n (d.apply op).n := by
  have h0 := StructOk.refl op.ext d.n
  cases op <;> simp only [DOp.swBase, reduceCtorEq] at hs <;> simp only [DNode.apply]
  case appInstallReq s known => split <;> exact h0
  case appUninstallReq name => split <;> exact h0
  case swInstallApi s => exact h0
  case swUninstallApi name => exact h0
  case fsCreateFolder F =>
    split
    · exact h0.createFolder F
    · exact h0
  case fsCreateFile F f force =>
    split
    · split
      · exact h0
      · exact h0.createFile F f
    · exact h0
  case fsCopyFile sF f dF => exact h0.copyFile sF f dF
  case dbReplace F f sF => exact h0.dbReplace F f sF
  case folderSet F hh =>
    unfold Node.mapFolder
    apply h0.mapFolders
    intro G
    split
    · exact ⟨rfl, rfl, fun hall => hall⟩
    · exact ⟨rfl, rfl, fun hall => hall⟩
  case dbRestore pre dl => exact StructOk.dbRestore pre dl h0

/-- **C14 dyn (database restore, replacement step).** If the copy has arrived (`src`) and the database file is found — live
or deleted — in a LIVE database folder, the step deletes the live file and adds exactly one file: actual = the copy's, visible =
what the replaced file showed (no scan, no new information for the observer). -/
theorem C14_dyn_db_replace (d : DNode) (F f sF : String) (src old : File) (G : Folder)
    (hsrc : d.n.liveFile? sF f = some src) (hG : d.n.liveFolder? F = some G) (hold : firstAny f G.files = some old) :
    (d.apply (.dbReplace F f sF)).n =
      (d.n.mapLiveFolder F (fun G => G.delLive f)).addFile F
        { name := f, actual := src.actual, visible := old.visible, deleted := false } := by
  simp only [DNode.apply, DNode.dbReplace, hsrc, hG, hold]

/-- …and when only DELETED folders of that name exist (the first in deletion order is consulted), `copy_file` creates a NEW folder of that name for the
copy, which again shows what the (deleted) file showed. -/
theorem C14_dyn_db_replace_deleted_folder (d : DNode) (F f sF : String) (src old : File) (G : Folder)
    (hsrc : d.n.liveFile? sF f = some src) (hno : d.n.liveFolder? F = none)
    (hG : d.n.folders.find? (fun G => G.name = F && firstDeletedFolder d.n.folders G) = some G)
    (hold : firstAny f G.files = some old) :
    (d.apply (.dbReplace F f sF)).n =
      (d.createFolder F).n.addFile F { name := f, actual := src.actual, visible := old.visible, deleted := false } := by
  simp only [DNode.apply, DNode.dbReplace, hsrc, hno, hG, hold]

/-- **C14 dyn (external folder write).** The stand-in for `DatabaseService._process_sql`'s `database_folder.health_status =
CORRUPT` writes the ACTUAL health of the folders of that name and nothing else: no software item, no file, no visible value. -/
theorem C14_dyn_folder_set (d : DNode) (F : String) (h : FsH) :
    (d.apply (.folderSet F h)).n.sws = d.n.sws ∧
    (d.apply (.folderSet F h)).n.folders = d.n.folders.map (fun G => if G.name = F then { G with actual := h } else G) :=
  ⟨rfl, rfl⟩

/-! ## 3b. what the agent sees BY NAME for a file that a database restore replaces -/

theorem find?_map_pres {α : Type} (l : List α) (g : α → α) (p : α → Bool) (h : ∀ a, p (g a) = p a) :
    (l.map g).find? p = (l.find? p).map g := by
  rw [List.find?_map]
  have : (p ∘ g) = p := funext h
  rw [this]

/-- a per-folder update that keeps names and deleted flags and leaves the folders named `F` alone does not change what is seen
under `F` -/
theorem liveFile?_mapFolders_other (n : Node) (g : Folder → Folder) (F f : String)
    (hg : ∀ G, (g G).name = G.name ∧ (g G).deleted = G.deleted) (hF : ∀ G, G.name = F → g G = G) :
    (n.mapFolders g).liveFile? F f = n.liveFile? F f := by
  unfold Node.liveFile? Node.liveFolder? Node.findLiveFolder
  simp only [mapFolders_folders]
  rw [find?_map_pres _ g _ (by intro G; rw [(hg G).1, (hg G).2])]
  cases hfind : n.folders.find? (fun G => decide (G.name = F) && !G.deleted) with
  | none => rfl
  | some G =>
    have := List.find?_some hfind
    simp only [Bool.and_eq_true, decide_eq_true_eq] at this
    simp only [Option.map_some, hF G this.1]

theorem liveFile?_append_folder (n : Node) (H : Folder) (F f : String) (x : File) (h : n.liveFile? F f = some x) :
    ({ n with folders := n.folders ++ [H] } : Node).liveFile? F f = some x := by
  unfold Node.liveFile? Node.liveFolder? Node.findLiveFolder at h ⊢
  simp only [List.find?_append]
  cases hfind : n.folders.find? (fun G => decide (G.name = F) && !G.deleted) with
  | none => rw [hfind] at h; cases h
  | some G => rw [hfind] at h; simpa using h

theorem mapLiveFolder_other (n : Node) (D F f : String) (g : Folder → Folder) (hne : D ≠ F)
    (hg : ∀ G, (g G).name = G.name ∧ (g G).deleted = G.deleted) :
    (n.mapLiveFolder D g).liveFile? F f = n.liveFile? F f := by
  unfold Node.mapLiveFolder
  apply liveFile?_mapFolders_other
  · intro G; split
    · exact hg G
    · exact ⟨rfl, rfl⟩
  · intro G hG
    split
    · rename_i h; exact absurd (h.1.symm.trans hG) hne
    · rfl

theorem createFolder_other (d : DNode) (D F f : String) (x : File) (hne : D ≠ F) (h : d.n.liveFile? F f = some x) :
    (d.createFolder D).n.liveFile? F f = some x := by
  unfold DNode.createFolder
  split
  · simp only []
    exact (mapLiveFolder_other _ _ _ _ _ hne (by intro G; exact ⟨rfl, rfl⟩)).trans h
  · exact liveFile?_append_folder _ _ _ _ _ h

theorem createFile_other (d : DNode) (D g F f : String) (x : File) (hne : D ≠ F) (h : d.n.liveFile? F f = some x) :
    (d.createFile D g).n.liveFile? F f = some x := by
  have key : ∀ e : DNode, e.n.liveFile? F f = some x → (e.addNewFile D g).n.liveFile? F f = some x := by
    intro e he
    unfold DNode.addNewFile
    split
    · split
      · exact he
      · simp only [Node.addFile]
        exact (mapLiveFolder_other _ _ _ _ _ hne (by intro G; exact ⟨rfl, rfl⟩)).trans he
    · exact he
  unfold DNode.createFile
  apply key
  split
  · exact h
  · exact createFolder_other d D F f x hne h

theorem findLive_deleted_all (f : String) (s : Nat) (fs : List File) :
    findLive f (fs.map (fun x => if x.name = f ∧ x.deleted = false then x.deleteAt s else x)) = none := by
  unfold findLive
  rw [List.find?_eq_none]
  intro y hy
  rw [List.mem_map] at hy
  obtain ⟨x, _, rfl⟩ := hy
  by_cases h : x.name = f ∧ x.deleted = false
  · simp [h]
  · rw [if_neg h]
    simp only [Bool.and_eq_true, decide_eq_true_eq, Bool.not_eq_true', not_and]
    intro hn; cases hd : x.deleted
    · exact absurd ⟨hn, hd⟩ h
    · simp

/-- **C14 (replaced file, replacement step).** If `F/f` is a live file showing `v`, then after the replacement step of a
database restore the name `F/f` still shows `v` — whatever the downloaded copy's health is, and although the file object behind
the name is a new one that no scan has ever covered. -/
theorem C14_view_db_replace (d : DNode) (F f sF : String) (old : File) (h : d.n.liveFile? F f = some old) :
    (d.dbReplace F f sF).n.seenFile F f = some old.visible := by
  unfold Node.seenFile
  have hcopy := h
  unfold Node.liveFile? at h
  cases hG : d.n.liveFolder? F with
  | none => rw [hG] at h; cases h
  | some G =>
    rw [hG] at h
    simp only [] at h
    have hGp := List.find?_some hG
    simp only [Bool.and_eq_true, decide_eq_true_eq, Bool.not_eq_true'] at hGp
    have hfa : firstAny f G.files = some old := by unfold firstAny; rw [h]
    unfold DNode.dbReplace
    cases hsrc : d.n.liveFile? sF f with
    | none => simp only [hcopy, Option.map_some]
    | some src =>
      simp only [hG, hfa]
      -- the new node: folders mapped by `g2`
      let new : File := { name := f, actual := src.actual, visible := old.visible, deleted := false }
      let g2 : Folder → Folder := fun H =>
        (fun K : Folder => if K.name = F ∧ K.deleted = false then { K with files := K.files ++ [new] } else K)
          (if H.name = F ∧ H.deleted = false then H.delLive f else H)
      have hn2 : ((d.n.mapLiveFolder F (fun G => G.delLive f)).addFile F new).folders = d.n.folders.map g2 := by
        simp only [Node.addFile, Node.mapLiveFolder, mapFolders_folders, List.map_map]; rfl
      have hg2 : ∀ H, (decide ((g2 H).name = F) && !(g2 H).deleted) = (decide (H.name = F) && !H.deleted) := by
        intro H
        simp only [g2]
        by_cases hH : H.name = F ∧ H.deleted = false
        · simp [hH, Folder.mapLiveFile, Folder.delLive]
        · simp only [hH, if_false]
      unfold Node.liveFile? Node.liveFolder? Node.findLiveFolder
      rw [hn2, find?_map_pres _ g2 _ hg2]
      have hG' : d.n.folders.find? (fun G => decide (G.name = F) && !G.deleted) = some G := hG
      rw [hG']
      simp only [Option.map_some, g2, hGp.1, hGp.2, and_self, if_true, Folder.mapLiveFile, Folder.delLive]
      unfold findLive
      rw [List.find?_append]
      have := findLive_deleted_all f (G.delCtr + 1) G.files
      unfold findLive at this
      rw [this]
      simp [new]

theorem dlClear_other (d : DNode) (pre : Bool) (old : File) (h : d.n.liveFile? dbFolder dbFile = some old) :
    (d.dlClear pre).n.liveFile? dbFolder dbFile = some old := by
  unfold DNode.dlClear
  split
  · simp only []
    exact (mapLiveFolder_other _ dlFolder dbFolder _ _ (by decide) (by intro G; exact ⟨rfl, rfl⟩)).trans h
  · exact h

theorem dlArrive_other (d : DNode) (hh : FsH) (old : File) (h : d.n.liveFile? dbFolder dbFile = some old) :
    (d.dlArrive hh).n.liveFile? dbFolder dbFile = some old := by
  unfold DNode.dlArrive
  split
  · exact h
  · simp only [Node.addFile]
    split
    · exact (mapLiveFolder_other _ dlFolder dbFolder _ _ (by decide) (by intro G; exact ⟨rfl, rfl⟩)).trans h
    · exact (mapLiveFolder_other _ dlFolder dbFolder _ _ (by decide) (by intro G; exact ⟨rfl, rfl⟩)).trans
        (createFolder_other d dlFolder dbFolder dbFile old (by decide) h)

/-- **C14 (replaced file, whole restore).** `DatabaseService.restore_backup()` — whatever the network delivered, whether or not
a leftover download was cleared first — never changes what the agent sees for a live `database/database.db`: the name shows
after the restore what it showed before, until a scan covers the new file. -/
theorem C14_view_db_restore (d : DNode) (pre : Bool) (dl : Option FsH) (old : File)
    (h : d.n.liveFile? dbFolder dbFile = some old) :
    (d.apply (.dbRestore pre dl)).n.seenFile dbFolder dbFile = d.n.seenFile dbFolder dbFile := by
  have hb : d.n.seenFile dbFolder dbFile = some old.visible := by unfold Node.seenFile; rw [h]; rfl
  rw [hb]
  simp only [DNode.apply, DNode.dbRestore]
  cases dl with
  | none => simp only []; unfold Node.seenFile; rw [dlClear_other d pre old h]; rfl
  | some hh =>
    simp only []
    exact C14_view_db_replace _ _ _ _ old (dlArrive_other _ hh old (dlClear_other d pre old h))

/-- a restore does not touch the software list, so nothing the agent sees for software changes either -/
theorem C14_view_db_restore_sw (d : DNode) (pre : Bool) (dl : Option FsH) (name : String) :
    (d.apply (.dbRestore pre dl)).n.seenSw name = d.n.seenSw name := by
  unfold Node.seenSw
  simp only [DNode.apply]
  rw [dbRestore_sws]

/-! ### the timestep with the database restore in it -/

/-- **C14 (in-tick restore = plain timestep unless the database fix completes).** `tickDb` is `Node.tick` whenever the fix of
the database service does not complete in this timestep (or the node is not ON), and also when it completes but the network
delivers nothing (`dl = none`, nothing cleared). -/
theorem C14_tickdb_eq_tick (d : DNode) (pre : Bool) (dl : Option FsH)
    (h : d.n.powerPhase.scanPhase.redPhase.dbFixCompletes = false ∨ (pre = false ∧ dl = none)) :
    (d.apply (.tickDb pre dl)).n = d.n.tick := by
  simp only [DNode.apply, DNode.tickDb, Node.tick]
  split
  · rcases h with h | ⟨h1, h2⟩
    · simp only [h, Bool.false_eq_true, if_false, Node.itemPhase]
    · subst h1; subst h2
      simp only [DNode.dbRestore, DNode.dlClear, Bool.false_eq_true, if_false, ite_self, Node.itemPhase]
  · rfl

/-- the three phases of a timestep with a restore, and the C14 statement for the middle one: between the software ticks and the
folder ticks the restore is a structural step (`StructOk`): no visible value is invented, and the database file keeps what it
showed (`C14_view_db_restore`). The first and the last phase are those of `Node.tick`. -/
theorem C14_tickdb_phases (d : DNode) (pre : Bool) (dl : Option FsH) (hon : d.n.powerPhase.power = .on)
    (hfix : d.n.powerPhase.scanPhase.redPhase.dbFixCompletes = true) :
    let mid : DNode := { d with n := d.n.powerPhase.scanPhase.redPhase.mapSws Sw.tick }
    (d.apply (.tickDb pre dl)).n = (mid.dbRestore pre dl).n.mapFolders (fun F => if F.deleted then F else F.tick) ∧
    StructOk dl mid.n (mid.dbRestore pre dl).n := by
  refine ⟨?_, StructOk.dbRestore pre dl (StructOk.refl _ _)⟩
  simp only [DNode.apply, DNode.tickDb, hon, if_true, hfix]

/-! ## 3c. the one-step statements BY NAME (what the agent sees), for base operations -/

theorem nodup_map_unique {α : Type} (nm : α → String) : ∀ (l : List α), (l.map nm).Nodup →
    ∀ {a b : α}, a ∈ l → b ∈ l → nm a = nm b → a = b := by
  intro l
  induction l with
  | nil => intro _ a b ha; cases ha
  | cons x xs ih =>
    intro hnd a b ha hb hn
    simp only [List.map_cons, List.nodup_cons, List.mem_map, not_exists, not_and] at hnd
    simp only [List.mem_cons] at ha hb
    rcases ha with rfl | ha <;> rcases hb with rfl | hb
    · rfl
    · exact absurd hn.symm (hnd.1 b hb)
    · exact absurd hn (hnd.1 a ha)
    · exact ih hnd.2 ha hb hn

/-- **C14 by name (software).** What the agent sees for the software item called `name` differs after a base operation only if a
scan covering that item completes in the step, and is then the item's actual health at that moment. (No uniqueness assumption:
`describe_state()`'s dictionary and the model both resolve a name to the same item before and after.) -/
theorem C14_view_sw (n : Node) (b : Op) (name : String) (v v' : SwH)
    (h : n.seenSw name = some v) (h' : (n.apply b).seenSw name = some v') (hne : v' ≠ v) :
    ∃ x, n.sws.find? (fun x => x.name = name) = some x ∧ swScanCompletes n b (swMoment n b x) = true ∧
      v' = (swMoment n b x).actual := by
  unfold Node.seenSw at h h'
  rw [apply_sws, find?_map_pres _ (swEff n b) _ (by intro a; rw [(swEff_name n b a).1])] at h'
  cases hfind : n.sws.find? (fun x => decide (x.name = name)) with
  | none => rw [hfind] at h; cases h
  | some x =>
    rw [hfind] at h h'
    simp only [Option.map_some, Option.some.injEq] at h h'
    refine ⟨x, rfl, ?_⟩
    have hv := swEff_visible n b x
    cases hc : swScanCompletes n b (swMoment n b x)
    · rw [hc] at hv
      simp only [Bool.false_eq_true, if_false] at hv
      exact absurd (by rw [← h', hv, h]) hne
    · rw [hc] at hv
      simp only [if_true] at hv
      exact ⟨rfl, by rw [← h', hv]⟩

/-- **C14 by name (files).** On a node whose folder names and, per folder, file names are unique (`Node.wf`, the abstraction the
rig checks on every trace): what the agent sees for `F/f` — both before and after the step a live file of a live folder —
differs after a base operation only if a scan covering that file completes in the step (its own scan request; the whole-node
scan's fan-out; the folder's timed scan), and is then the file's actual health. -/
theorem C14_view_file (n : Node) (b : Op) (F f : String) (v v' : FsH) (hwf : n.wf = true)
    (h : n.seenFile F f = some v) (h' : (n.apply b).seenFile F f = some v') (hne : v' ≠ v) :
    ∃ G x, n.liveFolder? F = some G ∧ findLive f G.files = some x ∧ fileScanCompletes n b G x = true ∧ v' = x.actual := by
  simp only [Node.wf, Bool.and_eq_true, decide_eq_true_eq, List.all_eq_true] at hwf
  obtain ⟨⟨_, hfo⟩, hfi⟩ := hwf
  unfold Node.seenFile Node.liveFile? at h h'
  cases hG : n.liveFolder? F with
  | none => rw [hG] at h; cases h
  | some G =>
    rw [hG] at h
    simp only [] at h
    cases hx : findLive f G.files with
    | none => rw [hx] at h; cases h
    | some x =>
      rw [hx] at h
      simp only [Option.map_some, Option.some.injEq] at h
      have hGm : G ∈ n.folders := List.mem_of_find?_eq_some hG
      have hGp := List.find?_some hG
      have hxm : x ∈ G.files := List.mem_of_find?_eq_some hx
      have hxp := List.find?_some hx
      simp only [Bool.and_eq_true, decide_eq_true_eq] at hGp hxp
      refine ⟨G, x, rfl, hx, ?_⟩
      cases hG2 : (n.apply b).liveFolder? F with
      | none => rw [hG2] at h'; cases h'
      | some G2 =>
        rw [hG2] at h'
        simp only [] at h'
        cases hx2 : findLive f G2.files with
        | none => rw [hx2] at h'; cases h'
        | some x2 =>
          rw [hx2] at h'
          simp only [Option.map_some, Option.some.injEq] at h'
          have hG2m : G2 ∈ (n.apply b).folders := List.mem_of_find?_eq_some hG2
          have hG2p := List.find?_some hG2
          have hx2m : x2 ∈ G2.files := List.mem_of_find?_eq_some hx2
          have hx2p := List.find?_some hx2
          simp only [Bool.and_eq_true, decide_eq_true_eq] at hG2p hx2p
          rw [apply_folders, List.mem_map] at hG2m
          obtain ⟨G0, hG0m, rfl⟩ := hG2m
          have hG0 : G0 = G := nodup_map_unique (·.name) n.folders hfo hG0m hGm
            (by rw [← folderEff_name n b G0, hG2p.1, hGp.1])
          subst hG0
          rw [folderEff_files, List.mem_map] at hx2m
          obtain ⟨x0, hx0m, rfl⟩ := hx2m
          have hx0 : x0 = x := nodup_map_unique (·.name) G0.files (hfi G0 hGm) hx0m hxm
            (by rw [← fileEff_name n b G0 x0, hx2p.1, hxp.1])
          subst hx0
          have hv := fileEff_visible n b G0 x0
          cases hc : fileScanCompletes n b G0 x0
          · rw [hc] at hv
            simp only [Bool.false_eq_true, if_false] at hv
            exact absurd (by rw [← h', hv, h]) hne
          · rw [hc] at hv
            simp only [if_true] at hv
            exact ⟨rfl, by rw [← h', hv]⟩

/-! ## 4. what each request answers -/

/-- **C14 responses (software requests).** `success` iff the node is ON, an item of that name and kind is installed, the
request is registered for that kind, the item is in the operating state the request requires, and the method returns
True; `unreachable` iff the node is ON and no such item / no such request exists; `failure` otherwise. -/
theorem C14_resp_sw (n : Node) (isApp : Bool) (name : String) (r : SwReq) :
    n.respond (.sw isApp name r) =
      if n.power ≠ .on then .failure
      else match n.findSw isApp name with
        | none => .unreachable
        | some x =>
          if r.known isApp = false then .unreachable
          else if r.allowed x = false then .failure
          else if (x.handle r).2 then .success else .failure := by
  simp only [Node.respond, Resp.ofBool]
  by_cases hon : n.power = .on
  · simp only [hon, ne_eq, not_true_eq_false, if_false]
    cases n.findSw isApp name with
    | none => rfl
    | some x => cases r.known isApp <;> cases r.allowed x <;> cases (x.handle r).2 <;> simp
  · simp [hon]

/-- a `scan` request that answers `success` is exactly a scan that completes for the addressed item (ties the response to
`swScanCompletes`) -/
theorem C14_resp_sw_scan_success (n : Node) (isApp : Bool) (name : String) (x : Sw)
    (hx : n.findSw isApp name = some x) :
    n.respond (.sw isApp name .scan) = .success ↔ swScanCompletes n (.sw isApp name .scan) x = true := by
  have hf := List.find?_some hx
  simp only [Bool.and_eq_true, decide_eq_true_eq] at hf
  rw [C14_resp_sw, hx]
  simp only [swScanCompletes, Sw.accepts, hf.1, hf.2, SwReq.known, Sw.handle, decide_true, Bool.true_and,
    Bool.and_eq_true, decide_eq_true_eq]
  by_cases hon : n.power = .on <;> by_cases ha : SwReq.allowed .scan x = true <;> simp [hon, ha]

/-- a `fix` request answers `success` exactly when it puts the item into FIXING: node ON, item RUNNING, actual health GOOD
or COMPROMISED -/
theorem C14_resp_sw_fix_success (n : Node) (isApp : Bool) (name : String) (x : Sw)
    (hx : n.findSw isApp name = some x) :
    n.respond (.sw isApp name .fix) = .success ↔ (n.power = .on ∧ x.op = .running ∧ x.canFix = true) := by
  rw [C14_resp_sw, hx]
  simp only [SwReq.known, SwReq.allowed, SwReq.guard, Sw.handle]
  by_cases hon : n.power = .on <;> by_cases hr : x.op = .running <;> by_cases hc : x.canFix = true <;> simp [hon, hr, hc]

/-- node-level requests: `os scan`, `shutdown`, `reset` succeed iff the node is ON; `startup` iff it is OFF -/
theorem C14_resp_node (n : Node) :
    (n.respond .osScan = .success ↔ n.power = .on) ∧ (n.respond .shutdown = .success ↔ n.power = .on) ∧
    (n.respond .reset = .success ↔ n.power = .on) ∧ (n.respond .startup = .success ↔ n.power = .off) := by
  simp only [Node.respond, Resp.ofBool]
  refine ⟨?_, ?_, ?_, ?_⟩ <;> (split <;> simp_all)

/-- folder requests: refused (`failure`) when the node is not ON or no live folder has that name; otherwise the answer of
the folder's method — `checkhash` always fails, `scan`/`repair`/`restore`/`corrupt` succeed on a live folder -/
theorem C14_resp_folder (n : Node) (F : String) (r : ItemReq) :
    n.respond (.folder F r) = .success ↔ (n.power = .on ∧ (n.findLiveFolder F).isSome ∧ r ≠ .checkhash) := by
  simp only [Node.respond]
  by_cases hon : n.power = .on
  · simp only [hon, ne_eq, not_true_eq_false, if_false, true_and]
    cases hG : n.findLiveFolder F with
    | none => simp
    | some G =>
      have hd : G.deleted = false := by
        have := List.find?_some hG
        simp only [Bool.and_eq_true, decide_eq_true_eq, Bool.not_eq_true'] at this
        exact this.2
      cases r <;> simp [Folder.handle, Resp.ofBool, hd]
  · simp [hon]

/-- install / uninstall requests -/
theorem C14_resp_install (d : DNode) (s : SwSpec) (known : Bool) :
    d.respond (.appInstallReq s known) = .success ↔ (d.n.power = .on ∧ (d.n.hasSw s.name = true ∨ known = true)) := by
  simp only [DNode.respond, Resp.ofBool]
  by_cases hon : d.n.power = .on <;> cases hh : d.n.hasSw s.name <;> cases known <;> simp [hon, hh]

theorem C14_resp_uninstall (d : DNode) (name : String) :
    d.respond (.appUninstallReq name) = .success ↔ (d.n.power = .on ∧ d.n.hasSw name = true) := by
  simp only [DNode.respond, Resp.ofBool]
  by_cases hon : d.n.power = .on <;> cases hh : d.n.hasSw name <;> simp [hon, hh]

/-- an install request that is answered `success` although nothing was installed is exactly the "already installed" case -/
theorem C14_resp_install_effect (d : DNode) (s : SwSpec) (known : Bool) :
    (d.apply (.appInstallReq s known)).n.sws ≠ d.n.sws → d.respond (.appInstallReq s known) = .success := by
  intro h
  simp only [DNode.apply] at h
  split at h
  · rename_i hc
    rw [C14_resp_install]; exact ⟨hc.1, Or.inr hc.2.2⟩
  · exact absurd rfl h

/-! ## 5. non-vacuity: concrete dynamic traces (kernel-evaluated) -/

def exD : DNode := { n := exNode, defScan := none, defRestore := some 1 }

/-- install by request: INSTALLING for 2 ticks, then RUNNING and GOOD; its visible health stays UNUSED until a scan;
uninstalling it removes exactly that item; the other items are untouched throughout -/
example :
    let s : SwSpec := { name := "dos-bot", isApp := true, fixDur := 2, auxDur := 2, h0 := .good }
    ((exD.run [.appInstallReq s true, .base .tick]).n.sws.map (fun x => (x.name, x.op, x.visible))) =
      [("dns", .running, .unused), ("browser", .closed, .unused), ("dos-bot", .installing, .unused)] ∧
    ((exD.run [.appInstallReq s true, .base .tick, .base .tick, .base .osScan, .base .tick]).n.sws.map
        (fun x => (x.name, x.op, x.actual, x.visible))) =
      [("dns", .running, .compromised, .compromised), ("browser", .closed, .unused, .unused),
       ("dos-bot", .running, .good, .good)] ∧
    ((exD.run [.appInstallReq s true, .appUninstallReq "browser"]).n.sws.map (·.name)) = ["dns", "dos-bot"] := by
  decide

/-- delete a scanned CORRUPT file, create a file of the same name: the new file shows NONE (not the old file's CORRUPT);
a database-style replacement carries the old visible value over instead -/
example :
    ((exD.run [.base (.file "d" "a" .scan), .base (.fsDeleteFile "d" "a"), .fsCreateFile "d" "a" false]).n.folders.map
        (fun G => G.files.map (fun f => (f.name, f.visible, f.deleted)))) =
      [[("a", .corrupt, true), ("b", .none, true), ("a", .none, false)]] ∧
    ((exD.run [.base (.file "d" "a" .scan), .fsCreateFile "dl" "a" false, .dbReplace "d" "a" "dl"]).n.folders.map
        (fun G => (G.name, G.files.map (fun f => (f.name, f.actual, f.visible, f.deleted))))) =
      [("d", [("a", .corrupt, .corrupt, true), ("b", .good, .none, true), ("a", .good, .corrupt, false)]),
       ("dl", [("a", .good, .none, false)])] := by
  decide

/-- `copy_file` onto a live namesake: the old file is deleted (keeps what it showed), the copy shows what its SOURCE showed -/
example :
    ((exD.run [.fsCreateFile "dl" "a" false, .base (.file "d" "a" .scan), .fsCopyFile "dl" "a" "d"]).n.folders.map
        (fun G => (G.name, G.files.map (fun f => (f.name, f.actual, f.visible, f.deleted))))) =
      [("d", [("a", .corrupt, .corrupt, true), ("b", .good, .none, true), ("a", .good, .none, false)]),
       ("dl", [("a", .good, .none, false)])] := by
  decide

/-- a database server: the service is FIXING with 1 left, its file is CORRUPT and was scanned (shows CORRUPT); node scan due -/
def exDb : DNode :=
  { n := { exNode with
      scanCd := 1,
      sws := [{ name := "database-service", isApp := false, op := .running, actual := .fixing, visible := .good, fixDur := 1,
                fixCd := some 1, auxDur := 5, auxCd := none }],
      folders := [{ name := "database", deleted := false, actual := .good, visible := .none, scanDur := 3, scanCd := 0,
                    restoreDur := 3, restoreCd := 0,
                    files := [{ name := "database.db", actual := .corrupt, visible := .compromised, deleted := false }] }] },
    defScan := none, defRestore := none }

/-- hypotheses of `C14_view_db_restore` / `C14_view_file` are satisfiable; the restore (Python API) leaves what is seen for
`database/database.db` alone although the file behind the name is new and GOOD -/
example :
    exDb.n.wf = true ∧ exDb.n.seenFile "database" "database.db" = some .compromised ∧
    (exDb.apply (.dbRestore false (some .good))).n.seenFile "database" "database.db" = some .compromised := by decide
example :
    ((exDb.apply (.dbRestore false (some .good))).n.folders.map
        (fun G => (G.name, G.files.map (fun f => (f.name, f.actual, f.visible, f.deleted))))) =
      [("database", [("database.db", .corrupt, .compromised, true), ("database.db", .good, .compromised, false)]),
       ("downloads", [("database.db", .good, .none, false)])] := by decide

/-- inside a timestep (`tickDb`): the node scan first updates the old file (CORRUPT), the fix completes, the restore replaces the
file and carries CORRUPT over; the service shows FIXING (scanned before its fix completed) and is GOOD; with nothing delivered the
step is a plain `tick` -/
example :
    exDb.n.powerPhase.scanPhase.redPhase.dbFixCompletes = true ∧
    ((exDb.apply (.tickDb false (some .good))).n.sws.map (fun x => (x.actual, x.visible))) = [(.good, .fixing)] ∧
    (exDb.apply (.tickDb false (some .good))).n.seenFile "database" "database.db" = some .corrupt := by decide
example :
    ((exDb.apply (.tickDb false (some .good))).n.folders.map
        (fun G => (G.name, G.files.map (fun f => (f.name, f.actual, f.visible, f.deleted))))) =
      [("database", [("database.db", .corrupt, .corrupt, true), ("database.db", .good, .corrupt, false)]),
       ("downloads", [("database.db", .good, .none, false)])] := by decide
example : (exDb.apply (.tickDb false none)).n = exDb.n.tick := by decide

/-- the database folder was deleted: the restore creates a NEW live folder of that name; the copy shows what the deleted file
showed -/
example :
    ((exDb.run [.base (.fsDeleteFolder "database"), .dbRestore false (some .good)]).n.folders.map
        (fun G => (G.name, G.files.map (fun f => (f.name, f.actual, f.visible, f.deleted))))) =
      [("database", [("database.db", .corrupt, .compromised, true)]),
       ("downloads", [("database.db", .good, .none, false)]),
       ("database", [("database.db", .good, .compromised, false)])] ∧
    ((exDb.run [.base (.fsDeleteFolder "database"), .dbRestore false (some .good)]).n.folders.map (·.deleted)) =
      [true, false, false] := by decide

end Primaite.Health
