/-
C14 over CHANGING item sets (Model/HealthDyn.lean): software is installed and uninstalled, folders and files are created,
copied, and replaced (database restore) — between and among the base operations of Model/Health.lean.

What is proved here, for every state and every operation / operation sequence of `DOp`:
* structural operations leave every surviving item exactly as it was, and a new item starts with the initial visible
  value (software UNUSED, folder / created file NONE) or — a copy / the database replacement — with the visible value of a
  file of the same name that existed before the step (`C14_dyn_struct_*`);
* so visible health still changes only by a completing scan, across changing item sets (`C14_dyn_*_visible_only_by_scan`),
  and along every trace visible = the shadow record, where installing appends a fresh record and uninstalling drops the
  item's record (`C14_dyn_sw_visible_eq_shadow`);
* actual health of surviving software changes only through the enumerated events (`C14_dyn_sw_actual_only_by_event`);
* what every request answers (`C14_resp_*`).
-/
import PrimaiteModel.Model.HealthDyn
import PrimaiteModel.Props.C14
namespace Primaite.Health
set_option linter.unusedSimpArgs false

/-! ## 1. structural operations: software -/

/-- structural (non-`base`) operations -/
def DOp.isBase : DOp → Bool
  | .base _ => true
  | _ => false

/-- the software item a structural operation may add -/
def DNode.freshSw (d : DNode) : DOp → Option Sw
  | .appInstallReq s _ => some ({ s with isApp := true }.freshReq)
  | .swInstallApi s => some (s.freshApi (d.n.power = .on))
  | _ => none

theorem Sw.startUp_visible (x : Sw) : x.startUp.visible = x.visible := x.startUp_same.visible

theorem SwSpec.construct_visible (s : SwSpec) : s.construct.visible = .unused := rfl

theorem SwSpec.freshApi_visible (s : SwSpec) (on : Bool) : (s.freshApi on).visible = .unused := by
  unfold SwSpec.freshApi
  split
  · rfl
  · split
    · rw [Sw.startUp_visible]; rfl
    · rfl

theorem SwSpec.freshReq_visible (s : SwSpec) : s.freshReq.visible = .unused := by
  unfold SwSpec.freshReq
  rw [(Sw.install_same _).visible]; exact s.freshApi_visible true

/-- a freshly installed item has never been scanned: its visible health is UNUSED -/
theorem DNode.freshSw_visible (d : DNode) (op : DOp) (x : Sw) (h : d.freshSw op = some x) : x.visible = .unused := by
  cases op <;> simp only [DNode.freshSw, Option.some.injEq, reduceCtorEq] at h
  case appInstallReq s known => rw [← h]; exact SwSpec.freshReq_visible _
  case swInstallApi s => rw [← h]; exact SwSpec.freshApi_visible _ _

/-- a freshly constructed item that is FIXING has its countdown (after the `fix:` for `starting_health_state: FIXING`) -/
theorem SwSpec.construct_fixOk (s : SwSpec) : s.construct.FixOk := by
  intro h
  have : s.h0 = .fixing := h
  simp [SwSpec.construct, this]

/-- file-system operations do not touch the software list -/
def DOp.isFs : DOp → Bool
  | .fsCreateFolder _ | .fsCreateFile _ _ _ | .fsCopyFile _ _ _ | .dbReplace _ _ _ => true
  | _ => false

theorem createFolder_sws (e : DNode) (G : String) : (e.createFolder G).n.sws = e.n.sws := by
  unfold DNode.createFolder; split <;> rfl

theorem dapply_fs_sws (d : DNode) (op : DOp) (h : op.isFs = true) : (d.apply op).n.sws = d.n.sws := by
  cases op <;> simp only [DOp.isFs, reduceCtorEq] at h <;> simp only [DNode.apply]
  case fsCreateFolder F =>
    split
    · exact createFolder_sws d F
    · rfl
  case fsCreateFile F f force =>
    split
    · split
      · rfl
      · have hnf : ∀ e : DNode, (e.addNewFile F f).n.sws = e.n.sws := by
          intro e; unfold DNode.addNewFile; split
          · split <;> rfl
          · rfl
        unfold DNode.createFile
        rw [hnf]
        split
        · rfl
        · exact createFolder_sws _ _
    · rfl
  case fsCopyFile sF f dF =>
    unfold DNode.copyFile
    split
    · rfl
    · simp only []
      split
      · rfl
      · exact createFolder_sws _ _
  case dbReplace F f sF =>
    unfold DNode.dbReplace
    split
    · split <;> rfl
    · rfl

/-- **C14 dyn (software, structural step).** A structural operation leaves the software list alone, appends one fresh
(never scanned) item, or removes one item; every other item is the identical record. -/
theorem C14_dyn_struct_sw (d : DNode) (op : DOp) (hs : op.isBase = false) :
    (d.apply op).n.sws = d.n.sws ∨
    (∃ x, d.freshSw op = some x ∧ (d.apply op).n.sws = d.n.sws ++ [x]) ∨
    (∃ name, (d.apply op).n.sws = d.n.sws.eraseP (fun x => x.name = name)) := by
  cases op <;> simp only [DOp.isBase, reduceCtorEq] at hs <;> simp only [DNode.apply, DNode.freshSw]
  case appInstallReq s known =>
    split
    · exact Or.inr (Or.inl ⟨_, rfl, rfl⟩)
    · exact Or.inl rfl
  case appUninstallReq name =>
    split
    · exact Or.inr (Or.inr ⟨name, rfl⟩)
    · exact Or.inl rfl
  case swInstallApi s => exact Or.inr (Or.inl ⟨_, rfl, rfl⟩)
  case swUninstallApi name => exact Or.inr (Or.inr ⟨name, rfl⟩)
  case fsCreateFolder F => exact Or.inl (dapply_fs_sws d (.fsCreateFolder F) rfl)
  case fsCreateFile F f force => exact Or.inl (dapply_fs_sws d (.fsCreateFile F f force) rfl)
  case fsCopyFile sF f dF => exact Or.inl (dapply_fs_sws d (.fsCopyFile sF f dF) rfl)
  case dbReplace F f sF => exact Or.inl (dapply_fs_sws d (.dbReplace F f sF) rfl)

/-- **C14 dyn (software, one step, any state, any operation incl. install / uninstall).** Every software item present
after the step is either an item that was present before — and then its visible health differs only if the step is a base
operation in which a scan covering it completes, the new value being its actual health at that moment — or the item
installed in this very step, whose visible health is UNUSED. -/
theorem C14_dyn_sw_visible_only_by_scan (d : DNode) (op : DOp) (x' : Sw) (hx' : x' ∈ (d.apply op).n.sws) :
    (∃ x ∈ d.n.sws, x'.name = x.name ∧
      (x'.visible ≠ x.visible → ∃ b, op = .base b ∧ swScanCompletes d.n b (swMoment d.n b x) = true ∧
        x'.visible = (swMoment d.n b x).actual)) ∨
    (d.freshSw op = some x' ∧ x'.visible = .unused) := by
  by_cases hb : op.isBase = true
  · cases op <;> simp only [DOp.isBase, reduceCtorEq] at hb
    case base b =>
      left
      simp only [DNode.apply] at hx'
      rw [apply_sws, List.mem_map] at hx'
      obtain ⟨x, hx, rfl⟩ := hx'
      refine ⟨x, hx, (swEff_name d.n b x).1, fun hne => ⟨b, rfl, ?_⟩⟩
      have h := swEff_visible d.n b x
      by_cases hc : swScanCompletes d.n b (swMoment d.n b x) = true
      · simp only [hc, if_true] at h; exact ⟨hc, h⟩
      · simp only [hc, if_false] at h; exact absurd h hne
  · have hb' : op.isBase = false := by simpa using hb
    rcases C14_dyn_struct_sw d op hb' with h | ⟨x, hx, h⟩ | ⟨name, h⟩
    · rw [h] at hx'; exact Or.inl ⟨x', hx', rfl, fun hne => absurd rfl hne⟩
    · rw [h, List.mem_append, List.mem_singleton] at hx'
      rcases hx' with hm | rfl
      · exact Or.inl ⟨x', hm, rfl, fun hne => absurd rfl hne⟩
      · exact Or.inr ⟨hx, d.freshSw_visible op _ hx⟩
    · rw [h] at hx'
      exact Or.inl ⟨x', List.mem_of_mem_eraseP hx', rfl, fun hne => absurd rfl hne⟩

/-- **C14 dyn (software actual health).** Every item present after the step that was present before has the actual
health it had, unless the step is a base operation that is one of the enumerated writers for it. -/
theorem C14_dyn_sw_actual_only_by_event (d : DNode) (op : DOp) (x' : Sw) (hx' : x' ∈ (d.apply op).n.sws) :
    (∃ x ∈ d.n.sws, x'.name = x.name ∧
      (x'.actual ≠ x.actual → ∃ b, op = .base b ∧ swActualCause d.n b x x'.actual)) ∨
    d.freshSw op = some x' := by
  by_cases hb : op.isBase = true
  · cases op <;> simp only [DOp.isBase, reduceCtorEq] at hb
    case base b =>
      left
      simp only [DNode.apply] at hx'
      obtain ⟨i, hi⟩ := List.getElem?_of_mem hx'
      have hi' := hi
      rw [apply_sws, List.getElem?_map] at hi
      cases hxi : d.n.sws[i]? with
      | none => rw [hxi] at hi; cases hi
      | some x =>
        rw [hxi] at hi
        simp only [Option.map_some, Option.some.injEq] at hi
        refine ⟨x, List.mem_of_getElem? hxi, by rw [← hi]; exact (swEff_name d.n b x).1, fun hne => ⟨b, rfl, ?_⟩⟩
        exact C14_sw_actual_only_by_event d.n b i x x' hxi hi' hne
  · have hb' : op.isBase = false := by simpa using hb
    rcases C14_dyn_struct_sw d op hb' with h | ⟨x, hx, h⟩ | ⟨name, h⟩
    · rw [h] at hx'; exact Or.inl ⟨x', hx', rfl, fun hne => absurd rfl hne⟩
    · rw [h, List.mem_append, List.mem_singleton] at hx'
      rcases hx' with hm | rfl
      · exact Or.inl ⟨x', hm, rfl, fun hne => absurd rfl hne⟩
      · exact Or.inr hx
    · rw [h] at hx'
      exact Or.inl ⟨x', List.mem_of_mem_eraseP hx', rfl, fun hne => absurd rfl hne⟩

/-! ## 2. the shadow record along traces with installs and uninstalls -/

/-- one step of the instrumented run: every item is paired with its ghost record "actual health at the last completed
covering scan"; installing appends `(fresh, UNUSED)`, uninstalling drops the pair of the uninstalled item. -/
def dShadowStep (d : DNode) (op : DOp) (ps : List (Sw × SwH)) : List (Sw × SwH) :=
  match op with
  | .base b =>
    ps.map (fun p => (swEff d.n b p.1, if swScanCompletes d.n b (swMoment d.n b p.1) then (swMoment d.n b p.1).actual else p.2))
  | .appInstallReq s known =>
    if d.n.power = .on ∧ d.n.hasSw s.name = false ∧ known = true then ps ++ [({ s with isApp := true }.freshReq, .unused)] else ps
  | .appUninstallReq name => if d.n.power = .on then ps.eraseP (fun p => p.1.name = name) else ps
  | .swInstallApi s => ps ++ [(s.freshApi (d.n.power = .on), .unused)]
  | .swUninstallApi name => ps.eraseP (fun p => p.1.name = name)
  | _ => ps

def dShadow (d : DNode) : List DOp → List (Sw × SwH) → List (Sw × SwH)
  | [], ps => ps
  | op :: ops, ps => dShadow (d.apply op) ops (dShadowStep d op ps)

theorem dShadowStep_fst (d : DNode) (op : DOp) (ps : List (Sw × SwH)) (h : ps.map (·.1) = d.n.sws) :
    (dShadowStep d op ps).map (·.1) = (d.apply op).n.sws := by
  cases op <;> simp only [dShadowStep]
  case base b => simp only [DNode.apply]; rw [apply_sws, ← h, List.map_map, List.map_map]; rfl
  case appInstallReq s known => simp only [DNode.apply]; split <;> simp [h]
  case appUninstallReq name =>
    simp only [DNode.apply]
    split
    · simp only [Node.uninstall]; rw [← h, List.eraseP_map]; rfl
    · exact h
  case swInstallApi s => simp only [DNode.apply]; simp [h]
  case swUninstallApi name => simp only [DNode.apply, Node.uninstall]; rw [← h, List.eraseP_map]; rfl
  case fsCreateFolder F => rw [h]; exact (dapply_fs_sws d (.fsCreateFolder F) rfl).symm
  case fsCreateFile F f force => rw [h]; exact (dapply_fs_sws d (.fsCreateFile F f force) rfl).symm
  case fsCopyFile sF f dF => rw [h]; exact (dapply_fs_sws d (.fsCopyFile sF f dF) rfl).symm
  case dbReplace F f sF => rw [h]; exact (dapply_fs_sws d (.dbReplace F f sF) rfl).symm

theorem dShadowStep_inv (d : DNode) (op : DOp) (ps : List (Sw × SwH)) (hv : ∀ p ∈ ps, p.1.visible = p.2) :
    ∀ p ∈ dShadowStep d op ps, p.1.visible = p.2 := by
  intro p hp
  cases op <;> simp only [dShadowStep] at hp
  case base b =>
    rw [List.mem_map] at hp
    obtain ⟨q, hq, rfl⟩ := hp
    simp only []
    rw [swEff_visible]
    split
    · rfl
    · exact hv q hq
  case appInstallReq s known =>
    split at hp
    · rw [List.mem_append, List.mem_singleton] at hp
      rcases hp with hp | rfl
      · exact hv p hp
      · exact SwSpec.freshReq_visible _
    · exact hv p hp
  case appUninstallReq name =>
    split at hp
    · exact hv p (List.mem_of_mem_eraseP hp)
    · exact hv p hp
  case swInstallApi s =>
    rw [List.mem_append, List.mem_singleton] at hp
    rcases hp with hp | rfl
    · exact hv p hp
    · exact SwSpec.freshApi_visible _ _
  case swUninstallApi name => exact hv p (List.mem_of_mem_eraseP hp)
  all_goals exact hv p hp

/-- **C14 dyn (software, all traces with installs / uninstalls).** Start from any node, pair every software item with
its current visible health, and run ANY sequence of base and structural operations while maintaining the ghost record
(`dShadowStep`: overwritten exactly when a covering scan completes, `UNUSED` for a freshly installed item, dropped with an
uninstalled item). Then at the end the ghost records line up with the node's software list, and every item's visible
health equals its ghost record. -/
theorem C14_dyn_sw_visible_eq_shadow (ops : List DOp) : ∀ (d : DNode) (ps : List (Sw × SwH)),
    ps.map (·.1) = d.n.sws → (∀ p ∈ ps, p.1.visible = p.2) →
    (dShadow d ops ps).map (·.1) = (d.run ops).n.sws ∧ ∀ p ∈ dShadow d ops ps, p.1.visible = p.2 := by
  induction ops with
  | nil => intro d ps h1 h2; exact ⟨h1, h2⟩
  | cons op ops ih =>
    intro d ps h1 h2
    simp only [dShadow, DNode.run]
    exact ih (d.apply op) (dShadowStep d op ps) (dShadowStep_fst d op ps h1) (dShadowStep_inv d op ps h2)

/-- the invariant "FIXING ⇒ countdown present" also survives installs (with the `fix:` for a FIXING start state) -/
theorem C14_dyn_fixing_has_countdown (ops : List DOp) : ∀ d : DNode,
    (∀ x ∈ d.n.sws, x.FixOk) → ∀ x ∈ (d.run ops).n.sws, x.FixOk := by
  induction ops with
  | nil => intro d h; exact h
  | cons op ops ih =>
    intro d h
    apply ih (d.apply op)
    intro y hy
    by_cases hb : op.isBase = true
    · cases op <;> simp only [DOp.isBase, reduceCtorEq] at hb
      case base b =>
        simp only [DNode.apply] at hy
        rw [apply_sws, List.mem_map] at hy
        obtain ⟨x, hx, rfl⟩ := hy
        exact swEff_fixOk d.n b x (h x hx)
    · have hb' : op.isBase = false := by simpa using hb
      rcases C14_dyn_struct_sw d op hb' with e | ⟨x, hx, e⟩ | ⟨name, e⟩
      · rw [e] at hy; exact h y hy
      · rw [e, List.mem_append, List.mem_singleton] at hy
        rcases hy with hy | rfl
        · exact h y hy
        · have hfa : ∀ (s : SwSpec) (on : Bool), (s.freshApi on).FixOk := by
            intro s on
            unfold SwSpec.freshApi
            split
            · intro hh; exact s.construct_fixOk hh
            · split
              · exact Sw.FixOk.of_rel (Sw.startUp_rel _) s.construct_fixOk
              · exact s.construct_fixOk
          cases op <;> simp only [DNode.freshSw, Option.some.injEq, reduceCtorEq] at hx
          case appInstallReq s known =>
            rw [← hx]
            unfold SwSpec.freshReq Sw.install
            split
            · intro hh; exact hfa _ true hh
            · exact hfa _ true
          case swInstallApi s => rw [← hx]; exact hfa s _
      · rw [e] at hy; exact h y (List.mem_of_mem_eraseP hy)

/-! ## 3. structural operations: folders and files -/

/-- where the health values of a file present after a structural step come from: a file of the same name that existed
before the step (itself, unchanged; the source of a copy; the file a database restore replaces), or the initial values of a
created file (visible NONE, actual GOOD) -/
def FileOrigin (n : Node) (f' : File) : Prop :=
  ((∃ G ∈ n.folders, ∃ f ∈ G.files, f.name = f'.name ∧ f'.visible = f.visible) ∨ f'.visible = .none) ∧
  ((∃ G ∈ n.folders, ∃ f ∈ G.files, f.name = f'.name ∧ f'.actual = f.actual) ∨ f'.actual = .good)

theorem FileOrigin.self {n : Node} {G : Folder} {f : File} (hG : G ∈ n.folders) (hf : f ∈ G.files) : FileOrigin n f :=
  ⟨Or.inl ⟨G, hG, f, hf, rfl, rfl⟩, Or.inl ⟨G, hG, f, hf, rfl, rfl⟩⟩

theorem FileOrigin.congr {n : Node} {f g : File} (h : FileOrigin n f) (h1 : g.name = f.name) (h2 : g.visible = f.visible)
    (h3 : g.actual = f.actual) : FileOrigin n g := by
  unfold FileOrigin at h ⊢
  rw [h1, h2, h3]; exact h

/-- every folder of `n'` shows the visible health of a same-named folder of `n` or is new (NONE); every file of `n'` has an
origin in `n` -/
def StructOk (n n' : Node) : Prop :=
  ∀ G' ∈ n'.folders,
    ((∃ G ∈ n.folders, G.name = G'.name ∧ G'.visible = G.visible) ∨ G'.visible = .none) ∧ ∀ f' ∈ G'.files, FileOrigin n f'

theorem StructOk.refl (n : Node) : StructOk n n :=
  fun G hG => ⟨Or.inl ⟨G, hG, rfl, rfl⟩, fun _ hf => FileOrigin.self hG hf⟩

/-- a per-folder update that keeps name and visible health and only yields files with an origin -/
theorem StructOk.mapFolders {n n' : Node} (h : StructOk n n') (g : Folder → Folder)
    (hg : ∀ G, (g G).name = G.name ∧ (g G).visible = G.visible ∧
      ((∀ f' ∈ G.files, FileOrigin n f') → ∀ f' ∈ (g G).files, FileOrigin n f')) :
    StructOk n (n'.mapFolders g) := by
  intro G' hG'
  simp only [mapFolders_folders, List.mem_map] at hG'
  obtain ⟨G, hG, rfl⟩ := hG'
  obtain ⟨h1, h2, h3⟩ := hg G
  refine ⟨?_, h3 (h G hG).2⟩
  rcases (h G hG).1 with ⟨G0, a, b, c⟩ | hv
  · exact Or.inl ⟨G0, a, by rw [h1]; exact b, by rw [h2]; exact c⟩
  · exact Or.inr (by rw [h2]; exact hv)

theorem StructOk.addFile {n n' : Node} (h : StructOk n n') (F : String) (x : File) (hx : FileOrigin n x) :
    StructOk n (n'.addFile F x) := by
  apply h.mapFolders
  intro G
  split
  · refine ⟨rfl, rfl, fun hall f' hf' => ?_⟩
    simp only [List.mem_append, List.mem_singleton] at hf'
    rcases hf' with hf' | rfl
    · exact hall f' hf'
    · exact hx
  · exact ⟨rfl, rfl, fun hall => hall⟩

theorem StructOk.deleteFile {n n' : Node} (h : StructOk n n') (F f : String) :
    StructOk n (n'.mapLiveFolder F (fun G => G.mapLiveFile f File.delete)) := by
  apply h.mapFolders
  intro G
  split
  · refine ⟨rfl, rfl, fun hall f' hf' => ?_⟩
    simp only [Folder.mapLiveFile, List.mem_map] at hf'
    obtain ⟨f0, hf0, rfl⟩ := hf'
    split
    · exact (hall f0 hf0).congr rfl rfl rfl
    · exact hall f0 hf0
  · exact ⟨rfl, rfl, fun hall => hall⟩

theorem StructOk.createFolder {n : Node} {d : DNode} (h : StructOk n d.n) (F : String) : StructOk n (d.createFolder F).n := by
  unfold DNode.createFolder
  split
  · apply h.mapFolders
    intro G
    split
    · exact ⟨rfl, rfl, fun hall => hall⟩
    · exact ⟨rfl, rfl, fun hall => hall⟩
  · intro G' hG'
    simp only [List.mem_append, List.mem_singleton] at hG'
    rcases hG' with hG' | rfl
    · exact h G' hG'
    · exact ⟨Or.inr rfl, fun f' hf' => by simp [DNode.freshFolder] at hf'⟩

theorem freshFile_origin (n : Node) (f : String) : FileOrigin n (freshFile f) := ⟨Or.inr rfl, Or.inr rfl⟩

theorem liveFile?_mem {n : Node} {F f : String} {x : File} (h : n.liveFile? F f = some x) :
    ∃ G ∈ n.folders, x ∈ G.files ∧ x.name = f := by
  unfold Node.liveFile? Node.liveFolder? Node.findLiveFolder at h
  split at h
  · rename_i G hG
    refine ⟨G, List.mem_of_find?_eq_some hG, List.mem_of_find?_eq_some h, ?_⟩
    have := List.find?_some h
    simp only [Bool.and_eq_true, decide_eq_true_eq] at this
    exact this.1
  · cases h

theorem firstAny_mem {f : String} {fs : List File} {x : File} (h : firstAny f fs = some x) : x ∈ fs ∧ x.name = f := by
  unfold firstAny at h
  split at h
  · rename_i y hy
    cases h
    have := List.find?_some hy
    simp only [findLive, Bool.and_eq_true, decide_eq_true_eq] at this
    exact ⟨List.mem_of_find?_eq_some hy, this.1⟩
  · have := List.find?_some h
    simp only [decide_eq_true_eq] at this
    exact ⟨List.mem_of_find?_eq_some h, this⟩

/-- **C14 dyn (files and folders, structural step).** After an install / uninstall / create / copy / database replacement
every folder shows the visible health of a folder of the same name that existed before, or is new and shows NONE; and
every file has the visible health of a file of the same name that existed before the step — itself unchanged, the
source of the copy, or the file the database restore replaced — or is a created file showing NONE; likewise its actual
health (same-named file before the step, or GOOD for a created file). No structural operation invents a health value. -/
theorem C14_dyn_struct_fs (d : DNode) (op : DOp) (hs : op.isBase = false) : StructOk d.n (d.apply op).n := by
  have h0 := StructOk.refl d.n
  cases op <;> simp only [DOp.isBase, reduceCtorEq] at hs <;> simp only [DNode.apply]
  case appInstallReq s known => split <;> exact h0
  case appUninstallReq name => split <;> exact h0
  case swInstallApi s => exact h0
  case swUninstallApi name => exact h0
  case fsCreateFolder F =>
    split
    · exact h0.createFolder F
    · exact h0
  case fsCreateFile F f force =>
    split
    · split
      · exact h0
      · have key : ∀ e : DNode, StructOk d.n e.n → StructOk d.n (e.addNewFile F f).n := by
          intro e he
          unfold DNode.addNewFile
          split
          · split
            · exact he
            · exact he.addFile F _ (freshFile_origin _ f)
          · exact he
        unfold DNode.createFile
        apply key
        split
        · exact h0
        · exact h0.createFolder F
    · exact h0
  case fsCopyFile sF f dF =>
    unfold DNode.copyFile
    split
    · exact h0
    · rename_i src hsrc
      obtain ⟨G, hG, hmem, hname⟩ := liveFile?_mem hsrc
      have ho : FileOrigin d.n { name := f, actual := src.actual, visible := src.visible, deleted := false } :=
        ⟨Or.inl ⟨G, hG, src, hmem, hname, rfl⟩, Or.inl ⟨G, hG, src, hmem, hname, rfl⟩⟩
      simp only []
      split
      · exact (h0.deleteFile dF f).addFile dF _ ho
      · exact ((h0.createFolder dF).deleteFile dF f).addFile dF _ ho
  case dbReplace F f sF =>
    unfold DNode.dbReplace
    split
    · rename_i src G hsrc hG
      split
      · exact h0
      · rename_i old hold
        obtain ⟨Gs, hGs, hmem, hname⟩ := liveFile?_mem hsrc
        have hGm : G ∈ d.n.folders := List.mem_of_find?_eq_some hG
        obtain ⟨holdm, holdn⟩ := firstAny_mem hold
        have ho : FileOrigin d.n { name := f, actual := src.actual, visible := old.visible, deleted := false } :=
          ⟨Or.inl ⟨G, hGm, old, holdm, holdn, rfl⟩, Or.inl ⟨Gs, hGs, src, hmem, hname, rfl⟩⟩
        exact (h0.deleteFile F f).addFile F _ ho
    · exact h0

/-- **C14 dyn (database restore).** The replacement step of `DatabaseService.restore_backup`: if it happens at all, the
file it adds shows exactly the visible health the replaced file showed (no scan, no new information for the observer), its
actual health is that of the downloaded copy, and it is the only new file. -/
theorem C14_dyn_db_replace (d : DNode) (F f sF : String) (src old : File) (G : Folder)
    (hsrc : d.n.liveFile? sF f = some src) (hG : d.n.liveFolder? F = some G) (hold : firstAny f G.files = some old) :
    (d.apply (.dbReplace F f sF)).n =
      (d.n.mapLiveFolder F (fun G => G.mapLiveFile f File.delete)).addFile F
        { name := f, actual := src.actual, visible := old.visible, deleted := false } := by
  simp only [DNode.apply, DNode.dbReplace, hsrc, hG, hold]

/-! ## 4. what each request answers -/

/-- **C14 responses (software requests).** `success` iff the node is ON, an item of that name and kind is installed, the
request is registered for that kind, the item is in the operating state the request requires, and the method returns
True; `unreachable` iff the node is ON and no such item / no such request exists; `failure` otherwise. -/
theorem C14_resp_sw (n : Node) (isApp : Bool) (name : String) (r : SwReq) :
    n.respond (.sw isApp name r) =
      if n.power ≠ .on then .failure
      else match n.findSw isApp name with
        | none => .unreachable
        | some x =>
          if r.known isApp = false then .unreachable
          else if r.allowed x = false then .failure
          else if (x.handle r).2 then .success else .failure := by
  simp only [Node.respond, Resp.ofBool]
  by_cases hon : n.power = .on
  · simp only [hon, ne_eq, not_true_eq_false, if_false]
    cases n.findSw isApp name with
    | none => rfl
    | some x => cases r.known isApp <;> cases r.allowed x <;> cases (x.handle r).2 <;> simp
  · simp [hon]

/-- a `scan` request that answers `success` is exactly a scan that completes for the addressed item (ties the response to
`swScanCompletes`) -/
theorem C14_resp_sw_scan_success (n : Node) (isApp : Bool) (name : String) (x : Sw)
    (hx : n.findSw isApp name = some x) :
    n.respond (.sw isApp name .scan) = .success ↔ swScanCompletes n (.sw isApp name .scan) x = true := by
  have hf := List.find?_some hx
  simp only [Bool.and_eq_true, decide_eq_true_eq] at hf
  rw [C14_resp_sw, hx]
  simp only [swScanCompletes, Sw.accepts, hf.1, hf.2, SwReq.known, Sw.handle, decide_true, Bool.true_and,
    Bool.and_eq_true, decide_eq_true_eq]
  by_cases hon : n.power = .on <;> by_cases ha : SwReq.allowed .scan x = true <;> simp [hon, ha]

/-- a `fix` request answers `success` exactly when it puts the item into FIXING: node ON, item RUNNING, actual health GOOD
or COMPROMISED -/
theorem C14_resp_sw_fix_success (n : Node) (isApp : Bool) (name : String) (x : Sw)
    (hx : n.findSw isApp name = some x) :
    n.respond (.sw isApp name .fix) = .success ↔ (n.power = .on ∧ x.op = .running ∧ x.canFix = true) := by
  rw [C14_resp_sw, hx]
  simp only [SwReq.known, SwReq.allowed, SwReq.guard, Sw.handle]
  by_cases hon : n.power = .on <;> by_cases hr : x.op = .running <;> by_cases hc : x.canFix = true <;> simp [hon, hr, hc]

/-- node-level requests: `os scan`, `shutdown`, `reset` succeed iff the node is ON; `startup` iff it is OFF -/
theorem C14_resp_node (n : Node) :
    (n.respond .osScan = .success ↔ n.power = .on) ∧ (n.respond .shutdown = .success ↔ n.power = .on) ∧
    (n.respond .reset = .success ↔ n.power = .on) ∧ (n.respond .startup = .success ↔ n.power = .off) := by
  simp only [Node.respond, Resp.ofBool]
  refine ⟨?_, ?_, ?_, ?_⟩ <;> (split <;> simp_all)

/-- folder requests: refused (`failure`) when the node is not ON or no live folder has that name; otherwise the answer of
the folder's method — `checkhash` always fails, `scan`/`repair`/`restore`/`corrupt` succeed on a live folder -/
theorem C14_resp_folder (n : Node) (F : String) (r : ItemReq) :
    n.respond (.folder F r) = .success ↔ (n.power = .on ∧ (n.findLiveFolder F).isSome ∧ r ≠ .checkhash) := by
  simp only [Node.respond]
  by_cases hon : n.power = .on
  · simp only [hon, ne_eq, not_true_eq_false, if_false, true_and]
    cases hG : n.findLiveFolder F with
    | none => simp
    | some G =>
      have hd : G.deleted = false := by
        have := List.find?_some hG
        simp only [Bool.and_eq_true, decide_eq_true_eq, Bool.not_eq_true'] at this
        exact this.2
      cases r <;> simp [Folder.handle, Resp.ofBool, hd]
  · simp [hon]

/-- install / uninstall requests -/
theorem C14_resp_install (d : DNode) (s : SwSpec) (known : Bool) :
    d.respond (.appInstallReq s known) = .success ↔ (d.n.power = .on ∧ (d.n.hasSw s.name = true ∨ known = true)) := by
  simp only [DNode.respond, Resp.ofBool]
  by_cases hon : d.n.power = .on <;> cases hh : d.n.hasSw s.name <;> cases known <;> simp [hon, hh]

theorem C14_resp_uninstall (d : DNode) (name : String) :
    d.respond (.appUninstallReq name) = .success ↔ (d.n.power = .on ∧ d.n.hasSw name = true) := by
  simp only [DNode.respond, Resp.ofBool]
  by_cases hon : d.n.power = .on <;> cases hh : d.n.hasSw name <;> simp [hon, hh]

/-- an install request that is answered `success` although nothing was installed is exactly the "already installed" case -/
theorem C14_resp_install_effect (d : DNode) (s : SwSpec) (known : Bool) :
    (d.apply (.appInstallReq s known)).n.sws ≠ d.n.sws → d.respond (.appInstallReq s known) = .success := by
  intro h
  simp only [DNode.apply] at h
  split at h
  · rename_i hc
    rw [C14_resp_install]; exact ⟨hc.1, Or.inr hc.2.2⟩
  · exact absurd rfl h

/-! ## 5. non-vacuity: concrete dynamic traces (kernel-evaluated) -/

def exD : DNode := { n := exNode, defScan := none, defRestore := some 1 }

/-- install by request: INSTALLING for 2 ticks, then RUNNING and GOOD; its visible health stays UNUSED until a scan;
uninstalling it removes exactly that item; the other items are untouched throughout -/
example :
    let s : SwSpec := { name := "dos-bot", isApp := true, fixDur := 2, auxDur := 2, h0 := .good }
    ((exD.run [.appInstallReq s true, .base .tick]).n.sws.map (fun x => (x.name, x.op, x.visible))) =
      [("dns", .running, .unused), ("browser", .closed, .unused), ("dos-bot", .installing, .unused)] ∧
    ((exD.run [.appInstallReq s true, .base .tick, .base .tick, .base .osScan, .base .tick]).n.sws.map
        (fun x => (x.name, x.op, x.actual, x.visible))) =
      [("dns", .running, .compromised, .compromised), ("browser", .closed, .unused, .unused),
       ("dos-bot", .running, .good, .good)] ∧
    ((exD.run [.appInstallReq s true, .appUninstallReq "browser"]).n.sws.map (·.name)) = ["dns", "dos-bot"] := by
  decide

/-- delete a scanned CORRUPT file, create a file of the same name: the new file shows NONE (not the old file's CORRUPT);
a database-style replacement carries the old visible value over instead -/
example :
    ((exD.run [.base (.file "d" "a" .scan), .base (.fsDeleteFile "d" "a"), .fsCreateFile "d" "a" false]).n.folders.map
        (fun G => G.files.map (fun f => (f.name, f.visible, f.deleted)))) =
      [[("a", .corrupt, true), ("b", .none, true), ("a", .none, false)]] ∧
    ((exD.run [.base (.file "d" "a" .scan), .fsCreateFile "dl" "a" false, .dbReplace "d" "a" "dl"]).n.folders.map
        (fun G => (G.name, G.files.map (fun f => (f.name, f.actual, f.visible, f.deleted))))) =
      [("d", [("a", .corrupt, .corrupt, true), ("b", .good, .none, true), ("a", .good, .corrupt, false)]),
       ("dl", [("a", .good, .none, false)])] := by
  decide

/-- `copy_file` onto a live namesake: the old file is deleted (keeps what it showed), the copy shows what its SOURCE showed -/
example :
    ((exD.run [.fsCreateFile "dl" "a" false, .base (.file "d" "a" .scan), .fsCopyFile "dl" "a" "d"]).n.folders.map
        (fun G => (G.name, G.files.map (fun f => (f.name, f.actual, f.visible, f.deleted))))) =
      [("d", [("a", .corrupt, .corrupt, true), ("b", .good, .none, true), ("a", .good, .none, false)]),
       ("dl", [("a", .good, .none, false)])] := by
  decide

end Primaite.Health
