/-
C20 — the simulation built from a scenario file is what the file says; key order of mappings is irrelevant.
Property theorems only; the model is `Model/Config.lean`.
-/
import PrimaiteModel.Model.Config
import PrimaiteModel.Props.C07
import PrimaiteModel.Props.C20Office
import PrimaiteModel.Gen.Config
namespace Primaite.Config
open Primaite.Acl

/-! ### generic facts about association lists -/

theorem alookup_none_of_not_mem {κ α} [DecidableEq κ] (k : κ) (m : Assoc κ α) (h : k ∉ keys m) : alookup k m = none := by
  induction m with
  | nil => rfl
  | cons e rest ih =>
    obtain ⟨k', v⟩ := e
    simp only [keys, List.map_cons, List.mem_cons, not_or] at h
    have h1 : ¬ k' = k := fun e => h.1 e.symm
    simp only [alookup, h1, if_false]
    exact ih (by simpa [keys] using h.2)

theorem mem_of_alookup {κ α} [DecidableEq κ] (k : κ) (v : α) (m : Assoc κ α) (h : alookup k m = some v) : (k, v) ∈ m := by
  induction m with
  | nil => simp [alookup] at h
  | cons e rest ih =>
    obtain ⟨k', v'⟩ := e
    simp only [alookup] at h
    by_cases hk : k' = k
    · simp only [hk, if_true, Option.some.injEq] at h
      simp [hk, h]
    · simp only [hk, if_false] at h
      exact List.mem_cons_of_mem _ (ih h)

/-- **per-site lemma for every mapping read by key**: the value under a key does not depend on the order of the entries
(Python dict keys are unique). Covers `.get`, `[...]` and pydantic schema construction. -/
theorem C20_lookup_perm {κ α} [DecidableEq κ] (k : κ) {m m' : Assoc κ α} (hp : m.Perm m') (hn : (keys m).Nodup) :
    alookup k m = alookup k m' := by
  induction hp with
  | nil => rfl
  | cons e _ ih =>
    obtain ⟨k', v⟩ := e
    simp only [keys, List.map_cons, List.nodup_cons] at hn
    simp only [alookup]
    split
    · rfl
    · exact ih (by simpa [keys] using hn.2)
  | swap e₁ e₂ l =>
    obtain ⟨k₁, v₁⟩ := e₁; obtain ⟨k₂, v₂⟩ := e₂
    simp only [keys, List.map_cons, List.nodup_cons, List.mem_cons, not_or] at hn
    have hne : ¬ k₂ = k₁ := fun e => hn.1.1 e
    simp only [alookup]
    by_cases h1 : k₁ = k <;> by_cases h2 : k₂ = k <;> simp [h1, h2]
    exact absurd (h2.trans h1.symm) hne
  | trans h₁ _ ih₁ ih₂ =>
    have hn' := (h₁.map (·.1)).nodup_iff.mp (by simpa [keys] using hn)
    exact (ih₁ hn).trans (ih₂ (by simpa [keys] using hn'))

/-- folding a partial update over a list does not depend on the order of the list when updates with different keys commute. -/
theorem foldM?_perm {σ α κ} (f : σ → α → Option σ) (key : α → κ)
    (hcomm : ∀ s a b, key a ≠ key b → (f s a).bind (fun s' => f s' b) = (f s b).bind (fun s' => f s' a))
    {l l' : List α} (hp : l.Perm l') (hn : (l.map key).Nodup) : ∀ s, foldM? f s l = foldM? f s l' := by
  induction hp with
  | nil => intro s; rfl
  | cons a _ ih =>
    intro s
    simp only [List.map_cons, List.nodup_cons] at hn
    simp only [foldM?]
    cases f s a with
    | none => rfl
    | some s' => exact ih hn.2 s'
  | swap a b l =>
    intro s
    simp only [List.map_cons, List.nodup_cons, List.mem_cons, not_or] at hn
    have hne : key b ≠ key a := hn.1.1
    have hc := hcomm s b a hne
    simp only [foldM?]
    cases hb : f s b with
    | none =>
      cases ha : f s a with
      | none => rfl
      | some sa =>
        simp only [hb, ha, Option.bind_none, Option.bind_some] at hc
        simp only [← hc]
    | some sb =>
      cases ha : f s a with
      | none =>
        simp only [hb, ha, Option.bind_none, Option.bind_some] at hc
        simp only [hc]
      | some sa =>
        simp only [hb, ha, Option.bind_some] at hc
        simp only [hc]
  | trans h₁ _ ih₁ ih₂ =>
    intro s
    have hn' := (h₁.map key).nodup_iff.mp hn
    exact (ih₁ hn s).trans (ih₂ hn' s)

/-! ### per-site lemmas for the mappings the loaders iterate over (the sites are listed in Gen/Config.lean) -/

/-- **site `acl.items()`** (Router / Firewall / WirelessRouter `from_config`): rules are placed by position, so the order of
the entries of an `acl:` mapping is irrelevant — from `C07_add_commute`. Holds for ill-formed mappings too (same error). -/
theorem C20_site_acl_items (a : Acl) {m m' : Assoc Nat Rule} (hp : m.Perm m') (hn : (keys m).Nodup) :
    addRules a m = addRules a m' := by
  unfold addRules
  exact foldM?_perm (fun a (e : Nat × Rule) => addRule a e.2 e.1) (·.1)
    (fun s x y hxy => C07_add_commute s x.2 y.2 x.1 y.1 hxy) hp (by simpa [keys] using hn) a

theorem configurePort_comm (nics : List Nic) (x y : Nat × IfCfg) (h : x.1 ≠ y.1) :
    (configurePort nics x).bind (fun s => configurePort s y) = (configurePort nics y).bind (fun s => configurePort s x) := by
  unfold configurePort
  by_cases hx : 1 ≤ x.1 ∧ x.1 ≤ nics.length
  · by_cases hy : 1 ≤ y.1 ∧ y.1 ≤ nics.length
    · rw [if_pos hx, if_pos hy]
      simp only [Option.bind_some, List.length_modify]
      rw [if_pos hx, if_pos hy]
      congr 1
      apply List.ext_getElem?
      intro i
      simp only [List.getElem?_modify]
      have hne' : x.1 - 1 ≠ y.1 - 1 := by omega
      by_cases h1 : x.1 - 1 = i <;> by_cases h2 : y.1 - 1 = i <;> simp [h1, h2]
      exact absurd (h1.trans h2.symm) hne'
    · rw [if_pos hx, if_neg hy]
      simp only [Option.bind_some, Option.bind_none, List.length_modify]
      rw [if_neg hy]
  · by_cases hy : 1 ≤ y.1 ∧ y.1 ≤ nics.length
    · rw [if_neg hx, if_pos hy]
      simp only [Option.bind_some, Option.bind_none, List.length_modify]
      rw [if_neg hx]
    · rw [if_neg hx, if_neg hy]
      simp only [Option.bind_none]

/-- **site `ports.items()`** (`Router.from_config`): ports are configured by number. -/
theorem C20_site_ports_items (nics : List Nic) {m m' : Assoc Nat IfCfg} (hp : m.Perm m') (hn : (keys m).Nodup) :
    foldM? configurePort nics m = foldM? configurePort nics m' :=
  foldM?_perm configurePort (·.1) (fun s x y hxy => configurePort_comm s x y hxy) hp (by simpa [keys] using hn) nics

/-- **site `action_map.items()`** (`ActionManager.__init__`): the action map is indexed by key. -/
theorem C20_site_action_map_items {m m' : Assoc Nat ActionCfg} (hp : m.Perm m') (hn : (keys m).Nodup) :
    actionsOf m = actionsOf m' := by
  unfold actionsOf
  rw [hp.length_eq]
  apply List.map_congr_left
  intro i _
  exact C20_lookup_perm i hp hn

theorem insertByKey_comm {α} (a b : Nat × α) (h : a.1 ≠ b.1) (l : List (Nat × α)) :
    insertByKey a (insertByKey b l) = insertByKey b (insertByKey a l) := by
  induction l with
  | nil =>
    simp only [insertByKey]
    by_cases h1 : a.1 ≤ b.1
    · have h2 : ¬ b.1 ≤ a.1 := by omega
      simp [h1, h2]
    · have h2 : b.1 ≤ a.1 := by omega
      simp [h1, h2]
  | cons x t ih =>
    simp only [insertByKey]
    by_cases ha : a.1 ≤ x.1 <;> by_cases hb : b.1 ≤ x.1 <;> simp only [ha, hb, if_true, if_false, insertByKey]
    · by_cases h1 : a.1 ≤ b.1
      · have h2 : ¬ b.1 ≤ a.1 := by omega
        simp [h1, h2, ha]
      · have h2 : b.1 ≤ a.1 := by omega
        simp [h1, h2, hb]
    · have h2 : ¬ b.1 ≤ a.1 := by omega
      simp [h2, hb]
    · have h2 : ¬ a.1 ≤ b.1 := by omega
      simp [h2, ha]
    · rw [ih]

/-- **site `network_interfaces.items()`** (`PrimaiteGame.from_config`, repaired): extra NICs are connected in ascending key
order, so the order of the entries is irrelevant. (Before the repair they were connected in file order: see the corpus.) -/
theorem C20_site_network_interfaces_items {α} {m m' : List (Nat × α)} (hp : m.Perm m') (hn : (m.map (·.1)).Nodup) :
    sortByKey m = sortByKey m' := by
  unfold sortByKey
  induction hp with
  | nil => rfl
  | cons a _ ih =>
    simp only [List.map_cons, List.nodup_cons] at hn
    simp only [List.foldr_cons, ih hn.2]
  | swap a b l =>
    simp only [List.map_cons, List.nodup_cons, List.mem_cons, not_or] at hn
    simp only [List.foldr_cons]
    exact insertByKey_comm b a hn.1.1 _
  | trans h₁ _ ih₁ ih₂ =>
    have hn' := (h₁.map (·.1)).nodup_iff.mp hn
    exact (ih₁ hn).trans (ih₂ hn')

/-! ### the loader's loops compute what the file declares -/

theorem foldM?_some_step {σ α} (f : σ → α → Option σ) (s s' : σ) (a : α) (l : List α) (h : f s a = some s') :
    foldM? f s (a :: l) = foldM? f s' l := by
  simp only [foldM?, h]

/-- the `add_rule` loop leaves in slot `i` the rule the file puts at position `i`, else what was there before. -/
theorem addRules_eq_declared (m : Assoc Nat Rule) : ∀ (base : Acl), (keys m).Nodup → (∀ k ∈ keys m, k < base.rules.length) →
    addRules base m = some (declaredAcl base m) := by
  induction m with
  | nil =>
    intro base _ _
    simp only [addRules, foldM?, declaredAcl, alookup, Option.some.injEq]
    have : base.rules = (List.range base.rules.length).map fun i => (base.rules[i]?).join := by
      apply List.ext_getElem?
      intro i
      by_cases hi : i < base.rules.length
      · simp [hi]
      · simp [hi, List.getElem?_eq_none (Nat.le_of_not_lt hi)]
    cases base
    simp only at this ⊢
    congr 1
  | cons e rest ih =>
    intro base hn hb
    obtain ⟨p, r⟩ := e
    simp only [keys, List.map_cons, List.nodup_cons] at hn
    have hp : p < base.rules.length := hb p (by simp [keys])
    have hstep : addRule base r p = some { base with rules := base.rules.set p (some { r with hits := 0 }) } := by
      simp [addRule, hp]
    unfold addRules
    rw [foldM?_some_step _ _ _ _ _ hstep]
    have ih' := ih { base with rules := base.rules.set p (some { r with hits := 0 }) } (by simpa [keys] using hn.2)
      (by intro k hk; simp only [List.length_set]; exact hb k (by simp only [keys, List.map_cons, List.mem_cons]; right; simpa [keys] using hk))
    unfold addRules at ih'
    rw [ih']
    simp only [declaredAcl, List.length_set, Option.some.injEq]
    congr 1
    apply List.map_congr_left
    intro i hi
    simp only [List.mem_range] at hi
    simp only [alookup]
    by_cases hpi : p = i
    · subst hpi
      have hnone : alookup p rest = none := alookup_none_of_not_mem p rest (by simpa [keys] using hn.1)
      simp [hnone, hp]
    · simp only [hpi, if_false]
      cases alookup i rest with
      | some r' => rfl
      | none => simp [List.getElem?_set, hpi]

/-- what `configure_port` calls leave behind, for an arbitrary starting list of interfaces. -/
def portsSpec (nics : List Nic) (m : Assoc Nat IfCfg) : List Nic :=
  (List.range nics.length).map fun i =>
    match alookup (i + 1) m, nics[i]? with
    | some c, some nic => { nic with ip := some c.ip, mask := some (c.mask.getD defaultMask) }
    | _, some nic => nic
    | _, none => loopNic none

theorem configurePorts_eq_spec (m : Assoc Nat IfCfg) : ∀ (nics : List Nic), (keys m).Nodup →
    (∀ k ∈ keys m, 1 ≤ k ∧ k ≤ nics.length) → foldM? configurePort nics m = some (portsSpec nics m) := by
  induction m with
  | nil =>
    intro nics _ _
    simp only [foldM?, portsSpec, alookup, Option.some.injEq]
    apply List.ext_getElem?
    intro i
    by_cases hi : i < nics.length
    · simp [hi]
    · simp [hi, List.getElem?_eq_none (Nat.le_of_not_lt hi)]
  | cons e rest ih =>
    intro nics hn hb
    obtain ⟨p, c⟩ := e
    simp only [keys, List.map_cons, List.nodup_cons] at hn
    have hp : 1 ≤ p ∧ p ≤ nics.length := hb p (by simp [keys])
    have hstep : configurePort nics (p, c) = some (nics.modify (p - 1) fun nic =>
        { nic with ip := some c.ip, mask := some (c.mask.getD defaultMask) }) := by
      simp [configurePort, hp]
    rw [foldM?_some_step _ _ _ _ _ hstep]
    rw [ih _ (by simpa [keys] using hn.2)
      (by intro k hk; simp only [List.length_modify]; exact hb k (by simp only [keys, List.map_cons, List.mem_cons]; right; simpa [keys] using hk))]
    simp only [portsSpec, List.length_modify, Option.some.injEq]
    apply List.map_congr_left
    intro i hi
    simp only [List.mem_range] at hi
    simp only [alookup, List.getElem?_modify]
    by_cases hpi : p = i + 1
    · subst hpi
      have hnone : alookup (i + 1) rest = none := alookup_none_of_not_mem (i + 1) rest (by simpa [keys] using hn.1)
      simp [hnone, hi]
    · have h2 : ¬ (p - 1 = i) := by omega
      simp only [hpi, if_false, h2]
      simp [hi]

theorem portsSpec_replicate (num : Nat) (m : Assoc Nat IfCfg) :
    portsSpec (List.replicate num (loopNic none)) m = declaredPorts num m := by
  simp only [portsSpec, declaredPorts, List.length_replicate]
  apply List.map_congr_left
  intro i hi
  simp only [List.mem_range] at hi
  simp only [List.getElem?_replicate, hi, if_true]
  cases alookup (i + 1) m <;> simp [loopNic]

/-! ### software: registry and live instances -/

theorem find?_of_nodup (insts : List Soft) (s : Soft) (hn : (insts.map (·.name)).Nodup) (hs : s ∈ insts) :
    insts.find? (fun x => decide (x.name = s.name)) = some s := by
  induction insts with
  | nil => simp at hs
  | cons x t ih =>
    simp only [List.map_cons, List.nodup_cons] at hn
    simp only [List.mem_cons] at hs
    rcases hs with rfl | hs
    · simp
    · have hne : ¬ x.name = s.name := fun e => hn.1 (e ▸ List.mem_map_of_mem (f := (·.name)) hs)
      simp only [List.find?_cons, hne, decide_false]
      exact ih hn.2 hs

theorem liveCount_of_nodup (insts : List Soft) (s : Soft) (hn : (insts.map (·.name)).Nodup) (hs : s ∈ insts) :
    liveCount insts s.name = 1 := by
  unfold liveCount
  induction insts with
  | nil => simp at hs
  | cons x t ih =>
    simp only [List.map_cons, List.nodup_cons] at hn
    simp only [List.mem_cons] at hs
    have hnone : ∀ y : Soft, y.name ∉ t.map (·.name) → (t.filter (fun z => decide (z.name = y.name))).length = 0 := by
      intro y hy
      rw [List.length_eq_zero_iff, List.filter_eq_nil_iff]
      intro z hz
      simp only [decide_eq_true_eq]
      exact fun e => hy (e ▸ List.mem_map_of_mem (f := (·.name)) hz)
    rcases hs with rfl | hs
    · simp only [List.filter_cons, decide_true, if_true, List.length_cons]
      rw [hnone s hn.1]
    · have hne : ¬ x.name = s.name := fun e => hn.1 (e ▸ List.mem_map_of_mem (f := (·.name)) hs)
      simp only [List.filter_cons, hne, decide_false]
      exact ih hn.2 hs

/-- If no software name is installed twice on a node, every install request yields exactly one live instance, registered under
its name with its own options. -/
theorem softInventory_of_nodup (insts : List Soft) (hn : (insts.map (·.name)).Nodup) :
    softInventory insts = insts.map fun s =>
      { name := s.name, isApp := s.isApp, opts := readAll s.name s.opts, live := 1, running := s.running, health := s.health,
        imposedFix := s.imposedFix, imposedRestart := s.imposedRestart } := by
  unfold softInventory
  apply List.map_congr_left
  intro s hs
  have hr : registered insts s.name = some s := by
    unfold registered
    exact find?_of_nodup insts.reverse s (by rw [List.map_reverse]; exact (List.reverse_perm _).nodup_iff.mpr hn) (by simpa using hs)
  simp only [hr, liveCount_of_nodup insts s hn hs]

/-! ### `SoftwareManager.install` replaces an installed namesake (code after the F-22 repair) -/

theorem foldl_installOne (reqs : List Soft) : ∀ acc : List Soft,
    reqs.foldl installOne acc
      = acc.filter (fun x => !(reqs.any (fun r => decide (r.name = x.name)))) ++ lastRequests reqs := by
  induction reqs with
  | nil =>
    intro acc
    have : acc.filter (fun _ => true) = acc := List.filter_eq_self.mpr (fun _ _ => rfl)
    simp [lastRequests, this]
  | cons s rest ih =>
    intro acc
    simp only [List.foldl_cons, ih, installOne, List.filter_append, List.filter_filter, lastRequests, List.any_cons]
    by_cases h : rest.any (fun x => decide (x.name = s.name)) = true
    · simp only [h, if_true, List.filter_cons, List.filter_nil, Bool.not_true]
      simp only [Bool.false_eq_true, if_false, List.append_nil]
      congr 1
      apply List.filter_congr
      intro x _
      by_cases e : x.name = s.name
      · simp [e]
      · have e' : ¬ s.name = x.name := fun q => e q.symm
        simp [e, e']
    · simp only [h, List.filter_cons, List.filter_nil]
      simp only [Bool.not_eq_true] at h
      simp only [h, Bool.not_false, if_true, Bool.false_eq_true, if_false, List.append_assoc, List.singleton_append]
      congr 1
      apply List.filter_congr
      intro x _
      by_cases e : x.name = s.name
      · simp [e]
      · have e' : ¬ s.name = x.name := fun q => e q.symm
        simp [e, e']

/-- For EVERY sequence of install calls on a fresh node, the live instances are exactly the last request per name. -/
theorem installedAfter_eq_lastRequests (reqs : List Soft) : installedAfter reqs = lastRequests reqs := by
  unfold installedAfter; rw [foldl_installOne]; simp

theorem lastRequests_sub : ∀ (l : List Soft), ∀ y ∈ lastRequests l, y ∈ l := by
  intro l
  induction l with
  | nil => intro y hy; simp [lastRequests] at hy
  | cons a t iht =>
    intro y hy
    unfold lastRequests at hy
    split at hy
    · exact List.mem_cons_of_mem _ (iht y hy)
    · rcases List.mem_cons.mp hy with rfl | hy
      · exact List.mem_cons_self
      · exact List.mem_cons_of_mem _ (iht y hy)

/-- never two live instances of one name, whatever is installed in whatever order -/
theorem lastRequests_nodup (reqs : List Soft) : ((lastRequests reqs).map (·.name)).Nodup := by
  induction reqs with
  | nil => simp [lastRequests]
  | cons s rest ih =>
    unfold lastRequests
    split
    · exact ih
    · rename_i h
      simp only [List.map_cons, List.nodup_cons]
      refine ⟨?_, ih⟩
      intro hm
      apply h
      rcases List.mem_map.mp hm with ⟨y, hy, e⟩
      exact List.any_eq_true.mpr ⟨y, lastRequests_sub rest y hy, by simpa using e⟩

/-- every requested name is live afterwards -/
theorem lastRequests_names (reqs : List Soft) : ∀ s ∈ reqs, s.name ∈ (lastRequests reqs).map (·.name) := by
  induction reqs with
  | nil => intro s hs; simp at hs
  | cons a t ih =>
    intro s hs
    unfold lastRequests
    rcases List.mem_cons.mp hs with rfl | hs
    · split
      · rename_i h
        rcases List.any_eq_true.mp h with ⟨y, hy, e⟩
        have := ih y hy
        simpa [of_decide_eq_true e] using this
      · simp
    · split
      · exact ih s hs
      · exact List.mem_cons_of_mem _ (ih s hs)

/-- the loader's software inventory: one live instance per requested name, carrying the options of the last request. -/
theorem softInventory_installed (reqs : List Soft) :
    softInventory (installedAfter reqs)
      = (lastRequests reqs).map fun s =>
          { name := s.name, isApp := s.isApp, opts := readAll s.name s.opts, live := 1, running := s.running, health := s.health,
            imposedFix := s.imposedFix, imposedRestart := s.imposedRestart } := by
  rw [installedAfter_eq_lastRequests]
  exact softInventory_of_nodup _ (lastRequests_nodup reqs)

/-! ### initial state of software: started exactly on a node that is ON -/

theorem startSw_name (p : Power) (s : Soft) : (startSw p s).name = s.name := by
  unfold startSw; split <;> rfl

theorem newInstance_name (p : Power) (r : SoftReq) : (newInstance p r).name = r.name := by
  unfold newInstance
  cases r.initStarts <;> cases r.isApp <;> cases r.configured <;> simp [startSw_name]

/-- selecting the last request per name commutes with any name-preserving construction of the instances -/
theorem lastRequests_map (f : SoftReq → Soft) (hf : ∀ r, (f r).name = r.name) :
    ∀ reqs : List SoftReq, lastRequests (reqs.map f) = (lastReqs reqs).map f := by
  intro reqs
  induction reqs with
  | nil => rfl
  | cons r rest ih =>
    simp only [List.map_cons, lastRequests, lastReqs, List.any_map, ih]
    have : (rest.any ((fun x => decide (x.name = (f r).name)) ∘ f)) = rest.any (fun x => decide (x.name = r.name)) := by
      congr 1; funext x; simp [hf]
    rw [this]
    split <;> simp

/-- software on a node that is not ON is never started: whatever the class's constructor, `install` and the loader attempt,
the instance stays STOPPED / CLOSED with its configured starting health. -/
theorem newInstance_not_on (p : Power) (hp : p ≠ .on) (r : SoftReq) :
    newInstance p r = ({ name := r.name, isApp := r.isApp, opts := r.opts, running := false, health := r.health0,
                         imposedFix := r.imposedFix, imposedRestart := r.imposedRestart } : Soft) := by
  have hs : ∀ s : Soft, startSw p s = s := by intro s; simp [startSw, hp]
  unfold newInstance
  cases r.initStarts <;> cases r.isApp <;> cases r.configured <;> simp [hs]

/-- on a node that is ON, the final `power_on()` leaves every instance RUNNING, and a starting health of UNUSED has become GOOD —
for EVERY combination of "constructor starts it", "service or application", "configured entry or system software". -/
theorem startSw_newInstance_on (r : SoftReq) :
    startSw .on (newInstance .on r) =
      ({ name := r.name, isApp := r.isApp, opts := r.opts, running := true,
         health := (if r.health0 = .unused then .good else r.health0),
         imposedFix := r.imposedFix, imposedRestart := r.imposedRestart } : Soft) := by
  unfold newInstance
  cases hh : r.health0 <;> cases r.initStarts <;> cases r.isApp <;> cases r.configured <;> simp [startSw, hh]

/-! ### configured options and the live attributes that carry them -/

theorem alookup_aset_self {κ α} [DecidableEq κ] (k : κ) (v : α) (m : Assoc κ α) : alookup k (aset k v m) = some v := by
  induction m with
  | nil => simp [aset, alookup]
  | cons e rest ih =>
    obtain ⟨k', v'⟩ := e
    by_cases h : k' = k <;> simp [aset, alookup, h, ih]

theorem alookup_aset_ne {κ α} [DecidableEq κ] (k k' : κ) (v : α) (m : Assoc κ α) (h : k' ≠ k) :
    alookup k' (aset k v m) = alookup k' m := by
  induction m with
  | nil =>
    have : ¬ k = k' := fun e => h e.symm
    simp [aset, alookup, this]
  | cons e rest ih =>
    obtain ⟨k₂, v₂⟩ := e
    by_cases h2 : k₂ = k
    · subst h2
      have : ¬ k₂ = k' := fun e => h e.symm
      simp [aset, alookup, this]
    · by_cases h3 : k₂ = k'
      · subst h3
        simp [aset, alookup, h2]
      · simp [aset, alookup, h2, h3, ih]

theorem constructLive_untouched (opts : Assoc String String) (attr : String) :
    ∀ (rows : List (String × String × String)) (acc : Assoc String (Option String)), attr ∉ rows.map (·.2.1) →
      alookup attr (rows.foldl (fun live r => aset r.2.1 (alookup r.2.2 opts) live) acc) = alookup attr acc := by
  intro rows
  induction rows with
  | nil => intro acc _; rfl
  | cons x rest ih =>
    intro acc h
    simp only [List.map_cons, List.mem_cons, not_or] at h
    simp only [List.foldl_cons]
    rw [ih _ h.2, alookup_aset_ne _ _ _ _ h.1]

/-- **a constructor chain that assigns each attribute once leaves, in the attribute of every row, the configured option of that
row** (whatever else the chain assigns, in whatever order). -/
theorem constructLive_row (opts : Assoc String String) :
    ∀ (rows : List (String × String × String)) (acc : Assoc String (Option String)), (rows.map (·.2.1)).Nodup →
      ∀ r ∈ rows, alookup r.2.1 (rows.foldl (fun live r => aset r.2.1 (alookup r.2.2 opts) live) acc) = some (alookup r.2.2 opts) := by
  intro rows
  induction rows with
  | nil => intro _ _ r hr; simp at hr
  | cons x rest ih =>
    intro acc hn r hr
    simp only [List.map_cons, List.nodup_cons] at hn
    simp only [List.foldl_cons]
    rcases List.mem_cons.mp hr with rfl | hr
    · rw [constructLive_untouched opts _ rest _ hn.1, alookup_aset_self]
    · exact ih _ hn.2 r hr

/-- in every constructor chain of the regenerated tables each live attribute is assigned exactly once -/
theorem chainRows_attrs_nodup (name : String) : ((chainRows name).map (·.2.1)).Nodup := by
  unfold chainRows
  cases h : alookup name classChains with
  | none => simp
  | some chain =>
    have hm := mem_of_alookup name chain classChains h
    have hall : ∀ e ∈ classChains, ((e.2.flatMap fun c => initApplies.filter (fun r => r.1 = c)).map (·.2.1)).Nodup := by decide
    exact hall _ hm

theorem alookup_of_mem {κ α} [DecidableEq κ] (m : Assoc κ α) (hn : (keys m).Nodup) (k : κ) (v : α) (h : (k, v) ∈ m) :
    alookup k m = some v := by
  induction m with
  | nil => simp at h
  | cons e rest ih =>
    obtain ⟨k', v'⟩ := e
    simp only [keys, List.map_cons, List.nodup_cons] at hn
    rcases List.mem_cons.mp h with e | h
    · cases e; simp [alookup]
    · have : ¬ k' = k := by
        intro e; subst e
        exact hn.1 (List.mem_map_of_mem (f := (·.1)) h)
      simp only [alookup, this, if_false]
      exact ih (by simpa [keys] using hn.2) h

/-- **the live attribute equals the declared option**: for EVERY software name and EVERY option mapping (unique keys), an
option the file gives shows on the built software — read from the attribute the constructor chain assigned it to, or from the
config object when no constructor copies it — with exactly the value the file gives. -/
theorem C20_live_option_eq_declared (name : String) (opts : Assoc String String) (hn : (keys opts).Nodup) (k v : String)
    (h : (k, v) ∈ opts) : readOption name opts k = some v := by
  have hk := alookup_of_mem opts hn k v h
  unfold readOption
  cases hf : (chainRows name).reverse.find? (fun r => r.2.2 = k) with
  | none => simpa using hk
  | some r =>
    have hmem : r ∈ chainRows name := by
      have := List.mem_of_find?_eq_some hf
      simpa using this
    have hopt : r.2.2 = k := by
      have := List.find?_some hf
      simpa using this
    simp only [constructLive]
    rw [constructLive_row opts _ [] (chainRows_attrs_nodup name) r hmem, hopt, hk]
    rfl

theorem readAll_declared (name : String) (opts : Assoc String String) (hn : (keys opts).Nodup) :
    readAll name opts = opts.map fun e => (e.1, some e.2) := by
  unfold readAll
  apply List.map_congr_left
  intro e he
  rw [C20_live_option_eq_declared name opts hn e.1 e.2 he]

/-- per class, straight from the regenerated assignment table: for every row `(class, attribute, option)` and every software whose
constructor chain contains that class, the live attribute holds the configured option after construction. -/
theorem C20_live_attribute_per_class (name : String) (opts : Assoc String String) (r : String × String × String)
    (hr : r ∈ chainRows name) :
    alookup r.2.1 (constructLive (chainRows name) opts) = some (alookup r.2.2 opts) :=
  constructLive_row opts _ [] (chainRows_attrs_nodup name) r hr

/-! ### initial state of software: started exactly on a node that is ON -/

/-- the loader's software of a node whose declared operating state is `p`, options still as the walker reads them -/
theorem softInventory_loaded_read (d : DefaultsCfg) (p : Power) (k : Kind) (n : NodeCfg) :
    softInventory (powerOnSoftware p (installedAfter (installAll d p k n)))
      = (lastReqs (installRequests d k n)).map fun r =>
          { name := r.name, isApp := r.isApp, live := 1, opts := readAll r.name r.opts,
            imposedFix := r.imposedFix, imposedRestart := r.imposedRestart, running := decide (p = .on),
            health := if p = .on ∧ r.health0 = .unused then .good else r.health0 } := by
  unfold installAll
  rw [installedAfter_eq_lastRequests, lastRequests_map _ (newInstance_name p)]
  by_cases hp : p = .on
  · subst hp
    have hnd : (List.map (·.name) (((lastReqs (installRequests d k n)).map (newInstance .on)).map (startSw .on))).Nodup := by
      have := lastRequests_nodup ((installRequests d k n).map (newInstance .on))
      rw [lastRequests_map _ (newInstance_name .on)] at this
      simpa [List.map_map, Function.comp_def, startSw_name] using this
    simp only [powerOnSoftware, if_true]
    rw [softInventory_of_nodup _ hnd]
    simp only [List.map_map]
    apply List.map_congr_left
    intro r _
    by_cases hh : r.health0 = .unused <;> simp [startSw_newInstance_on, hh]
  · have hnd : (List.map (·.name) ((lastReqs (installRequests d k n)).map (newInstance p))).Nodup := by
      have := lastRequests_nodup ((installRequests d k n).map (newInstance p))
      rwa [lastRequests_map _ (newInstance_name p)] at this
    simp only [powerOnSoftware, hp, if_false]
    rw [softInventory_of_nodup _ hnd]
    simp only [List.map_map]
    apply List.map_congr_left
    intro r _
    simp [newInstance_not_on p hp, hp]

theorem lastReqs_sub : ∀ (l : List SoftReq), ∀ y ∈ lastReqs l, y ∈ l := by
  intro l
  induction l with
  | nil => intro y hy; simp [lastReqs] at hy
  | cons a t iht =>
    intro y hy
    unfold lastReqs at hy
    split at hy
    · exact List.mem_cons_of_mem _ (iht y hy)
    · rcases List.mem_cons.mp hy with rfl | hy
      · exact List.mem_cons_self
      · exact List.mem_cons_of_mem _ (iht y hy)

/-- every install request of a node carries the option mapping of a `services:` / `applications:` entry, or none -/
theorem installServices_opts (d : DefaultsCfg) : ∀ (l : List SwCfg) (seen : List String), ∀ r ∈ installServices d seen l,
    r.opts = [] ∨ ∃ c ∈ l, r.opts = c.opts := by
  intro l
  induction l with
  | nil => intro seen r hr; simp [installServices] at hr
  | cons c rest ih =>
    intro seen r hr
    by_cases hdb : c.type = "database-service" ∧ "ftp-client" ∉ seen
    · simp only [installServices, hdb, and_self, if_true] at hr
      rcases List.mem_cons.mp hr with rfl | hr
      · right; exact ⟨c, by simp, rfl⟩
      · rcases List.mem_cons.mp hr with rfl | hr
        · left; rfl
        · rcases ih _ r hr with h | ⟨c', hc', h⟩
          · left; exact h
          · right; exact ⟨c', by simp [hc'], h⟩
    · simp only [installServices, hdb, if_false] at hr
      rcases List.mem_cons.mp hr with rfl | hr
      · right; exact ⟨c, by simp, rfl⟩
      · rcases ih _ r hr with h | ⟨c', hc', h⟩
        · left; exact h
        · right; exact ⟨c', by simp [hc'], h⟩

def OptsOk (n : NodeCfg) : Prop := ∀ c ∈ n.services ++ n.applications, (keys c.opts).Nodup

theorem installRequests_opts_nodup (d : DefaultsCfg) (k : Kind) (n : NodeCfg) (h : OptsOk n) :
    ∀ r ∈ installRequests d k n, (keys r.opts).Nodup := by
  intro r hr
  unfold installRequests at hr
  rcases List.mem_append.mp hr with hr | hr
  · rcases List.mem_append.mp hr with hr | hr
    · obtain ⟨e, _, rfl⟩ := List.mem_map.mp hr
      simp [keys, sysReq]
    · rcases installServices_opts d _ _ r hr with h0 | ⟨c, hc, h0⟩
      · rw [h0]; simp [keys]
      · rw [h0]; exact h c (by simp [hc])
  · obtain ⟨c, hc, rfl⟩ := List.mem_map.mp hr
    exact h c (by simp [hc])

/-- **initial software state**: after loading, the software of a node whose declared operating state is `p` — one instance per
requested name, RUNNING iff `p` is ON, health = the configured starting health (UNUSED → GOOD once started), every declared
option showing with its declared value. -/
theorem softInventory_loaded (d : DefaultsCfg) (p : Power) (k : Kind) (n : NodeCfg) (h : OptsOk n) :
    softInventory (powerOnSoftware p (installedAfter (installAll d p k n))) = declaredSoftware d p k n := by
  rw [softInventory_loaded_read]
  unfold declaredSoftware
  apply List.map_congr_left
  intro r hr
  rw [readAll_declared r.name r.opts (installRequests_opts_nodup d k n h r (lastReqs_sub _ r hr))]

/-! ### add-if-absent loops (users, folders, files, agents) -/

theorem foldl_add_absent {α β} (key : β → String) (mk : α → β) (add : List β → α → List β)
    (hadd : ∀ acc a, key (mk a) ∉ acc.map key → add acc a = acc ++ [mk a]) :
    ∀ (l : List α) (acc : List β), (acc.map key ++ l.map (fun a => key (mk a))).Nodup → l.foldl add acc = acc ++ l.map mk := by
  intro l
  induction l with
  | nil => intro acc _; simp
  | cons a t ih =>
    intro acc hn
    simp only [List.foldl_cons, List.map_cons]
    have hnot : key (mk a) ∉ acc.map key := by
      intro hm
      have := (List.nodup_append.mp hn).2.2 _ hm (key (mk a)) (by simp)
      exact this rfl
    rw [hadd acc a hnot, ih]
    · simp
    · have : (acc.map key ++ key (mk a) :: t.map fun a => key (mk a)).Nodup := by simpa using hn
      simpa [List.map_append, List.append_assoc] using this

theorem foldl_add_present {α β} (add : List β → α → List β) (P : List β → α → Prop)
    (hadd : ∀ acc a, P acc a → add acc a = acc) : ∀ (l : List α) (acc : List β), (∀ a ∈ l, P acc a) → l.foldl add acc = acc := by
  intro l
  induction l with
  | nil => intro acc _; rfl
  | cons a t ih =>
    intro acc h
    simp only [List.foldl_cons]
    rw [hadd acc a (h a (by simp))]
    exact ih acc (fun b hb => h b (by simp [hb]))

def userOf (u : UserCfg) : UserInv := { name := u.name, password := u.password, admin := u.admin.getD false }

theorem addUser_absent (acc : List UserInv) (u : UserCfg) (h : (userOf u).name ∉ acc.map (·.name)) :
    addUser acc u = acc ++ [userOf u] := by
  unfold addUser
  have : acc.any (fun x => decide (x.name = u.name)) = false := by
    rw [List.any_eq_false]
    intro x hx
    simp only [decide_eq_true_eq]
    exact fun e => h (by simp only [userOf]; exact e ▸ List.mem_map_of_mem (f := (·.name)) hx)
  simp [this, userOf]

theorem addUser_present (acc : List UserInv) (u : UserCfg) (h : u.name ∈ acc.map (·.name)) : addUser acc u = acc := by
  unfold addUser
  have : acc.any (fun x => decide (x.name = u.name)) = true := by
    rw [List.any_eq_true]
    obtain ⟨x, hx, hxe⟩ := List.mem_map.mp h
    exact ⟨x, hx, by simpa using hxe⟩
  simp [this]

/-- users: the default admin plus the users the file lists (added once although the loader asks twice). -/
theorem buildUsers_eq_declared (n : NodeCfg) (hn : ("admin" :: n.users.map (·.name)).Nodup) :
    buildUsers n = declaredUsers n := by
  unfold buildUsers declaredUsers
  have h1 : n.users.foldl addUser [adminUser] = [adminUser] ++ n.users.map userOf :=
    foldl_add_absent (·.name) userOf addUser addUser_absent n.users [adminUser] (by simpa [adminUser, userOf] using hn)
  rw [h1]
  rw [foldl_add_present addUser (fun acc u => u.name ∈ acc.map (·.name)) addUser_present]
  · rfl
  · intro u hu
    simp only [List.map_append, List.mem_append, List.map_map]
    right
    exact List.mem_map.mpr ⟨u, hu, rfl⟩

theorem addFile_absent (acc : List FileCfg) (f : FileCfg) (h : f.name ∉ acc.map (·.name)) : addFile acc f = acc ++ [f] := by
  unfold addFile
  have : acc.any (fun x => decide (x.name = f.name)) = false := by
    rw [List.any_eq_false]
    intro x hx
    simp only [decide_eq_true_eq]
    exact fun e => h (e ▸ List.mem_map_of_mem (f := (·.name)) hx)
  simp [this]

def FoldersOk (fs : List FolderCfg) : Prop := (fs.map (·.name)).Nodup ∧ ∀ fd ∈ fs, (fd.files.map (·.name)).Nodup

theorem addFolder_absent (acc : List FolderCfg) (fd : FolderCfg) (hf : (fd.files.map (·.name)).Nodup)
    (h : fd.name ∉ acc.map (·.name)) : addFolder acc fd = acc ++ [fd] := by
  unfold addFolder
  have hnone : acc.find? (fun g => decide (g.name = fd.name)) = none := by
    rw [List.find?_eq_none]
    intro x hx
    simp only [decide_eq_true_eq]
    exact fun e => h (e ▸ List.mem_map_of_mem (f := (·.name)) hx)
  have hfiles : fd.files.foldl addFile [] = fd.files := by
    have := foldl_add_absent (·.name) id addFile (fun acc f hh => addFile_absent acc f hh) fd.files [] (by simpa using hf)
    simpa using this
  simp only [hnone, hfiles]

/-- folders and files: exactly the ones the file lists (when names are not repeated). -/
theorem buildFolders_eq_declared (n : NodeCfg) (h : FoldersOk n.folders) : buildFolders n = n.folders := by
  unfold buildFolders
  obtain ⟨hn, hf⟩ := h
  suffices ∀ (l acc : List FolderCfg), (acc.map (·.name) ++ l.map (·.name)).Nodup → (∀ fd ∈ l, (fd.files.map (·.name)).Nodup) →
      l.foldl addFolder acc = acc ++ l by
    simpa using this n.folders [] (by simpa using hn) hf
  intro l
  induction l with
  | nil => intro acc _ _; simp
  | cons a t ih =>
    intro acc hnd hfs
    simp only [List.foldl_cons]
    have hnot : a.name ∉ acc.map (·.name) := by
      intro hm
      exact (List.nodup_append.mp hnd).2.2 _ hm a.name (by simp) rfl
    rw [addFolder_absent acc a (hfs a (by simp)) hnot, ih]
    · simp
    · have : (acc.map (·.name) ++ a.name :: t.map (·.name)).Nodup := by simpa using hnd
      simpa [List.map_append, List.append_assoc] using this
    · intro fd hfd; exact hfs fd (by simp [hfd])

theorem putAgent_absent (acc : List AgentInv) (a : AgentCfg) (h : (agentOf a).ref ∉ acc.map (·.ref)) :
    putAgent acc (agentOf a) = acc ++ [agentOf a] := by
  unfold putAgent
  have : acc.any (fun x => decide (x.ref = (agentOf a).ref)) = false := by
    rw [List.any_eq_false]
    intro x hx
    simp only [decide_eq_true_eq]
    exact fun e => h (e ▸ List.mem_map_of_mem (f := (·.ref)) hx)
  simp [this]

/-- agents: one per entry, under its `ref` (refs not repeated). -/
theorem buildAgents_eq_declared (as : List AgentCfg) (hn : (as.map (·.ref)).Nodup) : buildAgents as = as.map agentOf := by
  unfold buildAgents
  have := foldl_add_absent (·.ref) agentOf (fun acc a => putAgent acc (agentOf a)) putAgent_absent as []
    (by simpa [agentOf] using hn)
  simpa using this

/-! ### well-formed scenarios -/

def AclOk (m : Assoc Nat Rule) : Prop := (keys m).Nodup ∧ ∀ k ∈ keys m, k < aclSlots

/-- what the documentation asks of one node entry (all decidable). -/
structure NodeWF (n : NodeCfg) : Prop where
  hostIp : (n.kind = .computer ∨ n.kind = .server ∨ n.kind = .printer) → n.ip.isSome
  ports : (keys n.ports).Nodup ∧ ∀ k ∈ keys n.ports, 1 ≤ k ∧ k ≤ n.numPorts.getD defaultRouterPorts
  acl : AclOk n.acl
  fwPorts : n.fwPorts = [] ∨ ((alookup "internal_port" n.fwPorts).isSome ∧ (alookup "external_port" n.fwPorts).isSome)
  fwAcl : ∀ e ∈ fwAclNames, (match alookup e.1 n.fwAcl with
            | some m => AclOk m
            | none => n.fwAclPresent = true → e.2.2 = false)
  users : ("admin" :: n.users.map (·.name)).Nodup
  folders : FoldersOk n.folders
  /-- an `options:` mapping has unique keys (true of every parsed YAML mapping) -/
  opts : OptsOk n
  /-- a wireless access point operates on a registered frequency -/
  wap : ∀ w, n.wap = some w → knownFrequency w.frequency = true

/-- is interface `port` of node `n` a wireless access point? -/
def wirelessAt (n : NodeInv) (port : Nat) : Bool := (n.nics[port - 1]?.bind (·.frequency)).isSome

def linkOk (nodes : List NodeInv) (l : LinkCfg) : Bool :=
  match findNode nodes l.a, findNode nodes l.b with
  | some na, some nb =>
    decide (1 ≤ l.pa ∧ l.pa ≤ na.nics.length ∧ 1 ≤ l.pb ∧ l.pb ≤ nb.nics.length ∧ l.a ≠ l.b) &&
      !wirelessAt na l.pa && !wirelessAt nb l.pb
  | _, _ => false

def AirspaceOk (m : Assoc String String) : Prop := (keys m).Nodup ∧ ∀ k ∈ keys m, knownFrequency k = true

structure WellFormed (s : Scenario) : Prop where
  nodes : ∀ n ∈ s.nodes, NodeWF n
  /-- every `office-lan` entry passes its schema's and the adder's guards -/
  nodeSets : ∀ c ∈ s.nodeSets, OfficeValid c
  /-- "The hostname of the node. This will be used to reference the node." — over the `nodes:` entries and the nodes the node
  sets stand for -/
  hostnames : ((declaredNodes s).map (·.hostname)).Nodup
  links : ∀ l ∈ s.links, linkOk (declaredNodes s) l = true
  agents : (s.agents.map (·.ref)).Nodup
  airspace : AirspaceOk s.airspace

/-! ### build = declared -/

theorem buildFwAcls_eq (n : NodeCfg) : ∀ (names : List (String × Action × Bool)),
    (∀ e ∈ names, (match alookup e.1 n.fwAcl with
        | some m => AclOk m
        | none => n.fwAclPresent = true → e.2.2 = false)) →
    buildFwAcls n names = .ok (names.map fun (nm, imp, _) =>
      (nm, declaredAcl (Acl.empty aclSlots imp) (if n.fwAclPresent then (alookup nm n.fwAcl).getD [] else []))) := by
  intro names
  induction names with
  | nil => intro _; rfl
  | cons e rest ih =>
    intro h
    obtain ⟨nm, imp, mand⟩ := e
    have he := h (nm, imp, mand) (by simp)
    have hrest := ih (fun e' he' => h e' (by simp [he']))
    simp only [buildFwAcls, hrest, List.map_cons]
    have hempty : ∀ imp : Action, addRules (Acl.empty aclSlots imp) [] = some (declaredAcl (Acl.empty aclSlots imp) []) :=
      fun imp => addRules_eq_declared [] _ (by simp [keys]) (by simp [keys])
    have hdecl0 : ∀ imp : Action, declaredAcl (Acl.empty aclSlots imp) [] = Acl.empty aclSlots imp := by
      intro imp
      have := hempty imp
      simp only [addRules, foldM?, Option.some.injEq] at this
      exact this.symm
    by_cases hp : n.fwAclPresent = true
    · simp only [hp, if_true]
      cases hl : alookup nm n.fwAcl with
      | some m =>
        simp only [hl] at he
        have := addRules_eq_declared m (Acl.empty aclSlots imp) he.1 (by simpa [Acl.empty] using he.2)
        simp [this]
      | none =>
        simp only [hl] at he
        have hm : mand = false := he hp
        simp [hm, hdecl0]
    · have hp' : n.fwAclPresent = false := by simpa using hp
      simp [hp', hdecl0]

theorem declaredFwAcls_eq (n : NodeCfg) : declaredFwAcls n = fwAclNames.map fun (nm, imp, _) =>
    (nm, declaredAcl (Acl.empty aclSlots imp) (if n.fwAclPresent then (alookup nm n.fwAcl).getD [] else [])) := rfl

theorem fwNic_eq (n : NodeCfg) (key name : String) (mand : Bool)
    (h : n.fwPorts = [] ∨ (alookup key n.fwPorts).isSome ∨ mand = false) :
    fwNic n key name mand = .ok (declaredFwNic n key name) := by
  unfold fwNic declaredFwNic
  cases hl : alookup key n.fwPorts with
  | some c => rfl
  | none =>
    rcases h with h | h | h
    · simp [h]
    · simp [hl] at h
    · simp [h]

/-- an interface that has no link: `power_on()` / `connect_nic` cannot enable it -/
theorem powerOnNics_unwired (p : Power) (nics : List Nic) (h : ∀ c ∈ nics, c.wired = false) : powerOnNics p nics = nics := by
  unfold powerOnNics
  split
  · have : ∀ c ∈ nics, enableNic p c = c := by
      intro c hc; simp [enableNic, h c hc]
    exact (List.map_congr_left this).trans (List.map_id _)
  · rfl

/-- before any link: an interface is a wireless access point, or has no link and is disabled -/
def Fresh (c : Nic) : Prop := c.wired = false ∧ (c.frequency.isSome ∨ c.enabled = false)

/-- the interfaces of a freshly built node have no link; the wired ones are disabled (links come later) -/
theorem declaredNode_fresh (d : DefaultsCfg) (n : NodeCfg) : ∀ c ∈ (declaredNode d n).nics, Fresh c := by
  intro c hc
  unfold declaredNode at hc
  have host : ∀ c ∈ ({ name := none, ip := n.ip, mask := some (n.mask.getD defaultMask) } : Nic) :: declaredNics n.nics, Fresh c := by
    intro c hc
    rcases List.mem_cons.mp hc with rfl | hc
    · exact ⟨rfl, Or.inr rfl⟩
    · simp only [declaredNics, List.mem_map] at hc
      obtain ⟨e, _, rfl⟩ := hc
      exact ⟨rfl, Or.inr rfl⟩
  cases hk : n.kind <;> simp only [hk] at hc
  · exact host c hc
  · exact host c hc
  · exact host c hc
  · rcases List.mem_replicate.mp hc with ⟨_, rfl⟩
    exact ⟨rfl, Or.inr rfl⟩
  · simp only [declaredPorts, List.mem_map] at hc
    obtain ⟨i, _, rfl⟩ := hc
    split <;> exact ⟨rfl, Or.inr rfl⟩
  · simp only [List.mem_cons, List.not_mem_nil, or_false] at hc
    rcases hc with rfl | rfl | rfl <;> (unfold declaredFwNic; split <;> exact ⟨rfl, Or.inr rfl⟩)
  · simp only [List.mem_cons, List.not_mem_nil, or_false] at hc
    rcases hc with rfl | rfl
    · unfold declaredWap; split <;> exact ⟨rfl, Or.inl rfl⟩
    · unfold declaredRouterIf; split <;> exact ⟨rfl, Or.inr rfl⟩

/-- **precedence between two sources of one option**: for every pair of the regenerated table `outerSources` (dns-client
`dns_server` vs the node's `dns_server`) the install hook leaves what the documentation says: the entry's own value if it gives
one, else the outer source's, else none — for EVERY node entry and EVERY software inventory line. -/
theorem C20_option_precedence (n : NodeCfg) (sw : SoftInv) : applyOuter n sw = declaredOuter n sw := by
  unfold applyOuter declaredOuter hookOuter
  split
  · cases (alookup "dns_server" sw.opts).join <;> rfl
  · rfl

/-- the four combinations, spelled out: neither source, only the node's, only the entry's, both (the entry's wins) -/
theorem C20_option_precedence_cases (inner outer : String) :
    hookOuter none none = none ∧ hookOuter none (some outer) = some outer ∧
    hookOuter (some inner) none = some inner ∧ hookOuter (some inner) (some outer) = some inner := ⟨rfl, rfl, rfl, rfl⟩

/-- One node entry: the loader builds exactly what the entry declares (before any link is made). -/
theorem buildNode_eq_declared (d : DefaultsCfg) (n : NodeCfg) (wf : NodeWF n) : buildNode d n = .ok (declaredNode d n) := by
  have hsoft : (softInventory (powerOnSoftware (n.power.getD .on) (installedAfter (installAll d (n.power.getD .on) n.kind n)))).map (applyOuter n)
      = (declaredSoftware d (n.power.getD .on) n.kind n).map (declaredOuter n) := by
    rw [softInventory_loaded _ _ _ _ wf.opts]
    exact List.map_congr_left (fun sw _ => C20_option_precedence n sw)
  have husers : buildUsers n = declaredUsers n := buildUsers_eq_declared n wf.users
  have hfold : buildFolders n = n.folders := buildFolders_eq_declared n wf.folders
  have hfresh := declaredNode_fresh d n
  have hnics : powerOnNics (n.power.getD .on) (declaredNode d n).nics = (declaredNode d n).nics :=
    powerOnNics_unwired _ _ (fun c hc => (hfresh c hc).1)
  unfold declaredNode at hnics
  unfold buildNode declaredNode
  cases hk : n.kind with
  | computer =>
    rw [hk] at hsoft
    simp only [hk] at hnics
    have := wf.hostIp (Or.inl hk)
    cases hip : n.ip with
    | none => simp [hip] at this
    | some ip =>
      rw [hip] at hnics
      simp only [declaredNics] at hnics
      simp [hk, hsoft, husers, hfold, declaredNics, hnics]
  | server =>
    rw [hk] at hsoft
    simp only [hk] at hnics
    have := wf.hostIp (Or.inr (Or.inl hk))
    cases hip : n.ip with
    | none => simp [hip] at this
    | some ip =>
      rw [hip] at hnics
      simp only [declaredNics] at hnics
      simp [hk, hsoft, husers, hfold, declaredNics, hnics]
  | printer =>
    rw [hk] at hsoft
    simp only [hk] at hnics
    have := wf.hostIp (Or.inr (Or.inr hk))
    cases hip : n.ip with
    | none => simp [hip] at this
    | some ip =>
      rw [hip] at hnics
      simp only [declaredNics] at hnics
      simp [hk, hsoft, husers, hfold, declaredNics, hnics]
  | switch => rw [hk] at hsoft; simp only [hk] at hnics; simp [hsoft, hnics]
  | router =>
    rw [hk] at hsoft
    simp only [hk] at hnics
    have hports := configurePorts_eq_spec n.ports (List.replicate (n.numPorts.getD defaultRouterPorts) (loopNic none)) wf.ports.1
      (by simpa using wf.ports.2)
    rw [portsSpec_replicate] at hports
    have hacl := addRules_eq_declared n.acl routerBaseAcl wf.acl.1 (by simpa [routerBaseAcl, aclSlots] using wf.acl.2)
    simp [hk, hsoft, husers, hports, hacl, hnics]
  | firewall =>
    rw [hk] at hsoft
    simp only [hk] at hnics
    have hi := fwNic_eq n "internal_port" "internal" true (by rcases wf.fwPorts with h | h; exact Or.inl h; exact Or.inr (Or.inl h.1))
    have he := fwNic_eq n "external_port" "external" true (by rcases wf.fwPorts with h | h; exact Or.inl h; exact Or.inr (Or.inl h.2))
    have hd := fwNic_eq n "dmz_port" "dmz" false (Or.inr (Or.inr rfl))
    have hacls := buildFwAcls_eq n fwAclNames wf.fwAcl
    simp [hk, hsoft, husers, hi, he, hd, hacls, declaredFwAcls_eq, hnics]
  | wirelessRouter =>
    rw [hk] at hsoft
    simp only [hk] at hnics
    have hacl := addRules_eq_declared n.acl routerBaseAcl wf.acl.1 (by simpa [routerBaseAcl, aclSlots] using wf.acl.2)
    cases hw : n.wap with
    | none =>
      simp only [hw, declaredWap, declaredRouterIf] at hnics
      simp [hk, hsoft, husers, hacl, hw, declaredWap, declaredRouterIf, hnics]
    | some w =>
      have hf := wf.wap w hw
      simp only [hw, declaredWap, declaredRouterIf] at hnics
      simp [hk, hsoft, husers, hacl, hw, hf, declaredWap, declaredRouterIf, hnics]

theorem buildNodes_eq_declared (d : DefaultsCfg) (ns : List NodeCfg) (wf : ∀ n ∈ ns, NodeWF n) :
    buildNodes d ns = .ok (ns.map (declaredNode d)) := by
  induction ns with
  | nil => rfl
  | cons n rest ih =>
    simp only [buildNodes, buildNode_eq_declared d n (wf n (by simp)),
      ih (fun m hm => wf m (by simp [hm])), List.map_cons]

theorem buildLink_eq_declared (nodes : List NodeInv) (l : LinkCfg) (hl : linkOk nodes l = true) :
    buildLink nodes l = .ok (declaredLink l) := by
  unfold linkOk at hl
  unfold buildLink declaredLink
  cases ha : findNode nodes l.a with
  | none => simp [ha] at hl
  | some na =>
    cases hb : findNode nodes l.b with
    | none => simp [ha, hb] at hl
    | some nb =>
      simp only [ha, hb, Bool.and_eq_true, decide_eq_true_eq, Bool.not_eq_true', wirelessAt] at hl
      obtain ⟨⟨hl, hwa⟩, hwb⟩ := hl
      have h4 : 1 ≤ l.pa ∧ l.pa ≤ na.nics.length ∧ 1 ≤ l.pb ∧ l.pb ≤ nb.nics.length := ⟨hl.1, hl.2.1, hl.2.2.1, hl.2.2.2.1⟩
      simp [h4, hl.2.2.2.2, hwa, hwb]

/-! ### initial state of the interfaces: wired iff a link of the file ends there, enabled iff wired and the node is ON -/

/-- the effect on one interface of "some link of the file ends here" (a wireless access point has no link) -/
def wire (p : Power) (w : Bool) (c : Nic) : Nic :=
  if w = true ∧ c.frequency.isNone then { c with wired := true, enabled := decide (p = .on) } else c

theorem declaredWiring_eq (links : List LinkCfg) (n : NodeInv) :
    declaredWiring links n =
      { n with nics := n.nics.mapIdx fun i c => wire n.power (namesEndpoint links n.hostname (i + 1)) c } := by
  unfold declaredWiring wire
  rfl

/-- attaching a link to an interface the earlier links did or did not reach: the result is "wired; enabled iff ON" either way
(`connect_link` refuses a second link, and the first one already left that state). -/
theorem plug_wire (p : Power) (w : Bool) (c : Nic) (hc : Fresh c) : plug p (wire p w c) = wire p true c := by
  obtain ⟨h1, h2⟩ := hc
  cases c with
  | mk name ip mask wired enabled frequency =>
    simp only at h1 h2
    subst h1
    cases frequency with
    | some f => simp [plug, wire]
    | none =>
      simp only [Option.isSome_none, Bool.false_eq_true, false_or] at h2
      subst h2
      cases w <;> by_cases hp : p = .on <;> simp [plug, wire, enableNic, hp]

theorem modify_plug_mapIdx (p : Power) (nics : List Nic) (hf : ∀ c ∈ nics, Fresh c) (W : Nat → Bool) (port : Nat)
    (hport : 1 ≤ port) :
    (nics.mapIdx fun i c => wire p (W i) c).modify (port - 1) (plug p)
      = nics.mapIdx fun i c => wire p (W i || decide (port = i + 1)) c := by
  apply List.ext_getElem?
  intro j
  simp only [List.getElem?_modify, List.getElem?_mapIdx]
  cases hj : nics[j]? with
  | none => simp
  | some c =>
    have hc : Fresh c := hf c (List.mem_of_getElem? hj)
    simp only [Option.map_some]
    by_cases hpj : port - 1 = j
    · have : port = j + 1 := by omega
      simp [hpj, this, plug_wire p (W j) c hc]
    · have : ¬ port = j + 1 := by omega
      simp [hpj, this]

theorem plugAt_eq_map (nodes : List NodeInv) (h : String) (port : Nat) (hn : (nodes.map (·.hostname)).Nodup) :
    plugAt nodes h port = nodes.map fun n => if n.hostname = h then plugNode n port else n := by
  induction nodes with
  | nil => rfl
  | cons n rest ih =>
    simp only [List.map_cons, List.nodup_cons] at hn
    simp only [plugAt, List.map_cons]
    by_cases hh : n.hostname = h
    · simp only [hh, if_true]
      congr 1
      have : ∀ m ∈ rest, (if m.hostname = h then plugNode m port else m) = m := by
        intro m hm
        have : ¬ m.hostname = h := fun e => hn.1 (by rw [hh, ← e]; exact List.mem_map_of_mem (f := (·.hostname)) hm)
        simp [this]
      exact ((List.map_congr_left this).trans (List.map_id _)).symm
    · simp only [hh, if_false]
      congr 1
      exact ih hn.2

theorem findNode_map (f : NodeInv → NodeInv) (hf : ∀ n, (f n).hostname = n.hostname) (nodes : List NodeInv) (h : String) :
    findNode (nodes.map f) h = (findNode nodes h).map f := by
  unfold findNode
  rw [List.find?_map]
  have : ((fun x : NodeInv => decide (x.hostname = h)) ∘ f) = (fun x : NodeInv => decide (x.hostname = h)) := by
    funext n; simp [Function.comp, hf]
  rw [this]

theorem declaredWiring_hostname (links : List LinkCfg) (n : NodeInv) : (declaredWiring links n).hostname = n.hostname := rfl
theorem declaredWiring_power (links : List LinkCfg) (n : NodeInv) : (declaredWiring links n).power = n.power := rfl
theorem declaredWiring_length (links : List LinkCfg) (n : NodeInv) : (declaredWiring links n).nics.length = n.nics.length := by
  simp [declaredWiring]

theorem wire_frequency (p : Power) (w : Bool) (c : Nic) : (wire p w c).frequency = c.frequency := by
  unfold wire; split <;> rfl

theorem declaredWiring_wirelessAt (links : List LinkCfg) (n : NodeInv) (port : Nat) :
    wirelessAt (declaredWiring links n) port = wirelessAt n port := by
  rw [declaredWiring_eq]
  simp only [wirelessAt, List.getElem?_mapIdx]
  cases n.nics[port - 1]? with
  | none => rfl
  | some c => simp [wire_frequency]

theorem linkOk_wired (done : List LinkCfg) (nodes : List NodeInv) (l : LinkCfg) :
    linkOk (nodes.map (declaredWiring done)) l = linkOk nodes l := by
  unfold linkOk
  rw [findNode_map _ (declaredWiring_hostname done), findNode_map _ (declaredWiring_hostname done)]
  cases findNode nodes l.a <;> cases findNode nodes l.b <;> simp [declaredWiring_length, declaredWiring_wirelessAt]

theorem namesEndpoint_snoc (done : List LinkCfg) (l : LinkCfg) (h : String) (port : Nat) :
    namesEndpoint (done ++ [l]) h port
      = (namesEndpoint done h port || ((decide (l.a = h) && decide (l.pa = port)) || (decide (l.b = h) && decide (l.pb = port)))) := by
  simp [namesEndpoint, List.any_append]

theorem mapIdx_congr_fun {α β} (f g : Nat → α → β) (l : List α) (h : ∀ i c, f i c = g i c) : l.mapIdx f = l.mapIdx g := by
  have : f = g := by funext i c; exact h i c
  rw [this]

/-- `connect_link` at interface `port` of node `n` when the node is the one named (`b`), nothing otherwise -/
theorem plugIf_wired (n : NodeInv) (hfresh : ∀ c ∈ n.nics, Fresh c) (W : Nat → Bool) (h : String) (port : Nat) (hport : 1 ≤ port) :
    (fun m : NodeInv => if m.hostname = h then plugNode m port else m)
        { n with nics := n.nics.mapIdx fun i c => wire n.power (W i) c }
      = { n with nics := (n.nics.mapIdx fun i c =>
            wire n.power (W i || (decide (n.hostname = h) && decide (port = i + 1))) c) } := by
  by_cases hb : n.hostname = h
  · simp only [hb, if_true, plugNode, modify_plug_mapIdx n.power n.nics hfresh W port hport, decide_true, Bool.true_and]
  · simp only [hb, if_false, decide_false, Bool.false_and, Bool.or_false]

/-- one `Network.connect`: after the links `done`, attaching link `l` at both ends gives the state "after `done ++ [l]`". -/
theorem plug_step (n : NodeInv) (hfresh : ∀ c ∈ n.nics, Fresh c) (done : List LinkCfg) (l : LinkCfg)
    (hpa : 1 ≤ l.pa) (hpb : 1 ≤ l.pb) :
    (fun m : NodeInv => if m.hostname = l.b then plugNode m l.pb else m)
      ((fun m : NodeInv => if m.hostname = l.a then plugNode m l.pa else m) (declaredWiring done n))
      = declaredWiring (done ++ [l]) n := by
  rw [declaredWiring_eq, declaredWiring_eq, plugIf_wired n hfresh _ l.a l.pa hpa, plugIf_wired n hfresh _ l.b l.pb hpb]
  congr 1
  apply mapIdx_congr_fun
  intro i c
  rw [namesEndpoint_snoc]
  congr 1
  have e1 : decide (n.hostname = l.a) = decide (l.a = n.hostname) := by
    by_cases h : n.hostname = l.a
    · simp [h]
    · have : ¬ l.a = n.hostname := fun e => h e.symm
      simp [h, this]
  have e2 : decide (n.hostname = l.b) = decide (l.b = n.hostname) := by
    by_cases h : n.hostname = l.b
    · simp [h]
    · have : ¬ l.b = n.hostname := fun e => h e.symm
      simp [h, this]
  rw [e1, e2, Bool.or_assoc]

/-- both ends of one link attached, over the whole node list -/
theorem plugBoth_step (N0 : List NodeInv) (hfresh : ∀ n ∈ N0, ∀ c ∈ n.nics, Fresh c) (hnd : (N0.map (·.hostname)).Nodup)
    (done : List LinkCfg) (l : LinkCfg) (hpa : 1 ≤ l.pa) (hpb : 1 ≤ l.pb) :
    plugAt (plugAt (N0.map (declaredWiring done)) l.a l.pa) l.b l.pb = N0.map (declaredWiring (done ++ [l])) := by
  have hnd' : ((N0.map (declaredWiring done)).map (·.hostname)).Nodup := by
    simpa [List.map_map, Function.comp_def, declaredWiring_hostname] using hnd
  have hnd'' : (((N0.map (declaredWiring done)).map
      (fun m : NodeInv => if m.hostname = l.a then plugNode m l.pa else m)).map (·.hostname)).Nodup := by
    have : ∀ m : NodeInv, (if m.hostname = l.a then plugNode m l.pa else m).hostname = m.hostname := by
      intro m; split <;> rfl
    have e : (fun x : NodeInv => (if (declaredWiring done x).hostname = l.a then plugNode (declaredWiring done x) l.pa
        else declaredWiring done x).hostname) = (fun x : NodeInv => x.hostname) := by
      funext x; rw [this]; rfl
    simp only [List.map_map, Function.comp_def]
    rw [e]; exact hnd
  rw [plugAt_eq_map _ _ _ hnd', plugAt_eq_map _ _ _ hnd'']
  simp only [List.map_map]
  apply List.map_congr_left
  intro n hn
  exact plug_step n (hfresh n hn) done l hpa hpb

/-- **the wiring a node set does itself**: every link of the list attached at both ends, no lookup that could fail -/
theorem plugLinks_eq_declared (N0 : List NodeInv) (hfresh : ∀ n ∈ N0, ∀ c ∈ n.nics, Fresh c) (hnd : (N0.map (·.hostname)).Nodup) :
    ∀ (rest : List LinkInv) (done : List LinkCfg), (∀ l ∈ rest, 1 ≤ l.pa ∧ 1 ≤ l.pb) →
      plugLinks (N0.map (declaredWiring done)) rest = N0.map (declaredWiring (done ++ rest.map linkCfgOf)) := by
  intro rest
  induction rest with
  | nil => intro done _; simp [plugLinks]
  | cons l rest ih =>
    intro done h
    have hl := h l (by simp)
    have hstep := plugBoth_step N0 hfresh hnd done (linkCfgOf l) hl.1 hl.2
    simp only [linkCfgOf] at hstep
    simp only [plugLinks, List.foldl_cons, hstep] at *
    have := ih (done ++ [linkCfgOf l]) (fun m hm => h m (by simp [hm]))
    simp only [linkCfgOf, plugLinks] at this
    rw [this]
    simp [linkCfgOf, List.append_assoc]

/-- **the `links` loop**: starting from freshly built nodes, after the whole list every interface a link of the file ends at is
wired, and enabled iff its node is ON; every other interface is untouched; the links are the declared ones. -/
theorem buildLinks_eq_declared (N0 : List NodeInv) (hfresh : ∀ n ∈ N0, ∀ c ∈ n.nics, Fresh c)
    (hnd : (N0.map (·.hostname)).Nodup) :
    ∀ (rest done : List LinkCfg), (∀ l ∈ rest, linkOk N0 l = true) →
      buildLinks (N0.map (declaredWiring done)) rest
        = .ok (N0.map (declaredWiring (done ++ rest)), rest.map declaredLink) := by
  intro rest
  induction rest with
  | nil => intro done _; simp [buildLinks]
  | cons l rest ih =>
    intro done h
    have hl := h l (by simp)
    have hone : buildLink (N0.map (declaredWiring done)) l = .ok (declaredLink l) :=
      buildLink_eq_declared _ l (by rw [linkOk_wired]; exact hl)
    have hports : 1 ≤ l.pa ∧ 1 ≤ l.pb := by
      unfold linkOk at hl
      cases ha : findNode N0 l.a with
      | none => simp [ha] at hl
      | some na =>
        cases hb : findNode N0 l.b with
        | none => simp [ha, hb] at hl
        | some nb =>
          simp only [ha, hb, Bool.and_eq_true, decide_eq_true_eq] at hl
          exact ⟨hl.1.1.1, hl.1.1.2.2.1⟩
    have hstep := plugBoth_step N0 hfresh hnd done l hports.1 hports.2
    simp only [buildLinks, hone, hstep, ih (done ++ [l]) (fun m hm => h m (by simp [hm])), List.map_cons,
      List.append_assoc, List.singleton_append]

/-! ### airspace capacities, node sets -/

theorem setCapacity_names (reg : List (String × String)) (e : String × String) (reg' : List (String × String))
    (h : setCapacity reg e = some reg') : reg'.map (·.1) = reg.map (·.1) := by
  unfold setCapacity at h
  split at h
  · simp only [Option.some.injEq] at h
    subst h
    simp only [List.map_map]
    apply List.map_congr_left
    intro r _
    simp only [Function.comp]
    split <;> rfl
  · simp at h

/-- the capacity loop leaves, for every registered frequency, the capacity the file gives under its name, else what was there -/
theorem buildAirspace_eq (cfg : Assoc String String) : ∀ (reg : List (String × String)), (keys cfg).Nodup →
    (∀ k ∈ keys cfg, reg.any (·.1 = k) = true) →
    foldM? setCapacity reg cfg = some (reg.map fun r => (r.1, (alookup r.1 cfg).getD r.2)) := by
  induction cfg with
  | nil =>
    intro reg _ _
    simp only [foldM?, alookup, Option.getD_none, Option.some.injEq]
    exact (List.map_id' _).symm
  | cons e rest ih =>
    intro reg hn hk
    obtain ⟨k, v⟩ := e
    simp only [keys, List.map_cons, List.nodup_cons] at hn
    have hin : reg.any (·.1 = k) = true := hk k (by simp [keys])
    have hstep : setCapacity reg (k, v) = some (reg.map fun r => if r.1 = k then (r.1, v) else r) := by
      simp [setCapacity, hin]
    rw [foldM?_some_step _ _ _ _ _ hstep]
    rw [ih _ (by simpa [keys] using hn.2) (by
      intro k' hk'
      have := hk k' (by simp only [keys, List.map_cons, List.mem_cons]; right; simpa [keys] using hk')
      simp only [List.any_map, Function.comp_def]
      rw [List.any_eq_true] at this ⊢
      obtain ⟨r, hr, hrk⟩ := this
      refine ⟨r, hr, ?_⟩
      by_cases h : r.1 = k <;> simp_all)]
    simp only [List.map_map, Option.some.injEq]
    apply List.map_congr_left
    intro r _
    simp only [Function.comp, alookup]
    by_cases h : r.1 = k
    · have hnone : alookup k rest = none := alookup_none_of_not_mem k rest (by simpa [keys] using hn.1)
      have hk' : k = r.1 := h.symm
      simp [h, hnone]
    · have : ¬ k = r.1 := fun e => h e.symm
      simp [h, this]

theorem officeNode_wf (c : OfficeCfg) (o : ONode) : NodeWF (officeNodeCfg c o) := by
  have hports : (keys [(1, ({ ip := ipv4 192 168 c.subnetBase (o.octet.getD 1), mask := some defaultMask } : IfCfg))]).Nodup ∧
      ∀ k ∈ keys [(1, ({ ip := ipv4 192 168 c.subnetBase (o.octet.getD 1), mask := some defaultMask } : IfCfg))],
        1 ≤ k ∧ k ≤ (none : Option Nat).getD defaultRouterPorts := by
    refine ⟨by simp [keys], ?_⟩
    intro k hk
    simp only [keys, List.map_cons, List.map_nil, List.mem_singleton] at hk
    subst hk
    decide
  have hacl : AclOk [(22, ruleArp), (23, ruleIcmp)] := by
    refine ⟨by simp [keys], ?_⟩
    intro k hk
    simp only [keys, List.map_cons, List.map_nil, List.mem_cons, List.not_mem_nil, or_false] at hk
    rcases hk with rfl | rfl <;> decide
  have hempty : AclOk [] := ⟨by simp [keys], by simp [keys]⟩
  cases hk : o.kind <;> simp only [officeNodeCfg, hk]
  · exact ⟨by simp, ⟨by simp [keys], by simp [keys]⟩, hempty, Or.inl rfl, (by intro e _; simp [alookup]), by simp, ⟨by simp, by simp⟩,
           by intro x hx; simp at hx, by intro w hw; simp at hw⟩
  · exact ⟨by simp, ⟨by simp [keys], by simp [keys]⟩, hempty, Or.inl rfl, (by intro e _; simp [alookup]), by simp, ⟨by simp, by simp⟩,
           by intro x hx; simp at hx, by intro w hw; simp at hw⟩
  · exact ⟨by simp, hports, hacl, Or.inl rfl, (by intro e _; simp [alookup]), by simp, ⟨by simp, by simp⟩,
           by intro x hx; simp at hx, by intro w hw; simp at hw⟩
  · exact ⟨by simp, ⟨by simp [keys], by simp [keys]⟩, hempty, Or.inl rfl, (by intro e _; simp [alookup]), by simp, ⟨by simp, by simp⟩,
           by intro x hx; simp at hx, by intro w hw; simp at hw⟩

theorem buildNodeSets_eq_declared : ∀ (sets : List OfficeCfg), (∀ c ∈ sets, OfficeValid c) →
    buildNodeSets sets = .ok (sets.flatMap (fun c => (officeDeclared c).nodes.map fun o => declaredNode {} (officeNodeCfg c o)),
                              sets.flatMap (fun c => (officeDeclared c).links)) := by
  intro sets
  induction sets with
  | nil => intro _; rfl
  | cons c rest ih =>
    intro h
    have hb := C20_office_build_eq_declared c (h c (by simp))
    have hn := buildNodes_eq_declared {} ((officeDeclared c).nodes.map (officeNodeCfg c)) (by
      intro n hn
      obtain ⟨o, _, rfl⟩ := List.mem_map.mp hn
      exact officeNode_wf c o)
    simp only [buildNodeSets, hb, hn, ih (fun m hm => h m (by simp [hm])), List.flatMap_cons, List.map_map]
    rfl

/-- every link the office-lan adder makes uses ports ≥ 1 -/
theorem officeDeclared_ports (c : OfficeCfg) : ∀ l ∈ (officeDeclared c).links, 1 ≤ l.pa ∧ 1 ≤ l.pb := by
  intro l hl
  simp only [officeDeclared, List.mem_append, List.mem_flatMap] at hl
  rcases hl with (hl | hl) | ⟨i, _, hl⟩
  · split at hl
    · simp only [List.mem_singleton] at hl; subst hl; simp [oLink, uplinkPort]
    · simp at hl
  · split at hl
    · simp only [List.mem_singleton] at hl; subst hl; simp [oLink, uplinkPort]
    · split at hl
      · simp only [List.mem_singleton] at hl; subst hl; simp [oLink, uplinkPort]
      · simp at hl
  · simp only [declaredPcLinks, List.mem_append, List.mem_singleton] at hl
    rcases hl with hl | hl
    · split at hl
      · simp only [List.mem_singleton] at hl; subst hl
        simp only [oLink, uplinkPort, edgeOf, pcsPerSwitch]; omega
      · simp at hl
    · subst hl
      simp only [oLink, portOf, pcsPerSwitch]; omega

/-- the full statement of the first half of C20 for the modelled loader (was FALSE of the code before the F-22 repair, when it
was kept as `…_partial` + `…_counterexample`; proved in full since `install` replaces an installed namesake). -/
def C20_FullBuildEqDeclared : Prop := ∀ s : Scenario, WellFormed s → build s = .ok (declared s)

/-- **build_eq_declared** (full strength). For every well-formed scenario — `nodes:` of every modelled type incl. wireless
routers, `node_sets:` (office-lan), `links:`, `agents:`, `game:`, `airspace:`, `defaults:` — the modelled loader builds exactly
the declared inventory: nodes with their attributes and declared operating state, durations (own, else the defaults section's,
else the library's), interfaces and addresses — each wired iff a link (of the file or of a node set) ends at it and enabled iff
it is wired and its node is ON; a wireless access point on its declared frequency, enabled iff its node is ON —, ACL rules at
their positions, routes, software with every declared option showing on the live object with its declared value (one live
instance per name), every piece of software RUNNING iff its node is ON with the configured starting health, users,
folders/files, links with bandwidths (node-set links first), agents with action maps, rewards, settings, the game options and
the capacity of every airspace frequency. -/
theorem C20_build_eq_declared (s : Scenario) (wf : WellFormed s) : build s = .ok (declared s) := by
  unfold build
  have hair : buildAirspace s.airspace = some (declaredAirspace s.airspace) :=
    buildAirspace_eq s.airspace frequencies wf.airspace.1 (by
      intro k hk; have := wf.airspace.2 k hk; simpa [knownFrequency] using this)
  rw [hair]
  simp only [buildNodes_eq_declared s.defaults s.nodes wf.nodes, buildNodeSets_eq_declared s.nodeSets wf.nodeSets]
  have hN0 : s.nodes.map (declaredNode s.defaults)
      ++ s.nodeSets.flatMap (fun c => (officeDeclared c).nodes.map fun o => declaredNode {} (officeNodeCfg c o)) = declaredNodes s := rfl
  rw [hN0]
  have hfresh : ∀ n ∈ declaredNodes s, ∀ c ∈ n.nics, Fresh c := by
    intro n hn c hc
    unfold declaredNodes at hn
    rcases List.mem_append.mp hn with hn | hn
    · obtain ⟨m, _, rfl⟩ := List.mem_map.mp hn
      exact declaredNode_fresh _ m c hc
    · obtain ⟨oc, _, hn⟩ := List.mem_flatMap.mp hn
      obtain ⟨o, _, rfl⟩ := List.mem_map.mp hn
      exact declaredNode_fresh _ _ c hc
  have h0 : (declaredNodes s).map (declaredWiring []) = declaredNodes s := by
    have : ∀ n : NodeInv, declaredWiring [] n = n := by
      intro n
      rw [declaredWiring_eq]
      have : (n.nics.mapIdx fun i c => wire n.power (namesEndpoint [] n.hostname (i + 1)) c) = n.nics := by
        apply List.ext_getElem?
        intro j
        simp [List.getElem?_mapIdx, namesEndpoint, wire]
      rw [this]
    exact (List.map_congr_left (fun n _ => this n)).trans (List.map_id _)
  have hset : ∀ l ∈ s.nodeSets.flatMap (fun c => (officeDeclared c).links), 1 ≤ l.pa ∧ 1 ≤ l.pb := by
    intro l hl
    obtain ⟨c, _, hl⟩ := List.mem_flatMap.mp hl
    exact officeDeclared_ports c l hl
  have hplug := plugLinks_eq_declared _ hfresh wf.hostnames _ [] hset
  rw [h0] at hplug
  rw [hplug]
  have hlinks := buildLinks_eq_declared _ hfresh wf.hostnames s.links
    ([] ++ (s.nodeSets.flatMap fun c => (officeDeclared c).links).map linkCfgOf) wf.links
  rw [hlinks]
  simp only [declared, declaredSetLinks, List.nil_append, buildAgents_eq_declared s.agents wf.agents]

theorem C20_build_eq_declared_full : C20_FullBuildEqDeclared := C20_build_eq_declared

/-- **one instance per name**: for EVERY node entry (well-formed or not, any number of repeated or re-configured software
entries, any declared operating state) the built node never holds two live instances of one software name, and every name the
entry or the node type asks for is present. -/
theorem C20_software_one_instance_per_name (d : DefaultsCfg) (p : Power) (k : Kind) (n : NodeCfg) :
    ((installedAfter (installAll d p k n)).map (·.name)).Nodup ∧
    ∀ s ∈ installAll d p k n, s.name ∈ (installedAfter (installAll d p k n)).map (·.name) := by
  rw [installedAfter_eq_lastRequests]
  exact ⟨lastRequests_nodup _, lastRequests_names _⟩

/-- **initial software state** (every node entry, well-formed or not): after loading, every piece of software of a node is
RUNNING iff the node's declared operating state is ON (STOPPED / CLOSED otherwise), its health is the configured starting
health (a starting health of UNUSED has become GOOD on a node that is ON), and its options are those of some install request
of that name, read off the live object. -/
theorem C20_software_initial_state (d : DefaultsCfg) (p : Power) (k : Kind) (n : NodeCfg) :
    ∀ sw ∈ softInventory (powerOnSoftware p (installedAfter (installAll d p k n))),
      sw.running = decide (p = .on) ∧ sw.live = 1 ∧
      ∃ r ∈ installRequests d k n, r.name = sw.name ∧ sw.opts = readAll r.name r.opts ∧
        sw.health = (if p = .on ∧ r.health0 = .unused then .good else r.health0) := by
  intro sw hsw
  rw [softInventory_loaded_read] at hsw
  obtain ⟨r, hr, rfl⟩ := List.mem_map.mp hsw
  exact ⟨rfl, rfl, r, lastReqs_sub _ r hr, rfl, rfl, rfl⟩

/-- **the configured entry wins**: an application entry whose type no later application entry repeats is the live instance of
that name after loading, with its own options — also when the node type pre-installs software of that name. -/
theorem C20_configured_application_wins (d : DefaultsCfg) (p : Power) (k : Kind) (n : NodeCfg) (pre post : List SwCfg) (c : SwCfg)
    (h : n.applications = pre ++ c :: post) (hlast : ∀ d ∈ post, d.type ≠ c.type) :
    ∃ s ∈ installedAfter (installAll d p k n), s.name = c.type ∧ s.isApp = true ∧ s.opts = c.opts := by
  rw [installedAfter_eq_lastRequests]
  unfold installAll installRequests
  rw [h]
  simp only [List.map_append, List.map_cons]
  generalize (((systemSoftware k).map sysReq).map
      (newInstance p) ++ (installServices d ((systemSoftware k).map (·.1)) n.services).map (newInstance p)) = front
  have key : ∀ (front : List Soft) (tail : List Soft) (s : Soft), (∀ d ∈ tail, d.name ≠ s.name) →
      s ∈ lastRequests (front ++ s :: tail) := by
    intro front tail s hs
    induction front with
    | nil =>
      simp only [List.nil_append, lastRequests]
      have : (tail.any fun x => decide (x.name = s.name)) = false := by
        rw [List.any_eq_false]; intro x hx; simpa using hs x hx
      simp [this]
    | cons a t ih =>
      simp only [List.cons_append, lastRequests]
      split
      · exact ih
      · exact List.mem_cons_of_mem _ ih
  let mk : SwCfg → Soft := fun c => newInstance p (appReq c)
  have hname : ∀ d : SwCfg, (mk d).name = d.type := fun d => newInstance_name p _
  have := key (front ++ pre.map mk) (post.map mk) (mk c)
    (by intro d hd; rcases List.mem_map.mp hd with ⟨e, he, rfl⟩; rw [hname, hname]; exact hlast e he)
  have hfields : ∀ r : SoftReq, (newInstance p r).isApp = r.isApp ∧ (newInstance p r).opts = r.opts := by
    intro r
    have hs : ∀ s : Soft, (startSw p s).isApp = s.isApp ∧ (startSw p s).opts = s.opts := by
      intro s; unfold startSw; split <;> exact ⟨rfl, rfl⟩
    unfold newInstance
    cases r.initStarts <;> cases r.isApp <;> cases r.configured <;> simp [hs]
  refine ⟨mk c, by simpa [List.append_assoc, mk, Function.comp_def] using this, hname c, ?_, ?_⟩
  · exact (hfields (appReq c)).1
  · exact (hfields (appReq c)).2

/-! ### key order of mappings is irrelevant -/

/-- pointwise relation between two lists of equal length (core Lean has no `Forall₂`). -/
inductive Rel₂ {α β} (R : α → β → Prop) : List α → List β → Prop
  | nil : Rel₂ R [] []
  | cons {a b l l'} : R a b → Rel₂ R l l' → Rel₂ R (a :: l) (b :: l')

/-- two firewall `acl:` mappings that differ only in the order of entries (outer mapping and every inner mapping). -/
def FwAclPerm (m m' : Assoc String (Assoc Nat Rule)) : Prop :=
  ∃ mid, m.Perm mid ∧ Rel₂ (fun x y => x.1 = y.1 ∧ x.2.Perm y.2) mid m'

/-- every mapping of the node entry has unique keys (true of every parsed YAML/Python mapping). -/
structure NodeKeysNodup (n : NodeCfg) : Prop where
  nics : (keys n.nics).Nodup
  ports : (keys n.ports).Nodup
  fwPorts : (keys n.fwPorts).Nodup
  acl : (keys n.acl).Nodup
  fwAcl : (keys n.fwAcl).Nodup
  fwAclInner : ∀ e ∈ n.fwAcl, (keys e.2).Nodup

/-- `n'` is `n` with the entries of every iterated or key-read mapping in another order. -/
structure NodePerm (n n' : NodeCfg) : Prop where
  rest : n' = { n with nics := n'.nics, ports := n'.ports, fwPorts := n'.fwPorts, acl := n'.acl, fwAcl := n'.fwAcl }
  nics : n.nics.Perm n'.nics
  ports : n.ports.Perm n'.ports
  fwPorts : n.fwPorts.Perm n'.fwPorts
  acl : n.acl.Perm n'.acl
  fwAcl : FwAclPerm n.fwAcl n'.fwAcl

theorem forall₂_alookup (k : String) {mid m' : Assoc String (Assoc Nat Rule)}
    (h : Rel₂ (fun x y => x.1 = y.1 ∧ x.2.Perm y.2) mid m') :
    (alookup k mid = none ∧ alookup k m' = none) ∨
      ∃ a b, alookup k mid = some a ∧ alookup k m' = some b ∧ a.Perm b := by
  induction h with
  | nil => left; exact ⟨rfl, rfl⟩
  | @cons x y l l' hxy _ ih =>
    obtain ⟨kx, vx⟩ := x; obtain ⟨ky, vy⟩ := y
    simp only at hxy
    obtain ⟨hk, hv⟩ := hxy
    subst hk
    simp only [alookup]
    by_cases hkk : kx = k
    · right; exact ⟨vx, vy, by simp [hkk], by simp [hkk], hv⟩
    · simp only [hkk, if_false]; exact ih

theorem fwAcl_one_perm (n : NodeCfg) {m m' : Assoc String (Assoc Nat Rule)} (hp : FwAclPerm m m')
    (hn : (keys m).Nodup) (hin : ∀ e ∈ m, (keys e.2).Nodup) (nm : String) (base : Acl) :
    (alookup nm m).map (addRules base) = (alookup nm m').map (addRules base) := by
  obtain ⟨mid, h1, h2⟩ := hp
  rw [C20_lookup_perm nm h1 hn]
  rcases forall₂_alookup nm h2 with ⟨ha, hb⟩ | ⟨a, b, ha, hb, hab⟩
  · rw [ha, hb]
  · rw [ha, hb]
    have hmem : (nm, a) ∈ m := h1.mem_iff.mpr (mem_of_alookup nm a mid ha)
    simp only [Option.map_some, Option.some.injEq]
    exact C20_site_acl_items base hab (hin _ hmem)

theorem buildFwAcls_perm (n n' : NodeCfg) (hpres : n'.fwAclPresent = n.fwAclPresent) (hp : FwAclPerm n.fwAcl n'.fwAcl)
    (hn : (keys n.fwAcl).Nodup) (hin : ∀ e ∈ n.fwAcl, (keys e.2).Nodup) :
    ∀ names, buildFwAcls n' names = buildFwAcls n names := by
  intro names
  induction names with
  | nil => rfl
  | cons e rest ih =>
    obtain ⟨nm, imp, mand⟩ := e
    simp only [buildFwAcls, ih, hpres]
    have h1 := fwAcl_one_perm n hp hn hin nm (Acl.empty aclSlots imp)
    cases ha : alookup nm n.fwAcl with
    | none =>
      cases hb : alookup nm n'.fwAcl with
      | none => rfl
      | some b => simp [ha, hb] at h1
    | some a =>
      cases hb : alookup nm n'.fwAcl with
      | none => simp [ha, hb] at h1
      | some b =>
        simp only [ha, hb, Option.map_some, Option.some.injEq] at h1
        simp only [h1]

/-- **key_order_irrelevant, one node entry**: for every permutation of the entries of every mapping of a node entry
(`network_interfaces`, router `ports`, firewall `ports`, `acl`, the firewall's `acl` at both levels) the loader builds the same
node — or raises the same error. No well-formedness is needed beyond unique keys. -/
theorem C20_node_key_order_irrelevant (d : DefaultsCfg) (n n' : NodeCfg) (hp : NodePerm n n') (hn : NodeKeysNodup n) :
    buildNode d n' = buildNode d n := by
  have hnics : sortByKey n'.nics = sortByKey n.nics :=
    (C20_site_network_interfaces_items hp.nics (by simpa [keys] using hn.nics)).symm
  have hports : ∀ nics, foldM? configurePort nics n'.ports = foldM? configurePort nics n.ports :=
    fun nics => (C20_site_ports_items nics hp.ports hn.ports).symm
  have hacl : addRules routerBaseAcl n'.acl = addRules routerBaseAcl n.acl := (C20_site_acl_items _ hp.acl hn.acl).symm
  have hfwp : ∀ k, alookup k n'.fwPorts = alookup k n.fwPorts := fun k => (C20_lookup_perm k hp.fwPorts hn.fwPorts).symm
  have hemp : n'.fwPorts.isEmpty = n.fwPorts.isEmpty := by
    have := hp.fwPorts.length_eq
    cases h1 : n.fwPorts <;> cases h2 : n'.fwPorts <;> simp_all
  have hrest := hp.rest
  have hfwa : ∀ names, buildFwAcls n' names = buildFwAcls n names :=
    buildFwAcls_perm n n' (by rw [hrest]) hp.fwAcl hn.fwAcl hn.fwAclInner
  have hfw : ∀ k nm b, fwNic n' k nm b = fwNic n k nm b := by
    intro k nm b; simp only [fwNic, hfwp, hemp]
  have hinst : ∀ d p k, installAll d p k n' = installAll d p k n := by intro d p k; rw [hrest]; rfl
  have husers : buildUsers n' = buildUsers n := by rw [hrest]; rfl
  have hfold : buildFolders n' = buildFolders n := by rw [hrest]; rfl
  have hk : n'.kind = n.kind := by rw [hrest]
  have h1 : n'.hostname = n.hostname := by rw [hrest]
  have h2 : n'.power = n.power := by rw [hrest]
  have h3 : n'.startUp = n.startUp := by rw [hrest]
  have h4 : n'.shutDown = n.shutDown := by rw [hrest]
  have h5 : n'.dns = n.dns := by rw [hrest]
  have h6 : n'.gateway = n.gateway := by rw [hrest]
  have h7 : n'.routes = n.routes := by rw [hrest]
  have h8 : n'.defaultRoute = n.defaultRoute := by rw [hrest]
  have h9 : n'.ip = n.ip := by rw [hrest]
  have h10 : n'.mask = n.mask := by rw [hrest]
  have h11 : n'.numPorts = n.numPorts := by rw [hrest]
  have h12 : n'.routerIf = n.routerIf := by rw [hrest]
  have h13 : n'.wap = n.wap := by rw [hrest]
  have h14 : n'.scan = n.scan := by rw [hrest]
  have h15 : n'.flags = n.flags := by rw [hrest]
  have houter : applyOuter n' = applyOuter n := by funext sw; simp only [applyOuter, h5]
  unfold buildNode
  simp only [hk, h1, h2, h3, h4, h5, h6, h7, h8, h9, h10, h11, h12, h13, h14, h15, hnics, hports, hacl, hfw, hfwa, hinst, husers, hfold, houter]

/-- `a'` is `a` with the entries of its action map in another order. -/
structure AgentPerm (a a' : AgentCfg) : Prop where
  rest : a' = { a with actionMap := a'.actionMap }
  actionMap : a.actionMap.Perm a'.actionMap

theorem agentOf_perm (a a' : AgentCfg) (hp : AgentPerm a a') (hn : (keys a.actionMap).Nodup) : agentOf a' = agentOf a := by
  have hact := C20_site_action_map_items hp.actionMap hn
  have hr := hp.rest
  have h1 : a'.ref = a.ref := by rw [hr]
  have h2 : a'.type = a.type := by rw [hr]
  have h3 : a'.team = a.team := by rw [hr]
  have h4 : a'.rewards = a.rewards := by rw [hr]
  have h5 : a'.settings = a.settings := by rw [hr]
  simp only [agentOf, h1, h2, h3, h4, h5, hact]

theorem any_name_map (reg : List (String × String)) (f : String × String → String × String) (hf : ∀ r, (f r).1 = r.1) (k : String) :
    (reg.map f).any (·.1 = k) = reg.any (·.1 = k) := by
  rw [List.any_map]
  congr 1
  funext r
  simp [Function.comp, hf]

theorem setCap_pointwise (x y r : String × String) (h : x.1 ≠ y.1) :
    (if (if r.1 = x.1 then (r.1, x.2) else r).1 = y.1 then ((if r.1 = x.1 then (r.1, x.2) else r).1, y.2)
      else (if r.1 = x.1 then (r.1, x.2) else r))
    = (if (if r.1 = y.1 then (r.1, y.2) else r).1 = x.1 then ((if r.1 = y.1 then (r.1, y.2) else r).1, x.2)
      else (if r.1 = y.1 then (r.1, y.2) else r)) := by
  obtain ⟨k, v⟩ := r
  obtain ⟨xk, xv⟩ := x
  obtain ⟨yk, yv⟩ := y
  simp only at h ⊢
  by_cases e1 : k = xk <;> by_cases e2 : k = yk
  · exact absurd (e1.symm.trans e2) h
  · subst e1; simp [e2]
  · subst e2; simp [e1]
  · simp [e1, e2]

theorem setCapacity_comm (reg : List (String × String)) (x y : String × String) (h : x.1 ≠ y.1) :
    (setCapacity reg x).bind (fun s => setCapacity s y) = (setCapacity reg y).bind (fun s => setCapacity s x) := by
  have hx : ∀ r : String × String, ((fun r : String × String => if r.1 = x.1 then (r.1, x.2) else r) r).1 = r.1 := by
    intro r; by_cases e : r.1 = x.1 <;> simp [e]
  have hy : ∀ r : String × String, ((fun r : String × String => if r.1 = y.1 then (r.1, y.2) else r) r).1 = r.1 := by
    intro r; by_cases e : r.1 = y.1 <;> simp [e]
  unfold setCapacity
  by_cases ax : reg.any (·.1 = x.1) = true <;> by_cases ay : reg.any (·.1 = y.1) = true
  · simp only [ax, ay, if_true, Option.bind_some, any_name_map reg _ hx, any_name_map reg _ hy, List.map_map]
    congr 1
    apply List.map_congr_left
    intro r _
    simp only [Function.comp]
    first | exact setCap_pointwise x y r h | exact (setCap_pointwise y x r (Ne.symm h)).symm
  · simp only [ax, ay, if_true, Option.bind_some, Option.bind_none, any_name_map reg _ hx]
    simp [ay]
  · simp only [ax, ay, if_true, Option.bind_some, Option.bind_none, any_name_map reg _ hy]
    simp [ax]
  · simp [ax, ay]

/-- **site `cfg.items()`** (`AirSpace.set_frequency_max_capacity_mbps`): capacities are set by frequency name. -/
theorem C20_site_airspace_items {m m' : Assoc String String} (hp : m.Perm m') (hn : (keys m).Nodup) :
    buildAirspace m = buildAirspace m' := by
  unfold buildAirspace
  exact foldM?_perm setCapacity (·.1) (fun s x y hxy => setCapacity_comm s x y hxy) hp (by simpa [keys] using hn) frequencies

/-- `s'` is `s` with the entries of every mapping, in every node entry and every agent entry, and of the airspace capacity
mapping, in another order (lists — nodes, links, routes, services, users, agents, reward components, node sets — keep their
order; option mappings are read by key: `C20_live_option_eq_declared` / `C20_lookup_perm`). -/
structure ScenarioPerm (s s' : Scenario) : Prop where
  nodes : Rel₂ NodePerm s.nodes s'.nodes
  links : s'.links = s.links
  agents : Rel₂ AgentPerm s.agents s'.agents
  airspace : s.airspace.Perm s'.airspace
  game : s'.game = s.game
  defaults : s'.defaults = s.defaults
  nodeSets : s'.nodeSets = s.nodeSets

structure KeysNodup (s : Scenario) : Prop where
  nodes : ∀ n ∈ s.nodes, NodeKeysNodup n
  agents : ∀ a ∈ s.agents, (keys a.actionMap).Nodup
  airspace : (keys s.airspace).Nodup

theorem buildNodes_perm (d : DefaultsCfg) {l l' : List NodeCfg} (h : Rel₂ NodePerm l l') (hk : ∀ n ∈ l, NodeKeysNodup n) :
    buildNodes d l' = buildNodes d l := by
  induction h with
  | nil => rfl
  | @cons n n' l l' h _ ih =>
    simp only [buildNodes, C20_node_key_order_irrelevant d n n' h (hk n (by simp)),
      ih (fun m hm => hk m (by simp [hm]))]

theorem agents_perm {l l' : List AgentCfg} (h : Rel₂ AgentPerm l l') (hk : ∀ a ∈ l, (keys a.actionMap).Nodup) :
    l'.map agentOf = l.map agentOf := by
  induction h with
  | nil => rfl
  | @cons a a' l l' h _ ih =>
    simp only [List.map_cons, agentOf_perm a a' h (hk a (by simp)), ih (fun m hm => hk m (by simp [hm]))]

/-- **key_order_irrelevant**: two scenarios that differ only in the order of the entries of their mappings build equal
simulations (equal inventories, or the same load error). -/
theorem C20_key_order_irrelevant (s s' : Scenario) (hp : ScenarioPerm s s') (hn : KeysNodup s) : build s' = build s := by
  have hnodes : buildNodes s.defaults s'.nodes = buildNodes s.defaults s.nodes := buildNodes_perm _ hp.nodes hn.nodes
  have hagents : s'.agents.map agentOf = s.agents.map agentOf := agents_perm hp.agents hn.agents
  have hba : buildAgents s'.agents = buildAgents s.agents := by
    unfold buildAgents
    rw [← List.foldl_map (f := agentOf) (g := putAgent), ← List.foldl_map (f := agentOf) (g := putAgent), hagents]
  have hair : buildAirspace s'.airspace = buildAirspace s.airspace := (C20_site_airspace_items hp.airspace hn.airspace).symm
  unfold build
  rw [hair, hp.defaults, hnodes, hp.links, hba, hp.game, hp.nodeSets]

/-! ### F-22 (repaired): configuring pre-installed software replaces the bare instance -/

/-- a client with a configured `web-browser` (pre-installed on every host) — what most shipped scenarios do. -/
def exShadowNode : NodeCfg :=
  { kind := .computer, hostname := "client_1", ip := some 0xC0A80A15#32,
    applications := [{ isApp := true, type := "web-browser", opts := [("target_url", "http://arcd.com/")] }] }

def exShadow : Scenario := { nodes := [exShadowNode], links := [], agents := [] }

instance : DecidableEq (Except Err Inventory) := fun a b =>
  match a, b with
  | .ok x, .ok y => if h : x = y then isTrue (by rw [h]) else isFalse (by intro e; cases e; exact h rfl)
  | .error x, .error y => if h : x = y then isTrue (by rw [h]) else isFalse (by intro e; cases e; exact h rfl)
  | .ok _, .error _ => isFalse (by intro e; cases e)
  | .error _, .ok _ => isFalse (by intro e; cases e)

instance (m : Assoc Nat Rule) : Decidable (AclOk m) := by unfold AclOk; infer_instance
instance (fs : List FolderCfg) : Decidable (FoldersOk fs) := by unfold FoldersOk; infer_instance
instance (n : NodeCfg) : Decidable (OptsOk n) := by unfold OptsOk; infer_instance
instance (m : Assoc String String) : Decidable (AirspaceOk m) := by unfold AirspaceOk; infer_instance

theorem exShadow_wf : WellFormed exShadow := by
  refine ⟨?_, by decide, by decide, by decide, by decide, by decide⟩
  intro n hn
  simp only [exShadow, List.mem_singleton] at hn
  subst hn
  exact ⟨by decide, by decide, by decide, by decide, fun e _ h => absurd h (by decide), by decide, by decide, by decide,
         by intro w hw; cases hw⟩

/-- the witness of the former counterexample now builds what it declares (regression of F-22 would break this and
`C20_build_eq_declared`). -/
example : build exShadow = .ok (declared exShadow) := C20_build_eq_declared exShadow exShadow_wf

/-- exactly ONE live `web-browser`, the configured one; its `target_url` shows with the declared value. -/
example : (softInventory (powerOnSoftware .on (installedAfter (installAll {} .on .computer exShadowNode)))).filter (·.name = "web-browser") =
    [{ name := "web-browser", isApp := true, opts := [("target_url", some "http://arcd.com/")], live := 1, running := true,
       health := .good }] := by
  decide

/-- the same client declared `operating_state: "OFF"`: the browser is there with its option, CLOSED. -/
example : (softInventory (powerOnSoftware .off (installedAfter (installAll {} .off .computer exShadowNode)))).filter (·.name = "web-browser") =
    [{ name := "web-browser", isApp := true, opts := [("target_url", some "http://arcd.com/")], live := 1, running := false,
       health := .good }] := by
  decide

/-- what the code did before the repair (append without removing the namesake) is NOT what the file declares: the witness that
was `C20_build_eq_declared_counterexample`, kept as a statement about the old `install`. -/
theorem C20_install_without_replace_counterexample :
    softInventory (powerOnSoftware .on (installAll {} .on .computer exShadowNode)) ≠ declaredSoftware {} .on .computer exShadowNode := by
  decide

/-- an option a constructor copies to a live attribute under ANOTHER name is read there: a database client's `db_server_ip`
shows as the value of `server_ip_address`; and were the constructor to forget the assignment (the regenerated table without
that row) the declared option would NOT show — what `C20_live_option_eq_declared` rules out for the regenerated table. -/
example : readOption "database-client" [("db_server_ip", "192.168.1.50"), ("server_password", "pw")] "db_server_ip"
    = some "192.168.1.50" := by decide
example : (alookup "server_ip_address" (constructLive (chainRows "dos-bot") [("db_server_ip", "1.2.3.4"), ("payload", "x")])) =
    some (some "1.2.3.4") := by decide
example : (alookup "c2_remote_connection" (constructLive [] [("c2_server_ip_address", "1.2.3.4")])) = none := by decide

/-! ### non-vacuity: a concrete well-formed scenario with a router, ACL rules out of order, two hosts, a link, an agent -/

def exRule (a : Action) (p : Option Nat) : Rule :=
  { action := a, proto := none, srcIp := none, srcWc := none, dstIp := none, dstWc := none, srcPort := p, dstPort := p }

def exRouter : NodeCfg :=
  { kind := .router, hostname := "router_1", numPorts := some 3,
    ports := [(2, { ip := 0xC0A80B01#32, mask := none }), (1, { ip := 0xC0A80A01#32, mask := some 0xFFFFFF00#32 })],
    acl := [(21, exRule .permit (some 80)), (3, exRule .deny (some 5432)), (23, ruleIcmp)],
    routes := [{ addr := 0x0A000000#32, mask := none, hop := 0xC0A80B02#32, metric := some 1 }] }

def exHost : NodeCfg :=
  { kind := .server, hostname := "db", ip := some 0xC0A80A0A#32, gateway := some 0xC0A80A01#32,
    nics := [(3, { ip := 0xAC100105#32, mask := some 0xFFFF0000#32 }), (2, { ip := 0xC0A80B0A#32, mask := some 0xFFFFFF00#32 })],
    services := [{ isApp := false, type := "database-service", opts := [("fixing_duration", "3"), ("backup_server_ip", "192.168.10.9")] }],
    users := [{ name := "alice", password := "pw", admin := some true }],
    folders := [{ name := "docs", files := [{ name := "a.txt", size := some 69, ftype := none }] }] }

def exAgent : AgentCfg :=
  { ref := "defender", type := "proxy-agent", team := some "BLUE",
    actionMap := [(1, { action := "node-shutdown", opts := "{}" }), (0, { action := "do-nothing", opts := "{}" })] }

def exScenario : Scenario :=
  { nodes := [exRouter, exHost], links := [{ a := "router_1", pa := 1, b := "db", pb := 1, bandwidth := none }], agents := [exAgent] }

theorem exNodes_wf : ∀ n ∈ [exRouter, exHost], NodeWF n := by
  intro n hn
  simp only [List.mem_cons, List.not_mem_nil, or_false] at hn
  rcases hn with rfl | rfl <;>
    exact ⟨by decide, by decide, by decide, by decide, fun e _ h => absurd h (by decide), by decide, by decide, by decide,
           by intro w hw; cases hw⟩

theorem exScenario_wf : WellFormed exScenario :=
  ⟨exNodes_wf, by decide, by decide, by decide, by decide, by decide⟩

/-- in the built router the deny rule sits at position 3 and the HTTP rule at 21 although the file lists 21 first;
the database server got the FTP client its service brings along; NIC 2 is the entry with key 2. -/
example : (build exScenario).toOption.map (fun inv => inv.nodes.map fun n => (n.nics.length, n.software.length)) =
    some [(3, 6), (3, 11)] := by decide

/-- with keys 2, 3 (declared as 3 then 2) NIC number = key: NIC 2 carries the entry under key 2, NIC 3 the one under key 3. -/
example : (declaredNode {} exHost).nics.map (·.ip) = [some 0xC0A80A0A#32, some 0xC0A80B0A#32, some 0xAC100105#32] := by decide

/-- initial states in the concrete scenario: the router is ON, port 1 is wired and enabled, ports 2 and 3 are not; all its
software runs. -/
example : (build exScenario).toOption.map (fun inv => inv.nodes.map fun n =>
      (n.power, n.nics.map (fun c => (c.wired, c.enabled)), n.software.all (·.running))) =
    some [(.on, [(true, true), (false, false), (false, false)], true),
          (.on, [(true, true), (false, false), (false, false)], true)] := by decide

/-- the same scenario with the database server declared `operating_state: "OFF"` and a starting health configured: its wired
interface is NOT enabled (the router's end is), none of its software runs, the database service is COMPROMISED as declared. -/
def exHostOff : NodeCfg :=
  { exHost with
    power := some .off,
    services := [{ isApp := false, type := "database-service", opts := [("fixing_duration", "3")], health := some .compromised }] }

def exScenarioOff : Scenario := { exScenario with nodes := [exRouter, exHostOff] }

theorem exScenarioOff_wf : WellFormed exScenarioOff := by
  refine ⟨?_, by decide, by decide, by decide, by decide, by decide⟩
  intro n hn
  simp only [exScenarioOff, exScenario, List.mem_cons, List.not_mem_nil, or_false] at hn
  rcases hn with rfl | rfl <;>
    exact ⟨by decide, by decide, by decide, by decide, fun e _ h => absurd h (by decide), by decide, by decide, by decide,
           by intro w hw; cases hw⟩

example : (build exScenarioOff).toOption.map (fun inv => inv.nodes.map fun n =>
      (n.power, n.nics.map (fun c => (c.wired, c.enabled)), n.software.any (·.running))) =
    some [(.on, [(true, true), (false, false), (false, false)], true),
          (.off, [(true, false), (false, false), (false, false)], false)] := by decide

example : (build exScenarioOff).toOption.map (fun inv => inv.nodes.map fun n =>
      (n.software.filter (·.name = "database-service")).map (·.health)) = some [[], [.compromised]] := by decide

example : build exScenarioOff = .ok (declared exScenarioOff) := C20_build_eq_declared _ exScenarioOff_wf

/-- the sections added in round 4, all at once: a wireless router (access point on WIFI_5, declared OFF), an `office-lan` node
set (2 computers, router), a link from the scenario's router to the node set's switch, `defaults:` (start-up 7, service fix 9 —
the database service keeps its own 3, restart 4), `game:` and an airspace capacity. -/
def exWireless : NodeCfg :=
  { kind := .wirelessRouter, hostname := "wifi", power := some .off, routerIf := some (0xC0A80C01#32, 0xFFFFFF00#32),
    wap := some { ip := 0x0A0A0A01#32, mask := 0xFFFFFF00#32, frequency := "WIFI_5" },
    acl := [(1, exRule .permit none)] }

def exFull : Scenario :=
  { exScenario with
    nodes := [exRouter, exHost, exWireless],
    links := exScenario.links ++ [{ a := "router_1", pa := 3, b := "switch_edge_1_LAB", pb := 23, bandwidth := some 0 }],
    nodeSets := [{ lanName := "LAB", subnetBase := 69, ipStart := 39, numPcs := 2, bandwidth := some 10 }],
    defaults := { nodeStartUp := some 7, svcFix := some 9, svcRestart := some 4, nodeScan := some 6, folderScan := some 5 },
    game := { maxLen := some 64, ports := ["80", "5432"], protocols := ["tcp"], seed := some "42" },
    airspace := [("WIFI_5", "0")] }

theorem exFull_wf : WellFormed exFull := by
  refine ⟨?_, by decide, by decide, by decide, by decide, by decide⟩
  intro n hn
  simp only [exFull, exScenario, List.mem_cons, List.not_mem_nil, or_false] at hn
  rcases hn with rfl | rfl | rfl
  · exact exNodes_wf _ (by simp)
  · exact exNodes_wf _ (by simp)
  · exact ⟨by decide, by decide, by decide, by decide, fun e _ h => absurd h (by decide), by decide, by decide, by decide,
           by intro w hw; cases hw; decide⟩

example : build exFull = .ok (declared exFull) := C20_build_eq_declared _ exFull_wf

/-- what that means concretely: 3 + 4 nodes; the wireless access point is on WIFI_5 and disabled (node OFF); the node set's
switch port 23 is wired to the scenario's router by a link of bandwidth 0; start-up duration 7 from `defaults:` except for the
node set's nodes (0); the database service keeps fixing duration 3 and gets restart duration 4; WIFI_5 capacity 0. -/
example : (build exFull).toOption.map (fun inv => (inv.nodes.map (fun n => (n.hostname, n.startUp)), inv.links.length, inv.airspace)) =
    some ([("router_1", 7), ("db", 7), ("wifi", 7), ("router_LAB", 0), ("switch_edge_1_LAB", 0), ("pc_1_LAB", 0), ("pc_2_LAB", 0)],
          5, [("WIFI_2_4", "100000000"), ("WIFI_5", "0")]) := by
  decide

example : (build exFull).toOption.map (fun inv =>
      (inv.nodes.filter (·.hostname = "wifi")).map (fun n => n.nics.map (fun c => (c.frequency, c.enabled)))) =
    some [[(some "WIFI_5", false), ((none : Option String), false)]] := by
  decide

example : (build exFull).toOption.map (fun inv =>
      (inv.nodes.filter (·.hostname = "db")).map (fun n => (n.software.filter (·.name = "database-service")).map
          (fun sw => (sw.imposedFix, sw.imposedRestart)))) =
    some [[((none : Option Nat), some 4)]] := by
  decide

example : (build exFull).toOption.map (fun inv =>
      (inv.nodes.filter (·.hostname = "switch_edge_1_LAB")).map (fun n => (n.nics.map (·.enabled)).count true)) = some [4] := by
  decide

/-- the same scenario with every mapping reversed -/
def exScenarioRev : Scenario :=
  { exScenario with
    nodes := [{ exRouter with ports := exRouter.ports.reverse, acl := exRouter.acl.reverse },
              { exHost with nics := exHost.nics.reverse }],
    agents := [{ exAgent with actionMap := exAgent.actionMap.reverse }] }

example : build exScenarioRev = build exScenario := by decide

/-! ### the unrepaired loader connected extra NICs in file order: key order mattered (fixed in the repository) -/

/-- `for nic_num, nic_cfg in node_cfg["network_interfaces"].items(): connect_nic(...)` as it was before the repair. -/
def nicsInFileOrder (m : Assoc Nat IfCfg) : List Nic := m.map fun e => nicOf e.2

theorem C20_unrepaired_nic_order_counterexample :
    ¬ ∀ m m' : Assoc Nat IfCfg, m.Perm m' → (keys m).Nodup → nicsInFileOrder m = nicsInFileOrder m' := by
  intro h
  have := h exHost.nics exHost.nics.reverse (List.reverse_perm _).symm (by decide)
  revert this
  decide

/-! ### episode schedules -/

/-- **schedule_assembles**: episode `n` is assembled from the variant files listed under key `n mod len` of the schedule
(in the listed order) followed by the base scenario; a schedule key or file that does not exist is an error, never a silent
fallback. -/
theorem C20_schedule_assembles {Doc} (s : Schedule Doc) (n : Nat) (docs : List Doc) (h : scheduleDocs s n = some docs) :
    0 < s.schedule.length ∧
    ∃ names variants, alookup (n % s.schedule.length) s.schedule = some names ∧
      names.mapM (fun f => alookup f s.files) = some variants ∧ docs = variants ++ [s.base] := by
  unfold scheduleDocs at h
  by_cases h0 : s.schedule.length = 0
  · simp [h0] at h
  · simp only [h0, if_false] at h
    have hidx : (if n ≥ s.schedule.length then n % s.schedule.length else n) = n % s.schedule.length := by
      by_cases hge : n ≥ s.schedule.length
      · simp [hge]
      · simp only [hge, if_false]; exact (Nat.mod_eq_of_lt (by omega)).symm
    rw [hidx] at h
    refine ⟨by omega, ?_⟩
    cases hl : alookup (n % s.schedule.length) s.schedule with
    | none => simp [hl] at h
    | some names =>
      simp only [hl] at h
      cases hm : names.mapM (fun f => alookup f s.files) with
      | none => simp [hm] at h
      | some variants =>
        simp only [hm, Option.some.injEq] at h
        exact ⟨names, variants, rfl, hm, h.symm⟩

/-- the schedule wraps around: episodes `n` and `n + len` are assembled from the same documents. -/
theorem C20_schedule_periodic {Doc} (s : Schedule Doc) (n : Nat) :
    scheduleDocs s (n + s.schedule.length) = scheduleDocs s n := by
  unfold scheduleDocs
  by_cases h0 : s.schedule.length = 0
  · simp [h0]
  · simp only [h0, if_false]
    have h1 : (if n + s.schedule.length ≥ s.schedule.length then (n + s.schedule.length) % s.schedule.length else n + s.schedule.length)
        = n % s.schedule.length := by simp
    have h2 : (if n ≥ s.schedule.length then n % s.schedule.length else n) = n % s.schedule.length := by
      by_cases hge : n ≥ s.schedule.length
      · simp [hge]
      · simp only [hge, if_false]; exact (Nat.mod_eq_of_lt (by omega)).symm
    rw [h1, h2]

/-- the order of the entries of the `schedule:` mapping and of the file table is irrelevant. -/
theorem C20_schedule_key_order {Doc} (s s' : Schedule Doc) (h1 : s.schedule.Perm s'.schedule) (h2 : s.files.Perm s'.files)
    (hb : s'.base = s.base) (hn1 : (keys s.schedule).Nodup) (hn2 : (keys s.files).Nodup) (n : Nat) :
    scheduleDocs s' n = scheduleDocs s n := by
  unfold scheduleDocs
  have hl : s'.schedule.length = s.schedule.length := h1.length_eq.symm
  have hf : (fun f => alookup f s'.files) = (fun f => alookup f s.files) := by
    funext f; exact (C20_lookup_perm f h2 hn2).symm
  simp only [hl, hb, hf, fun k => (C20_lookup_perm k h1 hn1).symm]

/-- flattening the `agents` list of an assembled scenario keeps every agent, in order. -/
theorem C20_flatten_length {α} (l : List (α ⊕ List α)) :
    (flattenAgents l).length = (l.map fun x => match x with | .inl _ => 1 | .inr as => as.length).sum := by
  induction l with
  | nil => rfl
  | cons x t ih =>
    cases x with
    | inl a => simp [flattenAgents, ih]; omega
    | inr as => simp [flattenAgents, ih]

example : scheduleDocs (⟨[(1, ["g1", "r1"]), (0, ["g0", "r0"])],
    [("g0", "G0"), ("g1", "G1"), ("r0", "R0"), ("r1", "R1")], "BASE"⟩ : Schedule String) 3
    = some ["G1", "R1", "BASE"] := by decide

/-! ### tie to the regenerated tables (Gen/Config.lean is rewritten from the source on every run) -/

/-- every mapping-iteration site of the loaders, with the lemma that makes the order of that mapping's entries irrelevant. -/
def coveredSites : List ((String × String) × String) := [
  (("PrimaiteGame.from_config", "new_node.file_system.folders.values()"), "the node's own folders, each given the same default: order-free"),
  (("PrimaiteGame.from_config", "sorted(node_cfg['network_interfaces'].items(), key=lambda item: int(item[0]))"), "C20_site_network_interfaces_items"),
  (("Node._install_system_software", "self.SYSTEM_SOFTWARE.items()"), "class constant, not part of the scenario"),
  (("Router.from_config", "ports.items()"), "C20_site_ports_items"),
  (("Router.from_config", "acl.items()"), "C20_site_acl_items"),
  (("Firewall.from_config", "config['acl']['internal_inbound_acl'].items()"), "C20_site_acl_items"),
  (("Firewall.from_config", "config['acl']['internal_outbound_acl'].items()"), "C20_site_acl_items"),
  (("Firewall.from_config", "config['acl']['dmz_inbound_acl'].items()"), "C20_site_acl_items"),
  (("Firewall.from_config", "config['acl']['dmz_outbound_acl'].items()"), "C20_site_acl_items"),
  (("Firewall.from_config", "config['acl']['external_inbound_acl'].items()"), "C20_site_acl_items"),
  (("Firewall.from_config", "config['acl']['external_outbound_acl'].items()"), "C20_site_acl_items"),
  (("WirelessRouter.from_config", "config['acl'].items()"), "C20_site_acl_items"),
  (("ActionManager.__init__", "self.config.action_map.items()"), "C20_site_action_map_items"),
  (("AirSpace.set_frequency_max_capacity_mbps", "cfg.items()"), "C20_site_airspace_items")]

/-- The regenerated inventory of mapping-iteration sites is exactly the list of sites that have a per-site lemma: a new
`.items()` / `.values()` / `for k in mapping` in a loader, or a loop that stops sorting, breaks this obligation. -/
theorem C20_gen_sites_covered : Gen.Config.sites = coveredSites.map (·.1) := by decide

/-- constants and tables of the model are the ones in the source. -/
theorem C20_gen_constants :
    defaultBandwidth = Gen.Config.defaultBandwidth ∧ defaultDuration = Gen.Config.defaultStartUp ∧
    defaultDuration = Gen.Config.defaultShutDown ∧ defaultRouterPorts = Gen.Config.routerPorts ∧
    defaultSwitchPorts = Gen.Config.switchPorts ∧ Gen.Config.firewallExtraPorts = 0 ∧
    hostSystem.map (·.1) = Gen.Config.hostSystemKeys.map (fun k => if k = "host-arp" then "arp" else k) ∧
    Gen.Config.computerSystemKeys = ["**", "ftp-client"] ∧
    routerSystem.map (·.1) = Gen.Config.routerSystemKeys ++ ["icmp", "arp", "nmap"] ∧
    fwAclNames.map (fun e => (e.1, if e.2.1 = Action.permit then "PERMIT" else "DENY")) = Gen.Config.firewallAcls ∧
    (fwAclNames.filter (·.2.2)).map (·.1) = Gen.Config.firewallAclMandatory ∧
    (fwAclNames.filter (fun e => !e.2.2)).map (·.1) = Gen.Config.firewallAclOptional ∧
    Gen.Config.routerDefaultRulePositions = [22, 23] ∧ Gen.Config.defaultsKeysConsistent = true := by decide

/-- `EpisodeListScheduler.__call__` has the shape `scheduleDocs` models: wrap by `% len`, read the schedule by key, join the
variants in listed order followed by the base scenario. -/
theorem C20_gen_schedule_shape : Gen.Config.scheduleWrapsModLen = true ∧ Gen.Config.scheduleVariantsThenBase = true ∧
    Gen.Config.scheduleReadByKey = true := by decide

/-- `SoftwareManager.install` has the shape `installOne` models: the class map its guard reads is written by `install` and
cleared by `uninstall`; the guard refuses only a bare re-install (`… and software_config is None`); an installed namesake is
uninstalled BEFORE the new instance is entered into `node.services/applications`, the request routes, `software` and the port
table. -/
theorem C20_gen_install_shape : Gen.Config.installGuardMapWrites = 1 ∧ Gen.Config.installGuardOnlyBare = true ∧
    Gen.Config.installReplacesNamesakeFirst = true ∧ Gen.Config.uninstallClearsClassMap = true := by decide

/-- `EpisodeListScheduler.__call__` returns the value it has just parsed from the joined text — a fresh object on every call —,
stores nothing on the instance or the class, and the class has no field beyond the four it documents (so nowhere to keep a parsed
document); `ConstantEpisodeScheduler` hands out a deep copy. This is what lets `scheduleDocs` be a FUNCTION of the files: the
loader may do what it likes to the object it is given without the next episode seeing it. -/
theorem C20_gen_scheduler_fresh : Gen.Config.scheduleFreshPerCall = true ∧
    Gen.Config.scheduleClassFields = ["schedule", "episode_data", "base_scenario", "_exceeded_episode_list"] ∧
    Gen.Config.constantSchedulerCopies = true := by decide

/-- no loader function pops from, deletes from, clears or item-assigns the mapping it is GIVEN (a parameter that has not been
re-bound to a copy first): a second build from the same parsed scenario sees the same scenario. `build` is a function of the
scenario alone for exactly this reason. -/
theorem C20_gen_loader_reads_only : Gen.Config.loaderConsumesArgument = [] := by decide

/-- every software constructor applies its configured options by plain assignment (`self.attr = self.config.opt`, at most under
`if self.config.opt is not None`): no loop, no call fed with configured values, no test of the node's state — so the effect of
an option cannot depend on the declared operating state of the node or on construction order. The regenerated assignment table
and the regenerated constructor chains ARE the tables of the model (`initApplies`, `classChains`), over which
`C20_live_option_eq_declared` / `C20_live_attribute_per_class` are proved: file → option → assignment → live attribute is all in
Lean; only pydantic's handling of the keyword arguments of the schema is trusted. The one assignment that sits under a test of
the object's own fresh state (`_fixing_countdown`, only for software that starts FIXING) is listed apart and is not an option
reading. -/
theorem C20_gen_software_options_applied : Gen.Config.softwareInitOtherConfigUses = [] ∧
    Gen.Config.softwareInitApplies = initApplies ∧ Gen.Config.softwareChains = classChains ∧
    Gen.Config.softwareInitGuardedApplies = [("Software", "_fixing_countdown", "fixing_duration")] := by decide

/-- the options that have a second source are exactly the ones the model knows, each filled inner-first by its `install()` hook
(`if self.parent and not self.<opt>: self.config.<opt> = <outer>`; the extractor refuses any other write of `self.config` in an
`install()` hook), and no constructor writes `self.config` (`C20_gen_software_options_applied`: such a statement is an "other
use") — so the node-level key can never override the entry's own value. -/
theorem C20_gen_option_outer_sources : Gen.Config.optionOuterSources = outerSources := by decide

/-- the constants and shapes behind the sections modelled in round 4: the registered airspace frequencies with their capacities
and the access point's default one, capacities given in Mbps × 1024², a wireless router's port 1 = access point / port 2 =
router interface and the sections its `from_config` applies (incl. `default_route`), the default node scan duration and episode
length, every key of the `defaults:` section with the statement that applies it (own value first for node durations and the
service fixing duration; folder durations also on the folders that exist already), and the keys the eight ACL rule loops read
(shipped spelling `src_ip` first, documented `src_ip_address` as fallback; each wildcard mask from its own key). -/
theorem C20_gen_round4_constants :
    Gen.Config.airspaceFrequencies = frequencies ∧ Gen.Config.wirelessDefaultFrequency = defaultFrequency ∧
    Gen.Config.airspaceCapacityInMbps = true ∧
    Gen.Config.wirelessRouterPorts = ["WirelessAccessPoint", "RouterInterface"] ∧
    Gen.Config.wirelessRouterSections = ["router_interface", "wireless_access_point", "acl", "routes", "default_route", "operating_state"] ∧
    Gen.Config.nodeScanDefault = defaultScan ∧ Gen.Config.episodeLengthDefault = defaultEpisodeLength ∧
    -- the keys of the defaults section that have ONE statement each and no second source; the five keys that compete with a
    -- value of the entry (node start-up / shut-down / scan, service fix / restart duration) are TRANSLATED instead and proved to
    -- resolve as `effective` in Props/C20Resolve.lean (C20_gen_resolve_*), whatever the shape of the statements
    (Gen.Config.defaultsLanding.filter (fun e => e.1 ∈ ["folder_restore_duration", "folder_scan_duration", "service_install_duration"])) = [
      ("folder_restore_duration", "'folder_restore_duration' in defaults_config", "folder.restore_duration = int(defaults_config['folder_restore_duration'])"),
      ("folder_restore_duration", "'folder_restore_duration' in defaults_config",
        "new_node.file_system._default_folder_restore_duration = int(defaults_config['folder_restore_duration'])"),
      ("folder_scan_duration", "'folder_scan_duration' in defaults_config", "folder.scan_duration = int(defaults_config['folder_scan_duration'])"),
      ("folder_scan_duration", "'folder_scan_duration' in defaults_config",
        "new_node.file_system._default_folder_scan_duration = int(defaults_config['folder_scan_duration'])"),
      ("service_install_duration", "'service_install_duration' in defaults_config",
        "new_service.install_duration = int(defaults_config['service_install_duration'])")] ∧
    (Gen.Config.defaultsLanding.map (·.1)).eraseDups = ["folder_restore_duration", "folder_scan_duration", "node_scan_duration",
      "node_shut_down_duration", "node_start_up_duration", "service_fix_duration", "service_install_duration", "service_restart_duration"] ∧
    -- how many `add_rule` calls each loader has (one router ACL, six firewall ACLs, one wireless-router ACL); WHAT each call reads
    -- for the two spellings of an address is no longer a text pin: every keyword expression of every one of these calls is
    -- TRANSLATED and proved in Props/C20Resolve.lean (`C20_gen_kwargs_resolve`, `C20_acl_address_first_declared_spelling`)
    Gen.Config.aclAddressKeys.map (·.1) = ["Router", "Firewall", "Firewall", "Firewall", "Firewall", "Firewall", "Firewall", "WirelessRouter"] := by
  decide

end Primaite.Config
