/-
C10, ground truth — "each component is evaluated on the POST-STEP STATE": which simulator quantity each component's leaf is.

`Model/RewardTruth.lean` models the simulator objects a reward component can reach and the `describe_state()` methods that
turn them into the dictionary (`describeT`).  Proved here, for every object graph (duplicate names included):

* `DatabaseFileIntegrity`: the leaf is the description of the LIVE `File` object `node/folder/file` (the last one of that name in
  the live folder of that name on the node of that hostname); the value is −1 / 1 / 0 by that object's `health_status` at the
  moment `describe_state()` is taken (end of the step); a deleted file, a file in a deleted folder, a missing node give 0;
* `WebServer404Penalty`: the leaf is the service object of that name on that node; the value is the average over that
  object's `response_codes_this_timestep` (cleared by `pre_timestep`, so: the responses of THIS step), else sticky / zero;
* `WebpageUnavailablePenalty`: the leaf is the application object named `web-browser` on that node; a recomputed value is
  decided by the LAST `BrowserHistoryItem` (response code if LOADED, else the status).

The rig evaluates the same specifications on the live Python objects (not through `describe_state()`) after every real step.
-/
import PrimaiteModel.Model.RewardTruth
import PrimaiteModel.Props.C10Calc
namespace Primaite.Reward

theorem lookup_dictInsert (d : List (PyKey × PyVal)) (k' : String) (v : PyVal) (k : String) :
    (dictInsert d k' v).lookup (.str k) = if k = k' then some v else d.lookup (.str k) := by
  unfold dictInsert
  induction d with
  | nil =>
    by_cases h : k = k'
    · subst h; simp
    · simp [h]
  | cons q rest ih =>
    obtain ⟨qk, qv⟩ := q
    by_cases hq : qk = PyKey.str k'
    · subst hq
      simp only [List.any_cons, beq_self_eq_true, Bool.true_or, if_true, List.map_cons]
      by_cases h : k = k'
      · subst h; simp
      · have hne : (PyKey.str k == PyKey.str k') = false := by simp [h]
        simp only [if_true, List.lookup_cons, hne, h, if_false]
        have hany : ∀ (r : List (PyKey × PyVal)), (r.map (fun q => if q.1 = PyKey.str k' then (q.1, v) else q)).lookup (PyKey.str k)
            = r.lookup (PyKey.str k) := by
          intro r
          induction r with
          | nil => rfl
          | cons p r ihr =>
            obtain ⟨pk, pv⟩ := p
            by_cases hp : pk = PyKey.str k'
            · subst hp; simp only [List.map_cons, if_true, List.lookup_cons, hne]; exact ihr
            · simp only [List.map_cons, hp, if_false, List.lookup_cons]; rw [ihr]
        exact hany rest
    · have hb : (qk == PyKey.str k') = false := by simp [hq]
      simp only [List.any_cons, hb, Bool.false_or] at ih ⊢
      by_cases hany : rest.any (fun q => q.1 == PyKey.str k') = true
      · simp only [hany, if_true] at ih ⊢
        simp only [List.map_cons, hq, if_false, List.lookup_cons]
        by_cases hk : (PyKey.str k == qk) = true
        · simp only [hk]
          have : k ≠ k' := by
            intro h; subst h
            have : qk = PyKey.str k := by simpa using (beq_iff_eq.mp hk).symm
            exact hq this
          simp [this]
        · simp only [hk]; exact ih
      · simp only [hany, Bool.false_eq_true, if_false] at ih ⊢
        simp only [List.cons_append, List.lookup_cons]
        by_cases hk : (PyKey.str k == qk) = true
        · simp only [hk]
          have : k ≠ k' := by
            intro h; subst h
            have : qk = PyKey.str k := by simpa using (beq_iff_eq.mp hk).symm
            exact hq this
          simp [this]
        · simp only [hk]; exact ih

/-- what a dict comprehension `{name(x): g(x) for x in l}` holds under a key: the description of the LAST object of that name -/
theorem lookup_dictOf {α} (name : α → String) (g : α → PyVal) (l : List α) (k : String) :
    (dictOf (l.map (fun x => (name x, g x)))).lookup (.str k) = (lastNamed name l k).map g := by
  unfold dictOf
  have key : ∀ (l : List α) (d : List (PyKey × PyVal)),
      ((l.map (fun x => (name x, g x))).foldl (fun d kv => dictInsert d kv.1 kv.2) d).lookup (.str k) =
        match lastNamed name l k with
        | some x => some (g x)
        | none => d.lookup (.str k) := by
    intro l
    induction l with
    | nil => intro d; rfl
    | cons x xs ih =>
      intro d
      simp only [List.map_cons, List.foldl_cons, lastNamed]
      rw [ih]
      cases hl : lastNamed name xs k with
      | some y => rfl
      | none =>
        simp only
        rw [lookup_dictInsert]
        by_cases h : name x = k
        · simp [h]
        · have : ¬ k = name x := fun e => h e.symm
          simp [h, this]
  rw [key l []]
  cases lastNamed name l k <;> rfl

theorem access_dict (kvs : List (PyKey × PyVal)) (k : String) (ks : List String) :
    PyVal.access (.dict kvs) (k :: ks) = match kvs.lookup (.str k) with
      | some v => PyVal.access v ks
      | none => .ok .notPresent := by
  rw [PyVal.access]
  cases List.lookup (PyKey.str k) kvs <;> rfl

@[simp] theorem pykey_str_beq (a b : String) : (PyKey.str a == PyKey.str b) = (a == b) := by
  by_cases h : a = b
  · subst h; simp
  · have h1 : PyKey.str a ≠ PyKey.str b := fun e => h (PyKey.str.inj e)
    rw [beq_eq_false_iff_ne.mpr h1, beq_eq_false_iff_ne.mpr h]

theorem access_nil (v : PyVal) : PyVal.access v [] = .ok v := by cases v <;> rfl

/-! ## DatabaseFileIntegrity -/

/-- the leaf `DatabaseFileIntegrity` fetches from the described state IS the description of the live `File` object -/
theorem C10_file_leaf_is_live_file (t : Truth) (n fo fi : Name) :
    PyVal.access (describeT t) (fileLoc n fo fi) =
      .ok (match t.liveFile n fo fi with
           | some f => describeFile f
           | none => .notPresent) := by
  unfold Truth.liveFile Truth.node
  simp only [describeT, fileLoc, access_dict]
  simp only [List.lookup, beq_self_eq_true, access_dict]
  rw [lookup_dictOf (·.hostname) describeNode]
  cases lastNamed (·.hostname) t.nodes n with
  | none => rfl
  | some nd =>
    simp only [Option.map_some, describeNode, access_dict]
    simp [List.lookup, access_dict]
    rw [lookup_dictOf (·.name) describeFolder]
    cases lastNamed (·.name) nd.folders fo with
    | none => rfl
    | some fd =>
      simp only [Option.map_some, describeFolder, access_dict]
      simp [List.lookup, access_dict]
      rw [lookup_dictOf (·.name) describeFile]
      cases lastNamed (·.name) fd.files fi with
      | none => rfl
      | some f => simp [access_nil]

/-- value of a `health_status` given as the enumeration's integer -/
theorem healthValue_int (h : Nat) : healthValue (.int (Int.ofNat h)) = if h = 2 then -1 else if h = 1 then 1 else 0 := by
  unfold healthValue
  simp only [PyVal.pyEq, PyVal.asNum]
  by_cases h2 : h = 2
  · subst h2; decide
  · by_cases h1 : h = 1
    · subst h1; decide
    · have e2 : ((Int.ofNat h : Rat) == ((2 : Int) : Rat)) = false := by
        simp only [beq_eq_false_iff_ne, ne_eq]
        intro e; exact h2 (by have := Rat.intCast_inj.mp e; simp only [Int.ofNat_eq_natCast] at this; omega)
      have e1 : ((Int.ofNat h : Rat) == ((1 : Int) : Rat)) = false := by
        simp only [beq_eq_false_iff_ne, ne_eq]
        intro e; exact h1 (by have := Rat.intCast_inj.mp e; simp only [Int.ofNat_eq_natCast] at this; omega)
      simp only [e2, e1, Bool.false_eq_true, if_false, h2, h1]

/-- **`DatabaseFileIntegrity` on the objects.** Evaluated on the described state, the component never raises and returns −1 if
the live `File` object `node/folder/file` is CORRUPT (2), 1 if it is GOOD (1), 0 for any other health, and 0 when there is no
such live file (deleted, in a deleted folder, or no such node / folder). -/
theorem C10_file_value_is_live_health (t : Truth) (n fo fi : Name) :
    calcFileE (describeT t) n fo fi =
      .ok (match t.liveFile n fo fi with
           | some f => if f.health = 2 then -1 else if f.health = 1 then 1 else 0
           | none => 0) := by
  unfold calcFileE
  rw [C10_file_leaf_is_live_file]
  cases t.liveFile n fo fi with
  | none => rfl
  | some f =>
    simp only [describeFile, PyVal.isNotPresent, Bool.false_eq_true, if_false, PyVal.getItem, List.lookup]
    have h1 : (PyKey.str "health_status" == PyKey.str "name") = false := by decide
    simp only [h1, beq_self_eq_true]
    rw [healthValue_int]

/-- non-vacuity: a corrupt live file is −1; the same file once deleted (moved to `deleted_files`) is 0 -/
example :
    let live : Truth := { nodes := [{ hostname := "srv", folders := [{ name := "database", files := [{ name := "database.db", health := 2 }] }] }] }
    let gone : Truth := { nodes := [{ hostname := "srv", folders := [{ name := "database", files := [], deletedFiles := [{ name := "database.db", health := 2 }] }] }] }
    (calcFileE (describeT live) "srv" "database" "database.db").toOption = some (-1) ∧
    (calcFileE (describeT gone) "srv" "database" "database.db").toOption = some 0 := by decide

/-! ## WebServer404Penalty -/

theorem C10_web404_leaf_is_live_service (t : Truth) (n sv : Name) :
    PyVal.access (describeT t) (web404Loc n sv) =
      .ok (match t.service n sv with
           | some s => describeService s
           | none => .notPresent) := by
  unfold Truth.service Truth.node
  simp only [describeT, web404Loc, access_dict]
  simp only [List.lookup, beq_self_eq_true, access_dict]
  rw [lookup_dictOf (·.hostname) describeNode]
  cases lastNamed (·.hostname) t.nodes n with
  | none => rfl
  | some nd =>
    simp only [Option.map_some, describeNode, access_dict]
    simp [List.lookup, access_dict]
    rw [lookup_dictOf (·.name) describeService]
    cases lastNamed (·.name) nd.services sv with
    | none => rfl
    | some s => simp [access_nil]

/-- **`WebServer404Penalty` on the objects.** No such service on the node: 0, memory untouched. A web server that answered
requests in this step (`response_codes_this_timestep` non-empty at the end of the step): the average of +1 (200) / −1 (404) /
0 over THOSE responses, remembered. Otherwise (no response this step, or a service that is not a web server): the memory if
sticky, else 0. It never raises. -/
theorem C10_web404_value_is_live_codes (t : Truth) (n sv : Name) (st : Bool) (m : Val) :
    calcWeb404E (describeT t) n sv st m =
      .ok (match t.service n sv with
           | none => (0, m)
           | some s =>
             match s.codes with
             | some (c :: cs) =>
               let avg := (((c :: cs).map (fun x => status2rew (.int (Int.ofNat x)))).sum) / (((c :: cs).length : Nat) : Rat)
               (avg, avg)
             | _ => if st then (m, m) else (0, 0)) := by
  unfold calcWeb404E
  rw [C10_web404_leaf_is_live_service]
  cases t.service n sv with
  | none => rfl
  | some s =>
    obtain ⟨nm, codes⟩ := s
    cases codes with
    | none =>
      simp only [describeService, PyVal.isNotPresent, Bool.false_eq_true, if_false, PyVal.get, List.lookup]
      have h1 : (PyKey.str "response_codes_this_timestep" == PyKey.str "operating_state") = false := by decide
      simp only [h1, Option.getD, PyVal.truthy]
      cases st <;> rfl
    | some cs =>
      simp only [describeService, PyVal.isNotPresent, Bool.false_eq_true, if_false, PyVal.get, List.lookup]
      have h1 : (PyKey.str "response_codes_this_timestep" == PyKey.str "operating_state") = false := by decide
      simp only [h1, beq_self_eq_true, Option.getD]
      cases cs with
      | nil => simp only [List.map_nil, PyVal.truthy, List.isEmpty_nil, Bool.not_true, Bool.false_eq_true, if_false]; cases st <;> rfl
      | cons c rest =>
        simp only [List.map_cons, PyVal.truthy, List.isEmpty_cons, Bool.not_false, if_true, PyVal.avgTable, status2rew,
          List.length_cons, List.length_map, List.map_map]
        rfl

/-! ## WebpageUnavailablePenalty -/

theorem C10_webpage_leaf_is_live_browser (t : Truth) (n : Name) :
    PyVal.access (describeT t) (webpageLoc n) =
      .ok (match t.browser n with
           | some a => describeApp a
           | none => .notPresent) := by
  unfold Truth.browser Truth.node
  simp only [describeT, webpageLoc, access_dict]
  simp only [List.lookup, beq_self_eq_true, access_dict]
  rw [lookup_dictOf (·.hostname) describeNode]
  cases lastNamed (·.hostname) t.nodes n with
  | none => rfl
  | some nd =>
    simp only [Option.map_some, describeNode, access_dict]
    simp [List.lookup, access_dict]
    rw [lookup_dictOf (·.name) describeApp]
    cases lastNamed (·.name) nd.apps "web-browser" with
    | none => rfl
    | some a => simp [access_nil]

/-- the reward of one `BrowserHistoryItem`: a loaded page counts by its response code (200 → 1, anything else → −1), a request
still PENDING counts 0, any other status (SERVER_UNREACHABLE, NOT_SENT) −1 -/
def entryReward : BrowserEntry → Val
  | .loaded c => if c = 200 then 1 else -1
  | .notLoaded s => if s = "PENDING" then 0 else -1

theorem outcomeReward_entry (e : BrowserEntry) : outcomeReward (entryOutcome e) = entryReward e := by
  cases e with
  | loaded c =>
    simp only [outcomeReward, entryOutcome, entryReward, PyVal.pyEq, PyVal.asNum]
    by_cases h : c = 200
    · subst h; decide
    · have e2 : ((Int.ofNat c : Rat) == ((200 : Int) : Rat)) = false := by
        simp only [beq_eq_false_iff_ne, ne_eq]
        intro e; exact h (by have := Rat.intCast_inj.mp e; simp only [Int.ofNat_eq_natCast] at this; omega)
      simp only [e2, Bool.false_eq_true, if_false, h]
  | notLoaded s =>
    simp only [outcomeReward, entryOutcome, entryReward, PyVal.pyEq, PyVal.asNum]
    by_cases h : s = "PENDING" <;> simp [h]

/-- **`WebpageUnavailablePenalty` on the objects**, for a node whose `web-browser` application (if any) is a web browser.
Without a new browser request by this agent: the memory if sticky (reset to 0 when the node has no such application), else 0.
With one: −1 if the request was refused; otherwise 0 if there is no browser or its history is empty, else the reward of the
LAST history item as it stands at the end of the step. -/
theorem C10_webpage_value_is_live_history (t : Truth) (it : Item) (n : Name) (st : Bool) (m : Val)
    (hb : ∀ a, t.browser n = some a → a.history ≠ none) :
    calcWebpageE (describeT t) it n st m =
      .ok (if !it.requestIs (browserRequest n) then
             (if st then (if (t.browser n).isNone then 0 else m) else 0)
           else if !it.ok then -1
           else match (t.browser n).bind (·.history) with
             | none => 0
             | some h => match h.getLast? with
               | none => 0
               | some e => entryReward e) := by
  unfold calcWebpageE
  rw [C10_webpage_leaf_is_live_browser]
  cases hbr : t.browser n with
  | none =>
    simp only [PyVal.isNotPresent, if_true, Option.isNone_none, webpageFreshE, Option.bind_none]
    by_cases hr : it.requestIs (browserRequest n) = true
    · by_cases hok : it.ok = true <;> simp [hr, hok]
    · cases st <;> simp [hr]
  | some a =>
    obtain ⟨nm, hist⟩ := a
    cases hist with
    | none => exact absurd rfl (hb _ hbr)
    | some h =>
      simp only [describeApp, PyVal.isNotPresent, Bool.false_eq_true, if_false, Option.isNone_some, webpageFreshE,
        Option.bind_some, PyVal.getItem, List.lookup]
      have h1 : (PyKey.str "history" == PyKey.str "operating_state") = false := by decide
      simp only [h1, beq_self_eq_true]
      by_cases hr : it.requestIs (browserRequest n) = true
      · by_cases hok : it.ok = true
        · simp only [hr, hok, Bool.not_true, Bool.false_eq_true, if_false]
          cases hl : h.getLast? with
          | none =>
            have : h = [] := List.getLast?_eq_none_iff.mp hl
            subst this
            simp [PyVal.truthy]
          | some e =>
            have hne : h ≠ [] := by intro e0; subst e0; simp at hl
            have htr : (PyVal.list (h.map (fun e => PyVal.dict [(PyKey.str "url", PyVal.str ""), (PyKey.str "outcome", entryOutcome e)]))).truthy = true := by
              cases h with
              | nil => exact absurd rfl hne
              | cons _ _ => simp [PyVal.truthy]
            simp only [htr, Bool.not_true, Bool.false_eq_true, if_false, PyVal.last, List.getLast?_map, hl, Option.map_some,
              PyVal.getItem, List.lookup]
            have h2 : (PyKey.str "outcome" == PyKey.str "url") = false := by decide
            simp only [h2, beq_self_eq_true, outcomeReward_entry]
        · simp [hr, hok]
      · cases st <;> simp [hr]

/-- non-vacuity: a browser whose last page came back 404 after an earlier 200 -/
example :
    let t : Truth := { nodes := [{ hostname := "pc1", apps := [{ name := "web-browser", history := some [.loaded 200, .loaded 404] }] }] }
    let it : Item := { action := "node-application-execute", request := PyVal.strs (browserRequest "pc1"), status := "success" }
    (∀ a, t.browser "pc1" = some a → a.history ≠ none) ∧ (calcWebpageE (describeT t) it "pc1" false 0).toOption = some (-1) := by
  constructor
  · intro a h
    simp [Truth.browser, Truth.node, lastNamed] at h
    subst h
    simp
  · decide

end Primaite.Reward
