/-
Property C15: the method inventory.  EVERY method and property of `FileSystem`, `Folder`, `File` and `FileSystemItemABC`
is either modelled — and then some obligation reads its source (textual snapshot `C15_gen_source_snapshot`, statement
translation `C15_gen_restore_file` / `C15_gen_add_file` / `C15_gen_file_methods` / `C15_gen_folder_methods`, request trees) — or listed here as
NOT modelled with the reason.  A method added to one of the four classes breaks `C15_gen_method_inventory` until it is
classified; a method marked modelled that no extractor reads, or the other way round, breaks `C15_modelled_iff_tied`.
-/
import PrimaiteModel.Gen.FileSystem
namespace Primaite.FileSystem

/-- (method, modelled?, where it lives in the model / why it is not modelled) in source order. -/
def methodTable : List (String × Bool × String) :=
  [("FileSystem.__init__", true, "init: the root folder"),
   ("FileSystem.setup_for_episode", true, "setupForEpisode: the episode starts with both counters at zero"),
   ("FileSystem._init_request_manager", true, "ofRequest / resolve; validators = the guards of step"),
   ("FileSystem.size", false, "sizes are not modelled"),
   ("FileSystem.show_num_files", false, "printing"),
   ("FileSystem.show", false, "printing"),
   ("FileSystem.create_folder", true, "createFolder"),
   ("FileSystem.delete_folder", true, "deleteFolder"),
   ("FileSystem.delete_folder_by_id", true, "apiDeleteFolderById"),
   ("FileSystem.get_folder", true, "getFolder"),
   ("FileSystem.get_folder_by_id", true, "the live-only lookup of the *_by_id API operations"),
   ("FileSystem.create_file", true, "createFile / apiCreateFile (file_type=None, no size)"),
   ("FileSystem.get_file", true, "getFile"),
   ("FileSystem.get_file_by_id", false, "pure lookup across folders; no caller in src/ and no effect"),
   ("FileSystem.delete_file", true, "deleteFile"),
   ("FileSystem.delete_file_by_id", true, "apiDeleteFileById"),
   ("FileSystem.move_file", true, "apiMoveFile"),
   ("FileSystem.copy_file", true, "apiCopyFile"),
   ("FileSystem.describe_state", true, "describe"),
   ("FileSystem.apply_timestep", true, "step .tick"),
   ("FileSystem.pre_timestep", true, "step .preTick / stepX .preTick"),
   ("FileSystem.scan", true, "scanAll: the instant_scan=True call of the node scan (the timed branch starts folder scans one by one and is not called from the node)"),
   ("FileSystem.reveal_to_red", true, "no structural effect: a plain loop over the live folders calling the (inert) Folder.reveal_to_red (round 7)"),
   ("FileSystem.restore_folder", true, "restoreFolder"),
   ("FileSystem.restore_file", true, "restoreFile"),
   ("FileSystem.access_file", true, "access / reqTouch"),
   ("Folder.__init__", false, "constructor: field defaults are tied by C15_gen_constants; _scanned_this_step is not modelled"),
   ("Folder._init_request_manager", true, "viaFolder continuations; validators = fileGuard"),
   ("Folder.describe_state", true, "Folder.describe"),
   ("Folder.show", false, "printing"),
   ("Folder.size", false, "sizes are not modelled"),
   ("Folder.apply_timestep", true, "restoringTimestep + ledger tick (scan countdown)"),
   ("Folder.pre_timestep", true, "stepX .preTick (num_access of live files)"),
   ("Folder._scan_timestep", true, "ledger: scanCd / tickTouch"),
   ("Folder._reveal_to_red_timestep", true, "no structural effect: checked to be structurally inert by the extractor (round 7)"),
   ("Folder._restoring_timestep", true, "Folder.restoringTimestep"),
   ("Folder.get_file", true, "Folder.getFile"),
   ("Folder.get_file_by_id", true, "uuid lookups of the *_by_id API operations and of the timestep loops"),
   ("Folder.add_file", true, "Folder.addFileApi (translated statement by statement)"),
   ("Folder.remove_file", true, "Folder.removeFile"),
   ("Folder.remove_file_by_id", true, "apiRemoveFileById"),
   ("Folder.remove_file_by_name", true, "Folder.removeFileByName"),
   ("Folder.remove_all_files", true, "Folder.removeAllFiles"),
   ("Folder.restore_file", true, "Folder.restoreFile (translated statement by statement)"),
   ("Folder.quarantine", false, "stub (pass)"),
   ("Folder.unquarantine", false, "stub (pass)"),
   ("Folder.quarantine_status", false, "stub (pass)"),
   ("Folder.scan", true, "Folder.verb .scan + ledger scanStart; instant branch = scanAll"),
   ("Folder.reveal_to_red", true, "no structural effect: checked to be structurally inert by the extractor (round 7)"),
   ("Folder.check_hash", true, "Folder.verb .checkhash (always False); translated"),
   ("Folder.repair", true, "Folder.verb .repair + reqTouch"),
   ("Folder.restore", true, "Folder.restore (translated with the folder's health)"),
   ("Folder.corrupt", true, "Folder.verb .corrupt + reqTouch"),
   ("Folder.delete", true, "the flag set by deleteFolder (translated)"),
   ("File.__init__", false, "constructor: file type, size and sim_path are not modelled"),
   ("File.path", false, "string property"),
   ("File.size", false, "sizes are not modelled"),
   ("File.apply_timestep", true, "no effect: checked to be structurally inert by the extractor (round 7)"),
   ("File.pre_timestep", true, "stepX .preTick (num_access := 0)"),
   ("File.describe_state", false, "health, size, type; the rig reads uuid and num_access from it"),
   ("File.scan", true, "File.verb .scan + touch (translated with health)"),
   ("File.reveal_to_red", true, "no structural effect: checked to be structurally inert by the extractor (round 7)"),
   ("File.check_hash", true, "File.verb .checkhash (always False); translated"),
   ("File.repair", true, "File.verb .repair + touch (translated with health)"),
   ("File.corrupt", true, "File.verb .corrupt + touch (translated with health)"),
   ("File.restore", true, "File.restore + touch (translated with health)"),
   ("File.delete", true, "File.delete + touch (translated with health)"),
   ("File.show", false, "printing"),
   ("FileSystemItemABC.describe_state", false, "health / visible status / hash / revealed_to_red are C14's and C09's"),
   ("FileSystemItemABC._init_request_manager", true, "the five item verbs (Verb, verbOf)"),
   ("FileSystemItemABC.size_str", false, "string property"),
   ("FileSystemItemABC.scan", false, "abstract: overridden by File and Folder"),
   ("FileSystemItemABC.reveal_to_red", false, "abstract: overridden by File and Folder"),
   ("FileSystemItemABC.check_hash", false, "abstract: overridden by File and Folder"),
   ("FileSystemItemABC.repair", false, "abstract: overridden by File and Folder"),
   ("FileSystemItemABC.corrupt", false, "abstract: overridden by File and Folder"),
   ("FileSystemItemABC.restore", false, "abstract: overridden by File and Folder"),
   ("FileSystemItemABC.delete", false, "abstract: overridden by File and Folder")]

/-- The inventory regenerated from the source is exactly the classified table: inventory = modelled ∪ listed-unmodelled. -/
theorem C15_gen_method_inventory : Gen.FileSystem.methodInventory = methodTable.map (·.1) := by decide

/-- A method is marked modelled exactly when one of the ties reads its source. -/
theorem C15_modelled_iff_tied :
    (methodTable.filter (·.2.1)).map (·.1) = (methodTable.map (·.1)).filter (fun m => Gen.FileSystem.tiedMethods.contains m) ∧
    Gen.FileSystem.tiedMethods.all (fun m => (methodTable.map (·.1)).contains m) = true := by
  decide

end Primaite.FileSystem
