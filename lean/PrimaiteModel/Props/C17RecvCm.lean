/-
C17 — counter-model search for the translated `DatabaseService.receive` (NOT a proof; run by harness/props/c17.py with `lake env lean`):
node (ON / OFF) x operating state (5) x service health (GOOD / COMPROMISED) x file (GOOD / COMPROMISED) x payload (connect right / wrong
password, the six queries on a KEPT connection id and on a forged one, disconnect of the kept id by its owner / by another host, the three
kinds of junk) = 2 x 5 x 2 x 2 x 19 = 760 cells, each on a server holding one connection (id 0, owner 0); the translated dispatcher is
compared with the model's `Server.receive`.  When `C17_tr_receive` checks this prints `cells=760 differing=0`.
-/
import PrimaiteModel.Model.Database
import PrimaiteModel.Gen.DatabaseTr
open Primaite.Database Primaite.Gen

def c17RecvPayloads : List (Nat × Payload) :=
  [(0, .connect none), (0, .connect (some 7))] ++
  ([.delete, .select, .encrypt, .insert, .pgstat, .other] : List Sql).flatMap (fun q => [(0, Payload.sql (some 0) q), (0, Payload.sql none q)]) ++
  [(0, .disconnect (some 0)), (1, .disconnect (some 0)), (0, .junk .notDict), (0, .junk .noType), (0, .junk .unknownType)]

def c17RecvCells : List (Bool × SvcState × Health × FHealth × Nat × Payload) :=
  [true, false].flatMap fun on =>
  ([.stopped, .running, .paused, .restarting, .disabled] : List SvcState).flatMap fun op =>
  ([.good, .compromised] : List Health).flatMap fun h =>
  ([.good, .compromised] : List FHealth).flatMap fun f =>
  c17RecvPayloads.map fun (src, p) => (on, op, h, f, src, p)

def c17RecvDiff : List String :=
  c17RecvCells.filterMap fun (on, op, h, f, src, p) =>
    let s : Server := { node := { st := if on then .on else .off }, op := op, health := h, file := some f,
                        conns := [{ id := 0, owner := 0 }], nextId := 1 }
    let t := DatabaseTr.receive s src p.raw
    let m := s.receive src p
    if t = (m.1, RecvOut.ret m.2 m.2.isSome) then none
    else some s!"counter-model node-on={on} service={repr op} health={repr h} file={repr f} table=[0@0] from={src} payload={repr p}: translated answer={repr t.2} file={repr t.1.file} table-size={t.1.conns.length}; model answer={repr m.2} file={repr m.1.file} table-size={m.1.conns.length}"

#eval do
  for l in c17RecvDiff.take 12 do IO.println l
  IO.println s!"cells={c17RecvCells.length} differing={c17RecvDiff.length}"
