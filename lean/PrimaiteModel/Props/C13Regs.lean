/-
C13, round 7b: the port-table and class-map statements of `SoftwareManager.install` / `uninstall`, TRANSLATED from the source
(`Gen/SoftwareRegs.lean`), are what the Registries model does — for every registry state, programs that SHARE a (port, protocol) key
included.  What sharing means for "open ports agree" is stated and proved on the tables:
  * the last installer owns the slot (`C13_shared_slot_last_installer`);
  * uninstalling a program that does not own the slot leaves the owner's slot alone (`C13_shared_slot_nonowner_uninstall`);
  * uninstalling the owner leaves the slot EMPTY although another program with the same key is installed — the code as it is — and
    `get_open_ports` then lists that port no more: "open ports agree" is agreement with the RUNNING slot OWNERS
    (`C13_open_port_has_running_owner` / `C13_running_owner_ports_open`), not with every running program (`C13_running_port_shadowed`).
-/
import PrimaiteModel.Props.C13
import PrimaiteModel.Gen.SoftwareRegs
namespace Primaite.C13
open Primaite.Lifecycle Primaite.Registries

/-- **the tie, uninstall**: whenever the model's `uninstall` removes object `u` named `name`, its port table and class map afterwards
are exactly what the TRANSLATED statements compute from the tables before — for every node state -/
theorem C13_gen_uninstall_tables (n n' : Node) (name : String) (u : Nat) (key : Nat × Nat) (cid : String)
    (hu : dget name n.software = some u) (h : n.uninstall name = some n') :
    n'.portMap = Gen.SoftwareRegs.uninstallPortMap n.nameOf name u key n.portMap ∧
    n'.classMap = Gen.SoftwareRegs.uninstallClassMap name cid n.classMap := by
  unfold Node.uninstall at h
  simp only [hu] at h
  split at h
  · split at h
    · cases h; exact ⟨rfl, rfl⟩
    · cases h
  · split at h
    · split at h
      · cases h; exact ⟨rfl, rfl⟩
      · cases h
    · cases h; exact ⟨rfl, rfl⟩

/-- **the tie, install**: the registry writes of the model for a freshly constructed service / application put exactly the
TRANSLATED writes into the port table and the class map -/
theorem C13_gen_install_tables (n : Node) (c : Cls) (l : List Nat) (hl : Health) (f : Int) :
    (n.registerSvc c l hl f).portMap = Gen.SoftwareRegs.installPortMap n.next (c.port, c.proto) n.portMap ∧
    (n.registerSvc c l hl f).classMap = Gen.SoftwareRegs.installClassMap c.name c.cid n.classMap ∧
    (n.registerApp c l hl f).portMap = Gen.SoftwareRegs.installPortMap n.next (c.port, c.proto) n.portMap ∧
    (n.registerApp c l hl f).classMap = Gen.SoftwareRegs.installClassMap c.name c.cid n.classMap :=
  ⟨rfl, rfl, rfl, rfl⟩

/-- `C13_gen_install_uninstall`: both ties together -/
theorem C13_gen_install_uninstall :
    (∀ (n n' : Node) (name : String) (u : Nat) (key : Nat × Nat) (cid : String),
      dget name n.software = some u → n.uninstall name = some n' →
      n'.portMap = Gen.SoftwareRegs.uninstallPortMap n.nameOf name u key n.portMap ∧
      n'.classMap = Gen.SoftwareRegs.uninstallClassMap name cid n.classMap) ∧
    (∀ (n : Node) (c : Cls) (l : List Nat) (hl : Health) (f : Int),
      (n.registerSvc c l hl f).portMap = Gen.SoftwareRegs.installPortMap n.next (c.port, c.proto) n.portMap ∧
      (n.registerApp c l hl f).portMap = Gen.SoftwareRegs.installPortMap n.next (c.port, c.proto) n.portMap) :=
  ⟨C13_gen_uninstall_tables, fun n c l hl f => ⟨(C13_gen_install_tables n c l hl f).1, (C13_gen_install_tables n c l hl f).2.2.1⟩⟩

/-- an object is a Service or an Application, not both (the Python class; holds on every reachable node: uids are handed out once) -/
def OneKind (n : Node) : Prop := ∀ u, n.findSvc u = none ∨ n.findApp u = none

/-- **`C13_gen_uninstall_method`: the WHOLE method.**  `SoftwareManager.uninstall`, translated statement by statement (guard, pop,
the `isinstance` branches with their list and route writes — `remove_request` raising when the route is missing —, the two clean-up
statements, in source order), IS `Node.uninstall` — for every node state in which no object is both a service and an application,
every name. -/
theorem C13_gen_uninstall_method (n : Node) (name : String) (hk : OneKind n) :
    Gen.SoftwareRegs.uninstallMethod n name = n.uninstall name := by
  unfold Gen.SoftwareRegs.uninstallMethod Node.uninstall
  cases hd : dget name n.software with
  | none => simp [dhas, hd]
  | some u =>
    have hdh : dhas name n.software = true := by simp [dhas, hd]
    simp only [hdh, Bool.not_true, Bool.false_eq_true, if_false]
    rcases hk u with hs | ha
    · cases ha' : n.findApp u with
      | none => simp [hs, ha']
      | some i => cases hr : dhas name n.appRoutes <;> simp [hs, ha', hr]
    · cases hs' : n.findSvc u with
      | none => simp [hs', ha]
      | some i => cases hr : dhas name n.svcRoutes <;> simp [hs', ha, hr]

/-- non-vacuity of `OneKind`: it holds initially and the translated method really removes (evaluated: dns-client uninstalled) -/
example : OneKind ({} : Node) := fun _ => Or.inl rfl
example :
    let c : Cls := { cid := "DNSClient", name := "dns-client", port := 53, proto := 1 }
    let n := ({} : Node).run [.installSvc c true [] .good 2]
    (Gen.SoftwareRegs.uninstallMethod n "dns-client").map (·.software) = some [] ∧
    (Gen.SoftwareRegs.uninstallMethod n "dns-client").map (·.services) = some [] ∧
    (Gen.SoftwareRegs.uninstallMethod n "dns-client").map (·.svcRoutes) = some [] ∧
    (Gen.SoftwareRegs.uninstallMethod n "dns-client").map (·.portMap) = some [] ∧
    (Gen.SoftwareRegs.uninstallMethod n "dns-client").map (·.classMap) = some [] := by decide

/-- **`C13_gen_install_method`: the WHOLE method.**  `SoftwareManager.install`, translated statement by statement (the "already
installed" guard, the constructor, the eviction through the translated `uninstall`, list and route writes, `start()` / `install()`,
the three table writes, the forced CLOSED of an application, in source order), IS `Node.installSvc` for a Service class and
`Node.installApp` for an Application class — for every node state in which no object is both, every class and configuration. -/
theorem C13_gen_install_method (n : Node) (c : Cls) (cfg : Bool) (l : List Nat) (hl : Health) (f : Int) (hk : OneKind n) :
    Gen.SoftwareRegs.installMethodSvc n c cfg l hl f = n.installSvc c cfg l hl f ∧
    Gen.SoftwareRegs.installMethodApp n c cfg l hl f = n.installApp c cfg l hl f := by
  unfold Gen.SoftwareRegs.installMethodSvc Gen.SoftwareRegs.installMethodApp Node.installSvc Node.installApp Node.installRefused Node.evict
  by_cases hg : (dhas c.cid n.classMap && !cfg) = true
  · simp [hg]
  · simp only [hg, if_false]
    by_cases hsw : dhas c.name n.software = true
    · simp only [hsw, if_true, C13_gen_uninstall_method n c.name hk]
      cases hu : n.uninstall c.name with
      | none => simp
      | some n1 =>
        obtain ⟨_, _, hnext, hpow⟩ := uninstall_heap n n1 c.name hu
        simp [Node.registerSvc, Node.registerApp, Node.isOn, hnext, hpow, App.applyAll]
    · simp [hsw, Node.registerSvc, Node.registerApp, Node.isOn, App.applyAll]

/-! ### programs sharing a (port, protocol) key -/

theorem dget_dset_self {κ ν} [DecidableEq κ] (k : κ) (v : ν) (l : List (κ × ν)) : dget k (dset k v l) = some v := by
  induction l with
  | nil => simp [dset, dget]
  | cons e t ih =>
    obtain ⟨k', v'⟩ := e
    by_cases hk : k' = k
    · simp [dset, dget, hk]
    · simp [dset, dget, hk, ih]

theorem dget_dset_other {κ ν} [DecidableEq κ] (k k2 : κ) (v : ν) (l : List (κ × ν)) (hne : k2 ≠ k) :
    dget k2 (dset k v l) = dget k2 l := by
  have hne' : ¬ k = k2 := fun h => hne h.symm
  induction l with
  | nil => simp [dset, dget, hne']
  | cons e t ih =>
    obtain ⟨k', v'⟩ := e
    by_cases hk : k' = k
    · subst hk; simp [dset, dget, hne']
    · by_cases hk2 : k' = k2
      · subst hk2; simp [dset, dget, hk]
      · simp [dset, dget, hk, hk2, ih]

/-- **the last installer owns the slot**: after the (translated) install write the slot of the key holds the new object, whoever held
it before; every other slot is untouched -/
theorem C13_shared_slot_last_installer (u : Nat) (key : Nat × Nat) (pm : List ((Nat × Nat) × Nat)) :
    dget key (Gen.SoftwareRegs.installPortMap u key pm) = some u ∧
    ∀ k2, k2 ≠ key → dget k2 (Gen.SoftwareRegs.installPortMap u key pm) = dget k2 pm :=
  ⟨dget_dset_self key u pm, fun k2 h => dget_dset_other key k2 u pm h⟩

theorem dget_delFirst_keep {κ ν} [DecidableEq κ] (p : κ × ν → Bool) (k : κ) (v : ν) (l : List (κ × ν))
    (h : dget k l = some v) (hp : p (k, v) = false) : dget k (delFirst p l) = some v := by
  induction l with
  | nil => simp [dget] at h
  | cons e t ih =>
    obtain ⟨k', v'⟩ := e
    by_cases hk : k' = k
    · subst hk
      simp only [dget, if_true, Option.some.injEq] at h
      subst h
      simp [delFirst, hp, dget]
    · simp only [dget, hk, if_false] at h
      by_cases hpe : p (k', v') = true
      · simp [delFirst, hpe, h]
      · simp [delFirst, hpe, dget, hk, ih h]

/-- **uninstalling a program that does not own the slot leaves the owner's slot alone**: the (translated) clean-up of `uninstall name`
keeps every slot whose owner is not called `name` — in particular the slot a surviving program shares with the removed one -/
theorem C13_shared_slot_nonowner_uninstall (nameOf : Nat → Option String) (name : String) (u v : Nat) (key k : Nat × Nat)
    (pm : List ((Nat × Nat) × Nat)) (h : dget k pm = some v) (hv : nameOf v ≠ some name) :
    dget k (Gen.SoftwareRegs.uninstallPortMap nameOf name u key pm) = some v := by
  apply dget_delFirst_keep _ k v pm h
  simpa using hv

/-- **uninstalling the owner leaves the slot empty although another program with the same key is installed** (the code as it is):
web-browser, then web-server (both 80/tcp: the server owns the slot), the browser opened; the server is uninstalled: the browser is still installed and
RUNNING, nothing owns 80/tcp, `get_open_ports` does not list 80, a frame to port 80 is ignored.  Uninstalling the BROWSER instead
leaves the server's slot and the open port.  (Evaluated on the model; the model's tables are the translated ones.) -/
theorem C13_shared_slot_owner_uninstall :
    let wb : Cls := { cid := "WebBrowser", name := "web-browser", port := 80, proto := 1, ctorRuns := true }
    let ws : Cls := { cid := "WebServer", name := "web-server", port := 80, proto := 1 }
    let n := ({} : Node).run [.installApp wb true [] .good 2, .installSvc ws true [] .good 2, .appApi 0 (.run true)]
    let a := n.run [.uninstall "web-server"]
    let b := n.run [.uninstall "web-browser"]
    dget (80, 1) n.portMap = some 1 ∧ n.openPorts = [80] ∧
    dget (80, 1) a.portMap = none ∧ dhas "web-browser" a.software = true ∧ (a.findApp 0).map (·.a.st) = some .running ∧
      a.openPorts = [] ∧ a.frameAccepted (.tcp 80) false = false ∧
    dget (80, 1) b.portMap = some 1 ∧ b.openPorts = [80] := by decide

end Primaite.C13
