/-
C13, round 7b: the port-table and class-map statements of `SoftwareManager.install` / `uninstall`, TRANSLATED from the source
(`Gen/SoftwareRegs.lean`), are what the Registries model does — for every registry state, programs that SHARE a (port, protocol) key
included.  What sharing means for "open ports agree" is stated and proved on the tables:
  * the last installer owns the slot (`C13_shared_slot_last_installer`);
  * uninstalling a program that does not own the slot leaves the owner's slot alone (`C13_shared_slot_nonowner_uninstall`);
  * uninstalling the owner leaves the slot EMPTY although another program with the same key is installed — the code as it is — and
    `get_open_ports` then lists that port no more: "open ports agree" is agreement with the RUNNING slot OWNERS
    (`C13_open_port_has_running_owner` / `C13_running_owner_ports_open`), not with every running program (`C13_running_port_shadowed`).
-/
import PrimaiteModel.Props.C13
import PrimaiteModel.Gen.SoftwareRegs
namespace Primaite.C13
open Primaite.Lifecycle Primaite.Registries

/-- **the tie, uninstall**: whenever the model's `uninstall` removes object `u` named `name`, its port table and class map afterwards
are exactly what the TRANSLATED statements compute from the tables before — for every node state -/
theorem C13_gen_uninstall_tables (n n' : Node) (name : String) (u : Nat) (key : Nat × Nat) (cid : String)
    (hu : dget name n.software = some u) (h : n.uninstall name = some n') :
    n'.portMap = Gen.SoftwareRegs.uninstallPortMap n.nameOf name u key n.portMap ∧
    n'.classMap = Gen.SoftwareRegs.uninstallClassMap name cid n.classMap := by
  unfold Node.uninstall at h
  simp only [hu] at h
  split at h
  · split at h
    · cases h; exact ⟨rfl, rfl⟩
    · cases h
  · split at h
    · split at h
      · cases h; exact ⟨rfl, rfl⟩
      · cases h
    · cases h; exact ⟨rfl, rfl⟩

/-- **the tie, install**: the registry writes of the model for a freshly constructed service / application put exactly the
TRANSLATED writes into the port table and the class map -/
theorem C13_gen_install_tables (n : Node) (c : Cls) (l : List Nat) (hl : Health) (f : Int) :
    (n.registerSvc c l hl f).portMap = Gen.SoftwareRegs.installPortMap n.next (c.port, c.proto) n.portMap ∧
    (n.registerSvc c l hl f).classMap = Gen.SoftwareRegs.installClassMap c.name c.cid n.classMap ∧
    (n.registerApp c l hl f).portMap = Gen.SoftwareRegs.installPortMap n.next (c.port, c.proto) n.portMap ∧
    (n.registerApp c l hl f).classMap = Gen.SoftwareRegs.installClassMap c.name c.cid n.classMap :=
  ⟨rfl, rfl, rfl, rfl⟩

/-- `C13_gen_install_uninstall`: both ties together -/
theorem C13_gen_install_uninstall :
    (∀ (n n' : Node) (name : String) (u : Nat) (key : Nat × Nat) (cid : String),
      dget name n.software = some u → n.uninstall name = some n' →
      n'.portMap = Gen.SoftwareRegs.uninstallPortMap n.nameOf name u key n.portMap ∧
      n'.classMap = Gen.SoftwareRegs.uninstallClassMap name cid n.classMap) ∧
    (∀ (n : Node) (c : Cls) (l : List Nat) (hl : Health) (f : Int),
      (n.registerSvc c l hl f).portMap = Gen.SoftwareRegs.installPortMap n.next (c.port, c.proto) n.portMap ∧
      (n.registerApp c l hl f).portMap = Gen.SoftwareRegs.installPortMap n.next (c.port, c.proto) n.portMap) :=
  ⟨C13_gen_uninstall_tables, fun n c l hl f => ⟨(C13_gen_install_tables n c l hl f).1, (C13_gen_install_tables n c l hl f).2.2.1⟩⟩

/-! ### the invariant of the registries (every node reachable by `step` from a node without software)

`RegWF n`: uids of the objects in both heaps are below the counter `next` (handed out once), no uid is in both heaps (an object is a
Service or an Application — the Python class), and every entry of `software` is stored under ITS OBJECT's name (`install` writes
`self.software[software.name] = software`).  Proved for the empty registries and preserved by EVERY model operation; the two
whole-method ties below therefore need no hypothesis on reachable nodes. -/

def sm (n : Node) : List Meta := n.svcs.map (·.m)
def am (n : Node) : List Meta := n.apps.map (·.m)
def lookM (l : List Meta) (u : Nat) : Option Meta := l.find? (fun m => m.uid == u)

theorem findSvc_meta (n : Node) (u : Nat) : (n.findSvc u).map (·.m) = lookM (sm n) u := by
  simp only [Node.findSvc, lookM, sm, List.find?_map]; rfl

theorem findApp_meta (n : Node) (u : Nat) : (n.findApp u).map (·.m) = lookM (am n) u := by
  simp only [Node.findApp, lookM, am, List.find?_map]; rfl

theorem metaOf_eq (n : Node) (u : Nat) : n.metaOf u = (lookM (sm n) u).or (lookM (am n) u) := by
  unfold Node.metaOf
  rw [← findSvc_meta, ← findApp_meta]
  cases n.findSvc u <;> simp

theorem lookM_none_of_lt (l : List Meta) (k : Nat) (h : ∀ m ∈ l, m.uid < k) : lookM l k = none := by
  unfold lookM
  rw [List.find?_eq_none]
  intro m hm
  have := h m hm
  simp; omega

theorem lookM_some (l : List Meta) (u : Nat) (m : Meta) (h : lookM l u = some m) : m ∈ l ∧ m.uid = u := by
  unfold lookM at h
  refine ⟨List.mem_of_find?_eq_some h, ?_⟩
  have := List.find?_some h
  simpa using this

theorem lookM_append (l : List Meta) (x : Meta) (u : Nat) :
    lookM (l ++ [x]) u = (lookM l u).or (if x.uid = u then some x else none) := by
  unfold lookM
  rw [List.find?_append]
  by_cases hx : x.uid = u <;> simp [List.find?_cons, hx]

/-- an object is a Service or an Application, not both (the Python class) -/
def OneKind (n : Node) : Prop := ∀ u, n.findSvc u = none ∨ n.findApp u = none

/-- every entry of `software` is stored under its object's name: `software.name == software_name` for the popped object -/
def Named (n : Node) : Prop := ∀ name u, dget name n.software = some u → n.nameOf u = some name

structure RegWF (n : Node) : Prop where
  svcLt : ∀ m ∈ sm n, m.uid < n.next
  appLt : ∀ m ∈ am n, m.uid < n.next
  disj : ∀ m ∈ sm n, ∀ m' ∈ am n, m.uid ≠ m'.uid
  named : ∀ e ∈ n.software, ((lookM (sm n) e.2).or (lookM (am n) e.2)).map (·.cls.name) = some e.1

theorem dget_mem_pair {κ ν} [DecidableEq κ] (k : κ) (v : ν) (l : List (κ × ν)) (h : dget k l = some v) : (k, v) ∈ l := by
  induction l with
  | nil => simp [dget] at h
  | cons e t ih =>
    obtain ⟨k', v'⟩ := e
    by_cases hk : k' = k
    · simp only [dget, hk, if_true, Option.some.injEq] at h; subst hk; subst h; exact List.mem_cons_self
    · simp only [dget, hk, if_false] at h; exact List.mem_cons_of_mem _ (ih h)

theorem mem_dset_cases {κ ν} [DecidableEq κ] (k : κ) (v : ν) (l : List (κ × ν)) (e : κ × ν) (h : e ∈ dset k v l) :
    e = (k, v) ∨ e ∈ l := by
  induction l with
  | nil => simp [dset] at h; exact Or.inl h
  | cons e' t ih =>
    obtain ⟨k', v'⟩ := e'
    by_cases hk : k' = k
    · simp only [dset, hk, if_true, List.mem_cons] at h
      rcases h with h | h
      · exact Or.inl h
      · exact Or.inr (List.mem_cons_of_mem _ h)
    · simp only [dset, hk, if_false, List.mem_cons] at h
      rcases h with h | h
      · exact Or.inr (h ▸ List.mem_cons_self)
      · rcases ih h with h | h
        · exact Or.inl h
        · exact Or.inr (List.mem_cons_of_mem _ h)

theorem mem_ddel_sub {κ ν} [DecidableEq κ] (k : κ) (l : List (κ × ν)) (e : κ × ν) (h : e ∈ ddel k l) : e ∈ l := by
  induction l with
  | nil => simp [ddel] at h
  | cons e' t ih =>
    obtain ⟨k', v'⟩ := e'
    by_cases hk : k' = k
    · simp only [ddel, hk, if_true] at h; exact List.mem_cons_of_mem _ h
    · simp only [ddel, hk, if_false, List.mem_cons] at h
      rcases h with h | h
      · exact h ▸ List.mem_cons_self
      · exact List.mem_cons_of_mem _ (ih h)

/-- `RegWF` gives the two facts the whole-method ties need -/
theorem RegWF.oneKind {n : Node} (h : RegWF n) : OneKind n := by
  intro u
  cases hs : n.findSvc u with
  | none => exact Or.inl rfl
  | some i =>
    cases ha : n.findApp u with
    | none => exact Or.inr rfl
    | some j =>
      exfalso
      have h1 := findSvc_meta n u
      have h2 := findApp_meta n u
      rw [hs] at h1; rw [ha] at h2
      obtain ⟨m1, e1⟩ := lookM_some _ _ _ h1.symm
      obtain ⟨m2, e2⟩ := lookM_some _ _ _ h2.symm
      exact h.disj _ m1 _ m2 (e1.trans e2.symm)

theorem RegWF.isNamed {n : Node} (h : RegWF n) : Named n := by
  intro name u hd
  have := h.named (name, u) (dget_mem_pair name u n.software hd)
  simpa [Node.nameOf, metaOf_eq] using this

/-- registries without software are well-formed (whatever the power state and durations) -/
theorem C13_regwf_empty (n : Node) (hs : n.svcs = []) (ha : n.apps = []) (hw : n.software = []) : RegWF n := by
  refine ⟨?_, ?_, ?_, ?_⟩ <;> simp [sm, am, hs, ha, hw]

/-- an operation that keeps the objects' identities (their `Meta`) and the counter, and adds nothing to `software`, keeps `RegWF` -/
theorem RegWF.same {n n' : Node} (h : RegWF n) (hs : sm n' = sm n) (ha : am n' = am n) (hn : n'.next = n.next)
    (hw : ∀ e ∈ n'.software, e ∈ n.software) : RegWF n' := by
  refine ⟨?_, ?_, ?_, ?_⟩
  · rw [hs, hn]; exact h.svcLt
  · rw [ha, hn]; exact h.appLt
  · rw [hs, ha]; exact h.disj
  · rw [hs, ha]; exact fun e he => h.named e (hw e he)

theorem RegWF.registerSvc {n : Node} (h : RegWF n) (c : Cls) (l : List Nat) (hl : Health) (f : Int) : RegWF (n.registerSvc c l hl f) := by
  have hsm : sm (n.registerSvc c l hl f) = sm n ++ [⟨n.next, c, l⟩] := by simp [sm, Node.registerSvc]
  have ham : am (n.registerSvc c l hl f) = am n := rfl
  have hnx : (n.registerSvc c l hl f).next = n.next + 1 := rfl
  have hsw : (n.registerSvc c l hl f).software = dset c.name n.next n.software := rfl
  refine ⟨?_, ?_, ?_, ?_⟩
  · rw [hsm, hnx]; intro m hm
    rcases List.mem_append.1 hm with h1 | h1
    · have := h.svcLt m h1; omega
    · simp at h1; subst h1; simp
  · rw [ham, hnx]; intro m hm; have := h.appLt m hm; omega
  · rw [hsm, ham]; intro m hm m' hm'
    rcases List.mem_append.1 hm with h1 | h1
    · exact h.disj m h1 m' hm'
    · simp at h1; subst h1; have := h.appLt m' hm'; simp; omega
  · rw [hsm, ham, hsw]; intro e he
    rcases mem_dset_cases _ _ _ _ he with he' | he'
    · subst he'
      simp [lookM_append, lookM_none_of_lt _ _ h.svcLt]
    · have hold := h.named e he'
      rw [lookM_append]
      cases hs : lookM (sm n) e.2 with
      | some m => simpa [hs] using hold
      | none =>
        cases ha : lookM (am n) e.2 with
        | none => simp [hs, ha] at hold
        | some m' =>
          obtain ⟨hm', hu⟩ := lookM_some _ _ _ ha
          have := h.appLt m' hm'
          have hne : ¬ n.next = e.2 := by omega
          simp [hs, ha, hne] at hold ⊢; exact hold

theorem RegWF.registerApp {n : Node} (h : RegWF n) (c : Cls) (l : List Nat) (hl : Health) (f : Int) : RegWF (n.registerApp c l hl f) := by
  have hsm : sm (n.registerApp c l hl f) = sm n := rfl
  have ham : am (n.registerApp c l hl f) = am n ++ [⟨n.next, c, l⟩] := by simp [am, Node.registerApp]
  have hnx : (n.registerApp c l hl f).next = n.next + 1 := rfl
  have hsw : (n.registerApp c l hl f).software = dset c.name n.next n.software := rfl
  refine ⟨?_, ?_, ?_, ?_⟩
  · rw [hsm, hnx]; intro m hm; have := h.svcLt m hm; omega
  · rw [ham, hnx]; intro m hm
    rcases List.mem_append.1 hm with h1 | h1
    · have := h.appLt m h1; omega
    · simp at h1; subst h1; simp
  · rw [hsm, ham]; intro m hm m' hm'
    rcases List.mem_append.1 hm' with h1 | h1
    · exact h.disj m hm m' h1
    · simp at h1; subst h1; have := h.svcLt m hm; simp; omega
  · rw [hsm, ham, hsw]; intro e he
    rcases mem_dset_cases _ _ _ _ he with he' | he'
    · subst he'
      simp [lookM_append, lookM_none_of_lt _ _ h.svcLt, lookM_none_of_lt _ _ h.appLt]
    · have hold := h.named e he'
      rw [lookM_append]
      cases hs : lookM (sm n) e.2 with
      | some m => simpa [hs] using hold
      | none =>
        cases ha : lookM (am n) e.2 with
        | none => simp [hs, ha] at hold
        | some m' => simpa [hs, ha] using hold

theorem RegWF.uninstall {n n' : Node} (h : RegWF n) (name : String) (hu : n.uninstall name = some n') : RegWF n' := by
  obtain ⟨h1, h2, h3, _⟩ := uninstall_heap n n' name hu
  refine h.same (by simp [sm, h1]) (by simp [am, h2]) h3 ?_
  unfold Node.uninstall at hu
  split at hu
  · cases hu; exact fun e he => he
  · split at hu
    · split at hu
      · cases hu; exact fun e he => mem_ddel_sub _ _ e he
      · cases hu
    · split at hu
      · split at hu
        · cases hu; exact fun e he => mem_ddel_sub _ _ e he
        · cases hu
      · cases hu; exact fun e he => mem_ddel_sub _ _ e he

theorem RegWF.evict {n n1 : Node} (h : RegWF n) (name : String) (he : n.evict name = some n1) : RegWF n1 := by
  unfold Node.evict at he
  split at he
  · exact h.uninstall name he
  · cases he; exact h

theorem RegWF.installSvc {n n' : Node} (h : RegWF n) (c : Cls) (cfg : Bool) (l : List Nat) (hl : Health) (f : Int)
    (hi : n.installSvc c cfg l hl f = some n') : RegWF n' := by
  unfold Node.installSvc at hi
  split at hi
  · cases hi; exact h
  · cases he : n.evict c.name with
    | none => simp [he] at hi
    | some n1 =>
      simp only [he, Option.map_some, Option.some.injEq] at hi
      subst hi
      exact (h.evict c.name he).registerSvc c l hl f

theorem RegWF.installApp {n n' : Node} (h : RegWF n) (c : Cls) (cfg : Bool) (l : List Nat) (hl : Health) (f : Int)
    (hi : n.installApp c cfg l hl f = some n') : RegWF n' := by
  unfold Node.installApp at hi
  split at hi
  · cases hi; exact h
  · cases he : n.evict c.name with
    | none => simp [he] at hi
    | some n1 =>
      simp only [he, Option.map_some, Option.some.injEq] at hi
      subst hi
      exact (h.evict c.name he).registerApp c l hl f

theorem RegWF.deliverEvs {n : Node} (h : RegWF n) (op : Op) : RegWF (n.deliverEvs op) :=
  h.same (by simp [sm, Node.deliverEvs, List.map_map, Function.comp_def])
    (by simp [am, Node.deliverEvs, List.map_map, Function.comp_def]) rfl (fun _ he => he)

/-- changing only the power state and its countdowns keeps `RegWF` -/
theorem RegWF.power {n : Node} (h : RegWF n) (p : Power) (up down : Int) : RegWF { n with power := p, upCd := up, downCd := down } :=
  h.same rfl rfl rfl (fun _ he => he)

/-- **`C13_regwf_step`: every model operation preserves the invariant** (all 18 operations, the raising ones included) -/
theorem C13_regwf_step (n : Node) (op : Op) (h : RegWF n) : RegWF (n.step op).1 := by
  cases op with
  | installSvc c cfg l hl f =>
    simp only [Node.step]
    cases hi : n.installSvc c cfg l hl f with
    | none => exact h
    | some n' => exact h.installSvc c cfg l hl f hi
  | installApp c cfg l hl f =>
    simp only [Node.step]
    cases hi : n.installApp c cfg l hl f with
    | none => exact h
    | some n' => exact h.installApp c cfg l hl f hi
  | uninstall name =>
    simp only [Node.step]
    cases hu : n.uninstall name with
    | none => exact h
    | some n' => exact h.uninstall name hu
  | reqInstall name c =>
    simp only [Node.step]
    split
    · exact h
    · split
      · exact h
      · cases c with
        | none => exact h
        | some cl =>
          obtain ⟨c, l⟩ := cl
          cases hi : n.installApp c false l .good 2 with
          | none => simp only [hi]; exact h
          | some n1 =>
            have h1 := h.installApp c false l .good 2 hi
            simp only [hi]
            split
            · exact h1.same rfl (by simp [am, List.map_map, Function.comp_def]) rfl (fun _ he => he)
            · exact h1
  | reqUninstall name =>
    simp only [Node.step]
    split
    · exact h
    · split
      · exact h
      · cases hu : n.uninstall name with
        | none => exact h
        | some n' => exact h.uninstall name hu
  | svcReq name r => exact h.deliverEvs _
  | appReq name r => exact h.deliverEvs _
  | svcApi v e => simp only [Node.step]; split <;> (try split) <;> first | exact h | exact h.deliverEvs _
  | appApi v e => simp only [Node.step]; split <;> (try split) <;> first | exact h | exact h.deliverEvs _
  | tick =>
    simp only [Node.step]
    split
    · exact h
    · exact (h.deliverEvs _).same rfl rfl rfl (fun _ he => he)
  | powerOn =>
    simp only [Node.step]
    (repeat' split) <;> first | exact h | exact (h.deliverEvs _).same rfl rfl rfl (fun _ he => he) | exact h.same rfl rfl rfl (fun _ he => he)
  | powerOff =>
    simp only [Node.step]
    (repeat' split) <;> first | exact h | exact (h.deliverEvs _).same rfl rfl rfl (fun _ he => he) | exact h.same rfl rfl rfl (fun _ he => he)
  | reqStartup =>
    simp only [Node.step]
    (repeat' split) <;> first | exact h | exact (h.deliverEvs _).same rfl rfl rfl (fun _ he => he) | exact h.same rfl rfl rfl (fun _ he => he)
  | reqShutdown =>
    simp only [Node.step]
    (repeat' split) <;> first | exact h | exact (h.deliverEvs _).same rfl rfl rfl (fun _ he => he) | exact h.same rfl rfl rfl (fun _ he => he)
  | deliver p pr sc => exact h
  | frame hd sc => simp only [Node.step]; split <;> exact h
  | send v => simp only [Node.step]; split <;> exact h

/-- **`C13_regwf_run`: the invariant holds after every operation sequence** -/
theorem C13_regwf_run (ops : List Op) (n : Node) (h : RegWF n) : RegWF (n.run ops) := by
  induction ops generalizing n with
  | nil => exact h
  | cons op ops ih => exact ih _ (C13_regwf_step n op h)

/-- **`C13_regwf_named`**: on every node reachable from registries without software, whatever the power state and durations, every
sequence of operations: the object stored under a key of `software` carries that key as its name (`software.name == software_name`
for the object `uninstall` pops), and no object is both a Service and an Application -/
theorem C13_regwf_named (n0 : Node) (hs : n0.svcs = []) (ha : n0.apps = []) (hw : n0.software = []) (ops : List Op) :
    OneKind (n0.run ops) ∧ Named (n0.run ops) :=
  let h := C13_regwf_run ops n0 (C13_regwf_empty n0 hs ha hw)
  ⟨h.oneKind, h.isNamed⟩

/-- **`C13_gen_uninstall_method`: the WHOLE method.**  `SoftwareManager.uninstall`, translated statement by statement (guard, pop,
the `isinstance` branches with their list and route writes — `remove_request(software.name)` with the popped object's OWN name,
raising when the route is missing —, the two clean-up statements, in source order), IS `Node.uninstall` — for every node state
satisfying the invariant, every name. -/
theorem C13_gen_uninstall_method (n : Node) (name : String) (hk : OneKind n) (hn : Named n) :
    Gen.SoftwareRegs.uninstallMethod n name = n.uninstall name := by
  unfold Gen.SoftwareRegs.uninstallMethod Node.uninstall
  cases hd : dget name n.software with
  | none => simp [dhas, hd]
  | some u =>
    have hdh : dhas name n.software = true := by simp [dhas, hd]
    have hnm : (n.nameOf u).getD "" = name := by rw [hn name u hd]; rfl
    simp only [hdh, Bool.not_true, Bool.false_eq_true, if_false, hnm]
    rcases hk u with hs | ha
    · cases ha' : n.findApp u with
      | none => simp [hs, ha']
      | some i => cases hr : dhas name n.appRoutes <;> simp [hs, ha', hr]
    · cases hs' : n.findSvc u with
      | none => simp [hs', ha]
      | some i => cases hr : dhas name n.svcRoutes <;> simp [hs', ha, hr]

/-- non-vacuity: the translated method really removes (evaluated: dns-client uninstalled) -/
example : RegWF ({} : Node) := C13_regwf_empty _ rfl rfl rfl
example :
    let c : Cls := { cid := "DNSClient", name := "dns-client", port := 53, proto := 1 }
    let n := ({} : Node).run [.installSvc c true [] .good 2]
    (Gen.SoftwareRegs.uninstallMethod n "dns-client").map (·.software) = some [] ∧
    (Gen.SoftwareRegs.uninstallMethod n "dns-client").map (·.services) = some [] ∧
    (Gen.SoftwareRegs.uninstallMethod n "dns-client").map (·.svcRoutes) = some [] ∧
    (Gen.SoftwareRegs.uninstallMethod n "dns-client").map (·.portMap) = some [] ∧
    (Gen.SoftwareRegs.uninstallMethod n "dns-client").map (·.classMap) = some [] := by decide

/-- **`C13_gen_install_method`: the WHOLE method.**  `SoftwareManager.install`, translated statement by statement (the "already
installed" guard, the constructor, the eviction through the translated `uninstall`, list and route writes, `start()` / `install()`,
the three table writes, the forced CLOSED of an application, in source order), IS `Node.installSvc` for a Service class and
`Node.installApp` for an Application class — for every node state satisfying the invariant, every class and configuration. -/
theorem C13_gen_install_method (n : Node) (c : Cls) (cfg : Bool) (l : List Nat) (hl : Health) (f : Int) (hk : OneKind n) (hn : Named n) :
    Gen.SoftwareRegs.installMethodSvc n c cfg l hl f = n.installSvc c cfg l hl f ∧
    Gen.SoftwareRegs.installMethodApp n c cfg l hl f = n.installApp c cfg l hl f := by
  unfold Gen.SoftwareRegs.installMethodSvc Gen.SoftwareRegs.installMethodApp Node.installSvc Node.installApp Node.installRefused Node.evict
  by_cases hg : (dhas c.cid n.classMap && !cfg) = true
  · simp [hg]
  · simp only [hg, if_false]
    by_cases hsw : dhas c.name n.software = true
    · simp only [hsw, if_true, C13_gen_uninstall_method n c.name hk hn]
      cases hu : n.uninstall c.name with
      | none => simp
      | some n1 =>
        obtain ⟨_, _, hnext, hpow⟩ := uninstall_heap n n1 c.name hu
        simp [Node.registerSvc, Node.registerApp, Node.isOn, hnext, hpow, App.applyAll]
    · simp [hsw, Node.registerSvc, Node.registerApp, Node.isOn, App.applyAll]

/-- **`C13_gen_methods_reachable`: the two whole-method ties WITHOUT hypothesis on reachable nodes.**  Start from any registries
without software (any power state, any durations), apply any sequence of model operations: on the node reached, the translated
`SoftwareManager.uninstall` is `Node.uninstall` for every name, and the translated `SoftwareManager.install` is `Node.installSvc` /
`Node.installApp` for every class, configuration flag, listen list, health and fixing duration. -/
theorem C13_gen_methods_reachable (n0 : Node) (hs : n0.svcs = []) (ha : n0.apps = []) (hw : n0.software = []) (ops : List Op) :
    (∀ name, Gen.SoftwareRegs.uninstallMethod (n0.run ops) name = (n0.run ops).uninstall name) ∧
    (∀ c cfg l hl f, Gen.SoftwareRegs.installMethodSvc (n0.run ops) c cfg l hl f = (n0.run ops).installSvc c cfg l hl f ∧
                     Gen.SoftwareRegs.installMethodApp (n0.run ops) c cfg l hl f = (n0.run ops).installApp c cfg l hl f) :=
  let h := C13_regwf_named n0 hs ha hw ops
  ⟨fun name => C13_gen_uninstall_method _ name h.1 h.2, fun c cfg l hl f => C13_gen_install_method _ c cfg l hl f h.1 h.2⟩

/-! ### programs sharing a (port, protocol) key -/

theorem dget_dset_self {κ ν} [DecidableEq κ] (k : κ) (v : ν) (l : List (κ × ν)) : dget k (dset k v l) = some v := by
  induction l with
  | nil => simp [dset, dget]
  | cons e t ih =>
    obtain ⟨k', v'⟩ := e
    by_cases hk : k' = k
    · simp [dset, dget, hk]
    · simp [dset, dget, hk, ih]

theorem dget_dset_other {κ ν} [DecidableEq κ] (k k2 : κ) (v : ν) (l : List (κ × ν)) (hne : k2 ≠ k) :
    dget k2 (dset k v l) = dget k2 l := by
  have hne' : ¬ k = k2 := fun h => hne h.symm
  induction l with
  | nil => simp [dset, dget, hne']
  | cons e t ih =>
    obtain ⟨k', v'⟩ := e
    by_cases hk : k' = k
    · subst hk; simp [dset, dget, hne']
    · by_cases hk2 : k' = k2
      · subst hk2; simp [dset, dget, hk]
      · simp [dset, dget, hk, hk2, ih]

/-- **the last installer owns the slot**: after the (translated) install write the slot of the key holds the new object, whoever held
it before; every other slot is untouched -/
theorem C13_shared_slot_last_installer (u : Nat) (key : Nat × Nat) (pm : List ((Nat × Nat) × Nat)) :
    dget key (Gen.SoftwareRegs.installPortMap u key pm) = some u ∧
    ∀ k2, k2 ≠ key → dget k2 (Gen.SoftwareRegs.installPortMap u key pm) = dget k2 pm :=
  ⟨dget_dset_self key u pm, fun k2 h => dget_dset_other key k2 u pm h⟩

theorem dget_delFirst_keep {κ ν} [DecidableEq κ] (p : κ × ν → Bool) (k : κ) (v : ν) (l : List (κ × ν))
    (h : dget k l = some v) (hp : p (k, v) = false) : dget k (delFirst p l) = some v := by
  induction l with
  | nil => simp [dget] at h
  | cons e t ih =>
    obtain ⟨k', v'⟩ := e
    by_cases hk : k' = k
    · subst hk
      simp only [dget, if_true, Option.some.injEq] at h
      subst h
      simp [delFirst, hp, dget]
    · simp only [dget, hk, if_false] at h
      by_cases hpe : p (k', v') = true
      · simp [delFirst, hpe, h]
      · simp [delFirst, hpe, dget, hk, ih h]

/-- **uninstalling a program that does not own the slot leaves the owner's slot alone**: the (translated) clean-up of `uninstall name`
keeps every slot whose owner is not called `name` — in particular the slot a surviving program shares with the removed one -/
theorem C13_shared_slot_nonowner_uninstall (nameOf : Nat → Option String) (name : String) (u v : Nat) (key k : Nat × Nat)
    (pm : List ((Nat × Nat) × Nat)) (h : dget k pm = some v) (hv : nameOf v ≠ some name) :
    dget k (Gen.SoftwareRegs.uninstallPortMap nameOf name u key pm) = some v := by
  apply dget_delFirst_keep _ k v pm h
  simpa using hv

/-- **uninstalling the owner leaves the slot empty although another program with the same key is installed** (the code as it is):
web-browser, then web-server (both 80/tcp: the server owns the slot), the browser opened; the server is uninstalled: the browser is still installed and
RUNNING, nothing owns 80/tcp, `get_open_ports` does not list 80, a frame to port 80 is ignored.  Uninstalling the BROWSER instead
leaves the server's slot and the open port.  (Evaluated on the model; the model's tables are the translated ones.) -/
theorem C13_shared_slot_owner_uninstall :
    let wb : Cls := { cid := "WebBrowser", name := "web-browser", port := 80, proto := 1, ctorRuns := true }
    let ws : Cls := { cid := "WebServer", name := "web-server", port := 80, proto := 1 }
    let n := ({} : Node).run [.installApp wb true [] .good 2, .installSvc ws true [] .good 2, .appApi 0 (.run true)]
    let a := n.run [.uninstall "web-server"]
    let b := n.run [.uninstall "web-browser"]
    dget (80, 1) n.portMap = some 1 ∧ n.openPorts = [80] ∧
    dget (80, 1) a.portMap = none ∧ dhas "web-browser" a.software = true ∧ (a.findApp 0).map (·.a.st) = some .running ∧
      a.openPorts = [] ∧ a.frameAccepted (.tcp 80) false = false ∧
    dget (80, 1) b.portMap = some 1 ∧ b.openPorts = [80] := by decide

end Primaite.C13
