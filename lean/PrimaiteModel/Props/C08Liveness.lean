/-
C08, part 4 — liveness on warm paths: a permitted ping, and a permitted service request / reply, between two hosts joined
by paths of any number of switches (tables learned), routers and firewalls (caches warm, every verdict permitting) succeed
(`Model/Forward.lean`).  PARTIAL with respect to the property's liveness clause: caches and switch tables are assumed warm
and hosts single-NIC.  The cold path (the ARP exchanges nested in the first ping) is validated against the implementation
by R-net (oracle (d)) and shown by evaluation on concrete networks below, not proved in general.
-/
import PrimaiteModel.Props.C08Addressee
import PrimaiteModel.Props.C08Forward
namespace Primaite.Forward
open Primaite.Route (findBestRoute)

theorem modNode_id (st : St) (n : Nat) (f : Node → Node) (h : ∀ nd, st.node? n = some nd → f nd = nd) :
    st.modNode n f = st := by
  unfold St.modNode
  have : st.nodes.modify n f = st.nodes := by
    apply List.ext_getElem?
    intro k
    simp only [List.getElem?_modify]
    split
    · rename_i hk
      subst hk
      cases hn : st.nodes[n]? with
      | none => simp
      | some nd => simp [h nd (by unfold St.node?; exact hn)]
    · simp
  rw [this]

theorem addArp_known (nd : Node) (ip : Ip) (mac : Mac) (i : Nat) (e : ArpEntry) (h : nd.arpGet ip = some e) :
    nd.addArp ip mac i = nd := by
  unfold Node.addArp
  split
  · rfl
  · simp [h]

/-- what a warm router needs to pass an ICMP frame `src → dst` arriving on interface `i` for MAC `inMac` on to
interface `(m, j)` with destination MAC `e.mac`. `viaRoute = true`: off-link, along `find_best_route`; `false`: the
destination is on-link and cached. -/
structure Hop (N : List Node) (pl : Pl) (src dst : Ip) (n i : Nat) (inMac : Mac) (m j : Nat) (outSrc outDst : Mac) : Prop where
  node : ∃ nd ifc es e oif pif, N[n]? = some nd ∧ nd.kind = .router ∧ transitOk nd i pl dst = true ∧ nd.ifaces[i]? = some ifc ∧
    ifc.mac = inMac ∧ nd.arpGet src = some es ∧ ifaceWithIp nd.ifaces dst = none ∧
    ((nd.arpGet dst = none ∧ firstIn nd.ifaces dst 0 = none ∧ (findBestRoute nd.routes dst).nextHop? = some e.ip ∧
        findBestRoute nd.routes dst ≠ .raised ∧ nd.arpGet e.ip = some e ∧ oif.inNet dst = false) ∨
     (nd.arpGet dst = some e ∧ oif.inNet dst = true) ∨
     -- the destination is remote but cached (learned from an earlier frame it sent through a neighbour)
     (∃ ed oif0, nd.arpGet dst = some ed ∧ nd.ifaces[ed.ifc]? = some oif0 ∧ oif0.enabled = true ∧ oif0.inNet dst = false ∧
        (findBestRoute nd.routes dst).nextHop? = some e.ip ∧ findBestRoute nd.routes dst ≠ .raised ∧
        nd.arpGet e.ip = some e ∧ oif.inNet dst = false)) ∧
    nd.ifaces[e.ifc]? = some oif ∧ oif.enabled = true ∧ oif.peer = some (m, j) ∧
    (N[m]?).bind (·.ifaces[j]?) = some pif ∧ pif.enabled = true ∧ outSrc = oif.mac ∧ outDst = e.mac


/-- a router that has the (remote) destination in its cache — learned from a frame the destination sent earlier through a
neighbour — still forwards along the route `find_best_route` returns, to the cached MAC of that route's next hop. -/
theorem router_forward_cached (fuel : Nat) (st : St) (n i : Nat) (f : Frame) (nd : Node) (ed e : ArpEntry) (oif0 oif : Iface)
    (hn : st.node? n = some nd) (hb : (f.dstMac == bcastMac) = false)
    (hed : nd.arpGet f.dstIp = some ed) (hif0 : st.iface? n ed.ifc = some oif0) (hen0 : oif0.enabled = true)
    (hnot0 : oif0.inNet f.dstIp = false)
    (hnh : (findBestRoute nd.routes f.dstIp).nextHop? = some e.ip) (hnr : findBestRoute nd.routes f.dstIp ≠ .raised)
    (he : nd.arpGet e.ip = some e) (hif : st.iface? n e.ifc = some oif) (hen : oif.enabled = true)
    (httl : ¬ f.dec.ttl < 1) :
    routerProcess (fuel + 3) st n i f =
      sendFrame (fuel + 2) (st.emit (.hop n f.id f.ttl)) n e.ifc (f.dec.stamp oif.mac e.mac) := by
  cases hres : findBestRoute nd.routes f.dstIp with
  | raised => exact absurd hres hnr
  | noRoute => rw [hres] at hnh; simp [Route.Result.nextHop?] at hnh
  | route idx r =>
    rw [hres] at hnh
    simp only [Route.Result.nextHop?, Option.some.injEq] at hnh
    rw [← hnh] at he
    simp only [routerProcess, hb, Bool.false_eq_true, if_false, arpIfc, arpMac, hn, hed, hif0, hen0, hnot0, hres, he, hif, hen,
      httl, Route.Result.nextHop?, Bool.not_true]
  | default nh =>
    rw [hres] at hnh
    simp only [Route.Result.nextHop?, Option.some.injEq] at hnh
    rw [← hnh] at he
    simp only [routerProcess, hb, Bool.false_eq_true, if_false, arpIfc, arpMac, hn, hed, hif0, hen0, hnot0, hres, he, hif, hen,
      httl, Route.Result.nextHop?, Bool.not_true]

theorem hop_step (fuel : Nat) (st : St) (pl : Pl) (src dst : Ip) (n i : Nat) (inMac : Mac) (m j : Nat) (outSrc outDst : Mac)
    (h : Hop st.nodes pl src dst n i inMac m j outSrc outDst) (f : Frame)
    (hsrc : f.srcIp = src) (hdst : f.dstIp = dst) (hmac : f.dstMac = inMac) (hb : inMac ≠ bcastMac) (hpl : f.pl = pl)
    (httl : 3 ≤ f.ttl) :
    ifaceRecv (fuel + 5) st n i f =
      ifaceRecv (fuel + 1) ((st.emit (.rx n i f.id f.ttl)).emit (.hop n f.id f.dec.ttl)) m j (f.dec.dec.stamp outSrc outDst) := by
  obtain ⟨nd, ifc, es, e, oif, pif, hn, hk, hon, hi, himac, hes, hown, hcase, hoif, hen, hpeer, hpif, hpen, rfl, rfl⟩ := h.node
  subst hsrc hdst hpl
  have hn' : st.node? n = some nd := hn
  have hi' : st.iface? n i = some ifc := by unfold St.iface?; rw [hn]; exact hi
  have hoif' : st.iface? n e.ifc = some oif := by unfold St.iface?; rw [hn]; exact hoif
  have hpif' : st.iface? m j = some pif := hpif
  have h1 : ¬ f.dec.ttl < 1 := by unfold Frame.dec; simp only; omega
  have h2 : ¬ f.dec.dec.ttl < 1 := by unfold Frame.dec; simp only; omega
  have hbm : (f.dstMac == bcastMac) = false := by rw [hmac]; simpa using hb
  have hra : routerAccepts ifc f.dec = true := by
    unfold routerAccepts; simp [Frame.dec, hmac, himac]
  have hlearn : (st.emit (.rx n i f.id f.ttl)).modNode n (fun nd => nd.addArp f.dec.srcIp f.dec.srcMac i)
      = st.emit (.rx n i f.id f.ttl) := by
    apply modNode_id
    intro nd' hnd'
    have : nd' = nd := by
      have : (st.emit (.rx n i f.id f.ttl)).node? n = st.node? n := rfl
      rw [this, hn'] at hnd'; simpa using hnd'.symm
    subst this
    exact addArp_known nd' _ _ _ es hes
  generalize hR : ifaceRecv (fuel + 1) ((st.emit (.rx n i f.id f.ttl)).emit (.hop n f.id f.dec.ttl)) m j
    (f.dec.dec.stamp oif.mac e.mac) = R
  have hstep1 : ifaceRecv (fuel + 5) st n i f = routerRecv (fuel + 3 + 1) (st.emit (.rx n i f.id f.ttl)) n i f.dec := by
    simp only [ifaceRecv, hn', hi', h1, if_false, hk, hra, if_true]
  rw [hstep1]
  rw [C08_router_transit (fuel + 3) (st.emit (.rx n i f.id f.ttl)) n i f.dec nd ifc hn' hi' hon hown
    (fun _ _ => ⟨by show f.dstMac ≠ bcastMac; rw [hmac]; exact hb, by omega⟩)]
  rw [hlearn]
  subst hR
  have hsend : ∀ X : St, X.nodes = st.nodes → ∀ g : Frame,
      sendFrame (fuel + 2) X n e.ifc g = ifaceRecv (fuel + 1) X m j g := by
    intro X hX g
    have e1 : X.iface? n e.ifc = some oif := by unfold St.iface?; rw [hX]; exact hoif'
    have e2 : X.iface? m j = some pif := by unfold St.iface?; rw [hX]; exact hpif'
    simp only [sendFrame, e1, hen, hpeer, e2, hpen, Bool.not_true, Bool.false_eq_true, if_false]
  rcases hcase with ⟨hmiss, hoff, hnh, hnr, he, hnot⟩ | ⟨he, hin⟩ | ⟨ed, oif0, hed, hoif0, hen0, hnot0, hnh, hnr, he, _⟩
  · have hreq : ∀ k (X : St), X.node? n = some nd → sendArpReq (k + 1) X n e.ip = X := by
      intro k X hX; simp only [sendArpReq, hX, he, Option.isSome_some, if_true]
    have hX : (st.emit (.rx n i f.id f.ttl)).node? n = some nd := hn'
    have hXi : (st.emit (.rx n i f.id f.ttl)).iface? n e.ifc = some oif := hoif'
    cases hres : findBestRoute nd.routes f.dstIp with
    | raised => exact absurd hres hnr
    | noRoute => rw [hres] at hnh; simp [Route.Result.nextHop?] at hnh
    | route idx r =>
      rw [hres] at hnh
      simp only [Route.Result.nextHop?, Option.some.injEq] at hnh
      rw [← hnh] at he hreq
      rw [C08_router_uses_best_route fuel (st.emit (.rx n i f.id f.ttl)) n i f.dec nd r idx e oif hX hk hbm hmiss hoff hres he hXi hen hnot h2]
      exact hsend ((st.emit (.rx n i f.id f.ttl)).emit (.hop n f.id f.dec.ttl)) rfl _
    | default nh =>
      rw [hres] at hnh
      simp only [Route.Result.nextHop?, Option.some.injEq] at hnh
      rw [← hnh] at he hreq
      rw [C08_router_uses_default_route fuel (st.emit (.rx n i f.id f.ttl)) n i f.dec nd nh e oif hX hk hbm hmiss hoff hres he hXi hen hnot h2]
      exact hsend ((st.emit (.rx n i f.id f.ttl)).emit (.hop n f.id f.dec.ttl)) rfl _
  · have hX : (st.emit (.rx n i f.id f.ttl)).node? n = some nd := hn'
    have hXi : (st.emit (.rx n i f.id f.ttl)).iface? n e.ifc = some oif := hoif'
    have : routerProcess (fuel + 3) (st.emit (.rx n i f.id f.ttl)) n i f.dec =
        sendFrame (fuel + 2) ((st.emit (.rx n i f.id f.ttl)).emit (.hop n f.id f.dec.ttl)) n e.ifc (f.dec.dec.stamp oif.mac e.mac) := by
      simp only [routerProcess, hbm, Frame.dec, Bool.false_eq_true, if_false, arpIfc, arpMac, hX, he, hXi, hen, hin, if_true,
        Bool.not_true]
      have h2' : ¬ (f.ttl - 1 - 1 < 1) := by omega
      simp only [h2', if_false]
    rw [this]
    exact hsend ((st.emit (.rx n i f.id f.ttl)).emit (.hop n f.id f.dec.ttl)) rfl _
  · have hX : (st.emit (.rx n i f.id f.ttl)).node? n = some nd := hn'
    have hXi : (st.emit (.rx n i f.id f.ttl)).iface? n e.ifc = some oif := hoif'
    have hXi0 : (st.emit (.rx n i f.id f.ttl)).iface? n ed.ifc = some oif0 := by
      show st.iface? n ed.ifc = some oif0
      unfold St.iface?; rw [hn]; exact hoif0
    rw [router_forward_cached fuel (st.emit (.rx n i f.id f.ttl)) n i f.dec nd ed e oif0 oif hX hbm hed hXi0 hen0 hnot0 hnh hnr he
      hXi hen h2]
    exact hsend ((st.emit (.rx n i f.id f.ttl)).emit (.hop n f.id f.dec.ttl)) rfl _


/-- a switch that has already learned the frame's source MAC on the ingress port `i` and its destination MAC on a port
whose link leads to interface `(m, j)`. -/
structure SwHop (N : List Node) (n i : Nat) (sm dm : Mac) (m j : Nat) : Prop where
  node : ∃ nd ifc p oif pif, N[n]? = some nd ∧ nd.kind = .switch ∧ nd.ifaces[i]? = some ifc ∧
    nd.macTable.find? (fun e => e.1 == sm) = some (sm, i) ∧ nd.macPort dm = some p ∧
    nd.ifaces[p]? = some oif ∧ oif.enabled = true ∧ oif.peer = some (m, j) ∧
    (N[m]?).bind (·.ifaces[j]?) = some pif ∧ pif.enabled = true

theorem learnMac_known (nd : Node) (mac : Mac) (port : Nat) (h : nd.macTable.find? (fun e => e.1 == mac) = some (mac, port)) :
    nd.learnMac mac port = nd := by
  unfold Node.learnMac
  simp [h]

theorem sw_step (fuel : Nat) (st : St) (n i : Nat) (sm dm : Mac) (m j : Nat)
    (h : SwHop st.nodes n i sm dm m j) (f : Frame) (hsm : f.srcMac = sm) (hdm : f.dstMac = dm) (hb : dm ≠ bcastMac)
    (httl : 2 ≤ f.ttl) :
    ifaceRecv (fuel + 4) st n i f = ifaceRecv (fuel + 1) (st.emit (.rx n i f.id f.ttl)) m j f.dec := by
  obtain ⟨nd, ifc, p, oif, pif, hn, hk, hi, hsrc, hdst, hoif, hen, hpeer, hpif, hpen⟩ := h.node
  subst hsm hdm
  have hn' : st.node? n = some nd := hn
  have hi' : st.iface? n i = some ifc := by unfold St.iface?; rw [hn]; exact hi
  have h1 : ¬ f.dec.ttl < 1 := by unfold Frame.dec; simp only; omega
  have hlearn : (st.emit (.rx n i f.id f.ttl)).modNode n (fun nd => nd.learnMac f.dec.srcMac i) = st.emit (.rx n i f.id f.ttl) := by
    apply modNode_id
    intro nd' hnd'
    have : nd' = nd := by
      have : (st.emit (.rx n i f.id f.ttl)).node? n = st.node? n := rfl
      rw [this, hn'] at hnd'; simpa using hnd'.symm
    subst this
    exact learnMac_known nd' _ _ hsrc
  have hX : (st.emit (.rx n i f.id f.ttl)).node? n = some nd := hn'
  have e1 : (st.emit (.rx n i f.id f.ttl)).iface? n p = some oif := by
    show st.iface? n p = some oif
    unfold St.iface?; rw [hn]; exact hoif
  have e2 : (st.emit (.rx n i f.id f.ttl)).iface? m j = some pif := hpif
  have hne : (f.dec.dstMac != bcastMac) = true := by simpa [Frame.dec] using hb
  have hd : nd.macPort f.dec.dstMac = some p := hdst
  have s1 : ifaceRecv (fuel + 4) st n i f = switchRecv (fuel + 3) (st.emit (.rx n i f.id f.ttl)) n i f.dec := by
    simp only [ifaceRecv, hn', hi', h1, if_false, hk]
  have s2 : switchRecv (fuel + 3) (st.emit (.rx n i f.id f.ttl)) n i f.dec =
      sendFrame (fuel + 2) (st.emit (.rx n i f.id f.ttl)) n p f.dec := by
    simp only [switchRecv, hlearn, hX, hd, hne, if_true]
  have s3 : sendFrame (fuel + 2) (st.emit (.rx n i f.id f.ttl)) n p f.dec =
      ifaceRecv (fuel + 1) (st.emit (.rx n i f.id f.ttl)) m j f.dec := by
    simp only [sendFrame, e1, hen, hpeer, e2, hpen, Bool.not_true, Bool.false_eq_true, if_false]
  rw [s1, s2, s3]

/-- a warm path from interface `(n, i)` (a frame with source MAC `sm`, destination MAC `dm` arrives there) to interface
`(b, bi)` (the frame arrives there with MACs `fs`, `fd`), through any number of switches and routers / firewalls, in any
order; `c` = nesting depth it costs, `h` = TTL it costs (1 per switch, 2 per router). -/
inductive Path (N : List Node) (pl : Pl) (src dst : Ip) : Nat → Nat → Mac → Mac → Nat → Nat → Mac → Mac → Nat → Nat → Prop
  | arrive {b bi : Nat} {fs fd : Mac} : Path N pl src dst b bi fs fd b bi fs fd 0 0
  | router {n i : Nat} {sm dm : Mac} {m j : Nat} {os od : Mac} {b bi : Nat} {fs fd : Mac} {c h : Nat} :
      Hop N pl src dst n i dm m j os od → od ≠ bcastMac → Path N pl src dst m j os od b bi fs fd c h →
      Path N pl src dst n i sm dm b bi fs fd (c + 4) (h + 2)
  | switch {n i : Nat} {sm dm : Mac} {m j : Nat} {b bi : Nat} {fs fd : Mac} {c h : Nat} :
      SwHop N n i sm dm m j → Path N pl src dst m j sm dm b bi fs fd c h →
      Path N pl src dst n i sm dm b bi fs fd (c + 3) (h + 1)

theorem emit2_log (st : St) (a b : Ev) (L : List Ev) :
    ({ (st.emit a).emit b with log := L ++ ((st.emit a).emit b).log } : St) = { st with log := (L ++ [b, a]) ++ st.log } := by
  simp [St.emit]

theorem emit1_log (st : St) (a : Ev) (L : List Ev) :
    ({ (st.emit a) with log := L ++ (st.emit a).log } : St) = { st with log := (L ++ [a]) ++ st.log } := by
  simp [St.emit]

theorem journey {N : List Node} {pl : Pl} {src dst : Ip} {n i : Nat} {sm dm : Mac} {b bi : Nat} {fs fd : Mac} {c h : Nat}
    (hp : Path N pl src dst n i sm dm b bi fs fd c h) :
    ∀ (fuel : Nat) (st : St) (f : Frame), st.nodes = N → f.srcIp = src → f.dstIp = dst → f.srcMac = sm → f.dstMac = dm →
      dm ≠ bcastMac → f.pl = pl → (h : Int) + 2 ≤ f.ttl →
      ∃ (L : List Ev) (f' : Frame),
        ifaceRecv (fuel + c + 1) st n i f = ifaceRecv (fuel + 1) { st with log := L ++ st.log } b bi f' ∧
        f'.srcIp = src ∧ f'.dstIp = dst ∧ f'.pl = pl ∧ f'.srcMac = fs ∧ f'.dstMac = fd ∧
        f'.ttl = f.ttl - h ∧ f'.id = f.id := by
  induction hp with
  | @arrive b bi fs fd =>
    intro fuel st f _ hs hd hsm hdm _ hpl _
    exact ⟨[], f, by simp, hs, hd, hpl, hsm, hdm, by simp, rfl⟩
  | @router n i sm dm m j os od b bi fs fd c h hop hod _ ih =>
    intro fuel st f hN hs hd _ hdm hb hpl ht
    subst hN
    have h1 := hop_step (fuel + c) st pl src dst n i dm m j os od hop f hs hd hdm hb hpl (by omega)
    obtain ⟨L, f', e1, e2, e3, e4, e5, e6, e7, e8⟩ := ih fuel ((st.emit (.rx n i f.id f.ttl)).emit (.hop n f.id f.dec.ttl))
      (f.dec.dec.stamp os od) rfl hs hd rfl rfl hod hpl (by simp [Frame.stamp, Frame.dec]; omega)
    refine ⟨L ++ [.hop n f.id f.dec.ttl, .rx n i f.id f.ttl], f', ?_, e2, e3, e4, e5, e6, ?_, ?_⟩
    · have hf : fuel + (c + 4) + 1 = fuel + c + 5 := by omega
      rw [hf, h1, e1, emit2_log]
    · rw [e7]; simp [Frame.stamp, Frame.dec]; omega
    · rw [e8]; rfl
  | @switch n i sm dm m j b bi fs fd c h hop _ ih =>
    intro fuel st f hN hs hd hsm hdm hb hpl ht
    subst hN
    have h1 := sw_step (fuel + c) st n i sm dm m j hop f hsm hdm hb (by omega)
    obtain ⟨L, f', e1, e2, e3, e4, e5, e6, e7, e8⟩ := ih fuel (st.emit (.rx n i f.id f.ttl)) f.dec rfl hs hd hsm hdm hb hpl
      (by simp [Frame.dec]; omega)
    refine ⟨L ++ [.rx n i f.id f.ttl], f', ?_, e2, e3, e4, e5, e6, ?_, ?_⟩
    · have hf : fuel + (c + 3) + 1 = fuel + c + 4 := by omega
      rw [hf, h1, e1, emit1_log]
    · rw [e7]; simp [Frame.dec]; omega
    · rw [e8]; rfl


/-! host side, warm caches, single-NIC hosts -/

theorem host_end (fuel : Nat) (st : St) (b : Nat) (nd : Node) (ifc : Iface) (f : Frame)
    (hn : st.node? b = some nd) (hk : nd.kind = .host) (hifs : nd.ifaces = [ifc])
    (hm : f.dstMac = ifc.mac) (hnb : ifc.mac ≠ bcastMac) (hd : f.dstIp = ifc.ip) (ht : 2 ≤ f.ttl) :
    ifaceRecv (fuel + 1) st b 0 f = hostRecv fuel (st.emit (.rx b 0 f.id f.ttl)) b 0 f.dec := by
  have hi : st.iface? b 0 = some ifc := by
    unfold St.iface?; unfold St.node? at hn; rw [hn]; simp [hifs]
  have h1 : ¬ f.dec.ttl < 1 := by unfold Frame.dec; simp only; omega
  have hacc : hostAccepts nd ifc f.dec = true := by
    unfold hostAccepts
    have : (f.dec.dstMac == bcastMac) = false := by simp [Frame.dec, hm, hnb]
    simp [Frame.dec, hm, hd, ifaceWithIp, hifs, hnb]
  simp only [ifaceRecv, hn, hi, h1, if_false, hk, hacc, if_true]

/-- how a single-NIC host reaches `peerIp` with a warm cache: directly (on-link, the peer's own entry) or through its
on-link default gateway (off-link, the gateway's entry). `e` is the cache entry used. -/
def HostRoute (nd : Node) (ifc : Iface) (peerIp : Ip) (e : ArpEntry) : Prop :=
  (ifc.inNet peerIp = true ∧ nd.arpGet peerIp = some e) ∨
  (ifc.inNet peerIp = false ∧ ∃ g, nd.gateway = some g ∧ ifc.inNet g = true ∧ nd.arpGet g = some e)

theorem host_resolveOut_warm (fuel : Nat) (st : St) (n : Nat) (nd : Node) (ifc : Iface) (dst : Ip) (e : ArpEntry)
    (hn : st.node? n = some nd) (hk : nd.kind = .host) (hifs : nd.ifaces = [ifc]) (hen : ifc.enabled = true)
    (hr : HostRoute nd ifc dst e) :
    ∃ k, resolveOut (fuel + 2) st n dst = (st, some k) := by
  rcases hr with ⟨hin, _⟩ | ⟨hoff, g, hg, hgin, he⟩
  · exact ⟨0, by simp [resolveOut, hn, hifs, firstEnabledIn, hin, hen]⟩
  · have hne : (dst == g) = false := by
      apply beq_false_of_ne
      intro h; rw [h, hgin] at hoff; cases hoff
    exact ⟨e.ifc, by simp [resolveOut, hn, hifs, firstEnabledIn, hoff, hk, hg, hen, arpIfc, he, hne]⟩

theorem host_send_warm (fuel : Nat) (st : St) (n : Nat) (nd : Node) (ifc pif : Iface) (dst : Ip) (e : ArpEntry) (pl : Pl)
    (m j : Nat)
    (hn : st.node? n = some nd) (hk : nd.kind = .host) (hifs : nd.ifaces = [ifc]) (hen : ifc.enabled = true)
    (hr : HostRoute nd ifc dst e) (he0 : e.ifc = 0)
    (hpeer : ifc.peer = some (m, j)) (hpif : st.iface? m j = some pif) (hpen : pif.enabled = true) :
    sendIcmp (fuel + 3) st n dst pl =
      (ifaceRecv (fuel + 1) { st with nextId := st.nextId + 1 } m j (mkFrame st ifc e.mac dst pl)).1 := by
  have hi : st.iface? n e.ifc = some ifc := by
    unfold St.iface?; unfold St.node? at hn; rw [hn, he0]; simp [hifs]
  have e1 : ({ st with nextId := st.nextId + 1 } : St).iface? n e.ifc = some ifc := hi
  have e2 : ({ st with nextId := st.nextId + 1 } : St).iface? m j = some pif := hpif
  rcases hr with ⟨hin, he⟩ | ⟨hoff, g, hg, _, he⟩
  · rw [C08_host_next_hop_direct fuel st n 0 nd dst pl e hn hk (by simp [hifs, firstEnabledIn, hin, hen]) he]
    simp only [hi]
    simp only [sendFrame, e1, hen, hpeer, e2, hpen, Bool.not_true, Bool.false_eq_true, if_false]
  · rw [C08_host_next_hop_gateway fuel st n nd dst g pl e hn hk (by simp [hifs, firstEnabledIn, hoff]) hg he
      (by simp [hifs, hen])]
    simp only [hi]
    simp only [sendFrame, e1, hen, hpeer, e2, hpen, Bool.not_true, Bool.false_eq_true, if_false]

theorem host_learn_known (st : St) (b : Nat) (nd : Node) (ip : Ip) (mac : Mac) (es : ArpEntry)
    (hn : st.node? b = some nd) (hes : nd.arpGet ip = some es) :
    st.modNode b (fun nd => nd.addArp ip mac 0) = st := by
  apply modNode_id
  intro nd' hnd'
  rw [hn] at hnd'
  have : nd' = nd := by simpa using hnd'.symm
  subst this
  exact addArp_known nd' _ _ _ es hes

theorem host_echo_req (fuel : Nat) (st : St) (b : Nat) (nd : Node) (ifc : Iface) (f : Frame) (ident : Nat) (es : ArpEntry)
    (hn : st.node? b = some nd) (hon : nd.on = true) (hifs : nd.ifaces = [ifc]) (hpl : f.pl = .echoReq ident)
    (hd : f.dstIp = ifc.ip) (hes : nd.arpGet f.srcIp = some es) :
    hostRecv (fuel + 1) st b 0 f =
      (match (resolveOut fuel (st.emit (.sw b f.id f.dstIp (f.dstMac == bcastMac))) b f.srcIp).2 with
       | none => ((resolveOut fuel (st.emit (.sw b f.id f.dstIp (f.dstMac == bcastMac))) b f.srcIp).1, f)
       | some _ => (sendIcmp fuel (resolveOut fuel (st.emit (.sw b f.id f.dstIp (f.dstMac == bcastMac))) b f.srcIp).1 b f.srcIp
                      (.echoRep ident), f)) := by
  have hi : st.iface? b 0 = some ifc := by
    unfold St.iface?; unfold St.node? at hn; rw [hn]; simp [hifs]
  simp only [hostRecv, portClosed, Bool.false_eq_true, if_false, hn, hi, hon, if_true, host_learn_known st b nd f.srcIp f.srcMac es hn hes, hpl, hd, bne_self_eq_false,
    Bool.false_eq_true, if_false]
  rfl

theorem host_echo_rep (fuel : Nat) (st : St) (a : Nat) (nd : Node) (ifc : Iface) (f : Frame) (ident : Nat) (es : ArpEntry)
    (hn : st.node? a = some nd) (hon : nd.on = true) (hifs : nd.ifaces = [ifc]) (hpl : f.pl = .echoRep ident)
    (hes : nd.arpGet f.srcIp = some es) :
    hostRecv (fuel + 1) st a 0 f =
      ((st.emit (.sw a f.id f.dstIp (f.dstMac == bcastMac))).modNode a
        (fun nd => { nd with replies := bumpReply nd.replies ident }), f) := by
  have hi : st.iface? a 0 = some ifc := by
    unfold St.iface?; unfold St.node? at hn; rw [hn]; simp [hifs]
  simp only [hostRecv, portClosed, Bool.false_eq_true, if_false, hn, hi, hon, if_true, host_learn_known st a nd f.srcIp f.srcMac es hn hes, hpl]

/-- the server side of the service (`NTPServer.receive`): answer to the frame's source address. -/
theorem host_data_req (fuel : Nat) (st : St) (b : Nat) (nd : Node) (ifc : Iface) (f : Frame) (es : ArpEntry)
    (hn : st.node? b = some nd) (hon : nd.on = true) (hflag : nd.flag = true) (hifs : nd.ifaces = [ifc]) (hpl : f.pl = .dataReq)
    (hes : nd.arpGet f.srcIp = some es) :
    hostRecv (fuel + 1) st b 0 f =
      (sendIcmp fuel (st.emit (.sw b f.id f.dstIp (f.dstMac == bcastMac))) b f.srcIp .dataRep, f) := by
  have hi : st.iface? b 0 = some ifc := by
    unfold St.iface?; unfold St.node? at hn; rw [hn]; simp [hifs]
  simp only [hostRecv, portClosed, Bool.false_eq_true, if_false, hn, hi, hon, if_true, host_learn_known st b nd f.srcIp f.srcMac es hn hes, hpl, hflag]

/-- the client side (`NTPClient.receive`): the reply is recorded. -/
theorem host_data_rep (fuel : Nat) (st : St) (a : Nat) (nd : Node) (ifc : Iface) (f : Frame) (es : ArpEntry)
    (hn : st.node? a = some nd) (hon : nd.on = true) (hflag : nd.flag = false) (hifs : nd.ifaces = [ifc]) (hpl : f.pl = .dataRep)
    (hes : nd.arpGet f.srcIp = some es) :
    hostRecv (fuel + 1) st a 0 f =
      ((st.emit (.sw a f.id f.dstIp (f.dstMac == bcastMac))).modNode a (fun nd => { nd with served := true }), f) := by
  have hi : st.iface? a 0 = some ifc := by
    unfold St.iface?; unfold St.node? at hn; rw [hn]; simp [hifs]
  simp only [hostRecv, portClosed, Bool.false_eq_true, if_false, hn, hi, hon, if_true, host_learn_known st a nd f.srcIp f.srcMac es hn hes, hpl, hflag,
    Bool.false_eq_true, if_false]

theorem replyCount_bump (l : List (Nat × Nat)) (ident : Nat) (h : replyCount l ident = none) :
    replyCount (bumpReply l ident) ident = some 1 := by
  unfold replyCount at h ⊢
  unfold bumpReply
  cases hf : l.find? (fun e => e.1 == ident) with
  | some x => rw [hf] at h; simp at h
  | none =>
    simp only [List.find?_append, hf, Option.none_or]
    simp

/-- what a powered-on single-NIC host needs for a warm exchange with the address `peerIp`: an enabled NIC whose link
leads to the enabled interface `(r, i)`, a warm route to the peer (`HostRoute`, direct or through the on-link gateway), and
the peer's address in the cache (so that receiving its frames teaches nothing new). -/
structure WarmHost (N : List Node) (n : Nat) (nd : Node) (ifc : Iface) (peerIp : Ip) (e : ArpEntry) (r i : Nat) : Prop where
  node : N[n]? = some nd
  kind : nd.kind = .host
  on : nd.on = true
  ifs : nd.ifaces = [ifc]
  enabled : ifc.enabled = true
  route : HostRoute nd ifc peerIp e
  e0 : e.ifc = 0
  peer : ifc.peer = some (r, i)
  peerUp : ∃ p, (N[r]?).bind (·.ifaces[i]?) = some p ∧ p.enabled = true
  knowsPeer : ∃ es, nd.arpGet peerIp = some es
  macOk : ifc.mac ≠ bcastMac
  gwMacOk : e.mac ≠ bcastMac

/-- LIVENESS, warm caches, ICMP: two powered-on single-NIC hosts, each with a warm route to the other (direct, or through
its resolved on-link default gateway), joined by warm paths — any number of switches that have learned both MAC addresses
and of routers / firewalls whose caches are warm, whose routes (static or default, selected by `find_best_route`) lead
along the path and whose every verdict permits ICMP (`transitOk`), in any order; at most 62 TTL units each way.  Then one
`ping` returns `True`: the request reaches B's software, B answers, the reply reaches A's software and is counted. -/
theorem C08_permitted_exchange_succeeds_warm (st : St) (a b : Nat) (ndA ndB : Node) (ifA ifB : Iface) (eA eB : ArpEntry)
    (r1 i1 r2 i2 : Nat) (fsA fsB : Mac) (c1 h1 c2 h2 fuel : Nat)
    (hA : WarmHost st.nodes a ndA ifA ifB.ip eA r1 i1) (hB : WarmHost st.nodes b ndB ifB ifA.ip eB r2 i2)
    (hrep : replyCount ndA.replies st.nextId = none)
    (pAB : Path st.nodes (.echoReq st.nextId) ifA.ip ifB.ip r1 i1 ifA.mac eA.mac b 0 fsB ifB.mac c1 h1)
    (pBA : Path st.nodes (.echoRep st.nextId) ifB.ip ifA.ip r2 i2 ifB.mac eB.mac a 0 fsA ifA.mac c2 h2)
    (hh1 : h1 ≤ 62) (hh2 : h2 ≤ 62) (hlo : isLoopback ifB.ip = false) :
    (ping (fuel + c1 + c2 + 8) st a ifB.ip 1).2 = true := by
  obtain ⟨pA, hpA, hpAen⟩ := hA.peerUp
  obtain ⟨pB, hpB, hpBen⟩ := hB.peerUp
  obtain ⟨esA, hesA⟩ := hA.knowsPeer
  obtain ⟨esB, hesB⟩ := hB.knowsPeer
  -- every intermediate state has the same node list
  have nodeA : ∀ X : St, X.nodes = st.nodes → X.node? a = some ndA := fun X hX => by unfold St.node?; rw [hX]; exact hA.node
  have nodeB : ∀ X : St, X.nodes = st.nodes → X.node? b = some ndB := fun X hX => by unfold St.node?; rw [hX]; exact hB.node
  have ifP1 : ∀ X : St, X.nodes = st.nodes → X.iface? r1 i1 = some pA := fun X hX => by unfold St.iface?; rw [hX]; exact hpA
  have ifP2 : ∀ X : St, X.nodes = st.nodes → X.iface? r2 i2 = some pB := fun X hX => by unfold St.iface?; rw [hX]; exact hpB
  -- 1. A sends the request
  let st1 : St := { st with nextId := st.nextId + 1 }
  let ident := st.nextId
  have s1 : sendIcmp (fuel + c1 + c2 + 8) st1 a ifB.ip (.echoReq ident) =
      (ifaceRecv (fuel + c1 + c2 + 5 + 1) { st1 with nextId := st1.nextId + 1 } r1 i1
        (mkFrame st1 ifA eA.mac ifB.ip (.echoReq ident))).1 :=
    host_send_warm (fuel + c1 + c2 + 5) st1 a ndA ifA pA ifB.ip eA (.echoReq ident) r1 i1 (nodeA st1 rfl) hA.kind
      hA.ifs hA.enabled hA.route hA.e0 hA.peer (ifP1 st1 rfl) hpAen
  -- 2. the request travels the forward path
  obtain ⟨L1, f1, j1, f1s, f1d, f1p, _, f1m, f1t, _⟩ := journey pAB (fuel + c2 + 5)
    { st1 with nextId := st1.nextId + 1 } (mkFrame st1 ifA eA.mac ifB.ip (.echoReq ident)) rfl rfl rfl rfl rfl hA.gwMacOk
    rfl (by simp [mkFrame, initTtl]; omega)
  have hf1 : fuel + c1 + c2 + 5 + 1 = fuel + c2 + 5 + c1 + 1 := by omega
  rw [hf1, j1] at s1
  -- 3. B's NIC accepts it and hands it to software
  generalize hst3 : ({ ({ st1 with nextId := st1.nextId + 1 } : St) with
    log := L1 ++ ({ st1 with nextId := st1.nextId + 1 } : St).log } : St) = st3 at s1
  have n3 : st3.nodes = st.nodes := by rw [← hst3]
  have f1ttl : 2 ≤ f1.ttl := by rw [f1t]; simp [mkFrame, initTtl]; omega
  rw [host_end (fuel + c2 + 5) st3 b ndB ifB f1 (nodeB st3 n3) hB.kind hB.ifs f1m hB.macOk f1d f1ttl] at s1
  -- 4. B's ICMP answers
  have hf1dec : f1.dec.srcIp = ifA.ip ∧ f1.dec.dstIp = ifB.ip ∧ f1.dec.pl = .echoReq ident := ⟨f1s, f1d, f1p⟩
  rw [host_echo_req (fuel + c2 + 4) (st3.emit (.rx b 0 f1.id f1.ttl)) b ndB ifB f1.dec ident esB
    (nodeB _ n3) hB.on hB.ifs hf1dec.2.2 hf1dec.2.1 (by rw [hf1dec.1]; exact hesB)] at s1
  generalize hst4 : (st3.emit (.rx b 0 f1.id f1.ttl)).emit (.sw b f1.dec.id f1.dec.dstIp (f1.dec.dstMac == bcastMac)) = st4 at s1
  have n4 : st4.nodes = st.nodes := by rw [← hst4]; exact n3
  obtain ⟨kB, hro⟩ : ∃ k, resolveOut (fuel + c2 + 4) st4 b f1.dec.srcIp = (st4, some k) := by
    rw [hf1dec.1]
    exact host_resolveOut_warm (fuel + c2 + 2) st4 b ndB ifB ifA.ip eB (nodeB st4 n4) hB.kind hB.ifs hB.enabled hB.route
  simp only [hro] at s1
  rw [hf1dec.1] at s1
  rw [host_send_warm (fuel + c2 + 1) st4 b ndB ifB pB ifA.ip eB (.echoRep ident) r2 i2 (nodeB st4 n4) hB.kind hB.ifs
    hB.enabled hB.route hB.e0 hB.peer (ifP2 st4 n4) hpBen] at s1
  -- 5. the reply travels the backward path
  obtain ⟨L2, g1, j2, g1s, _, g1p, _, g1m, g1t, _⟩ := journey pBA (fuel + 1)
    { st4 with nextId := st4.nextId + 1 } (mkFrame st4 ifB eB.mac ifA.ip (.echoRep ident)) n4 rfl rfl rfl rfl hB.gwMacOk
    rfl (by simp [mkFrame, initTtl]; omega)
  have hf2 : fuel + c2 + 1 + 1 = fuel + 1 + c2 + 1 := by omega
  rw [hf2, j2] at s1
  generalize hst6 : ({ ({ st4 with nextId := st4.nextId + 1 } : St) with
    log := L2 ++ ({ st4 with nextId := st4.nextId + 1 } : St).log } : St) = st6 at s1
  have n6 : st6.nodes = st.nodes := by rw [← hst6]; exact n4
  have g1ttl : 2 ≤ g1.ttl := by rw [g1t]; simp [mkFrame, initTtl]; omega
  have g1d : g1.dstIp = ifA.ip := by assumption
  rw [host_end (fuel + 1) st6 a ndA ifA g1 (nodeA st6 n6) hA.kind hA.ifs g1m hA.macOk g1d g1ttl] at s1
  -- 6. A's ICMP counts the reply
  rw [host_echo_rep fuel (st6.emit (.rx a 0 g1.id g1.ttl)) a ndA ifA g1.dec ident esA (nodeA _ n6) hA.on hA.ifs g1p
    (by rw [show g1.dec.srcIp = g1.srcIp from rfl, g1s]; exact hesA)] at s1
  -- 7. `ping` reads the counter
  obtain ⟨kA, hro1⟩ : ∃ k, resolveOut (fuel + c1 + c2 + 8) st1 a ifB.ip = (st1, some k) :=
    host_resolveOut_warm (fuel + c1 + c2 + 6) st1 a ndA ifA ifB.ip eA (nodeA st1 rfl) hA.kind hA.ifs hA.enabled hA.route
  unfold ping
  simp only [st1, ident] at hro1 s1
  simp only [nodeA st rfl, hA.on, hlo, Bool.not_true, Bool.false_eq_true, if_false, List.range_one, List.foldl_cons, List.foldl_nil,
    hro1, s1]
  simp only [node?_modNode, if_true, node?_emit, nodeA st6 n6, Option.map_some, Bool.true_and]
  rw [replyCount_bump ndA.replies st.nextId hrep]
  rfl

/-- LIVENESS, warm caches, the service request / reply exchange (`NTPClient.request_time` → `NTPServer` → reply): client A
(no reply recorded yet), server B (the service installed), the same kind of warm paths, every router on them carrying a
permit rule for the service and every firewall list on them permitting it (`transitOk` for the service class).  Then the
request reaches B's software, B answers to the request's source address, and the reply is recorded at A: the call
returns `True`. -/
theorem C08_permitted_service_exchange_succeeds_warm (st : St) (a b : Nat) (ndA ndB : Node) (ifA ifB : Iface) (eA eB : ArpEntry)
    (r1 i1 r2 i2 : Nat) (fsA fsB : Mac) (c1 h1 c2 h2 fuel : Nat)
    (hA : WarmHost st.nodes a ndA ifA ifB.ip eA r1 i1) (hB : WarmHost st.nodes b ndB ifB ifA.ip eB r2 i2)
    (hclient : ndA.flag = false) (hserved : ndA.served = false) (hserver : ndB.flag = true)
    (pAB : Path st.nodes .dataReq ifA.ip ifB.ip r1 i1 ifA.mac eA.mac b 0 fsB ifB.mac c1 h1)
    (pBA : Path st.nodes .dataRep ifB.ip ifA.ip r2 i2 ifB.mac eB.mac a 0 fsA ifA.mac c2 h2)
    (hh1 : h1 ≤ 62) (hh2 : h2 ≤ 62) :
    (requestService (fuel + c1 + c2 + 8) st a ifB.ip).2 = true := by
  obtain ⟨pA, hpA, hpAen⟩ := hA.peerUp
  obtain ⟨pB, hpB, hpBen⟩ := hB.peerUp
  obtain ⟨esA, hesA⟩ := hA.knowsPeer
  obtain ⟨esB, hesB⟩ := hB.knowsPeer
  have nodeA : ∀ X : St, X.nodes = st.nodes → X.node? a = some ndA := fun X hX => by unfold St.node?; rw [hX]; exact hA.node
  have nodeB : ∀ X : St, X.nodes = st.nodes → X.node? b = some ndB := fun X hX => by unfold St.node?; rw [hX]; exact hB.node
  have ifP1 : ∀ X : St, X.nodes = st.nodes → X.iface? r1 i1 = some pA := fun X hX => by unfold St.iface?; rw [hX]; exact hpA
  have ifP2 : ∀ X : St, X.nodes = st.nodes → X.iface? r2 i2 = some pB := fun X hX => by unfold St.iface?; rw [hX]; exact hpB
  -- 0. clearing the (already clear) reply marker changes nothing
  have h0 : st.modNode a (fun nd => { nd with served := false }) = st := by
    apply modNode_id
    intro nd' hnd'
    rw [nodeA st rfl] at hnd'
    have : nd' = ndA := by simpa using hnd'.symm
    subst this
    cases nd'; simp_all
  -- 1. A sends the request
  have s1 : sendIcmp (fuel + c1 + c2 + 8) st a ifB.ip .dataReq =
      (ifaceRecv (fuel + c1 + c2 + 5 + 1) { st with nextId := st.nextId + 1 } r1 i1 (mkFrame st ifA eA.mac ifB.ip .dataReq)).1 :=
    host_send_warm (fuel + c1 + c2 + 5) st a ndA ifA pA ifB.ip eA .dataReq r1 i1 (nodeA st rfl) hA.kind
      hA.ifs hA.enabled hA.route hA.e0 hA.peer (ifP1 st rfl) hpAen
  -- 2. the request travels the forward path
  obtain ⟨L1, f1, j1, f1s, f1d, f1p, _, f1m, f1t, _⟩ := journey pAB (fuel + c2 + 5)
    { st with nextId := st.nextId + 1 } (mkFrame st ifA eA.mac ifB.ip .dataReq) rfl rfl rfl rfl rfl hA.gwMacOk
    rfl (by simp [mkFrame, initTtl]; omega)
  have hf1 : fuel + c1 + c2 + 5 + 1 = fuel + c2 + 5 + c1 + 1 := by omega
  rw [hf1, j1] at s1
  -- 3. B's NIC accepts it and hands it to software
  generalize hst3 : ({ ({ st with nextId := st.nextId + 1 } : St) with
    log := L1 ++ ({ st with nextId := st.nextId + 1 } : St).log } : St) = st3 at s1
  have n3 : st3.nodes = st.nodes := by rw [← hst3]
  have f1ttl : 2 ≤ f1.ttl := by rw [f1t]; simp [mkFrame, initTtl]; omega
  rw [host_end (fuel + c2 + 5) st3 b ndB ifB f1 (nodeB st3 n3) hB.kind hB.ifs f1m hB.macOk f1d f1ttl] at s1
  -- 4. B's server answers to the source address
  have hf1dec : f1.dec.srcIp = ifA.ip ∧ f1.dec.pl = .dataReq := ⟨f1s, f1p⟩
  rw [host_data_req (fuel + c2 + 4) (st3.emit (.rx b 0 f1.id f1.ttl)) b ndB ifB f1.dec esB
    (nodeB _ n3) hB.on hserver hB.ifs hf1dec.2 (by rw [hf1dec.1]; exact hesB)] at s1
  generalize hst4 : (st3.emit (.rx b 0 f1.id f1.ttl)).emit (.sw b f1.dec.id f1.dec.dstIp (f1.dec.dstMac == bcastMac)) = st4 at s1
  have n4 : st4.nodes = st.nodes := by rw [← hst4]; exact n3
  rw [hf1dec.1] at s1
  rw [host_send_warm (fuel + c2 + 1) st4 b ndB ifB pB ifA.ip eB .dataRep r2 i2 (nodeB st4 n4) hB.kind hB.ifs
    hB.enabled hB.route hB.e0 hB.peer (ifP2 st4 n4) hpBen] at s1
  -- 5. the reply travels the backward path
  obtain ⟨L2, g1, j2, g1s, _, g1p, _, g1m, g1t, _⟩ := journey pBA (fuel + 1)
    { st4 with nextId := st4.nextId + 1 } (mkFrame st4 ifB eB.mac ifA.ip .dataRep) n4 rfl rfl rfl rfl hB.gwMacOk
    rfl (by simp [mkFrame, initTtl]; omega)
  have hf2 : fuel + c2 + 1 + 1 = fuel + 1 + c2 + 1 := by omega
  rw [hf2, j2] at s1
  generalize hst6 : ({ ({ st4 with nextId := st4.nextId + 1 } : St) with
    log := L2 ++ ({ st4 with nextId := st4.nextId + 1 } : St).log } : St) = st6 at s1
  have n6 : st6.nodes = st.nodes := by rw [← hst6]; exact n4
  have g1ttl : 2 ≤ g1.ttl := by rw [g1t]; simp [mkFrame, initTtl]; omega
  have g1d : g1.dstIp = ifA.ip := by assumption
  rw [host_end (fuel + 1) st6 a ndA ifA g1 (nodeA st6 n6) hA.kind hA.ifs g1m hA.macOk g1d g1ttl] at s1
  -- 6. A's client records the reply
  rw [host_data_rep fuel (st6.emit (.rx a 0 g1.id g1.ttl)) a ndA ifA g1.dec esA (nodeA _ n6) hA.on hclient hA.ifs g1p
    (by rw [show g1.dec.srcIp = g1.srcIp from rfl, g1s]; exact hesA)] at s1
  -- 7. `request_time` reads the marker
  unfold requestService
  simp only [h0, nodeA st rfl, hA.on, Option.any_some, Bool.not_true, Bool.false_eq_true, if_false, s1]
  simp only [node?_modNode, if_true, node?_emit, nodeA st6 n6, Option.map_some]

/-! ### non-vacuity: host A — switch — firewall (internal → external) — router — host B, fully warm (the state after one
round trip: every router also holds the REMOTE hosts' addresses, learned from the frames that passed) -/

def lvA : Ip := 0xC0A80102#32   -- 192.168.1.2
def lvB : Ip := 0xC0A80202#32   -- 192.168.2.2
def everyList : List (Nat × Nat) := (List.range 6).flatMap (fun l => (List.range 3).map (fun c => (l, c)))

def lvHostA : Node :=
  { kind := .host, gateway := some 0xC0A80101#32,
    ifaces := [{ mac := 1, ip := lvA, plen := 24, enabled := true, peer := some (1, 0) }],
    arp := [{ ip := 0xC0A80101#32, mac := 21, ifc := 0 }, { ip := lvB, mac := 21, ifc := 0 }] }
def lvSw : Node :=
  { kind := .switch,
    ifaces := [{ mac := 10, ip := 0#32, plen := 0, enabled := true, peer := some (0, 0) },
               { mac := 11, ip := 0#32, plen := 0, enabled := true, peer := some (2, 1) }],
    macTable := [(1, 0), (21, 1)] }
def lvFw : Node :=
  { kind := .router, fw := some everyList,
    ifaces := [{ mac := 20, ip := 0x0A000001#32, plen := 30, enabled := true, peer := some (3, 0) },
               { mac := 21, ip := 0xC0A80101#32, plen := 24, enabled := true, peer := some (1, 1) },
               { mac := 22, ip := 0x7F000001#32, plen := 8, enabled := false }],
    routes := { routes := [{ addr := 0xC0A80200#32, mask := 0xFFFFFF00#32, nextHop := 0x0A000002#32, metric := 0 }] },
    arp := [{ ip := lvA, mac := 1, ifc := 1 }, { ip := 0x0A000002#32, mac := 30, ifc := 0 }, { ip := lvB, mac := 30, ifc := 0 }] }
def lvR : Node :=
  { kind := .router, flag := true,
    ifaces := [{ mac := 30, ip := 0x0A000002#32, plen := 30, enabled := true, peer := some (2, 0) },
               { mac := 31, ip := 0xC0A80201#32, plen := 24, enabled := true, peer := some (4, 0) }],
    routes := { routes := [], default := some 0x0A000001#32 },
    arp := [{ ip := 0x0A000001#32, mac := 20, ifc := 0 }, { ip := lvA, mac := 20, ifc := 0 }, { ip := lvB, mac := 40, ifc := 1 }] }
def lvHostB : Node :=
  { kind := .host, gateway := some 0xC0A80201#32, flag := true,
    ifaces := [{ mac := 40, ip := lvB, plen := 24, enabled := true, peer := some (3, 1) }],
    arp := [{ ip := 0xC0A80201#32, mac := 31, ifc := 0 }, { ip := lvA, mac := 31, ifc := 0 }] }
def lvSt : St := { nodes := [lvHostA, lvSw, lvFw, lvR, lvHostB] }

/-- forward path A → B: switch (learned), firewall (internal → external outbound, destination remote but cached, static
route), router (destination on-link and cached). -/
theorem lvPathAB (pl : Pl) (h1 : transitOk lvFw 1 pl lvB = true) (h2 : transitOk lvR 0 pl lvB = true) :
    Path lvSt.nodes pl lvA lvB 1 0 1 21 4 0 31 40 11 5 := by
  refine Path.switch (m := 2) (j := 1) (c := 8) (h := 4) ⟨⟨lvSw, lvSw.ifaces[0], 1, lvSw.ifaces[1], lvFw.ifaces[1], by decide, by decide, by decide, by decide, by decide,
    by decide, by decide, by decide, by decide, by decide⟩⟩ ?_
  refine Path.router (m := 3) (j := 0) (c := 4) (h := 2) (os := 20) (od := 30) ⟨⟨lvFw, lvFw.ifaces[1], { ip := lvA, mac := 1, ifc := 1 },
    { ip := 0x0A000002#32, mac := 30, ifc := 0 }, lvFw.ifaces[0], lvR.ifaces[0], by decide, by decide, h1, by decide, by decide,
    by decide, by decide, ?_, by decide, by decide, by decide, by decide, by decide, by decide, by decide⟩⟩ (by decide) ?_
  · exact Or.inr (Or.inr ⟨{ ip := lvB, mac := 30, ifc := 0 }, lvFw.ifaces[0], by decide, by decide, by decide, by decide, by decide,
      by decide, by decide, by decide⟩)
  refine Path.router (m := 4) (j := 0) (c := 0) (h := 0) (os := 31) (od := 40) ⟨⟨lvR, lvR.ifaces[0], { ip := lvA, mac := 20, ifc := 0 },
    { ip := lvB, mac := 40, ifc := 1 }, lvR.ifaces[1], lvHostB.ifaces[0], by decide, by decide, h2, by decide, by decide,
    by decide, by decide, Or.inr (Or.inl ⟨by decide, by decide⟩), by decide, by decide, by decide, by decide, by decide, by decide,
    by decide⟩⟩ (by decide) Path.arrive

/-- backward path B → A: router (destination remote but cached, DEFAULT route), firewall (external inbound → internal
inbound, destination on-link), switch. -/
theorem lvPathBA (pl : Pl) (h1 : transitOk lvR 1 pl lvA = true) (h2 : transitOk lvFw 0 pl lvA = true) :
    Path lvSt.nodes pl lvB lvA 3 1 40 31 0 0 21 1 11 5 := by
  refine Path.router (m := 2) (j := 0) (c := 7) (h := 3) (os := 30) (od := 20) ⟨⟨lvR, lvR.ifaces[1], { ip := lvB, mac := 40, ifc := 1 },
    { ip := 0x0A000001#32, mac := 20, ifc := 0 }, lvR.ifaces[0], lvFw.ifaces[0], by decide, by decide, h1, by decide, by decide,
    by decide, by decide, ?_, by decide, by decide, by decide, by decide, by decide, by decide, by decide⟩⟩ (by decide) ?_
  · exact Or.inr (Or.inr ⟨{ ip := lvA, mac := 20, ifc := 0 }, lvR.ifaces[0], by decide, by decide, by decide, by decide, by decide,
      by decide, by decide, by decide⟩)
  refine Path.router (m := 1) (j := 1) (c := 3) (h := 1) (os := 21) (od := 1) ⟨⟨lvFw, lvFw.ifaces[0], { ip := lvB, mac := 30, ifc := 0 },
    { ip := lvA, mac := 1, ifc := 1 }, lvFw.ifaces[1], lvSw.ifaces[1], by decide, by decide, h2, by decide, by decide,
    by decide, by decide, Or.inr (Or.inl ⟨by decide, by decide⟩), by decide, by decide, by decide, by decide, by decide, by decide,
    by decide⟩⟩ (by decide) ?_
  exact Path.switch (m := 0) (j := 0) (c := 0) (h := 0) ⟨⟨lvSw, lvSw.ifaces[1], 0, lvSw.ifaces[0], lvHostA.ifaces[0], by decide, by decide, by decide, by decide, by decide,
    by decide, by decide, by decide, by decide, by decide⟩⟩ Path.arrive

theorem lvWarmA : WarmHost lvSt.nodes 0 lvHostA lvHostA.ifaces[0] lvB { ip := 0xC0A80101#32, mac := 21, ifc := 0 } 1 0 :=
  ⟨by decide, by decide, by decide, by decide, by decide,
    Or.inr ⟨by decide, 0xC0A80101#32, by decide, by decide, by decide⟩, by decide, by decide,
    ⟨lvSw.ifaces[0], by decide, by decide⟩, ⟨{ ip := lvB, mac := 21, ifc := 0 }, by decide⟩, by decide, by decide⟩

theorem lvWarmB : WarmHost lvSt.nodes 4 lvHostB lvHostB.ifaces[0] lvA { ip := 0xC0A80201#32, mac := 31, ifc := 0 } 3 1 :=
  ⟨by decide, by decide, by decide, by decide, by decide,
    Or.inr ⟨by decide, 0xC0A80201#32, by decide, by decide, by decide⟩, by decide, by decide,
    ⟨lvR.ifaces[1], by decide, by decide⟩, ⟨{ ip := lvA, mac := 31, ifc := 0 }, by decide⟩, by decide, by decide⟩

/-- the hypotheses of the ICMP liveness theorem hold for this network, and the theorem gives the result … -/
example : (ping (0 + 11 + 11 + 8) lvSt 0 lvB 1).2 = true :=
  C08_permitted_exchange_succeeds_warm lvSt 0 4 lvHostA lvHostB lvHostA.ifaces[0] lvHostB.ifaces[0]
    { ip := 0xC0A80101#32, mac := 21, ifc := 0 } { ip := 0xC0A80201#32, mac := 31, ifc := 0 } 1 0 3 1 21 31 11 5 11 5 0
    lvWarmA lvWarmB (by decide) (lvPathAB _ (by decide) (by decide)) (lvPathBA _ (by decide) (by decide)) (by decide) (by decide)
    (by decide)

/-- … and so do those of the service theorem (the router carries the permit rule, every firewall list permits). -/
example : (requestService (0 + 11 + 11 + 8) lvSt 0 lvB).2 = true :=
  C08_permitted_service_exchange_succeeds_warm lvSt 0 4 lvHostA lvHostB lvHostA.ifaces[0] lvHostB.ifaces[0]
    { ip := 0xC0A80101#32, mac := 21, ifc := 0 } { ip := 0xC0A80201#32, mac := 31, ifc := 0 } 1 0 3 1 21 31 11 5 11 5 0
    lvWarmA lvWarmB (by decide) (by decide) (by decide) (lvPathAB _ (by decide) (by decide)) (lvPathBA _ (by decide) (by decide))
    (by decide) (by decide)

/-- a frame ENTERING THE FIREWALL ON ITS DMZ PORT (arrival port 2) is a transit frame, too, when the destination's cache entry
names an outbound port whose list permits (`_process_dmz_outbound_frame`): `Hop` / `journey` / both liveness theorems cover
paths through the DMZ port; remove the external-outbound permit and it is not. -/
example : transitOk lvFw 2 (.echoReq 0) lvB = true := by decide
example : transitOk { lvFw with fw := some (everyList.filter (· != (1, 1))) } 2 (.echoReq 0) lvB = false := by decide
/-- "every device on the path permits" is a real precondition: without the router's permit rule `transitOk` fails … -/
example : transitOk { lvR with flag := false } 0 .dataReq lvB = false := by decide
/-- … and so it does when the firewall's external-outbound list does not permit ICMP. -/
example : transitOk { lvFw with fw := some (everyList.filter (· != (1, 1))) } 1 (.echoReq 0) lvB = false := by decide

/-! ### the COLD path, by evaluation only (not a theorem): the same network with empty caches and tables — the ARP
exchanges nested inside the first ping (A ↔ firewall through the switch's flood, firewall ↔ router, router ↔ B) complete and the
ping, then the service exchange, succeed; the general cold case is validated on the implementation by R-net. -/
def lvCold : St := { nodes := lvSt.nodes.map (fun nd => { nd with arp := [], macTable := [] }) }
example : (ping 200 lvCold 0 lvB 1).2 = true := by decide +kernel
example : (requestService 200 lvCold 0 lvB).2 = true := by decide +kernel
example : (ping 200 lvCold 0 lvB 1).1.oof = false := by decide +kernel

end Primaite.Forward
