/-
C08, part 4 — liveness on warm paths: a permitted ping between two hosts joined by chains of directly linked routers
succeeds (`Model/Forward.lean`).  PARTIAL with respect to the property's liveness clause: caches are assumed warm, links
direct (no switches), hosts single-NIC, the exchange is ICMP.  The cold path (ARP exchanges), switches and the service
exchange are validated against the implementation by R-net (oracle (d)), not proved.
-/
import PrimaiteModel.Props.C08Addressee
import PrimaiteModel.Props.C08Forward
namespace Primaite.Forward
open Primaite.Route (findBestRoute)

theorem modNode_id (st : St) (n : Nat) (f : Node → Node) (h : ∀ nd, st.node? n = some nd → f nd = nd) :
    st.modNode n f = st := by
  unfold St.modNode
  have : st.nodes.modify n f = st.nodes := by
    apply List.ext_getElem?
    intro k
    simp only [List.getElem?_modify]
    split
    · rename_i hk
      subst hk
      cases hn : st.nodes[n]? with
      | none => simp
      | some nd => simp [h nd (by unfold St.node?; exact hn)]
    · simp
  rw [this]

theorem addArp_known (nd : Node) (ip : Ip) (mac : Mac) (i : Nat) (e : ArpEntry) (h : nd.arpGet ip = some e) :
    nd.addArp ip mac i = nd := by
  unfold Node.addArp
  split
  · rfl
  · simp [h]

/-- what a warm router needs to pass an ICMP frame `src → dst` arriving on interface `i` for MAC `inMac` on to
interface `(m, j)` with destination MAC `e.mac`. `viaRoute = true`: off-link, along `find_best_route`; `false`: the
destination is on-link and cached. -/
structure Hop (N : List Node) (pl : Pl) (src dst : Ip) (n i : Nat) (inMac : Mac) (m j : Nat) (outSrc outDst : Mac) : Prop where
  node : ∃ nd ifc es e oif pif, N[n]? = some nd ∧ nd.kind = .router ∧ transitOk nd i pl dst = true ∧ nd.ifaces[i]? = some ifc ∧
    ifc.mac = inMac ∧ nd.arpGet src = some es ∧ ifaceWithIp nd.ifaces dst = none ∧
    ((nd.arpGet dst = none ∧ firstIn nd.ifaces dst 0 = none ∧ (findBestRoute nd.routes dst).nextHop? = some e.ip ∧
        findBestRoute nd.routes dst ≠ .raised ∧ nd.arpGet e.ip = some e ∧ oif.inNet dst = false) ∨
     (nd.arpGet dst = some e ∧ oif.inNet dst = true)) ∧
    nd.ifaces[e.ifc]? = some oif ∧ oif.enabled = true ∧ oif.peer = some (m, j) ∧
    (N[m]?).bind (·.ifaces[j]?) = some pif ∧ pif.enabled = true ∧ outSrc = oif.mac ∧ outDst = e.mac


def isEcho (p : Pl) : Prop := (∃ k, p = .echoReq k) ∨ (∃ k, p = .echoRep k)

theorem echo_not_data {p : Pl} (h : isEcho p) (b : Bool) : ((p == .dataReq || p == .dataRep) && b) = false := by
  rcases h with ⟨k, rfl⟩ | ⟨k, rfl⟩ <;> rfl

theorem hop_step (fuel : Nat) (st : St) (src dst : Ip) (n i : Nat) (inMac : Mac) (m j : Nat) (outSrc outDst : Mac)
    (h : Hop st.nodes src dst n i inMac m j outSrc outDst) (f : Frame)
    (hsrc : f.srcIp = src) (hdst : f.dstIp = dst) (hmac : f.dstMac = inMac) (hb : inMac ≠ bcastMac) (hpl : isEcho f.pl)
    (httl : 3 ≤ f.ttl) :
    ifaceRecv (fuel + 5) st n i f =
      ifaceRecv (fuel + 1) ((st.emit (.rx n i f.id f.ttl)).emit (.hop n f.id f.dec.ttl)) m j (f.dec.dec.stamp outSrc outDst) := by
  obtain ⟨nd, ifc, es, e, oif, pif, hn, hk, hon, hi, himac, hes, hown, hcase, hoif, hen, hpeer, hpif, hpen, rfl, rfl⟩ := h.node
  subst hsrc hdst
  have hn' : st.node? n = some nd := hn
  have hi' : st.iface? n i = some ifc := by unfold St.iface?; rw [hn]; exact hi
  have hoif' : st.iface? n e.ifc = some oif := by unfold St.iface?; rw [hn]; exact hoif
  have hpif' : st.iface? m j = some pif := hpif
  have h1 : ¬ f.dec.ttl < 1 := by unfold Frame.dec; simp only; omega
  have h2 : ¬ f.dec.dec.ttl < 1 := by unfold Frame.dec; simp only; omega
  have hbm : (f.dstMac == bcastMac) = false := by rw [hmac]; simpa using hb
  have hra : routerAccepts ifc f.dec = true := by
    unfold routerAccepts; simp [Frame.dec, hmac, himac]
  have hlearn : (st.emit (.rx n i f.id f.ttl)).modNode n (fun nd => nd.addArp f.dec.srcIp f.dec.srcMac i)
      = st.emit (.rx n i f.id f.ttl) := by
    apply modNode_id
    intro nd' hnd'
    have : nd' = nd := by
      have : (st.emit (.rx n i f.id f.ttl)).node? n = st.node? n := rfl
      rw [this, hn'] at hnd'; simpa using hnd'.symm
    subst this
    exact addArp_known nd' _ _ _ es hes
  generalize hR : ifaceRecv (fuel + 1) ((st.emit (.rx n i f.id f.ttl)).emit (.hop n f.id f.dec.ttl)) m j
    (f.dec.dec.stamp oif.mac e.mac) = R
  have hstep1 : ifaceRecv (fuel + 5) st n i f = routerRecv (fuel + 3 + 1) (st.emit (.rx n i f.id f.ttl)) n i f.dec := by
    simp only [ifaceRecv, hn', hi', h1, if_false, hk, hra, if_true]
  rw [hstep1]
  rw [C08_router_software_only_own_address (fuel + 3) (st.emit (.rx n i f.id f.ttl)) n i f.dec nd ifc hn' hi' hon
    (echo_not_data hpl _) hown]
  rw [hlearn]
  subst hR
  have hsend : ∀ X : St, X.nodes = st.nodes → ∀ g : Frame,
      sendFrame (fuel + 2) X n e.ifc g = ifaceRecv (fuel + 1) X m j g := by
    intro X hX g
    have e1 : X.iface? n e.ifc = some oif := by unfold St.iface?; rw [hX]; exact hoif'
    have e2 : X.iface? m j = some pif := by unfold St.iface?; rw [hX]; exact hpif'
    simp only [sendFrame, e1, hen, hpeer, e2, hpen, Bool.not_true, Bool.false_eq_true, if_false]
  rcases hcase with ⟨hmiss, hoff, hnh, hnr, he, hnot⟩ | ⟨he, hin⟩
  · have hreq : ∀ k (X : St), X.node? n = some nd → sendArpReq (k + 1) X n e.ip = X := by
      intro k X hX; simp only [sendArpReq, hX, he, Option.isSome_some, if_true]
    have hX : (st.emit (.rx n i f.id f.ttl)).node? n = some nd := hn'
    have hXi : (st.emit (.rx n i f.id f.ttl)).iface? n e.ifc = some oif := hoif'
    cases hres : findBestRoute nd.routes f.dstIp with
    | raised => exact absurd hres hnr
    | noRoute => rw [hres] at hnh; simp [Route.Result.nextHop?] at hnh
    | route idx r =>
      rw [hres] at hnh
      simp only [Route.Result.nextHop?, Option.some.injEq] at hnh
      rw [← hnh] at he hreq
      rw [C08_router_uses_best_route fuel (st.emit (.rx n i f.id f.ttl)) n i f.dec nd r idx e oif hX hk hbm hmiss hoff hres he hXi hen hnot h2]
      exact hsend ((st.emit (.rx n i f.id f.ttl)).emit (.hop n f.id f.dec.ttl)) rfl _
    | default nh =>
      rw [hres] at hnh
      simp only [Route.Result.nextHop?, Option.some.injEq] at hnh
      rw [← hnh] at he hreq
      rw [C08_router_uses_default_route fuel (st.emit (.rx n i f.id f.ttl)) n i f.dec nd nh e oif hX hk hbm hmiss hoff hres he hXi hen hnot h2]
      exact hsend ((st.emit (.rx n i f.id f.ttl)).emit (.hop n f.id f.dec.ttl)) rfl _
  · have hX : (st.emit (.rx n i f.id f.ttl)).node? n = some nd := hn'
    have hXi : (st.emit (.rx n i f.id f.ttl)).iface? n e.ifc = some oif := hoif'
    have : routerProcess (fuel + 3) (st.emit (.rx n i f.id f.ttl)) n i f.dec =
        sendFrame (fuel + 2) ((st.emit (.rx n i f.id f.ttl)).emit (.hop n f.id f.dec.ttl)) n e.ifc (f.dec.dec.stamp oif.mac e.mac) := by
      simp only [routerProcess, hbm, Frame.dec, Bool.false_eq_true, if_false, arpIfc, arpMac, hX, he, hXi, hen, hin, if_true,
        Bool.not_true]
      have h2' : ¬ (f.ttl - 1 - 1 < 1) := by omega
      simp only [h2', if_false]
    rw [this]
    exact hsend ((st.emit (.rx n i f.id f.ttl)).emit (.hop n f.id f.dec.ttl)) rfl _


/-- a chain of `k` warm router hops from interface `(n, i)` (frames for MAC `inMac`) to interface `(b, bi)`; the frame
arrives there with source MAC `fs` and destination MAC `fd`. -/
inductive Chain (N : List Node) (src dst : Ip) : Nat → Nat → Mac → Nat → Nat → Mac → Mac → Nat → Prop
  | last {n i : Nat} {inMac : Mac} {b bi : Nat} {fs fd : Mac} :
      Hop N src dst n i inMac b bi fs fd → Chain N src dst n i inMac b bi fs fd 1
  | step {n i : Nat} {inMac : Mac} {m j : Nat} {os od : Mac} {b bi : Nat} {fs fd : Mac} {k : Nat} :
      Hop N src dst n i inMac m j os od → od ≠ bcastMac → Chain N src dst m j od b bi fs fd k →
      Chain N src dst n i inMac b bi fs fd (k + 1)

theorem emit2_log (st : St) (a b : Ev) (L : List Ev) :
    ({ (st.emit a).emit b with log := L ++ ((st.emit a).emit b).log } : St) = { st with log := (L ++ [b, a]) ++ st.log } := by
  simp [St.emit]

theorem journey {N : List Node} {src dst : Ip} {n i : Nat} {inMac : Mac} {b bi : Nat} {fs fd : Mac} {k : Nat}
    (h : Chain N src dst n i inMac b bi fs fd k) :
    ∀ (fuel : Nat) (st : St) (f : Frame), st.nodes = N → f.srcIp = src → f.dstIp = dst → f.dstMac = inMac →
      inMac ≠ bcastMac → isEcho f.pl → 2 * (k : Int) + 1 ≤ f.ttl →
      ∃ (L : List Ev) (f' : Frame),
        ifaceRecv (fuel + 4 * k + 1) st n i f = ifaceRecv (fuel + 1) { st with log := L ++ st.log } b bi f' ∧
        f'.srcIp = src ∧ f'.dstIp = dst ∧ f'.pl = f.pl ∧ f'.srcMac = fs ∧ f'.dstMac = fd ∧
        f'.ttl = f.ttl - 2 * k ∧ f'.id = f.id := by
  induction h with
  | @last n i inMac b bi fs fd hop =>
    intro fuel st f hN hs hd hm hb hp ht
    subst hN
    refine ⟨[.hop n f.id f.dec.ttl, .rx n i f.id f.ttl], f.dec.dec.stamp fs fd, ?_, ?_⟩
    · have := hop_step fuel st src dst n i inMac b bi fs fd hop f hs hd hm hb hp (by omega)
      simpa [St.emit] using this
    · refine ⟨hs, hd, rfl, rfl, rfl, ?_, rfl⟩
      simp [Frame.stamp, Frame.dec]; omega
  | @step n i inMac m j os od b bi fs fd k hop hod _ ih =>
    intro fuel st f hN hs hd hm hb hp ht
    subst hN
    have h1 := hop_step (fuel + 4 * k) st src dst n i inMac m j os od hop f hs hd hm hb hp (by omega)
    obtain ⟨L, f', e1, e2, e3, e4, e5, e6, e7, e8⟩ := ih (fuel) ((st.emit (.rx n i f.id f.ttl)).emit (.hop n f.id f.dec.ttl))
      (f.dec.dec.stamp os od) rfl hs hd rfl hod hp (by simp [Frame.stamp, Frame.dec]; omega)
    refine ⟨L ++ [.hop n f.id f.dec.ttl, .rx n i f.id f.ttl], f', ?_, e2, e3, e4, e5, e6, ?_, ?_⟩
    · have hf : fuel + 4 * (k + 1) + 1 = fuel + 4 * k + 5 := by omega
      rw [hf, h1, e1, emit2_log]
    · rw [e7]; simp [Frame.stamp, Frame.dec]; omega
    · rw [e8]; rfl


/-! host side, warm caches, single-NIC hosts -/

theorem host_end (fuel : Nat) (st : St) (b : Nat) (nd : Node) (ifc : Iface) (f : Frame)
    (hn : st.node? b = some nd) (hk : nd.kind = .host) (hifs : nd.ifaces = [ifc])
    (hm : f.dstMac = ifc.mac) (hnb : ifc.mac ≠ bcastMac) (hd : f.dstIp = ifc.ip) (ht : 2 ≤ f.ttl) :
    ifaceRecv (fuel + 1) st b 0 f = hostRecv fuel (st.emit (.rx b 0 f.id f.ttl)) b 0 f.dec := by
  have hi : st.iface? b 0 = some ifc := by
    unfold St.iface?; unfold St.node? at hn; rw [hn]; simp [hifs]
  have h1 : ¬ f.dec.ttl < 1 := by unfold Frame.dec; simp only; omega
  have hacc : hostAccepts nd ifc f.dec = true := by
    unfold hostAccepts
    have : (f.dec.dstMac == bcastMac) = false := by simp [Frame.dec, hm, hnb]
    simp [Frame.dec, hm, hd, ifaceWithIp, hifs, hnb]
  simp only [ifaceRecv, hn, hi, h1, if_false, hk, hacc, if_true]

theorem host_resolveOut_warm (fuel : Nat) (st : St) (n : Nat) (nd : Node) (ifc : Iface) (dst g : Ip) (e : ArpEntry)
    (hn : st.node? n = some nd) (hk : nd.kind = .host) (hifs : nd.ifaces = [ifc]) (hen : ifc.enabled = true)
    (hoff : ifc.inNet dst = false) (hg : nd.gateway = some g) (he : nd.arpGet g = some e) :
    resolveOut (fuel + 2) st n dst = (st, some e.ifc) := by
  simp [resolveOut, hn, hifs, firstEnabledIn, hoff, hk, hg, hen, arpIfc, he]

theorem host_send_warm (fuel : Nat) (st : St) (n : Nat) (nd : Node) (ifc pif : Iface) (dst g : Ip) (e : ArpEntry) (pl : Pl)
    (m j : Nat)
    (hn : st.node? n = some nd) (hk : nd.kind = .host) (hifs : nd.ifaces = [ifc]) (hen : ifc.enabled = true)
    (hoff : ifc.inNet dst = false) (hg : nd.gateway = some g) (he : nd.arpGet g = some e) (he0 : e.ifc = 0)
    (hpeer : ifc.peer = some (m, j)) (hpif : st.iface? m j = some pif) (hpen : pif.enabled = true) :
    sendIcmp (fuel + 3) st n dst pl =
      (ifaceRecv (fuel + 1) { st with nextId := st.nextId + 1 } m j (mkFrame st ifc e.mac dst pl)).1 := by
  have hi : st.iface? n e.ifc = some ifc := by
    unfold St.iface?; unfold St.node? at hn; rw [hn, he0]; simp [hifs]
  rw [C08_host_next_hop_gateway fuel st n nd dst g pl e hn hk (by simp [hifs, firstEnabledIn, hoff]) hg he
    (by simp [hifs, hen])]
  simp only [hi]
  have e1 : ({ st with nextId := st.nextId + 1 } : St).iface? n e.ifc = some ifc := hi
  have e2 : ({ st with nextId := st.nextId + 1 } : St).iface? m j = some pif := hpif
  simp only [sendFrame, e1, hen, hpeer, e2, hpen, Bool.not_true, Bool.false_eq_true, if_false]

theorem host_echo_req (fuel : Nat) (st : St) (b : Nat) (nd : Node) (ifc : Iface) (f : Frame) (ident : Nat) (es : ArpEntry)
    (hn : st.node? b = some nd) (hon : nd.on = true) (hifs : nd.ifaces = [ifc]) (hpl : f.pl = .echoReq ident)
    (hd : f.dstIp = ifc.ip) (hes : nd.arpGet f.srcIp = some es) :
    hostRecv (fuel + 1) st b 0 f =
      (match (resolveOut fuel (st.emit (.sw b f.id f.dstIp (f.dstMac == bcastMac))) b f.srcIp).2 with
       | none => ((resolveOut fuel (st.emit (.sw b f.id f.dstIp (f.dstMac == bcastMac))) b f.srcIp).1, f)
       | some _ => (sendIcmp fuel (resolveOut fuel (st.emit (.sw b f.id f.dstIp (f.dstMac == bcastMac))) b f.srcIp).1 b f.srcIp
                      (.echoRep ident), f)) := by
  have hi : st.iface? b 0 = some ifc := by
    unfold St.iface?; unfold St.node? at hn; rw [hn]; simp [hifs]
  have hlearn : st.modNode b (fun nd => nd.addArp f.srcIp f.srcMac 0) = st := by
    apply modNode_id
    intro nd' hnd'
    rw [hn] at hnd'
    have : nd' = nd := by simpa using hnd'.symm
    subst this
    exact addArp_known nd' _ _ _ es hes
  simp only [hostRecv, hn, hi, hon, if_true, hlearn, hpl, hd, bne_self_eq_false, Bool.false_eq_true, if_false]
  rfl

theorem host_echo_rep (fuel : Nat) (st : St) (a : Nat) (nd : Node) (ifc : Iface) (f : Frame) (ident : Nat) (es : ArpEntry)
    (hn : st.node? a = some nd) (hon : nd.on = true) (hifs : nd.ifaces = [ifc]) (hpl : f.pl = .echoRep ident)
    (hes : nd.arpGet f.srcIp = some es) :
    hostRecv (fuel + 1) st a 0 f =
      ((st.emit (.sw a f.id f.dstIp (f.dstMac == bcastMac))).modNode a
        (fun nd => { nd with replies := bumpReply nd.replies ident }), f) := by
  have hi : st.iface? a 0 = some ifc := by
    unfold St.iface?; unfold St.node? at hn; rw [hn]; simp [hifs]
  have hlearn : st.modNode a (fun nd => nd.addArp f.srcIp f.srcMac 0) = st := by
    apply modNode_id
    intro nd' hnd'
    rw [hn] at hnd'
    have : nd' = nd := by simpa using hnd'.symm
    subst this
    exact addArp_known nd' _ _ _ es hes
  simp only [hostRecv, hn, hi, hon, if_true, hlearn, hpl]


theorem replyCount_bump (l : List (Nat × Nat)) (ident : Nat) (h : replyCount l ident = none) :
    replyCount (bumpReply l ident) ident = some 1 := by
  unfold replyCount at h ⊢
  unfold bumpReply
  cases hf : l.find? (fun e => e.1 == ident) with
  | some x => rw [hf] at h; simp at h
  | none =>
    simp only [List.find?_append, hf, Option.none_or]
    simp

/-- what a single-NIC host needs for a warm exchange with the off-link address `peerIp` through its gateway. -/
structure WarmHost (N : List Node) (n : Nat) (nd : Node) (ifc : Iface) (peerIp : Ip) (e : ArpEntry) (r i : Nat) : Prop where
  node : N[n]? = some nd
  kind : nd.kind = .host
  on : nd.on = true
  ifs : nd.ifaces = [ifc]
  enabled : ifc.enabled = true
  offlink : ifc.inNet peerIp = false
  gw : ∃ g, nd.gateway = some g ∧ nd.arpGet g = some e
  e0 : e.ifc = 0
  peer : ifc.peer = some (r, i)
  peerUp : ∃ p, (N[r]?).bind (·.ifaces[i]?) = some p ∧ p.enabled = true
  knowsPeer : ∃ es, nd.arpGet peerIp = some es
  macOk : ifc.mac ≠ bcastMac
  gwMacOk : e.mac ≠ bcastMac

/-- LIVENESS, warm caches: two powered-on single-NIC hosts, each with a resolved default gateway, joined by chains of
`k1` (forward) and `k2` (backward) directly linked routers whose caches are warm and whose routes (static or default,
selected by `find_best_route`) lead along the chain; every device permits ICMP (default router ACL). Then one `ping`
returns `True`: the request reaches B's software, B answers, the reply reaches A's software and is counted. -/
theorem C08_permitted_exchange_succeeds_warm (st : St) (a b : Nat) (ndA ndB : Node) (ifA ifB : Iface) (eA eB : ArpEntry)
    (r1 i1 r2 i2 : Nat) (fsA fsB : Mac) (k1 k2 fuel : Nat)
    (hA : WarmHost st.nodes a ndA ifA ifB.ip eA r1 i1) (hB : WarmHost st.nodes b ndB ifB ifA.ip eB r2 i2)
    (hrep : replyCount ndA.replies st.nextId = none)
    (cAB : Chain st.nodes ifA.ip ifB.ip r1 i1 eA.mac b 0 fsB ifB.mac k1)
    (cBA : Chain st.nodes ifB.ip ifA.ip r2 i2 eB.mac a 0 fsA ifA.mac k2)
    (hk1 : k1 ≤ 30) (hk2 : k2 ≤ 30) :
    (ping (fuel + 4 * (k1 + k2) + 8) st a ifB.ip 1).2 = true := by
  obtain ⟨gA, hAg, hAe⟩ := hA.gw
  obtain ⟨gB, hBg, hBe⟩ := hB.gw
  obtain ⟨pA, hpA, hpAen⟩ := hA.peerUp
  obtain ⟨pB, hpB, hpBen⟩ := hB.peerUp
  obtain ⟨esA, hesA⟩ := hA.knowsPeer
  obtain ⟨esB, hesB⟩ := hB.knowsPeer
  -- every intermediate state has the same node list
  have nodeA : ∀ X : St, X.nodes = st.nodes → X.node? a = some ndA := fun X hX => by unfold St.node?; rw [hX]; exact hA.node
  have nodeB : ∀ X : St, X.nodes = st.nodes → X.node? b = some ndB := fun X hX => by unfold St.node?; rw [hX]; exact hB.node
  have ifP1 : ∀ X : St, X.nodes = st.nodes → X.iface? r1 i1 = some pA := fun X hX => by unfold St.iface?; rw [hX]; exact hpA
  have ifP2 : ∀ X : St, X.nodes = st.nodes → X.iface? r2 i2 = some pB := fun X hX => by unfold St.iface?; rw [hX]; exact hpB
  -- 1. A sends the request
  let st1 : St := { st with nextId := st.nextId + 1 }
  let ident := st.nextId
  have s1 : sendIcmp (fuel + 4 * (k1 + k2) + 8) st1 a ifB.ip (.echoReq ident) =
      (ifaceRecv (fuel + 4 * (k1 + k2) + 5 + 1) { st1 with nextId := st1.nextId + 1 } r1 i1
        (mkFrame st1 ifA eA.mac ifB.ip (.echoReq ident))).1 :=
    host_send_warm (fuel + 4 * (k1 + k2) + 5) st1 a ndA ifA pA ifB.ip gA eA (.echoReq ident) r1 i1 (nodeA st1 rfl) hA.kind
      hA.ifs hA.enabled hA.offlink hAg hAe hA.e0 hA.peer (ifP1 st1 rfl) hpAen
  -- 2. the request travels the forward chain
  obtain ⟨L1, f1, j1, f1s, f1d, f1p, _, f1m, f1t, _⟩ := journey cAB (fuel + 4 * k2 + 5)
    { st1 with nextId := st1.nextId + 1 } (mkFrame st1 ifA eA.mac ifB.ip (.echoReq ident)) rfl rfl rfl rfl hA.gwMacOk
    (Or.inl ⟨ident, rfl⟩) (by simp [mkFrame, initTtl]; omega)
  have hf1 : fuel + 4 * (k1 + k2) + 5 + 1 = fuel + 4 * k2 + 5 + 4 * k1 + 1 := by omega
  rw [hf1, j1] at s1
  -- 3. B's NIC accepts it and hands it to software
  generalize hst3 : ({ ({ st1 with nextId := st1.nextId + 1 } : St) with
    log := L1 ++ ({ st1 with nextId := st1.nextId + 1 } : St).log } : St) = st3 at s1
  have n3 : st3.nodes = st.nodes := by rw [← hst3]
  have f1ttl : 2 ≤ f1.ttl := by rw [f1t]; simp [mkFrame, initTtl]; omega
  rw [host_end (fuel + 4 * k2 + 5) st3 b ndB ifB f1 (nodeB st3 n3) hB.kind hB.ifs f1m hB.macOk f1d f1ttl] at s1
  -- 4. B's ICMP answers
  have hf1dec : f1.dec.srcIp = ifA.ip ∧ f1.dec.dstIp = ifB.ip ∧ f1.dec.pl = .echoReq ident := ⟨f1s, f1d, f1p⟩
  rw [host_echo_req (fuel + 4 * k2 + 4) (st3.emit (.rx b 0 f1.id f1.ttl)) b ndB ifB f1.dec ident esB
    (nodeB _ n3) hB.on hB.ifs hf1dec.2.2 hf1dec.2.1 (by rw [hf1dec.1]; exact hesB)] at s1
  generalize hst4 : (st3.emit (.rx b 0 f1.id f1.ttl)).emit (.sw b f1.dec.id f1.dec.dstIp (f1.dec.dstMac == bcastMac)) = st4 at s1
  have n4 : st4.nodes = st.nodes := by rw [← hst4]; exact n3
  have hro : resolveOut (fuel + 4 * k2 + 4) st4 b f1.dec.srcIp = (st4, some eB.ifc) := by
    rw [hf1dec.1]
    exact host_resolveOut_warm (fuel + 4 * k2 + 2) st4 b ndB ifB ifA.ip gB eB (nodeB st4 n4) hB.kind hB.ifs hB.enabled
      hB.offlink hBg hBe
  simp only [hro] at s1
  rw [hf1dec.1] at s1
  rw [host_send_warm (fuel + 4 * k2 + 1) st4 b ndB ifB pB ifA.ip gB eB (.echoRep ident) r2 i2 (nodeB st4 n4) hB.kind hB.ifs
    hB.enabled hB.offlink hBg hBe hB.e0 hB.peer (ifP2 st4 n4) hpBen] at s1
  -- 5. the reply travels the backward chain
  obtain ⟨L2, g1, j2, g1s, _, g1p, _, g1m, g1t, _⟩ := journey cBA (fuel + 1)
    { st4 with nextId := st4.nextId + 1 } (mkFrame st4 ifB eB.mac ifA.ip (.echoRep ident)) n4 rfl rfl rfl hB.gwMacOk
    (Or.inr ⟨ident, rfl⟩) (by simp [mkFrame, initTtl]; omega)
  have hf2 : fuel + 4 * k2 + 1 + 1 = fuel + 1 + 4 * k2 + 1 := by omega
  rw [hf2, j2] at s1
  generalize hst6 : ({ ({ st4 with nextId := st4.nextId + 1 } : St) with
    log := L2 ++ ({ st4 with nextId := st4.nextId + 1 } : St).log } : St) = st6 at s1
  have n6 : st6.nodes = st.nodes := by rw [← hst6]; exact n4
  have g1ttl : 2 ≤ g1.ttl := by rw [g1t]; simp [mkFrame, initTtl]; omega
  have g1d : g1.dstIp = ifA.ip := by assumption
  rw [host_end (fuel + 1) st6 a ndA ifA g1 (nodeA st6 n6) hA.kind hA.ifs g1m hA.macOk g1d g1ttl] at s1
  -- 6. A's ICMP counts the reply
  rw [host_echo_rep fuel (st6.emit (.rx a 0 g1.id g1.ttl)) a ndA ifA g1.dec ident esA (nodeA _ n6) hA.on hA.ifs g1p
    (by rw [show g1.dec.srcIp = g1.srcIp from rfl, g1s]; exact hesA)] at s1
  -- 7. `ping` reads the counter
  have hro1 : resolveOut (fuel + 4 * (k1 + k2) + 8) st1 a ifB.ip = (st1, some eA.ifc) :=
    host_resolveOut_warm (fuel + 4 * (k1 + k2) + 6) st1 a ndA ifA ifB.ip gA eA (nodeA st1 rfl) hA.kind hA.ifs hA.enabled
      hA.offlink hAg hAe
  unfold ping
  simp only [st1, ident] at hro1 s1
  simp only [nodeA st rfl, hA.on, Bool.not_true, Bool.false_eq_true, if_false, List.range_one, List.foldl_cons, List.foldl_nil,
    hro1, s1]
  simp only [node?_modNode, if_true, node?_emit, nodeA st6 n6, Option.map_some, Bool.true_and]
  rw [replyCount_bump ndA.replies st.nextId hrep]
  rfl


/-! ### non-vacuity: host A — router — host B with warm caches -/

def wA : Node :=
  { kind := .host, gateway := some 0xC0A80101#32,
    ifaces := [{ mac := 1, ip := 0xC0A80102#32, plen := 24, enabled := true, peer := some (1, 0) }],
    arp := [{ ip := 0xC0A80101#32, mac := 2, ifc := 0 }, { ip := 0xC0A80202#32, mac := 2, ifc := 0 }] }
def wR : Node :=
  { kind := .router,
    ifaces := [{ mac := 2, ip := 0xC0A80101#32, plen := 24, enabled := true, peer := some (0, 0) },
               { mac := 3, ip := 0xC0A80201#32, plen := 24, enabled := true, peer := some (2, 0) }],
    arp := [{ ip := 0xC0A80102#32, mac := 1, ifc := 0 }, { ip := 0xC0A80202#32, mac := 4, ifc := 1 }] }
def wB : Node :=
  { kind := .host, gateway := some 0xC0A80201#32,
    ifaces := [{ mac := 4, ip := 0xC0A80202#32, plen := 24, enabled := true, peer := some (1, 1) }],
    arp := [{ ip := 0xC0A80201#32, mac := 3, ifc := 0 }, { ip := 0xC0A80102#32, mac := 3, ifc := 0 }] }
def wSt : St := { nodes := [wA, wR, wB] }

theorem wHopAB : Hop wSt.nodes 0xC0A80102#32 0xC0A80202#32 1 0 2 2 0 3 4 :=
  ⟨⟨wR, wR.ifaces[0], { ip := 0xC0A80102#32, mac := 1, ifc := 0 }, { ip := 0xC0A80202#32, mac := 4, ifc := 1 }, wR.ifaces[1],
    wB.ifaces[0], by decide, by decide, by decide, by decide, by decide, by decide, by decide, Or.inr ⟨by decide, by decide⟩,
    by decide, by decide, by decide, by decide, by decide, by decide, by decide⟩⟩

theorem wHopBA : Hop wSt.nodes 0xC0A80202#32 0xC0A80102#32 1 1 3 0 0 2 1 :=
  ⟨⟨wR, wR.ifaces[1], { ip := 0xC0A80202#32, mac := 4, ifc := 1 }, { ip := 0xC0A80102#32, mac := 1, ifc := 0 }, wR.ifaces[0],
    wA.ifaces[0], by decide, by decide, by decide, by decide, by decide, by decide, by decide, Or.inr ⟨by decide, by decide⟩,
    by decide, by decide, by decide, by decide, by decide, by decide, by decide⟩⟩

/-- the hypotheses of the liveness theorem hold for a concrete routed network, and the theorem gives the result. -/
example : (ping (0 + 4 * (1 + 1) + 8) wSt 0 0xC0A80202#32 1).2 = true :=
  C08_permitted_exchange_succeeds_warm wSt 0 2 wA wB wA.ifaces[0] wB.ifaces[0]
    { ip := 0xC0A80101#32, mac := 2, ifc := 0 } { ip := 0xC0A80201#32, mac := 3, ifc := 0 } 1 0 1 1 2 3 1 1 0
    ⟨by decide, by decide, by decide, by decide, by decide, by decide, ⟨0xC0A80101#32, by decide, by decide⟩, by decide, by decide,
      ⟨wR.ifaces[0], by decide, by decide⟩, ⟨{ ip := 0xC0A80202#32, mac := 2, ifc := 0 }, by decide⟩, by decide, by decide⟩
    ⟨by decide, by decide, by decide, by decide, by decide, by decide, ⟨0xC0A80201#32, by decide, by decide⟩, by decide, by decide,
      ⟨wR.ifaces[1], by decide, by decide⟩, ⟨{ ip := 0xC0A80102#32, mac := 3, ifc := 0 }, by decide⟩, by decide, by decide⟩
    (by decide) (Chain.last wHopAB) (Chain.last wHopBA) (by decide) (by decide)

end Primaite.Forward
