/-
C10 — semantic tie of the two graph functions (src/primaite/game/science.py).

`Gen.Reward.FT` and `Gen.Reward.FC` are the bodies of `topological_sort` and `graph_has_cycle`,
translated statement by statement on every run (harness/extract/reward_graph.py) into the language of
Model/RewardGraphLang.lean.  Proved here, for EVERY graph (any node type, any key / neighbour order, dangling and repeated
neighbours) and EVERY unfolding depth: interpreting the translated bodies gives exactly `topoSortF` / `hasCycleF` of
Model/RewardGraph.lean — the functions about which `C10_has_cycle_sound_complete`, `C10_topo_deps_first`, `C10_topo_nodup`,
`C10_graph_order_irrelevant`, `C10_cyclic_rejected`, `C10_acyclic_accepted` … are stated.  A rewrite of either function that
changes what it computes refutes these theorems; one that keeps the meaning and the statement structure keeps them.
(These replace the text ties `shape:topological_sort` / `shape:graph_has_cycle`.)
-/
import PrimaiteModel.Model.RewardGraphLang
import PrimaiteModel.Gen.RewardGraph
import PrimaiteModel.Lemmas.RewardGraphTop
import PrimaiteModel.Lemmas.RewardGraphCycle
namespace Primaite.RewardGraph.Lang
open Primaite.RewardGraph

variable {α : Type} [DecidableEq α]

/-- the translated functions (short names) -/
abbrev FT : Fn := Primaite.Gen.RewardGraph.fn_topological_sort
abbrev FC : Fn := Primaite.Gen.RewardGraph.fn_graph_has_cycle

/-- the containers of `topological_sort`: `visited`, `stack` -/
def tcs (st : List α × List α) : Conts α := [("c0", (true, st.1)), ("c1", (false, st.2))]

theorem topo_loop (g : Graph α) (call : Call α) (f : List α × List α → α → List α × List α)
    (h : ∀ st n, call (tcs st) n = .ok (tcs (f st n), .none)) (loc : List (String × α)) :
    ∀ (ms : List α) (st : List α × List α),
      loopS (fun w cs' => exec g call (.callS "v0") (("v0", w) :: loc) cs') ms (tcs st) = .ok (tcs (ms.foldl f st), none) := by
  intro ms
  induction ms with
  | nil => intro st; simp [loopS]
  | cons m ms ih =>
    intro st
    simp only [loopS, exec, List.lookup, beq_self_eq_true, h, List.foldl_cons]
    exact ih _

theorem topo_inner (g : Graph α) : ∀ (d : Nat) (st : List α × List α) (n : α),
    runInner g FT d (tcs st) n = .ok (tcs (tdfs g d st n), .none) := by
  intro d
  induction d with
  | zero => intro st n; simp [runInner, tdfs]
  | succ d ih =>
    intro st n
    obtain ⟨vis, stk⟩ := st
    have hl := topo_loop g (runInner g FT d) (tdfs g d) ih [("p", n)] (nbrs g n) (n :: vis, stk)
    simp only [runInner]
    -- the translated body is unfolded only where it is executed; the recursive calls stay abstract (`call`, known by `ih`)
    generalize runInner g FT d = call at hl ⊢
    simp only [tcs] at hl
    by_cases hv : n ∈ vis
    · simp [FT, Primaite.Gen.RewardGraph.fn_topological_sort, exec, evalCond, tcs, tdfs, hv, List.lookup]
    · simp [FT, Primaite.Gen.RewardGraph.fn_topological_sort, exec, evalCond, tcs, tdfs, hv, List.lookup, put] at hl ⊢
      simp [hl, List.lookup, put]

/-- interpreting the translated `topological_sort` on ANY graph, recursion unfolded to ANY depth `d`, returns the model's
`topoSortF g d` (the list `stack`) -/
theorem topo_run (g : Graph α) (d : Nat) :
    runFn g FT d = .ok (.list (topoSortF g d)) := by
  have hl := topo_loop g (runInner g FT d) (tdfs g d) (topo_inner g d) [] (keys g) ([], [])
  simp only [runFn]
  generalize runInner g FT d = call at hl ⊢
  simp only [tcs] at hl
  simp [FT, Primaite.Gen.RewardGraph.fn_topological_sort, exec, put, List.lookup] at hl ⊢
  simp [hl, List.lookup, topoSortF]

/-! ### `graph_has_cycle` -/

/-- the containers of `graph_has_cycle`: `visited`, `currently_visiting` -/
def ccs (st : CSt α) : Conts α := [("c0", (true, st.1)), ("c1", (true, st.2))]

/-- nothing leaves `currently_visiting` except the node a call itself put there -/
theorem cdfs_cur_sub (g : Graph α) : ∀ (d : Nat) (st : CSt α) (n : α), ∀ x ∈ st.2, x ∈ (cdfs g d st n).2.2 := by
  intro d
  induction d with
  | zero => intro st n x hx; simpa [cdfs] using hx
  | succ d ih =>
    have hloop : ∀ (ms : List α) (st : CSt α), ∀ x ∈ st.2, x ∈ (loopE (cdfs g d) st ms).2.2 := by
      intro ms
      induction ms with
      | nil => intro st x hx; simpa [loopE] using hx
      | cons m ms ihm =>
        intro st x hx
        simp only [loopE]
        split
        · exact ih st m x hx
        · exact ihm _ x (ih st m x hx)
    intro st n x hx
    obtain ⟨vis, cur⟩ := st
    simp only [cdfs]
    split
    · exact hx
    · rename_i hnc
      split
      · exact hx
      · have h1 := hloop (nbrs g n) (n :: vis, n :: cur) x (List.mem_cons_of_mem _ hx)
        split
        · exact h1
        · have hne : x ≠ n := fun h => hnc (h ▸ hx)
          exact (List.mem_erase_of_ne hne).mpr h1

theorem cyc_loop (g : Graph α) (call : Call α) (f : CSt α → α → Bool × CSt α) (r : CSt α → α → RVal α)
    (h : ∀ st n, call (ccs st) n = .ok (ccs (f st n).2, r st n)) (hr : ∀ st n, (r st n).truthy = (f st n).1)
    (loc : List (String × α)) :
    ∀ (ms : List α) (st : CSt α),
      loopS (fun w cs' => exec g call (.ite (.call "v0") (.retBool true) .pass) (("v0", w) :: loc) cs') ms (ccs st)
        = .ok (ccs (loopE f st ms).2, if (loopE f st ms).1 then some (.bool true) else none) := by
  intro ms
  induction ms with
  | nil => intro st; simp [loopS, loopE]
  | cons m ms ih =>
    intro st
    have hhead : exec g call (.ite (.call "v0") (.retBool true) .pass) (("v0", m) :: loc) (ccs st) =
        if (f st m).1 then .ok (ccs (f st m).2, some (.bool true)) else .ok (ccs (f st m).2, none) := by
      simp [exec, evalCond, List.lookup, h, hr]
    simp only [loopS, loopE, hhead]
    by_cases hb : (f st m).1 = true
    · simp only [hb, if_true]
    · simp only [hb, if_false]
      exact ih _

/-- the value a call returns at unfolding depth `d` when the model answers `b` (`None` at depth 0, where the model answers `false`) -/
def rv : Nat → Bool → RVal α
  | 0, _ => .none
  | _ + 1, b => .bool b

theorem cyc_inner (g : Graph α) : ∀ (d : Nat) (st : CSt α) (n : α),
    runInner g FC d (ccs st) n = .ok (ccs (cdfs g d st n).2, rv d (cdfs g d st n).1) := by
  intro d
  induction d with
  | zero => intro st n; simp [runInner, cdfs, rv]
  | succ d ih =>
    intro st n
    obtain ⟨vis, cur⟩ := st
    have hr : ∀ (st : CSt α) (m : α), (rv d (cdfs g d st m).1 : RVal α).truthy = (cdfs g d st m).1 := by
      intro st m
      cases d with
      | zero => simp [rv, cdfs, RVal.truthy]
      | succ d => simp [rv, RVal.truthy]
    have hl := cyc_loop g (runInner g FC d) (cdfs g d) (fun st m => rv d (cdfs g d st m).1) ih hr [("p", n)]
      (nbrs g n) (n :: vis, n :: cur)
    have hsub := cdfs_cur_sub g d
    simp only [runInner]
    generalize runInner g FC d = call at hl ⊢
    by_cases hc : n ∈ cur
    · simp [FC, Primaite.Gen.RewardGraph.fn_graph_has_cycle, exec, evalCond, ccs, cdfs, hc, List.lookup, rv]
    · by_cases hv : n ∈ vis
      · simp [FC, Primaite.Gen.RewardGraph.fn_graph_has_cycle, exec, evalCond, ccs, cdfs, hc, hv, List.lookup, rv]
      · have hin : n ∈ (loopE (cdfs g d) (n :: vis, n :: cur) (nbrs g n)).2.2 := by
          have hloop : ∀ (ms : List α) (st : CSt α), ∀ x ∈ st.2, x ∈ (loopE (cdfs g d) st ms).2.2 := by
            intro ms
            induction ms with
            | nil => intro st x hx; simpa [loopE] using hx
            | cons m ms ihm =>
              intro st x hx
              simp only [loopE]
              split
              · exact hsub st m x hx
              · exact ihm _ x (hsub st m x hx)
          exact hloop _ _ n (by simp)
        simp only [ccs] at hl
        simp [FC, Primaite.Gen.RewardGraph.fn_graph_has_cycle, exec, evalCond, ccs, cdfs, hc, hv, List.lookup, put, rv] at hl ⊢
        simp only [hl]
        by_cases hb : (loopE (cdfs g d) (n :: vis, n :: cur) (nbrs g n)).1 = true
        · simp [hb]
        · simp [hb, hin, List.lookup, put]

/-- interpreting the translated `graph_has_cycle` on ANY graph, recursion unfolded to ANY depth `d`, returns the model's
`hasCycleF g d` -/
theorem cyc_run (g : Graph α) (d : Nat) :
    runFn g FC d = .ok (.bool (hasCycleF g d)) := by
  have hr : ∀ (st : CSt α) (m : α), (rv d (cdfs g d st m).1 : RVal α).truthy = (cdfs g d st m).1 := by
    intro st m
    cases d with
    | zero => simp [rv, cdfs, RVal.truthy]
    | succ d => simp [rv, RVal.truthy]
  have hl := cyc_loop g (runInner g FC d) (cdfs g d) (fun st m => rv d (cdfs g d st m).1) (cyc_inner g d) hr []
    (keys g) ([], [])
  simp only [runFn]
  generalize runInner g FC d = call at hl ⊢
  simp only [ccs] at hl
  simp [FC, Primaite.Gen.RewardGraph.fn_graph_has_cycle, exec, put, List.lookup] at hl ⊢
  simp only [hl, hasCycleF]
  by_cases hb : (loopE (cdfs g d) ([], []) (keys g)).1 = true
  · simp [hb]
  · simp [hb]

/-! ### The obligations -/

/-- **`topological_sort` as translated from the source IS the model's `topoSort`**: for every graph (any node type, key order,
neighbour order, dangling / repeated neighbours), interpreting the translated body with the model's fuel returns the list
`topoSort g` — about which `C10_topo_deps_first`, `C10_topo_nodup`, `C10_graph_order_irrelevant` are proved. -/
theorem C10_gen_topological_sort (g : Graph α) :
    runFn g Primaite.Gen.RewardGraph.fn_topological_sort (fuelFor g) = .ok (.list (topoSort g)) := topo_run g (fuelFor g)

/-- the same at every unfolding depth (the interpretation and the model agree step by step, not only at the end) -/
theorem C10_gen_topological_sort_depth (g : Graph α) (d : Nat) :
    runFn g Primaite.Gen.RewardGraph.fn_topological_sort d = .ok (.list (topoSortF g d)) := topo_run g d

/-- **`graph_has_cycle` as translated from the source IS the model's `hasCycle`** (for every graph) — the function of
`C10_has_cycle_sound_complete` (`= true ↔ ∃ u, Path g u u`), `C10_cyclic_rejected`, `C10_acyclic_accepted`. In particular the
translated body never raises: `currently_visiting.remove(node)` always finds `node` (`cdfs_cur_sub`). -/
theorem C10_gen_graph_has_cycle (g : Graph α) :
    runFn g Primaite.Gen.RewardGraph.fn_graph_has_cycle (fuelFor g) = .ok (.bool (hasCycle g)) := cyc_run g (fuelFor g)

theorem C10_gen_graph_has_cycle_depth (g : Graph α) (d : Nat) :
    runFn g Primaite.Gen.RewardGraph.fn_graph_has_cycle d = .ok (.bool (hasCycleF g d)) := cyc_run g d

/-- consequently: the translated `graph_has_cycle` answers `True` exactly on the graphs with a cycle, and on every other graph the
translated `topological_sort` returns a dependencies-first order (statement of the property, on the translated code) -/
theorem C10_gen_graph_functions_correct (g : Graph α) :
    (runFn g Primaite.Gen.RewardGraph.fn_graph_has_cycle (fuelFor g) = .ok (.bool true) ↔ ∃ u, Path g u u) ∧
    ((¬ ∃ u, Path g u u) → ∃ l, runFn g Primaite.Gen.RewardGraph.fn_topological_sort (fuelFor g) = .ok (.list l) ∧ DepsFirst g l ∧
      ∀ k ∈ keys g, k ∈ l) := by
  rw [C10_gen_graph_has_cycle, C10_gen_topological_sort]
  refine ⟨?_, fun h => ?_⟩
  · have hiff : hasCycle g = true ↔ ∃ u, Path g u u := by
      rw [hasCycle_iff_not_acyclic]
      unfold Acyclic
      constructor
      · intro h
        apply Classical.byContradiction
        intro hn
        exact h (fun u p => hn ⟨u, p⟩)
      · rintro ⟨u, p⟩ h
        exact h u p
    rw [← hiff]
    constructor
    · intro h; injection h with h; injection h
    · intro h; rw [h]
  · have hac : Acyclic g := fun u hp => h ⟨u, hp⟩
    obtain ⟨hd, hk⟩ := topoSort_depsFirst' g hac
    exact ⟨_, rfl, hd, hk⟩

theorem not_acyclic_iff (g : Graph α) : ¬ Acyclic g ↔ ∃ u, Path g u u := by
  unfold Acyclic
  constructor
  · intro h
    apply Classical.byContradiction
    intro hn
    exact h (fun u p => hn ⟨u, p⟩)
  · rintro ⟨u, p⟩ h
    exact h u p

/-- **the unfolding bound is immaterial**: at EVERY depth `d ≥ fuelFor g` (number of entries of the node universe + 1; so also for
Python's own recursion, whenever the graph fits its recursion limit) the translated `graph_has_cycle` returns a truth value that is
`True` exactly on the graphs with a cycle, and on every other graph the translated `topological_sort` returns a dependencies-first
list containing every key. (At depth exhaustion the interpreter's call "does nothing and returns `None`" — this theorem shows no
conclusion depends on that convention.) -/
theorem C10_gen_graph_functions_correct_any_depth (g : Graph α) (d : Nat) (hd : fuelFor g ≤ d) :
    (runFn g Primaite.Gen.RewardGraph.fn_graph_has_cycle d = .ok (.bool true) ↔ ∃ u, Path g u u) ∧
    (∃ b, runFn g Primaite.Gen.RewardGraph.fn_graph_has_cycle d = .ok (.bool b)) ∧
    ((¬ ∃ u, Path g u u) → ∃ l, runFn g Primaite.Gen.RewardGraph.fn_topological_sort d = .ok (.list l) ∧ DepsFirst g l ∧
      ∀ k ∈ keys g, k ∈ l) := by
  have hmu : mu g [] < d := Nat.lt_of_lt_of_le (mu_lt_fuelFor g) hd
  rw [C10_gen_graph_has_cycle_depth, C10_gen_topological_sort_depth]
  refine ⟨?_, ⟨_, rfl⟩, fun h => ?_⟩
  · rw [← not_acyclic_iff, ← hasCycle_iff g d hmu]
    constructor
    · intro h; injection h with h; injection h
    · intro h; rw [h]
  · have hac : Acyclic g := fun u hp => h ⟨u, hp⟩
    obtain ⟨hdf, hk⟩ := topoSort_depsFirst g hac d hmu
    exact ⟨_, rfl, hdf, hk⟩

/-! Non-vacuity: the interpreter really runs the translated bodies (a diamond with its top first; a 2-cycle), and a body that is NOT
`topological_sort` (pre-order: `stack.append` before the neighbours) is told apart on the same diamond. -/
def asList : Except Err (RVal α) → Option (List α) | .ok (.list l) => some l | _ => none
def asBool : Except Err (RVal α) → Option Bool | .ok (.bool b) => some b | _ => none
def asErr : Except Err (RVal α) → Option Err | .error e => some e | _ => none
def exDiamond : Graph String := [("top", ["left", "right"]), ("left", ["bottom"]), ("right", ["bottom"]), ("bottom", [])]
example : asList (runFn exDiamond Primaite.Gen.RewardGraph.fn_topological_sort (fuelFor exDiamond))
    = some ["bottom", "left", "right", "top"] := by decide
example : asBool (runFn exDiamond Primaite.Gen.RewardGraph.fn_graph_has_cycle (fuelFor exDiamond)) = some false := by decide
example : asBool (runFn ([("a", ["b"]), ("b", ["a"])] : Graph String) Primaite.Gen.RewardGraph.fn_graph_has_cycle 3) = some true := by decide
example : asList (runFn exDiamond
    { param := "p",
      inner := .seq (.ite (.isIn "p" "c0") .retNone .pass) (.seq (.add "c0" "p") (.seq (.append "c1" "p") (.forNbrs "v0" "p" (.callS "v0")))),
      outer := .seq (.newSet "c0") (.seq (.newList "c1") (.seq (.forKeys "v0" (.callS "v0")) (.retCont "c1"))) } (fuelFor exDiamond))
    = some ["top", "left", "bottom", "right"] := by decide
/-- `remove` of an absent element raises, as in Python -/
example : asErr (runFn ([("a", [])] : Graph String)
    { param := "p", inner := .remove "c0" "p", outer := .seq (.newSet "c0") (.forKeys "v0" (.callS "v0")) } 2) = some .keyError := by decide

end Primaite.RewardGraph.Lang
