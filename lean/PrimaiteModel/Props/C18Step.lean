/-
C18, continued — the tick of the property is the STEP of an episode.

`Props/C18.lean` proves the bounds for "a tick" = `Op.tick` followed by any actions.  What a user, an agent and the observation
space call a tick is one *step* of the environment, and the code writes that loop three times (`PrimaiteGame.step`,
`PrimaiteGymEnv.step`, `PrimaiteRayMARLEnv.step`):

    self.game.pre_timestep()          -- Simulation.pre_timestep -> Network.pre_timestep: every load := 0      (Op.tick)
    self.game.apply_agent_actions()   -- the agents' requests: whatever traffic they cause                      (Op.act a)
    self.game.advance_timestep()      -- Simulation.apply_timestep: services / applications send their traffic  (Op.act b)

This file states the property for *steps*: the order above is read from the source on every run (`Gen.Link.stepLoops`,
obligation `C18_gen_step_loops`), `stepOpsOf` turns a call order into model operations, and the theorems speak about `episode`s
(lists of steps with arbitrary traffic forests `a`, `b`).  The two orders a careless edit produces — the reset moved behind the
agents' actions, the reset dropped / made conditional — are proved to violate the property (`…_counterexample`).
-/
import PrimaiteModel.Props.C18

namespace Primaite.Link

/-- The three calls of the step loop. -/
inductive StepCall where
  | preTimestep | applyAgentActions | advanceTimestep
deriving Repr, DecidableEq

/-- The name of the call in the source. -/
def StepCall.name : StepCall → String
  | .preTimestep => "pre_timestep"
  | .applyAgentActions => "apply_agent_actions"
  | .advanceTimestep => "advance_timestep"

/-- The order in which the code makes them (compared with the source: `C18_gen_step_loops`). -/
def stepOrder : List StepCall := [.preTimestep, .applyAgentActions, .advanceTimestep]

/-- One step written with the calls in `order`: `a` is what the agents' actions cause, `b` what `apply_timestep` causes. -/
def stepOpsOf (order : List StepCall) (a b : List Ev) : List Op :=
  order.map fun
    | .preTimestep => Op.tick
    | .applyAgentActions => Op.act a
    | .advanceTimestep => Op.act b

/-- One step of the code. -/
def gameStep (a b : List Ev) : List Op := stepOpsOf stepOrder a b

theorem gameStep_eq (a b : List Ev) : gameStep a b = [.tick, .act a, .act b] := rfl

/-- An episode (or any number of episodes on the same objects): one pair of forests per step. -/
def episodeOf (order : List StepCall) : List (List Ev × List Ev) → List Op
  | [] => []
  | s :: ss => stepOpsOf order s.1 s.2 ++ episodeOf order ss

def episode (steps : List (List Ev × List Ev)) : List Op := episodeOf stepOrder steps

theorem episode_cons (a b : List Ev) (ss : List (List Ev × List Ev)) :
    episode ((a, b) :: ss) = .tick :: .act a :: .act b :: episode ss := rfl

theorem episode_append (s t : List (List Ev × List Ev)) : episode (s ++ t) = episode s ++ episode t := by
  induction s with
  | nil => rfl
  | cons x xs ih =>
    obtain ⟨a, b⟩ := x
    simp only [List.cons_append, episode_cons, ih]

theorem episode_noCap (steps : List (List Ev × List Ev)) : NoCap (episode steps) := by
  induction steps with
  | nil => intro o ho; cases ho
  | cons x xs ih =>
    obtain ⟨a, b⟩ := x
    intro o ho
    rw [episode_cons] at ho
    simp only [List.mem_cons] at ho
    rcases ho with rfl | rfl | rfl | ho
    · rfl
    · rfl
    · rfl
    · exact ih o ho

/-- Run an episode step by step: the final state and, per step, the records of every `send_frame` of that step. -/
def runSteps (n : Net) : List (List Ev × List Ev) → Net × List (List Rec)
  | [] => (n, [])
  | s :: ss =>
    let r1 := runEvs (tick n) s.1
    let r2 := runEvs r1.1 s.2
    let r := runSteps r2.1 ss
    (r.1, (r1.2 ++ r2.2) :: r.2)

/-- The steps are exactly the segments `runSeg` cuts the history into (so they are what `run`, which the driver executes, does). -/
theorem runSeg_episode (n : Net) (cur : List Rec) (steps : List (List Ev × List Ev)) :
    runSeg n cur (episode steps) = ((runSteps n steps).1, cur :: (runSteps n steps).2) := by
  induction steps generalizing n cur with
  | nil => rfl
  | cons x xs ih =>
    obtain ⟨a, b⟩ := x
    rw [episode_cons]
    simp only [runSeg, runSteps, List.nil_append]
    rw [ih]

theorem runSteps_eq_run (n : Net) (steps : List (List Ev × List Ev)) :
    (runSteps n steps).1 = (run n (episode steps)).1 ∧ (runSteps n steps).2.flatten = (run n (episode steps)).2 := by
  have h := runSeg_eq_run n [] (episode steps)
  rw [runSeg_episode] at h
  simpa using h

/-- **Every step of every episode stays within capacity.**  Start anywhere (any network, any loads left over — e.g. by the traffic
of construction or of a previous episode), run any number of steps with any traffic in them (nested sends, floods, interfaces
toggled, deliveries cut short, airspace membership changing), the traffic caused by the agents' actions and the traffic caused by
`apply_timestep` together: in *each step*, for every wired link the data carried is within the bandwidth, for every wireless
channel the data sent is within the capacity, and per frequency-name capacity `C` the data sent under it is within `C`. -/
theorem C18_every_step_carried_le_bandwidth (n : Net) (steps : List (List Ev × List Ev)) :
    ∀ g ∈ (runSteps n steps).2,
      (∀ k, carriedOn false k g ≤ bwOf n k) ∧ (∀ c, carriedOn true c g ≤ capOf n c) ∧ (∀ c C, sentUnder c C g ≤ C) := by
  cases steps with
  | nil => intro g hg; cases hg
  | cons x xs =>
    obtain ⟨a, b⟩ := x
    intro g hg
    have hn : NoCap (.act a :: .act b :: episode xs) := by
      intro o ho
      simp only [List.mem_cons] at ho
      rcases ho with rfl | rfl | ho
      · rfl
      · rfl
      · exact episode_noCap xs o ho
    refine C18_carried_le_bandwidth_every_tick n (.act a :: .act b :: episode xs) hn g ?_
    have h := runSeg_episode n [] ((a, b) :: xs)
    rw [episode_cons] at h
    simp only [runSeg] at h
    have h2 := congrArg Prod.snd h
    simp only [List.cons.injEq, true_and] at h2
    simp only [runSeg]
    rw [h2]
    exact hg

/-- **Every step starts at zero**: whatever the steps before did (and whatever was down, disabled or gone from the airspace when
they ended), the state in which the traffic of the next step begins — the state right after the step's first call — has load 0 on
every wired link and every wireless channel. -/
theorem C18_every_step_starts_at_zero (n : Net) (before : List (List Ev × List Ev)) (a b : List Ev) :
    episode (before ++ [(a, b)]) = (episode before ++ [.tick]) ++ [.act a, .act b] ∧
    (∀ l ∈ (run n (episode before ++ [.tick])).1.links, l.load = 0) ∧
    (∀ c ∈ (run n (episode before ++ [.tick])).1.chans, c.load = 0) := by
  refine ⟨?_, (C18_every_tick_starts_at_zero n (episode before)).1, (C18_every_tick_starts_at_zero n (episode before)).2.1⟩
  rw [episode_append]
  simp only [episode, episodeOf, List.append_nil, List.append_assoc]
  rfl

/-- two steps on a link of 10 that starts with a stale load of 7: each step carries 8 (agents' traffic) and refuses the second 8
(the timestep's traffic); nothing of step 1 is left in step 2 -/
example :
    let n : Net := { links := [{ bw := 10, load := 7, enA := true, enB := true }], chans := [] }
    let r := runSteps n [([.send 0 true 8 true []], [.send 0 false 8 true []]), ([.send 0 true 8 true []], [])]
    r.2.map (carriedOn false 0) = [8, 8] ∧ r.2.map (·.map (·.verdict)) = [[.carried, .full], [.carried]] := by
  decide

/-! ### The orders the property excludes -/

/-- The property for a step loop written in `order`: each step's traffic on each link stays within the bandwidth.  (`carriedOn`
of the records of ONE step, i.e. of `run` over the operations of that step from the state the steps before left.) -/
def C18_Full_step_order (order : List StepCall) : Prop :=
  ∀ (n : Net) (before : List (List Ev × List Ev)) (a b : List Ev) (k : Nat),
    carriedOn false k (run (run n (episodeOf order before)).1 (stepOpsOf order a b)).2 ≤ bwOf n k

/-- It holds for the order of the code … -/
theorem C18_Full_step_order_holds : C18_Full_step_order stepOrder := by
  intro n before a b k
  -- the step is the last segment of `before ++ [(a, b)]`
  have hmem : (run (run n (episode before)).1 (gameStep a b)).2 ∈ (runSteps n (before ++ [(a, b)])).2 := by
    clear k
    induction before generalizing n with
    | nil =>
      simp only [List.nil_append, runSteps, gameStep_eq, run, step, episode, episodeOf, List.append_nil, List.nil_append]
      simp
    | cons x xs ih =>
      obtain ⟨a', b'⟩ := x
      have hrun : (run n (episode ((a', b') :: xs))).1 = (run (runEvs (runEvs (tick n) a').1 b').1 (episode xs)).1 := by
        rw [episode_cons]; simp only [run, step]
      rw [hrun]
      simp only [List.cons_append, runSteps]
      exact List.mem_cons_of_mem _ (ih _)
  exact (C18_every_step_carried_le_bandwidth n (before ++ [(a, b)]) _ hmem).1 k

/-- … not when the reset is moved behind the agents' actions (`apply_agent_actions(); pre_timestep(); advance_timestep()`): the
link of 10 carries 8 for the agents and 8 for the services in one step — 16. -/
theorem C18_step_reset_after_actions_counterexample :
    ¬ C18_Full_step_order [.applyAgentActions, .preTimestep, .advanceTimestep] := by
  intro h
  have := h { links := [{ bw := 10, load := 0, enA := true, enB := true }], chans := [] } []
    [.send 0 true 8 true []] [.send 0 true 8 true []] 0
  revert this
  decide

/-- … and when the reset is dropped (or skipped in some step), loads do not start the step at zero: after a step that carried 8 on
a link of 10, a frame of 5 that fits the empty link is dropped at the sender in the next step (and every later one: the link is
dead until something resets it), while the code's loop carries it. -/
theorem C18_step_without_reset_counterexample :
    let n : Net := { links := [{ bw := 10, load := 0, enA := true, enB := true }], chans := [] }
    let first : List (List Ev × List Ev) := [([.send 0 true 8 true []], [])]
    let noReset : List StepCall := [.applyAgentActions, .advanceTimestep]
    loadOf (run n (episodeOf noReset first)).1 0 = 8 ∧
    (run (run n (episodeOf noReset first)).1 (stepOpsOf noReset [.send 0 true 5 true []] [])).2.map (·.verdict) = [.full] ∧
    (run (run n (episode first)).1 (gameStep [.send 0 true 5 true []] [])).2.map (·.verdict) = [.carried] := by
  decide

/-! ### Tie to the source -/

/-- Every place where the step loop is written makes the three calls in `stepOrder`, each exactly once, each as a plain
top-level statement (a call under an `if` / loop / `try` would read `… (conditional)`); nothing else calls
`apply_agent_actions` / `advance_timestep`. -/
theorem C18_gen_step_loops :
    Gen.Link.stepLoops = [
      ("environment.py:PrimaiteGymEnv.step", stepOrder.map StepCall.name),
      ("game.py:PrimaiteGame.step", stepOrder.map StepCall.name),
      ("ray_envs.py:PrimaiteRayMARLEnv.step", stepOrder.map StepCall.name)] := by decide

/-- The calls that open and run a tick of the whole simulation: the game's two wrappers and `Simulation`'s two methods, nothing
else (so a tick boundary happens exactly where a step loop puts it). -/
theorem C18_gen_timestep_drivers :
    Gen.Link.timestepDrivers = [
      "game.py:PrimaiteGame.advance_timestep:self.simulation.apply_timestep",
      "game.py:PrimaiteGame.pre_timestep:self.simulation.pre_timestep",
      "sim_container.py:Simulation.apply_timestep:self.network.apply_timestep",
      "sim_container.py:Simulation.pre_timestep:self.network.pre_timestep"] := by decide

end Primaite.Link
