/-
C19, part 3 (round 3) — RUN-LEVEL theorems: statements about every tick of every run from the constructor (any run
length, any draws, any response sequence), proved by induction over the tick list with reachable-state invariants.

* the kill chains over whole runs: stage order / no skipping / restart only per settings, "stops or restarts at the
  end according to its repeat settings" with the failure branches, as ONE theorem per agent (`C19_tap{1,3}_kill_chain_run`);
* `actions_concluded` characterised exactly over a run (set at the first execution slot that finds the chain ended,
  never otherwise, never cleared);
* TAP003: `progress_only_after_success` against the run's own response sequence, and "EXPLOIT.probability ≤ 0 ⇒ no ACL
  command is ever issued and the chain never succeeds";
* the assembled gap theorem: gaps between consecutive *acting* ticks of a TAP are sums of consecutive slot gaps.
-/
import PrimaiteModel.Props.C19Sched
namespace Primaite.Agents

/-! ## 13. Gaps between the elements of a sublist of a gap list -/

/-- Consecutive differences are `k` gaps of `[lo, hi]` each, for some `k ≥ 1` (what is left of `GapsIn` when elements
are dropped from the list). -/
def MultiGaps (lo hi : Int) : List Int → Prop
  | [] => True
  | [_] => True
  | a :: b :: rest => (∃ k : Nat, 1 ≤ k ∧ (k : Int) * lo ≤ b - a ∧ b - a ≤ (k : Int) * hi) ∧ MultiGaps lo hi (b :: rest)

theorem gapsIn_tail (lo hi : Int) (a : Int) (l : List Int) (h : GapsIn lo hi (a :: l)) : GapsIn lo hi l := by
  cases l with
  | nil => trivial
  | cons b r => exact h.2

theorem gaps_reach (lo hi : Int) : ∀ (l : List Int) (a b : Int) (m : List Int), GapsIn lo hi (a :: l) →
    (b :: m).Sublist l → ∃ k : Nat, 1 ≤ k ∧ (k : Int) * lo ≤ b - a ∧ b - a ≤ (k : Int) * hi := by
  intro l
  induction l with
  | nil => intro a b m _ hs; cases hs
  | cons x l ih =>
    intro a b m hg hs
    have hx : lo ≤ x - a ∧ x - a ≤ hi := hg.1
    have hg' : GapsIn lo hi (x :: l) := hg.2
    cases hs with
    | cons _ hs' =>
      obtain ⟨k, hk1, hk2, hk3⟩ := ih x b m hg' hs'
      refine ⟨k + 1, by omega, ?_, ?_⟩
      · have e : ((k + 1 : Nat) : Int) * lo = (k : Int) * lo + lo := by
          rw [show ((k + 1 : Nat) : Int) = (k : Int) + 1 by omega, Int.add_mul, Int.one_mul]
        rw [e]; omega
      · have e : ((k + 1 : Nat) : Int) * hi = (k : Int) * hi + hi := by
          rw [show ((k + 1 : Nat) : Int) = (k : Int) + 1 by omega, Int.add_mul, Int.one_mul]
        rw [e]; omega
    | cons_cons _ _ =>
      exact ⟨1, Nat.le_refl 1, by simp; omega, by simp; omega⟩

/-- **Sublists of a gap list.** If consecutive elements of `l` are `[lo, hi]` apart, consecutive elements of any
sublist of `l` are `k · [lo, hi]` apart, `k − 1` being the number of elements dropped in between. -/
theorem multiGaps_of_sublist (lo hi : Int) : ∀ (l m : List Int), GapsIn lo hi l → m.Sublist l → MultiGaps lo hi m := by
  intro l
  induction l with
  | nil => intro m _ hs; cases hs; trivial
  | cons x l ih =>
    intro m hg hs
    have hg' := gapsIn_tail lo hi x l hg
    cases hs with
    | cons _ hs' => exact ih _ hg' hs'
    | cons_cons _ hs' =>
      rename_i m'
      cases m' with
      | nil => trivial
      | cons b m'' => exact ⟨gaps_reach lo hi l x b m'' hg hs', ih _ hg' hs'⟩

/-- Consecutive differences are at least `lo`. -/
def GapsAtLeast (lo : Int) : List Int → Prop
  | [] => True
  | [_] => True
  | a :: b :: rest => lo ≤ b - a ∧ GapsAtLeast lo (b :: rest)

/-- With a non-negative lower bound, the elements of a sublist are still at least `lo` apart. -/
theorem multiGaps_atLeast (lo hi : Int) (hlo : 0 ≤ lo) : ∀ (m : List Int), MultiGaps lo hi m → GapsAtLeast lo m := by
  intro m
  induction m with
  | nil => intro _; trivial
  | cons a m ih =>
    intro h
    cases m with
    | nil => trivial
    | cons b r =>
      obtain ⟨⟨k, hk1, hk2, _⟩, hrest⟩ := h
      refine ⟨?_, ih hrest⟩
      have h1 : (1 : Int) * lo ≤ (k : Int) * lo := Int.mul_le_mul_of_nonneg_right (by omega) hlo
      rw [Int.one_mul] at h1
      omega

/-- Consecutive elements are non-decreasing … -/
def ChainLe : List Nat → Prop
  | [] => True
  | [_] => True
  | a :: b :: r => a ≤ b ∧ ChainLe (b :: r)

/-- … hence the whole list is sorted. -/
theorem pairwise_of_chainLe : ∀ l : List Nat, ChainLe l → l.Pairwise (· ≤ ·)
  | [], _ => List.Pairwise.nil
  | [a], _ => List.pairwise_singleton _ _
  | a :: b :: r, h => by
    have ih := pairwise_of_chainLe (b :: r) h.2
    refine List.pairwise_cons.2 ⟨?_, ih⟩
    intro x hx
    rcases List.mem_cons.1 hx with rfl | hx
    · exact h.1
    · exact Nat.le_trans h.1 ((List.pairwise_cons.1 ih).1 x hx)

/-! ## 14. TAP001 over whole runs -/
namespace Tap1

/-! frame lemmas: no stage method touches `current_timestep` or `history` -/

@[simp] theorem ct_failStage (c : Cfg) (s : St) : (failStage c s).curT = s.curT := by
  unfold failStage; split <;> rfl
@[simp] theorem ct_progress (s : St) : (progress s).curT = s.curT := by
  unfold progress; repeat' split
  all_goals simp [St.raise]
@[simp] theorem ct_progressIfFinished (s : St) : (progressIfFinished s).curT = s.curT := by
  unfold progressIfFinished; split <;> simp
@[simp] theorem ct_payloadHandler (s : St) : (payloadHandler s).1.curT = s.curT := by
  unfold payloadHandler; repeat' split
  all_goals simp
@[simp] theorem ct_payloadContinue (s : St) : (payloadContinue s).curT = s.curT := by
  unfold payloadContinue; split <;> simp
@[simp] theorem ct_payloadEnter (c : Cfg) (i : In) (s : St) : (payloadEnter c i s).curT = s.curT := by
  unfold payloadEnter; repeat' split
  all_goals simp
@[simp] theorem ct_payload (c : Cfg) (i : In) (s : St) : (payload c i s).curT = s.curT := by
  unfold payload; split <;> simp
@[simp] theorem ct_c2c (c : Cfg) (i : In) (s : St) : (c2c c i s).curT = s.curT := by
  unfold c2c; repeat' split
  all_goals simp
@[simp] theorem ct_updateNextScanTarget (c : Cfg) (i : In) (e : Bool) (s : St) :
    (updateNextScanTarget c i e s).curT = s.curT := by
  unfold updateNextScanTarget; repeat' split
  all_goals simp
@[simp] theorem ct_scanResponseHandler (c : Cfg) (i : In) (r : Resp) (s : St) :
    (scanResponseHandler c i r s).curT = s.curT := by
  unfold scanResponseHandler; repeat' split
  all_goals simp
@[simp] theorem ct_scanMark (p : Hist) (s : St) : (scanMark p s).curT = s.curT := by
  unfold scanMark; split <;> simp
@[simp] theorem ct_scanAbsorb (c : Cfg) (i : In) (p : Hist) (s : St) : (scanAbsorb c i p s).curT = s.curT := by
  unfold scanAbsorb; split <;> simp
@[simp] theorem ct_scanLogic (s : St) : (scanLogic s).1.curT = s.curT := by
  unfold scanLogic; repeat' split
  all_goals simp
@[simp] theorem ct_scanAction (ty : ScanType) (s : St) : (scanAction ty s).curT = s.curT := by
  unfold scanAction; split <;> simp
@[simp] theorem ct_scanProgress (s : St) : (scanProgress s).1.curT = s.curT := by
  unfold scanProgress; repeat' split
  all_goals simp
@[simp] theorem ct_scanDecide (c : Cfg) (s : St) : (scanDecide c s).1.curT = s.curT := by
  unfold scanDecide; split <;> simp
@[simp] theorem ct_scanHandler (c : Cfg) (i : In) (s : St) : (scanHandler c i s).1.curT = s.curT := by
  unfold scanHandler; repeat' split
  all_goals simp [St.raise]
@[simp] theorem ct_propagatePrep (c : Cfg) (s : St) : (propagatePrep c s).curT = s.curT := by
  unfold propagatePrep propagateReset; repeat' split
  all_goals simp [St.raise]
@[simp] theorem ct_propagateFirstScan (s : St) : (propagateFirstScan s).curT = s.curT := by
  simp [propagateFirstScan]
@[simp] theorem ct_propagate (c : Cfg) (i : In) (s : St) : (propagate c i s).curT = s.curT := by
  unfold propagate; repeat' split
  all_goals simp
@[simp] theorem ct_activate (s : St) : (activate s).curT = s.curT := by
  unfold activate; split <;> simp
@[simp] theorem ct_install (s : St) : (install s).curT = s.curT := by
  unfold install; split <;> simp
@[simp] theorem ct_downloadAct (s : St) : (downloadAct s).curT = s.curT := by
  unfold downloadAct; repeat' split
  all_goals simp
@[simp] theorem ct_download (s : St) : (download s).curT = s.curT := by
  unfold download; split <;> simp
@[simp] theorem ct_tapStart (s : St) : (tapStart s).curT = s.curT := by
  unfold tapStart; repeat' split
  all_goals simp [St.raise]
@[simp] theorem ct_bodies (c : Cfg) (i : In) (s : St) : (bodies c i s).curT = s.curT := by
  simp [bodies]

theorem ct_setNext (c : Cfg) (s : St) (b d : Int) : (setNext c s b d).curT = s.curT := by
  simp only [setNext, St.raise]; split <;> rfl
theorem ct_returnHandler (c : Cfg) (h : Hist) (s : St) : (returnHandler c h s).curT = s.curT := by
  unfold returnHandler; split <;> rfl
@[simp] theorem ct_outcomeHandler (c : Cfg) (s : St) : (outcomeHandler c s).curT = s.curT := by
  unfold outcomeHandler; repeat' split
  all_goals simp

@[simp] theorem hs_failStage (c : Cfg) (s : St) : (failStage c s).hist = s.hist := by
  unfold failStage; split <;> rfl
@[simp] theorem hs_progress (s : St) : (progress s).hist = s.hist := by
  unfold progress; repeat' split
  all_goals simp [St.raise]
@[simp] theorem hs_progressIfFinished (s : St) : (progressIfFinished s).hist = s.hist := by
  unfold progressIfFinished; split <;> simp
@[simp] theorem hs_payloadHandler (s : St) : (payloadHandler s).1.hist = s.hist := by
  unfold payloadHandler; repeat' split
  all_goals simp
@[simp] theorem hs_payloadContinue (s : St) : (payloadContinue s).hist = s.hist := by
  unfold payloadContinue; split <;> simp
@[simp] theorem hs_payloadEnter (c : Cfg) (i : In) (s : St) : (payloadEnter c i s).hist = s.hist := by
  unfold payloadEnter; repeat' split
  all_goals simp
@[simp] theorem hs_payload (c : Cfg) (i : In) (s : St) : (payload c i s).hist = s.hist := by
  unfold payload; split <;> simp
@[simp] theorem hs_c2c (c : Cfg) (i : In) (s : St) : (c2c c i s).hist = s.hist := by
  unfold c2c; repeat' split
  all_goals simp
@[simp] theorem hs_updateNextScanTarget (c : Cfg) (i : In) (e : Bool) (s : St) :
    (updateNextScanTarget c i e s).hist = s.hist := by
  unfold updateNextScanTarget; repeat' split
  all_goals simp
@[simp] theorem hs_scanResponseHandler (c : Cfg) (i : In) (r : Resp) (s : St) :
    (scanResponseHandler c i r s).hist = s.hist := by
  unfold scanResponseHandler; repeat' split
  all_goals simp
@[simp] theorem hs_scanMark (p : Hist) (s : St) : (scanMark p s).hist = s.hist := by
  unfold scanMark; split <;> simp
@[simp] theorem hs_scanAbsorb (c : Cfg) (i : In) (p : Hist) (s : St) : (scanAbsorb c i p s).hist = s.hist := by
  unfold scanAbsorb; split <;> simp
@[simp] theorem hs_scanLogic (s : St) : (scanLogic s).1.hist = s.hist := by
  unfold scanLogic; repeat' split
  all_goals simp
@[simp] theorem hs_scanAction (ty : ScanType) (s : St) : (scanAction ty s).hist = s.hist := by
  unfold scanAction; split <;> simp
@[simp] theorem hs_scanProgress (s : St) : (scanProgress s).1.hist = s.hist := by
  unfold scanProgress; repeat' split
  all_goals simp
@[simp] theorem hs_scanDecide (c : Cfg) (s : St) : (scanDecide c s).1.hist = s.hist := by
  unfold scanDecide; split <;> simp
@[simp] theorem hs_scanHandler (c : Cfg) (i : In) (s : St) : (scanHandler c i s).1.hist = s.hist := by
  unfold scanHandler; repeat' split
  all_goals simp [St.raise]
@[simp] theorem hs_propagatePrep (c : Cfg) (s : St) : (propagatePrep c s).hist = s.hist := by
  unfold propagatePrep propagateReset; repeat' split
  all_goals simp [St.raise]
@[simp] theorem hs_propagateFirstScan (s : St) : (propagateFirstScan s).hist = s.hist := by
  simp [propagateFirstScan]
@[simp] theorem hs_propagate (c : Cfg) (i : In) (s : St) : (propagate c i s).hist = s.hist := by
  unfold propagate; repeat' split
  all_goals simp
@[simp] theorem hs_activate (s : St) : (activate s).hist = s.hist := by
  unfold activate; split <;> simp
@[simp] theorem hs_install (s : St) : (install s).hist = s.hist := by
  unfold install; split <;> simp
@[simp] theorem hs_downloadAct (s : St) : (downloadAct s).hist = s.hist := by
  unfold downloadAct; repeat' split
  all_goals simp
@[simp] theorem hs_download (s : St) : (download s).hist = s.hist := by
  unfold download; split <;> simp
@[simp] theorem hs_tapStart (s : St) : (tapStart s).hist = s.hist := by
  unfold tapStart; repeat' split
  all_goals simp [St.raise]
@[simp] theorem hs_bodies (c : Cfg) (i : In) (s : St) : (bodies c i s).hist = s.hist := by
  simp [bodies]

theorem hs_setNext (c : Cfg) (s : St) (b d : Int) : (setNext c s b d).hist = s.hist := by
  simp only [setNext, St.raise]; split <;> rfl
theorem hs_returnHandler (c : Cfg) (h : Hist) (s : St) : (returnHandler c h s).hist = s.hist := by
  unfold returnHandler; split <;> rfl
@[simp] theorem hs_outcomeHandler (c : Cfg) (s : St) : (outcomeHandler c s).hist = s.hist := by
  unfold outcomeHandler; repeat' split
  all_goals simp

@[simp] theorem dd_failStage (c : Cfg) (s : St) : (failStage c s).dead = s.dead := by
  unfold failStage; split <;> rfl
@[simp] theorem dd_progress (s : St) : (progress s).dead = s.dead := by
  unfold progress; repeat' split
  all_goals simp [St.raise]
@[simp] theorem dd_progressIfFinished (s : St) : (progressIfFinished s).dead = s.dead := by
  unfold progressIfFinished; split <;> simp
@[simp] theorem dd_payloadHandler (s : St) : (payloadHandler s).1.dead = s.dead := by
  unfold payloadHandler; repeat' split
  all_goals simp
@[simp] theorem dd_payloadContinue (s : St) : (payloadContinue s).dead = s.dead := by
  unfold payloadContinue; split <;> simp
@[simp] theorem dd_payloadEnter (c : Cfg) (i : In) (s : St) : (payloadEnter c i s).dead = s.dead := by
  unfold payloadEnter; repeat' split
  all_goals simp
@[simp] theorem dd_payload (c : Cfg) (i : In) (s : St) : (payload c i s).dead = s.dead := by
  unfold payload; split <;> simp
@[simp] theorem dd_c2c (c : Cfg) (i : In) (s : St) : (c2c c i s).dead = s.dead := by
  unfold c2c; repeat' split
  all_goals simp
@[simp] theorem dd_updateNextScanTarget (c : Cfg) (i : In) (e : Bool) (s : St) :
    (updateNextScanTarget c i e s).dead = s.dead := by
  unfold updateNextScanTarget; repeat' split
  all_goals simp
@[simp] theorem dd_scanResponseHandler (c : Cfg) (i : In) (r : Resp) (s : St) :
    (scanResponseHandler c i r s).dead = s.dead := by
  unfold scanResponseHandler; repeat' split
  all_goals simp
@[simp] theorem dd_scanMark (p : Hist) (s : St) : (scanMark p s).dead = s.dead := by
  unfold scanMark; split <;> simp
@[simp] theorem dd_scanAbsorb (c : Cfg) (i : In) (p : Hist) (s : St) : (scanAbsorb c i p s).dead = s.dead := by
  unfold scanAbsorb; split <;> simp
@[simp] theorem dd_scanLogic (s : St) : (scanLogic s).1.dead = s.dead := by
  unfold scanLogic; repeat' split
  all_goals simp
@[simp] theorem dd_scanAction (ty : ScanType) (s : St) : (scanAction ty s).dead = s.dead := by
  unfold scanAction; split <;> simp
@[simp] theorem dd_scanProgress (s : St) : (scanProgress s).1.dead = s.dead := by
  unfold scanProgress; repeat' split
  all_goals simp
@[simp] theorem dd_scanDecide (c : Cfg) (s : St) : (scanDecide c s).1.dead = s.dead := by
  unfold scanDecide; split <;> simp
@[simp] theorem dd_scanHandler (c : Cfg) (i : In) (s : St) : (scanHandler c i s).1.dead = s.dead := by
  unfold scanHandler; repeat' split
  all_goals simp [St.raise]
@[simp] theorem dd_propagatePrep (c : Cfg) (s : St) : (propagatePrep c s).dead = s.dead := by
  unfold propagatePrep propagateReset; repeat' split
  all_goals simp [St.raise]
@[simp] theorem dd_propagateFirstScan (s : St) : (propagateFirstScan s).dead = s.dead := by
  simp [propagateFirstScan]
@[simp] theorem dd_propagate (c : Cfg) (i : In) (s : St) : (propagate c i s).dead = s.dead := by
  unfold propagate; repeat' split
  all_goals simp
@[simp] theorem dd_activate (s : St) : (activate s).dead = s.dead := by
  unfold activate; split <;> simp
@[simp] theorem dd_install (s : St) : (install s).dead = s.dead := by
  unfold install; split <;> simp
@[simp] theorem dd_downloadAct (s : St) : (downloadAct s).dead = s.dead := by
  unfold downloadAct; repeat' split
  all_goals simp
@[simp] theorem dd_download (s : St) : (download s).dead = s.dead := by
  unfold download; split <;> simp
@[simp] theorem dd_tapStart (s : St) : (tapStart s).dead = s.dead := by
  unfold tapStart; repeat' split
  all_goals simp [St.raise]
@[simp] theorem dd_bodies (c : Cfg) (i : In) (s : St) : (bodies c i s).dead = s.dead := by
  simp [bodies]

theorem dd_setNext (c : Cfg) (s : St) (b d : Int) : (setNext c s b d).dead = s.dead := by
  simp only [setNext, St.raise]; split <;> rfl
theorem dd_returnHandler (c : Cfg) (h : Hist) (s : St) : (returnHandler c h s).dead = s.dead := by
  unfold returnHandler; split <;> rfl
@[simp] theorem dd_outcomeHandler (c : Cfg) (s : St) : (outcomeHandler c s).dead = s.dead := by
  unfold outcomeHandler; repeat' split
  all_goals simp

/-- `get_action(t)` leaves `current_timestep` alone or sets it to `t`; it never touches the history. -/
theorem getAction_curT (c : Cfg) (s : St) (t : Int) (i : In) :
    (getAction c s t i).1.curT = s.curT ∨ (getAction c s t i).1.curT = t := by
  unfold getAction
  split
  · exact Or.inl rfl
  · split
    · exact Or.inl rfl
    · split
      · right
        unfold mainPath
        simp only [ct_bodies, ct_outcomeHandler, ct_setNext]
      · right
        unfold failPath
        rw [ct_setNext]

theorem getAction_hist (c : Cfg) (s : St) (t : Int) (i : In) : (getAction c s t i).1.hist = s.hist := by
  unfold getAction
  split
  · rfl
  · split
    · rfl
    · split
      · unfold mainPath
        simp only [hs_bodies, hs_outcomeHandler, hs_setNext, hs_returnHandler]
      · unfold failPath
        simp only [hs_setNext, hs_outcomeHandler, hs_returnHandler]

theorem getAction_dead (c : Cfg) (s : St) (t : Int) (i : In) : (getAction c s t i).1.dead = s.dead := by
  unfold getAction
  split
  · rfl
  · split
    · rfl
    · split
      · unfold mainPath
        simp only [dd_bodies, dd_outcomeHandler, dd_setNext, dd_returnHandler]
      · unfold failPath
        simp only [dd_setNext, dd_outcomeHandler, dd_returnHandler]

/-! reachable states of a run from the constructor -/

def Stage.terminal : Stage → Bool
  | .succeeded | .failed => true
  | _ => false

theorem terminal_iff (x : Stage) : x.terminal = true ↔ (x = .succeeded ∨ x = .failed) := by
  cases x <;> simp [Stage.terminal]

/-- The state after the ticks `t, t+1, …` fed with `ins`. -/
def after (c : Cfg) : St → Int → List In → St
  | s, _, [] => s
  | s, t, i :: is => after c (step c s t i).1 (t + 1) is

theorem after_append (c : Cfg) : ∀ (pre : List In) (s : St) (t : Int) (post : List In),
    after c s t (pre ++ post) = after c (after c s t pre) (t + pre.length) post := by
  intro pre
  induction pre with
  | nil => intro s t post; simp [after]
  | cons i is ih =>
    intro s t post
    simp only [List.cons_append, after, List.length_cons]
    rw [ih]
    have e : t + 1 + (is.length : Int) = t + ((is.length + 1 : Nat) : Int) := by omega
    rw [e]

/-- What holds of every state a run from the constructor reaches (before tick `t`). -/
structure WF (c : Cfg) (s : St) (t : Int) : Prop where
  inv : Inv s
  conc : ConcInv c s
  var : 0 ≤ c.variance
  tpos : 0 ≤ t
  curT : 0 ≤ s.curT
  err : s.err = false
  /-- `current_timestep` is the timestep of an earlier call (strictly, once the agent has left NOT_STARTED) -/
  curT_le : s.curT ≤ t
  curT_lt : s.curT < t ∨ s.cur = .notStarted

theorem wf_init (c : Cfg) (d0 : Int) (k1 k2 : Nat) (s0 : St) (h0 : init c d0 k1 k2 = some s0) : WF c s0 0 := by
  unfold init at h0
  split at h0
  · rename_i hv
    cases h0
    exact ⟨Or.inr rfl, (fun h => by cases h), by simpa [randintOk] using hv.1, Int.le_refl 0, Int.le_refl 0, rfl, Int.le_refl 0, Or.inr rfl⟩
  · cases h0

theorem wf_step (c : Cfg) (s : St) (t : Int) (i : In) (h : WF c s t) : WF c (step c s t i).1 (t + 1) := by
  have hinv := (C19_tap1_stage_step c s t i h.inv).2
  have hconc := step_concInv c s t i h.conc
  have hct : (step c s t i).1.curT = s.curT ∨ (step c s t i).1.curT = t := by
    unfold step
    split
    · exact Or.inl rfl
    · split
      · exact Or.inl rfl
      · exact getAction_curT c s t i
  have hle : (step c s t i).1.curT ≤ t := by
    rcases hct with e | e <;> rw [e]
    · exact h.curT_le
    · exact Int.le_refl t
  refine ⟨hinv, hconc, h.var, by have := h.tpos; omega, ?_, ?_, by omega, Or.inl (by omega)⟩
  · rcases hct with e | e <;> rw [e]
    · exact h.curT
    · exact h.tpos
  · unfold step
    split
    · exact h.err
    · split
      · exact h.err
      · rename_i he
        simp only []
        simpa using he

theorem wf_after (c : Cfg) : ∀ (pre : List In) (s : St) (t : Int), WF c s t → WF c (after c s t pre) (t + pre.length) := by
  intro pre
  induction pre with
  | nil => intro s t h; simpa [after] using h
  | cons i is ih =>
    intro s t h
    have := ih _ _ (wf_step c s t i h)
    simp only [after, List.length_cons]
    have e : t + ((is.length + 1 : Nat) : Int) = t + 1 + (is.length : Int) := by omega
    rw [e]; exact this

/-- In a reachable state the look-back never raises: `current_timestep` is a previous (non-negative) timestep. -/
theorem lookBack_some (s : St) (h : 0 ≤ s.curT) : ∃ x, lookBack s = some x := by
  unfold lookBack
  split
  · exact ⟨_, rfl⟩
  · rename_i hlt
    unfold pyIndex
    rw [if_pos h]
    have hlt' : s.curT.toNat < s.hist.length := by omega
    exact ⟨s.hist[s.curT.toNat], by simp [hlt']⟩

/-! the tick that finds the chain ended -/

theorem outcome_terminal_chosen (c : Cfg) (s : St) (h : s.cur = .succeeded ∨ s.cur = .failed) :
    (outcomeHandler c s).chosen = Act.nothing := by
  unfold outcomeHandler; rw [if_pos h]; repeat' split
  all_goals rfl

theorem tapStart_chosen (s : St) (h : s.cur = .notStarted) : (tapStart s).chosen = Act.nothing ∧ (tapStart s).err = s.err := by
  simp [tapStart, h, Stage.ofVal?, Stage.all, Stage.val]

/-- An execution slot that finds the chain SUCCEEDED or FAILED returns do-nothing and does not raise. -/
theorem terminal_slot (c : Cfg) (s : St) (t : Int) (i : In) (h : Hist) (hv : 0 ≤ c.variance)
    (hterm : s.cur = .succeeded ∨ s.cur = .failed) (hex : executes s t = true) (hh : lookBack s = some h) :
    (getAction c s t i).2 = Act.nothing ∧ (getAction c s t i).1.err = s.err := by
  have hcon : s.concluded = false := by simp [executes] at hex; exact hex.2
  have h1 : ((returnHandler c h s).cur = .succeeded ∨ (returnHandler c h s).cur = .failed) ∧
      (returnHandler c h s).concluded = false ∧ (returnHandler c h s).err = s.err := by
    unfold returnHandler; split
    · exact ⟨Or.inr rfl, hcon, rfl⟩
    · exact ⟨hterm, hcon, rfl⟩
  have key : ∀ (s' : St) (b d : Int), (s'.cur = .succeeded ∨ s'.cur = .failed) → s'.concluded = false →
      ((setNext c s' b d).cur = .succeeded ∨ (setNext c s' b d).cur = .failed) ∧ (setNext c s' b d).concluded = false ∧
      (setNext c s' b d).err = s'.err := by
    intro s' b d ht hc
    have hf := setNext_fields c s' b d
    exact ⟨by rw [hf.1]; exact ht, by rw [hf.2.2]; exact hc, ((setNext_next c s' b d).1 hv).2⟩
  unfold getAction
  rw [if_neg (by simp [hex])]
  simp only [hh]
  generalize returnHandler c h s = s1 at h1 ⊢
  split
  · unfold mainPath
    have h2 := key { s1 with curT := t } (t + c.frequency) i.d1 h1.1 h1.2.1
    generalize setNext c { s1 with curT := t } (t + c.frequency) i.d1 = s2 at h2 ⊢
    have hch := outcome_terminal_chosen c s2 h2.1
    have herr := err_outcomeHandler c s2
    cases hr : c.repeatKillChain with
    | false =>
      have ht := (outcome_terminal c s2 h2.1 h2.2.1).2 hr
      have hterm3 : (outcomeHandler c s2).cur = .succeeded ∨ (outcomeHandler c s2).cur = .failed := by rw [ht.1]; exact h2.1
      rw [bodies_terminal c i _ hterm3]
      exact ⟨hch, by rw [herr, h2.2.2]; exact h1.2.2⟩
    | true =>
      have ht := (outcome_terminal c s2 h2.1 h2.2.1).1 hr
      rw [bodies_of_notStarted c i _ ht.1]
      have hts := tapStart_chosen _ ht.1
      exact ⟨hts.1, by rw [hts.2, herr, h2.2.2]; exact h1.2.2⟩
  · unfold failPath
    have h2 := key s1 (t + c.frequency) i.d1 h1.1 h1.2.1
    generalize setNext c s1 (t + c.frequency) i.d1 = s2 at h2 ⊢
    have hch := outcome_terminal_chosen c s2 h2.1
    have herr := err_outcomeHandler c s2
    refine ⟨by rw [setNext_chosen]; exact hch, ?_⟩
    rw [((setNext_next c _ (t + c.frequency) i.d2).1 hv).2]
    simp only []
    rw [herr, h2.2.2]; exact h1.2.2

/-- What one tick does when it finds the chain ended (`s` = state before the tick, `t` = its timestep). -/
structure EndTick (c : Cfg) (s : St) (t : Int) (i : In) : Prop where
  /-- the agent does not act (and does not raise) -/
  quiet : (step c s t i).2 = .act Act.nothing ∧ (step c s t i).1.dead = false
  /-- not yet an execution slot: nothing changes -/
  waits : executes s t = false → (step c s t i).1.cur = s.cur ∧ (step c s t i).1.concluded = s.concluded ∧
    (step c s t i).1.nextExec = s.nextExec
  /-- repeat off: the first execution slot concludes the agent, the stage stays SUCCEEDED / FAILED -/
  stops : executes s t = true → c.repeatKillChain = false →
    (step c s t i).1.concluded = true ∧ (step c s t i).1.cur.terminal = true
  /-- repeat on: the first execution slot restarts the chain, the agent is not concluded -/
  restarts : executes s t = true → c.repeatKillChain = true →
    (step c s t i).1.concluded = false ∧ ((step c s t i).1.cur = .notStarted ∨ (step c s t i).1.cur = .download)

theorem end_tick (c : Cfg) (s : St) (t : Int) (i : In) (hw : WF c s t) (hterm : s.cur.terminal = true)
    (hd : s.dead = false) : EndTick c s t i := by
  have hterm' := (terminal_iff s.cur).1 hterm
  obtain ⟨h, hh⟩ := lookBack_some s hw.curT
  cases hex : executes s t with
  | false =>
    have hga := C19_tap1_idle_tick c s t i hex
    have hstep : step c s t i = ({ s with hist := s.hist ++ [{ kind := Act.nothing.kind, resp := i.resp }] }, .act Act.nothing) := by
      unfold step
      rw [if_neg (by simp [hd]), hga, if_neg (by simp [hw.err])]
    refine ⟨?_, ?_, ?_, ?_⟩ <;> rw [hstep]
    · exact ⟨rfl, hd⟩
    · exact fun _ => ⟨rfl, rfl, rfl⟩
    · intro h; rw [hex] at h; cases h
    · intro h; rw [hex] at h; cases h
  | true =>
    have hts := terminal_slot c s t i h hw.var hterm' hex hh
    have hne : ¬ (getAction c s t i).1.err = true := by rw [hts.2, hw.err]; simp
    have hstep : step c s t i = ({ (getAction c s t i).1 with
        hist := (getAction c s t i).1.hist ++ [{ kind := (getAction c s t i).2.kind, resp := i.resp }] },
        .act (getAction c s t i).2) := by
      unfold step
      rw [if_neg (by simp [hd]), if_neg hne]
    have hdead : (getAction c s t i).1.dead = false := by rw [getAction_dead]; exact hd
    refine ⟨?_, ?_, ?_, ?_⟩ <;> rw [hstep]
    · exact ⟨by rw [hts.1], hdead⟩
    · intro h; rw [hex] at h; cases h
    · intro _ hrep
      have := C19_tap1_stops c s t i h hrep hterm' hex hh
      exact ⟨this.1, (terminal_iff _).2 this.2.1⟩
    · intro _ hrep
      exact C19_tap1_restarts c s t i h hrep hterm' hex hh

/-! stage order over the whole run -/

theorem rank_le_of_allowed (c : Cfg) (a b : Stage) (h : Allowed c a b) (hrep : c.repeatKillChain = false) :
    rank a ≤ rank b := by
  rcases h with h | ⟨hc, h⟩ | h | ⟨ha, hb⟩ | ⟨hr, _⟩ | ⟨hr, _⟩
  · rw [h]; exact Nat.le_refl _
  · rw [h]; cases a <;> simp_all [Stage.chain, Stage.succ, rank]
  · rw [h]; cases a <;> simp [rank]
  · rw [ha, hb]; simp [rank]
  · rw [hrep] at hr; cases hr
  · rw [hrep] at hr; cases hr

/-- **A step back in stage order is a restart**: the sampled stage moves to a lower stage only with `repeat_kill_chain`,
only to NOT_STARTED or the first stage, and only from a finished chain (or, stages not being repeated, from the stage
that failed in the same tick). -/
theorem C19_tap1_descent_is_restart (c : Cfg) (a b : Stage) (h : Allowed c a b) (hlt : rank b < rank a) :
    c.repeatKillChain = true ∧ (b = .notStarted ∨ b = .download) ∧
    ((a = .succeeded ∨ a = .failed) ∨ c.repeatStages = false) := by
  rcases h with h | ⟨hc, h⟩ | h | ⟨ha, hb⟩ | ⟨hr, hterm, hb⟩ | ⟨hr, hrs, hb⟩
  · rw [h] at hlt; omega
  · exfalso; rw [h] at hlt; revert hlt; cases a <;> simp_all [Stage.chain, Stage.succ, rank]
  · exfalso; rw [h] at hlt; revert hlt; cases a <;> simp [rank]
  · exfalso; rw [ha, hb] at hlt; simp [rank] at hlt
  · exact ⟨hr, hb, Or.inl hterm⟩
  · exact ⟨hr, Or.inl hb, Or.inr hrs⟩

theorem linked_chainLe (c : Cfg) (hrep : c.repeatKillChain = false) : ∀ (l : List St) (a : Stage),
    Linked (Allowed c) a l → ChainLe (rank a :: l.map (fun s => rank s.cur)) := by
  intro l
  induction l with
  | nil => intro a _; trivial
  | cons s r ih =>
    intro a h
    exact ⟨rank_le_of_allowed c a s.cur h.1 hrep, ih s.cur h.2⟩

/-- **The kill chain over a whole run (TAP001)** — one statement for every configuration, every first draw, every
sequence of schedule / trial / scan draws and simulator responses, every run length:

1. *order, no skipping*: each sampled stage is related to the previous one by `Allowed` (stay, the NEXT stage of the
   chain, FAILED, NOT_STARTED → first stage, or a restart that needs `repeat_kill_chain`);
2. *never backwards*: without `repeat_kill_chain` the stage ranks of the whole run are sorted
   (with it, a descent is a restart to NOT_STARTED / DOWNLOAD: `C19_tap1_descent_is_restart`);
3. at every tick of the run (`pre` = the ticks before it): `actions_concluded` is set only with repeat off and the
   chain ended; and a live agent that finds the chain SUCCEEDED or FAILED never acts, waits for its next execution
   slot, and in that slot stops for good (repeat off: concluded, stage kept) or restarts (repeat on: NOT_STARTED or
   straight into DOWNLOAD, never concluded) — failure branches included (`EndTick`). -/
theorem C19_tap1_kill_chain_run (c : Cfg) (d0 : Int) (k1 k2 : Nat) (s0 : St) (ins : List In) (h0 : init c d0 k1 k2 = some s0) :
    Linked (Allowed c) s0.cur (run c s0 0 ins) ∧
    (c.repeatKillChain = false → ((s0 :: run c s0 0 ins).map (fun s => rank s.cur)).Pairwise (· ≤ ·)) ∧
    (∀ (pre : List In) (i : In) (post : List In), ins = pre ++ i :: post →
      ((after c s0 0 pre).concluded = true →
        c.repeatKillChain = false ∧ (after c s0 0 pre).cur.terminal = true) ∧
      ((after c s0 0 pre).cur.terminal = true → (after c s0 0 pre).dead = false →
        EndTick c (after c s0 0 pre) pre.length i)) := by
  have hL := (C19_tap1_stage_monotone c d0 k1 k2 s0 ins h0).1
  refine ⟨hL, ?_, ?_⟩
  · intro hrep
    exact pairwise_of_chainLe _ (linked_chainLe c hrep _ _ hL)
  · intro pre i post _
    have hw := wf_after c pre s0 0 (wf_init c d0 k1 k2 s0 h0)
    rw [Int.zero_add] at hw
    refine ⟨?_, fun hterm hd => end_tick c _ _ i hw hterm hd⟩
    intro hc
    have := hw.conc hc
    exact ⟨this.1, (terminal_iff _).2 this.2⟩

/-- Non-vacuity: repeat on, stages not repeated, PROPAGATE.probability 0: the agent of `exCfg` fails in PROPAGATE, the next
execution slot finds the chain FAILED and restarts it straight into DOWNLOAD. -/
example :
    let c : Cfg := { exCfg with repeatKillChain := true, repeatStages := false, pPropagate := ⟨0, 1⟩ }
    ∃ s0, init c 0 0 0 = some s0 ∧
      (run c s0 0 (List.replicate 9 exIn)).map (·.cur)
        = [.notStarted, .download, .download, .install, .activate, .propagate, .failed, .download, .download] := by
  refine ⟨_, rfl, ?_⟩; decide

/-- **Stops at the first slot after the end.** From any tick of a run that finds the chain ended (agent alive, not yet
concluded), the ticks `w` up to the next execution slot `max t next_execution_timestep` change nothing, and that tick
IS an execution slot — where `EndTick.stops` / `EndTick.restarts` apply. -/
theorem wait_until_slot (c : Cfg) : ∀ (w : List In) (s : St) (t : Int), WF c s t → s.cur.terminal = true →
    s.dead = false → s.concluded = false → (w.length : Int) = max t s.nextExec - t →
    (after c s t w).cur = s.cur ∧ (after c s t w).concluded = false ∧ (after c s t w).nextExec = s.nextExec ∧
    (after c s t w).dead = false ∧ executes (after c s t w) (t + w.length) = true := by
  intro w
  induction w with
  | nil =>
    intro s t _ _ hd hc hlen
    simp only [List.length_nil] at hlen
    refine ⟨rfl, hc, rfl, hd, ?_⟩
    have : s.nextExec ≤ t := by omega
    simp [after, executes, hc]; omega
  | cons i is ih =>
    intro s t hw hterm hd hc hlen
    simp only [List.length_cons] at hlen
    have hex : executes s t = false := by
      have : t < s.nextExec := by omega
      simp [executes, this]
    have he := end_tick c s t i hw hterm hd
    obtain ⟨h1, h2, h3⟩ := he.waits hex
    have hterm' : (step c s t i).1.cur.terminal = true := by rw [h1]; exact hterm
    have := ih (step c s t i).1 (t + 1) (wf_step c s t i hw) hterm' he.quiet.2 (by rw [h2]; exact hc)
      (by rw [h3]; omega)
    simp only [after, List.length_cons]
    rw [h1, h3] at this
    have e : t + ((is.length + 1 : Nat) : Int) = t + 1 + (is.length : Int) := by omega
    rw [e]; exact this

theorem C19_tap1_ends_at_first_slot (c : Cfg) (d0 : Int) (k1 k2 : Nat) (s0 : St) (h0 : init c d0 k1 k2 = some s0) (pre w : List In) (i : In)
    (hterm : (after c s0 0 pre).cur.terminal = true) (hd : (after c s0 0 pre).dead = false)
    (hc : (after c s0 0 pre).concluded = false)
    (hlen : (w.length : Int) = max (pre.length : Int) (after c s0 0 pre).nextExec - pre.length) :
    (after c s0 0 (pre ++ w)).cur = (after c s0 0 pre).cur ∧
    (c.repeatKillChain = false →
      (after c s0 0 (pre ++ w ++ [i])).concluded = true ∧ (after c s0 0 (pre ++ w ++ [i])).cur.terminal = true) ∧
    (c.repeatKillChain = true →
      (after c s0 0 (pre ++ w ++ [i])).concluded = false ∧
      ((after c s0 0 (pre ++ w ++ [i])).cur = .notStarted ∨ (after c s0 0 (pre ++ w ++ [i])).cur = .download)) := by
  have hw := wf_after c pre s0 0 (wf_init c d0 k1 k2 s0 h0)
  rw [Int.zero_add] at hw
  obtain ⟨h1, h2, h3, h4, h5⟩ := wait_until_slot c w _ _ hw hterm hd hc hlen
  have hw2 := wf_after c w _ _ hw
  have e1 : after c s0 0 (pre ++ w) = after c (after c s0 0 pre) pre.length w := by
    rw [after_append, Int.zero_add]
  have e2 : after c s0 0 (pre ++ w ++ [i]) = (step c (after c s0 0 (pre ++ w)) ((pre.length : Int) + w.length) i).1 := by
    rw [after_append]
    simp only [after, List.length_append, Int.zero_add]
    rw [show ((pre.length + w.length : Nat) : Int) = (pre.length : Int) + w.length by omega]
  have he := end_tick c _ _ i hw2 (by rw [h1]; exact hterm) h4
  rw [e2, e1]
  exact ⟨h1, fun hr => he.stops h5 hr, fun hr => he.restarts h5 hr⟩

/-! `actions_concluded` over a run -/

theorem concluded_switch (c : Cfg) : ∀ (pre : List In) (s : St) (t : Int), s.concluded = false →
    (after c s t pre).concluded = true →
    ∃ pre1 i rest, pre = pre1 ++ i :: rest ∧ (after c s t pre1).concluded = false ∧
      (step c (after c s t pre1) (t + pre1.length) i).1.concluded = true := by
  intro pre
  induction pre with
  | nil => intro s t h0 h1; simp only [after] at h1; rw [h0] at h1; cases h1
  | cons i is ih =>
    intro s t h0 h1
    cases hc : (step c s t i).1.concluded with
    | true => exact ⟨[], i, is, rfl, h0, by simpa [after] using hc⟩
    | false =>
      obtain ⟨pre1, j, rest, he, ha, hb⟩ := ih _ _ hc h1
      refine ⟨i :: pre1, j, rest, by rw [he]; rfl, ha, ?_⟩
      simp only [after, List.length_cons]
      have e : t + ((pre1.length + 1 : Nat) : Int) = t + 1 + (pre1.length : Int) := by omega
      rw [e]; exact hb

/-- **`actions_concluded` over a whole run (TAP001): written at the end of the chain and nowhere else.**  If the flag is
set after the ticks `pre` of a run from the constructor, then there is exactly such a tick in `pre`: the agent was
alive and not concluded, the tick was an execution slot, `repeat_kill_chain` is off, the stage after the tick is
SUCCEEDED or FAILED and the tick returned do-nothing. -/
theorem C19_tap1_concluded_run (c : Cfg) (d0 : Int) (k1 k2 : Nat) (s0 : St) (h0 : init c d0 k1 k2 = some s0) (pre : List In)
    (hc : (after c s0 0 pre).concluded = true) :
    ∃ pre1 i rest, pre = pre1 ++ i :: rest ∧
      (after c s0 0 pre1).concluded = false ∧ (after c s0 0 pre1).dead = false ∧
      executes (after c s0 0 pre1) pre1.length = true ∧ c.repeatKillChain = false ∧
      ((after c s0 0 (pre1 ++ [i])).cur = .succeeded ∨ (after c s0 0 (pre1 ++ [i])).cur = .failed) ∧
      (step c (after c s0 0 pre1) pre1.length i).2 = .act Act.nothing := by
  have hs0 : s0.concluded = false := by
    unfold init at h0
    split at h0
    · cases h0; rfl
    · cases h0
  obtain ⟨pre1, i, rest, he, ha, hb⟩ := concluded_switch c pre s0 0 hs0 hc
  rw [Int.zero_add] at hb
  refine ⟨pre1, i, rest, he, ha, ?_⟩
  have e2 : after c s0 0 (pre1 ++ [i]) = (step c (after c s0 0 pre1) pre1.length i).1 := by
    rw [after_append]; simp [after]
  rw [e2]
  generalize after c s0 0 pre1 = s at ha hb ⊢
  generalize (pre1.length : Int) = t at hb ⊢
  cases hd : s.dead with
  | true => simp [step, hd, ha] at hb
  | false =>
    by_cases herr : (getAction c s t i).1.err = true
    · simp [step, hd, herr, ha] at hb
    · have hstep : step c s t i = ({ (getAction c s t i).1 with
          hist := (getAction c s t i).1.hist ++ [{ kind := (getAction c s t i).2.kind, resp := i.resp }] },
          .act (getAction c s t i).2) := by
        unfold step
        rw [if_neg (by simp [hd]), if_neg herr]
      rw [hstep] at hb ⊢
      have := C19_tap1_concluded_only_at_end c s t i ha hb
      exact ⟨rfl, this.1, this.2.1, this.2.2.1, by rw [this.2.2.2]⟩

/-! gaps between consecutive ACTING ticks (assembled over the whole run) -/

def Out.nonIdle : Out → Bool
  | .act a => decide (a ≠ Act.nothing)
  | .raised => false

/-- The ticks of a run at which the agent returns an action other than do-nothing. -/
def actTimes (c : Cfg) : St → Int → List In → List Int
  | _, _, [] => []
  | s, t, i :: is =>
    if (step c s t i).2.nonIdle then t :: actTimes c (step c s t i).1 (t + 1) is
    else actTimes c (step c s t i).1 (t + 1) is

theorem mem_actTimes (c : Cfg) : ∀ (ins : List In) (s : St) (t x : Int),
    x ∈ actTimes c s t ins ↔ ∃ a, (x, Out.act a) ∈ runOut c s t ins ∧ a ≠ Act.nothing := by
  intro ins
  induction ins with
  | nil => intro s t x; simp [actTimes, runOut]
  | cons i is ih =>
    intro s t x
    simp only [actTimes, runOut, List.mem_cons]
    cases ho : (step c s t i).2 with
    | raised =>
      simp only [Out.nonIdle, Bool.false_eq_true, if_false, ih]
      constructor
      · rintro ⟨a, h, hne⟩; exact ⟨a, Or.inr h, hne⟩
      · rintro ⟨a, h | h, hne⟩
        · cases h
        · exact ⟨a, h, hne⟩
    | act a0 =>
      by_cases hn : a0 = Act.nothing
      · have : (Out.act a0).nonIdle = false := by simp [Out.nonIdle, hn]
        simp only [this, Bool.false_eq_true, if_false, ih]
        constructor
        · rintro ⟨a, h, hne⟩; exact ⟨a, Or.inr h, hne⟩
        · rintro ⟨a, h | h, hne⟩
          · cases h; exact absurd hn hne
          · exact ⟨a, h, hne⟩
      · have : (Out.act a0).nonIdle = true := by simp [Out.nonIdle, hn]
        simp only [this, if_true, List.mem_cons, ih]
        constructor
        · rintro (h | ⟨a, h, hne⟩)
          · exact ⟨a0, Or.inl (by rw [h]), hn⟩
          · exact ⟨a, Or.inr h, hne⟩
        · rintro ⟨a, h | h, hne⟩
          · left; cases h; rfl
          · exact Or.inr ⟨a, h, hne⟩

theorem nonIdle_slot (c : Cfg) (s : St) (t : Int) (i : In) (h : (step c s t i).2.nonIdle = true) :
    (sched c).slot s t = true := by
  rw [slot_iff]
  cases hd : s.dead with
  | true => simp [step, hd, Out.nonIdle] at h
  | false =>
    cases hex : executes s t with
    | true => rfl
    | false =>
      rcases (step_idle c s t i hex).1 with ho | ho <;> rw [ho] at h <;> simp [Out.nonIdle] at h

theorem actTimes_sublist (c : Cfg) : ∀ (ins : List In) (s : St) (t : Int),
    (actTimes c s t ins).Sublist (slotTimes c s t ins) := by
  intro ins
  induction ins with
  | nil => intro s t; exact List.Sublist.slnil
  | cons i is ih =>
    intro s t
    have ih' := ih (step c s t i).1 (t + 1)
    unfold slotTimes at ih' ⊢
    simp only [actTimes, SchedSys.slots]
    cases hn : (step c s t i).2.nonIdle with
    | true =>
      have hs := nonIdle_slot c s t i hn
      simp only [hs, if_true]
      exact List.Sublist.cons_cons _ ih'
    | false =>
      simp only [Bool.false_eq_true, if_false]
      split
      · exact List.Sublist.cons _ ih'
      · exact ih'

/-- **Gaps between consecutive actions of TAP001, assembled over the whole run.**  In a run from the constructor with
all schedule draws in range, the ticks at which the agent returns an action other than do-nothing form a sublist of
its execution slots; none lies before `start_step + d0` (nor before step 0); consecutive ones are `k` slot gaps apart
(`k − 1` = the number of silent slots — failed trial, start tick, restart — in between), each slot gap in
`[max 1 (frequency − variance), max 1 (frequency + variance)]`; in particular the agent never acts twice within less
than `max 1 (frequency − variance)` steps. -/
theorem C19_tap1_action_gaps (c : Cfg) (d0 : Int) (k1 k2 : Nat) (s0 : St) (ins : List In) (h0 : init c d0 k1 k2 = some s0)
    (hins : DrawsIn c ins) :
    (actTimes c s0 0 ins).Sublist (slotTimes c s0 0 ins) ∧
    (∀ x ∈ actTimes c s0 0 ins, c.startStep + d0 ≤ x ∧ 0 ≤ x) ∧
    MultiGaps (max 1 (c.frequency - c.variance)) (max 1 (c.frequency + c.variance)) (actTimes c s0 0 ins) ∧
    GapsAtLeast (max 1 (c.frequency - c.variance)) (actTimes c s0 0 ins) := by
  have hsub := actTimes_sublist c ins s0 0
  obtain ⟨_, hg, hge, _⟩ := C19_tap1_slot_gaps c d0 k1 k2 s0 ins h0 hins
  have hL := sched_law c (wf_init c d0 k1 k2 s0 h0).var
  have hm := multiGaps_of_sublist _ _ _ _ hg hsub
  refine ⟨hsub, ?_, hm, multiGaps_atLeast _ _ (by omega) _ hm⟩
  intro x hx
  have hx' := hsub.subset hx
  exact ⟨hge x hx', ((sched c).slots_ge hL ins s0 0 x hx').1⟩

/-- Non-vacuity: start 2, frequency 3, variance 1, draws +1 / −1: execution slots 2, 6, 8, 11; the slot of step 2 is the
silent start tick, the agent acts at 6, 8, 11. -/
example :
    let c : Cfg := { exCfg with startStep := 2, frequency := 3, variance := 1 }
    ∃ s0, init c 0 0 0 = some s0 ∧
      actTimes c s0 0 ((List.range 12).map fun j =>
        { exIn with d1 := if j = 2 then 1 else if j = 6 then -1 else 0 }) = [6, 8, 11] := by
  refine ⟨_, rfl, ?_⟩
  decide

end Tap1

/-! ## 15. TAP003 over whole runs -/
namespace Tap3

/-! frame lemmas: no stage method touches `current_timestep`, `history` or the liveness flag of the model -/

@[simp] theorem ct_failStage (c : Cfg) (s : St) : (failStage c s).curT = s.curT := by
  unfold failStage; split <;> rfl
@[simp] theorem ct_progress (s : St) : (progress s).curT = s.curT := by
  unfold progress; repeat' split
  all_goals simp [St.raise]
@[simp] theorem ct_manipBegin (s : St) : (manipBegin s).curT = s.curT := by
  unfold manipBegin; split <;> simp
@[simp] theorem ct_manipAct (c : Cfg) (s : St) : (manipAct c s).curT = s.curT := by
  unfold manipAct; repeat' split
  all_goals simp [St.raise]
@[simp] theorem ct_manipFinish (s : St) : (manipFinish s).curT = s.curT := by
  unfold manipFinish; split <;> simp
@[simp] theorem ct_manipulation (c : Cfg) (i : In) (s : St) : (manipulation c i s).curT = s.curT := by
  unfold manipulation; repeat' split
  all_goals simp
@[simp] theorem ct_exploitAct (a : Acl) (cr : Cred) (ip : Val) (s : St) : (exploitAct a cr ip s).curT = s.curT := by
  unfold exploitAct; split <;> simp
@[simp] theorem ct_exploitFinish (s : St) : (exploitFinish s).curT = s.curT := by
  unfold exploitFinish; split <;> simp
@[simp] theorem ct_exploitBody (c : Cfg) (s : St) : (exploitBody c s).curT = s.curT := by
  unfold exploitBody; repeat' split
  all_goals simp [St.raise]
@[simp] theorem ct_exploitEnter (s : St) : (exploitEnter s).curT = s.curT := by
  unfold exploitEnter; split <;> simp
@[simp] theorem ct_exploit (c : Cfg) (i : In) (s : St) : (exploit c i s).curT = s.curT := by
  unfold exploit; repeat' split
  all_goals simp
@[simp] theorem ct_access (c : Cfg) (i : In) (s : St) : (access c i s).curT = s.curT := by
  unfold access; repeat' split
  all_goals simp
@[simp] theorem ct_planning (c : Cfg) (i : In) (s : St) : (planning c i s).curT = s.curT := by
  unfold planning; repeat' split
  all_goals simp
@[simp] theorem ct_reconnaissance (s : St) : (reconnaissance s).curT = s.curT := by
  unfold reconnaissance; split <;> simp
@[simp] theorem ct_tapStart (s : St) : (tapStart s).curT = s.curT := by
  unfold tapStart; repeat' split
  all_goals simp [St.raise]
@[simp] theorem ct_bodies (c : Cfg) (i : In) (s : St) : (bodies c i s).curT = s.curT := by
  simp [bodies]

theorem ct_setNext (c : Cfg) (s : St) (b d : Int) : (setNext c s b d).curT = s.curT := by
  simp only [setNext, St.raise]; split <;> rfl
theorem ct_returnHandler (c : Cfg) (h : Hist) (s : St) : (returnHandler c h s).curT = s.curT := by
  unfold returnHandler; split <;> rfl
theorem ct_reasonCheck (h : Hist) (s : St) : (reasonCheck h s).curT = s.curT := by
  unfold reasonCheck; split <;> simp [St.raise]
@[simp] theorem ct_outcomeHandler (c : Cfg) (s : St) : (outcomeHandler c s).curT = s.curT := by
  unfold outcomeHandler; repeat' split
  all_goals simp
theorem ct_preGuard (c : Cfg) (s : St) : (preGuardHandlers c s).curT = s.curT := by
  have hl : ∀ s : St, (handleLogin s).curT = s.curT := by
    intro s; unfold handleLogin; repeat' split
    all_goals simp [St.raise]
  have hp : ∀ s : St, (handleChangePw c s).curT = s.curT := by
    intro s; unfold handleChangePw; repeat' split
    all_goals simp
  unfold preGuardHandlers
  rw [hp, hl]

@[simp] theorem hs_failStage (c : Cfg) (s : St) : (failStage c s).hist = s.hist := by
  unfold failStage; split <;> rfl
@[simp] theorem hs_progress (s : St) : (progress s).hist = s.hist := by
  unfold progress; repeat' split
  all_goals simp [St.raise]
@[simp] theorem hs_manipBegin (s : St) : (manipBegin s).hist = s.hist := by
  unfold manipBegin; split <;> simp
@[simp] theorem hs_manipAct (c : Cfg) (s : St) : (manipAct c s).hist = s.hist := by
  unfold manipAct; repeat' split
  all_goals simp [St.raise]
@[simp] theorem hs_manipFinish (s : St) : (manipFinish s).hist = s.hist := by
  unfold manipFinish; split <;> simp
@[simp] theorem hs_manipulation (c : Cfg) (i : In) (s : St) : (manipulation c i s).hist = s.hist := by
  unfold manipulation; repeat' split
  all_goals simp
@[simp] theorem hs_exploitAct (a : Acl) (cr : Cred) (ip : Val) (s : St) : (exploitAct a cr ip s).hist = s.hist := by
  unfold exploitAct; split <;> simp
@[simp] theorem hs_exploitFinish (s : St) : (exploitFinish s).hist = s.hist := by
  unfold exploitFinish; split <;> simp
@[simp] theorem hs_exploitBody (c : Cfg) (s : St) : (exploitBody c s).hist = s.hist := by
  unfold exploitBody; repeat' split
  all_goals simp [St.raise]
@[simp] theorem hs_exploitEnter (s : St) : (exploitEnter s).hist = s.hist := by
  unfold exploitEnter; split <;> simp
@[simp] theorem hs_exploit (c : Cfg) (i : In) (s : St) : (exploit c i s).hist = s.hist := by
  unfold exploit; repeat' split
  all_goals simp
@[simp] theorem hs_access (c : Cfg) (i : In) (s : St) : (access c i s).hist = s.hist := by
  unfold access; repeat' split
  all_goals simp
@[simp] theorem hs_planning (c : Cfg) (i : In) (s : St) : (planning c i s).hist = s.hist := by
  unfold planning; repeat' split
  all_goals simp
@[simp] theorem hs_reconnaissance (s : St) : (reconnaissance s).hist = s.hist := by
  unfold reconnaissance; split <;> simp
@[simp] theorem hs_tapStart (s : St) : (tapStart s).hist = s.hist := by
  unfold tapStart; repeat' split
  all_goals simp [St.raise]
@[simp] theorem hs_bodies (c : Cfg) (i : In) (s : St) : (bodies c i s).hist = s.hist := by
  simp [bodies]

theorem hs_setNext (c : Cfg) (s : St) (b d : Int) : (setNext c s b d).hist = s.hist := by
  simp only [setNext, St.raise]; split <;> rfl
theorem hs_returnHandler (c : Cfg) (h : Hist) (s : St) : (returnHandler c h s).hist = s.hist := by
  unfold returnHandler; split <;> rfl
theorem hs_reasonCheck (h : Hist) (s : St) : (reasonCheck h s).hist = s.hist := by
  unfold reasonCheck; split <;> simp [St.raise]
@[simp] theorem hs_outcomeHandler (c : Cfg) (s : St) : (outcomeHandler c s).hist = s.hist := by
  unfold outcomeHandler; repeat' split
  all_goals simp
theorem hs_preGuard (c : Cfg) (s : St) : (preGuardHandlers c s).hist = s.hist := by
  have hl : ∀ s : St, (handleLogin s).hist = s.hist := by
    intro s; unfold handleLogin; repeat' split
    all_goals simp [St.raise]
  have hp : ∀ s : St, (handleChangePw c s).hist = s.hist := by
    intro s; unfold handleChangePw; repeat' split
    all_goals simp
  unfold preGuardHandlers
  rw [hp, hl]

@[simp] theorem dd_failStage (c : Cfg) (s : St) : (failStage c s).dead = s.dead := by
  unfold failStage; split <;> rfl
@[simp] theorem dd_progress (s : St) : (progress s).dead = s.dead := by
  unfold progress; repeat' split
  all_goals simp [St.raise]
@[simp] theorem dd_manipBegin (s : St) : (manipBegin s).dead = s.dead := by
  unfold manipBegin; split <;> simp
@[simp] theorem dd_manipAct (c : Cfg) (s : St) : (manipAct c s).dead = s.dead := by
  unfold manipAct; repeat' split
  all_goals simp [St.raise]
@[simp] theorem dd_manipFinish (s : St) : (manipFinish s).dead = s.dead := by
  unfold manipFinish; split <;> simp
@[simp] theorem dd_manipulation (c : Cfg) (i : In) (s : St) : (manipulation c i s).dead = s.dead := by
  unfold manipulation; repeat' split
  all_goals simp
@[simp] theorem dd_exploitAct (a : Acl) (cr : Cred) (ip : Val) (s : St) : (exploitAct a cr ip s).dead = s.dead := by
  unfold exploitAct; split <;> simp
@[simp] theorem dd_exploitFinish (s : St) : (exploitFinish s).dead = s.dead := by
  unfold exploitFinish; split <;> simp
@[simp] theorem dd_exploitBody (c : Cfg) (s : St) : (exploitBody c s).dead = s.dead := by
  unfold exploitBody; repeat' split
  all_goals simp [St.raise]
@[simp] theorem dd_exploitEnter (s : St) : (exploitEnter s).dead = s.dead := by
  unfold exploitEnter; split <;> simp
@[simp] theorem dd_exploit (c : Cfg) (i : In) (s : St) : (exploit c i s).dead = s.dead := by
  unfold exploit; repeat' split
  all_goals simp
@[simp] theorem dd_access (c : Cfg) (i : In) (s : St) : (access c i s).dead = s.dead := by
  unfold access; repeat' split
  all_goals simp
@[simp] theorem dd_planning (c : Cfg) (i : In) (s : St) : (planning c i s).dead = s.dead := by
  unfold planning; repeat' split
  all_goals simp
@[simp] theorem dd_reconnaissance (s : St) : (reconnaissance s).dead = s.dead := by
  unfold reconnaissance; split <;> simp
@[simp] theorem dd_tapStart (s : St) : (tapStart s).dead = s.dead := by
  unfold tapStart; repeat' split
  all_goals simp [St.raise]
@[simp] theorem dd_bodies (c : Cfg) (i : In) (s : St) : (bodies c i s).dead = s.dead := by
  simp [bodies]

theorem dd_setNext (c : Cfg) (s : St) (b d : Int) : (setNext c s b d).dead = s.dead := by
  simp only [setNext, St.raise]; split <;> rfl
theorem dd_returnHandler (c : Cfg) (h : Hist) (s : St) : (returnHandler c h s).dead = s.dead := by
  unfold returnHandler; split <;> rfl
theorem dd_reasonCheck (h : Hist) (s : St) : (reasonCheck h s).dead = s.dead := by
  unfold reasonCheck; split <;> simp [St.raise]
@[simp] theorem dd_outcomeHandler (c : Cfg) (s : St) : (outcomeHandler c s).dead = s.dead := by
  unfold outcomeHandler; repeat' split
  all_goals simp
theorem dd_preGuard (c : Cfg) (s : St) : (preGuardHandlers c s).dead = s.dead := by
  have hl : ∀ s : St, (handleLogin s).dead = s.dead := by
    intro s; unfold handleLogin; repeat' split
    all_goals simp [St.raise]
  have hp : ∀ s : St, (handleChangePw c s).dead = s.dead := by
    intro s; unfold handleChangePw; repeat' split
    all_goals simp
  unfold preGuardHandlers
  rw [hp, hl]


theorem getActionCore_curT (c : Cfg) (s : St) (t : Int) (i : In) :
    (getActionCore c s t i).1.curT = s.curT ∨ (getActionCore c s t i).1.curT = t := by
  unfold getActionCore
  split
  · exact Or.inl rfl
  · split
    · exact Or.inl rfl
    · split
      · right
        unfold mainPath
        simp only [ct_bodies, ct_outcomeHandler, ct_setNext]
      · right
        unfold failPath
        simp only [ct_outcomeHandler, ct_setNext]

theorem getAction_curT (c : Cfg) (s : St) (t : Int) (i : In) :
    (getAction c s t i).1.curT = s.curT ∨ (getAction c s t i).1.curT = t := by
  unfold getAction
  have := getActionCore_curT c (preGuardHandlers c s) t i
  rw [ct_preGuard] at this
  exact this

theorem getAction_hist (c : Cfg) (s : St) (t : Int) (i : In) : (getAction c s t i).1.hist = s.hist := by
  unfold getAction getActionCore
  split
  · exact hs_preGuard c s
  · split
    · exact hs_preGuard c s
    · split
      · unfold mainPath
        simp only [hs_bodies, hs_outcomeHandler, hs_setNext, hs_reasonCheck, hs_returnHandler, hs_preGuard]
      · unfold failPath
        simp only [hs_setNext, hs_outcomeHandler, hs_returnHandler, hs_preGuard]

theorem getAction_dead (c : Cfg) (s : St) (t : Int) (i : In) : (getAction c s t i).1.dead = s.dead := by
  unfold getAction getActionCore
  split
  · exact dd_preGuard c s
  · split
    · exact dd_preGuard c s
    · split
      · unfold mainPath
        simp only [dd_bodies, dd_outcomeHandler, dd_setNext, dd_reasonCheck, dd_returnHandler, dd_preGuard]
      · unfold failPath
        simp only [dd_setNext, dd_outcomeHandler, dd_returnHandler, dd_preGuard]

/-! reachable states of a run from the constructor -/

def Stage.terminal : Stage → Bool
  | .succeeded | .failed => true
  | _ => false

theorem terminal_iff (x : Stage) : x.terminal = true ↔ (x = .succeeded ∨ x = .failed) := by
  cases x <;> simp [Stage.terminal]

/-- The state after the ticks `t, t+1, …` fed with `ins`. -/
def after (c : Cfg) : St → Int → List In → St
  | s, _, [] => s
  | s, t, i :: is => after c (step c s t i).1 (t + 1) is

theorem after_append (c : Cfg) : ∀ (pre : List In) (s : St) (t : Int) (post : List In),
    after c s t (pre ++ post) = after c (after c s t pre) (t + pre.length) post := by
  intro pre
  induction pre with
  | nil => intro s t post; simp [after]
  | cons i is ih =>
    intro s t post
    simp only [List.cons_append, after, List.length_cons]
    rw [ih]
    have e : t + 1 + (is.length : Int) = t + ((is.length + 1 : Nat) : Int) := by omega
    rw [e]

theorem after_dead (c : Cfg) : ∀ (w : List In) (s : St) (t : Int), s.dead = true → after c s t w = s := by
  intro w
  induction w with
  | nil => intro s t _; rfl
  | cons i is ih =>
    intro s t hd
    have : step c s t i = (s, .raised) := by simp [step, hd]
    simp only [after, this]
    exact ih s (t + 1) hd

structure WF (c : Cfg) (s : St) (t : Int) : Prop where
  inv : Inv s
  conc : ConcInv c s
  var : 0 ≤ c.variance
  tpos : 0 ≤ t
  curT : 0 ≤ s.curT
  err : s.err = false
  /-- `current_timestep` is the timestep of an earlier call (strictly, once the agent has left NOT_STARTED) -/
  curT_le : s.curT ≤ t
  curT_lt : s.curT < t ∨ s.cur = .notStarted

theorem wf_init (c : Cfg) (d0 : Int) (k : Nat) (s0 : St) (h0 : init c d0 k = some s0) : WF c s0 0 := by
  unfold init at h0
  split at h0
  · rename_i hv
    cases h0
    exact ⟨Or.inr rfl, (fun h => by cases h), by simpa [randintOk] using hv.1, Int.le_refl 0, Int.le_refl 0, rfl, Int.le_refl 0, Or.inr rfl⟩
  · cases h0

theorem wf_step (c : Cfg) (s : St) (t : Int) (i : In) (h : WF c s t) : WF c (step c s t i).1 (t + 1) := by
  have hinv := (C19_tap3_stage_step c s t i h.inv).2
  have hconc := step_concInv c s t i h.conc
  have hct : (step c s t i).1.curT = s.curT ∨ (step c s t i).1.curT = t := by
    unfold step
    split
    · exact Or.inl rfl
    · split
      · exact Or.inl rfl
      · exact getAction_curT c s t i
  have hle : (step c s t i).1.curT ≤ t := by
    rcases hct with e | e <;> rw [e]
    · exact h.curT_le
    · exact Int.le_refl t
  refine ⟨hinv, hconc, h.var, by have := h.tpos; omega, ?_, ?_, by omega, Or.inl (by omega)⟩
  · rcases hct with e | e <;> rw [e]
    · exact h.curT
    · exact h.tpos
  · unfold step
    split
    · exact h.err
    · split
      · exact h.err
      · rename_i he
        simp only []
        simpa using he

theorem wf_after (c : Cfg) : ∀ (pre : List In) (s : St) (t : Int), WF c s t → WF c (after c s t pre) (t + pre.length) := by
  intro pre
  induction pre with
  | nil => intro s t h; simpa [after] using h
  | cons i is ih =>
    intro s t h
    have := ih _ _ (wf_step c s t i h)
    simp only [after, List.length_cons]
    have e : t + ((is.length + 1 : Nat) : Int) = t + 1 + (is.length : Int) := by omega
    rw [e]; exact this

theorem lookBack_some (s : St) (h : 0 ≤ s.curT) : ∃ x, lookBack s = some x := by
  unfold lookBack
  split
  · exact ⟨_, rfl⟩
  · rename_i hlt
    unfold pyIndex
    rw [if_pos h]
    have hlt' : s.curT.toNat < s.hist.length := by omega
    exact ⟨s.hist[s.curT.toNat], by simp [hlt']⟩

/-! the tick that finds the chain ended -/

theorem outcome_terminal_chosen (c : Cfg) (s : St) (h : s.cur = .succeeded ∨ s.cur = .failed) :
    (outcomeHandler c s).chosen = Act.nothing := by
  unfold outcomeHandler; rw [if_pos h]; repeat' split
  all_goals rfl

theorem tapStart_chosen (s : St) (h : s.cur = .notStarted) : (tapStart s).chosen = Act.nothing ∧ (tapStart s).err = s.err := by
  simp [tapStart, h, Stage.ofVal?, Stage.all, Stage.val]

theorem err_setNext (c : Cfg) (s : St) (b d : Int) (hv : 0 ≤ c.variance) : (setNext c s b d).err = s.err := by
  simp [setNext, randintOk, hv]

theorem err_outcomeHandler (c : Cfg) (s : St) : (outcomeHandler c s).err = s.err := by
  unfold outcomeHandler; repeat' split
  all_goals simp

/-- An execution slot that finds the chain SUCCEEDED or FAILED returns do-nothing and does not raise after the two
pre-guard response handlers. -/
theorem core_terminal_slot (c : Cfg) (s : St) (t : Int) (i : In) (h : Hist) (hv : 0 ≤ c.variance)
    (hterm : s.cur = .succeeded ∨ s.cur = .failed) (hex : executes s t = true) (hh : lookBack s = some h) :
    (getActionCore c s t i).2 = Act.nothing ∧ (getActionCore c s t i).1.err = s.err := by
  have hcon : s.concluded = false := by simp [executes] at hex; exact hex.2
  have h1 : ((returnHandler c h s).cur = .succeeded ∨ (returnHandler c h s).cur = .failed) ∧
      (returnHandler c h s).concluded = false ∧ (returnHandler c h s).err = s.err := by
    unfold returnHandler; split
    · exact ⟨Or.inr rfl, hcon, rfl⟩
    · exact ⟨hterm, hcon, rfl⟩
  have key : ∀ (s' : St) (b d : Int), (s'.cur = .succeeded ∨ s'.cur = .failed) → s'.concluded = false →
      ((setNext c s' b d).cur = .succeeded ∨ (setNext c s' b d).cur = .failed) ∧ (setNext c s' b d).concluded = false ∧
      (setNext c s' b d).err = s'.err := by
    intro s' b d ht hc
    have hf := setNext_fields c s' b d
    exact ⟨by rw [hf.1]; exact ht, by rw [hf.2.2]; exact hc, err_setNext c s' b d hv⟩
  unfold getActionCore
  rw [if_neg (by simp [hex])]
  simp only [hh]
  generalize returnHandler c h s = s1 at h1 ⊢
  split
  · rename_i hp
    have hok : h.resp.ok = true := by
      simp only [passes, Bool.or_eq_true, beq_iff_eq] at hp
      rcases hp with hp | hp
      · exact hp
      · rcases h1.1 with h' | h' <;> rw [h'] at hp <;> cases hp
    have hrc : reasonCheck h s1 = s1 := by simp [reasonCheck, hok]
    rw [hrc]
    unfold mainPath
    have h2 := key { s1 with curT := t } (t + c.frequency) i.d1 h1.1 h1.2.1
    generalize setNext c { s1 with curT := t } (t + c.frequency) i.d1 = s2 at h2 ⊢
    have hch := outcome_terminal_chosen c s2 h2.1
    have herr := err_outcomeHandler c s2
    cases hr : c.repeatKillChain with
    | false =>
      have ht := (outcome_terminal c s2 h2.1 h2.2.1).2 hr
      have hterm3 : (outcomeHandler c s2).cur = .succeeded ∨ (outcomeHandler c s2).cur = .failed := by rw [ht.1]; exact h2.1
      rw [bodies_terminal c i _ hterm3]
      exact ⟨hch, by rw [herr, h2.2.2]; exact h1.2.2⟩
    | true =>
      have ht := (outcome_terminal c s2 h2.1 h2.2.1).1 hr
      rw [bodies_of_notStarted c i _ ht.1]
      have hts := tapStart_chosen _ ht.1
      exact ⟨hts.1, by rw [hts.2, herr, h2.2.2]; exact h1.2.2⟩
  · unfold failPath
    have h2 := key { s1 with curT := t } (t + c.frequency) i.d1 h1.1 h1.2.1
    generalize setNext c { s1 with curT := t } (t + c.frequency) i.d1 = s2 at h2 ⊢
    exact ⟨outcome_terminal_chosen c s2 h2.1, by rw [err_outcomeHandler, h2.2.2]; exact h1.2.2⟩

/-- What one tick does when it finds the chain ended (`s` = state before the tick, `t` = its timestep).  Unlike TAP001,
TAP003 runs two response handlers before its schedule guard; `_handle_login_response` raises `KeyError` on a successful
login response without `ip_address` / `username` — the only way such a tick can raise. -/
structure EndTick (c : Cfg) (s : St) (t : Int) (i : In) : Prop where
  /-- the agent does not act -/
  quiet : (step c s t i).2 = .act Act.nothing ∨ (step c s t i).2 = .raised
  /-- … and stays alive unless a pre-guard response handler raised -/
  alive : (preGuardHandlers c s).err = false → (step c s t i).1.dead = false
  /-- not yet an execution slot: nothing changes -/
  waits : executes s t = false → (step c s t i).1.cur = s.cur ∧ (step c s t i).1.concluded = s.concluded ∧
    (step c s t i).1.nextExec = s.nextExec
  /-- repeat off: the first execution slot concludes the agent, the stage stays SUCCEEDED / FAILED -/
  stops : executes s t = true → c.repeatKillChain = false → (step c s t i).1.dead = false →
    (step c s t i).1.concluded = true ∧ (step c s t i).1.cur.terminal = true
  /-- repeat on: the first execution slot restarts the chain, the agent is not concluded -/
  restarts : executes s t = true → c.repeatKillChain = true → (step c s t i).1.dead = false →
    (step c s t i).1.concluded = false ∧ ((step c s t i).1.cur = .notStarted ∨ (step c s t i).1.cur = .reconnaissance)

theorem end_tick (c : Cfg) (s : St) (t : Int) (i : In) (hw : WF c s t) (hterm : s.cur.terminal = true)
    (hd : s.dead = false) : EndTick c s t i := by
  have hterm' := (terminal_iff s.cur).1 hterm
  obtain ⟨h, hh⟩ := lookBack_some s hw.curT
  have hp := preGuard_fields c s
  by_cases herr : (getAction c s t i).1.err = true
  · -- the call raised
    have hstep : step c s t i = ({ s with dead := true }, .raised) := by
      unfold step
      rw [if_neg (by simp [hd]), if_pos herr]
    have hpe : (preGuardHandlers c s).err = true := by
      cases hex : executes s t with
      | false => rw [getAction_idle c s t i hex] at herr; exact herr
      | true =>
        have := core_terminal_slot c (preGuardHandlers c s) t i h hw.var (by rw [hp.1]; exact hterm')
          (by rw [executes_preGuard]; exact hex) (by rw [lookBack_preGuard]; exact hh)
        unfold getAction at herr
        rw [this.2] at herr; exact herr
    refine ⟨?_, ?_, ?_, ?_, ?_⟩ <;> rw [hstep]
    · exact Or.inr rfl
    · intro h'; rw [hpe] at h'; cases h'
    · exact fun _ => ⟨rfl, rfl, rfl⟩
    · intro _ _ h'; cases h'
    · intro _ _ h'; cases h'
  · have hstep : step c s t i = ({ (getAction c s t i).1 with
        hist := (getAction c s t i).1.hist ++ [{ act := (getAction c s t i).2, resp := i.resp }] },
        .act (getAction c s t i).2) := by
      unfold step
      rw [if_neg (by simp [hd]), if_neg herr]
    have hdead : (getAction c s t i).1.dead = false := by rw [getAction_dead]; exact hd
    cases hex : executes s t with
    | false =>
      have hga := getAction_idle c s t i hex
      refine ⟨?_, ?_, ?_, ?_, ?_⟩ <;> rw [hstep]
      · left; rw [hga]
      · exact fun _ => hdead
      · intro _; rw [hga]; exact ⟨hp.1, hp.2.2.1, hp.2.2.2⟩
      · intro h'; rw [hex] at h'; cases h'
      · intro h'; rw [hex] at h'; cases h'
    | true =>
      have hts := core_terminal_slot c (preGuardHandlers c s) t i h hw.var (by rw [hp.1]; exact hterm')
        (by rw [executes_preGuard]; exact hex) (by rw [lookBack_preGuard]; exact hh)
      have hout : (getAction c s t i).2 = Act.nothing := hts.1
      refine ⟨?_, ?_, ?_, ?_, ?_⟩ <;> rw [hstep]
      · left; rw [hout]
      · exact fun _ => hdead
      · intro h'; rw [hex] at h'; cases h'
      · intro _ hrep _
        have := C19_tap3_stops c s t i h hrep hterm' hex hh
        exact ⟨this.1, (terminal_iff _).2 this.2.1⟩
      · intro _ hrep _
        exact C19_tap3_restarts c s t i h hrep hterm' hex hh

/-! stage order over the whole run -/

/-- Position in the kill chain (the enum members the agent never enters sit between EXPLOIT and the end). -/
def ord : Stage → Nat
  | .notStarted => 0 | .reconnaissance => 1 | .planning => 2 | .access => 3 | .manipulation => 4 | .exploit => 5
  | .embed => 6 | .conceal => 6 | .extract => 6 | .erase => 6 | .succeeded => 7 | .failed => 7

theorem rank_le_of_allowed (c : Cfg) (a b : Stage) (h : Allowed c a b) (hrep : c.repeatKillChain = false) :
    ord a ≤ ord b := by
  rcases h with h | ⟨hc, h⟩ | h | ⟨ha, hb⟩ | ⟨hr, _⟩ | ⟨hr, _⟩
  · rw [h]; exact Nat.le_refl _
  · rw [h]; cases a <;> simp_all [Stage.chain, Stage.succ, ord]
  · rw [h]; cases a <;> simp [ord]
  · rw [ha, hb]; simp [ord]
  · rw [hrep] at hr; cases hr
  · rw [hrep] at hr; cases hr

/-- **A step back in stage order is a restart**: the sampled stage moves to a lower stage only with `repeat_kill_chain`,
only to NOT_STARTED or the first stage, and only from a finished chain (or, stages not being repeated, from the stage
that failed in the same tick). -/
theorem C19_tap3_descent_is_restart (c : Cfg) (a b : Stage) (h : Allowed c a b) (hlt : ord b < ord a) :
    c.repeatKillChain = true ∧ (b = .notStarted ∨ b = .reconnaissance) ∧
    ((a = .succeeded ∨ a = .failed) ∨ c.repeatStages = false) := by
  rcases h with h | ⟨hc, h⟩ | h | ⟨ha, hb⟩ | ⟨hr, hterm, hb⟩ | ⟨hr, hrs, hb⟩
  · rw [h] at hlt; omega
  · exfalso; rw [h] at hlt; revert hlt; cases a <;> simp_all [Stage.chain, Stage.succ, ord]
  · exfalso; rw [h] at hlt; revert hlt; cases a <;> simp [ord]
  · exfalso; rw [ha, hb] at hlt; simp [ord] at hlt
  · exact ⟨hr, hb, Or.inl hterm⟩
  · exact ⟨hr, Or.inl hb, Or.inr hrs⟩

theorem linked_chainLe (c : Cfg) (hrep : c.repeatKillChain = false) : ∀ (l : List St) (a : Stage),
    Linked (Allowed c) a l → ChainLe (ord a :: l.map (fun s => ord s.cur)) := by
  intro l
  induction l with
  | nil => intro a _; trivial
  | cons s r ih =>
    intro a h
    exact ⟨rank_le_of_allowed c a s.cur h.1 hrep, ih s.cur h.2⟩

/-- **The kill chain over a whole run (TAP003)** — one statement for every configuration, every first draw, every
sequence of schedule / trial / scan draws and simulator responses, every run length:

1. *order, no skipping*: each sampled stage is related to the previous one by `Allowed` (stay, the NEXT stage of the
   chain, FAILED, NOT_STARTED → first stage, or a restart that needs `repeat_kill_chain`);
2. *never backwards*: without `repeat_kill_chain` the stage ranks of the whole run are sorted
   (with it, a descent is a restart to NOT_STARTED / RECONNAISSANCE: `C19_tap3_descent_is_restart`);
3. at every tick of the run (`pre` = the ticks before it): `actions_concluded` is set only with repeat off and the
   chain ended; and a live agent that finds the chain SUCCEEDED or FAILED never acts, waits for its next execution
   slot, and in that slot stops for good (repeat off: concluded, stage kept) or restarts (repeat on: NOT_STARTED or
   straight into RECONNAISSANCE, never concluded) — failure branches included (`EndTick`). -/
theorem C19_tap3_kill_chain_run (c : Cfg) (d0 : Int) (k : Nat) (s0 : St) (ins : List In) (h0 : init c d0 k = some s0) :
    Linked (Allowed c) s0.cur (run c s0 0 ins) ∧
    (c.repeatKillChain = false → ((s0 :: run c s0 0 ins).map (fun s => ord s.cur)).Pairwise (· ≤ ·)) ∧
    (∀ (pre : List In) (i : In) (post : List In), ins = pre ++ i :: post →
      ((after c s0 0 pre).concluded = true →
        c.repeatKillChain = false ∧ (after c s0 0 pre).cur.terminal = true) ∧
      ((after c s0 0 pre).cur.terminal = true → (after c s0 0 pre).dead = false →
        EndTick c (after c s0 0 pre) pre.length i)) := by
  have hL := (C19_tap3_stage_monotone c d0 k s0 ins h0).1
  refine ⟨hL, ?_, ?_⟩
  · intro hrep
    exact pairwise_of_chainLe _ (linked_chainLe c hrep _ _ hL)
  · intro pre i post _
    have hw := wf_after c pre s0 0 (wf_init c d0 k s0 h0)
    rw [Int.zero_add] at hw
    refine ⟨?_, fun hterm hd => end_tick c _ _ i hw hterm hd⟩
    intro hc
    have := hw.conc hc
    exact ⟨this.1, (terminal_iff _).2 this.2⟩

/-- Non-vacuity: repeat on, stages not repeated, ACCESS.probability 0: the agent of `exCfg` fails in ACCESS, the next
execution slot finds the chain FAILED and restarts it straight into RECONNAISSANCE. -/
example :
    let c : Cfg := { exCfg with repeatStages := false, pAccess := ⟨0, 1⟩ }
    ∃ s0, init c 0 0 = some s0 ∧
      (run c s0 0 (List.replicate 7 exIn)).map (·.cur)
        = [.notStarted, .reconnaissance, .planning, .access, .failed, .reconnaissance, .planning] := by
  refine ⟨_, rfl, ?_⟩; decide

/-- **Stops at the first slot after the end** (TAP003).  From any tick of a run that finds the chain ended (agent alive,
not concluded), either a pre-guard response handler raises on the way, or the ticks `w` up to the next execution slot
change nothing and that tick is an execution slot (where `EndTick.stops` / `EndTick.restarts` apply). -/
theorem wait_until_slot (c : Cfg) : ∀ (w : List In) (s : St) (t : Int), WF c s t → s.cur.terminal = true →
    s.dead = false → s.concluded = false → (w.length : Int) = max t s.nextExec - t →
    (after c s t w).dead = true ∨
    ((after c s t w).cur = s.cur ∧ (after c s t w).concluded = false ∧ (after c s t w).nextExec = s.nextExec ∧
     (after c s t w).dead = false ∧ executes (after c s t w) (t + w.length) = true) := by
  intro w
  induction w with
  | nil =>
    intro s t _ _ hd hc hlen
    simp only [List.length_nil] at hlen
    refine Or.inr ⟨rfl, hc, rfl, hd, ?_⟩
    have : s.nextExec ≤ t := by omega
    simp [after, executes, hc]; omega
  | cons i is ih =>
    intro s t hw hterm hd hc hlen
    simp only [List.length_cons] at hlen
    have hex : executes s t = false := by
      have : t < s.nextExec := by omega
      simp [executes, this]
    have he := end_tick c s t i hw hterm hd
    obtain ⟨h1, h2, h3⟩ := he.waits hex
    simp only [after, List.length_cons]
    cases hdd : (step c s t i).1.dead with
    | true => left; rw [after_dead c is _ _ hdd]; exact hdd
    | false =>
      have hterm' : (step c s t i).1.cur.terminal = true := by rw [h1]; exact hterm
      have := ih (step c s t i).1 (t + 1) (wf_step c s t i hw) hterm' hdd (by rw [h2]; exact hc)
        (by rw [h3]; omega)
      rw [h1, h3] at this
      have e : t + ((is.length + 1 : Nat) : Int) = t + 1 + (is.length : Int) := by omega
      rw [e]; exact this

/-! `actions_concluded` over a run -/

theorem concluded_switch (c : Cfg) : ∀ (pre : List In) (s : St) (t : Int), s.concluded = false →
    (after c s t pre).concluded = true →
    ∃ pre1 i rest, pre = pre1 ++ i :: rest ∧ (after c s t pre1).concluded = false ∧
      (step c (after c s t pre1) (t + pre1.length) i).1.concluded = true := by
  intro pre
  induction pre with
  | nil => intro s t h0 h1; simp only [after] at h1; rw [h0] at h1; cases h1
  | cons i is ih =>
    intro s t h0 h1
    cases hc : (step c s t i).1.concluded with
    | true => exact ⟨[], i, is, rfl, h0, by simpa [after] using hc⟩
    | false =>
      obtain ⟨pre1, j, rest, he, ha, hb⟩ := ih _ _ hc h1
      refine ⟨i :: pre1, j, rest, by rw [he]; rfl, ha, ?_⟩
      simp only [after, List.length_cons]
      have e : t + ((pre1.length + 1 : Nat) : Int) = t + 1 + (pre1.length : Int) := by omega
      rw [e]; exact hb

/-- **`actions_concluded` over a whole run (TAP003): written at the end of the chain and nowhere else.** -/
theorem C19_tap3_concluded_run (c : Cfg) (d0 : Int) (k : Nat) (s0 : St) (h0 : init c d0 k = some s0) (pre : List In)
    (hc : (after c s0 0 pre).concluded = true) :
    ∃ pre1 i rest, pre = pre1 ++ i :: rest ∧
      (after c s0 0 pre1).concluded = false ∧ (after c s0 0 pre1).dead = false ∧
      executes (after c s0 0 pre1) pre1.length = true ∧ c.repeatKillChain = false ∧
      ((after c s0 0 (pre1 ++ [i])).cur = .succeeded ∨ (after c s0 0 (pre1 ++ [i])).cur = .failed) ∧
      (step c (after c s0 0 pre1) pre1.length i).2 = .act Act.nothing := by
  have hs0 : s0.concluded = false := by
    unfold init at h0
    split at h0
    · cases h0; rfl
    · cases h0
  obtain ⟨pre1, i, rest, he, ha, hb⟩ := concluded_switch c pre s0 0 hs0 hc
  rw [Int.zero_add] at hb
  refine ⟨pre1, i, rest, he, ha, ?_⟩
  have e2 : after c s0 0 (pre1 ++ [i]) = (step c (after c s0 0 pre1) pre1.length i).1 := by
    rw [after_append]; simp [after]
  rw [e2]
  generalize after c s0 0 pre1 = s at ha hb ⊢
  generalize (pre1.length : Int) = t at hb ⊢
  cases hd : s.dead with
  | true => simp [step, hd, ha] at hb
  | false =>
    by_cases herr : (getAction c s t i).1.err = true
    · simp [step, hd, herr, ha] at hb
    · have hstep : step c s t i = ({ (getAction c s t i).1 with
          hist := (getAction c s t i).1.hist ++ [{ act := (getAction c s t i).2, resp := i.resp }] },
          .act (getAction c s t i).2) := by
        unfold step
        rw [if_neg (by simp [hd]), if_neg herr]
      rw [hstep] at hb ⊢
      have := C19_tap3_concluded_only_at_end c s t i ha hb
      exact ⟨rfl, this.1, this.2.1, this.2.2.1, by rw [this.2.2.2]⟩

/-! gaps between consecutive ACTING ticks (assembled over the whole run) -/

def Out.nonIdle : Out → Bool
  | .act a => decide (a ≠ Act.nothing)
  | .raised => false

/-- The ticks of a run at which the agent returns an action other than do-nothing. -/
def actTimes (c : Cfg) : St → Int → List In → List Int
  | _, _, [] => []
  | s, t, i :: is =>
    if (step c s t i).2.nonIdle then t :: actTimes c (step c s t i).1 (t + 1) is
    else actTimes c (step c s t i).1 (t + 1) is

theorem mem_actTimes (c : Cfg) : ∀ (ins : List In) (s : St) (t x : Int),
    x ∈ actTimes c s t ins ↔ ∃ a, (x, Out.act a) ∈ runOut c s t ins ∧ a ≠ Act.nothing := by
  intro ins
  induction ins with
  | nil => intro s t x; simp [actTimes, runOut]
  | cons i is ih =>
    intro s t x
    simp only [actTimes, runOut, List.mem_cons]
    cases ho : (step c s t i).2 with
    | raised =>
      simp only [Out.nonIdle, Bool.false_eq_true, if_false, ih]
      constructor
      · rintro ⟨a, h, hne⟩; exact ⟨a, Or.inr h, hne⟩
      · rintro ⟨a, h | h, hne⟩
        · cases h
        · exact ⟨a, h, hne⟩
    | act a0 =>
      by_cases hn : a0 = Act.nothing
      · have : (Out.act a0).nonIdle = false := by simp [Out.nonIdle, hn]
        simp only [this, Bool.false_eq_true, if_false, ih]
        constructor
        · rintro ⟨a, h, hne⟩; exact ⟨a, Or.inr h, hne⟩
        · rintro ⟨a, h | h, hne⟩
          · cases h; exact absurd hn hne
          · exact ⟨a, h, hne⟩
      · have : (Out.act a0).nonIdle = true := by simp [Out.nonIdle, hn]
        simp only [this, if_true, List.mem_cons, ih]
        constructor
        · rintro (h | ⟨a, h, hne⟩)
          · exact ⟨a0, Or.inl (by rw [h]), hn⟩
          · exact ⟨a, Or.inr h, hne⟩
        · rintro ⟨a, h | h, hne⟩
          · left; cases h; rfl
          · exact Or.inr ⟨a, h, hne⟩

theorem nonIdle_slot (c : Cfg) (s : St) (t : Int) (i : In) (h : (step c s t i).2.nonIdle = true) :
    (sched c).slot s t = true := by
  rw [slot_iff]
  cases hd : s.dead with
  | true => simp [step, hd, Out.nonIdle] at h
  | false =>
    cases hex : executes s t with
    | true => rfl
    | false =>
      rcases (step_idle c s t i hex).1 with ho | ho <;> rw [ho] at h <;> simp [Out.nonIdle] at h

theorem actTimes_sublist (c : Cfg) : ∀ (ins : List In) (s : St) (t : Int),
    (actTimes c s t ins).Sublist (slotTimes c s t ins) := by
  intro ins
  induction ins with
  | nil => intro s t; exact List.Sublist.slnil
  | cons i is ih =>
    intro s t
    have ih' := ih (step c s t i).1 (t + 1)
    unfold slotTimes at ih' ⊢
    simp only [actTimes, SchedSys.slots]
    cases hn : (step c s t i).2.nonIdle with
    | true =>
      have hs := nonIdle_slot c s t i hn
      simp only [hs, if_true]
      exact List.Sublist.cons_cons _ ih'
    | false =>
      simp only [Bool.false_eq_true, if_false]
      split
      · exact List.Sublist.cons _ ih'
      · exact ih'

/-- **Gaps between consecutive actions of TAP003, assembled over the whole run.**  In a run from the constructor with
all schedule draws in range, the ticks at which the agent returns an action other than do-nothing form a sublist of
its execution slots; none lies before `start_step + d0` (nor before step 0); consecutive ones are `k` slot gaps apart
(`k − 1` = the number of silent slots — failed trial, start tick, restart — in between), each slot gap in
`[max 1 (frequency − variance), max 1 (frequency + variance)]`; in particular the agent never acts twice within less
than `max 1 (frequency − variance)` steps. -/
theorem C19_tap3_action_gaps (c : Cfg) (d0 : Int) (k : Nat) (s0 : St) (ins : List In) (h0 : init c d0 k = some s0)
    (hins : DrawsIn c ins) :
    (actTimes c s0 0 ins).Sublist (slotTimes c s0 0 ins) ∧
    (∀ x ∈ actTimes c s0 0 ins, c.startStep + d0 ≤ x ∧ 0 ≤ x) ∧
    MultiGaps (max 1 (c.frequency - c.variance)) (max 1 (c.frequency + c.variance)) (actTimes c s0 0 ins) ∧
    GapsAtLeast (max 1 (c.frequency - c.variance)) (actTimes c s0 0 ins) := by
  have hsub := actTimes_sublist c ins s0 0
  obtain ⟨_, hg, hge, _⟩ := C19_tap3_slot_gaps c d0 k s0 ins h0 hins
  have hL := sched_law c (wf_init c d0 k s0 h0).var
  have hm := multiGaps_of_sublist _ _ _ _ hg hsub
  refine ⟨hsub, ?_, hm, multiGaps_atLeast _ _ (by omega) _ hm⟩
  intro x hx
  have hx' := hsub.subset hx
  exact ⟨hge x hx', ((sched c).slots_ge hL ins s0 0 x hx').1⟩

/-- Non-vacuity: same schedule as for TAP001. -/
example :
    let c : Cfg := { exCfg with startStep := 2, frequency := 3, variance := 1 }
    ∃ s0, init c 0 0 = some s0 ∧
      actTimes c s0 0 ((List.range 25).map fun j =>
        { exIn with d1 := if j = 2 then 1 else if j = 6 then -1 else 0 }) = [14, 17, 20, 23] := by
  refine ⟨_, rfl, ?_⟩
  decide

theorem C19_tap3_ends_at_first_slot (c : Cfg) (d0 : Int) (k : Nat) (s0 : St) (h0 : init c d0 k = some s0) (pre w : List In) (i : In)
    (hterm : (after c s0 0 pre).cur.terminal = true) (hd : (after c s0 0 pre).dead = false)
    (hc : (after c s0 0 pre).concluded = false)
    (hlen : (w.length : Int) = max (pre.length : Int) (after c s0 0 pre).nextExec - pre.length) :
    (after c s0 0 (pre ++ w ++ [i])).dead = true ∨
    ((after c s0 0 (pre ++ w)).cur = (after c s0 0 pre).cur ∧
     (c.repeatKillChain = false →
       (after c s0 0 (pre ++ w ++ [i])).concluded = true ∧ (after c s0 0 (pre ++ w ++ [i])).cur.terminal = true) ∧
     (c.repeatKillChain = true →
       (after c s0 0 (pre ++ w ++ [i])).concluded = false ∧
       ((after c s0 0 (pre ++ w ++ [i])).cur = .notStarted ∨ (after c s0 0 (pre ++ w ++ [i])).cur = .reconnaissance))) := by
  have hw := wf_after c pre s0 0 (wf_init c d0 k s0 h0)
  rw [Int.zero_add] at hw
  have e1 : after c s0 0 (pre ++ w) = after c (after c s0 0 pre) pre.length w := by
    rw [after_append, Int.zero_add]
  have e2 : after c s0 0 (pre ++ w ++ [i]) = (step c (after c s0 0 (pre ++ w)) ((pre.length : Int) + w.length) i).1 := by
    rw [after_append]
    simp only [after, List.length_append, Int.zero_add]
    rw [show ((pre.length + w.length : Nat) : Int) = (pre.length : Int) + w.length by omega]
  rcases wait_until_slot c w _ _ hw hterm hd hc hlen with hdead | ⟨h1, h2, h3, h4, h5⟩
  · left
    rw [e2, e1]
    have : step c (after c (after c s0 0 pre) pre.length w) ((pre.length : Int) + w.length) i =
        (after c (after c s0 0 pre) pre.length w, .raised) := by simp [step, hdead]
    rw [this]; exact hdead
  · have hw2 := wf_after c w _ _ hw
    have he := end_tick c _ _ i hw2 (by rw [h1]; exact hterm) h4
    rw [e2, e1]
    cases hdd : (step c (after c (after c s0 0 pre) pre.length w) ((pre.length : Int) + w.length) i).1.dead with
    | true => exact Or.inl rfl
    | false => exact Or.inr ⟨h1, fun hr => he.stops h5 hr hdd, fun hr => he.restarts h5 hr hdd⟩

/-! `progress_only_after_success` against the run's own responses -/

/-- The responses stored in the history of a live agent are the responses the run fed it, in order. -/
theorem hist_after (c : Cfg) : ∀ (pre : List In) (s : St) (t : Int), (after c s t pre).dead = false →
    (after c s t pre).hist.map (·.resp) = s.hist.map (·.resp) ++ pre.map (·.resp) := by
  intro pre
  induction pre with
  | nil => intro s t _; simp [after]
  | cons i is ih =>
    intro s t hfin
    simp only [after] at hfin ⊢
    have hd1 : (step c s t i).1.dead = false := by
      cases hdd : (step c s t i).1.dead with
      | false => rfl
      | true => rw [after_dead c is _ _ hdd] at hfin; rw [hdd] at hfin; cases hfin
    rw [ih _ _ hfin]
    have hh : (step c s t i).1.hist.map (·.resp) = s.hist.map (·.resp) ++ [i.resp] := by
      have hd : s.dead = false := by
        cases hdd : s.dead with
        | false => rfl
        | true => simp [step, hdd] at hd1
      by_cases herr : (getAction c s t i).1.err = true
      · simp [step, hd, herr] at hd1
      · have hstep : step c s t i = ({ (getAction c s t i).1 with
            hist := (getAction c s t i).1.hist ++ [{ act := (getAction c s t i).2, resp := i.resp }] },
            .act (getAction c s t i).2) := by
          unfold step
          rw [if_neg (by simp [hd]), if_neg herr]
        rw [hstep]
        simp only [List.map_append, List.map_cons, List.map_nil, getAction_hist]
    rw [hh]
    simp [List.append_assoc]

/-- **progress_only_after_success over a whole run (TAP003).**  In a run from the constructor, whenever a tick moves the
stage of the chain to its successor, that tick was an execution slot, and the simulator's response `pre[current_timestep]`
— the response the run gave to the action the agent returned in its previous execution slot — was a success
(except in PLANNING, as coded). -/
theorem C19_tap3_run_progress_only_after_success (c : Cfg) (d0 : Int) (k : Nat) (s0 : St) (h0 : init c d0 k = some s0)
    (pre : List In) (i : In) (hch : (after c s0 0 pre).cur.chain = true)
    (hadv : (after c s0 0 (pre ++ [i])).cur = (after c s0 0 pre).cur.succ) :
    executes (after c s0 0 pre) pre.length = true ∧
    ∃ j, pre[(after c s0 0 pre).curT.toNat]? = some j ∧
      (j.resp.ok = true ∨ (after c s0 0 pre).cur = .planning) := by
  have hw := wf_after c pre s0 0 (wf_init c d0 k s0 h0)
  rw [Int.zero_add] at hw
  have e2 : after c s0 0 (pre ++ [i]) = (step c (after c s0 0 pre) pre.length i).1 := by
    rw [after_append]; simp [after]
  rw [e2] at hadv
  have hs0 : s0.hist = [] := by
    unfold init at h0
    split at h0
    · cases h0; rfl
    · cases h0
  have hne : (after c s0 0 pre).cur.succ ≠ (after c s0 0 pre).cur := by
    revert hch; cases (after c s0 0 pre).cur <;> simp [Stage.succ, Stage.chain]
  have hd : (after c s0 0 pre).dead = false := by
    cases hdd : (after c s0 0 pre).dead with
    | false => rfl
    | true => simp [step, hdd] at hadv; exact absurd hadv.symm hne
  have hhist := hist_after c pre s0 0 hd
  rw [hs0] at hhist
  simp only [List.map_nil, List.nil_append] at hhist
  generalize after c s0 0 pre = s at *
  have hadv' : (getAction c s pre.length i).1.cur = s.cur.succ := by
    unfold step at hadv
    rw [if_neg (by simp [hd])] at hadv
    split at hadv
    · exact absurd hadv.symm hne
    · exact hadv
  obtain ⟨hex, h, hh, hok⟩ := C19_tap3_progress_only_after_success c s pre.length i hch hadv'
  refine ⟨hex, ?_⟩
  have hlt : s.curT < pre.length := by
    rcases hw.curT_lt with h' | h'
    · exact h'
    · rw [h'] at hch; simp [Stage.chain] at hch
  have hlen : s.hist.length = pre.length := by
    have := congrArg List.length hhist
    simpa using this
  unfold lookBack at hh
  rw [if_neg (by omega)] at hh
  unfold pyIndex at hh
  rw [if_pos hw.curT] at hh
  have hj : (pre.map (·.resp))[s.curT.toNat]? = some h.resp := by
    rw [← hhist, List.getElem?_map, hh]; rfl
  rw [List.getElem?_map] at hj
  cases hp : pre[s.curT.toNat]? with
  | none => rw [hp] at hj; cases hj
  | some j =>
    rw [hp] at hj
    simp only [Option.map_some, Option.some.injEq] at hj
    exact ⟨j, rfl, by rw [hj]; exact hok⟩

/-! `EXPLOIT.probability ≤ 0`: no ACL command over a whole run, the chain never succeeds -/

/-- The invariant: while in EXPLOIT the stage progress is still PENDING (the entry trial has not been passed), and the
remembered `chosen_action` is not an ACL command. -/
def K (s : St) : Prop := (s.cur = .exploit → s.prog = .pending) ∧ s.chosen.kind ≠ .remoteAcl

theorem nothing_ne : Act.nothing.kind ≠ Kind.remoteAcl := by decide

theorem K_curT (s : St) (t : Int) (h : K s) : K { s with curT := t } := ⟨h.1, h.2⟩

theorem K_progress (s : St) (h : K s) : K (progress s) := by
  unfold progress
  repeat' split
  all_goals first | exact h | exact ⟨fun _ => rfl, h.2⟩

theorem K_failStage (c : Cfg) (s : St) (h : K s) : K (failStage c s) := by
  unfold failStage
  split
  · exact h
  · exact ⟨(fun hc => by cases hc), h.2⟩

theorem K_nothing (s : St) (h : K s) : K { s with chosen := Act.nothing } := ⟨h.1, nothing_ne⟩

theorem K_exploit (c : Cfg) (i : In) (s : St) (hp : c.pExploit.num ≤ 0) (h : K s) : K (exploit c i s) := by
  unfold exploit
  split
  · exact h
  · rename_i hcur
    have hcur' : s.cur = .exploit := by simpa using hcur
    rw [if_pos ⟨h.1 hcur', by simp [C19_trial_zero_never_passes c.pExploit i.u hp]⟩]
    exact K_failStage c _ (K_nothing s h)

theorem manipAct_K (c : Cfg) (s : St) (h : s.chosen.kind ≠ .remoteAcl) :
    (manipAct c s).cur = s.cur ∧ (manipAct c s).chosen.kind ≠ .remoteAcl := by
  unfold manipAct
  repeat' split
  all_goals first | exact ⟨rfl, h⟩ | exact ⟨rfl, by simp⟩

theorem K_manipulation (c : Cfg) (i : In) (s : St) (h : K s) : K (manipulation c i s) := by
  unfold manipulation
  split
  · exact h
  · rename_i hcur
    have hcur' : s.cur = .manipulation := by simpa using hcur
    split
    · have hb : (manipBegin s).cur = s.cur ∧ (manipBegin s).chosen = s.chosen := by
        unfold manipBegin; split <;> simp
      have ha := manipAct_K c (manipBegin s) (by rw [hb.2]; exact h.2)
      have hk : K (manipAct c (manipBegin s)) :=
        ⟨(fun hc => by rw [ha.1, hb.1, hcur'] at hc; cases hc), ha.2⟩
      unfold manipFinish
      split
      · exact K_progress _ hk
      · exact hk
    · exact K_failStage c _ (K_nothing s h)

theorem K_access (c : Cfg) (i : In) (s : St) (h : K s) : K (access c i s) := by
  unfold access
  split
  · exact h
  · split
    · exact K_nothing _ (K_progress s h)
    · exact K_failStage c _ (K_nothing s h)

theorem K_planning (c : Cfg) (i : In) (s : St) (h : K s) : K (planning c i s) := by
  unfold planning
  split
  · exact h
  · split
    · apply K_progress
      split
      · exact h
      · exact h
    · exact K_failStage c _ (K_nothing s h)

theorem K_reconnaissance (s : St) (h : K s) : K (reconnaissance s) := by
  unfold reconnaissance
  split
  · exact h
  · exact K_progress _ (K_nothing s h)

theorem K_tapStart (s : St) (h : K s) : K (tapStart s) := by
  unfold tapStart
  split
  · exact h
  · split
    · exact ⟨(fun hc => by cases hc), nothing_ne⟩
    · exact h

theorem K_bodies (c : Cfg) (i : In) (s : St) (hp : c.pExploit.num ≤ 0) (h : K s) : K (bodies c i s) := by
  unfold bodies
  exact K_tapStart _ (K_reconnaissance _ (K_planning c i _ (K_access c i _ (K_manipulation c i _ (K_exploit c i s hp h)))))

theorem K_outcomeHandler (c : Cfg) (s : St) (h : K s) : K (outcomeHandler c s) := by
  unfold outcomeHandler
  repeat' split
  all_goals first | exact h | exact ⟨h.1, nothing_ne⟩ | exact ⟨(fun hc => by cases hc), nothing_ne⟩

theorem K_setNext (c : Cfg) (s : St) (b d : Int) (h : K s) : K (setNext c s b d) := by
  unfold setNext; split <;> exact h

theorem K_returnHandler (c : Cfg) (x : Hist) (s : St) (h : K s) : K (returnHandler c x s) := by
  unfold returnHandler
  split
  · exact ⟨(fun hc => by cases hc), h.2⟩
  · exact h

theorem K_reasonCheck (x : Hist) (s : St) (h : K s) : K (reasonCheck x s) := by
  unfold reasonCheck; split <;> exact h

theorem K_preGuard (c : Cfg) (s : St) (h : K s) : K (preGuardHandlers c s) := by
  have hl : ∀ s : St, K s → K (handleLogin s) := by
    intro s h; unfold handleLogin; repeat' split
    all_goals exact h
  have hc : ∀ s : St, K s → K (handleChangePw c s) := by
    intro s h; unfold handleChangePw; repeat' split
    all_goals exact h
  exact hc _ (hl _ h)

theorem K_mainPath (c : Cfg) (s : St) (t : Int) (i : In) (hp : c.pExploit.num ≤ 0) (h : K s) : K (mainPath c s t i) := by
  unfold mainPath
  have h2 := K_curT _ t h
  have h3 := K_setNext c _ (t + c.frequency) i.d1 h2
  have h4 := K_outcomeHandler c _ h3
  exact K_bodies c i _ hp h4

theorem K_failPath (c : Cfg) (s : St) (t : Int) (i : In) (h : K s) : K (failPath c s t i) := by
  unfold failPath
  have h2 := K_curT _ t h
  have h3 := K_setNext c _ (t + c.frequency) i.d1 h2
  exact K_outcomeHandler c _ h3

theorem K_getAction (c : Cfg) (s : St) (t : Int) (i : In) (hp : c.pExploit.num ≤ 0) (h : K s) :
    K (getAction c s t i).1 ∧ (getAction c s t i).2.kind ≠ .remoteAcl := by
  have h' := K_preGuard c s h
  unfold getAction
  generalize preGuardHandlers c s = s1 at h' ⊢
  unfold getActionCore
  split
  · exact ⟨h', nothing_ne⟩
  · split
    · exact ⟨h', nothing_ne⟩
    · rename_i x _
      have hr := K_returnHandler c x s1 h'
      have hm := K_mainPath c (reasonCheck x (returnHandler c x s1)) t i hp (K_reasonCheck x _ hr)
      have hf := K_failPath c (returnHandler c x s1) t i hr
      split
      · simp only []
        exact ⟨hm, hm.2⟩
      · simp only []
        exact ⟨hf, hf.2⟩

theorem K_step (c : Cfg) (s : St) (t : Int) (i : In) (hp : c.pExploit.num ≤ 0) (h : K s) :
    K (step c s t i).1 ∧ ∀ a, (step c s t i).2 = .act a → a.kind ≠ .remoteAcl := by
  have hg := K_getAction c s t i hp h
  unfold step
  split
  · exact ⟨h, fun a ha => by cases ha⟩
  · split
    · exact ⟨h, fun a ha => by cases ha⟩
    · exact ⟨hg.1, fun a ha => by cases ha; exact hg.2⟩

theorem run_K (c : Cfg) (hp : c.pExploit.num ≤ 0) : ∀ (ins : List In) (s : St) (t : Int), K s →
    (∀ t' a, (t', Out.act a) ∈ runOut c s t ins → a.kind ≠ .remoteAcl) ∧ ∀ s' ∈ run c s t ins, K s' := by
  intro ins
  induction ins with
  | nil => intro s t _; simp [runOut, run]
  | cons i is ih =>
    intro s t h
    have hs := K_step c s t i hp h
    obtain ⟨h1, h2⟩ := ih _ (t + 1) hs.1
    refine ⟨?_, ?_⟩
    · intro t' a hm
      simp only [runOut, List.mem_cons] at hm
      rcases hm with heq | hm
      · exact hs.2 a (Prod.mk.inj heq).2.symm
      · exact h1 t' a hm
    · intro s' hs'
      simp only [run, List.mem_cons] at hs'
      rcases hs' with rfl | hs'
      · exact hs.1
      · exact h2 s' hs'

/-- **`EXPLOIT.probability ≤ 0` ⇒ no ACL command, ever** (run level).  For every other setting, every draw and every
response sequence, an agent whose EXPLOIT probability is zero (or negative) never returns a
`node-send-remote-command … acl add_rule`: it never gets past the entry trial of EXPLOIT (stage progress PENDING
throughout). -/
theorem C19_tap3_exploit_probability_zero_never_acl (c : Cfg) (d0 : Int) (k : Nat) (s0 : St) (ins : List In)
    (h0 : init c d0 k = some s0) (hp : c.pExploit.num ≤ 0) :
    (∀ t a, (t, Out.act a) ∈ runOut c s0 0 ins → a.kind ≠ .remoteAcl) ∧
    (∀ s ∈ run c s0 0 ins, s.cur = .exploit → s.prog = .pending) := by
  have hk : K s0 := by
    unfold init at h0
    split at h0
    · cases h0; exact ⟨(fun hc => by cases hc), nothing_ne⟩
    · cases h0
  have := run_K c hp ins s0 0 hk
  exact ⟨this.1, fun s hs => (this.2 s hs).1⟩

/-- Non-vacuity / sensitivity: with probability 1 the agent of `exCfg` does issue ACL commands. -/
example : ∃ s0, init exCfg 0 0 = some s0 ∧
    ((runOut exCfg s0 0 (List.replicate 16 exIn)).any fun x =>
      match x.2 with | .act a => a.kind == .remoteAcl | .raised => false) = true := by
  refine ⟨_, rfl, ?_⟩; decide

end Tap3
end Primaite.Agents
