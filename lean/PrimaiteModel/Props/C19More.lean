/-
C19, part 7 (round 4):

* TAP001: where `current_host` is assigned (one lemma per row of the pinned table `Tap1.currentHost`), the start-node
  theorem spelled out for every pass of the kill chain, and why `_download` has to re-assert the start node;
* TAP003: `EXPLOIT.probability ≤ 0` ⇒ the chain never SUCCEEDS (run level);
* the sampler: numpy's right-sided binary search and the model's linear `scan` are the same function on the exact cdf;
  the cdf of non-negative probabilities is sorted (exact model: proved; any number type: from monotone `+` and `/`).
-/
import PrimaiteModel.Props.C19Nodes
import PrimaiteModel.Props.C19Sampler
namespace Primaite.Agents
namespace Tap1

/-! ## 22b. TAP001: `current_host` -/

theorem host_progress (s : St) : (progress s).host = s.host := by
  unfold progress; repeat' split
  all_goals simp [St.raise]

/-- **Every assignment of `current_host` in the model**, row by row of `Tap1.currentHost` (the table
`C19_gen_current_host` pins against TAP001.py): `setup_agent`, `_download` (on entering the stage), `_install`,
`_activate`, `_propagate` (on entering the stage) set it to `starting_node`; `_payload` (on a passed entry trial) to the
configured C2 server.  No other method writes it (`HInv` is preserved by all of them with `host` unchanged). -/
theorem C19_tap1_current_host_sites (c : Cfg) (i : In) (s : St) :
    (∀ d0 k1 k2 s0, init c d0 k1 k2 = some s0 → s0.host = s0.startNode) ∧
    (s.prog = .pending → (downloadAct s).host = s.startNode) ∧
    (s.cur = .install → (install s).host = s.startNode) ∧
    (s.cur = .activate → (activate s).host = s.startNode) ∧
    (s.prog = .pending → (propagatePrep c s).host = s.startNode) ∧
    (s.prog = .pending → trial c.pPayload i.u = true → (payloadEnter c i s).host = c.c2Server) := by
  refine ⟨?_, ?_, ?_, ?_, ?_, ?_⟩
  · intro d0 k1 k2 s0 h0
    unfold init at h0
    split at h0
    · cases h0; rfl
    · cases h0
  · intro hp; unfold downloadAct; rw [if_pos hp]
  · intro hc; unfold install; rw [if_neg (by simp [hc]), host_progress]
  · intro hc; unfold activate; rw [if_neg (by simp [hc]), host_progress]
  · intro hp; unfold propagatePrep propagateReset; rw [if_pos hp]; split <;> rfl
  · intro hp ht; unfold payloadEnter; rw [if_pos hp, if_pos ht]

/-- **Every pass of the kill chain** (restatement of `C19_tap1_actions_on_start_node` per tick of a run, which may
contain any number of restarts and any pattern of failed responses and failed trials before that tick): whatever the
ticks `pre` did, the action returned at the next tick, if it is one of DOWNLOAD / INSTALL / ACTIVATE / PROPAGATE /
COMMAND_AND_CONTROL, names the start node selected in `setup_agent`. -/
theorem C19_tap1_start_node_every_pass (c : Cfg) (d0 : Int) (k1 k2 : Nat) (s0 : St) (h0 : init c d0 k1 k2 = some s0)
    (pre : List In) (i : In) (a : Act) (ha : (step c (after c s0 0 pre) pre.length i).2 = .act a) :
    (a.kind.onStart = true → a.node = s0.startNode) ∧ (a.kind.onC2 = true → a.node = c.c2Server) := by
  have hmem : ((pre.length : Int), Out.act a) ∈ runOut c s0 0 (pre ++ [i]) := by
    have gen : ∀ (pre : List In) (s : St) (t : Int),
        (t + pre.length, (step c (after c s t pre) (t + pre.length) i).2) ∈ runOut c s t (pre ++ [i]) := by
      intro pre
      induction pre with
      | nil => intro s t; simp [runOut, after]
      | cons j js ih =>
        intro s t
        simp only [List.cons_append, runOut, after, List.length_cons, List.mem_cons]
        right
        have := ih (step c s t j).1 (t + 1)
        have e : t + 1 + (js.length : Int) = t + ((js.length + 1 : Nat) : Int) := by omega
        rw [e] at this
        exact this
    have := gen pre s0 0
    rw [Int.zero_add, ha] at this
    exact this
  exact C19_tap1_actions_on_start_node c d0 k1 k2 s0 (pre ++ [i]) h0 _ a hmem

/-- Non-vacuity over three passes and into a fourth: repeat on, every response successful.  First pass 9 start-node actions
and 3 on the C2 server; later passes 8 and 2 (`beacon_configured` and the payload flags are consumed: observation, as
coded) — every DOWNLOAD … COMMAND_AND_CONTROL action of every pass names the start node. -/
example :
    let c : Cfg := { exCfg with repeatKillChain := true, defaultStartingNode := "pc", c2Server := "c2" }
    ∃ s0, init c 0 0 0 = some s0 ∧
      ((runOut c s0 0 (List.replicate 44 exIn)).filterMap fun x =>
        match x.2 with
        | .act a => if a.kind = .doNothing then none else some a.node
        | .raised => none)
        = List.replicate 9 "pc" ++ List.replicate 3 "c2" ++ List.replicate 8 "pc" ++ List.replicate 2 "c2" ++
          List.replicate 8 "pc" ++ List.replicate 2 "c2" ++ List.replicate 4 "pc" := by
  refine ⟨_, rfl, ?_⟩; decide

/-- **Why `_download` has to re-assert the start node** (the line seeded change C19-d removes): the exception
"`current_host` need not be the start node while DOWNLOAD is pending" in the invariant is really used — after a first pass
a run reaches DOWNLOAD / PENDING with `current_host` still the C2 server. -/
example :
    let c : Cfg := { exCfg with repeatKillChain := true, defaultStartingNode := "pc", c2Server := "c2" }
    ∃ s0, init c 0 0 0 = some s0 ∧
      ((after c s0 0 (List.replicate 16 exIn)).cur, (after c s0 0 (List.replicate 16 exIn)).prog,
       (after c s0 0 (List.replicate 16 exIn)).host) = (Stage.download, Progress.pending, "c2") := by
  refine ⟨_, rfl, ?_⟩; decide

end Tap1

namespace Tap3

/-! ## 23. TAP003: `EXPLOIT.probability ≤ 0` ⇒ the kill chain never SUCCEEDS -/

/-- SUCCEEDED is entered only from EXPLOIT. -/
theorem succeeded_only_from_exploit (c : Cfg) (a : Stage) (h : Allowed c a .succeeded) (hne : a ≠ .succeeded) :
    a = .exploit := by
  revert h hne
  cases a <;> simp [Allowed, Stage.succ, Stage.chain]

/-- From EXPLOIT with the entry trial still pending (`K`) and a probability that never passes, the stage methods of one
call leave the agent in EXPLOIT or FAILED: only `_exploit` runs, and it fails its trial. -/
theorem bodies_exploit_K (c : Cfg) (i : In) (s : St) (hp : c.pExploit.num ≤ 0) (hk : K s) (hc : s.cur = .exploit) :
    (bodies c i s).cur = .exploit ∨ (bodies c i s).cur = .failed := by
  have he : exploit c i s = failStage c { s with chosen := Act.nothing } := by
    unfold exploit
    rw [if_neg (by simp [hc]), if_pos ⟨hk.1 hc, by simp [C19_trial_zero_never_passes c.pExploit i.u hp]⟩]
  have hcur : (exploit c i s).cur = .exploit ∨ (exploit c i s).cur = .failed := by
    rw [he]; unfold failStage; split
    · left; exact hc
    · right; rfl
  have skip : ∀ e : St, (e.cur = .exploit ∨ e.cur = .failed) →
      tapStart (reconnaissance (planning c i (access c i (manipulation c i e)))) = e := by
    intro e h
    have n1 : e.cur ≠ .manipulation := by rcases h with h | h <;> rw [h] <;> simp
    have n2 : e.cur ≠ .access := by rcases h with h | h <;> rw [h] <;> simp
    have n3 : e.cur ≠ .planning := by rcases h with h | h <;> rw [h] <;> simp
    have n4 : e.cur ≠ .reconnaissance := by rcases h with h | h <;> rw [h] <;> simp
    have n5 : e.cur ≠ .notStarted := by rcases h with h | h <;> rw [h] <;> simp
    rw [manipulation_skip c i e n1, access_skip c i e n2, planning_skip c i e n3, reconnaissance_skip e n4, tapStart_skip e n5]
  unfold bodies
  rw [skip _ hcur]
  exact hcur

theorem core_no_succeed (c : Cfg) (s : St) (t : Int) (i : In) (hp : c.pExploit.num ≤ 0) (hk : K s) (hc : s.cur = .exploit) :
    (getActionCore c s t i).1.cur ≠ .succeeded := by
  unfold getActionCore
  split
  · rw [hc]; simp
  · rename_i hex
    have hcon : s.concluded = false := by simp [executes] at hex; exact hex.2
    split
    · simp only [St.raise]; rw [hc]; simp
    · rename_i x _
      have hr := returnHandler_soft c x s
      have hkr := K_returnHandler c x s hk
      have hcr : (returnHandler c x s).concluded = false := by rw [con_returnHandler]; exact hcon
      generalize returnHandler c x s = s1 at hr hkr hcr
      rw [hc] at hr
      -- the state handed to `_tap_outcome_handler`
      have key : ∀ s' : St, K s' → (s'.cur = .exploit ∨ s'.cur = .failed) → s'.concluded = false →
          (outcomeHandler c s').cur ≠ .succeeded ∧
          ((outcomeHandler c s').cur = .exploit → outcomeHandler c s' = s') ∧
          ((outcomeHandler c s').cur = .exploit ∨ (outcomeHandler c s').cur = .failed ∨ (outcomeHandler c s').cur = .notStarted) := by
        intro s' _ hcs hcc
        rcases hcs with h | h
        · have : outcomeHandler c s' = s' := outcome_other c s' (by rw [h]; simp) (by rw [h]; simp)
          rw [this]
          exact ⟨by rw [h]; simp, fun _ => rfl, Or.inl h⟩
        · have ht := outcome_terminal c s' (Or.inr h) hcc
          cases hrk : c.repeatKillChain with
          | true =>
            have := (ht.1 hrk).1
            exact ⟨by rw [this]; simp, (fun h' => by rw [this] at h'; cases h'), Or.inr (Or.inr this)⟩
          | false =>
            have := (ht.2 hrk).1
            exact ⟨by rw [this, h]; simp, (fun h' => by rw [this, h] at h'; cases h'), Or.inr (Or.inl (by rw [this, h]))⟩
      split
      · -- main path
        unfold mainPath
        have hrc := reasonCheck_fields x s1
        have hk2 : K (setNext c { reasonCheck x s1 with curT := t } (t + c.frequency) i.d1) :=
          K_setNext c _ _ _ (K_curT _ t (K_reasonCheck x s1 hkr))
        have hf := setNext_fields c { reasonCheck x s1 with curT := t } (t + c.frequency) i.d1
        have hcur2 : (setNext c { reasonCheck x s1 with curT := t } (t + c.frequency) i.d1).cur = .exploit ∨
            (setNext c { reasonCheck x s1 with curT := t } (t + c.frequency) i.d1).cur = .failed := by
          rw [hf.1]; simp only []; rw [hrc.1]; exact hr.1
        have hcon2 : (setNext c { reasonCheck x s1 with curT := t } (t + c.frequency) i.d1).concluded = false := by
          rw [hf.2.2]; simp only []; rw [hrc.2.2]; exact hcr
        generalize setNext c { reasonCheck x s1 with curT := t } (t + c.frequency) i.d1 = s2 at hk2 hcur2 hcon2
        obtain ⟨_, hsame, hcases⟩ := key s2 hk2 hcur2 hcon2
        rcases hcases with h3 | h3 | h3
        · have e := hsame h3
          rw [e] at h3 ⊢
          rcases bodies_exploit_K c i s2 hp hk2 h3 with hb | hb <;> rw [hb] <;> simp
        · rw [bodies_terminal c i _ (Or.inr h3), h3]; simp
        · rw [(bodies_notStarted c i _ h3).1]; simp
      · -- repeat-previous-action path
        unfold failPath
        have hk2 : K (setNext c { s1 with curT := t } (t + c.frequency) i.d1) := K_setNext c _ _ _ (K_curT _ t hkr)
        have hf := setNext_fields c { s1 with curT := t } (t + c.frequency) i.d1
        have hcur2 : (setNext c { s1 with curT := t } (t + c.frequency) i.d1).cur = .exploit ∨
            (setNext c { s1 with curT := t } (t + c.frequency) i.d1).cur = .failed := by
          rw [hf.1]; exact hr.1
        have hcon2 : (setNext c { s1 with curT := t } (t + c.frequency) i.d1).concluded = false := by
          rw [hf.2.2]; exact hcr
        exact (key _ hk2 hcur2 hcon2).1

theorem getAction_no_succeed (c : Cfg) (s : St) (t : Int) (i : In) (hp : c.pExploit.num ≤ 0) (hk : K s)
    (hc : s.cur = .exploit) : (getAction c s t i).1.cur ≠ .succeeded := by
  unfold getAction
  exact core_no_succeed c _ t i hp (K_preGuard c s hk) (by rw [(preGuard_fields c s).1]; exact hc)

/-- the invariant: entry trial pending while in EXPLOIT, `next = succ(current)`, not SUCCEEDED -/
def NS (s : St) : Prop := K s ∧ Inv s ∧ s.cur ≠ .succeeded

theorem NS_step (c : Cfg) (s : St) (t : Int) (i : In) (hp : c.pExploit.num ≤ 0) (h : NS s) : NS (step c s t i).1 := by
  obtain ⟨hk, hi, hns⟩ := h
  have hst := C19_tap3_stage_step c s t i hi
  refine ⟨(K_step c s t i hp hk).1, hst.2, ?_⟩
  intro hsucc
  have hall := hst.1
  rw [hsucc] at hall
  have hex := succeeded_only_from_exploit c s.cur hall hns
  unfold step at hsucc
  split at hsucc
  · exact hns hsucc
  · split at hsucc
    · exact hns hsucc
    · exact getAction_no_succeed c s t i hp hk hex hsucc

/-- **`EXPLOIT.probability ≤ 0` ⇒ the kill chain never SUCCEEDS** (run level): for every other setting, every draw and
every response sequence, no state of a run from the constructor has `current_kill_chain_stage = SUCCEEDED` (the agent can
only be stopped in EXPLOIT, FAIL, or be restarted). -/
theorem C19_tap3_exploit_probability_zero_never_succeeds (c : Cfg) (d0 : Int) (k : Nat) (s0 : St) (ins : List In)
    (h0 : init c d0 k = some s0) (hp : c.pExploit.num ≤ 0) : ∀ s ∈ run c s0 0 ins, s.cur ≠ .succeeded := by
  have hinit : NS s0 := by
    unfold init at h0
    split at h0
    · cases h0
      exact ⟨⟨(fun hc => by cases hc), nothing_ne⟩, Or.inr rfl, (fun hc => by cases hc)⟩
    · cases h0
  intro s hs
  exact (run_inv c NS (fun s t i h => NS_step c s t i hp h) ins s0 0 hinit s hs).2.2

end Tap3

/-! ## 24. The binary search and the exact linear scan agree; the cdf of non-negative probabilities is sorted -/

/-- Loop invariant of `npy_binsearch<right>` in predicate form: all it needs is that "key < entry" is monotone along the
array (once true, true for every later entry). -/
theorem bsearchRight_spec_mono {F : Type} (lt : F → F → Bool) (arr : List F) (key : F)
    (hmono : ∀ (i j : Nat) (a b : F), i ≤ j → arr[i]? = some a → arr[j]? = some b → lt key a = true → lt key b = true) :
    ∀ (fuel lo hi : Nat), lo ≤ hi → hi ≤ arr.length → hi - lo ≤ fuel →
    (∀ j a, j < lo → arr[j]? = some a → lt key a = false) →
    (∀ j a, hi ≤ j → arr[j]? = some a → lt key a = true) →
    lo ≤ bsearchRight lt arr key fuel lo hi ∧ bsearchRight lt arr key fuel lo hi ≤ hi ∧
    (∀ j a, j < bsearchRight lt arr key fuel lo hi → arr[j]? = some a → lt key a = false) ∧
    (∀ j a, bsearchRight lt arr key fuel lo hi ≤ j → arr[j]? = some a → lt key a = true) := by
  intro fuel
  induction fuel with
  | zero =>
    intro lo hi hle _ hf hlo hhi
    have : lo = hi := by omega
    subst this
    exact ⟨Nat.le_refl _, Nat.le_refl _, hlo, hhi⟩
  | succ fuel ih =>
    intro lo hi hle hlen hf hlo hhi
    unfold bsearchRight
    by_cases hlt : lo < hi
    · rw [if_pos hlt]
      have hmid : lo + (hi - lo) / 2 < hi := by omega
      have hmidlen : lo + (hi - lo) / 2 < arr.length := by omega
      have hm : arr[lo + (hi - lo) / 2]? = some arr[lo + (hi - lo) / 2] := List.getElem?_eq_getElem hmidlen
      rw [hm]
      simp only []
      cases hk : lt key arr[lo + (hi - lo) / 2] with
      | true =>
        simp only [if_true]
        have := ih lo (lo + (hi - lo) / 2) (by omega) (by omega) (by omega) hlo (by
          intro j a hj ha
          exact hmono _ j _ a hj hm ha hk)
        exact ⟨this.1, by omega, this.2.2.1, this.2.2.2⟩
      | false =>
        simp only [Bool.false_eq_true, if_false]
        have := ih (lo + (hi - lo) / 2 + 1) hi (by omega) hlen (by omega) (by
          intro j a hj ha
          cases hja : lt key a with
          | false => rfl
          | true =>
            have := hmono j _ a _ (by omega) ha hm hja
            rw [hk] at this; cases this) hhi
        exact ⟨by omega, this.2.1, this.2.2.1, this.2.2.2⟩
    · rw [if_neg hlt]
      have : lo = hi := by omega
      subst this
      exact ⟨Nat.le_refl _, Nat.le_refl _, hlo, hhi⟩

theorem searchsortedRight_spec_mono {F : Type} (lt : F → F → Bool) (arr : List F) (key : F)
    (hmono : ∀ (i j : Nat) (a b : F), i ≤ j → arr[i]? = some a → arr[j]? = some b → lt key a = true → lt key b = true) :
    searchsortedRight lt arr key ≤ arr.length ∧
    (∀ j a, j < searchsortedRight lt arr key → arr[j]? = some a → lt key a = false) ∧
    (∀ j a, searchsortedRight lt arr key ≤ j → arr[j]? = some a → lt key a = true) := by
  have := bsearchRight_spec_mono lt arr key hmono arr.length 0 arr.length (Nat.zero_le _) (Nat.le_refl _) (by omega)
    (fun j a hj _ => absurd hj (Nat.not_lt_zero j))
    (fun j a hj ha => by
      have : arr[j]? = none := List.getElem?_eq_none hj
      rw [this] at ha; cases ha)
  exact ⟨this.2.1, this.2.2.1, this.2.2.2⟩

/-! the exact model: running sums of natural weights, `u < c / total` on integers -/

/-- `u < c / total` (the comparison `scan` makes), as a "less than" whose left argument is a dummy -/
def exactLt (u : Unif) (total : Nat) : Nat → Nat → Bool := fun _ c => decide (u.num * total < u.den * c)

theorem cumsumFrom_nat_get : ∀ (ws : List Nat) (acc j : Nat), j < ws.length →
    (cumsumFrom (· + ·) acc ws)[j]? = some (acc + (ws.take (j + 1)).sum) := by
  intro ws
  induction ws with
  | nil => intro acc j h; simp at h
  | cons w r ih =>
    intro acc j h
    cases j with
    | zero => simp [cumsumFrom]
    | succ j =>
      simp only [cumsumFrom, List.getElem?_cons_succ, List.take_succ_cons, List.sum_cons]
      rw [ih (acc + w) j (by simpa using h)]
      simp [Nat.add_assoc]

theorem take_sum_mono : ∀ (ws : List Nat) (i j : Nat), i ≤ j → (ws.take i).sum ≤ (ws.take j).sum := by
  intro ws
  induction ws with
  | nil => intro i j _; simp
  | cons w r ih =>
    intro i j h
    cases i with
    | zero => simp
    | succ i =>
      cases j with
      | zero => omega
      | succ j =>
        simp only [List.take_succ_cons, List.sum_cons]
        have := ih i j (by omega)
        omega

/-- **The cdf of non-negative probabilities is sorted** (model's number type: naturals over a common denominator). -/
theorem C19_cumsum_sorted (ws : List Nat) (acc : Nat) :
    SortedBy (fun a b => decide (a < b)) (cumsumFrom (· + ·) acc ws) := by
  intro i j a b hij ha hb
  have hlen := cumsumFrom_length (· + ·) ws acc
  have hj : j < ws.length := by
    rcases Nat.lt_or_ge j ws.length with h | h
    · exact h
    · rw [List.getElem?_eq_none (by rw [hlen]; exact h)] at hb; cases hb
  rw [cumsumFrom_nat_get ws acc i (by omega)] at ha
  rw [cumsumFrom_nat_get ws acc j hj] at hb
  cases ha; cases hb
  have := take_sum_mono ws (i + 1) (j + 1) (by omega)
  simp only [decide_eq_false_iff_not]
  omega

theorem scan_none (u : Unif) (total : Nat) : ∀ (ws : List Nat) (acc base : Nat), scan u total acc base ws = none →
    ∀ j, j < ws.length → ¬ u.num * total < u.den * (acc + (ws.take (j + 1)).sum) := by
  intro ws
  induction ws with
  | nil => intro acc base _ j h; simp at h
  | cons w r ih =>
    intro acc base h j hj
    unfold scan at h
    split at h
    · cases h
    · rename_i hn
      cases j with
      | zero => simpa using hn
      | succ j =>
        have := ih (acc + w) (base + 1) h j (by simpa using hj)
        rw [List.take_succ_cons, List.sum_cons]
        simpa [Nat.add_assoc] using this

/-- **numpy's binary search and the model's linear scan return the same index** on the exact cdf: the right-sided
binary search over the running sums, with the comparison `u < c / total`, equals `scan` (and the length when `scan`
finds nothing). -/
theorem C19_scan_eq_searchsorted (u : Unif) (total : Nat) (ws : List Nat) :
    searchsortedRight (exactLt u total) (cumsumFrom (· + ·) 0 ws) 0 = (scan u total 0 0 ws).getD ws.length := by
  have hlen := cumsumFrom_length (· + ·) ws 0
  have hmono : ∀ (i j : Nat) (a b : Nat), i ≤ j → (cumsumFrom (· + ·) 0 ws)[i]? = some a →
      (cumsumFrom (· + ·) 0 ws)[j]? = some b → exactLt u total 0 a = true → exactLt u total 0 b = true := by
    intro i j a b hij ha hb hp
    have hs := C19_cumsum_sorted ws 0 i j a b hij ha hb
    simp only [decide_eq_false_iff_not] at hs
    simp only [exactLt, decide_eq_true_eq] at hp ⊢
    have : u.den * a ≤ u.den * b := Nat.mul_le_mul_left _ (by omega)
    omega
  obtain ⟨hr, hbelow, habove⟩ := searchsortedRight_spec_mono (exactLt u total) _ 0 hmono
  rw [hlen] at hr
  generalize searchsortedRight (exactLt u total) (cumsumFrom (· + ·) 0 ws) 0 = r at hr hbelow habove
  cases hsc : scan u total 0 0 ws with
  | none =>
    simp only [Option.getD_none]
    rcases Nat.lt_or_ge r ws.length with hlt | hge
    · exfalso
      have hg := cumsumFrom_nat_get ws 0 r hlt
      have := habove r _ (Nat.le_refl _) hg
      simp only [exactLt, decide_eq_true_eq] at this
      exact scan_none u total ws 0 0 hsc r hlt this
    · omega
  | some i =>
    simp only [Option.getD_some]
    obtain ⟨_, hil, hpi, hmin⟩ := scan_spec u total ws 0 0 i hsc
    simp only [Nat.sub_zero] at hil hpi hmin
    rcases Nat.lt_trichotomy r i with h | h | h
    · exfalso
      have hg := cumsumFrom_nat_get ws 0 r (by omega)
      have := habove r _ (Nat.le_refl _) hg
      simp only [exactLt, decide_eq_true_eq] at this
      exact hmin r h this
    · exact h
    · exfalso
      have hg := cumsumFrom_nat_get ws 0 i hil
      have := hbelow i _ h hg
      simp only [exactLt, decide_eq_false_iff_not] at this
      exact this hpi

/-- … hence `choice` (what the model of `Generator.choice` answers) IS the right-sided binary search on the cdf. -/
theorem C19_choice_eq_searchsorted (n : Nat) (ws : List Nat) (u : Unif) (hlen : ws.length = n) (hsum : 0 < ws.sum) :
    choice n ws u =
      (if searchsortedRight (exactLt u ws.sum) (cumsumFrom (· + ·) 0 ws) 0 < n
       then .chose (searchsortedRight (exactLt u ws.sum) (cumsumFrom (· + ·) 0 ws) 0) else .raised) := by
  rw [C19_scan_eq_searchsorted]
  unfold choice
  rw [if_neg (by intro h; rcases h with h | h <;> omega)]
  cases hsc : scan u ws.sum 0 0 ws with
  | none => simp [hlen]
  | some i =>
    have := (scan_spec u ws.sum ws 0 0 i hsc).2.1
    simp only [Option.getD_some]
    rw [if_pos (by omega)]

/-! sortedness of the cdf over any number type whose `+` and `/` are monotone -/

theorem sorted_of_consecutive {F : Type} (lt : F → F → Bool) (refl : ∀ x, lt x x = false)
    (trans : ∀ x y z, lt x y = false → lt y z = false → lt x z = false) (arr : List F)
    (h : ∀ k a b, arr[k]? = some a → arr[k + 1]? = some b → lt b a = false) : SortedBy lt arr := by
  intro i j a b hij ha hb
  obtain ⟨d, rfl⟩ : ∃ d, j = i + d := ⟨j - i, by omega⟩
  clear hij
  induction d generalizing b with
  | zero =>
    simp only [Nat.add_zero] at hb
    rw [ha] at hb; cases hb; exact refl a
  | succ d ih =>
    have hlt : i + d < arr.length := by
      rcases Nat.lt_or_ge (i + d) arr.length with h' | h'
      · exact h'
      · rw [List.getElem?_eq_none (by omega)] at hb; cases hb
    have hm : arr[i + d]? = some arr[i + d] := List.getElem?_eq_getElem hlt
    have h1 := ih _ hm
    have h2 := h (i + d) _ b hm hb
    exact trans b _ a h2 h1

/-- **The cdf numpy builds from non-negative probabilities is sorted**, over any number type in which adding a
non-negative number does not decrease a sum and dividing by the same number preserves `≤` (both hold for IEEE doubles:
rounding is monotone; this is where IEEE stays trusted). -/
theorem C19_cdf_sorted {F : Type} (lt : F → F → Bool) (L : LtLaws lt) (refl : ∀ x, lt x x = false)
    (add div : F → F → F) (zero : F)
    (add_mono : ∀ x w, lt w zero = false → lt (add x w) x = false)
    (div_mono : ∀ x y d, lt y x = false → lt (div y d) (div x d) = false)
    (ws : List F) (hnn : ∀ w ∈ ws, lt w zero = false) : SortedBy lt (cdfNp add div ws) := by
  apply sorted_of_consecutive lt refl L.le_trans
  intro k a b ha hb
  unfold cdfNp at ha hb
  cases hl : (cumsum add ws).getLast? with
  | none => rw [hl] at ha; simp at ha
  | some last =>
    rw [hl] at ha hb
    simp only [List.getElem?_map] at ha hb
    cases hca : (cumsum add ws)[k]? with
    | none => rw [hca] at ha; cases ha
    | some ca =>
      cases hcb : (cumsum add ws)[k + 1]? with
      | none => rw [hcb] at hb; cases hb
      | some cb =>
        rw [hca] at ha; rw [hcb] at hb
        simp only [Option.map_some, Option.some.injEq] at ha hb
        subst ha; subst hb
        apply div_mono
        have hk1 : k + 1 < ws.length := by
          rcases Nat.lt_or_ge (k + 1) ws.length with h' | h'
          · exact h'
          · rw [List.getElem?_eq_none (by rw [cumsum_length]; exact h')] at hcb; cases hcb
        have hw : ws[k + 1]? = some ws[k + 1] := List.getElem?_eq_getElem hk1
        have := cumsum_succ add ws k _ ca hw hca
        rw [hcb] at this
        cases this
        exact add_mono ca _ (hnn _ (List.getElem_mem hk1))

/-- `C19_numpy_choice_never_zero` with the sortedness discharged: for non-negative probabilities (which `choice`
enforces) no hypothesis about the cdf is left. -/
theorem C19_numpy_choice_never_zero_nonneg {F : Type} (lt : F → F → Bool) (L : LtLaws lt) (refl : ∀ x, lt x x = false)
    (add div : F → F → F) (zero : F)
    (add_zero : ∀ x, add x zero = x) (zero_div : ∀ x, div zero x = zero)
    (add_mono : ∀ x w, lt w zero = false → lt (add x w) x = false)
    (div_mono : ∀ x y d, lt y x = false → lt (div y d) (div x d) = false)
    (ws : List F) (hnn : ∀ w ∈ ws, lt w zero = false) (u : F) (hu : lt u zero = false)
    (i : Nat) (hi : ws[i]? = some zero) :
    searchsortedRight lt (cdfNp add div ws) u ≠ i :=
  C19_numpy_choice_never_zero lt L add div zero add_zero zero_div ws u hu
    (C19_cdf_sorted lt L refl add div zero add_mono div_mono ws hnn) i hi

/-- Non-vacuity of the laws: the naturals with `+` and "division" that keeps the numerator satisfy all of them. -/
example : ∀ (ws : List Nat) (u i : Nat), ws[i]? = some 0 →
    searchsortedRight (fun a b => decide (a < b)) (cdfNp (· + ·) (fun a _ => a) ws) u ≠ i := by
  intro ws u i hi
  refine C19_numpy_choice_never_zero_nonneg (fun a b => decide (a < b)) ⟨?_, ?_⟩ (by simp) (· + ·) (fun a _ => a) 0
    (by simp) (by simp) ?_ ?_ ws (by simp) u (by simp) i hi
  · intro x y z h1 h2; simp at h1 h2 ⊢; omega
  · intro x y z h1 h2; simp at h1 h2 ⊢; omega
  · intro x w _; simp
  · intro x y d h; simpa using h


/-! ## 25. PeriodicAgent / DataManipulationAgent: the action and its parameters come from the configuration -/

theorem render_execute (c : PeriodicCfg) (n : Nat) (h : n < c.nStartNodes) :
    ∃ v, c.nodes[n]? = some v ∧ v ∈ c.nodes ∧
      (PeriodicOut.execute n).render c =
        some ("node-application-execute", [("node_name", v), ("application_name", c.app)]) := by
  have hn : n < c.nodes.length := h
  exact ⟨c.nodes[n], List.getElem?_eq_getElem hn, List.getElem_mem hn, by simp [PeriodicOut.render, hn]⟩

/-- Every output of the model is do-nothing, an exception, or an `execute`. -/
theorem periodicOut_cases (o : PeriodicOut) : o = .doNothing ∨ o = .raised ∨ ∃ n, o = .execute n := by
  cases o
  · exact Or.inl rfl
  · exact Or.inr (Or.inr ⟨_, rfl⟩)
  · exact Or.inr (Or.inl rfl)

/-- **Only from its configured start nodes, only the configured application (PeriodicAgent, run level).**  In every run from
the constructor — any settings the validator accepts, any draws, any length — every action the agent returns other than
do-nothing is `node-application-execute` with `application_name` = the configured `target_application` and `node_name` = an
element of `possible_start_nodes` (the one `random.choice` drew when `start_node` was first read), the same node in every
action of the run. -/
theorem C19_periodic_params_from_config (c : PeriodicCfg) (d0 : Int) (s0 : PeriodicState) (ins : List PIn)
    (h0 : periodicInit c d0 = some s0) :
    ∃ v, (∀ n, .execute n ∈ runFrom (periodicStep c) s0 0 ins →
        v ∈ c.nodes ∧ c.nodes[n]? = some v ∧
        (PeriodicOut.execute n).render c =
          some ("node-application-execute", [("node_name", v), ("application_name", c.app)])) := by
  by_cases hex : ∃ n, PeriodicOut.execute n ∈ runFrom (periodicStep c) s0 0 ins
  · obtain ⟨n, hn⟩ := hex
    obtain ⟨hlt, hsame⟩ := C19_periodic_action_node c d0 s0 ins h0 n hn
    obtain ⟨v, hv, hmem, hr⟩ := render_execute c n hlt
    refine ⟨v, fun n' hn' => ?_⟩
    rw [hsame n' hn']
    exact ⟨hmem, hv, hr⟩
  · exact ⟨"", fun n hn => absurd ⟨n, hn⟩ hex⟩

/-- The same for the DataManipulationAgent (`target_application` defaults to `data-manipulation-bot`: `C19_gen_periodic_params`). -/
theorem C19_dm_params_from_config (c : PeriodicCfg) (s0 : PeriodicState) (ins : List PIn) (h0 : dmInit c = some s0) :
    ∃ v, (∀ n, .execute n ∈ runFrom (dmStep c) s0 0 ins →
        v ∈ c.nodes ∧ c.nodes[n]? = some v ∧
        (PeriodicOut.execute n).render c =
          some ("node-application-execute", [("node_name", v), ("application_name", c.app)])) := by
  by_cases hex : ∃ n, PeriodicOut.execute n ∈ runFrom (dmStep c) s0 0 ins
  · obtain ⟨n, hn⟩ := hex
    obtain ⟨hlt, hsame⟩ := C19_dm_action_node c s0 ins h0 n hn
    obtain ⟨v, hv, hmem, hr⟩ := render_execute c n hlt
    refine ⟨v, fun n' hn' => ?_⟩
    rw [hsame n' hn']
    exact ⟨hmem, hv, hr⟩
  · exact ⟨"", fun n hn => absurd ⟨n, hn⟩ hex⟩

/-- Non-vacuity: three nodes, the draw picks the third; application `web-browser`. -/
example :
    let c : PeriodicCfg := { startStep := 1, startVariance := 0, frequency := 2, variance := 0, maxExecutions := 2,
                             nodes := ["cl-a", "cl-b", "cl-c"], app := "web-browser" }
    ∃ s0, periodicInit c 0 = some s0 ∧
      ((runFrom (periodicStep c) s0 0 ((List.range 6).map fun _ => ({ d := 0, k := 2 } : PIn))).map (·.render c))
        = [some ("do-nothing", []), some ("node-application-execute", [("node_name", "cl-c"), ("application_name", "web-browser")]),
           some ("do-nothing", []), some ("node-application-execute", [("node_name", "cl-c"), ("application_name", "web-browser")]),
           some ("do-nothing", []), some ("do-nothing", [])] := by
  refine ⟨_, rfl, ?_⟩; decide

/-- The dictionary both `get_action`s return, the body of the cached `start_node` property and the data-manipulation
agent's default application are the ones the model renders. -/
theorem C19_gen_periodic_params :
    Gen.Agents.periodicActionParams = periodicActionParams ∧ Gen.Agents.dmActionParams = periodicActionParams ∧
    Gen.Agents.periodicStartNode = periodicStartNode ∧ Gen.Agents.dmDefaultApplication = dmDefaultApplication := ⟨rfl, rfl, rfl, rfl⟩

/-- TAP003's load-time check of the network knowledge and the knowledge update after a local password change have the
shape the model has (`Tap3.Cfg.knowledgeOk`, `Tap3.handleChangePw`): repairs of F-C19-5 and F-C19-6. -/
theorem C19_gen_tap3_knowledge : Gen.Agents.tap3Knowledge = tap3Knowledge := rfl

/-- What the validator guarantees of a constructed TAP003: every account-change host and every ACL router has an entry in
the starting knowledge, with an address for every router and for every host that is not the only possible start node. -/
theorem C19_tap3_constructed_knowledge (c : Tap3.Cfg) (d0 : Int) (k : Nat) (s0 : Tap3.St) (h0 : Tap3.init c d0 k = some s0) :
    (∀ a ∈ c.acls, ∃ cr, c.creds0.get a.router = some cr ∧ cr.ip.isSome = true) ∧
    (∀ a ∈ c.accountChanges, ∃ cr, c.creds0.get a.host = some cr ∧
      (cr.ip.isSome = true ∨ ∀ n ∈ c.startSet, n = a.host)) := by
  unfold Tap3.init at h0
  split at h0
  · rename_i hv
    have hk := hv.2.2
    unfold Tap3.Cfg.knowledgeOk at hk
    simp only [Bool.and_eq_true, List.all_eq_true] at hk
    refine ⟨fun a ha => ?_, fun a ha => ?_⟩
    · have := hk.2 a ha
      unfold Tap3.Cfg.knows at this
      cases hg : c.creds0.get a.router with
      | none => rw [hg] at this; cases this
      | some cr => rw [hg] at this; exact ⟨cr, rfl, by simpa using this⟩
    · have := hk.1 a ha
      unfold Tap3.Cfg.knows at this
      cases hg : c.creds0.get a.host with
      | none => rw [hg] at this; cases this
      | some cr =>
        rw [hg] at this
        refine ⟨cr, rfl, ?_⟩
        simp only [Bool.or_eq_true, Bool.not_eq_true', Bool.not_eq_false', List.all_eq_true, beq_iff_eq] at this
        rcases this with h | h
        · exact Or.inr h
        · exact Or.inl h
  · cases h0

end Primaite.Agents
