/-
Property C15, third part: the glue between a node and its file system (`Model/FileSystemNode.lean`).

"The per-tick creation/deletion counters start every tick at zero" is a statement about what a NODE reports, and the node
decides when its file system's `pre_timestep` / `apply_timestep` run and which requests reach it.  The theorems below hold
for EVERY power history (the power flag is an input that may change at any moment) and every sequence of requests,
API calls, node scans and ticks; the guard table they rest on (`codeGlue`) is regenerated from
`Node.pre_timestep / apply_timestep / describe_state / _init_request_manager` on every run (`C15_gen_node_glue`).
-/
import PrimaiteModel.Props.C15Api
import PrimaiteModel.Gen.FileSystemNode
namespace Primaite.FileSystem

def NState.counters (n : NState) : Nat × Nat := (n.x.s.numCreations, n.x.s.numDeletions)

/-! ### what each node-level event does to the file system -/

/-- While the node is ON a request below `file_system` is exactly the file-system request (so every theorem about
requests — refusal of deleted targets, create-on-existing, moves between the sets — holds verbatim at node level);
a path that denotes no operation is answered without touching anything. -/
theorem C15_node_request_is_fs_request (n : NState) (path : List String) (hon : n.on = true) :
    (∀ op, resolve n.x.s path = .inl op →
      (nstep n (.req path)).1.x.s = (step n.x.s op).1 ∧ (nstep n (.req path)).2 = (step n.x.s op).2) ∧
    (∀ o, resolve n.x.s path = .inr o → nstep n (.req path) = (n, o)) := by
  constructor
  · intro op h
    simp only [nstep, nstepWith, codeGlue, hon, Bool.not_true, Bool.false_eq_true, if_false, h]
    exact ⟨rfl, rfl⟩
  · intro o h
    simp only [nstep, nstepWith, codeGlue, hon, Bool.not_true, Bool.false_eq_true, if_false, h]

/-- While the node is not ON every request below `file_system`, and the node scan request, is refused with `failure`
and changes nothing at all. -/
theorem C15_node_request_refused_while_off (n : NState) (hoff : n.on = false) (path : List String) :
    nstep n (.req path) = (n, .failure) ∧ nstep n .osScan = (n, .failure) := by
  simp [nstep, nstepWith, codeGlue, hoff]

/-- `Node.apply_timestep` steps the file system exactly when the power state it tests is ON; a node scan never changes
the structure; otherwise the file system is left alone. -/
theorem C15_node_tick_only_while_on (n : NState) (b : Bool) :
    (nstep n (.applyTimestep b)).1.x.s = (if b then (step n.x.s .tick).1 else n.x.s) ∧
    (nstep n (.applyTimestep b)).1.on = b := by
  cases b
  · simp [nstep, nstepWith, codeGlue]
  · simp only [nstep, nstepWith, codeGlue, Bool.true_and, if_true]
    split <;> (constructor <;> first | rfl | (split <;> rfl))

/-- A node that is not ON is frozen as far as requests and ticks go: only `pre_timestep` (which resets the per-tick
figures) and direct Python-API calls of its own software reach the file system. -/
theorem C15_node_frozen_while_off (n : NState) (hoff : n.on = false) (op : NOp)
    (hop : (∃ p, op = .req p) ∨ op = .osScan ∨ op = .applyTimestep false ∨ op = .power false) :
    (nstep n op).1.x = n.x ∧ (nstep n op).1.on = false := by
  rcases hop with ⟨p, rfl⟩ | rfl | rfl | rfl
  · rw [(C15_node_request_refused_while_off n hoff p).1]; exact ⟨rfl, hoff⟩
  · rw [(C15_node_request_refused_while_off n hoff []).2]; exact ⟨rfl, hoff⟩
  · simp [nstep, nstepWith, codeGlue]
  · simp [nstep, nstepWith]

/-! ### the counters start every tick at zero — whatever the power history -/

/-- `Node.pre_timestep` zeroes both counters in every power state. -/
theorem nstep_pre_counters (n : NState) : (nstep n .preTimestep).1.counters = (0, 0) := by
  simp [nstep, nstepWith, codeGlue, NState.counters, stepX, step]

/-- **The per-tick creation/deletion counters start every tick at zero**: after ANY history of power changes, requests,
API calls, node scans and ticks — from any node state, ON or not — `Node.pre_timestep` leaves both counters at zero, and
that is what the node reports (`describe_state()["file_system"]` is present in every power state). -/
theorem C15_counters_start_at_zero (n : NState) (hist : List NOp) :
    let m := (nstep (nrun n hist).1 .preTimestep).1
    m.x.s.numCreations = 0 ∧ m.x.s.numDeletions = 0 ∧
    ∃ d, ndescribe m = some d ∧ d.numCreations = 0 ∧ d.numDeletions = 0 := by
  have h := nstep_pre_counters (nrun n hist).1
  simp only [NState.counters, Prod.mk.injEq] at h
  exact ⟨h.1, h.2, _, rfl, h.1, h.2⟩

/-- Non-vacuity, and the scenario of the two agents: a file is created and the host is shut down in the same tick; the
node stays not-ON for three more ticks and is ON again in the fifth — the counters read 0 at the start of every one
of them (and 1 at the end of the first). -/
example :
    let t1 := (nrun (ninit none none) [.preTimestep, .req ["create", "file", "fa", "a", "0"], .power false, .applyTimestep false]).1
    let later := (nrun t1 [.preTimestep, .applyTimestep false, .preTimestep, .req ["create", "file", "fa", "b", "0"],
      .applyTimestep false, .preTimestep, .applyTimestep true, .preTimestep]).1
    t1.counters = (1, 0) ∧ t1.on = false ∧ (nstep t1 .preTimestep).1.counters = (0, 0) ∧ later.counters = (0, 0) ∧ later.on = true := by
  decide

/-- Why the guard table matters (the glue of seeded change C15-c, in miniature): if `Node.pre_timestep` passed the call on
only while the node is ON, a creation followed by a shutdown in the same tick would still be reported at the start of
the next tick. -/
theorem C15_node_stale_counters_counterexample :
    ∃ (hist : List NOp),
      let gl : Glue := { codeGlue with pre := fun on => on }
      (nstepWith gl (nrunWith gl (ninit none none) hist).1 .preTimestep).1.x.s.numCreations ≠ 0 :=
  ⟨[.preTimestep, .req ["create", "file", "fa", "a", "0"], .power false, .applyTimestep false], by decide⟩

/-! ### … and count this tick's operations only -/

/-- What a Python-API call adds to `(num_file_creations, num_file_deletions)`. -/
def apiTally (s : State) (op : ApiOp) (cd : Nat × Nat) : Nat × Nat :=
  match op with
  | .createFile .. => if (stepApi s op).2 = .success then (cd.1 + 1, cd.2) else cd
  | .copyFile F x _ => if (getFile s F x).isSome then (cd.1 + 1, cd.2) else cd
  | .moveFile F x G =>
    match getFile s F x with
    | some f => if ((getOrCreateFolder s G).2.getFile f.name).isSome then cd else (cd.1 + 1, cd.2 + 1)
    | none => cd
  | .deleteFileById i j =>
    match s.folders.find? (fun g => g.id == i) with
    | some g =>
      match g.files.find? (fun f => f.id == j) with
      | some f => tallyStep (.deleteFile g.name f.name) (step s (.deleteFile g.name f.name)).2 cd
      | none => cd
    | none => cd
  | .addFile .. | .deleteFolderById _ | .removeFileById .. => cd

theorem createFileTarget_counters (s : State) (F : Name) :
    (createFileTarget s F).1.numCreations = s.numCreations ∧ (createFileTarget s F).1.numDeletions = s.numDeletions := by
  unfold createFileTarget
  split
  · cases getFolder s F with
    | some g => exact ⟨rfl, rfl⟩
    | none => exact createFolder_counters s F
  · exact ⟨rfl, rfl⟩

theorem getOrCreateFolder_counters (s : State) (G : Name) :
    (getOrCreateFolder s G).1.numCreations = s.numCreations ∧ (getOrCreateFolder s G).1.numDeletions = s.numDeletions := by
  unfold getOrCreateFolder
  split
  · exact ⟨rfl, rfl⟩
  · exact createFolder_counters s G

/-- `apiCreateFile` past its target step. -/
def apiCreateFileOn (r : State × Option Folder) (x : Name) (force : Bool) : State × Out :=
  match r with
  | (s1, none) => (s1, .raised)
  | (s1, some g) => if (g.getFile x).isSome && !force then (s1, .raised) else createFileIn s1 g x

theorem apiCreateFile_counters_aux (r : State × Option Folder) (x : Name) (force : Bool) {c d : Nat}
    (hc : r.1.numCreations = c) (hd : r.1.numDeletions = d) :
    ((apiCreateFileOn r x force).1.numCreations, (apiCreateFileOn r x force).1.numDeletions) =
      if (apiCreateFileOn r x force).2 = .success then (c + 1, d) else (c, d) := by
  obtain ⟨s1, og⟩ := r
  have h1 : s1.numCreations = c := hc
  have h2 : s1.numDeletions = d := hd
  cases og with
  | none => simp [apiCreateFileOn, h1, h2]
  | some g =>
    simp only [apiCreateFileOn]
    split
    · simp [h1, h2]
    · rw [createFileIn_out]
      simp only [if_true]
      unfold createFileIn
      cases g.getFile x <;> simp [updFolder, h1, h2]

/-- Every API call moves the counters exactly as `apiTally` says: a returned `create_file` and a performed `copy_file`
count one creation, a performed `move_file` one deletion and one creation, `delete_file_by_id` of a live file one
deletion; `add_file`, `delete_folder_by_id`, `remove_file_by_id` and every raised call count nothing. -/
theorem C15_api_counters_step (s : State) (op : ApiOp) :
    ((stepApi s op).1.numCreations, (stepApi s op).1.numDeletions) = apiTally s op (s.numCreations, s.numDeletions) := by
  cases op with
  | createFile F x force =>
    have ht := createFileTarget_counters s F
    exact apiCreateFile_counters_aux (createFileTarget s F) x force ht.1 ht.2
  | copyFile F x G =>
    simp only [apiTally, stepApi, apiCopyFile]
    cases getFile s F x with
    | none => simp
    | some f => simp [updFolder, (getOrCreateFolder_counters s G).1, (getOrCreateFolder_counters s G).2]
  | moveFile F x G =>
    simp only [apiTally, stepApi, apiMoveFile, getFile]
    cases getFolder s F with
    | none => simp
    | some src =>
      simp only
      cases src.getFile x with
      | none => simp
      | some f =>
        simp only
        split
        · simp [(getOrCreateFolder_counters s G).1, (getOrCreateFolder_counters s G).2]
        · simp [updFolder, (getOrCreateFolder_counters s G).1, (getOrCreateFolder_counters s G).2]
  | addFile F x force =>
    simp only [apiTally, stepApi, apiAddFile]
    cases getFolder s F with
    | none => rfl
    | some g => simp only; split <;> rfl
  | deleteFileById i j =>
    simp only [apiTally, stepApi, apiDeleteFileById]
    cases s.folders.find? (fun g => g.id == i) with
    | none => rfl
    | some g =>
      simp only
      cases g.files.find? (fun f => f.id == j) with
      | none => rfl
      | some f => exact C15_counters_step s (.deleteFile g.name f.name)
  | deleteFolderById i =>
    simp only [apiTally, stepApi, apiDeleteFolderById]
    cases s.folders.find? (fun g => g.id == i) with
    | none => rfl
    | some g =>
      have := C15_counters_step s (.deleteFolder g.name)
      simpa [tallyStep, step] using this
  | removeFileById i j =>
    simp only [apiTally, stepApi, apiRemoveFileById]
    cases s.folders.find? (fun g => g.id == i) with
    | none => rfl
    | some g => simp only; split <;> rfl

/-- What one node-level event adds to the counters: `pre_timestep` zeroes them, a request counts (as `tallyStep` says) only
when it reaches the file system — i.e. while the node is ON —, an API call counts as `apiTally` says, power changes, node
scans and `apply_timestep` count nothing. -/
def ntallyStep (n : NState) (op : NOp) (cd : Nat × Nat) : Nat × Nat :=
  match op with
  | .preTimestep => (0, 0)
  | .req path =>
    if n.on then
      match resolve n.x.s path with
      | .inl o => tallyStep o (step n.x.s o).2 cd
      | .inr _ => cd
    else cd
  | .api a => apiTally n.x.s a cd
  | .power _ | .osScan | .applyTimestep _ => cd

def ntally (n : NState) : List NOp → Nat × Nat → Nat × Nat
  | [], cd => cd
  | op :: ops, cd => ntally (nstep n op).1 ops (ntallyStep n op cd)

theorem C15_node_counters_step (n : NState) (op : NOp) : (nstep n op).1.counters = ntallyStep n op n.counters := by
  cases op with
  | preTimestep => exact nstep_pre_counters n
  | power b => rfl
  | osScan => simp only [nstep, nstepWith, ntallyStep]; split <;> rfl
  | applyTimestep b =>
    have h := (C15_node_tick_only_while_on n b).1
    simp only [NState.counters, ntallyStep, h]
    cases b <;> rfl
  | api a => exact C15_api_counters_step n.x.s a
  | req path =>
    cases hon : n.on with
    | false => rw [(C15_node_request_refused_while_off n hon path).1]; simp [ntallyStep, hon]
    | true =>
      simp only [ntallyStep, hon, if_true]
      cases hr : resolve n.x.s path with
      | inl o =>
        have := ((C15_node_request_is_fs_request n path hon).1 o hr).1
        simp only [NState.counters, this]
        exact C15_counters_step n.x.s o
      | inr o => rw [(C15_node_request_is_fs_request n path hon).2 o hr]

/-- Along any node-level history the counters are the tally of its events. -/
theorem C15_node_counters_tally (n : NState) (ops : List NOp) :
    (nrun n ops).1.counters = ntally n ops n.counters := by
  induction ops generalizing n with
  | nil => rfl
  | cons op ops ih =>
    show (nrun (nstep n op).1 ops).1.counters = _
    rw [ih, C15_node_counters_step]
    rfl

/-- **Nothing is left over from an earlier tick**: whatever the node's state and counters were, after `pre_timestep` and
the events of the tick the counters are the tally of THOSE events, started from zero. (With the events of the tick ending
in `apply_timestep`, this is the value the game reads and the host observation reports.) -/
theorem C15_node_counters_count_this_tick (n : NState) (ops : List NOp) :
    (nrun n (.preTimestep :: ops)).1.counters = ntally (nstep n .preTimestep).1 ops (0, 0) := by
  show (nrun (nstep n .preTimestep).1 ops).1.counters = _
  rw [C15_node_counters_tally, nstep_pre_counters]

/-- In particular a tick in which no request reaches the file system and no API call is made ends with both counters at
zero: a node that is not ON for the whole tick, or an idle one, reports 0 / 0. -/
theorem C15_node_idle_tick_reports_zero (n : NState) (ops : List NOp)
    (hidle : ∀ op ∈ ops, op = .osScan ∨ (∃ b, op = .power b) ∨ (∃ b, op = .applyTimestep b)) :
    (nrun n (.preTimestep :: ops)).1.counters = (0, 0) := by
  rw [C15_node_counters_count_this_tick]
  generalize (nstep n .preTimestep).1 = m
  induction ops generalizing m with
  | nil => rfl
  | cons op ops ih =>
    have hop := hidle op (List.mem_cons_self ..)
    have : ntallyStep m op (0, 0) = (0, 0) := by
      rcases hop with rfl | ⟨b, rfl⟩ | ⟨b, rfl⟩ <;> rfl
    simp only [ntally, this]
    exact ih (fun o ho => hidle o (List.mem_cons_of_mem _ ho)) _

/-! ### the structural invariant at node level -/

/-- The side condition of a node-level event: only a `move_file` API call has one (see `AnyOp.ok`). -/
def NOp.ok (n : NState) : NOp → Prop
  | .api a => AnyOp.ok n.x.s (.api a)
  | _ => True

def nrunOk (n : NState) : List NOp → Prop
  | [] => True
  | op :: ops => NOp.ok n op ∧ nrunOk (nstep n op).1 ops

/-- Every node-level event keeps `Inv` — in every power state. (Unconditional form: `C15_node_inv2_step` in
`Props/C15Disjoint.lean`, where the `move_file` side condition is proved from cross-folder disjointness.) -/
theorem C15_node_inv_step {n : NState} (h : Inv n.x.s) (op : NOp) (hok : NOp.ok n op) : Inv (nstep n op).1.x.s := by
  cases op with
  | power b => exact h
  | osScan => simp only [nstep, nstepWith]; split <;> exact h
  | preTimestep => exact C15_inv_step h .preTick
  | applyTimestep b =>
    rw [(C15_node_tick_only_while_on n b).1]
    cases b
    · exact h
    · exact C15_inv_step h .tick
  | api a => exact C15_api_inv_step_partial h a hok
  | req path =>
    cases hon : n.on with
    | false => rw [(C15_node_request_refused_while_off n hon path).1]; exact h
    | true =>
      cases hr : resolve n.x.s path with
      | inl o => rw [((C15_node_request_is_fs_request n path hon).1 o hr).1]; exact C15_inv_step h o
      | inr o => rw [(C15_node_request_is_fs_request n path hon).2 o hr]; exact h

theorem C15_node_inv_run {n : NState} (h : Inv n.x.s) (ops : List NOp) (hok : nrunOk n ops) : Inv (nrun n ops).1.x.s := by
  induction ops generalizing n with
  | nil => exact h
  | cons op ops ih => exact ih (C15_node_inv_step h op hok.1) hok.2

/-- `Inv` holds in every state a node reaches from a fresh file system, whatever its power history. -/
theorem C15_node_inv_reachable (d sc : Option Int) (on : Bool) (dur : Nat) (ops : List NOp) (hok : nrunOk (ninit d sc on dur) ops) :
    Inv (nrun (ninit d sc on dur) ops).1.x.s :=
  C15_node_inv_run (C15_inv_init d) ops hok

/-! ### translator tie: the glue is what the source says -/

/-- The power guard of every call the node passes on to its file system, regenerated from `Node.pre_timestep`,
`Node.apply_timestep`, `Node.describe_state` and the `file_system` / `os` request routes, is the model's `codeGlue`:
`pre_timestep` and `describe_state` unconditionally; `apply_timestep`, the node scan and every request only while ON.
`apply_timestep` tests the power state after its last change of it (so the flag the model receives is the tested one),
the node scan is reached exactly under the two countdown conditions the model implements, and no node class overrides
`pre_timestep` / `apply_timestep`. -/
theorem C15_gen_node_glue :
    (∀ on, Gen.FileSystemNode.glue.pre on = codeGlue.pre on ∧ Gen.FileSystemNode.glue.tick on = codeGlue.tick on ∧
      Gen.FileSystemNode.glue.scan on = codeGlue.scan on ∧ Gen.FileSystemNode.glue.request on = codeGlue.request on ∧
      Gen.FileSystemNode.glue.describe on = codeGlue.describe on ∧ Gen.FileSystemNode.osRouteGuard on = on) ∧
    Gen.FileSystemNode.tickTestsFinalState = true ∧ Gen.FileSystemNode.tickOverrides = [] ∧
    Gen.FileSystemNode.scanConditions = ["if self.node_scan_countdown > 0", "if self.node_scan_countdown == 0"] := by
  refine ⟨fun on => ?_, by decide, by decide, by decide⟩
  cases on <;> decide

/-- The complete inventory of statements through which a node touches its file system, and of the calls above the node
(Simulation → Network → every node, unguarded): a new touch point, a new guard or a reordering shows up here. -/
theorem C15_gen_node_sites :
    Gen.FileSystemNode.nodeSites =
      [("Node.setup_for_episode", "self.file_system.setup_for_episode(episode=episode)", []),
       ("Node._init_request_manager",
        "rm.add_request('file_system', RequestType(func=self.file_system._request_manager, validator=_node_is_on))", []),
       ("Node.describe_state", "dict-entry 'file_system': self.file_system.describe_state()", []),
       ("Node.apply_timestep", "self.file_system.scan(instant_scan=True)",
        ["if self.operating_state == NodeOperatingState.ON", "if self.node_scan_countdown > 0", "if self.node_scan_countdown == 0"]),
       ("Node.apply_timestep", "self.file_system.reveal_to_red(instant_scan=True)",
        ["if self.operating_state == NodeOperatingState.ON", "if self.red_scan_countdown > 0", "if self.red_scan_countdown == 0"]),
       ("Node.apply_timestep", "self.file_system.apply_timestep(timestep=timestep)", ["if self.operating_state == NodeOperatingState.ON"]),
       ("Node.pre_timestep", "self.file_system.pre_timestep(timestep=timestep)", []),
       ("HostNode.__init__", "self.file_system.create_folder(folder['folder_name'])", ["for folder in self.config.folders"]),
       ("HostNode.__init__",
        "self.file_system.create_file(folder_name=folder['folder_name'], file_name=file['file_name'], size=file.get('size', 0), file_type=FileType[file.get('type', 'UNKNOWN').upper()])",
        ["for folder in self.config.folders", "for file in folder.get('files', [])"])] ∧
    Gen.FileSystemNode.chainSites =
      [("Simulation.pre_timestep", "self.network.pre_timestep(timestep)", []),
       ("Simulation.apply_timestep", "self.network.apply_timestep(timestep)", []),
       ("Simulation.describe_state", "dict-entry 'network': self.network.describe_state()", []),
       ("Network.pre_timestep", "node.pre_timestep(timestep)", ["for node in self.nodes.values()"]),
       ("Network.apply_timestep", "self.nodes[node_id].apply_timestep(timestep=timestep)", ["for node_id in self.nodes"]),
       ("Network.describe_state",
        "dict-entry 'nodes': {node.config.hostname: node.describe_state() for node in self.nodes.values()}", [])] :=
  ⟨rfl, rfl⟩

/-- Who writes the per-tick counters, anywhere in the code base: the five file-system methods the model follows
(`C15_counters_step`, `C15_api_counters_step`), the resets in `setup_for_episode` (start of the episode) and `pre_timestep`
(start of every tick), and the database service's ENCRYPT query
(one creation and one deletion booked directly — NOT modelled here; it still falls under the reset). -/
theorem C15_gen_counter_writers :
    Gen.FileSystemNode.counterWriters =
      [("simulator/file_system/file_system.py:FileSystem.setup_for_episode", "self.num_file_creations = 0"),
       ("simulator/file_system/file_system.py:FileSystem.setup_for_episode", "self.num_file_deletions = 0"),
       ("simulator/file_system/file_system.py:FileSystem.create_file", "self.num_file_creations += 1"),
       ("simulator/file_system/file_system.py:FileSystem.delete_file", "self.num_file_deletions += 1"),
       ("simulator/file_system/file_system.py:FileSystem.move_file", "self.num_file_creations += 1"),
       ("simulator/file_system/file_system.py:FileSystem.move_file", "self.num_file_deletions += 1"),
       ("simulator/file_system/file_system.py:FileSystem.copy_file", "self.num_file_creations += 1"),
       ("simulator/file_system/file_system.py:FileSystem.pre_timestep", "self.num_file_creations = 0"),
       ("simulator/file_system/file_system.py:FileSystem.pre_timestep", "self.num_file_deletions = 0"),
       ("simulator/system/services/database/database_service.py:DatabaseService._process_sql", "self.file_system.num_file_creations += 1"),
       ("simulator/system/services/database/database_service.py:DatabaseService._process_sql", "self.file_system.num_file_deletions += 1")] :=
  rfl

end Primaite.FileSystem
