/-
C19, part 5 (round 3) — the sampler with the semantics numpy actually has.

`Generator.choice(n, p=p)` = argument checks (`choiceNp`: size, negative entries, the band `|Σp − 1| ≤ 2⁻²⁶`), then
`cdf = cumsum(p) / cumsum(p)[-1]` and a RIGHT-SIDED BINARY SEARCH for the uniform draw.  The never-zero statement is
proved for that binary search over an arbitrary number type (IEEE doubles included): all it needs is that the order is a
total preorder, that `x + 0 = x` and `0 / x = 0` hold exactly, and that the cdf array is sorted — no assumption that the
probabilities sum to 1, none on rounding.
-/
import PrimaiteModel.Props.C19
namespace Primaite.Agents

/-! ## 20. Right-sided binary search -/

/-- What the search needs of the comparison `lt` (strict "less than" of a total preorder without NaN). -/
structure LtLaws {F : Type} (lt : F → F → Bool) : Prop where
  /-- `x < y ≤ z → x < z` -/
  lt_of_lt_of_le : ∀ x y z, lt x y = true → lt z y = false → lt x z = true
  /-- `z ≤ y ≤ x → z ≤ x` -/
  le_trans : ∀ x y z, lt x y = false → lt y z = false → lt x z = false

/-- `arr` is non-decreasing. -/
def SortedBy {F : Type} (lt : F → F → Bool) (arr : List F) : Prop :=
  ∀ (i j : Nat) (a b : F), i ≤ j → arr[i]? = some a → arr[j]? = some b → lt b a = false

/-- **Loop invariant of `npy_binsearch<right>`.** -/
theorem bsearchRight_spec {F : Type} (lt : F → F → Bool) (L : LtLaws lt) (arr : List F) (key : F)
    (hs : SortedBy lt arr) : ∀ (fuel lo hi : Nat), lo ≤ hi → hi ≤ arr.length → hi - lo ≤ fuel →
    (∀ j a, j < lo → arr[j]? = some a → lt key a = false) →
    (∀ j a, hi ≤ j → arr[j]? = some a → lt key a = true) →
    lo ≤ bsearchRight lt arr key fuel lo hi ∧ bsearchRight lt arr key fuel lo hi ≤ hi ∧
    (∀ j a, j < bsearchRight lt arr key fuel lo hi → arr[j]? = some a → lt key a = false) ∧
    (∀ j a, bsearchRight lt arr key fuel lo hi ≤ j → arr[j]? = some a → lt key a = true) := by
  intro fuel
  induction fuel with
  | zero =>
    intro lo hi hle _ hf hlo hhi
    have : lo = hi := by omega
    subst this
    exact ⟨Nat.le_refl _, Nat.le_refl _, hlo, hhi⟩
  | succ fuel ih =>
    intro lo hi hle hlen hf hlo hhi
    unfold bsearchRight
    by_cases hlt : lo < hi
    · rw [if_pos hlt]
      have hmid : lo + (hi - lo) / 2 < hi := by omega
      have hmidlen : lo + (hi - lo) / 2 < arr.length := by omega
      have hm : arr[lo + (hi - lo) / 2]? = some arr[lo + (hi - lo) / 2] := List.getElem?_eq_getElem hmidlen
      rw [hm]
      simp only []
      cases hk : lt key arr[lo + (hi - lo) / 2] with
      | true =>
        simp only [if_true]
        have := ih lo (lo + (hi - lo) / 2) (by omega) (by omega) (by omega) hlo (by
          intro j a hj ha
          by_cases hjh : hi ≤ j
          · exact hhi j a hjh ha
          · exact L.lt_of_lt_of_le key _ a hk (hs _ j _ a hj hm ha))
        exact ⟨this.1, by omega, this.2.2.1, this.2.2.2⟩
      | false =>
        simp only [Bool.false_eq_true, if_false]
        have := ih (lo + (hi - lo) / 2 + 1) hi (by omega) hlen (by omega) (by
          intro j a hj ha
          exact L.le_trans key _ a hk (hs j _ a _ (by omega) ha hm)) hhi
        exact ⟨by omega, this.2.1, this.2.2.1, this.2.2.2⟩
    · rw [if_neg hlt]
      have : lo = hi := by omega
      subst this
      exact ⟨Nat.le_refl _, Nat.le_refl _, hlo, hhi⟩

/-- **`searchsorted(key, side='right')` on a sorted array** returns the number of entries `≤ key`, i.e. the least index
whose entry is greater than `key` (or the length). -/
theorem C19_searchsorted_right_spec {F : Type} (lt : F → F → Bool) (L : LtLaws lt) (arr : List F) (key : F)
    (hs : SortedBy lt arr) :
    searchsortedRight lt arr key ≤ arr.length ∧
    (∀ j a, j < searchsortedRight lt arr key → arr[j]? = some a → lt key a = false) ∧
    (∀ j a, searchsortedRight lt arr key ≤ j → arr[j]? = some a → lt key a = true) := by
  have := bsearchRight_spec lt L arr key hs arr.length 0 arr.length (Nat.zero_le _) (Nat.le_refl _) (by omega)
    (fun j a hj _ => absurd hj (Nat.not_lt_zero j))
    (fun j a hj ha => by
      have : arr[j]? = none := List.getElem?_eq_none hj
      rw [this] at ha; cases ha)
  exact ⟨this.2.1, this.2.2.1, this.2.2.2⟩

/-- **An index whose cdf entry repeats the previous one — or is not above the key at position 0 — is never returned.** -/
theorem searchsorted_skips_flat {F : Type} (lt : F → F → Bool) (L : LtLaws lt) (arr : List F) (key : F)
    (hs : SortedBy lt arr) (i : Nat)
    (h0 : i = 0 → ∀ a, arr[0]? = some a → lt key a = false)
    (hrep : ∀ k, i = k + 1 → arr[k + 1]? = arr[k]?) (hi : i < arr.length) :
    searchsortedRight lt arr key ≠ i := by
  intro heq
  obtain ⟨_, hbelow, habove⟩ := C19_searchsorted_right_spec lt L arr key hs
  have hai : arr[i]? = some arr[i] := List.getElem?_eq_getElem hi
  have hgt : lt key arr[i] = true := habove i _ (by omega) hai
  cases i with
  | zero =>
    have := h0 rfl _ hai
    rw [this] at hgt; cases hgt
  | succ k =>
    have hk := hrep k rfl
    rw [hai] at hk
    have := hbelow k _ (by omega) hk.symm
    rw [this] at hgt; cases hgt

/-! ## 21. The cdf numpy builds, over any number type -/

/-- `p.cumsum()`. -/
def cumsum {F : Type} (add : F → F → F) : List F → List F
  | [] => []
  | w :: ws => w :: cumsumFrom add w ws

theorem cumsumFrom_length {F : Type} (add : F → F → F) : ∀ (ws : List F) (acc : F), (cumsumFrom add acc ws).length = ws.length := by
  intro ws
  induction ws with
  | nil => intro _; rfl
  | cons w r ih => intro acc; simp [cumsumFrom, ih]

theorem cumsumFrom_head {F : Type} (add : F → F → F) (acc x : F) (r : List F) (h : r[0]? = some x) :
    (cumsumFrom add acc r)[0]? = some (add acc x) := by
  cases r with
  | nil => cases h
  | cons y r' => simp at h; subst h; simp [cumsumFrom]

theorem cumsumFrom_succ {F : Type} (add : F → F → F) : ∀ (ws : List F) (acc : F) (k : Nat) (x c : F),
    ws[k + 1]? = some x → (cumsumFrom add acc ws)[k]? = some c → (cumsumFrom add acc ws)[k + 1]? = some (add c x) := by
  intro ws
  induction ws with
  | nil => intro acc k x c h; cases h
  | cons w r ih =>
    intro acc k x c hx hc
    simp only [cumsumFrom]
    cases k with
    | zero =>
      simp only [cumsumFrom, List.getElem?_cons_zero, Option.some.injEq] at hc
      simp only [List.getElem?_cons_succ] at hx ⊢
      rw [← hc]
      exact cumsumFrom_head add _ x r hx
    | succ k =>
      simp only [cumsumFrom, List.getElem?_cons_succ] at hc hx ⊢
      exact ih _ k x c hx hc

theorem cumsum_succ {F : Type} (add : F → F → F) (ws : List F) (k : Nat) (x c : F)
    (hx : ws[k + 1]? = some x) (hc : (cumsum add ws)[k]? = some c) : (cumsum add ws)[k + 1]? = some (add c x) := by
  cases ws with
  | nil => cases hx
  | cons w r =>
    simp only [cumsum] at hc ⊢
    cases k with
    | zero =>
      simp only [List.getElem?_cons_zero, Option.some.injEq] at hc
      simp only [List.getElem?_cons_succ] at hx ⊢
      rw [← hc]
      exact cumsumFrom_head add _ x r hx
    | succ k =>
      simp only [List.getElem?_cons_succ] at hc hx ⊢
      exact cumsumFrom_succ add r w k x c hx hc

/-- `cdf = p.cumsum(); cdf /= cdf[-1]`. -/
def cdfNp {F : Type} (add : F → F → F) (div : F → F → F) (ws : List F) : List F :=
  match (cumsum add ws).getLast? with
  | none => []
  | some last => (cumsum add ws).map (div · last)

theorem cumsum_length {F : Type} (add : F → F → F) (ws : List F) : (cumsum add ws).length = ws.length := by
  cases ws with
  | nil => rfl
  | cons w r => simp [cumsum, cumsumFrom_length]

theorem cdfNp_length {F : Type} (add : F → F → F) (div : F → F → F) (ws : List F) : (cdfNp add div ws).length = ws.length := by
  unfold cdfNp
  cases h : (cumsum add ws).getLast? with
  | none =>
    have : cumsum add ws = [] := by simpa using h
    have hl := cumsum_length add ws
    rw [this] at hl
    simp at hl ⊢
    exact hl.symm ▸ rfl
  | some last => simp [cumsum_length]

/-- **numpy's sampler never returns an index of probability zero** — with the semantics numpy has: cdf built by running
sums and a division by the last one, right-sided binary search.  `F` is any number type (IEEE doubles: the laws below
hold exactly for them in the absence of NaN, which `choice` rejects); `zero` the value of a zero probability.

* no assumption that the probabilities sum to 1 (the accepted band `|Σp − 1| ≤ 2⁻²⁶` is normalised away by the division);
* no assumption on rounding of `+` and `/` beyond `x + 0 = x` and `0 / x = 0`;
* leading zeros (`i = 0`), trailing zeros and runs of zeros are covered;
* `u` is any draw with `0 ≤ u` (`random()` returns values in `[0, 1)`).

The cdf must be sorted — true of running sums of non-negative doubles divided by a positive double (monotonicity of
rounding), stated as a hypothesis. -/
theorem C19_numpy_choice_never_zero {F : Type} (lt : F → F → Bool) (L : LtLaws lt)
    (add div : F → F → F) (zero : F)
    (add_zero : ∀ x, add x zero = x) (zero_div : ∀ x, div zero x = zero)
    (ws : List F) (u : F) (hu : lt u zero = false)
    (hs : SortedBy lt (cdfNp add div ws)) (i : Nat) (hi : ws[i]? = some zero) :
    searchsortedRight lt (cdfNp add div ws) u ≠ i := by
  have hilt : i < ws.length := by
    rcases Nat.lt_or_ge i ws.length with h | h
    · exact h
    · rw [List.getElem?_eq_none h] at hi; cases hi
  have hlen := cdfNp_length add div ws
  apply searchsorted_skips_flat lt L _ u hs i
  · -- leading zero: cdf[0] = 0 / last = 0 ≤ u
    intro h0 a ha
    subst h0
    unfold cdfNp at ha
    cases hl : (cumsum add ws).getLast? with
    | none => rw [hl] at ha; simp at ha
    | some last =>
      rw [hl] at ha
      simp only [List.getElem?_map] at ha
      cases ws with
      | nil => cases hi
      | cons w r =>
        simp only [List.getElem?_cons_zero, Option.some.injEq] at hi
        subst hi
        simp only [cumsum, List.getElem?_cons_zero, Option.map_some, Option.some.injEq] at ha
        rw [← ha, zero_div]
        exact hu
  · -- a zero entry repeats the previous cdf value: (c + 0) / last = c / last
    intro k hk
    subst hk
    unfold cdfNp
    cases hl : (cumsum add ws).getLast? with
    | none =>
      have : cumsum add ws = [] := by simpa using hl
      have hl2 := cumsum_length add ws
      rw [this] at hl2
      simp at hl2
      omega
    | some last =>
      simp only [List.getElem?_map]
      have hk : k < (cumsum add ws).length := by rw [cumsum_length]; omega
      have hc : (cumsum add ws)[k]? = some (cumsum add ws)[k] := List.getElem?_eq_getElem hk
      rw [cumsum_succ add ws k zero _ hi hc, hc, add_zero]
  · rw [hlen]; exact hilt

/-- Non-vacuity (naturals as the number type, `div` = keep the numerator): leading zero, inner zeros, trailing zero;
every draw lands on an index of positive weight. -/
example : (List.range 7).map (fun u => searchsortedRight (fun a b => decide (a < b)) (cdfNp (· + ·) (fun a _ => a) [0, 2, 0, 0, 3, 2, 0]) u)
    = [1, 1, 4, 4, 4, 5, 5] := by decide

/-! ## 22. The argument checks: the accepted band -/

/-- **`choiceNp` answers only inside the band and never with a zero-probability index**: if `Generator.choice` returns
`i` then the vector has one entry per action, no entry is negative, `|Σp − 1| ≤ 2⁻²⁶`, `i` is inside the action map and
`p i > 0` — for every denominator, every vector and every draw (sums different from 1 included). -/
theorem C19_choiceNp_never_zero (n den : Nat) (ws : List Int) (u : Unif) (i : Nat) (h : choiceNp n den ws u = .chose i) :
    ws.length = n ∧ (∀ w ∈ ws, 0 ≤ w) ∧ (ws.sum - den).natAbs * npTolDen ≤ den ∧ i < n ∧ ∃ w, ws[i]? = some w ∧ 0 < w := by
  unfold choiceNp at h
  split at h
  · cases h
  · rename_i h1
    split at h
    · cases h
    · rename_i h2
      split at h
      · cases h
      · rename_i h3
        have hlen : ws.length = n := by
          rcases Nat.decEq ws.length n with hne | he
          · exact absurd (Or.inl hne) h1
          · exact he
        have hnn : ∀ w ∈ ws, 0 ≤ w := by
          intro w hw
          by_cases hl : w < 0
          · exact absurd (List.any_eq_true.2 ⟨w, hw, by simpa using hl⟩) h2
          · omega
        have hband : (ws.sum - den).natAbs * npTolDen ≤ den := by
          have h3' : npSumOk den ws = true := by simpa using h3
          exact of_decide_eq_true h3'
        obtain ⟨w, hw, hpos⟩ := C19_never_zero n (ws.map Int.toNat) u i h
        have hin := C19_choice_in_range n (ws.map Int.toNat) u i h
        rw [List.getElem?_map] at hw
        cases hwi : ws[i]? with
        | none => rw [hwi] at hw; cases hw
        | some z =>
          rw [hwi] at hw
          simp only [Option.map_some, Option.some.injEq] at hw
          exact ⟨hlen, hnn, hband, hin, z, rfl, by omega⟩

/-- … and inside the band (with a draw in `[0, 1)`) it does answer: the checks reject nothing else. -/
theorem C19_choiceNp_total (n den : Nat) (ws : List Int) (u : Unif) (hn : 0 < n) (hlen : ws.length = n)
    (hnn : ∀ w ∈ ws, 0 ≤ w) (hband : (ws.sum - den).natAbs * npTolDen ≤ den) (hpos : 0 < (ws.map Int.toNat).sum)
    (hu : u.num < u.den) : ∃ i, choiceNp n den ws u = .chose i := by
  unfold choiceNp
  rw [if_neg (by intro h; rcases h with h | h <;> omega)]
  rw [if_neg (by
    intro h
    obtain ⟨w, hw, hl⟩ := List.any_eq_true.1 h
    have := hnn w hw
    simp at hl; omega)]
  rw [if_neg (by simp only [npSumOk, Bool.not_eq_true, decide_eq_false_iff_not, Decidable.not_not]; exact hband)]
  obtain ⟨i, hi, _⟩ := C19_choice_is_least_cdf_index n (ws.map Int.toNat) u (by simp [hlen]) hpos hu
  exact ⟨i, hi⟩

/-- The band, concretely (`den = 2³⁰`): sums `1 ± 2⁻²⁶` are accepted, `1 ± 2⁻²⁵` raise — and the settings validator
(`< 10⁻⁶`) accepts all four, so such an agent is built and then raises in `get_action`. -/
example : npSumOk (2 ^ 30) [2 ^ 29, 2 ^ 29 + 16] = true ∧ npSumOk (2 ^ 30) [2 ^ 29, 2 ^ 29 - 16] = true ∧
    npSumOk (2 ^ 30) [2 ^ 29, 2 ^ 29 + 32] = false ∧ npSumOk (2 ^ 30) [2 ^ 29, 2 ^ 29 - 32] = false ∧
    validatorSumOk (2 ^ 30) [2 ^ 29, 2 ^ 29 + 32] = true ∧ validatorSumOk (2 ^ 30) [2 ^ 29, 2 ^ 29 + 2048] = false := by decide

end Primaite.Agents
