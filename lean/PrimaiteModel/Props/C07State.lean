/-
C07, round 3 — the state a list carries besides its rules (`implicit_action` vs the `implicit_rule` object,
`max_acl_rules` vs the slot count, `num_rules`, the implicit rule's hit counter), for every sequence of the operations
the code offers (constructor, attribute assignment, `add_rule`, `remove_rule`, `is_permitted`), and the independence of
the seven lists of a firewall.  The model is `Model/AclObj.lean` (on top of `Model/Acl.lean`).
-/
import PrimaiteModel.Model.AclObj
import PrimaiteModel.Props.C07
namespace Primaite.Acl

/-! ### constructor -/

/-- `__init__`: a missing (or falsy) `implicit_action` means DENY; the `implicit_rule` object gets the same action; there
are `max_acl_rules - 1` empty slots (none when that is not positive) and both counters start at 0. -/
theorem C07_construct_spec (imp : Option Action) (n : Int) :
    let o := AclObj.construct imp n
    o.core.implicit = imp.getD .deny ∧ o.ruleAction = imp.getD .deny ∧ o.maxRules = n ∧
    o.core.rules.length = (n - 1).toNat ∧ (∀ j, j < (n - 1).toNat → o.core.rules[j]? = some none) ∧
    o.core.implicitHits = 0 ∧ o.numRules = 0 := by
  refine ⟨rfl, rfl, rfl, by simp [AclObj.construct, Acl.empty], ?_, rfl, ?_⟩
  · intro j hj
    have : j < n.toNat - 1 := by omega
    simp [AclObj.construct, Acl.empty, this]
  · simp [AclObj.construct, Acl.empty, AclObj.numRules]

/-! ### one operation: what it may touch -/

/-- Editing through the object: the outcome is decided by the guard `0 <= position < max_acl_rules - 1` (else
`ValueError`) and then by the slot count (else `IndexError`); an error changes NOTHING; success changes exactly the
addressed slot; the implicit action, the implicit rule (action and counter) and `max_acl_rules` are never touched. -/
theorem C07_obj_addRule (o : AclObj) (r : Rule) (pos : Int) :
    (((o.addRule r pos).2 = .valueError) ↔ ¬ (0 ≤ pos ∧ pos < o.maxRules - 1)) ∧
    (((o.addRule r pos).2 = .indexError) ↔ (0 ≤ pos ∧ pos < o.maxRules - 1 ∧ o.core.rules.length ≤ pos.toNat)) ∧
    (((o.addRule r pos).2 = .ok) ↔ (0 ≤ pos ∧ pos < o.maxRules - 1 ∧ pos.toNat < o.core.rules.length)) ∧
    ((o.addRule r pos).2 ≠ .ok → (o.addRule r pos).1 = o) ∧
    ((o.addRule r pos).2 = .ok →
        (o.addRule r pos).1.core.rules[pos.toNat]? = some (some { r with hits := 0 }) ∧
        (∀ j, j ≠ pos.toNat → (o.addRule r pos).1.core.rules[j]? = o.core.rules[j]?)) ∧
    (o.addRule r pos).1.core.rules.length = o.core.rules.length ∧
    (o.addRule r pos).1.core.implicit = o.core.implicit ∧
    (o.addRule r pos).1.core.implicitHits = o.core.implicitHits ∧
    (o.addRule r pos).1.ruleAction = o.ruleAction ∧ (o.addRule r pos).1.maxRules = o.maxRules := by
  unfold AclObj.addRule AclObj.inBound
  by_cases h0 : 0 ≤ pos <;> by_cases h1 : pos < o.maxRules - 1
  · by_cases h2 : pos.toNat < o.core.rules.length
    · have hadd : Acl.addRule o.core r pos.toNat =
          some { o.core with rules := o.core.rules.set pos.toNat (some { r with hits := 0 }) } := by
        simp [Acl.addRule, h2]
      simp only [h0, h1, decide_true, Bool.and_self, if_true, hadd]
      refine ⟨by simp, by simp; omega, by simp [h2], by simp, ?_, by simp, trivial, trivial, trivial, trivial⟩
      intro _
      refine ⟨by simp [h2], ?_⟩
      intro j hj
      have : ¬ pos.toNat = j := fun h => hj h.symm
      simp [List.getElem?_set, this]
    · have hadd : Acl.addRule o.core r pos.toNat = none := by simp [Acl.addRule, h2]
      simp only [h0, h1, decide_true, Bool.and_self, if_true, hadd]
      refine ⟨by simp, by simp; omega, by simp [h2], by simp, by simp, trivial, trivial, trivial, trivial, trivial⟩
  · simp [h0, h1]
  · simp [h0, h1]
  · simp [h0, h1]

theorem C07_obj_removeRule (o : AclObj) (pos : Int) :
    (((o.removeRule pos).2 = .valueError) ↔ ¬ (0 ≤ pos ∧ pos < o.maxRules - 1)) ∧
    (((o.removeRule pos).2 = .indexError) ↔ (0 ≤ pos ∧ pos < o.maxRules - 1 ∧ o.core.rules.length ≤ pos.toNat)) ∧
    (((o.removeRule pos).2 = .ok) ↔ (0 ≤ pos ∧ pos < o.maxRules - 1 ∧ pos.toNat < o.core.rules.length)) ∧
    ((o.removeRule pos).2 ≠ .ok → (o.removeRule pos).1 = o) ∧
    ((o.removeRule pos).2 = .ok →
        (o.removeRule pos).1.core.rules[pos.toNat]? = some none ∧
        (∀ j, j ≠ pos.toNat → (o.removeRule pos).1.core.rules[j]? = o.core.rules[j]?)) ∧
    (o.removeRule pos).1.core.rules.length = o.core.rules.length ∧
    (o.removeRule pos).1.core.implicit = o.core.implicit ∧
    (o.removeRule pos).1.core.implicitHits = o.core.implicitHits ∧
    (o.removeRule pos).1.ruleAction = o.ruleAction ∧ (o.removeRule pos).1.maxRules = o.maxRules := by
  unfold AclObj.removeRule AclObj.inBound
  by_cases h0 : 0 ≤ pos <;> by_cases h1 : pos < o.maxRules - 1
  · by_cases h2 : pos.toNat < o.core.rules.length
    · have hrem : Acl.removeRule o.core pos.toNat = some { o.core with rules := o.core.rules.set pos.toNat none } := by
        simp [Acl.removeRule, h2]
      simp only [h0, h1, decide_true, Bool.and_self, if_true, hrem]
      refine ⟨by simp, by simp; omega, by simp [h2], by simp, ?_, by simp, trivial, trivial, trivial, trivial⟩
      intro _
      refine ⟨by simp [h2], ?_⟩
      intro j hj
      have : ¬ pos.toNat = j := fun h => hj h.symm
      simp [List.getElem?_set, this]
    · have hrem : Acl.removeRule o.core pos.toNat = none := by simp [Acl.removeRule, h2]
      simp only [h0, h1, decide_true, Bool.and_self, if_true, hrem]
      refine ⟨by simp, by simp; omega, by simp [h2], by simp, by simp, trivial, trivial, trivial, trivial, trivial⟩
  · simp [h0, h1]
  · simp [h0, h1]
  · simp [h0, h1]

/-- Asking for a verdict through the object is `Model/Acl.isPermitted` on the slots and the CURRENT attribute; the
`implicit_rule` object's action and `max_acl_rules` are not touched. -/
theorem C07_obj_isPermitted (o : AclObj) (p : Packet) :
    (o.isPermitted p).1 = (Acl.isPermitted o.core p).1 ∧ (o.isPermitted p).2.1 = (Acl.isPermitted o.core p).2.1 ∧
    (o.isPermitted p).2.2.core = (Acl.isPermitted o.core p).2.2 ∧
    (o.isPermitted p).2.2.ruleAction = o.ruleAction ∧ (o.isPermitted p).2.2.maxRules = o.maxRules :=
  ⟨rfl, rfl, rfl, rfl, rfl⟩

theorem isPermitted_implicitHits (a : Acl) (p : Packet) :
    (Acl.isPermitted a p).2.2.implicitHits =
      a.implicitHits + (if (Acl.isPermitted a p).2.1 = .implicit then 1 else 0) ∧
    (Acl.isPermitted a p).2.2.implicit = a.implicit ∧
    (Acl.isPermitted a p).2.2.rules.length = a.rules.length := by
  have h := C07_hit_counter a p
  unfold Acl.isPermitted at h ⊢
  cases heq : firstMatch p a.rules 0 with
  | some ir =>
    obtain ⟨i, r⟩ := ir
    simp only [heq] at h
    simp [bump]
  | none => simp

/-- One operation: which parts of the state it may change.  Only `setImplicit` changes the implicit action, only
`setMax` changes `max_acl_rules`, nothing changes the `implicit_rule` object's action or the number of slots, and the
implicit rule's counter moves exactly when the answer is a verdict decided by the implicit rule. -/
theorem C07_step_state (o : AclObj) (op : Op) :
    (o.step op).1.core.implicit = currentImplicit o.core.implicit [op] ∧
    (o.step op).1.ruleAction = o.ruleAction ∧
    (o.step op).1.core.rules.length = o.core.rules.length ∧
    (o.step op).1.core.implicitHits = o.core.implicitHits + implicitVerdicts [(o.step op).2] ∧
    (o.step op).1.maxRules = (match op with | .setMax n => n | _ => o.maxRules) := by
  cases op with
  | add r pos =>
    obtain ⟨_, _, _, _, _, h6, h7, h8, h9, h10⟩ := C07_obj_addRule o r pos
    exact ⟨h7, h9, h6, by simpa [AclObj.step, implicitVerdicts] using h8, h10⟩
  | remove pos =>
    obtain ⟨_, _, _, _, _, h6, h7, h8, h9, h10⟩ := C07_obj_removeRule o pos
    exact ⟨h7, h9, h6, by simpa [AclObj.step, implicitVerdicts] using h8, h10⟩
  | check p =>
    obtain ⟨h1, h2, h3⟩ := isPermitted_implicitHits o.core p
    refine ⟨h2, rfl, h3, ?_, rfl⟩
    show (Acl.isPermitted o.core p).2.2.implicitHits = _
    rw [h1]
    simp only [AclObj.step, AclObj.isPermitted]
    cases hd : (Acl.isPermitted o.core p).2.1 with
    | implicit => simp [implicitVerdicts]
    | rule i => simp [implicitVerdicts]
  | setImplicit a => exact ⟨rfl, rfl, rfl, rfl, rfl⟩
  | setMax n => exact ⟨rfl, rfl, rfl, rfl, rfl⟩

theorem run_cons (o : AclObj) (op : Op) (rest : List Op) :
    o.run (op :: rest) = (((o.step op).1.run rest).1, (o.step op).2 :: ((o.step op).1.run rest).2) := rfl

theorem currentImplicit_cons (a : Action) (op : Op) (rest : List Op) :
    currentImplicit a (op :: rest) = currentImplicit (currentImplicit a [op]) rest := by
  cases op <;> rfl

theorem implicitVerdicts_cons (x : Ans) (rest : List Ans) :
    implicitVerdicts (x :: rest) = implicitVerdicts [x] + implicitVerdicts rest := by
  cases x with
  | verdict v d => cases d <;> simp [implicitVerdicts]; omega
  | edit e => simp [implicitVerdicts]
  | done => simp [implicitVerdicts]

/-- EVERY sequence of operations: the implicit action in force is the last one assigned (else the constructor's); the
`implicit_rule` object keeps the action it was built with; the slot count never changes; the implicit rule's counter has
grown by exactly the number of verdicts the implicit rule decided; one answer per operation. -/
theorem C07_run_state (o : AclObj) (ops : List Op) :
    (o.run ops).1.core.implicit = currentImplicit o.core.implicit ops ∧
    (o.run ops).1.ruleAction = o.ruleAction ∧
    (o.run ops).1.core.rules.length = o.core.rules.length ∧
    (o.run ops).1.core.implicitHits = o.core.implicitHits + implicitVerdicts (o.run ops).2 ∧
    (o.run ops).2.length = ops.length := by
  induction ops generalizing o with
  | nil => exact ⟨rfl, rfl, rfl, rfl, rfl⟩
  | cons op rest ih =>
    obtain ⟨s1, s2, s3, s4, _⟩ := C07_step_state o op
    obtain ⟨r1, r2, r3, r4, r5⟩ := ih (o.step op).1
    rw [run_cons]
    refine ⟨?_, ?_, ?_, ?_, ?_⟩
    · rw [currentImplicit_cons, ← s1]; exact r1
    · exact r2.trans s2
    · exact r3.trans s3
    · show ((o.step op).1.run rest).1.core.implicitHits =
        o.core.implicitHits + implicitVerdicts ((o.step op).2 :: ((o.step op).1.run rest).2)
      rw [implicitVerdicts_cons (o.step op).2 ((o.step op).1.run rest).2, r4, s4]; omega
    · simp [r5]

/-- **The fall-through verdict is the CURRENT implicit action, for every edit sequence.**  After any sequence of
operations (attribute assignments included) a packet is decided by the lowest-positioned matching rule of the slots as
they now are; if none matches, the verdict is the implicit action assigned LAST (the constructor's if none was), the
decider is the implicit rule, and its counter — and nothing else — is incremented. -/
theorem C07_fallthrough_is_current_implicit (o : AclObj) (ops : List Op) (p : Packet) :
    let o' := (o.run ops).1
    (∃ i r, o'.core.rules[i]? = some (some r) ∧ r.hits? p = true ∧
        (∀ j, j < i → ∀ r' : Rule, o'.core.rules[j]? = some (some r') → r'.hits? p = false) ∧
        (o'.isPermitted p).1 = (r.action == .permit) ∧ (o'.isPermitted p).2.1 = .rule i) ∨
    ((∀ (j : Nat) (r' : Rule), o'.core.rules[j]? = some (some r') → r'.hits? p = false) ∧
        (o'.isPermitted p).1 = (currentImplicit o.core.implicit ops == .permit) ∧
        (o'.isPermitted p).2.1 = .implicit ∧
        (o'.isPermitted p).2.2.core.implicitHits = o'.core.implicitHits + 1 ∧
        (o'.isPermitted p).2.2.core.rules = o'.core.rules ∧
        (o'.isPermitted p).2.2.core.implicit = o'.core.implicit ∧
        (o'.isPermitted p).2.2.ruleAction = o.ruleAction) := by
  intro o'
  have hv := C07_verdict_first_match o'.core p
  have hc := C07_hit_counter o'.core p
  obtain ⟨hi, hr, _, _, _⟩ := C07_run_state o ops
  simp only at hv hc
  rcases hv with ⟨i, r, h1, h2, h3, h4, h5⟩ | ⟨h1, h2, h3⟩
  · exact Or.inl ⟨i, r, h1, h2, h3, h4, h5⟩
  · refine Or.inr ⟨h1, ?_, h3, ?_, ?_, ?_, hr⟩
    · show (Acl.isPermitted o'.core p).1 = _
      rw [h2, hi]
    · have := hc.2.2.2; rw [h3] at this; exact this.2
    · have := hc.2.2.2; rw [h3] at this; exact this.1
    · exact hc.1

/-! ### what `describe_state()` / `show()` report versus what verdicts use -/

/-- `describe_state()["implicit_action"]` is exactly what the fall-through verdict uses — for every sequence. -/
theorem C07_describe_implicit_is_verdict (o : AclObj) (ops : List Op) (p : Packet)
    (hno : ∀ (j : Nat) (r' : Rule), (o.run ops).1.core.rules[j]? = some (some r') → r'.hits? p = false) :
    ((o.run ops).1.isPermitted p).1 = ((o.run ops).1.describe.implicitAction == .permit) ∧
    (o.run ops).1.describe.implicitAction = currentImplicit o.core.implicit ops := by
  obtain ⟨hi, _⟩ := C07_run_state o ops
  rcases C07_fallthrough_is_current_implicit o ops p with ⟨i, r, h1, h2, _⟩ | ⟨_, h2, _⟩
  · rw [hno i r h1] at h2; exact absurd h2 (by simp)
  · exact ⟨by rw [h2]; show _ = ((o.run ops).1.core.implicit == .permit); rw [hi], hi⟩

/-- NOT part of the property, a reporting quirk of the code kept visible: `describe_state()["implicit_rule"]["action"]`,
the last row of `show()` and the rule object returned as decider carry the action the list was BUILT with. -/
def C07_ImplicitRuleReport_Full : Prop :=
  ∀ (imp : Option Action) (n : Int) (ops : List Op),
    let o := ((AclObj.construct imp n).run ops).1
    o.describe.implicitRuleAction = o.describe.implicitAction

/-- exactly when the report is right: the action in force equals the constructor's -/
theorem C07_implicit_rule_report_partial (imp : Option Action) (n : Int) (ops : List Op) :
    let o := ((AclObj.construct imp n).run ops).1
    (o.describe.implicitRuleAction = o.describe.implicitAction ↔
      currentImplicit (imp.getD .deny) ops = imp.getD .deny) ∧
    o.describe.implicitRuleAction = imp.getD .deny := by
  intro o
  obtain ⟨hi, hr, _⟩ := C07_run_state (AclObj.construct imp n) ops
  have h1 : o.describe.implicitAction = currentImplicit (imp.getD .deny) ops := hi
  have h2 : o.describe.implicitRuleAction = imp.getD .deny := hr
  rw [h1, h2]
  exact ⟨⟨fun h => h.symm, fun h => h.symm⟩, rfl⟩

theorem C07_implicit_rule_report_counterexample : ¬ C07_ImplicitRuleReport_Full := by
  intro h
  exact absurd (h (some .deny) 25 [.setImplicit .permit]) (by decide)

/-- the sequences on which the report is right include every sequence without an assignment -/
def noSetImplicit : List Op → Bool
  | [] => true
  | .setImplicit _ :: _ => false
  | _ :: rest => noSetImplicit rest

theorem currentImplicit_noSet (a : Action) (ops : List Op) (h : noSetImplicit ops = true) :
    currentImplicit a ops = a := by
  induction ops with
  | nil => rfl
  | cons op rest ih => cases op <;> simp_all [noSetImplicit, currentImplicit]

example : noSetImplicit [.add exRuleDenyHttp 3, .check exPkt, .remove 3, .setMax 30] = true := by decide

/-! ### `max_acl_rules` versus the slot count -/

def noSetMax : List Op → Bool
  | [] => true
  | .setMax _ :: _ => false
  | _ :: rest => noSetMax rest

/-- bound and slot count agree (what the constructor establishes) -/
def AclObj.boundIsSlots (o : AclObj) : Prop := (o.maxRules - 1).toNat = o.core.rules.length

theorem C07_construct_boundIsSlots (imp : Option Action) (n : Int) : (AclObj.construct imp n).boundIsSlots := by
  simp [AclObj.boundIsSlots, AclObj.construct, Acl.empty]

theorem step_boundIsSlots (o : AclObj) (op : Op) (hb : o.boundIsSlots) (hop : noSetMax [op] = true) :
    (o.step op).1.boundIsSlots ∧ (o.step op).2 ≠ .edit .indexError := by
  obtain ⟨_, _, s3, _, s5⟩ := C07_step_state o op
  unfold AclObj.boundIsSlots at hb ⊢
  cases op with
  | add r pos =>
    simp only at s5
    refine ⟨by rw [s5, s3]; exact hb, ?_⟩
    intro h
    have h' : (o.addRule r pos).2 = .indexError := by simpa [AclObj.step] using h
    obtain ⟨a, b, c⟩ := (C07_obj_addRule o r pos).2.1.mp h'
    omega
  | remove pos =>
    simp only at s5
    refine ⟨by rw [s5, s3]; exact hb, ?_⟩
    intro h
    have h' : (o.removeRule pos).2 = .indexError := by simpa [AclObj.step] using h
    obtain ⟨a, b, c⟩ := (C07_obj_removeRule o pos).2.1.mp h'
    omega
  | check p => simp only at s5; exact ⟨by rw [s5, s3]; exact hb, by simp [AclObj.step]⟩
  | setImplicit a => exact ⟨hb, by simp [AclObj.step]⟩
  | setMax n => simp [noSetMax] at hop

/-- As long as `max_acl_rules` is not reassigned, no edit ever ends in `IndexError`: an edit either succeeds or is refused
with `ValueError`, and it succeeds exactly for the positions that exist.  (After `acl.max_acl_rules = n` with `n` above
the built size, positions between the two raise `IndexError` — `C07_index_error_example`.) -/
theorem C07_no_index_error (o : AclObj) (ops : List Op) (hb : o.boundIsSlots) (hops : noSetMax ops = true) :
    (o.run ops).1.boundIsSlots ∧ ∀ x, x ∈ (o.run ops).2 → x ≠ .edit .indexError := by
  induction ops generalizing o with
  | nil => exact ⟨hb, by simp [AclObj.run]⟩
  | cons op rest ih =>
    have h1 : noSetMax [op] = true := by cases op <;> simp_all [noSetMax]
    have h2 : noSetMax rest = true := by cases op <;> simp_all [noSetMax]
    obtain ⟨sb, sa⟩ := step_boundIsSlots o op hb h1
    obtain ⟨rb, ra⟩ := ih (o.step op).1 sb h2
    rw [run_cons]
    refine ⟨rb, ?_⟩
    intro x hx
    simp only [List.mem_cons] at hx
    rcases hx with rfl | hx
    · exact sa
    · exact ra x hx

theorem C07_index_error_example :
    (((AclObj.construct none 25).setMaxRules 30).addRule exRulePermitAll 26).2 = .indexError ∧
    (((AclObj.construct none 25).setMaxRules 30).addRule exRulePermitAll 29).2 = .valueError ∧
    (((AclObj.construct none 25).setMaxRules 10).addRule exRulePermitAll 12).2 = .valueError ∧
    (((AclObj.construct none 25).setMaxRules 10).addRule exRulePermitAll 8).2 = .ok := by decide

example : (AclObj.construct (some .permit) 25).boundIsSlots ∧
    noSetMax [.add exRuleDenyHttp 3, .setImplicit .deny, .check exPkt, .remove 24] = true :=
  ⟨C07_construct_boundIsSlots _ _, by decide⟩

/-! ### `num_rules` and the rows of `show()` -/

def countSome (l : List (Option Rule)) : Nat := (l.filter Option.isSome).length

theorem countSome_set (l : List (Option Rule)) (i : Nat) (x : Option Rule) (hi : i < l.length) :
    countSome (l.set i x) + (if (l[i]?).join.isSome then 1 else 0) = countSome l + (if x.isSome then 1 else 0) := by
  induction l generalizing i with
  | nil => simp at hi
  | cons y rest ih =>
    cases i with
    | zero => cases y <;> cases x <;> simp [countSome, List.filter]
    | succ i =>
      have hi' : i < rest.length := by simpa using hi
      have := ih i hi'
      have e1 : (y :: rest).set (i + 1) x = y :: rest.set i x := rfl
      have e2 : (y :: rest)[i + 1]? = rest[i]? := by simp
      rw [e1, e2]
      cases y <;> simp only [countSome, List.filter, Option.isSome, List.length_cons] at this ⊢ <;> omega

theorem countSome_modify (l : List (Option Rule)) (i : Nat) (f : Rule → Rule) :
    countSome (l.modify i (fun o => o.map f)) = countSome l := by
  induction l generalizing i with
  | nil => simp [countSome]
  | cons y rest ih =>
    cases i with
    | zero => cases y <;> simp [countSome, List.filter]
    | succ i =>
      have := ih i
      cases y <;> simp_all [countSome, List.filter, List.modify_succ_cons]

/-- `num_rules` counts the occupied slots: it never exceeds the slot count, a successful `add_rule` raises it by one
exactly when the slot was empty (an overwrite keeps it), a successful `remove_rule` lowers it by one exactly when the slot
was occupied, and verdicts / attribute assignments leave it alone. -/
theorem C07_numRules (o : AclObj) :
    o.numRules ≤ o.core.rules.length ∧
    (∀ r pos, (o.addRule r pos).2 = .ok →
      (o.addRule r pos).1.numRules + (if (o.core.rules[pos.toNat]?).join.isSome then 1 else 0) = o.numRules + 1) ∧
    (∀ pos, (o.removeRule pos).2 = .ok →
      (o.removeRule pos).1.numRules + (if (o.core.rules[pos.toNat]?).join.isSome then 1 else 0) = o.numRules) ∧
    (∀ p, (o.isPermitted p).2.2.numRules = o.numRules) ∧
    (∀ a, (o.setImplicit a).numRules = o.numRules) ∧ (∀ n, (o.setMaxRules n).numRules = o.numRules) := by
  refine ⟨List.length_filter_le _ _, ?_, ?_, ?_, fun _ => rfl, fun _ => rfl⟩
  · intro r pos h
    obtain ⟨_, _, hlt⟩ := (C07_obj_addRule o r pos).2.2.1.mp h
    have hadd : Acl.addRule o.core r pos.toNat =
        some { o.core with rules := o.core.rules.set pos.toNat (some { r with hits := 0 }) } := by
      simp [Acl.addRule, hlt]
    have hin : o.inBound pos = true := by
      have := (C07_obj_addRule o r pos).2.2.1.mp h
      simp [AclObj.inBound, this.1, this.2.1]
    have := countSome_set o.core.rules pos.toNat (some { r with hits := 0 }) hlt
    simpa [AclObj.addRule, hin, hadd, AclObj.numRules, countSome] using this
  · intro pos h
    obtain ⟨_, _, hlt⟩ := (C07_obj_removeRule o pos).2.2.1.mp h
    have hrem : Acl.removeRule o.core pos.toNat = some { o.core with rules := o.core.rules.set pos.toNat none } := by
      simp [Acl.removeRule, hlt]
    have hin : o.inBound pos = true := by
      have := (C07_obj_removeRule o pos).2.2.1.mp h
      simp [AclObj.inBound, this.1, this.2.1]
    have := countSome_set o.core.rules pos.toNat none hlt
    simpa [AclObj.removeRule, hin, hrem, AclObj.numRules, countSome] using this
  · intro p
    show countSome (Acl.isPermitted o.core p).2.2.rules = countSome o.core.rules
    unfold Acl.isPermitted
    cases heq : firstMatch p o.core.rules 0 with
    | some ir => obtain ⟨i, r⟩ := ir; exact countSome_modify _ _ _
    | none => rfl

theorem showRowsFrom_mem (l : List (Option Rule)) (off i : Nat) (r : Rule) :
    (i, r) ∈ showRowsFrom l off ↔ off ≤ i ∧ l[i - off]? = some (some r) := by
  induction l generalizing off with
  | nil => simp [showRowsFrom]
  | cons x rest ih =>
    cases x with
    | none =>
      simp only [showRowsFrom, ih]
      constructor
      · rintro ⟨h1, h2⟩
        refine ⟨by omega, ?_⟩
        have : i - off = (i - (off + 1)) + 1 := by omega
        rw [this]; simpa using h2
      · rintro ⟨h1, h2⟩
        by_cases he : i = off
        · subst he; simp at h2
        · refine ⟨by omega, ?_⟩
          have : i - off = (i - (off + 1)) + 1 := by omega
          rw [this] at h2; simpa using h2
    | some r0 =>
      simp only [showRowsFrom, List.mem_cons, Prod.mk.injEq, ih]
      constructor
      · rintro (⟨rfl, rfl⟩ | ⟨h1, h2⟩)
        · simp
        · refine ⟨by omega, ?_⟩
          have : i - off = (i - (off + 1)) + 1 := by omega
          rw [this]; simpa using h2
      · rintro ⟨h1, h2⟩
        by_cases he : i = off
        · subst he; simp at h2; exact Or.inl ⟨rfl, h2.symm⟩
        · refine Or.inr ⟨by omega, ?_⟩
          have : i - off = (i - (off + 1)) + 1 := by omega
          rw [this] at h2; simpa using h2

/-- `show()` lists every occupied slot under its own position, and one more row — index = the slot count — for the
`implicit_rule` OBJECT: the action the list was built with and the implicit counter. -/
theorem C07_showRows (o : AclObj) (i : Nat) (r : Rule) :
    (i, r) ∈ o.showRows ↔
      o.core.rules[i]? = some (some r) ∨ (i = o.core.rules.length ∧ r = o.implicitRuleObj) := by
  unfold AclObj.showRows
  rw [showRowsFrom_mem]
  simp only [Nat.zero_le, Nat.sub_zero, true_and]
  by_cases hi : i < o.core.rules.length
  · rw [List.getElem?_append_left hi]
    constructor
    · exact Or.inl
    · rintro (h | ⟨h, _⟩)
      · exact h
      · omega
  · rw [List.getElem?_append_right (by omega)]
    have hnone : o.core.rules[i]? = none := by simp; omega
    rw [hnone]
    by_cases he : i = o.core.rules.length
    · subst he; simp [eq_comm]
    · have : i - o.core.rules.length ≠ 0 := by omega
      cases hk : i - o.core.rules.length with
      | zero => exact absurd hk this
      | succ k => simp [he]

/-! ### overwriting an occupied position -/

/-- **`add_rule` at an occupied position REPLACES the rule**, whatever was there — a rule equal to the new one in all but
one field (a wildcard mask, say) included: the edit succeeds, the slot afterwards holds exactly the new rule with a zero
counter, and the old rule is still there only if it IS that rule (same eight fields and a zero counter). -/
theorem C07_addRule_replaces (o : AclObj) (r old : Rule) (pos : Int)
    (hin : o.inBound pos = true) (hold : o.core.rules[pos.toNat]? = some (some old)) :
    (o.addRule r pos).2 = .ok ∧
    (o.addRule r pos).1.core.rules[pos.toNat]? = some (some { r with hits := 0 }) ∧
    ((o.addRule r pos).1.core.rules[pos.toNat]? = some (some old) ↔ old = { r with hits := 0 }) := by
  have hlt : pos.toNat < o.core.rules.length := by
    obtain ⟨h, _⟩ := List.getElem?_eq_some_iff.mp hold
    exact h
  have hb : 0 ≤ pos ∧ pos < o.maxRules - 1 := by
    simpa [AclObj.inBound] using hin
  have hok : (o.addRule r pos).2 = .ok := (C07_obj_addRule o r pos).2.2.1.mpr ⟨hb.1, hb.2, hlt⟩
  have hslot := ((C07_obj_addRule o r pos).2.2.2.2.1 hok).1
  refine ⟨hok, hslot, ?_⟩
  rw [hslot]
  constructor
  · intro h; injection h with h; injection h with h; exact h.symm
  · intro h; rw [h]

/-- …and the new rule decides: after the overwrite, a packet the NEW rule matches and no lower-positioned rule matches gets
the new rule's action from position `pos` — the old occupant plays no part. -/
theorem C07_overwrite_decides (o : AclObj) (r old : Rule) (pos : Int) (p : Packet)
    (hin : o.inBound pos = true) (hold : o.core.rules[pos.toNat]? = some (some old))
    (hm : r.hits? p = true)
    (hlow : ∀ j, j < pos.toNat → ∀ r' : Rule, o.core.rules[j]? = some (some r') → r'.hits? p = false) :
    ((o.addRule r pos).1.isPermitted p).1 = (r.action == .permit) ∧
    ((o.addRule r pos).1.isPermitted p).2.1 = .rule pos.toNat := by
  obtain ⟨hok, hslot, _⟩ := C07_addRule_replaces o r old pos hin hold
  have hother := ((C07_obj_addRule o r pos).2.2.2.2.1 hok).2
  have hv := C07_verdict_first_match (o.addRule r pos).1.core p
  simp only at hv
  have hnew : Rule.hits? { r with hits := 0 } p = true := hm
  rcases hv with ⟨i, r', h1, h2, h3, h4, h5⟩ | ⟨h1, _, _⟩
  · have hle : ¬ pos.toNat < i := fun hlt => by
      have := h3 pos.toNat hlt _ hslot
      rw [hnew] at this; exact absurd this (by simp)
    have hge : ¬ i < pos.toNat := fun hlt => by
      have hne : i ≠ pos.toNat := by omega
      rw [hother i hne] at h1
      have := hlow i hlt r' h1
      rw [h2] at this; exact absurd this (by simp)
    have hi : i = pos.toNat := by omega
    subst hi
    rw [hslot] at h1
    injection h1 with h1; injection h1 with h1
    subst h1
    exact ⟨h4, h5⟩
  · have := h1 pos.toNat _ hslot
    rw [hnew] at this; exact absurd this (by simp)

/-- non-vacuity: the exact-address rule at 1 corrected to a /24 range at 1 — the slot holds the range rule, and a host
inside the range but not the old address is now decided by it -/
example :
    let o := ((AclObj.construct none 25).addRule { exRuleDenyHttp with srcWc := none } 1).1
    (o.addRule exRuleDenyHttp 1).1.core.rules[1]? = some (some exRuleDenyHttp) ∧
    (o.isPermitted exPkt).2.1 = .implicit ∧ ((o.addRule exRuleDenyHttp 1).1.isPermitted exPkt).2.1 = .rule 1 := by decide

/-! ### verdicts depend on the slots and the implicit action only -/

/-- sequences made of verdict requests and `max_acl_rules` assignments -/
def onlyChecksAndSetMax : List Op → Bool
  | [] => true
  | .check _ :: rest => onlyChecksAndSetMax rest
  | .setMax _ :: rest => onlyChecksAndSetMax rest
  | _ :: _ => false

/-- Neither the hit counters (however many verdicts were asked before) nor `max_acl_rules` influence a verdict: after any
number of verdict requests and `max_acl_rules` assignments a packet gets the verdict and the decider it would have got at
once. -/
theorem C07_obj_verdict_stable (o : AclObj) (ops : List Op) (p : Packet) (h : onlyChecksAndSetMax ops = true) :
    ((o.run ops).1.isPermitted p).1 = (o.isPermitted p).1 ∧ ((o.run ops).1.isPermitted p).2.1 = (o.isPermitted p).2.1 := by
  induction ops generalizing o with
  | nil => exact ⟨rfl, rfl⟩
  | cons op rest ih =>
    rw [run_cons]
    cases op with
    | check q =>
      have hr : onlyChecksAndSetMax rest = true := by simpa [onlyChecksAndSetMax] using h
      obtain ⟨i1, i2⟩ := ih (o.step (.check q)).1 hr
      have hs := C07_verdict_stable o.core p q
      simp only at hs
      exact ⟨i1.trans hs.1, i2.trans hs.2⟩
    | setMax n =>
      have hr : onlyChecksAndSetMax rest = true := by simpa [onlyChecksAndSetMax] using h
      exact ih (o.step (.setMax n)).1 hr
    | add r pos => simp [onlyChecksAndSetMax] at h
    | remove pos => simp [onlyChecksAndSetMax] at h
    | setImplicit a => simp [onlyChecksAndSetMax] at h

example : onlyChecksAndSetMax [.check exPkt, .setMax 3, .check exPkt] = true := by decide

/-! ### the lists of one device are independent -/

/-- the operations of a device trace that address list `j`, in order -/
def opsFor (j : ListId) : List (ListId × Op) → List Op
  | [] => []
  | (i, op) :: rest => if i = j then op :: opsFor j rest else opsFor j rest

/-- the answers of a device trace that belong to operations addressed to list `j`, in order -/
def ansFor (j : ListId) : List (ListId × Op) → List Ans → List Ans
  | (i, _) :: rest, a :: as => if i = j then a :: ansFor j rest as else ansFor j rest as
  | _, _ => []

/-- An operation on one list changes no other list of the device. -/
theorem C07_device_step_frame (d : Device) (i j : ListId) (op : Op) (h : j ≠ i) : (d.step i op).1 j = d j := by
  simp [Device.step, Device.set, h]

theorem device_step_self (d : Device) (i : ListId) (op : Op) :
    (d.step i op).1 i = ((d i).step op).1 ∧ (d.step i op).2 = ((d i).step op).2 := by
  simp [Device.step, Device.set]

theorem device_run_cons (d : Device) (i : ListId) (op : Op) (rest : List (ListId × Op)) :
    d.run ((i, op) :: rest) = (((d.step i op).1.run rest).1, (d.step i op).2 :: ((d.step i op).1.run rest).2) := rfl

/-- **Each of a device's lists behaves as if it were alone**: after ANY interleaving of operations addressed to the seven
lists, list `j` is in the state — rules, counters, implicit action, `max_acl_rules` — that the operations addressed to `j`
alone produce, and it gave those operations the answers it would have given alone.  In particular a rule added to one
list never changes a verdict, a counter or a slot of another. -/
theorem C07_device_independent (d : Device) (ops : List (ListId × Op)) (j : ListId) :
    (d.run ops).1 j = ((d j).run (opsFor j ops)).1 ∧
    ansFor j ops (d.run ops).2 = ((d j).run (opsFor j ops)).2 := by
  induction ops generalizing d with
  | nil => exact ⟨rfl, rfl⟩
  | cons x rest ih =>
    obtain ⟨i, op⟩ := x
    rw [device_run_cons]
    obtain ⟨ih1, ih2⟩ := ih (d.step i op).1
    by_cases h : i = j
    · subst h
      obtain ⟨s1, s2⟩ := device_step_self d i op
      simp only [opsFor, ansFor, if_true, run_cons]
      rw [s1] at ih1 ih2
      exact ⟨ih1, by rw [ih2, s2]⟩
    · have hj : j ≠ i := fun e => h e.symm
      simp only [opsFor, ansFor, h, if_false]
      rw [C07_device_step_frame d i j op hj] at ih1 ih2
      exact ⟨ih1, ih2⟩

/-- corollary: a list that no operation of the trace addresses is untouched -/
theorem C07_device_untouched (d : Device) (ops : List (ListId × Op)) (j : ListId)
    (h : ∀ x, x ∈ ops → x.1 ≠ j) : (d.run ops).1 j = d j := by
  have hnil : opsFor j ops = [] := by
    induction ops with
    | nil => rfl
    | cons x rest ih =>
      obtain ⟨i, op⟩ := x
      have hi : i ≠ j := h (i, op) (by simp)
      simp only [opsFor, hi, if_false]
      exact ih (fun y hy => h y (by simp [hy]))
  rw [(C07_device_independent d ops j).1, hnil]; rfl

/-- a firewall as built: the six lists are empty with the documented defaults (external permit, the rest deny); the
inherited router list denies by default and holds the ARP and ICMP rules at 22 and 23 -/
theorem C07_firewall_as_built :
    (∀ j, j ≠ .router → ((Device.firewall 25) j).numRules = 0 ∧ ((Device.firewall 25) j).core.rules.length = 24 ∧
        ((Device.firewall 25) j).core.implicit = firewallImplicit j ∧
        ((Device.firewall 25) j).ruleAction = firewallImplicit j) ∧
    ((Device.firewall 25) .router).numRules = 2 ∧ ((Device.firewall 25) .router).core.implicit = .deny ∧
    firewallImplicit .extIn = .permit ∧ firewallImplicit .extOut = .permit ∧
    firewallImplicit .intIn = .deny ∧ firewallImplicit .intOut = .deny ∧
    firewallImplicit .dmzIn = .deny ∧ firewallImplicit .dmzOut = .deny := by
  refine ⟨?_, by decide, by decide, rfl, rfl, rfl, rfl, rfl, rfl⟩
  intro j hj
  cases j <;> first | exact absurd rfl hj | decide

/-- non-vacuity: an interleaving that edits two lists and reassigns a default; the dmz list is untouched -/
example :
    let ops : List (ListId × Op) := [(.intIn, .add exRuleDenyHttp 3), (.extIn, .setImplicit .deny),
      (.intIn, .check exPkt), (.extIn, .check exPkt)]
    ((Device.firewall 25).run ops).2 = [.edit .ok, .done, .verdict false (.rule 3), .verdict false .implicit] ∧
    opsFor .dmzIn ops = [] := by decide

end Primaite.Acl
