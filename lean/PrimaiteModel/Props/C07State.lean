/-
C07, round 3 — the state a list carries besides its rules (`implicit_action` vs the `implicit_rule` object,
`max_acl_rules` vs the slot count, `num_rules`, the implicit rule's hit counter), for every sequence of the operations
the code offers (constructor, attribute assignment, `add_rule`, `remove_rule`, `is_permitted`), and the independence of
the seven lists of a firewall.  The model is `Model/AclObj.lean` (on top of `Model/Acl.lean`).
-/
import PrimaiteModel.Model.AclObj
import PrimaiteModel.Props.C07
namespace Primaite.Acl

/-! ### constructor -/

/-- `__init__`: a missing (or falsy) `implicit_action` means DENY; the `implicit_rule` object gets the same action; there
are `max_acl_rules - 1` empty slots (none when that is not positive) and both counters start at 0. -/
theorem C07_construct_spec (imp : Option Action) (n : Int) :
    let o := AclObj.construct imp n
    o.core.implicit = imp.getD .deny ∧ o.ruleAction = imp.getD .deny ∧ o.maxRules = n ∧
    o.core.rules.length = (n - 1).toNat ∧ (∀ j, j < (n - 1).toNat → o.core.rules[j]? = some none) ∧
    o.core.implicitHits = 0 ∧ o.numRules = 0 := by
  refine ⟨rfl, rfl, rfl, by simp [AclObj.construct, Acl.empty], ?_, rfl, ?_⟩
  · intro j hj
    have : j < n.toNat - 1 := by omega
    simp [AclObj.construct, Acl.empty, this]
  · simp [AclObj.construct, Acl.empty, AclObj.numRules]

/-! ### one operation: what it may touch -/

/-- Editing through the object: the outcome is decided by the guard `0 <= position < max_acl_rules - 1` (else
`ValueError`) and then by the slot count (else `IndexError`); an error changes NOTHING; success changes exactly the
addressed slot; the implicit action, the implicit rule (action and counter) and `max_acl_rules` are never touched. -/
theorem C07_obj_addRule (o : AclObj) (r : Rule) (pos : Int) :
    (((o.addRule r pos).2 = .valueError) ↔ ¬ (0 ≤ pos ∧ pos < o.maxRules - 1)) ∧
    (((o.addRule r pos).2 = .indexError) ↔ (0 ≤ pos ∧ pos < o.maxRules - 1 ∧ o.core.rules.length ≤ pos.toNat)) ∧
    (((o.addRule r pos).2 = .ok) ↔ (0 ≤ pos ∧ pos < o.maxRules - 1 ∧ pos.toNat < o.core.rules.length)) ∧
    ((o.addRule r pos).2 ≠ .ok → (o.addRule r pos).1 = o) ∧
    ((o.addRule r pos).2 = .ok →
        (o.addRule r pos).1.core.rules[pos.toNat]? = some (some { r with hits := 0 }) ∧
        (∀ j, j ≠ pos.toNat → (o.addRule r pos).1.core.rules[j]? = o.core.rules[j]?)) ∧
    (o.addRule r pos).1.core.rules.length = o.core.rules.length ∧
    (o.addRule r pos).1.core.implicit = o.core.implicit ∧
    (o.addRule r pos).1.core.implicitHits = o.core.implicitHits ∧
    (o.addRule r pos).1.ruleAction = o.ruleAction ∧ (o.addRule r pos).1.maxRules = o.maxRules := by
  unfold AclObj.addRule AclObj.inBound
  by_cases h0 : 0 ≤ pos <;> by_cases h1 : pos < o.maxRules - 1
  · by_cases h2 : pos.toNat < o.core.rules.length
    · have hadd : Acl.addRule o.core r pos.toNat =
          some { o.core with rules := o.core.rules.set pos.toNat (some { r with hits := 0 }) } := by
        simp [Acl.addRule, h2]
      simp only [h0, h1, decide_true, Bool.and_self, if_true, hadd]
      refine ⟨by simp, by simp; omega, by simp [h2], by simp, ?_, by simp, trivial, trivial, trivial, trivial⟩
      intro _
      refine ⟨by simp [h2], ?_⟩
      intro j hj
      have : ¬ pos.toNat = j := fun h => hj h.symm
      simp [List.getElem?_set, this]
    · have hadd : Acl.addRule o.core r pos.toNat = none := by simp [Acl.addRule, h2]
      simp only [h0, h1, decide_true, Bool.and_self, if_true, hadd]
      refine ⟨by simp, by simp; omega, by simp [h2], by simp, by simp, trivial, trivial, trivial, trivial, trivial⟩
  · simp [h0, h1]
  · simp [h0, h1]
  · simp [h0, h1]

theorem C07_obj_removeRule (o : AclObj) (pos : Int) :
    (((o.removeRule pos).2 = .valueError) ↔ ¬ (0 ≤ pos ∧ pos < o.maxRules - 1)) ∧
    (((o.removeRule pos).2 = .indexError) ↔ (0 ≤ pos ∧ pos < o.maxRules - 1 ∧ o.core.rules.length ≤ pos.toNat)) ∧
    (((o.removeRule pos).2 = .ok) ↔ (0 ≤ pos ∧ pos < o.maxRules - 1 ∧ pos.toNat < o.core.rules.length)) ∧
    ((o.removeRule pos).2 ≠ .ok → (o.removeRule pos).1 = o) ∧
    ((o.removeRule pos).2 = .ok →
        (o.removeRule pos).1.core.rules[pos.toNat]? = some none ∧
        (∀ j, j ≠ pos.toNat → (o.removeRule pos).1.core.rules[j]? = o.core.rules[j]?)) ∧
    (o.removeRule pos).1.core.rules.length = o.core.rules.length ∧
    (o.removeRule pos).1.core.implicit = o.core.implicit ∧
    (o.removeRule pos).1.core.implicitHits = o.core.implicitHits ∧
    (o.removeRule pos).1.ruleAction = o.ruleAction ∧ (o.removeRule pos).1.maxRules = o.maxRules := by
  unfold AclObj.removeRule AclObj.inBound
  by_cases h0 : 0 ≤ pos <;> by_cases h1 : pos < o.maxRules - 1
  · by_cases h2 : pos.toNat < o.core.rules.length
    · have hrem : Acl.removeRule o.core pos.toNat = some { o.core with rules := o.core.rules.set pos.toNat none } := by
        simp [Acl.removeRule, h2]
      simp only [h0, h1, decide_true, Bool.and_self, if_true, hrem]
      refine ⟨by simp, by simp; omega, by simp [h2], by simp, ?_, by simp, trivial, trivial, trivial, trivial⟩
      intro _
      refine ⟨by simp [h2], ?_⟩
      intro j hj
      have : ¬ pos.toNat = j := fun h => hj h.symm
      simp [List.getElem?_set, this]
    · have hrem : Acl.removeRule o.core pos.toNat = none := by simp [Acl.removeRule, h2]
      simp only [h0, h1, decide_true, Bool.and_self, if_true, hrem]
      refine ⟨by simp, by simp; omega, by simp [h2], by simp, by simp, trivial, trivial, trivial, trivial, trivial⟩
  · simp [h0, h1]
  · simp [h0, h1]
  · simp [h0, h1]

/-- Asking for a verdict through the object is `Model/Acl.isPermitted` on the slots and the CURRENT attribute; the
`implicit_rule` object's action and `max_acl_rules` are not touched. -/
theorem C07_obj_isPermitted (o : AclObj) (p : Packet) :
    (o.isPermitted p).1 = (Acl.isPermitted o.core p).1 ∧ (o.isPermitted p).2.1 = (Acl.isPermitted o.core p).2.1 ∧
    (o.isPermitted p).2.2.core = (Acl.isPermitted o.core p).2.2 ∧
    (o.isPermitted p).2.2.ruleAction = o.ruleAction ∧ (o.isPermitted p).2.2.maxRules = o.maxRules :=
  ⟨rfl, rfl, rfl, rfl, rfl⟩

theorem isPermitted_implicitHits (a : Acl) (p : Packet) :
    (Acl.isPermitted a p).2.2.implicitHits =
      a.implicitHits + (if (Acl.isPermitted a p).2.1 = .implicit then 1 else 0) ∧
    (Acl.isPermitted a p).2.2.implicit = a.implicit ∧
    (Acl.isPermitted a p).2.2.rules.length = a.rules.length := by
  have h := C07_hit_counter a p
  unfold Acl.isPermitted at h ⊢
  cases heq : firstMatch p a.rules 0 with
  | some ir =>
    obtain ⟨i, r⟩ := ir
    simp only [heq] at h
    simp [bump]
  | none => simp

/-- One operation: which parts of the state it may change.  Only `setImplicit` changes the implicit action, only
`setMax` changes `max_acl_rules`, nothing changes the `implicit_rule` object's action or the number of slots, and the
implicit rule's counter moves exactly when the answer is a verdict decided by the implicit rule. -/
theorem C07_step_state (o : AclObj) (op : Op) :
    (o.step op).1.core.implicit = currentImplicit o.core.implicit [op] ∧
    (o.step op).1.ruleAction = o.ruleAction ∧
    (o.step op).1.core.rules.length = o.core.rules.length ∧
    (o.step op).1.core.implicitHits = o.core.implicitHits + implicitVerdicts [(o.step op).2] ∧
    (o.step op).1.maxRules = (match op with | .setMax n => n | _ => o.maxRules) := by
  cases op with
  | add r pos =>
    obtain ⟨_, _, _, _, _, h6, h7, h8, h9, h10⟩ := C07_obj_addRule o r pos
    exact ⟨h7, h9, h6, by simpa [AclObj.step, implicitVerdicts] using h8, h10⟩
  | remove pos =>
    obtain ⟨_, _, _, _, _, h6, h7, h8, h9, h10⟩ := C07_obj_removeRule o pos
    exact ⟨h7, h9, h6, by simpa [AclObj.step, implicitVerdicts] using h8, h10⟩
  | check p =>
    obtain ⟨h1, h2, h3⟩ := isPermitted_implicitHits o.core p
    refine ⟨h2, rfl, h3, ?_, rfl⟩
    show (Acl.isPermitted o.core p).2.2.implicitHits = _
    rw [h1]
    simp only [AclObj.step, AclObj.isPermitted]
    cases hd : (Acl.isPermitted o.core p).2.1 with
    | implicit => simp [implicitVerdicts]
    | rule i => simp [implicitVerdicts]
  | setImplicit a => exact ⟨rfl, rfl, rfl, rfl, rfl⟩
  | setMax n => exact ⟨rfl, rfl, rfl, rfl, rfl⟩

theorem run_cons (o : AclObj) (op : Op) (rest : List Op) :
    o.run (op :: rest) = (((o.step op).1.run rest).1, (o.step op).2 :: ((o.step op).1.run rest).2) := rfl

theorem currentImplicit_cons (a : Action) (op : Op) (rest : List Op) :
    currentImplicit a (op :: rest) = currentImplicit (currentImplicit a [op]) rest := by
  cases op <;> rfl

theorem implicitVerdicts_cons (x : Ans) (rest : List Ans) :
    implicitVerdicts (x :: rest) = implicitVerdicts [x] + implicitVerdicts rest := by
  cases x with
  | verdict v d => cases d <;> simp [implicitVerdicts]; omega
  | edit e => simp [implicitVerdicts]
  | done => simp [implicitVerdicts]

/-- EVERY sequence of operations: the implicit action in force is the last one assigned (else the constructor's); the
`implicit_rule` object keeps the action it was built with; the slot count never changes; the implicit rule's counter has
grown by exactly the number of verdicts the implicit rule decided; one answer per operation. -/
theorem C07_run_state (o : AclObj) (ops : List Op) :
    (o.run ops).1.core.implicit = currentImplicit o.core.implicit ops ∧
    (o.run ops).1.ruleAction = o.ruleAction ∧
    (o.run ops).1.core.rules.length = o.core.rules.length ∧
    (o.run ops).1.core.implicitHits = o.core.implicitHits + implicitVerdicts (o.run ops).2 ∧
    (o.run ops).2.length = ops.length := by
  induction ops generalizing o with
  | nil => exact ⟨rfl, rfl, rfl, rfl, rfl⟩
  | cons op rest ih =>
    obtain ⟨s1, s2, s3, s4, _⟩ := C07_step_state o op
    obtain ⟨r1, r2, r3, r4, r5⟩ := ih (o.step op).1
    rw [run_cons]
    refine ⟨?_, ?_, ?_, ?_, ?_⟩
    · rw [currentImplicit_cons, ← s1]; exact r1
    · exact r2.trans s2
    · exact r3.trans s3
    · show ((o.step op).1.run rest).1.core.implicitHits =
        o.core.implicitHits + implicitVerdicts ((o.step op).2 :: ((o.step op).1.run rest).2)
      rw [implicitVerdicts_cons (o.step op).2 ((o.step op).1.run rest).2, r4, s4]; omega
    · simp [r5]

/-- **The fall-through verdict is the CURRENT implicit action, for every edit sequence.**  After any sequence of
operations (attribute assignments included) a packet is decided by the lowest-positioned matching rule of the slots as
they now are; if none matches, the verdict is the implicit action assigned LAST (the constructor's if none was), the
decider is the implicit rule, and its counter — and nothing else — is incremented. -/
theorem C07_fallthrough_is_current_implicit (o : AclObj) (ops : List Op) (p : Packet) :
    let o' := (o.run ops).1
    (∃ i r, o'.core.rules[i]? = some (some r) ∧ r.hits? p = true ∧
        (∀ j, j < i → ∀ r' : Rule, o'.core.rules[j]? = some (some r') → r'.hits? p = false) ∧
        (o'.isPermitted p).1 = (r.action == .permit) ∧ (o'.isPermitted p).2.1 = .rule i) ∨
    ((∀ (j : Nat) (r' : Rule), o'.core.rules[j]? = some (some r') → r'.hits? p = false) ∧
        (o'.isPermitted p).1 = (currentImplicit o.core.implicit ops == .permit) ∧
        (o'.isPermitted p).2.1 = .implicit ∧
        (o'.isPermitted p).2.2.core.implicitHits = o'.core.implicitHits + 1 ∧
        (o'.isPermitted p).2.2.core.rules = o'.core.rules ∧
        (o'.isPermitted p).2.2.core.implicit = o'.core.implicit ∧
        (o'.isPermitted p).2.2.ruleAction = o.ruleAction) := by
  intro o'
  have hv := C07_verdict_first_match o'.core p
  have hc := C07_hit_counter o'.core p
  obtain ⟨hi, hr, _, _, _⟩ := C07_run_state o ops
  simp only at hv hc
  rcases hv with ⟨i, r, h1, h2, h3, h4, h5⟩ | ⟨h1, h2, h3⟩
  · exact Or.inl ⟨i, r, h1, h2, h3, h4, h5⟩
  · refine Or.inr ⟨h1, ?_, h3, ?_, ?_, ?_, hr⟩
    · show (Acl.isPermitted o'.core p).1 = _
      rw [h2, hi]
    · have := hc.2.2.2; rw [h3] at this; exact this.2
    · have := hc.2.2.2; rw [h3] at this; exact this.1
    · exact hc.1

/-! ### what `describe_state()` / `show()` report versus what verdicts use -/

/-- `describe_state()["implicit_action"]` is exactly what the fall-through verdict uses — for every sequence. -/
theorem C07_describe_implicit_is_verdict (o : AclObj) (ops : List Op) (p : Packet)
    (hno : ∀ (j : Nat) (r' : Rule), (o.run ops).1.core.rules[j]? = some (some r') → r'.hits? p = false) :
    ((o.run ops).1.isPermitted p).1 = ((o.run ops).1.describe.implicitAction == .permit) ∧
    (o.run ops).1.describe.implicitAction = currentImplicit o.core.implicit ops := by
  obtain ⟨hi, _⟩ := C07_run_state o ops
  rcases C07_fallthrough_is_current_implicit o ops p with ⟨i, r, h1, h2, _⟩ | ⟨_, h2, _⟩
  · rw [hno i r h1] at h2; exact absurd h2 (by simp)
  · exact ⟨by rw [h2]; show _ = ((o.run ops).1.core.implicit == .permit); rw [hi], hi⟩

/-- NOT part of the property, a reporting quirk of the code kept visible: `describe_state()["implicit_rule"]["action"]`,
the last row of `show()` and the rule object returned as decider carry the action the list was BUILT with. -/
def C07_ImplicitRuleReport_Full : Prop :=
  ∀ (imp : Option Action) (n : Int) (ops : List Op),
    let o := ((AclObj.construct imp n).run ops).1
    o.describe.implicitRuleAction = o.describe.implicitAction

/-- exactly when the report is right: the action in force equals the constructor's -/
theorem C07_implicit_rule_report_partial (imp : Option Action) (n : Int) (ops : List Op) :
    let o := ((AclObj.construct imp n).run ops).1
    (o.describe.implicitRuleAction = o.describe.implicitAction ↔
      currentImplicit (imp.getD .deny) ops = imp.getD .deny) ∧
    o.describe.implicitRuleAction = imp.getD .deny := by
  intro o
  obtain ⟨hi, hr, _⟩ := C07_run_state (AclObj.construct imp n) ops
  have h1 : o.describe.implicitAction = currentImplicit (imp.getD .deny) ops := hi
  have h2 : o.describe.implicitRuleAction = imp.getD .deny := hr
  rw [h1, h2]
  exact ⟨⟨fun h => h.symm, fun h => h.symm⟩, rfl⟩

theorem C07_implicit_rule_report_counterexample : ¬ C07_ImplicitRuleReport_Full := by
  intro h
  exact absurd (h (some .deny) 25 [.setImplicit .permit]) (by decide)

/-- the sequences on which the report is right include every sequence without an assignment -/
def noSetImplicit : List Op → Bool
  | [] => true
  | .setImplicit _ :: _ => false
  | _ :: rest => noSetImplicit rest

theorem currentImplicit_noSet (a : Action) (ops : List Op) (h : noSetImplicit ops = true) :
    currentImplicit a ops = a := by
  induction ops with
  | nil => rfl
  | cons op rest ih => cases op <;> simp_all [noSetImplicit, currentImplicit]

example : noSetImplicit [.add exRuleDenyHttp 3, .check exPkt, .remove 3, .setMax 30] = true := by decide

/-! ### `max_acl_rules` versus the slot count -/

def noSetMax : List Op → Bool
  | [] => true
  | .setMax _ :: _ => false
  | _ :: rest => noSetMax rest

/-- bound and slot count agree (what the constructor establishes) -/
def AclObj.boundIsSlots (o : AclObj) : Prop := (o.maxRules - 1).toNat = o.core.rules.length

theorem C07_construct_boundIsSlots (imp : Option Action) (n : Int) : (AclObj.construct imp n).boundIsSlots := by
  simp [AclObj.boundIsSlots, AclObj.construct, Acl.empty]

theorem step_boundIsSlots (o : AclObj) (op : Op) (hb : o.boundIsSlots) (hop : noSetMax [op] = true) :
    (o.step op).1.boundIsSlots ∧ (o.step op).2 ≠ .edit .indexError := by
  obtain ⟨_, _, s3, _, s5⟩ := C07_step_state o op
  unfold AclObj.boundIsSlots at hb ⊢
  cases op with
  | add r pos =>
    simp only at s5
    refine ⟨by rw [s5, s3]; exact hb, ?_⟩
    intro h
    have h' : (o.addRule r pos).2 = .indexError := by simpa [AclObj.step] using h
    obtain ⟨a, b, c⟩ := (C07_obj_addRule o r pos).2.1.mp h'
    omega
  | remove pos =>
    simp only at s5
    refine ⟨by rw [s5, s3]; exact hb, ?_⟩
    intro h
    have h' : (o.removeRule pos).2 = .indexError := by simpa [AclObj.step] using h
    obtain ⟨a, b, c⟩ := (C07_obj_removeRule o pos).2.1.mp h'
    omega
  | check p => simp only at s5; exact ⟨by rw [s5, s3]; exact hb, by simp [AclObj.step]⟩
  | setImplicit a => exact ⟨hb, by simp [AclObj.step]⟩
  | setMax n => simp [noSetMax] at hop

/-- As long as `max_acl_rules` is not reassigned, no edit ever ends in `IndexError`: an edit either succeeds or is refused
with `ValueError`, and it succeeds exactly for the positions that exist.  (After `acl.max_acl_rules = n` with `n` above
the built size, positions between the two raise `IndexError` — `C07_index_error_example`.) -/
theorem C07_no_index_error (o : AclObj) (ops : List Op) (hb : o.boundIsSlots) (hops : noSetMax ops = true) :
    (o.run ops).1.boundIsSlots ∧ ∀ x, x ∈ (o.run ops).2 → x ≠ .edit .indexError := by
  induction ops generalizing o with
  | nil => exact ⟨hb, by simp [AclObj.run]⟩
  | cons op rest ih =>
    have h1 : noSetMax [op] = true := by cases op <;> simp_all [noSetMax]
    have h2 : noSetMax rest = true := by cases op <;> simp_all [noSetMax]
    obtain ⟨sb, sa⟩ := step_boundIsSlots o op hb h1
    obtain ⟨rb, ra⟩ := ih (o.step op).1 sb h2
    rw [run_cons]
    refine ⟨rb, ?_⟩
    intro x hx
    simp only [List.mem_cons] at hx
    rcases hx with rfl | hx
    · exact sa
    · exact ra x hx

theorem C07_index_error_example :
    (((AclObj.construct none 25).setMaxRules 30).addRule exRulePermitAll 26).2 = .indexError ∧
    (((AclObj.construct none 25).setMaxRules 30).addRule exRulePermitAll 29).2 = .valueError ∧
    (((AclObj.construct none 25).setMaxRules 10).addRule exRulePermitAll 12).2 = .valueError ∧
    (((AclObj.construct none 25).setMaxRules 10).addRule exRulePermitAll 8).2 = .ok := by decide

example : (AclObj.construct (some .permit) 25).boundIsSlots ∧
    noSetMax [.add exRuleDenyHttp 3, .setImplicit .deny, .check exPkt, .remove 24] = true :=
  ⟨C07_construct_boundIsSlots _ _, by decide⟩

end Primaite.Acl
