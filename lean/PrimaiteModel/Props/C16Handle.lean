/-
Props.C16Handle — kept connection objects (Model.SessionHandle): a connection object somebody holds on to executes a command only
while the session it was opened on is live.

* local objects (`LocalTerminalConnection`): `C16_local_handle_executes_iff`, `C16_local_handle_needs_live_session`,
  `C16_local_ended_stays_ended` (run level: the id of a local session that ended is never the id of the node's local session
  again), `C16_local_handle_dead_for_ever`, and the three ending events as producers of `LocDead`;
* remote objects (`RemoteTerminalConnection`): `C16_remote_handle_outcomes`, `C16_remote_handle_needs_live_session`,
  `C16_request_is_handle_exec` (the request `send_remote_command` IS the handle operation on the first connection towards that
  address), `C16_handle_dead_after_disconnect`, `C16_handle_on_ended_session_runs_nothing` (run level, over sequences that
  themselves contain handle operations);
* tie: `C16_gen_local_execute` / `C16_gen_remote_execute` (the guard clauses of the two `execute` methods TRANSLATED to a Boolean
  function and proved equal to the model's test for all inputs), `C16_gen_handle_plumbing`.
-/
import PrimaiteModel.Model.SessionHandle
import PrimaiteModel.Props.C16Ends
import PrimaiteModel.Props.C16Conn
namespace Primaite.Session

/-! ### tie to the source -/

/-- **Gen, semantic.** `LocalTerminalConnection.execute`, translated from its guard clauses (whatever their order or grouping),
refuses exactly when the model's `handleExecLocalK` does: terminal not RUNNING, or `is_active` false, or the node's current
local session is not the one with this connection's id. -/
theorem C16_gen_local_execute (running active : Bool) (loc : Option Nat) (cid : Nat) :
    Gen.Session.localExecuteRefuses running active loc cid = !(running && active && (loc == some cid)) := by
  unfold Gen.Session.localExecuteRefuses
  cases running <;> cases active <;> cases loc <;> simp <;>
    (rename_i v; by_cases h : v = cid <;> simp [h])

/-- … and `RemoteTerminalConnection.execute` refuses before sending exactly when the terminal is not RUNNING or `is_active` is
false. -/
theorem C16_gen_remote_execute (running active : Bool) :
    Gen.Session.remoteExecuteRefuses running active = !(running && active) := by
  unfold Gen.Session.remoteExecuteRefuses
  cases running <;> cases active <;> simp

/-- what the two methods do when they do not refuse; what the packet of a remote execute carries (the object's OWN
`connection_uuid`, the command); `disconnect()` is `_disconnect` of the object's own id; `_disconnect` deactivates the object it
popped; `is_active` starts True and is only ever set False (terminal.py: in `_disconnect` and on a received `user_timeout`). -/
theorem C16_gen_handle_plumbing :
    Gen.Session.localExecuteRest = ["return self.parent_terminal.execute(command)"] ∧
    Gen.Session.remoteExecuteRest = ["return self.parent_terminal.send(payload=payload, session_id=self.ssh_session_id)"] ∧
    Gen.Session.remoteExecutePacket =
      [("connection_message", "SSHConnectionMessage.SSH_MSG_CHANNEL_DATA"), ("connection_request_uuid", "self.connection_request_id"),
       ("connection_uuid", "self.connection_uuid"), ("ssh_command", "command"),
       ("transport_message", "SSHTransportMessage.SSH_MSG_SERVICE_REQUEST")] ∧
    Gen.Session.connectionDisconnect = ["return self.parent_terminal._disconnect(connection_uuid=self.connection_uuid)"] ∧
    Gen.Session.terminalDisconnectHead =
      ["if not self._connections: return False", "connection = self._connections.pop(connection_uuid, None)",
       "if not connection: return False", "connection.is_active = False"] ∧
    Gen.Session.isActiveDefaults = ["TerminalClientConnection.is_active = True"] ∧
    Gen.Session.isActiveWrites =
      ["simulator/system/applications/database_client.py:DatabaseClient._disconnect: connection.is_active = False",
       "simulator/system/services/terminal/terminal.py:Terminal._disconnect: connection.is_active = False",
       "simulator/system/services/terminal/terminal.py:Terminal.receive: connection.is_active = False"] := by
  decide

/-! ### local connection objects -/

/-- **C16, kept local connection.** The command handed to a kept local connection object is executed iff the terminal is RUNNING,
the object is active and the node's current local session is the one the connection was opened on; otherwise NOTHING changes
anywhere and the answer is `failure`. -/
theorem C16_local_handle_executes_iff (K : Net → Net × Out) (n : Net) (y cid : Nat) (active : Bool) (b : Node)
    (hb : n.node y = some b) :
    (b.term.running = true ∧ active = true ∧ (∃ l, b.loc = some l ∧ l.id = cid) ∧ handleExecLocalK K n y cid active = K n) ∨
    (¬ (b.term.running = true ∧ active = true ∧ ∃ l, b.loc = some l ∧ l.id = cid) ∧
      handleExecLocalK K n y cid active = (n, .failure)) := by
  unfold handleExecLocalK
  simp only [hb]
  split
  · rename_i h1
    exact Or.inr ⟨fun h => by simp [h.1] at h1, rfl⟩
  · rename_i h1
    split
    · rename_i h2
      exact Or.inr ⟨fun h => by simp [h.2.1] at h2, rfl⟩
    · rename_i h2
      split
      · rename_i l hl
        split
        · rename_i hid
          exact Or.inl ⟨by simpa using h1, by simpa using h2, ⟨l, hl, by simpa using hid⟩, rfl⟩
        · rename_i hid
          refine Or.inr ⟨fun h => ?_, rfl⟩
          obtain ⟨_, _, l', h3, h4⟩ := h
          rw [hl] at h3; cases h3
          exact hid (by simp [h4])
      · rename_i hl
        refine Or.inr ⟨fun h => ?_, rfl⟩
        obtain ⟨_, _, l', h3, _⟩ := h
        rw [hl] at h3; cases h3

/-- the id has been handed out and is not the id of node `y`'s local session -/
def LocDead (y cid : Nat) (n : Net) : Prop := cid < n.nextId ∧ ∀ b l, n.node y = some b → b.loc = some l → l.id ≠ cid

/-- **C16, kept local connection, "only while live".** While the local session the connection was opened on is not the node's
current local session (ended by logout, time-out, password change, or replaced by another user's login), a command on the kept
object changes nothing — whatever the object's `is_active` says, whatever the command. -/
theorem C16_local_handle_needs_live_session (K : Net → Net × Out) (n : Net) (y cid : Nat) (active : Bool) (b : Node)
    (hb : n.node y = some b) (hd : ∀ l, b.loc = some l → l.id ≠ cid) :
    handleExecLocalK K n y cid active = (n, .failure) := by
  rcases C16_local_handle_executes_iff K n y cid active b hb with ⟨_, _, ⟨l, hl, hid⟩, _⟩ | ⟨_, h⟩
  · exact (hd l hl hid).elim
  · exact h

theorem locDead_of_locShrink {y cid : Nat} {n m : Net} (h : Net.Rel LocShrink n m) (hid : n.nextId ≤ m.nextId)
    (hd : LocDead y cid n) : LocDead y cid m := by
  refine ⟨Nat.lt_of_lt_of_le hd.1 hid, fun a l ha hl => ?_⟩
  obtain ⟨b, hb, hk⟩ := Net.Rel.back_of_len h ha
  rcases hk with hk | hk
  · exact hd.2 b l hb (hk ▸ hl)
  · rw [hk] at hl; cases hl

theorem locDead_localLogin {y cid : Nat} (n : Net) (y' : Nat) (u p : String) (hd : LocDead y cid n) :
    LocDead y cid (localLogin n y' u p).1 := by
  refine ⟨Nat.lt_of_lt_of_le hd.1 (localLogin_nextId n y' u p), fun a l ha hl => ?_⟩
  have hlen : (localLogin n y' u p).1.nodes.length = n.nodes.length := by
    rcases localLogin_cases n y' u p with h | ⟨nd, _, _, h⟩ <;> rw [h]
    simp [Net.bump, Net.upd, updAt_length]
  have hy : y < n.nodes.length := by rw [← hlen]; exact node_some_lt ha
  obtain ⟨b, hb⟩ : ∃ b, n.node y = some b := ⟨n.nodes[y], by simp [Net.node, hy]⟩
  rcases localLogin_loc n y' u p y b a hb ha with h | ⟨_, _, h⟩
  · exact hd.2 b l hb (h ▸ hl)
  · rw [h] at hl; cases hl
    have := hd.1
    show n.nextId ≠ cid
    omega

theorem atomic_noLocal {c : Cmd} (h : c.atomic = true) : c.noLocal = true := by
  cases c <;> simp_all [Cmd.atomic, Cmd.noLocal]

/-- one request, commands nested to any depth -/
theorem exec_locDead (y cid : Nat) (c : Cmd) (n : Net) (y' : Nat) (hd : LocDead y cid n) : LocDead y cid (execCmd c n y').1 := by
  have F := locShrink_frame
  refine exec_induction (fun n m => LocDead y cid n → LocDead y cid m) (fun _ h => h) (fun _ _ _ h1 h2 h => h2 (h1 h)) ?_ ?_ ?_ ?_ ?_
    c n y' hd
  · intro c hc n y' hd
    exact locDead_of_locShrink (exec_locShrink c (atomic_noLocal hc) n y') (exec_nextId_mono c n y') hd
  · intro n m h hd
    exact locDead_of_locShrink (F.rel_shr F.shr (F.rel_refl n) h) (by rw [h.nextId]; exact Nat.le_refl _) hd
  · intro n y' c t hd
    exact locDead_of_locShrink (F.rel_upd (F.rel_refl n) y' _ (fun _ => Or.inl rfl)) (Nat.le_refl _) hd
  · intro n y' u p hd; exact locDead_localLogin n y' u p hd
  · intro n y' c hd
    exact locDead_of_locShrink (F.rel_upd (F.rel_refl n) y' _ (fun _ => Or.inl rfl)) (Nat.le_refl _) hd

theorem step_locDead (n : Net) (op : Op) (y cid : Nat) (hd : LocDead y cid n) : LocDead y cid (step n op).1 := by
  have F := locShrink_frame
  cases op with
  | req y' c => exact exec_locDead y cid c n y' hd
  | enableUser y' u =>
    exact locDead_of_locShrink (F.toPre.enableUser n y' u (fun _ => Or.inl rfl)) (step_nextId_mono n _) hd
  | addUserBypass y' u p adm =>
    exact locDead_of_locShrink (F.toPre.addUserBypass n y' u p adm (fun _ _ => Or.inl rfl)) (step_nextId_mono n _) hd
  | localLogin y' u p =>
    simp only [step]; rw [opLocalLogin_fst]; exact locDead_localLogin n y' u p hd
  | localLogout y' => exact locDead_of_locShrink (F.localLogout n y') (step_nextId_mono n _) hd
  | tick => exact locDead_of_locShrink (F.tick n) (step_nextId_mono n _) hd
  | setBlock x' y' on => exact locDead_of_locShrink (rel_setBlock F.refl n x' y' on) (step_nextId_mono n _) hd

/-- **C16, ended stays ended (local).** Once an id that has been handed out is not (or no longer) the id of node `y`'s local
session, it never is again, whatever operations follow: a new local session always gets a fresh id. -/
theorem C16_local_ended_stays_ended (ops : List Op) (n : Net) (y cid : Nat) (hd : LocDead y cid n) : LocDead y cid (run n ops) := by
  induction ops generalizing n with
  | nil => exact hd
  | cons op ops ih => exact ih (step n op).1 (step_locDead n op y cid hd)

/-- **C16, a kept local connection is dead for ever.** … so a command on a kept local connection object whose session has ended
changes nothing at any later time, whatever happened in between (the same user logging in again included: that is a new
session with a new id). -/
theorem C16_local_handle_dead_for_ever (ops : List Op) (n : Net) (y cid : Nat) (hd : LocDead y cid n) (K : Net → Net × Out)
    (active : Bool) (b : Node) (hb : (run n ops).node y = some b) :
    handleExecLocalK K (run n ops) y cid active = (run n ops, .failure) :=
  C16_local_handle_needs_live_session K (run n ops) y cid active b hb
    (fun l hl => (C16_local_ended_stays_ended ops n y cid hd).2 b l hb hl)

/-- the three ending events produce `LocDead` (the id of a listed local session is below the counter in every reachable state:
`ConnInv.locIds`, `C16_conn_inv_run`) -/
theorem C16_local_handle_dead_after_timeout (n : Net) (y : Nat) (b : Node) (l : LSession) (hb : n.node y = some b)
    (hl : b.loc = some l) (hid : l.id < n.nextId) (hexp : l.last + b.localTimeout ≤ n.time + 1) : LocDead y l.id (tick n) := by
  refine ⟨by rw [tick_nextId]; exact hid, fun a l' ha hl' => ?_⟩
  obtain ⟨a', ha', hnone⟩ := C16_local_session_ends_at_timeout n y b l hb hl hexp
  rw [ha] at ha'; cases ha'
  rw [hnone] at hl'; cases hl'

theorem C16_local_handle_dead_after_password_change (n : Net) (y : Nat) (u old new : String) (b : Node) (l : LSession)
    (hb : n.node y = some b) (hl : b.loc = some l) (hu : l.user = u) (hid : l.id < n.nextId)
    (h : (step n (.req y (.changePassword u old new))).2 = .success) :
    LocDead y l.id (step n (.req y (.changePassword u old new))).1 := by
  refine ⟨Nat.lt_of_lt_of_le hid (step_nextId_mono n _), fun a l' ha hl' => ?_⟩
  have hends := (C16_password_change_ends_sessions n y u old new h a ha).2 l' hl'
  have hrel : Net.Rel LocShrink n (step n (.req y (.changePassword u old new))).1 :=
    exec_locShrink (.changePassword u old new) rfl n y
  obtain ⟨b', hb', hk⟩ := Net.Rel.back_of_len hrel ha
  rw [hb] at hb'; cases hb'
  rcases hk with hk | hk
  · rw [hk, hl] at hl'; cases hl'; exact (hends hu).elim
  · rw [hk] at hl'; cases hl'

theorem C16_local_handle_dead_after_logout (n : Net) (y : Nat) (b : Node) (l : LSession) (hb : n.node y = some b)
    (hl : b.loc = some l) (hid : l.id < n.nextId) (h : (step n (.localLogout y)).2 = .success) :
    LocDead y l.id (step n (.localLogout y)).1 := by
  refine ⟨Nat.lt_of_lt_of_le hid (step_nextId_mono n _), fun a l' ha hl' => ?_⟩
  simp only [step, opLocalLogout, hb] at h ha
  split at h
  · rename_i hc
    simp only [hc, if_true] at ha
    simp only [node_upd, if_true, hb, Option.map_some, Option.some.injEq] at ha
    subst ha
    have hcu : b.canUsm = true := by simp only [Bool.and_eq_true] at hc; exact hc.1
    simp only [Node.localLogout, hcu, if_true, Node.clearLoc] at hl'
    cases hl'
  · cases h

/-! ### remote connection objects -/

/-- the three outcomes of `execute` on a kept remote connection object -/
theorem C16_remote_handle_outcomes (K : Net → Net × Out) (n : Net) (x y cid : Nat) :
    ((handleExecRemoteK K n x y cid).1 = n ∧ (handleExecRemoteK K n x y cid).2 ≠ .success) ∨
    (∃ a b, n.node x = some a ∧ n.node y = some b ∧ a.isOn = true ∧ a.term.running = true ∧ a.hasConn cid = true ∧
        canDeliver n x y = true ∧
      ((b.hasSession cid = true ∧ b.hasConn cid = true ∧
          (handleExecRemoteK K n x y cid).1 = (K (n.upd y (Node.touch cid n.time))).1 ∧
          ((handleExecRemoteK K n x y cid).2 = .success → (K (n.upd y (Node.touch cid n.time))).2 = .success)) ∨
       (b.hasSession cid = false ∧ (handleExecRemoteK K n x y cid).1 = disconnect n.fuel n y cid ∧
          (handleExecRemoteK K n x y cid).2 = .failure))) := by
  unfold handleExecRemoteK
  split
  · exact Or.inl ⟨rfl, by simp⟩
  · rename_i a ha
    split
    · exact Or.inl ⟨rfl, by simp⟩
    · rename_i h1
      split
      · exact Or.inl ⟨rfl, by simp⟩
      · rename_i h2
        split
        · exact Or.inl ⟨rfl, by simp⟩
        · rename_i h3
          split
          · exact Or.inl ⟨rfl, by simp⟩
          · rename_i h4
            split
            · exact Or.inl ⟨rfl, by simp⟩
            · rename_i b hb
              have pre : a.isOn = true ∧ a.term.running = true ∧ a.hasConn cid = true ∧ canDeliver n x y = true :=
                ⟨by simpa using h3, by simpa using h1, by simpa using h2, by simpa using h4⟩
              split
              · rename_i h5
                split
                · rename_i h6
                  refine Or.inr ⟨a, b, ha, hb, pre.1, pre.2.1, pre.2.2.1, pre.2.2.2, Or.inl ⟨h5, h6, rfl, ?_⟩⟩
                  dsimp only
                  split
                  · exact id
                  · intro h; cases h
                · exact Or.inl ⟨rfl, by simp⟩
              · rename_i h5
                exact Or.inr ⟨a, b, ha, hb, pre.1, pre.2.1, pre.2.2.1, pre.2.2.2, Or.inr ⟨by simpa using h5, rfl, rfl⟩⟩

/-- **C16, kept remote connection, "only while live".** A command on a kept remote connection object whose id is not (or no
longer) a remote session of the target is never executed: sessions / connections may be torn down, every node's files, users,
power and services are as before, and the answer is not `success` — whatever the object's state, whatever the command. -/
theorem C16_remote_handle_needs_live_session (K : Net → Net × Out) (n : Net) (x y cid : Nat)
    (hdead : ∀ b, n.node y = some b → b.hasSession cid = false) :
    n.Shr (handleExecRemoteK K n x y cid).1 ∧ (handleExecRemoteK K n x y cid).2 ≠ .success := by
  rcases C16_remote_handle_outcomes K n x y cid with ⟨h0, h1⟩ | ⟨a, b, _, hb, _, _, _, _, ⟨hs, _⟩ | ⟨_, h0, h1⟩⟩
  · rw [h0]; exact ⟨Net.Shr.refl _, h1⟩
  · rw [hdead b hb] at hs; cases hs
  · rw [h0, h1]; exact ⟨shr_disconnect _ _ _ _, by simp⟩

/-- **C16, the request is the handle operation.** `send_remote_command ip(y)` on an ON node is `execute` on the FIRST connection
object towards `y` in the dictionary: every theorem about the request speaks about this operation, and the handle operation adds
exactly the other connection objects. -/
theorem C16_request_is_handle_exec (K : Net → Net × Out) (n : Net) (x y : Nat) (a : Node) (c : Conn) (ha : n.node x = some a)
    (hon : a.isOn = true) (hc : a.conns.find? (fun c => c.peer == some y) = some c) :
    opRemoteCmdK K n x y = handleExecRemoteK K n x y c.id := by
  have hmem : c ∈ a.conns := List.mem_of_find?_eq_some hc
  have hconn : a.hasConn c.id = true := by
    unfold Node.hasConn; exact List.any_eq_true.mpr ⟨c, hmem, by simp⟩
  unfold opRemoteCmdK handleExecRemoteK
  simp only [ha, hon, hc, hconn, Bool.not_true, Bool.false_eq_true, if_false]
  cases n.node y <;> rfl

/-- `_disconnect` of an id removes it from that node's dictionary, whatever else happens -/
theorem disconnect_noConn (n : Net) (x cid : Nat) (a' : Node) (ha' : (disconnect n.fuel n x cid).node x = some a') :
    a'.hasConn cid = false := by
  obtain ⟨a, ha, hs⟩ := (shr_disconnect n.fuel n x cid).back ha'
  cases hf : a.conns.find? (fun d => d.id == cid) with
  | none =>
    have : a.hasConn cid = false := by
      unfold Node.hasConn
      cases hany : a.conns.any (fun c => c.id == cid) with
      | false => rfl
      | true =>
        obtain ⟨c, hc, hcc⟩ := List.any_eq_true.mp hany
        have := List.find?_eq_none.mp hf c hc
        exact (this hcc).elim
    exact noConn_of_shr hs cid this
  | some c =>
    obtain ⟨b1, hb1, hs1⟩ := (disconnect_drops n x cid a c ha hf).back ha'
    simp only [node_upd, if_true, ha, Option.map_some, Option.some.injEq] at hb1
    subst hb1
    exact noConn_of_shr hs1 cid (dropConn_noConn a cid)

/-- **C16, logoff on a kept connection.** After `disconnect()` on a kept remote connection object, a command on that object
changes nothing and is answered `failure` — whether or not the disconnect message reached the target (path blocked, target's
terminal or session manager down: the target may still list the session until its time-out, but THIS object cannot use it). -/
theorem C16_handle_dead_after_disconnect (K : Net → Net × Out) (n : Net) (x y cid : Nat) :
    handleExecRemoteK K (handleDisconnect n x cid).1 x y cid = ((handleDisconnect n x cid).1, .failure) ∨
    handleExecRemoteK K (handleDisconnect n x cid).1 x y cid = ((handleDisconnect n x cid).1, .unreachable) := by
  unfold handleDisconnect
  cases ha : n.node x with
  | none =>
    dsimp only
    right
    unfold handleExecRemoteK
    simp only [ha]
  | some a =>
    dsimp only
    left
    cases ha' : (disconnect n.fuel n x cid).node x with
    | none =>
      have := (shr_disconnect n.fuel n x cid).node x a ha
      obtain ⟨b, hb, _⟩ := this
      rw [ha'] at hb; cases hb
    | some a' =>
      have hno := disconnect_noConn n x cid a' ha'
      unfold handleExecRemoteK
      simp only [ha', hno, Bool.not_false, if_true]
      split <;> rfl

/-! ### sequences that themselves contain handle operations -/

theorem hstep_dead (h : HNet) (op : HOp) (y cid : Nat) (hd : Dead y cid h.net) : Dead y cid (hstep h op).1.net := by
  have shrDead : ∀ m : Net, h.net.Shr m → Dead y cid m := fun m hs =>
    dead_of_remShrink (remShrink_frame.rel_shr remShrink_frame.shr (remShrink_frame.rel_refl h.net) hs)
      (by rw [hs.nextId]; exact Nat.le_refl _) hd
  cases op with
  | base op => exact step_dead_stays_dead h.net op y cid hd
  | take x i =>
    simp only [hstep]
    split
    · exact hd
    · split
      · exact hd
      · split <;> exact hd
  | hexec k c =>
    simp only [hstep]
    split
    · exact hd
    · rename_i x cn _
      split
      · -- local object: nothing, or the command as a request of its node
        rename_i hp
        cases hb : h.net.node x with
        | none => simp only [handleExecLocalK, hb]; exact hd
        | some b =>
          rcases C16_local_handle_executes_iff (fun m => execCmd c m x) h.net x cn.id true b hb with ⟨_, _, _, h0⟩ | ⟨_, h0⟩
          · rw [h0]; exact step_dead_stays_dead h.net (.req x c) y cid hd
          · rw [h0]; exact hd
      · rename_i y' hp
        rcases C16_remote_handle_outcomes (fun m => execCmd c m y') h.net x y' cn.id with
          ⟨h0, _⟩ | ⟨a, b, _, _, _, _, _, _, ⟨_, _, h0, _⟩ | ⟨_, h0, _⟩⟩
        · show Dead y cid (handleExecRemoteK _ h.net x y' cn.id).1
          rw [h0]; exact hd
        · show Dead y cid (handleExecRemoteK _ h.net x y' cn.id).1
          rw [h0]
          have h1 : Dead y cid (h.net.upd y' (Node.touch cn.id h.net.time)) :=
            dead_of_remShrink (remShrink_frame.rel_upd (remShrink_frame.rel_refl h.net) y' _
              (fun a => remShrink_edits.touch y' a cn.id h.net.time)) (Nat.le_refl _) hd
          exact step_dead_stays_dead _ (.req y' c) y cid h1
        · show Dead y cid (handleExecRemoteK _ h.net x y' cn.id).1
          rw [h0]; exact shrDead _ (shr_disconnect _ _ _ _)
  | hdisc k =>
    simp only [hstep]
    split
    · exact hd
    · rename_i x cn _
      split
      · exact hd
      · show Dead y cid (handleDisconnect h.net x cn.id).1
        unfold handleDisconnect
        split
        · exact hd
        · exact shrDead _ (shr_disconnect _ _ _ _)

theorem hrun_dead (ops : List HOp) (h : HNet) (y cid : Nat) (hd : Dead y cid h.net) : Dead y cid (hrun h ops).net := by
  induction ops generalizing h with
  | nil => exact hd
  | cons op ops ih => exact ih (hstep h op).1 (hstep_dead h op y cid hd)

/-- **C16, kept connections and ended sessions (run level).** Once the id of a session is no longer a remote session of the
target `y` (logoff, time-out, password change, direct logout), then after ANY sequence of operations — requests, ticks AND
operations on kept connection objects — a command on a kept connection object carrying that id is never executed: nothing but
sessions / connections being torn down happens, and the answer is not `success`. -/
theorem C16_handle_on_ended_session_runs_nothing (ops : List HOp) (h : HNet) (y cid : Nat) (hd : Dead y cid h.net)
    (K : Net → Net × Out) (x : Nat) :
    (hrun h ops).net.Shr (handleExecRemoteK K (hrun h ops).net x y cid).1 ∧
    (handleExecRemoteK K (hrun h ops).net x y cid).2 ≠ .success :=
  C16_remote_handle_needs_live_session K (hrun h ops).net x y cid (hrun_dead ops h y cid hd).2

/-! ### the request `send_local_command` goes through the same (repaired) test -/

theorem localLogin_term {n : Net} {y : Nat} {u p : String} {nd b : Node} (hnd : n.node y = some nd)
    (hb : (localLogin n y u p).1.node y = some b) : b.term = nd.term := by
  rcases localLogin_cases n y u p with h | ⟨nd', hnd', _, h⟩ <;> rw [h] at hb
  · rw [hnd] at hb; cases hb; rfl
  · rw [hnd] at hnd'; cases hnd'
    simp only [node_bump, node_upd, if_true, hnd, Option.map_some, Option.some.injEq] at hb
    subst hb
    rcases localLoginCore_fst nd u n.time n.nextId with ⟨h1, _⟩ | ⟨h1, _⟩ <;> rw [h1]
    rfl

/-- **C16, the local command request is the handle operation.** `send_local_command u p {command}` logs in with the supplied
credentials, puts a fresh connection object for the session into the dictionary and calls ITS `execute`: with the repaired
`execute` (which also asks whether the node's current local session is the connection's) the request behaves exactly as the
model's `opLocalCmdK` says — right after the login the session is the node's current one, so the new test always passes here,
and only kept objects ever fail it. -/
theorem C16_local_command_is_handle_exec (K : Net → Net × Out) (n : Net) (y : Nat) (u p : String) (nd : Node) (id : Nat)
    (hnd : n.node y = some nd) (hon : nd.isOn = true) (hid : (localLogin n y u p).2 = some id) :
    (opLocalCmdK K n y u p).1 =
      (handleExecLocalK K ((localLogin n y u p).1.upd y (Node.addConn ⟨id, none⟩)) y id true).1 := by
  obtain ⟨b, l, hb, hl, hlid⟩ := localLogin_id hid
  have hterm := localLogin_term hnd hb
  have hm : ((localLogin n y u p).1.upd y (Node.addConn ⟨id, none⟩)).node y = some (b.addConn ⟨id, none⟩) := by
    simp only [node_upd, if_true, hb, Option.map_some]
  unfold opLocalCmdK handleExecLocalK
  simp only [hnd, hon, hid, hm, Bool.not_true, Bool.false_eq_true, if_false]
  have h1 : (b.addConn ⟨id, none⟩).term = nd.term := hterm
  have h2 : (b.addConn ⟨id, none⟩).loc = some l := hl
  rw [h1, h2]
  cases hr : nd.term.running
  · simp
  · simp [hlid]

theorem hstep_locDead (h : HNet) (op : HOp) (y cid : Nat) (hd : LocDead y cid h.net) : LocDead y cid (hstep h op).1.net := by
  have F := locShrink_frame
  have shrDead : ∀ m : Net, h.net.Shr m → LocDead y cid m := fun m hs =>
    locDead_of_locShrink (F.rel_shr F.shr (F.rel_refl h.net) hs) (by rw [hs.nextId]; exact Nat.le_refl _) hd
  cases op with
  | base op => exact step_locDead h.net op y cid hd
  | take x i =>
    simp only [hstep]
    split
    · exact hd
    · split
      · exact hd
      · split <;> exact hd
  | hexec k c =>
    simp only [hstep]
    split
    · exact hd
    · rename_i x cn _
      split
      · cases hb : h.net.node x with
        | none => simp only [handleExecLocalK, hb]; exact hd
        | some b =>
          rcases C16_local_handle_executes_iff (fun m => execCmd c m x) h.net x cn.id true b hb with ⟨_, _, _, h0⟩ | ⟨_, h0⟩
          · rw [h0]; exact exec_locDead y cid c h.net x hd
          · rw [h0]; exact hd
      · rename_i y' hp
        rcases C16_remote_handle_outcomes (fun m => execCmd c m y') h.net x y' cn.id with
          ⟨h0, _⟩ | ⟨a, b, _, _, _, _, _, _, ⟨_, _, h0, _⟩ | ⟨_, h0, _⟩⟩
        · show LocDead y cid (handleExecRemoteK _ h.net x y' cn.id).1
          rw [h0]; exact hd
        · show LocDead y cid (handleExecRemoteK _ h.net x y' cn.id).1
          rw [h0]
          have h1 : LocDead y cid (h.net.upd y' (Node.touch cn.id h.net.time)) :=
            locDead_of_locShrink (F.rel_upd (F.rel_refl h.net) y' _ (fun _ => Or.inl rfl)) (Nat.le_refl _) hd
          exact exec_locDead y cid c _ y' h1
        · show LocDead y cid (handleExecRemoteK _ h.net x y' cn.id).1
          rw [h0]; exact shrDead _ (shr_disconnect _ _ _ _)
  | hdisc k =>
    simp only [hstep]
    split
    · exact hd
    · rename_i x cn _
      split
      · exact hd
      · show LocDead y cid (handleDisconnect h.net x cn.id).1
        unfold handleDisconnect
        split
        · exact hd
        · exact shrDead _ (shr_disconnect _ _ _ _)

theorem hrun_locDead (ops : List HOp) (h : HNet) (y cid : Nat) (hd : LocDead y cid h.net) : LocDead y cid (hrun h ops).net := by
  induction ops generalizing h with
  | nil => exact hd
  | cons op ops ih => exact ih (hstep h op).1 (hstep_locDead h op y cid hd)

/-- **C16, a kept local connection is dead for ever (sequences with handle operations).** Once the local session a kept local
connection was opened on has ended, then after ANY sequence of operations — requests, ticks, logins of the same user, and
operations on kept objects — a command on that object changes nothing and is answered `failure`. -/
theorem C16_kept_local_connection_dead_for_ever (ops : List HOp) (h : HNet) (y cid : Nat) (hd : LocDead y cid h.net)
    (K : Net → Net × Out) (active : Bool) (b : Node) (hb : (hrun h ops).net.node y = some b) :
    handleExecLocalK K (hrun h ops).net y cid active = ((hrun h ops).net, .failure) :=
  C16_local_handle_needs_live_session K (hrun h ops).net y cid active b hb
    (fun l hl => (hrun_locDead ops h y cid hd).2 b l hb hl)

/-! ### the reachable-state invariant survives handle operations -/

/-- **C16, one client per id — also across operations on kept objects.** `ConnInv` (connection ids below the counter, two nodes
holding the same id are each other's peers, a local-session id is nobody else's) is kept by `take` / `hexec` / `hdisc`, so every
theorem stated for reachable states (`C16_one_client_per_id`, `C16_logoff_drops_client`, the orphan invariant) holds in every state
reached by sequences that contain handle operations. -/
theorem hstep_connInv (h : HNet) (op : HOp) (hi : ConnInv h.net) : ConnInv (hstep h op).1.net := by
  have F := connShr_frame
  have shrInv : ∀ m : Net, h.net.Shr m → ConnInv m := fun m hs =>
    connInv_of_rel (F.rel_shr F.shr (F.rel_refl h.net) hs) (by rw [hs.nextId]; exact Nat.le_refl _) hi
  cases op with
  | base op => exact C16_conn_inv_step h.net op hi
  | take x i =>
    simp only [hstep]
    split
    · exact hi
    · split
      · exact hi
      · split <;> exact hi
  | hexec k c =>
    simp only [hstep]
    split
    · exact hi
    · rename_i x cn _
      split
      · cases hb : h.net.node x with
        | none => simp only [handleExecLocalK, hb]; exact hi
        | some b =>
          rcases C16_local_handle_executes_iff (fun m => execCmd c m x) h.net x cn.id true b hb with ⟨_, _, _, h0⟩ | ⟨_, h0⟩
          · rw [h0]; exact C16_conn_inv_step h.net (.req x c) hi
          · rw [h0]; exact hi
      · rename_i y' hp
        rcases C16_remote_handle_outcomes (fun m => execCmd c m y') h.net x y' cn.id with
          ⟨h0, _⟩ | ⟨a, b, _, _, _, _, _, _, ⟨_, _, h0, _⟩ | ⟨_, h0, _⟩⟩
        · show ConnInv (handleExecRemoteK _ h.net x y' cn.id).1
          rw [h0]; exact hi
        · show ConnInv (handleExecRemoteK _ h.net x y' cn.id).1
          rw [h0]
          have h1 : ConnInv (h.net.upd y' (Node.touch cn.id h.net.time)) :=
            connInv_of_rel (F.rel_upd (F.rel_refl h.net) y' _ (fun _ => ⟨List.Sublist.refl _, Or.inl rfl⟩)) (Nat.le_refl _) hi
          exact C16_conn_inv_step _ (.req y' c) h1
        · show ConnInv (handleExecRemoteK _ h.net x y' cn.id).1
          rw [h0]; exact shrInv _ (shr_disconnect _ _ _ _)
  | hdisc k =>
    simp only [hstep]
    split
    · exact hi
    · rename_i x cn _
      split
      · exact hi
      · show ConnInv (handleDisconnect h.net x cn.id).1
        unfold handleDisconnect
        split
        · exact hi
        · exact shrInv _ (shr_disconnect _ _ _ _)

theorem hrun_connInv (ops : List HOp) (h : HNet) (hi : ConnInv h.net) : ConnInv (hrun h ops).net := by
  induction ops generalizing h with
  | nil => exact hi
  | cons op ops ih => exact ih (hstep h op).1 (hstep_connInv h op hi)

/-! ### non-vacuity -/

def hdemo : HNet := { net := { nodes := [{}, {}] } }
def hLogin : HOp := .base (.req 0 (.remoteLogin 1 "admin" "admin"))

-- two connections from node 0 to node 1; the SECOND one is kept, used (file 7 appears on node 1), disconnected, and dead afterwards
example : ((hrun hdemo [hLogin, hLogin, .take 0 1, .hexec 0 (.file 7)]).net.node 1).map (·.files) = some [7] := by decide
example : ((hrun hdemo [hLogin, hLogin, .take 0 1, .hdisc 0, .hexec 0 (.file 7)]).net.node 1).map (·.files) = some [] := by decide
-- the request still uses the first connection, which is alive
example : ((hrun hdemo [hLogin, hLogin, .take 0 1, .hdisc 0, .base (.req 0 (.remoteCmd 1 (.file 8)))]).net.node 1).map (·.files)
    = some [8] := by decide
-- a logoff that does not get through: the target's session manager is stopped (row 1) / the path is blocked (row 2) when the kept second
-- connection is disconnected: the target still lists BOTH sessions, yet the kept object runs nothing afterwards (no file on node 1)
example : ((hrun hdemo [hLogin, hLogin, .take 0 1, .base (.req 1 (.svc .sessionManager .stop)), .hdisc 0, .hexec 0 (.file 7)]).net.node 1).map
    (fun b => (b.rem.length, b.files)) = some (2, []) := by decide
example : ((hrun { net := { nodes := [{}, {}], hairpin := true } } [hLogin, hLogin, .take 0 1, .base (.setBlock 0 1 true), .hdisc 0,
    .base (.setBlock 0 1 false), .hexec 0 (.file 7), .base (.req 0 (.remoteCmd 1 (.file 8)))]).net.node 1).map
    (fun b => (b.rem.length, b.files)) = some (2, [8]) := by decide
-- a kept LOCAL connection: works while its session is the node's local session, dead after a password change — and after the same
-- user logged in again with the new password (a new session)
def lcmd0 : HOp := .base (.req 0 (.localCmd "admin" "admin" (.file 1)))
example : ((hrun hdemo [lcmd0, .take 0 0, .hexec 0 (.file 2)]).net.node 0).map (·.files) = some [1, 2] := by decide
example : ((hrun hdemo [lcmd0, .take 0 0, .base (.req 0 (.changePassword "admin" "admin" "x")), .hexec 0 (.file 2),
    .base (.localLogin 0 "admin" "x"), .hexec 0 (.file 3)]).net.node 0).map (·.files) = some [1] := by decide
-- the hypotheses of `C16_local_handle_dead_for_ever` are met after a password change: id 0 was handed out, no local session is left
example : (run hdemo.net [.localLogin 0 "admin" "admin", .req 0 (.changePassword "admin" "admin" "x")]).nextId = 1 ∧
    ((run hdemo.net [.localLogin 0 "admin" "admin", .req 0 (.changePassword "admin" "admin" "x")]).node 0).map (·.loc) = some none := by
  decide

end Primaite.Session
