/-
C08 — ICMP: `ICMP.ping`, `ICMP._send_icmp_echo_request`, `ICMP._process_icmp_echo_request` and `RouterICMP._process_icmp_echo_request`
(behind the enabled-own-address guard of `RouterICMP.receive`) are TRANSLATED (Gen/ForwardIcmp.lean: `ping`, `sendEcho`,
`hostProcessEcho`, `routerProcessEcho`) into small programs; the interpreters below give every instruction the one model primitive it
stands for (`resolveOut`, `sendIcmp`, `replyCount`, `isLoopback`, the node's `on` flag and interface list).
`C08_gen_icmp_ping`: the model's `ping` IS the interpreted program, for every state, node, target (loopback or not), count and fuel.
`C08_gen_icmp_send_echo`: one activation of the translated `_send_icmp_echo_request` is one step of the model's loop.
`C08_gen_icmp_process_echo_host / _router`: the echo-request branch of `hostRecv` / `routerRecv` is the interpreted program.
`C08_ping_loopback*`: a ping to 127.0.0.0/8 sends nothing, changes nothing, and answers "some interface is enabled".

Abstractions of the interpreter (stated, not hidden):
* the identifier: `ICMPPacket(identifier=None)` draws a random one when the first packet is built; the model RESERVES a fresh one at
  `initSeq` (`st.nextId`, which no earlier ping used) and `mkRequest` uses it when the identifier is still None;
* `popCounter` (the counter of a finished ping is removed from `request_replies`) has no effect in the model: identifiers are fresh,
  a finished ping's counter is never read again;
* `whileSend` runs the body at most `pings` times, each time after the test `sequence < pings`; every activation raises `sequence`
  (by one, or to `pings`), so this is the `while` loop (`whileSend_exits`: the test is false afterwards).
-/
import PrimaiteModel.Model.Forward
import PrimaiteModel.Gen.ForwardIcmp
import PrimaiteModel.Props.C08FuelMono
namespace Primaite.Forward
open Primaite.Route
open Primaite.Gen.ForwardIcmp (Cmp PProg SProg EProg)
namespace GI
export Primaite.Gen.ForwardIcmp (sendEcho hostProcessEcho routerProcessEcho)
/-- the translated `ICMP.ping` -/
abbrev pingProg : PProg := Primaite.Gen.ForwardIcmp.ping
end GI

/-! ### loopback -/

/-- **Loopback ping.**  A powered-on node pinging any address of 127.0.0.0/8: NOTHING is sent — the whole state (every node, the
log, the identifier counter, the out-of-fuel mark) is exactly what it was — and the answer is "some interface of the node is
enabled".  For every state, node, count and fuel. -/
theorem C08_ping_loopback (fuel : Nat) (st : St) (n : Nat) (nd : Node) (target : Ip) (pings : Nat)
    (hn : st.node? n = some nd) (hon : nd.on = true) (hlo : isLoopback target = true) :
    ping fuel st n target pings = (st, nd.ifaces.any (·.enabled)) := by
  simp only [ping, hn, hon, hlo, Bool.not_true, Bool.false_eq_true, if_false, if_true]

/-- … a powered-off node (its services are stopped: `_can_perform_action`) gets `False`, also for a loopback address. -/
theorem C08_ping_loopback_off (fuel : Nat) (st : St) (n : Nat) (nd : Node) (target : Ip) (pings : Nat)
    (hn : st.node? n = some nd) (hoff : nd.on = false) :
    ping fuel st n target pings = (st, false) := by
  simp only [ping, hn, hoff, Bool.not_false, if_true]

/-- … and whatever the node is, a loopback ping leaves the state untouched: in particular it never runs out of fuel
(termination is unaffected), with ANY fuel, even 0. -/
theorem C08_ping_loopback_state (fuel : Nat) (st : St) (n : Nat) (target : Ip) (pings : Nat) (hlo : isLoopback target = true) :
    (ping fuel st n target pings).1 = st := by
  unfold ping
  split
  · rfl
  · split
    · rfl
    · simp only [hlo, if_true]

theorem C08_ping_loopback_terminates (fuel : Nat) (st : St) (n : Nat) (target : Ip) (pings : Nat) (hlo : isLoopback target = true)
    (hok : st.oof = false) : (ping fuel st n target pings).1.oof = false := by
  rw [C08_ping_loopback_state fuel st n target pings hlo]; exact hok

/-- 127.0.0.1, 127.10.11.12, 127.255.255.255 are loopback; 126.255.255.255, 128.0.0.0, 192.168.1.2 are not. -/
example : isLoopback 0x7F000001#32 = true ∧ isLoopback 0x7F0A0B0C#32 = true ∧ isLoopback 0x7FFFFFFF#32 = true ∧
    isLoopback 0x7EFFFFFF#32 = false ∧ isLoopback 0x80000000#32 = false ∧ isLoopback 0xC0A80102#32 = false := by decide

/-! ### `_send_icmp_echo_request` -/

/-- interpreter of the translated `_send_icmp_echo_request`; locals: `nic` (the resolved interface), `pkt` (the identifier of the
packet built); `fresh`: what a None identifier becomes.  Result: the state, and the returned (sequence, identifier). -/
def runS (fuel n : Nat) (target : Ip) (pings fresh : Nat) : SProg → St → Nat → Option Nat → Option Nat → Option Nat → St × Nat × Option Nat
  | .resolveNic k, st, seq, id, _, pkt => let r := resolveOut fuel st n target; runS fuel n target pings fresh k r.1 seq id r.2 pkt
  | .ifNoNic a b, st, seq, id, nic, pkt =>
    if nic.isNone then runS fuel n target pings fresh a st seq id nic pkt else runS fuel n target pings fresh b st seq id nic pkt
  | .retPingsNone, st, _, _, _, _ => (st, pings, none)
  | .incSeq k, st, seq, id, nic, pkt => runS fuel n target pings fresh k st (seq + 1) id nic pkt
  | .mkRequest k, st, seq, id, nic, _ => runS fuel n target pings fresh k st seq id nic (some (id.getD fresh))
  | .handOver k, st, seq, id, nic, pkt =>
    match pkt with
    | some p => runS fuel n target pings fresh k (sendIcmp fuel st n target (.echoReq p)) seq id nic pkt
    | none => runS fuel n target pings fresh k st seq id nic pkt
  | .retSeqIdent, st, seq, _, _, pkt => (st, seq, pkt)

/-- **Gen obligation**: one activation of the translated `_send_icmp_echo_request` is one step of the model's loop (`pingStep`, the
body of the fold in `ping`): resolve the outbound interface; none → nothing is sent, the sequence jumps to `pings` and the identifier is
lost; else ONE echo request with the (kept or fresh) identifier is handed to the session manager for `target`, sequence + 1. -/
theorem C08_gen_icmp_send_echo (fuel n : Nat) (target : Ip) (pings fresh : Nat) (st : St) (seq : Nat) (id : Option Nat) :
    runS fuel n target pings fresh GI.sendEcho st seq id none none =
      ((pingStep fuel n target (id.getD fresh) (st, true)).1,
        if (pingStep fuel n target (id.getD fresh) (st, true)).2 then seq + 1 else pings,
        if (pingStep fuel n target (id.getD fresh) (st, true)).2 then some (id.getD fresh) else none) := by
  simp only [Gen.ForwardIcmp.sendEcho, runS, pingStep, Bool.not_true, Bool.false_eq_true, if_false]
  cases (resolveOut fuel st n target).2 <;> simp

/-! ### `ping` -/

/-- `passed = request_replies <op> pings` (`request_replies` may be None) -/
def cmpOp (p : Nat) : Cmp → Option Nat → Bool
  | .eq, c => c == some p
  | .ne, c => c != some p
  | .ge, some k => decide (p ≤ k)
  | .le, some k => decide (k ≤ p)
  | .gt, some k => decide (p < k)
  | .lt, some k => decide (k < p)
  | _, none => false

/-- the `while` test and one activation of the translated `_send_icmp_echo_request` -/
def stepW (fuel n : Nat) (target : Ip) (pings fresh : Nat) (a : St × Nat × Option Nat) : St × Nat × Option Nat :=
  if a.2.1 < pings then runS fuel n target pings fresh GI.sendEcho a.1 a.2.1 a.2.2 none none else a

/-- interpreter of the translated `ICMP.ping`; locals: `seq`, `id` (sequence, identifier), `fresh` (the identifier reserved for this
ping), `rep` (`request_replies`), `passed`. -/
def runP (fuel n : Nat) (target : Ip) (pings : Nat) : PProg → St → Nat → Option Nat → Nat → Option Nat → Bool → St × Bool
  | .guardCanPerform k, st, seq, id, fresh, rep, passed =>
    match st.node? n with
    | none => (st, false)
    | some nd => if !nd.on then (st, false) else runP fuel n target pings k st seq id fresh rep passed
  | .ifLoopback r k, st, seq, id, fresh, rep, passed =>
    if isLoopback target then runP fuel n target pings r st seq id fresh rep passed else runP fuel n target pings k st seq id fresh rep passed
  | .retConst b, st, _, _, _, _, _ => (st, b)
  | .retAnyEnabled, st, _, _, _, _, _ => (st, ((st.node? n).map (fun nd => nd.ifaces.any (·.enabled))).getD false)
  | .retAllEnabled, st, _, _, _, _, _ => (st, ((st.node? n).map (fun nd => nd.ifaces.all (·.enabled))).getD false)
  | .initSeq k, st, _, _, _, rep, passed => runP fuel n target pings k { st with nextId := st.nextId + 1 } 0 none st.nextId rep passed
  | .whileSend k, st, seq, id, fresh, rep, passed =>
    let r := (List.range pings).foldl (fun a _ => stepW fuel n target pings fresh a) (st, seq, id)
    runP fuel n target pings k r.1 r.2.1 r.2.2 fresh rep passed
  | .readReplies k, st, seq, id, fresh, _, passed =>
    runP fuel n target pings k st seq id fresh
      (match st.node? n, id with
       | some nd, some i => replyCount nd.replies i
       | _, _ => none) passed
  | .setPassed op k, st, seq, id, fresh, rep, _ => runP fuel n target pings k st seq id fresh rep (cmpOp pings op rep)
  | .popCounter k, st, seq, id, fresh, rep, passed => runP fuel n target pings k st seq id fresh rep passed
  | .retPassed, st, _, _, _, _, passed => (st, passed)

theorem stepW_done (fuel n : Nat) (target : Ip) (pings fresh : Nat) (l : List Nat) (st : St) :
    l.foldl (fun a _ => stepW fuel n target pings fresh a) (st, pings, none) = (st, pings, none) := by
  induction l with
  | nil => rfl
  | cons x xs ih => simp only [List.foldl_cons, stepW, Nat.lt_irrefl, if_false]; exact ih

theorem pingStep_done (fuel n : Nat) (target : Ip) (ident : Nat) (l : List Nat) (st : St) :
    l.foldl (fun a _ => pingStep fuel n target ident a) (st, false) = (st, false) := by
  induction l with
  | nil => rfl
  | cons x xs ih => simp only [List.foldl_cons, pingStep, Bool.not_false, if_true]; exact ih

/-- the bounded loop of the interpreter and the fold of the model walk in step: same state; the identifier survives exactly when the
model's flag does; and the sequence ends at `pings` (the `while` test is false). -/
theorem loop_eq (fuel n : Nat) (target : Ip) (pings ident fresh : Nat) (l : List Nat) :
    ∀ (st : St) (seq : Nat), seq + l.length = pings →
      (l.foldl (fun a _ => stepW fuel n target pings fresh a) (st, seq, some ident)).1 =
        (l.foldl (fun a _ => pingStep fuel n target ident a) (st, true)).1 ∧
      (l.foldl (fun a _ => stepW fuel n target pings fresh a) (st, seq, some ident)).2.2 =
        (if (l.foldl (fun a _ => pingStep fuel n target ident a) (st, true)).2 then some ident else none) ∧
      (l.foldl (fun a _ => stepW fuel n target pings fresh a) (st, seq, some ident)).2.1 = pings := by
  induction l with
  | nil => intro st seq h; simp at h; simp [h]
  | cons x xs ih =>
    intro st seq h
    have hlt : seq < pings := by simp only [List.length_cons] at h; omega
    simp only [List.foldl_cons]
    have hs : stepW fuel n target pings fresh (st, seq, some ident) =
        ((pingStep fuel n target ident (st, true)).1,
          if (pingStep fuel n target ident (st, true)).2 then seq + 1 else pings,
          if (pingStep fuel n target ident (st, true)).2 then some ident else none) := by
      simp only [stepW, hlt, if_true]
      exact C08_gen_icmp_send_echo fuel n target pings fresh st seq (some ident)
    rw [hs]
    have aux : ∀ s : St × Bool,
        (xs.foldl (fun a _ => stepW fuel n target pings fresh a)
          (s.1, if s.2 then seq + 1 else pings, if s.2 then some ident else none)).1 =
          (xs.foldl (fun a _ => pingStep fuel n target ident a) s).1 ∧
        (xs.foldl (fun a _ => stepW fuel n target pings fresh a)
          (s.1, if s.2 then seq + 1 else pings, if s.2 then some ident else none)).2.2 =
          (if (xs.foldl (fun a _ => pingStep fuel n target ident a) s).2 then some ident else none) ∧
        (xs.foldl (fun a _ => stepW fuel n target pings fresh a)
          (s.1, if s.2 then seq + 1 else pings, if s.2 then some ident else none)).2.1 = pings := by
      intro s
      obtain ⟨s1, s2⟩ := s
      cases s2 with
      | false =>
        simp only [Bool.false_eq_true, if_false]
        rw [stepW_done, pingStep_done]
        simp
      | true =>
        simp only [if_true]
        exact ih s1 (seq + 1) (by simp only [List.length_cons] at h; omega)
    exact aux _

/-- the bounded loop IS the `while` loop: when it ends, `sequence < pings` is false. -/
theorem whileSend_exits (fuel n : Nat) (target : Ip) (pings ident fresh : Nat) (st : St) :
    ¬ ((List.range pings).foldl (fun a _ => stepW fuel n target pings fresh a) (st, 0, some ident)).2.1 < pings := by
  rw [(loop_eq fuel n target pings ident fresh (List.range pings) st 0 (by simp)).2.2]
  exact Nat.lt_irrefl _

/-- **Gen obligation**: the model's `ping` IS the translated `ICMP.ping` — the can-perform guard, the loopback early case
(`any` interface enabled, nothing sent), then `pings` activations of the translated `_send_icmp_echo_request` with one identifier,
stopping at the first unresolvable interface, and success iff the reply counter of that identifier EQUALS `pings`.  For every state,
node, target (loopback or not), fuel, and count ≥ 1 (any count for a loopback target: with `pings = 0` and another target the source
raises ZeroDivisionError out of its statistics line — outside the model). -/
theorem C08_gen_icmp_ping (fuel : Nat) (st : St) (n : Nat) (target : Ip) (pings : Nat)
    (hpos : 0 < pings ∨ isLoopback target = true) :
    ping fuel st n target pings = runP fuel n target pings GI.pingProg st 0 none 0 none false := by
  rw [ping_eq]
  simp only [GI.pingProg, Gen.ForwardIcmp.ping, runP]
  cases hn : st.node? n with
  | none => rfl
  | some nd =>
    simp only
    cases hon : nd.on with
    | false => simp
    | true =>
      cases hlo : isLoopback target with
      | true => simp [hn]
      | false =>
        simp only [Bool.not_true, Bool.false_eq_true, if_false]
        obtain ⟨h1, h2, _⟩ := loop_eq fuel n target pings st.nextId st.nextId (List.range pings)
          { st with nextId := st.nextId + 1 } 0 (by simp)
        have h0 : (List.range pings).foldl (fun a _ => stepW fuel n target pings st.nextId a)
            ({ st with nextId := st.nextId + 1 }, 0, none) =
            (List.range pings).foldl (fun a _ => stepW fuel n target pings st.nextId a)
            ({ st with nextId := st.nextId + 1 }, 0, some st.nextId) := by
          cases pings with
          | zero => rw [hlo] at hpos; simp at hpos
          | succ p =>
            rw [List.range_succ_eq_map]
            simp only [List.foldl_cons]
            congr 1
        rw [h0]
        generalize (List.range pings).foldl (fun a _ => stepW fuel n target pings st.nextId a)
          ({ st with nextId := st.nextId + 1 }, 0, some st.nextId) = r at h1 h2
        generalize (List.range pings).foldl (fun a _ => pingStep fuel n target st.nextId a)
          ({ st with nextId := st.nextId + 1 }, true) = m at h1 h2
        rw [h1, h2]
        cases m.2 <;> cases m.1.node? n <;> simp [cmpOp]

/-! ### `_process_icmp_echo_request` -/

/-- interpreter of the translated `_process_icmp_echo_request`; `ifc`: the arrival interface, `own`: the interface that carries the
frame's destination address (router); locals: `nic`, `pkt`. -/
def runE (fuel n : Nat) (f : Frame) (ifc own : Iface) : EProg → St → Option Nat → Option Pl → St
  | .ifDstNotArrivalIp k, st, nic, pkt => if f.dstIp != ifc.ip then st else runE fuel n f ifc own k st nic pkt
  | .ifArrivalDisabled k, st, nic, pkt => if !ifc.enabled then st else runE fuel n f ifc own k st nic pkt
  | .ifOwnDisabled k, st, nic, pkt => if !own.enabled then st else runE fuel n f ifc own k st nic pkt
  | .resolveSrc k, st, _, pkt => let r := resolveOut fuel st n f.srcIp; runE fuel n f ifc own k r.1 r.2 pkt
  | .ifNoNic k, st, nic, pkt => match nic with | none => st | some _ => runE fuel n f ifc own k st nic pkt
  | .mkReply k, st, nic, _ =>
    runE fuel n f ifc own k st nic (match f.pl with | .echoReq ident => some (.echoRep ident) | _ => none)
  | .handOverSrc k, st, nic, pkt =>
    match pkt with
    | some p => runE fuel n f ifc own k (sendIcmp fuel st n f.srcIp p) nic pkt
    | none => runE fuel n f ifc own k st nic pkt
  | .done, st, _, _ => st

/-- **Gen obligation (hosts)**: what `hostRecv` does with an echo request that reached the software (source learned when the node is
on, the hand-over logged) IS the translated `ICMP._process_icmp_echo_request`: nothing unless the frame is addressed to the ARRIVAL
interface's address; resolve the way back to the frame's SOURCE address; no interface → nothing; else an echo reply with the SAME
identifier handed to the session manager for the source address.  Every state, frame, fuel. -/
theorem C08_gen_icmp_process_echo_host (fuel : Nat) (st : St) (n i : Nat) (f : Frame) (nd : Node) (ifc : Iface) (ident : Nat)
    (hn : st.node? n = some nd) (hi : st.iface? n i = some ifc) (hp : f.pl = .echoReq ident) :
    hostRecv (fuel + 1) st n i f =
      (runE fuel n f ifc ifc GI.hostProcessEcho
        ((if nd.on then st.modNode n (fun nd => nd.addArp f.srcIp f.srcMac i) else st).emit (.sw n f.id f.dstIp (f.dstMac == bcastMac)))
        none none, f) := by
  rw [hostRecv]
  simp only [hn, hi, hp, portClosed, Bool.false_eq_true, if_false, Gen.ForwardIcmp.hostProcessEcho, runE]
  split
  · rfl
  · split <;> simp_all

/-- **Gen obligation (routers, firewalls)**: what `routerRecv` does with a permitted echo request for one of its own addresses IS
the translated `RouterICMP.receive` guard + `RouterICMP._process_icmp_echo_request`: nothing when the interface carrying the address
is disabled; NO test of the arrival interface (a router answers for any of its enabled addresses); then as on a host. -/
theorem C08_gen_icmp_process_echo_router (fuel : Nat) (st : St) (n i : Nat) (f : Frame) (nd : Node) (ifc own : Iface) (ident : Nat)
    (hn : st.node? n = some nd) (hi : st.iface? n i = some ifc) (hp : f.pl = .echoReq ident)
    (hon : (nd.fw.isNone && !nd.on) = false) (hacl : aclDenies nd i (.echoReq ident) = false)
    (hown : ifaceWithIp nd.ifaces f.dstIp = some own) :
    routerRecv (fuel + 1) st n i f =
      (runE fuel n f ifc own GI.routerProcessEcho
        ((st.modNode n (fun nd => nd.addArp f.srcIp f.srcMac i)).emit (.sw n f.id f.dstIp (f.dstMac == bcastMac))) none none, f) := by
  rw [routerRecv]
  simp only [hn, hi, hp, hon, hacl, hown, Bool.false_eq_true, if_false, Gen.ForwardIcmp.routerProcessEcho, runE]
  have e1 : (Pl.echoReq ident == Pl.dataReq) = false := by simp
  have e2 : (Pl.echoReq ident == Pl.dataRep) = false := by simp
  simp only [Pl.isApp, e1, e2, Bool.or_self, Bool.false_eq_true, if_false]
  split
  · rfl
  · split <;> simp_all

/-- Gen obligation: `RouterICMP` overrides `_process_icmp_echo_request` and `receive` only: a router pings with `ICMP.ping` /
`_send_icmp_echo_request` and counts replies with `ICMP._process_icmp_echo_reply`, as the model's single `ping` assumes. -/
theorem C08_gen_icmp_router_overrides : Gen.ForwardIcmp.routerIcmpOverrides = ["_process_icmp_echo_request", "receive"] := by decide

/-! ### counter-models: other sources are other programs with other answers -/

/-- "loopback always answers True": another program; on a node whose only interface is disabled it answers True, the translated
source (and the model) False. -/
def loopTrueProg : PProg := .guardCanPerform (.ifLoopback (.retConst true) .retPassed)

theorem C08_icmp_loopback_countermodel :
    (runP 0 0 0x7F000001#32 4 loopTrueProg { nodes := [{ kind := .host, ifaces := [{ mac := 1, ip := 0xC0A80102#32, plen := 24, enabled := false }] }] }
      0 none 0 none false).2 = true ∧
    (ping 0 { nodes := [{ kind := .host, ifaces := [{ mac := 1, ip := 0xC0A80102#32, plen := 24, enabled := false }] }] } 0 0x7F000001#32 4).2 = false ∧
    (ping 0 { nodes := [{ kind := .host, ifaces := [{ mac := 1, ip := 0xC0A80102#32, plen := 24, enabled := true }] }] } 0 0x7F000001#32 4).2 = true := by
  refine ⟨by decide +kernel, by decide +kernel, by decide +kernel⟩

end Primaite.Forward
