/-
C13 (round 4) — the red applications' attack loops: only a RUNNING instance on an ON node acts.
-/
import PrimaiteModel.Model.C13Bots
import PrimaiteModel.Gen.SoftwareRecv
namespace Primaite.C13
open Primaite.Bots

/-- **A bot that may not act does nothing**: for the DoS bot, the data-manipulation bot and the ransomware script alike, with
`_can_perform_action()` false the attack loop makes no connection attempt, sends no query, draws no random trial, leaves the
attack stage and the cached connection as they were, and answers False — whatever the configuration, the stage, the database
situation and the would-be trial outcomes. -/
theorem C13_bots_act_only_when_running (configured rep trial : Bool) (sessions : Nat) (ds : DosStage) (db : DbEnv)
    (trials : List Bool) (conn : Option Bool) (ms : DmStage) :
    dosLoop false configured rep trial sessions ds = { stage := ds, connects := 0, trialsUsed := 0, ret := false } ∧
    dmLoop false configured rep db trials conn ms =
      { stage := ms, conn := conn, asked := 0, queries := 0, trialsUsed := 0, ret := false } ∧
    rwLoop false configured db conn = { conn := conn, asked := 0, queries := 0, ret := false } :=
  ⟨rfl, rfl, rfl⟩

/-- conversely, whenever a loop acted at all, the instance could act (and was configured) -/
theorem C13_bots_acted_implies_running (canAct configured rep trial : Bool) (sessions : Nat) (ds : DosStage) (db : DbEnv)
    (trials : List Bool) (conn : Option Bool) (ms : DmStage) :
    (0 < (dosLoop canAct configured rep trial sessions ds).connects → canAct = true ∧ configured = true) ∧
    (0 < (dmLoop canAct configured rep db trials conn ms).queries + (dmLoop canAct configured rep db trials conn ms).asked →
      canAct = true ∧ configured = true ∧ db.hasClient = true) ∧
    (0 < (rwLoop canAct configured db conn).queries + (rwLoop canAct configured db conn).asked →
      canAct = true ∧ configured = true ∧ db.hasClient = true) := by
  refine ⟨?_, ?_, ?_⟩
  · cases canAct <;> cases configured <;> simp [dosLoop]
  · cases canAct <;> cases configured <;> cases h : db.hasClient <;> simp [dmLoop, h]
  · cases canAct <;> cases configured <;> cases h : db.hasClient <;> simp [rwLoop, h]

/-- **DoS bot, one pass of the loop** (RUNNING, configured): from NOT_STARTED a successful port scan leads straight through
PORT_SCAN to the attack — `int(max_sessions · intensity)` connection attempts — and the stage ends NOT_STARTED when repeating,
COMPLETED otherwise; a failed scan makes no attempt and ends COMPLETED (also for a repeating bot: it does not try again — as
the code is); from PORT_SCAN the attack is made without a new scan; from ATTACKING / COMPLETED nothing is attempted. -/
theorem C13_dos_loop (rep trial : Bool) (sessions : Nat) (st : DosStage) :
    dosLoop true true rep trial sessions st =
      match st with
      | .notStarted =>
        if trial then { stage := if rep then .notStarted else .completed, connects := sessions, trialsUsed := 1, ret := true }
        else { stage := .completed, connects := 0, trialsUsed := 1, ret := true }
      | .portScan => { stage := if rep then .notStarted else .completed, connects := sessions, trialsUsed := 0, ret := true }
      | .attacking => { stage := if rep then .notStarted else .completed, connects := 0, trialsUsed := 0, ret := true }
      | .completed => { stage := .completed, connects := 0, trialsUsed := 0, ret := true } := by
  cases st <;> cases rep <;> cases trial <;> simp [dosLoop]

/-- **Data-manipulation bot**: the payload query is sent exactly when the bot may act, is configured, a database client is
installed, the stage — after the logon and the port scan of this very pass — is PORT_SCAN, the manipulation trial succeeds, and
a connection is cached or handed out; then it is sent once. -/
theorem C13_dm_query_iff (canAct configured rep : Bool) (db : DbEnv) (t1 t2 : Bool) (conn : Option Bool) (st : DmStage) :
    (dmLoop canAct configured rep db [t1, t2] conn st).queries ≤ 1 ∧
    ((dmLoop canAct configured rep db [t1, t2] conn st).queries = 1 →
      canAct = true ∧ configured = true ∧ db.hasClient = true ∧ (conn.isSome = true ∨ db.offer.isSome = true) ∧
      (st = .notStarted ∨ st = .logon ∨ st = .portScan)) := by
  rcases db with ⟨hc, offer⟩
  cases canAct <;> cases configured <;> cases hc <;> cases st <;> cases t1 <;> cases t2 <;> cases conn <;> cases offer <;>
    simp [dmLoop]

/-- the whole kill chain in one pass: NOT_STARTED, both trials succeed, a database client that hands out a working connection:
LOGON → PORT_SCAN → one query → SUCCEEDED (NOT_STARTED again when repeating); a query that fails ends FAILED -/
theorem C13_dm_kill_chain (rep ok : Bool) :
    dmLoop true true rep { hasClient := true, offer := some ok } [true, true] none .notStarted =
      { stage := if rep then .notStarted else (if ok then .succeeded else .failed), conn := some ok, asked := 1, queries := 1,
        trialsUsed := 2, ret := true } := by
  cases rep <;> cases ok <;> rfl

/-- **Ransomware script**: one encrypt query per pass, exactly when it may act, is configured, a database client is installed
and a connection is cached or handed out; the answer is the query's verdict. -/
theorem C13_rw_loop (canAct configured : Bool) (db : DbEnv) (conn : Option Bool) :
    ((rwLoop canAct configured db conn).queries = 1 ↔
      canAct = true ∧ configured = true ∧ db.hasClient = true ∧ (conn.isSome = true ∨ db.offer.isSome = true)) ∧
    ((rwLoop canAct configured db conn).ret = true → (rwLoop canAct configured db conn).queries = 1) := by
  rcases db with ⟨hc, offer⟩
  cases canAct <;> cases configured <;> cases hc <;> cases conn <;> cases offer <;> simp [rwLoop] <;>
    (rename_i b; cases b <;> simp)

/-- the attack loops read, statement for statement (logging dropped), as `dosLoop` / `dmLoop` / `rwLoop` assume: the
running-guard first in every `_application_loop`, the configuration test, the stage tests in front of every trial and every
action, the connection cached in `_db_connection`; `attack()` / `run()` / `apply_timestep()` reach the loop only through that
guard; the stage enums carry the values the model's stages carry -/
theorem C13_gen_bot_bodies :
    Gen.SoftwareRecv.botBodies = [
  ("DoSBot._application_loop", ["if not self._can_perform_action() { return False }", "if not self.target_ip_address or not self.target_port { return False }", "self.clear_connections()", "self._perform_port_scan(p_of_success=self.port_scan_p_of_success)", "self._perform_dos()", "if self.repeat and self.attack_stage is DoSAttackStage.ATTACKING { self.attack_stage = DoSAttackStage.NOT_STARTED } else { self.attack_stage = DoSAttackStage.COMPLETED }", "return True"]),
  ("DoSBot._perform_port_scan", ["if self.attack_stage == DoSAttackStage.NOT_STARTED { if simulate_trial(p_of_success) { port_is_open = True; if port_is_open { self.attack_stage = DoSAttackStage.PORT_SCAN } } }"]),
  ("DoSBot._perform_dos", ["if not self.attack_stage == DoSAttackStage.PORT_SCAN { return }", "self.attack_stage = DoSAttackStage.ATTACKING", "self.server_ip_address = self.target_ip_address", "self.port = self.target_port", "dos_sessions = int(float(self.max_sessions) * self.dos_intensity)", "for i in range(dos_sessions) { self.connect() }"]),
  ("DoSBot.run", ["super().run()", "return self._application_loop()"]),
  ("DoSBot.apply_timestep", ["super().apply_timestep(timestep=timestep)", "self._application_loop()"]),
  ("DataManipulationBot._application_loop", ["if not self._can_perform_action() { return False }", "if self.server_ip_address and self.payload { self._logon(); self._perform_port_scan(p_of_success=self.port_scan_p_of_success); self._perform_data_manipulation(p_of_success=self.data_manipulation_p_of_success); if self.repeat and self.attack_stage in (DataManipulationAttackStage.SUCCEEDED, DataManipulationAttackStage.FAILED) { self.attack_stage = DataManipulationAttackStage.NOT_STARTED }; return True } else { return False }"]),
  ("DataManipulationBot._logon", ["if self.attack_stage == DataManipulationAttackStage.NOT_STARTED { self.attack_stage = DataManipulationAttackStage.LOGON }"]),
  ("DataManipulationBot._perform_port_scan", ["if self.attack_stage == DataManipulationAttackStage.LOGON { if simulate_trial(p_of_success) { port_is_open = True; if port_is_open { self.attack_stage = DataManipulationAttackStage.PORT_SCAN } } }"]),
  ("DataManipulationBot._perform_data_manipulation", ["if self._host_db_client is None { self.attack_stage = DataManipulationAttackStage.FAILED; return }", "self._host_db_client.server_ip_address = self.server_ip_address", "self._host_db_client.server_password = self.server_password", "if self.attack_stage == DataManipulationAttackStage.PORT_SCAN { if simulate_trial(p_of_success) { if not self._db_connection { self._establish_db_connection() }; if self._db_connection { attack_successful = self._db_connection.query(self.payload); if attack_successful { self.attack_stage = DataManipulationAttackStage.SUCCEEDED } else { self.attack_stage = DataManipulationAttackStage.FAILED } } } }"]),
  ("DataManipulationBot._establish_db_connection", ["self._db_connection = self._host_db_client.get_new_connection()", "return True if self._db_connection else False"]),
  ("DataManipulationBot.attack", ["if not self._can_perform_action() { self.run() }", "self.num_executions += 1", "return self._application_loop()"]),
  ("DataManipulationBot.run", ["super().run()"]),
  ("DataManipulationBot.apply_timestep", ["super().apply_timestep(timestep=timestep)"]),
  ("RansomwareScript._application_loop", ["if not self._can_perform_action() { return False }", "if self.server_ip_address and self.payload { if self._perform_ransomware_encrypt() { return True }; return False } else { return False }"]),
  ("RansomwareScript._perform_ransomware_encrypt", ["if self._host_db_client is None { return False }", "self._host_db_client.server_ip_address = self.server_ip_address", "self._host_db_client.server_password = self.server_password", "if not self._db_connection { self._establish_db_connection() }", "if self._db_connection { attack_successful = self._db_connection.query(self.payload); if attack_successful { return True } else {  }; return False } else { return False }"]),
  ("RansomwareScript._establish_db_connection", ["self._db_connection = self._host_db_client.get_new_connection()", "return True if self._db_connection else False"]),
  ("RansomwareScript.attack", ["self.run()", "if not self._can_perform_action() {  }", "self.num_executions += 1", "return self._application_loop()"]),
  ("RansomwareScript.run", ["super().run()", "return True"])] ∧
    Gen.SoftwareRecv.dosStages = [("NOT_STARTED", DosStage.notStarted.value), ("PORT_SCAN", DosStage.portScan.value),
      ("ATTACKING", DosStage.attacking.value), ("COMPLETED", DosStage.completed.value)] ∧
    Gen.SoftwareRecv.dmStages = [("NOT_STARTED", DmStage.notStarted.value), ("LOGON", DmStage.logon.value),
      ("PORT_SCAN", DmStage.portScan.value), ("ATTACKING", DmStage.attacking.value), ("SUCCEEDED", DmStage.succeeded.value),
      ("FAILED", DmStage.failed.value)] := by
  refine ⟨by rfl, by decide, by decide⟩

end Primaite.C13
